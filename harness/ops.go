package main

// The op interpreter: Env.Exec executes one op line and returns its observation block.

import (
	"context"
	"fmt"
	"math/big"
	"os"
	"sort"
	"strconv"
	"strings"
	"time"

	"cosmossdk.io/math"
	codectypes "github.com/cosmos/cosmos-sdk/codec/types"
	sdk "github.com/cosmos/cosmos-sdk/types"
	"github.com/cosmos/cosmos-sdk/types/query"
	minttypes "github.com/cosmos/cosmos-sdk/x/mint/types"

	"github.com/tendermint/fundraising/x/fundraising/keeper"
	fundraising "github.com/tendermint/fundraising/x/fundraising/module"
	"github.com/tendermint/fundraising/x/fundraising/types"
)

const pageLimit = 100000

// moduleOps are the ops that consume (and afterwards disarm) a pending `fault` / `failhook`.
var moduleOps = map[string]bool{
	"createF": true, "createB": true, "cancel": true, "place": true, "modify": true, "addmsg": true,
	"params": true, "kadd": true, "kupd": true, "block": true,
}

// ---------------------------------------------------------------------------------------------
// token reader

type toks struct {
	e   *Env
	t   []string
	i   int
	err error
}

func (p *toks) fail(format string, args ...interface{}) {
	if p.err == nil {
		p.err = fmt.Errorf(format, args...)
	}
}

func (p *toks) next() string {
	if p.err != nil {
		return ""
	}
	if p.i >= len(p.t) {
		p.fail("missing token %d", p.i)
		return ""
	}
	s := p.t[p.i]
	p.i++
	return s
}

func (p *toks) u64() uint64 {
	s := p.next()
	if p.err != nil {
		return 0
	}
	v, err := strconv.ParseUint(s, 10, 64)
	if err != nil {
		p.fail("bad uint64 %q", s)
	}
	return v
}

func (p *toks) u32() uint32 {
	s := p.next()
	if p.err != nil {
		return 0
	}
	v, err := strconv.ParseUint(s, 10, 32)
	if err != nil {
		p.fail("bad uint32 %q", s)
	}
	return uint32(v)
}

func (p *toks) i64() int64 {
	s := p.next()
	if p.err != nil {
		return 0
	}
	v, err := strconv.ParseInt(s, 10, 64)
	if err != nil {
		p.fail("bad int64 %q", s)
	}
	return v
}

// count reads a small non-negative list length.
func (p *toks) count() int {
	v := p.u64()
	if p.err == nil && v > 100000 {
		p.fail("count %d too large", v)
		return 0
	}
	return int(v)
}

func (p *toks) time() time.Time { return time.Unix(p.i64(), 0).UTC() }

func (p *toks) amt() math.Int {
	s := p.next()
	if p.err != nil {
		return math.ZeroInt()
	}
	v, ok := math.NewIntFromString(s)
	if !ok {
		p.fail("bad integer %q", s)
		return math.ZeroInt()
	}
	return v
}

// dec reads a raw LegacyDec (value × 10^18).
func (p *toks) dec() math.LegacyDec {
	s := p.next()
	if p.err != nil {
		return math.LegacyZeroDec()
	}
	b, ok := new(big.Int).SetString(s, 10)
	if !ok || b.BitLen() > 255 {
		p.fail("bad decimal %q", s)
		return math.LegacyZeroDec()
	}
	return math.LegacyNewDecFromBigIntWithPrec(b, math.LegacyPrecision)
}

func (p *toks) denom() string {
	s := p.next()
	if p.err != nil {
		return ""
	}
	v, err := strconv.Atoi(s)
	if err != nil {
		p.fail("bad denom index %q", s)
		return ""
	}
	d, ok := denomOf(v)
	if !ok {
		p.fail("unknown denom index %d", v)
	}
	return d
}

// coin reads `<denom> <amt>` and builds the coin literally (no validation).
func (p *toks) coin() sdk.Coin {
	d := p.denom()
	a := p.amt()
	return sdk.Coin{Denom: d, Amount: a}
}

// coins reads `<n> (<denom> <amt>)*` and builds the slice literally (no sorting, no validation).
func (p *toks) coins() sdk.Coins {
	n := p.count()
	cs := sdk.Coins{}
	for i := 0; i < n && p.err == nil; i++ {
		cs = append(cs, p.coin())
	}
	return cs
}

// signer reads a signer/bidder index (user, 900, 901) and returns the address string.
func (p *toks) signer() string {
	s := p.next()
	if p.err != nil {
		return ""
	}
	v, err := strconv.Atoi(s)
	if err != nil {
		p.fail("bad signer index %q", s)
		return ""
	}
	a, ok := p.e.signer(v)
	if !ok {
		p.fail("unknown signer index %d", v)
	}
	return a
}

// user reads a plain user index 0…11.
func (p *toks) user() sdk.AccAddress {
	s := p.next()
	if p.err != nil {
		return nil
	}
	v, err := strconv.Atoi(s)
	if err != nil || v < 0 || v >= NumUsers {
		p.fail("bad user index %q", s)
		return nil
	}
	return p.e.users[v]
}

func (p *toks) schedules() []types.VestingSchedule {
	n := p.count()
	vs := []types.VestingSchedule{}
	for i := 0; i < n && p.err == nil; i++ {
		t := p.time()
		w := p.dec()
		vs = append(vs, types.VestingSchedule{ReleaseTime: t, Weight: w})
	}
	return vs
}

func (p *toks) allowedBidder() types.AllowedBidder {
	rec := p.u64()
	b := p.signer()
	m := p.amt()
	return types.AllowedBidder{AuctionId: rec, Bidder: b, MaxBidAmount: m}
}

func (p *toks) done() error {
	if p.err == nil && p.i != len(p.t) {
		p.fail("%d unexpected trailing token(s)", len(p.t)-p.i)
	}
	return p.err
}

// ---------------------------------------------------------------------------------------------
// execution helpers

// runCached runs f on a cached context; the cache is written only if f returns nil and does not
// panic.
func (e *Env) runCached(f func(ctx sdk.Context) error) (err error, panicked bool) {
	cctx, write := e.ctx.CacheContext()
	defer func() {
		if r := recover(); r != nil {
			panicked = true
			err = fmt.Errorf("panic: %v", r)
			e.rec.comment("panic: %v", r)
		}
	}()
	err = f(cctx)
	if err == nil {
		write()
	}
	return err, false
}

// runMsg executes a message op: ValidateBasic (if any), then the handler on a cached context.
func (e *Env) runMsg(validate func() error, handler func(ctx context.Context) error) string {
	if validate != nil {
		if err := validate(); err != nil {
			e.rec.comment("ValidateBasic: %v", err)
			return "res err"
		}
	}
	err, panicked := e.runCached(func(ctx sdk.Context) error { return handler(ctx) })
	if err != nil {
		if !panicked {
			e.rec.comment("error: %v", err)
		}
		return "res err"
	}
	return "res ok"
}

// runModuleMsg executes a message op: in `run` mode ValidateBasic + our MsgServer on a cached
// context, in app mode as a signed tx in its own block (see app.go).
func (e *Env) runModuleMsg(msg sdk.Msg, signer string, validate func() error, handler func(ctx context.Context) error) string {
	if e.appMode {
		if _, isParams := msg.(*types.MsgUpdateParams); isParams {
			// the gov authority has no key: MsgUpdateParams always goes through the msg router
			return e.appRoute(msg)
		}
		return e.appDeliver(msg, signer)
	}
	return e.runMsg(validate, handler)
}

func (e *Env) unsupportedInApp() (string, []string) {
	e.rec.comment(unsupportedApp)
	return "res err", nil
}

func (e *Env) badOp(err error) (string, []string) {
	e.bad = true
	e.rec.comment("bad op: %v", err)
	return "res err", nil
}

// Exec executes one op line and returns the complete observation block (terminated by ".\n").
func (e *Env) Exec(line string) string {
	line = strings.TrimRight(line, "\r\n")

	fields := strings.Fields(line)
	// `fault` / `failhook` are active during the next module op only and are disarmed when it
	// has completed; all other ops leave them armed.
	// A malformed line ("bad op") is not a module op: nothing ran, so the injections stay armed.
	savedFault, savedHooks := e.pendFault, e.pendHooks
	isModuleOp := len(fields) > 0 && moduleOps[fields[0]]
	if isModuleOp {
		e.rec.beginOp(e.pendFault, e.pendHooks)
		e.pendFault = -1
		e.pendHooks = map[string]bool{}
	} else {
		e.rec.beginOp(-1, nil)
	}
	if e.appMode {
		e.ctx = e.appCtx() // between blocks: uncached context on the committed state
	} else {
		e.ctx = e.ctx.WithEventManager(sdk.NewEventManager())
	}

	e.bad = false
	res, rlines := e.dispatch(fields)
	if e.appMode {
		e.ctx = e.appCtx() // blocks may have been committed: re-read for the dump
		if e.appBroken != "" {
			e.rec.comment("app state unreliable until reset: %s", e.appBroken)
		}
	}
	if isModuleOp && e.bad {
		e.pendFault, e.pendHooks = savedFault, savedHooks
	}

	rec := e.rec // `reset` replaces the recorder
	rec.faultK = -1
	rec.failhooks = map[string]bool{}

	var b strings.Builder
	b.WriteString("> " + line + "\n")
	b.WriteString(res + "\n")
	for _, c := range rec.comments {
		b.WriteString(c + "\n")
	}
	// H and T lines form one log in call order; T lines are dropped unless the op succeeded.
	for _, ev := range rec.events {
		if strings.HasPrefix(ev, "T ") && res != "res ok" {
			b.WriteString("# discarded " + ev + "\n")
			continue
		}
		b.WriteString(ev + "\n")
	}
	// C14: with HARNESS_EVENTS=1 the ordered events of the op (module and bank events, as
	// the EventManager recorded them) are printed too; the model does not produce them, they
	// are compared between repeated executions only.
	if os.Getenv("HARNESS_EVENTS") == "1" && res == "res ok" {
		for _, ev := range e.ctx.EventManager().Events() {
			var sb strings.Builder
			sb.WriteString("E " + ev.Type)
			for _, a := range ev.Attributes {
				sb.WriteString(" " + a.Key + "=" + strings.ReplaceAll(a.Value, " ", "_"))
			}
			b.WriteString(sb.String() + "\n")
		}
	}
	for _, x := range rec.extra {
		b.WriteString(x + "\n")
	}
	for _, r := range rlines {
		b.WriteString("R " + r + "\n")
	}
	for _, d := range e.Dump() {
		b.WriteString(d + "\n")
	}
	b.WriteString(".\n")
	return b.String()
}

func (e *Env) dispatch(t []string) (string, []string) {
	if len(t) == 0 {
		return e.badOp(fmt.Errorf("empty op"))
	}
	p := &toks{e: e, t: t, i: 1}
	switch t[0] {
	case "reset":
		if err := p.done(); err != nil {
			return e.badOp(err)
		}
		if err := e.Reset(); err != nil {
			panic(fmt.Sprintf("harness broken: reset failed: %v", err))
		}
		e.rec.comment("users %s", strings.Join(e.userStrs, " "))
		e.rec.comment("authority %s pool %s EnableAddAllowedBidder=%v", e.authority, e.poolAddr.String(), keeper.EnableAddAllowedBidder)
		return "res ok", nil

	case "fund":
		u := p.user()
		c := p.coin()
		if err := p.done(); err != nil {
			return e.badOp(err)
		}
		coins := sdk.Coins{c}
		err, panicked := e.runCached(func(ctx sdk.Context) error {
			if err := e.app.BankKeeper.MintCoins(ctx, minttypes.ModuleName, coins); err != nil {
				return err
			}
			return e.app.BankKeeper.SendCoinsFromModuleToAccount(ctx, minttypes.ModuleName, u, coins)
		})
		if err != nil && !panicked {
			e.rec.comment("error: %v", err)
		}
		// PROTOCOL: `fund` is always `res ok`; a refused mint (invalid denom, non-positive amount)
		// leaves the state unchanged and is only visible in the comment.
		return "res ok", nil

	case "gift":
		from := p.user()
		to := p.next()
		c := p.coin()
		if err := p.done(); err != nil {
			return e.badOp(err)
		}
		toAddr, err := e.parseAddrToken(to)
		if err != nil {
			return e.badOp(err)
		}
		coins := sdk.Coins{c}
		err, panicked := e.runCached(func(ctx sdk.Context) error {
			return e.app.BankKeeper.SendCoins(ctx, from, toAddr, coins)
		})
		if err != nil {
			if !panicked {
				e.rec.comment("error: %v", err)
			}
			return "res err", nil
		}
		return "res ok", nil

	case "createF":
		msg := &types.MsgCreateFixedPriceAuction{}
		msg.Auctioneer = p.signer()
		msg.StartPrice = p.dec()
		msg.SellingCoin = p.coin()
		msg.PayingCoinDenom = p.denom()
		msg.StartTime = p.time()
		msg.EndTime = p.time()
		msg.VestingSchedules = p.schedules()
		if err := p.done(); err != nil {
			return e.badOp(err)
		}
		return e.runModuleMsg(msg, msg.Auctioneer, msg.ValidateBasic, func(ctx context.Context) error {
			_, err := e.msgs.CreateFixedPriceAuction(ctx, msg)
			return err
		}), nil

	case "createB":
		msg := &types.MsgCreateBatchAuction{}
		msg.Auctioneer = p.signer()
		msg.StartPrice = p.dec()
		msg.MinBidPrice = p.dec()
		msg.SellingCoin = p.coin()
		msg.PayingCoinDenom = p.denom()
		msg.MaxExtendedRound = p.u32()
		msg.ExtendedRoundRate = p.dec()
		msg.StartTime = p.time()
		msg.EndTime = p.time()
		msg.VestingSchedules = p.schedules()
		if err := p.done(); err != nil {
			return e.badOp(err)
		}
		return e.runModuleMsg(msg, msg.Auctioneer, msg.ValidateBasic, func(ctx context.Context) error {
			_, err := e.msgs.CreateBatchAuction(ctx, msg)
			return err
		}), nil

	case "cancel":
		msg := &types.MsgCancelAuction{}
		msg.Auctioneer = p.signer()
		msg.AuctionId = p.u64()
		if err := p.done(); err != nil {
			return e.badOp(err)
		}
		return e.runModuleMsg(msg, msg.Auctioneer, msg.ValidateBasic, func(ctx context.Context) error {
			_, err := e.msgs.CancelAuction(ctx, msg)
			return err
		}), nil

	case "place":
		msg := &types.MsgPlaceBid{}
		msg.Bidder = p.signer()
		msg.AuctionId = p.u64()
		switch bt := p.next(); bt {
		case "F":
			msg.BidType = types.BidTypeFixedPrice
		case "W":
			msg.BidType = types.BidTypeBatchWorth
		case "M":
			msg.BidType = types.BidTypeBatchMany
		case "X":
			msg.BidType = types.BidType(7)
		case "N":
			msg.BidType = types.BidType(0) // BID_TYPE_UNSPECIFIED: the field left out
		default:
			p.fail("bad bid type %q", bt)
		}
		msg.Price = p.dec()
		msg.Coin = p.coin()
		if err := p.done(); err != nil {
			return e.badOp(err)
		}
		return e.runModuleMsg(msg, msg.Bidder, msg.ValidateBasic, func(ctx context.Context) error {
			_, err := e.msgs.PlaceBid(ctx, msg)
			return err
		}), nil

	case "modify":
		msg := &types.MsgModifyBid{}
		msg.Bidder = p.signer()
		msg.AuctionId = p.u64()
		msg.BidId = p.u64()
		msg.Price = p.dec()
		msg.Coin = p.coin()
		if err := p.done(); err != nil {
			return e.badOp(err)
		}
		return e.runModuleMsg(msg, msg.Bidder, msg.ValidateBasic, func(ctx context.Context) error {
			_, err := e.msgs.ModifyBid(ctx, msg)
			return err
		}), nil

	case "addmsg":
		msg := &types.MsgAddAllowedBidder{}
		msg.AuctionId = p.u64()
		msg.AllowedBidder = p.allowedBidder()
		if err := p.done(); err != nil {
			return e.badOp(err)
		}
		return e.runModuleMsg(msg, msg.AllowedBidder.Bidder, msg.ValidateBasic, func(ctx context.Context) error {
			_, err := e.msgs.AddAllowedBidder(ctx, msg)
			return err
		}), nil

	case "params":
		msg := &types.MsgUpdateParams{}
		msg.Authority = p.signer()
		msg.Params.AuctionCreationFee = p.coins()
		msg.Params.PlaceBidFee = p.coins()
		msg.Params.ExtendedPeriod = p.u32()
		if err := p.done(); err != nil {
			return e.badOp(err)
		}
		// MsgUpdateParams has no ValidateBasic.
		return e.runModuleMsg(msg, msg.Authority, nil, func(ctx context.Context) error {
			_, err := e.msgs.UpdateParams(ctx, msg)
			return err
		}), nil

	case "kadd":
		id := p.u64()
		n := p.count()
		abs := []types.AllowedBidder{}
		for i := 0; i < n && p.err == nil; i++ {
			abs = append(abs, p.allowedBidder())
		}
		if err := p.done(); err != nil {
			return e.badOp(err)
		}
		return e.runMsg(nil, func(ctx context.Context) error { return e.k.AddAllowedBidders(ctx, id, abs) }), nil

	case "kupd":
		id := p.u64()
		bidder := p.signer()
		m := p.amt()
		if err := p.done(); err != nil {
			return e.badOp(err)
		}
		addr, err := sdk.AccAddressFromBech32(bidder)
		if err != nil {
			// UpdateAllowedBidder takes an sdk.AccAddress: an address string that does not parse
			// cannot be passed at all.
			e.rec.comment("error: bidder %q is not an address; keeper not called", bidder)
			return "res err", nil
		}
		return e.runMsg(nil, func(ctx context.Context) error { return e.k.UpdateAllowedBidder(ctx, id, addr, m) }), nil

	case "block":
		tm := p.time()
		if err := p.done(); err != nil {
			return e.badOp(err)
		}
		if e.appMode {
			e.blockTime = tm
			_, err, panicked := e.appBlock(tm, nil)
			switch {
			case panicked:
				return "res panic", nil
			case err != nil:
				e.rec.comment("FinalizeBlock error: %v", err)
				return "res err", nil
			}
			return "res ok", nil
		}
		e.ctx = e.ctx.WithBlockTime(tm)
		err, panicked := e.runCached(func(ctx sdk.Context) error { return e.k.BeginBlocker(ctx) })
		switch {
		case panicked:
			return "res panic", nil
		case err != nil:
			e.rec.comment("error: %v", err)
			return "res err", nil
		}
		return "res ok", nil

	case "genesis":
		if err := p.done(); err != nil {
			return e.badOp(err)
		}
		if e.appMode {
			return e.unsupportedInApp()
		}
		stage := "export"
		err, panicked := e.runCached(func(ctx sdk.Context) error {
			gs, err := fundraising.ExportGenesis(ctx, e.k)
			if err != nil {
				return err
			}
			stage = "validate"
			if err := gs.Validate(); err != nil {
				return err
			}
			stage = "import"
			e.wipeStore(ctx)
			return fundraising.InitGenesis(ctx, e.k, *gs)
		})
		if err != nil {
			if !panicked {
				e.rec.comment("error: %v", err)
			}
			return "res err " + stage, nil
		}
		return "res ok", nil

	case "listeners":
		n := p.u64()
		if err := p.done(); err != nil {
			return e.badOp(err)
		}
		if n > MaxListeners {
			return e.badOp(fmt.Errorf("listener count %d out of range", n))
		}
		if e.appMode {
			return e.unsupportedInApp()
		}
		e.nListeners = int(n)
		return "res ok", nil

	case "failhook":
		name := p.next()
		idx := p.u64()
		if err := p.done(); err != nil {
			return e.badOp(err)
		}
		if !isHookName(name) {
			return e.badOp(fmt.Errorf("unknown hook %q", name))
		}
		if idx >= MaxListeners {
			return e.badOp(fmt.Errorf("listener index %d out of range", idx))
		}
		if e.appMode {
			return e.unsupportedInApp()
		}
		// last one wins: only ONE failing listener can be armed (as in the model)
		e.pendHooks = map[string]bool{fmt.Sprintf("%s/%d", name, idx): true}
		return "res ok", nil

	case "fault":
		k := p.u64()
		if err := p.done(); err != nil {
			return e.badOp(err)
		}
		if k > 1<<30 {
			return e.badOp(fmt.Errorf("fault index %d too large", k))
		}
		if e.appMode {
			return e.unsupportedInApp()
		}
		e.pendFault = int(k)
		return "res ok", nil

	case "qbids", "qallowed", "qvestings", "qauctions", "qauction", "qbid", "qallowedone":
		return e.queryOp(t[0], p)
	}
	return e.badOp(fmt.Errorf("unknown op %q", t[0]))
}

// parseAddrToken parses u<i> | S<a> | P<a> | V<a>.
func (e *Env) parseAddrToken(s string) (sdk.AccAddress, error) {
	if len(s) < 2 {
		return nil, fmt.Errorf("bad address token %q", s)
	}
	n, err := strconv.ParseUint(s[1:], 10, 64)
	if err != nil {
		return nil, fmt.Errorf("bad address token %q", s)
	}
	switch s[0] {
	case 'u':
		if n >= NumUsers {
			return nil, fmt.Errorf("bad user in address token %q", s)
		}
		return e.users[n], nil
	case 'S', 'P', 'V':
		if n < 1<<20 {
			e.ensureEscrows(n + 1)
		}
		switch s[0] {
		case 'S':
			return types.SellingReserveAddress(n), nil
		case 'P':
			return types.PayingReserveAddress(n), nil
		}
		return types.VestingReserveAddress(n), nil
	}
	return nil, fmt.Errorf("bad address token %q", s)
}

// wipeStore deletes every key of the module's KVStore.
func (e *Env) wipeStore(ctx sdk.Context) {
	store := ctx.KVStore(e.storeKey)
	var keys [][]byte
	it := store.Iterator(nil, nil)
	for ; it.Valid(); it.Next() {
		keys = append(keys, append([]byte(nil), it.Key()...))
	}
	it.Close()
	for _, k := range keys {
		store.Delete(k)
	}
}

// ---------------------------------------------------------------------------------------------
// queries

// pages calls one(page request) until the response carries no next key.
func pages(one func(*query.PageRequest) (*query.PageResponse, error)) error {
	var key []byte
	for i := 0; i < 1000; i++ {
		res, err := one(&query.PageRequest{Key: key, Limit: pageLimit})
		if err != nil {
			return err
		}
		if res == nil || len(res.NextKey) == 0 {
			return nil
		}
		key = res.NextKey
	}
	return fmt.Errorf("too many pages")
}

func (e *Env) queryOp(op string, p *toks) (res string, rlines []string) {
	var run func(ctx context.Context) error
	switch op {
	case "qbids":
		req := types.QueryAllBidRequest{AuctionId: p.u64()}
		if s := p.next(); s != "-" && p.err == nil {
			p.i--
			req.Bidder = p.signer()
		}
		switch s := p.next(); s {
		case "-":
		case "0":
			req.IsMatched = "false"
		case "1":
			req.IsMatched = "true"
		default:
			p.fail("bad matched flag %q", s)
		}
		run = func(ctx context.Context) error {
			return pages(func(pr *query.PageRequest) (*query.PageResponse, error) {
				r := req
				r.Pagination = pr
				resp, err := e.query.ListBid(ctx, &r)
				if err != nil {
					return nil, err
				}
				for _, b := range resp.Bid {
					rlines = append(rlines, e.bidLine(b.AuctionId, b.Id, b))
				}
				return resp.Pagination, nil
			})
		}

	case "qallowed":
		req := types.QueryAllAllowedBidderRequest{AuctionId: p.u64()}
		run = func(ctx context.Context) error {
			return pages(func(pr *query.PageRequest) (*query.PageResponse, error) {
				r := req
				r.Pagination = pr
				resp, err := e.query.ListAllowedBidder(ctx, &r)
				if err != nil {
					return nil, err
				}
				for _, ab := range resp.AllowedBidder {
					rlines = append(rlines, e.allowedLine(ab.AuctionId, e.addrStr(ab.Bidder), ab))
				}
				// The collection is ordered by address bytes, the model by user index
				// (= bech32 string order): report in (auction, user index) order.
				sort.SliceStable(rlines, func(i, j int) bool {
					ai, ui := allowedSortKey(rlines[i])
					aj, uj := allowedSortKey(rlines[j])
					if ai != aj {
						return ai < aj
					}
					return ui < uj
				})
				return resp.Pagination, nil
			})
		}

	case "qvestings":
		req := types.QueryAllVestingQueueRequest{AuctionId: p.u64()}
		run = func(ctx context.Context) error {
			return pages(func(pr *query.PageRequest) (*query.PageResponse, error) {
				r := req
				r.Pagination = pr
				resp, err := e.query.ListVestingQueue(ctx, &r)
				if err != nil {
					return nil, err
				}
				for _, q := range resp.VestingQueue {
					rlines = append(rlines, e.queueLine(q.AuctionId, q.ReleaseTime, q))
				}
				return resp.Pagination, nil
			})
		}

	case "qauctions":
		req := types.QueryAllAuctionRequest{}
		if s := p.next(); s != "-" && p.err == nil {
			n, err := strconv.ParseInt(s, 10, 32)
			if err != nil {
				p.fail("bad status code %q", s)
			}
			req.Status = types.AuctionStatus(n).String()
		}
		switch s := p.next(); s {
		case "-":
		case "F":
			req.Type = types.AuctionTypeFixedPrice.String()
		case "B":
			req.Type = types.AuctionTypeBatch.String()
		default:
			p.fail("bad auction type %q", s)
		}
		run = func(ctx context.Context) error {
			return pages(func(pr *query.PageRequest) (*query.PageResponse, error) {
				r := req
				r.Pagination = pr
				resp, err := e.query.ListAuction(ctx, &r)
				if err != nil {
					return nil, err
				}
				for _, any := range resp.Auction {
					rlines = append(rlines, e.anyAuctionLine(any))
				}
				return resp.Pagination, nil
			})
		}

	case "qauction":
		req := types.QueryGetAuctionRequest{AuctionId: p.u64()}
		run = func(ctx context.Context) error {
			resp, err := e.query.GetAuction(ctx, &req)
			if err != nil {
				return err
			}
			rlines = append(rlines, e.anyAuctionLine(resp.Auction))
			return nil
		}

	case "qbid":
		req := types.QueryGetBidRequest{AuctionId: p.u64(), BidId: p.u64()}
		run = func(ctx context.Context) error {
			resp, err := e.query.GetBid(ctx, &req)
			if err != nil {
				return err
			}
			rlines = append(rlines, e.bidLine(resp.Bid.AuctionId, resp.Bid.Id, resp.Bid))
			return nil
		}

	case "qallowedone":
		req := types.QueryGetAllowedBidderRequest{AuctionId: p.u64(), Bidder: p.signer()}
		run = func(ctx context.Context) error {
			resp, err := e.query.GetAllowedBidder(ctx, &req)
			if err != nil {
				return err
			}
			ab := resp.AllowedBidder
			rlines = append(rlines, e.allowedLine(ab.AuctionId, e.addrStr(ab.Bidder), ab))
			return nil
		}
	}
	if err := p.done(); err != nil {
		return e.badOp(err)
	}

	// queries never write: run on a cache that is thrown away.
	cctx, _ := e.ctx.CacheContext()
	var err error
	func() {
		defer func() {
			if r := recover(); r != nil {
				err = fmt.Errorf("panic: %v", r)
			}
		}()
		err = run(cctx)
	}()
	if err != nil {
		e.rec.comment("error: %v", err)
		return "res err", nil
	}
	return "res ok", rlines
}

func (e *Env) anyAuctionLine(any *codectypes.Any) string {
	a, err := types.UnpackAuction(any)
	if err != nil {
		return "A x:unpack"
	}
	return e.auctionLine(a)
}

// allowedSortKey extracts (auction id, user index) from a rendered `W …` line.
func allowedSortKey(line string) (uint64, uint64) {
	f := strings.Fields(line)
	if len(f) < 3 {
		return 0, 0
	}
	a, _ := strconv.ParseUint(f[1], 10, 64)
	u, err := strconv.ParseUint(strings.TrimPrefix(f[2], "u"), 10, 64)
	if err != nil {
		u = 1 << 62
	}
	return a, u
}
