package main

// Generator support: a typed snapshot of the real module state (read from the keeper's
// collections) and the measured distribution printed by `harness gen`.

import (
	"fmt"
	"math/big"
	"regexp"
	"strings"
	"time"

	"cosmossdk.io/collections"
	"cosmossdk.io/math"
	sdk "github.com/cosmos/cosmos-sdk/types"

	"github.com/tendermint/fundraising/x/fundraising/types"
)

type aucInfo struct {
	id         uint64
	batch      bool
	status     int
	auctioneer int // user index, -1 if not a user
	sellDenom  int // denom index, -1 if unknown
	payDenom   int
	sellAmt    *big.Int
	startPrice *big.Int
	minBid     *big.Int // batch only (else 0)
	remaining  *big.Int // fixed only (else 0)
	start      int64
	ends       []int64
	releases   []int64 // release instants of the vesting schedule
	maxExt     uint32
	rate       *big.Int // batch only: extended round rate (raw)
	matchedLen int64    // MatchedBidsLen entry (0 if none)
}

func (a *aucInfo) lastEnd() int64 { return a.ends[len(a.ends)-1] }

type bidInfo struct {
	auction uint64
	id      uint64
	bidder  int // user index or -1
	typ     types.BidType
	price   *big.Int
	denom   int
	amt     *big.Int
}

type queueInfo struct {
	release  int64
	released bool
}

type snapshot struct {
	next    uint64
	aucs    []*aucInfo
	bids    map[uint64][]bidInfo
	allowed map[uint64]map[int]*big.Int // auction -> user index -> cap (by store key)
	queues  map[uint64][]queueInfo
	params  types.Params
}

func emptySnapshot() *snapshot {
	return &snapshot{bids: map[uint64][]bidInfo{}, allowed: map[uint64]map[int]*big.Int{}, queues: map[uint64][]queueInfo{}}
}

func (s *snapshot) auc(id uint64) *aucInfo {
	for _, a := range s.aucs {
		if a.id == id {
			return a
		}
	}
	return nil
}

// allowedUsers returns the allow-listed user indices of an auction in increasing order.
func (s *snapshot) allowedUsers(id uint64) []int {
	var out []int
	for u := 0; u < NumUsers; u++ {
		if _, ok := s.allowed[id][u]; ok {
			out = append(out, u)
		}
	}
	return out
}

func denomIdx(d string) int {
	for i, s := range Denoms {
		if s == d {
			return i
		}
	}
	return -1
}

func (e *Env) userOf(addr string) int {
	if i, ok := e.userIdx[addr]; ok {
		return i
	}
	return -1
}

func unixAll(ts []time.Time) []int64 {
	out := make([]int64, len(ts))
	for i, t := range ts {
		out[i] = t.Unix()
	}
	return out
}

func decRaw(d interface{ BigInt() *big.Int }) *big.Int {
	if b := d.BigInt(); b != nil {
		return b
	}
	return new(big.Int)
}

// Snapshot reads the module state the generator bases its choices on.
func (e *Env) Snapshot() *snapshot {
	s := emptySnapshot()
	ctx, k := e.ctx, e.k
	s.next, _ = k.AuctionSeq.Peek(ctx)
	if p, err := k.Params.Get(ctx); err == nil {
		s.params = p
	}
	_ = k.Auction.Walk(ctx, nil, func(_ uint64, a types.AuctionI) (bool, error) {
		var base *types.BaseAuction
		info := &aucInfo{minBid: new(big.Int), remaining: new(big.Int), rate: new(big.Int)}
		switch x := a.(type) {
		case *types.FixedPriceAuction:
			base = x.BaseAuction
			info.remaining = x.RemainingSellingCoin.Amount.BigInt()
		case *types.BatchAuction:
			base = x.BaseAuction
			info.batch = true
			info.minBid = decRaw(x.MinBidPrice)
			info.maxExt = x.MaxExtendedRound
			info.rate = decRaw(x.ExtendedRoundRate)
		}
		if base == nil {
			return false, nil
		}
		info.id = base.Id
		info.status = int(base.Status)
		info.auctioneer = e.userOf(base.Auctioneer)
		info.sellDenom = denomIdx(base.SellingCoin.Denom)
		info.payDenom = denomIdx(base.PayingCoinDenom)
		info.sellAmt = base.SellingCoin.Amount.BigInt()
		info.startPrice = decRaw(base.StartPrice)
		info.start = base.StartTime.Unix()
		info.ends = unixAll(base.EndTimes)
		for _, vs := range base.VestingSchedules {
			info.releases = append(info.releases, vs.ReleaseTime.Unix())
		}
		if len(info.ends) > 0 {
			s.aucs = append(s.aucs, info)
		}
		return false, nil
	})
	_ = k.MatchedBidsLen.Walk(ctx, nil, func(id uint64, n int64) (bool, error) {
		if a := s.auc(id); a != nil {
			a.matchedLen = n
		}
		return false, nil
	})
	_ = k.Bid.Walk(ctx, nil, func(key collections.Pair[uint64, uint64], b types.Bid) (bool, error) {
		s.bids[key.K1()] = append(s.bids[key.K1()], bidInfo{
			auction: key.K1(), id: key.K2(), bidder: e.userOf(b.Bidder), typ: b.Type,
			price: decRaw(b.Price), denom: denomIdx(b.Coin.Denom), amt: b.Coin.Amount.BigInt(),
		})
		return false, nil
	})
	_ = k.AllowedBidder.Walk(ctx, nil, func(key collections.Pair[uint64, sdk.AccAddress], ab types.AllowedBidder) (bool, error) {
		u := e.userOf(key.K2().String())
		if u < 0 {
			return false, nil
		}
		if s.allowed[key.K1()] == nil {
			s.allowed[key.K1()] = map[int]*big.Int{}
		}
		c := new(big.Int)
		if !ab.MaxBidAmount.IsNil() {
			c = ab.MaxBidAmount.BigInt()
		}
		s.allowed[key.K1()][u] = c
		return false, nil
	})
	_ = k.VestingQueue.Walk(ctx, nil, func(key collections.Pair[uint64, time.Time], q types.VestingQueue) (bool, error) {
		s.queues[key.K1()] = append(s.queues[key.K1()], queueInfo{release: key.K2().Unix(), released: q.Released})
		return false, nil
	})
	return s
}

func (e *Env) balance(user, denom int) *big.Int {
	return e.app.BankKeeper.GetBalance(e.ctx, e.users[user], Denoms[denom]).Amount.BigInt()
}

// ---------------------------------------------------------------------------------------------
// measured distribution

type Stats struct {
	Seed      int64  `json:"seed"`
	Profile   string `json:"profile"`
	Focus     string `json:"focus"`
	Histories int    `json:"histories"`
	TotalOps  int    `json:"total_ops"`

	OpsByKind map[string]int `json:"ops_by_kind"`
	OkByKind  map[string]int `json:"ok_by_kind"`
	ErrByKind map[string]int `json:"err_by_kind"`

	AuctionsCreated      map[string]int `json:"auctions_created"` // F / B
	SettlementsFixed     int            `json:"settlements_fixed"`
	SettlementsBatch     int            `json:"settlements_batch"`
	BatchMultiWinner     int            `json:"batch_settlements_with_2plus_winners"`
	ExtensionRounds      int            `json:"extension_rounds_taken"`
	StatusReached        map[string]int `json:"auctions_reaching_status"`
	HistoriesAllTerminal int            `json:"histories_ending_with_all_auctions_terminal"`
	VestingReleases      int            `json:"vesting_releases"`
	BidsPlaced           map[string]int `json:"bids_placed_by_type"`
	Modifies             int            `json:"modifies_ok"`
	GenesisRoundTrips    int            `json:"genesis_round_trips_ok"`
	Queries              int            `json:"queries"`
	MaxBidsInAuction     int            `json:"max_bids_in_one_auction"`
	MaxBidsInBatch       int            `json:"max_bids_in_one_batch_auction"`
	FaultsFired          int            `json:"faults_fired"`
	FailhooksFired       int            `json:"failhooks_fired"`
	HookLines            int            `json:"hook_lines"`
	Scenarios            map[string]int `json:"scenario_histories"`
	ScenariosCompleted   map[string]int `json:"scenarios_played_to_the_end"`
	ExtendDecisions      int            `json:"extend_decisions"`
	ExtendDecisionsEq    int            `json:"extend_decisions_with_exact_equality"`
	ExtendDecisionsNear  int            `json:"extend_decisions_rate_off_by_one_raw_unit"`
	TypeMismatchBids     int            `json:"type_mismatch_bids"`
	TypeMismatchValid    int            `json:"type_mismatch_bids_otherwise_valid"`
	TypeMismatchAccepted int            `json:"type_mismatch_bids_accepted"`
	BlockErr             int            `json:"block_res_err"`
	BlockPanic           int            `json:"block_res_panic"`
	BlockErrUninjected   int            `json:"block_res_err_or_panic_without_injection"`
	PanicsInOtherOps     int            `json:"panics_in_other_ops"`
}

func newStats() *Stats {
	return &Stats{
		OpsByKind: map[string]int{}, OkByKind: map[string]int{}, ErrByKind: map[string]int{},
		AuctionsCreated: map[string]int{}, StatusReached: map[string]int{}, BidsPlaced: map[string]int{},
		Scenarios: map[string]int{}, ScenariosCompleted: map[string]int{},
	}
}

var statusNames = map[int]string{1: "1_standby", 2: "2_started", 3: "3_vesting", 4: "4_finished", 5: "5_cancelled"}

var ioFromSelling = regexp.MustCompile(`(?m)^T io S(\d+) (\S+) `)

// account updates the statistics after one executed op.
func (st *Stats) account(g *Gen, line, res, block string, pre, post *snapshot, injected bool) {
	kind := strings.Fields(line)[0]
	st.TotalOps++
	st.OpsByKind[kind]++
	if res == "res ok" {
		st.OkByKind[kind]++
	} else {
		st.ErrByKind[kind]++
	}
	st.FaultsFired += strings.Count(block, "\n# fault fired")
	st.FailhooksFired += strings.Count(block, "\n# failhook fired")
	st.HookLines += strings.Count(block, "\nH ")
	if strings.Contains(block, "\n# panic:") && kind != "block" {
		st.PanicsInOtherOps++
	}
	switch {
	case kind == "block":
		if res != "res ok" {
			if res == "res panic" {
				st.BlockPanic++
			} else {
				st.BlockErr++
			}
			if !injected {
				st.BlockErrUninjected++
			}
		}
	case kind == "place":
		f := strings.Fields(line)
		var id uint64
		fmt.Sscanf(f[2], "%d", &id)
		if a := pre.auc(id); a != nil && len(f) > 3 && ((a.batch && f[3] == "F") || (!a.batch && (f[3] == "W" || f[3] == "M"))) {
			st.TypeMismatchBids++
			if res == "res ok" {
				st.TypeMismatchAccepted++
			}
		}
		if res == "res ok" {
			st.BidsPlaced[f[3]]++
		}
	case kind == "modify" && res == "res ok":
		st.Modifies++
	case kind == "genesis" && res == "res ok":
		st.GenesisRoundTrips++
	case strings.HasPrefix(kind, "q"):
		st.Queries++
	case (kind == "createF" || kind == "createB") && res == "res ok":
		st.AuctionsCreated[kind[6:]]++
	}
	if kind == "reset" {
		return
	}

	// winners per auction = distinct recipients of allocation transfers in this block
	winners := map[string]map[string]bool{}
	for _, m := range ioFromSelling.FindAllStringSubmatch(block, -1) {
		if winners[m[1]] == nil {
			winners[m[1]] = map[string]bool{}
		}
		winners[m[1]][m[2]] = true
	}
	for _, a := range post.aucs {
		if !g.seenStatus[[2]uint64{a.id, uint64(a.status)}] {
			g.seenStatus[[2]uint64{a.id, uint64(a.status)}] = true
			st.StatusReached[statusNames[a.status]]++
		}
		if n := len(post.bids[a.id]); n > st.MaxBidsInAuction {
			st.MaxBidsInAuction = n
		}
		if n := len(post.bids[a.id]); a.batch && n > st.MaxBidsInBatch {
			st.MaxBidsInBatch = n
		}
		p := pre.auc(a.id)
		if p == nil {
			continue
		}
		if len(a.ends) > len(p.ends) {
			st.ExtensionRounds += len(a.ends) - len(p.ends)
		}
		// the extension rule 1 − curr/last >= rate was evaluated in this block
		if kind == "block" && res == "res ok" && a.batch && p.status == 2 && p.matchedLen > 0 &&
			uint32(len(p.ends)) != p.maxExt+1 && p.lastEnd() <= g.now && (a.status != 2 || len(a.ends) > len(p.ends)) {
			st.ExtendDecisions++
			diff := math.LegacyOneDec().Sub(math.LegacyNewDec(a.matchedLen).Quo(math.LegacyNewDec(p.matchedLen))).BigInt()
			switch d := new(big.Int).Sub(diff, p.rate); {
			case d.Sign() == 0:
				st.ExtendDecisionsEq++
			case d.CmpAbs(big.NewInt(1)) == 0:
				st.ExtendDecisionsNear++
			}
		}
		if p.status == 2 && (a.status == 3 || a.status == 4) {
			if a.batch {
				st.SettlementsBatch++
				if len(winners[big.NewInt(int64(a.id)).String()]) >= 2 {
					st.BatchMultiWinner++
				}
			} else {
				st.SettlementsFixed++
			}
		}
	}
	rel := func(s *snapshot) int {
		n := 0
		for _, qs := range s.queues {
			for _, q := range qs {
				if q.released {
					n++
				}
			}
		}
		return n
	}
	if d := rel(post) - rel(pre); d > 0 {
		st.VestingReleases += d
	}
}
