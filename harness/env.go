package main

// Env: one in-process chain (simapp) plus our own fundraising keeper instance that shares the
// app's module store but talks to wrapped bank / distribution keepers and to three listeners.

import (
	"fmt"
	"sort"
	"time"

	"cosmossdk.io/log"
	storetypes "cosmossdk.io/store/types"
	"github.com/cosmos/cosmos-sdk/client"
	addresscodec "github.com/cosmos/cosmos-sdk/codec/address"
	cryptotypes "github.com/cosmos/cosmos-sdk/crypto/types"
	"github.com/cosmos/cosmos-sdk/runtime"
	sdk "github.com/cosmos/cosmos-sdk/types"
	authtypes "github.com/cosmos/cosmos-sdk/x/auth/types"
	distrtypes "github.com/cosmos/cosmos-sdk/x/distribution/types"
	govtypes "github.com/cosmos/cosmos-sdk/x/gov/types"

	"github.com/tendermint/fundraising/app"
	"github.com/tendermint/fundraising/testutil/testutil/simapp"
	"github.com/tendermint/fundraising/x/fundraising/keeper"
	fundraising "github.com/tendermint/fundraising/x/fundraising/module"
	"github.com/tendermint/fundraising/x/fundraising/types"
)

const (
	ChainID      = "verif-1"
	GenesisTime  = int64(1700000000)
	MaxListeners = 3
)

type Env struct {
	app      *app.App
	ctx      sdk.Context // persistent deliver-state context; block time updated by `block`
	storeKey *storetypes.KVStoreKey

	k     keeper.Keeper
	msgs  types.MsgServer
	query types.QueryServer

	rec        *recorder
	nListeners int
	bad        bool            // the op being executed turned out to be malformed
	pendFault  int             // armed by `fault`, active during the next module op; -1 = none
	pendHooks  map[string]bool // armed by `failhook` ("<HookName>/<idx>"), active during the next module op

	users     []sdk.AccAddress
	userStrs  []string
	userIdx   map[string]int    // bech32 -> user index
	addrNames map[string]string // bech32 -> u<i> | S<a> | P<a> | V<a> | pool
	escUpTo   uint64

	// app mode (`harness apprun`): ops drive the real app through ABCI, see app.go
	appMode   bool
	privs     []cryptotypes.PrivKey // signing keys of the users, by user index
	txConfig  client.TxConfig
	blockTime time.Time // time of the last `block` op; tx blocks are delivered at this time
	appBroken string    // non-empty once a FinalizeBlock failed / panicked (state may be partial)

	authority string
	poolAddr  sdk.AccAddress
	poolBase  sdk.Coins
}

// NewEnv returns an Env that has already been reset once, so an op file that does not start
// with `reset` still runs against a well-defined state.
func NewEnv() (*Env, error) {
	e := &Env{}
	e.initUsers()
	if err := e.Reset(); err != nil {
		return nil, err
	}
	return e, nil
}

// initUsers fixes the 12 user addresses {i+1, 0xAA × 19} and numbers them by bech32 string order.
func (e *Env) initUsers() {
	var strs []string
	byStr := map[string]sdk.AccAddress{}
	for i := 0; i < NumUsers; i++ {
		b := make([]byte, 20)
		b[0] = byte(i + 1)
		for j := 1; j < 20; j++ {
			b[j] = 0xAA
		}
		a := sdk.AccAddress(b)
		strs = append(strs, a.String())
		byStr[a.String()] = a
	}
	sort.Strings(strs)
	e.userStrs = strs
	e.users = nil
	e.userIdx = map[string]int{}
	for i, s := range strs {
		e.users = append(e.users, byStr[s])
		e.userIdx[s] = i
	}
}

// Reset builds a fresh app and everything that hangs off it.
func (e *Env) Reset() error {
	if e.appMode {
		return e.appReset()
	}
	a, err := simapp.New(ChainID)
	if err != nil {
		return fmt.Errorf("simapp.New: %w", err)
	}
	e.app = a
	e.ctx = a.BaseApp.NewContext(false).WithBlockTime(time.Unix(GenesisTime, 0).UTC())
	e.storeKey = a.GetKey(types.StoreKey)
	if e.storeKey == nil {
		return fmt.Errorf("store key %q not found", types.StoreKey)
	}

	e.rec = newRecorder(e)
	e.nListeners = 0
	e.pendFault = -1
	e.pendHooks = map[string]bool{}

	e.authority = authtypes.NewModuleAddress(govtypes.ModuleName).String()
	e.poolAddr = authtypes.NewModuleAddress(distrtypes.ModuleName)

	e.addrNames = map[string]string{}
	for i, s := range e.userStrs {
		e.addrNames[s] = fmt.Sprintf("u%d", i)
	}
	e.addrNames[e.poolAddr.String()] = "pool"
	e.escUpTo = 0
	e.ensureEscrows(64)

	k := keeper.NewKeeper(
		a.AppCodec(),
		addresscodec.NewBech32Codec(sdk.GetConfig().GetBech32AccountAddrPrefix()),
		runtime.NewKVStoreService(e.storeKey),
		log.NewNopLogger(),
		e.authority,
		a.AccountKeeper,
		&wrapBank{r: e.rec, real: a.BankKeeper},
		&wrapDistr{r: e.rec, real: a.DistrKeeper},
	)
	// the three listeners are registered the way the application registers other modules' hooks:
	// through the module's own InvokeSetHooks (depinject wiring, module/module.go), which orders them
	// lexically by module name — so listener i must be called i-th, in every process
	if err := fundraising.InvokeSetHooks(&k, map[string]types.FundraisingHooks{
		"hookmod0-alpha":   &listener{idx: 0, r: e.rec},
		"hookmod1-bravo":   &listener{idx: 1, r: e.rec},
		"hookmod2-charlie": &listener{idx: 2, r: e.rec},
	}); err != nil {
		return err
	}
	e.k = k
	e.msgs = keeper.NewMsgServerImpl(k)
	e.query = keeper.NewQueryServerImpl(k)

	e.poolBase = a.BankKeeper.GetAllBalances(e.ctx, e.poolAddr)
	return nil
}

// signer maps an op-line signer/bidder index to the address string put into messages.
func (e *Env) signer(idx int) (string, bool) {
	switch {
	case idx >= 0 && idx < NumUsers:
		return e.userStrs[idx], true
	case idx == AuthorityIdx:
		return e.authority, true
	case idx == InvalidAddrIdx:
		return InvalidAddr, true
	}
	return "", false
}

func denomOf(idx int) (string, bool) {
	if idx >= 0 && idx < len(Denoms) {
		return Denoms[idx], true
	}
	if idx == InvalidDenomIdx {
		return InvalidDenom, true
	}
	return "", false
}
