package main

// `harness pure -seed S -n N -in F.in -out F.out`: the pure-function stream.  Random, edge-biased
// inputs for the module's pure functions (LegacyDec arithmetic as the module uses it, the two bid
// conversions, ValidateVestingSchedules, types.Match) are written to F.in, one per line, and what
// the REAL Go functions return to F.out, in the format of the Lean driver `fgen` (GenMain.lean),
// which evaluates the translated definitions and the model on the same lines.

import (
	"bufio"
	"flag"
	"fmt"
	"math/big"
	"math/rand"
	"os"
	"sort"
	"strings"
	"time"

	"cosmossdk.io/math"
	sdk "github.com/cosmos/cosmos-sdk/types"

	"github.com/tendermint/fundraising/x/fundraising/types"
)

type pureGen struct {
	r *rand.Rand
}

func (g *pureGen) between(lo, hi int) int { return lo + g.r.Intn(hi-lo+1) }

// amount: small, dust, round, huge
func (g *pureGen) amount() *big.Int {
	switch g.r.Intn(6) {
	case 0:
		return bi(int64(g.between(1, 9)))
	case 1:
		return bi(int64(g.between(1, 1000)))
	case 2:
		return mul(bi(int64(g.between(1, 9))), p10(g.between(0, 30)))
	case 3:
		return add(mul(bi(int64(g.between(1, 999))), p10(g.between(0, 24))), bi(int64(g.between(-2, 2))))
	default:
		return new(big.Int).Rand(g.r, p10(g.between(1, 30)))
	}
}

// price: raw 18-decimal integer > 0
func (g *pureGen) price() *big.Int {
	var p *big.Int
	switch g.r.Intn(8) {
	case 0:
		p = mul(bi(int64(g.between(1, 9))), one18)
	case 1:
		p = bs(g.pick("500000000000000000", "333333333333333333", "300000000000000000", "1500000000000000000", "100000000000000000", "1"))
	case 2:
		p = add(mul(bi(int64(g.between(1, 9))), one18), bi(int64(g.between(-2, 2)))) // a hair around an integer
	case 3:
		p = mul(mul(bi(int64(g.between(1, 9))), p10(g.between(1, 20))), one18) // huge
	case 4:
		p = add(mul(mul(bi(int64(g.between(1, 9))), p10(g.between(1, 9))), one18), bi(int64(g.between(-1, 1))))
	case 5:
		p = bi(int64(g.between(1, 1000))) // tiny
	default:
		p = new(big.Int).Rand(g.r, p10(g.between(1, 38)))
	}
	if p.Sign() <= 0 {
		p = bi(1)
	}
	return p
}

func (g *pureGen) pick(xs ...string) string { return xs[g.r.Intn(len(xs))] }

func decOf(raw *big.Int) math.LegacyDec { return math.LegacyNewDecFromBigIntWithPrec(raw, 18) }

func rawOf(d math.LegacyDec) *big.Int { return d.BigInt() }

func safe(f func() string) (out string) {
	defer func() {
		if r := recover(); r != nil {
			out = "panic"
		}
	}()
	return f()
}

func (g *pureGen) caseDec() (string, string) {
	ops := []string{"mul", "mulTrunc", "quo", "quoTrunc", "mulInt", "ceil", "truncInt"}
	op := ops[g.r.Intn(len(ops))]
	a, b := g.price(), g.price()
	if g.r.Intn(3) == 0 {
		a = mul(g.amount(), one18)
	}
	if g.r.Intn(6) == 0 {
		a = new(big.Int).Neg(a)
	}
	if op == "mulInt" {
		b = g.amount()
	}
	if (op == "quo" || op == "quoTrunc") && g.r.Intn(4) == 0 {
		// a/b a hair below or above an integer
		n := bi(int64(g.between(1, 20)))
		a = mul(n, mul(bi(int64(g.between(1, 9))), one18))
		b = add(quo(a, n), bi(int64(g.between(-1, 1))))
		if b.Sign() <= 0 {
			b = bi(1)
		}
	}
	in := fmt.Sprintf("dec %s %s %s", op, a, b)
	out := safe(func() string {
		x, y := decOf(a), decOf(b)
		switch op {
		case "mul":
			return rawOf(x.Mul(y)).String()
		case "mulTrunc":
			return rawOf(x.MulTruncate(y)).String()
		case "quo":
			return rawOf(x.Quo(y)).String()
		case "quoTrunc":
			return rawOf(x.QuoTruncate(y)).String()
		case "mulInt":
			return rawOf(x.MulInt(math.NewIntFromBigInt(b))).String()
		case "ceil":
			return rawOf(x.Ceil()).String()
		default:
			return x.TruncateInt().BigInt().String()
		}
	})
	return in, out
}

func (g *pureGen) caseConvert() (string, string) {
	p, amt := g.price(), g.amount()
	if amt.Sign() <= 0 {
		amt = bi(1)
	}
	if g.r.Intn(3) == 0 {
		// amount a hair below / at / above k × price
		k := bi(int64(g.between(1, 12)))
		amt = add(quo(mul(k, p), one18), bi(int64(g.between(-1, 1))))
		if amt.Sign() <= 0 {
			amt = bi(1)
		}
	}
	same := g.r.Intn(2)
	kind := g.pick("tosell", "topay")
	in := fmt.Sprintf("%s %s %s %d", kind, p, amt, same)
	out := safe(func() string {
		denom := "other"
		if same == 1 {
			denom = "bidcoin"
		}
		b := types.Bid{Price: decOf(p), Coin: sdk.NewCoin("bidcoin", math.NewIntFromBigInt(amt))}
		if kind == "tosell" {
			return b.ConvertToSellingAmount(denom).BigInt().String()
		}
		return b.ConvertToPayingAmount(denom).BigInt().String()
	})
	return in, out
}

func (g *pureGen) caseSched() (string, string) {
	n := g.between(0, 5)
	end := int64(1700000000 + g.between(0, 1000))
	var parts []string
	var vs []types.VestingSchedule
	rem := new(big.Int).Set(one18)
	t := end
	for i := 0; i < n; i++ {
		switch g.r.Intn(8) {
		case 0:
			t += 0 // equal to the previous / to the end time
		case 1:
			t -= int64(g.between(1, 5))
		default:
			t += int64(g.between(1, 100))
		}
		var w *big.Int
		switch {
		case i == n-1 && g.r.Intn(4) != 0:
			w = new(big.Int).Set(rem)
		case g.r.Intn(10) == 0:
			w = bi(int64(g.between(-1, 0)))
		case g.r.Intn(10) == 0:
			w = add(one18, bi(int64(g.between(0, 1))))
		default:
			w = new(big.Int).Rand(g.r, add(rem, bi(1)))
		}
		rem = sub(rem, w)
		parts = append(parts, fmt.Sprintf("%d %s", t, w))
		vs = append(vs, types.VestingSchedule{ReleaseTime: time.Unix(t, 0).UTC(), Weight: decOf(w)})
	}
	in := strings.TrimSpace(fmt.Sprintf("sched %d %d %s", end, n, strings.Join(parts, " ")))
	out := safe(func() string {
		if err := types.ValidateVestingSchedules(vs, time.Unix(end, 0).UTC()); err != nil {
			return "1"
		}
		return "0"
	})
	return in, out
}

func (g *pureGen) caseMatch() (string, string) {
	nb := g.between(1, 5) // bidders
	var allowed []types.AllowedBidder
	var aparts []string
	addrs := make([]string, nb)
	for i := 0; i < nb; i++ {
		addr := sdk.AccAddress([]byte{byte(i + 1), 0xAA, 0xAA, 0xAA, 0xAA, 0xAA, 0xAA, 0xAA, 0xAA, 0xAA, 0xAA, 0xAA, 0xAA, 0xAA, 0xAA, 0xAA, 0xAA, 0xAA, 0xAA, 0xAA})
		addrs[i] = addr.String()
		cap := g.amount()
		if cap.Sign() <= 0 {
			cap = bi(1)
		}
		allowed = append(allowed, types.AllowedBidder{Bidder: addrs[i], MaxBidAmount: math.NewIntFromBigInt(cap)})
		aparts = append(aparts, fmt.Sprintf("%d %s", i+1, cap))
	}
	nl := g.between(1, 4)
	// distinct descending prices
	pm := map[string]*big.Int{}
	for len(pm) < nl {
		p := g.price()
		pm[p.String()] = p
	}
	var prices []*big.Int
	for _, p := range pm {
		prices = append(prices, p)
	}
	sort.Slice(prices, func(i, j int) bool { return prices[i].Cmp(prices[j]) > 0 })
	var bids []types.Bid
	var lparts []string
	id := uint64(0)
	for _, p := range prices {
		n := g.between(1, 3)
		var bparts []string
		for j := 0; j < n; j++ {
			id++
			u := g.r.Intn(nb)
			amt := g.amount()
			if amt.Sign() <= 0 {
				amt = bi(1)
			}
			ty, tok, denom := types.BidTypeBatchMany, "M", "sell"
			if g.r.Intn(2) == 0 {
				ty, tok, denom = types.BidTypeBatchWorth, "W", "pay"
			}
			bids = append(bids, types.Bid{AuctionId: 0, Id: id, Bidder: addrs[u], Type: ty, Price: decOf(p), Coin: sdk.NewCoin(denom, math.NewIntFromBigInt(amt))})
			bparts = append(bparts, fmt.Sprintf("%d %d %s %s", id, u+1, tok, amt))
		}
		lparts = append(lparts, fmt.Sprintf("%s %d %s", p, n, strings.Join(bparts, " ")))
	}
	mp := prices[g.r.Intn(len(prices))]
	S := g.amount()
	if S.Sign() <= 0 {
		S = bi(1)
	}
	in := fmt.Sprintf("match %s %s %d %s %d %s", mp, S, nb, strings.Join(aparts, " "), nl, strings.Join(lparts, " "))
	out := safe(func() string {
		var decPrices []math.LegacyDec
		byPrice := map[string][]types.Bid{}
		for _, p := range prices {
			decPrices = append(decPrices, decOf(p))
		}
		for _, b := range bids {
			byPrice[b.Price.String()] = append(byPrice[b.Price.String()], b)
		}
		res, matched := types.Match(decOf(mp), decPrices, byPrice, math.NewIntFromBigInt(S), allowed)
		if res == nil {
			return "nofit"
		}
		var ids []string
		for _, b := range res.MatchedBids {
			ids = append(ids, fmt.Sprint(b.Id))
		}
		var by []string
		for i, a := range addrs {
			if r, ok := res.MatchResultByBidder[a]; ok {
				by = append(by, fmt.Sprintf("%d:%s:%s", i+1, r.MatchedAmount, r.PayingAmount))
			}
		}
		m := 0
		if matched {
			m = 1
		}
		return fmt.Sprintf("fit %s %s %d ids %s by %s", rawOf(res.MatchPrice), res.MatchedAmount, m, strings.Join(ids, " "), strings.Join(by, " "))
	})
	return in, out
}

// caseBBP: a book for `types.BidsByPrice` — few distinct prices (many ties), ids 1…n in input order
// (the order the keeper reads them in), up to 40 bids so that Go's sort leaves the insertion-sort
// regime (n > 12).  The input line carries what `types.SortBids` returns for this book (the
// translated BidsByPrice takes it as its oracle); the answer is what `types.BidsByPrice` returns.
func (g *pureGen) caseBBP() (string, string) {
	n := g.between(1, 12)
	if g.r.Intn(2) == 0 {
		n = g.between(13, 40)
	}
	k := g.between(1, 6)
	pool := make([]*big.Int, k)
	for i := range pool {
		pool[i] = g.price()
	}
	var pr []*big.Int
	var pparts []string
	for i := 0; i < n; i++ {
		p := pool[g.r.Intn(k)]
		pr = append(pr, p)
		pparts = append(pparts, p.String())
	}
	book := func() []types.Bid {
		bids := make([]types.Bid, n)
		for i := 0; i < n; i++ {
			bids[i] = types.Bid{AuctionId: 0, Id: uint64(i + 1), Bidder: "b", Type: types.BidTypeBatchMany, Price: decOf(pr[i]), Coin: sdk.NewCoin("sell", math.NewInt(1))}
		}
		return bids
	}
	var oparts []string
	sorted := safe(func() string {
		for _, b := range types.SortBids(book()) {
			oparts = append(oparts, fmt.Sprint(b.Id))
		}
		return "ok"
	})
	in := fmt.Sprintf("bbp %d %s out %s", n, strings.Join(pparts, " "), strings.Join(oparts, " "))
	if sorted != "ok" {
		return in, sorted
	}
	out := safe(func() string {
		prices, by := types.BidsByPrice(book())
		var ps, ls []string
		for _, p := range prices {
			ps = append(ps, rawOf(p).String())
			var ids []string
			for _, b := range by[p.String()] {
				ids = append(ids, fmt.Sprint(b.Id))
			}
			ls = append(ls, strings.Join(ids, " "))
		}
		return fmt.Sprintf("prices %s levels %s maplen %d", strings.Join(ps, " "), strings.Join(ls, " ; "), len(by))
	})
	return in, out
}

// pureEval: `harness pureeval <file>` — the Go results for the given input lines (replay of a
// pure-function divergence)
func pureEval(path string) error {
	data, err := os.ReadFile(path)
	if err != nil {
		return err
	}
	for _, line := range strings.Split(string(data), "\n") {
		line = strings.TrimSpace(strings.TrimPrefix(strings.TrimSpace(line), "#"))
		t := strings.Fields(line)
		if len(t) < 4 {
			continue
		}
		switch t[0] {
		case "tosell", "topay":
			p, amt := bs(t[1]), bs(t[2])
			denom := "other"
			if t[3] == "1" {
				denom = "bidcoin"
			}
			out := safe(func() string {
				b := types.Bid{Price: decOf(p), Coin: sdk.NewCoin("bidcoin", math.NewIntFromBigInt(amt))}
				if t[0] == "tosell" {
					return b.ConvertToSellingAmount(denom).BigInt().String()
				}
				return b.ConvertToPayingAmount(denom).BigInt().String()
			})
			fmt.Printf("%s => %s\n", line, out)
		case "sched":
			end := bs(t[1]).Int64()
			var vs []types.VestingSchedule
			for i := 3; i+1 < len(t); i += 2 {
				vs = append(vs, types.VestingSchedule{ReleaseTime: time.Unix(bs(t[i]).Int64(), 0).UTC(), Weight: decOf(bs(t[i+1]))})
			}
			out := safe(func() string {
				if err := types.ValidateVestingSchedules(vs, time.Unix(end, 0).UTC()); err != nil {
					return "1"
				}
				return "0"
			})
			fmt.Printf("%s => %s\n", line, out)
		}
	}
	return nil
}

func pureMain(args []string) error {
	fs := flag.NewFlagSet("pure", flag.ContinueOnError)
	seed := fs.Int64("seed", 1, "PRNG seed")
	n := fs.Int("n", 10000, "number of cases")
	inPath := fs.String("in", "", "file to write the input lines to")
	outPath := fs.String("out", "", "file to write the Go results to")
	if err := fs.Parse(args); err != nil {
		return err
	}
	if *inPath == "" || *outPath == "" {
		return fmt.Errorf("pure: -in and -out are required")
	}
	fi, err := os.Create(*inPath)
	if err != nil {
		return err
	}
	defer fi.Close()
	fo, err := os.Create(*outPath)
	if err != nil {
		return err
	}
	defer fo.Close()
	wi, wo := bufio.NewWriter(fi), bufio.NewWriter(fo)
	defer wi.Flush()
	defer wo.Flush()
	g := &pureGen{r: rand.New(rand.NewSource(*seed))}
	counts := map[string]int{}
	for i := 0; i < *n; i++ {
		var in, out string
		switch g.r.Intn(10) {
		case 0, 1, 2:
			in, out = g.caseDec()
		case 3, 4, 5:
			in, out = g.caseConvert()
		case 6:
			in, out = g.caseSched()
		case 7:
			in, out = g.caseBBP()
		default:
			in, out = g.caseMatch()
		}
		counts[strings.SplitN(in, " ", 2)[0]]++
		fmt.Fprintln(wi, in)
		fmt.Fprintln(wo, out)
	}
	fmt.Printf("{\"dec\": %d, \"tosell\": %d, \"topay\": %d, \"sched\": %d, \"match\": %d, \"bbp\": %d}\n",
		counts["dec"], counts["tosell"], counts["topay"], counts["sched"], counts["match"], counts["bbp"])
	return nil
}
