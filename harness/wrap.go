package main

// Wrappers around the app's bank / distribution keepers (T lines, fault injection) and the
// three hook listeners (H lines, failhook injection).

import (
	"context"
	"errors"
	"fmt"
	"strings"
	"time"

	"cosmossdk.io/math"
	sdk "github.com/cosmos/cosmos-sdk/types"
	bankkeeper "github.com/cosmos/cosmos-sdk/x/bank/keeper"
	banktypes "github.com/cosmos/cosmos-sdk/x/bank/types"
	distrkeeper "github.com/cosmos/cosmos-sdk/x/distribution/keeper"

	"github.com/tendermint/fundraising/x/fundraising/types"
)

var (
	errInjectedFault = errors.New("verif: injected bank/distribution fault")
	errInjectedHook  = errors.New("verif: injected hook failure")
)

// HookNames lists the hook names accepted by `failhook`, in interface declaration order.
var HookNames = []string{
	"BeforeFixedPriceAuctionCreated",
	"AfterFixedPriceAuctionCreated",
	"BeforeBatchAuctionCreated",
	"AfterBatchAuctionCreated",
	"BeforeAuctionCanceled",
	"BeforeBidPlaced",
	"BeforeBidModified",
	"BeforeAllowedBiddersAdded",
	"BeforeAllowedBidderUpdated",
	"BeforeSellingCoinsAllocated",
}

func isHookName(s string) bool {
	for _, n := range HookNames {
		if n == s {
			return true
		}
	}
	return false
}

// recorder collects everything observable that happens while one op runs.
type recorder struct {
	e *Env

	comments []string
	events   []string // H and T lines of the current op, in call order

	faultK int // index of the call that must fail during the current op; -1 = none
	calls  int // number of fault-countable calls made so far during the current op

	extra     []string        // `X …` lines of the current op (app mode: the forged-signer probe)
	failhooks map[string]bool // "<HookName>/<idx>" -> must fail during the current op (first call only)
}

func newRecorder(e *Env) *recorder {
	return &recorder{e: e, faultK: -1, failhooks: map[string]bool{}}
}

// beginOp clears the log and installs the injections that are active during this op.
func (r *recorder) beginOp(faultK int, failhooks map[string]bool) {
	r.comments, r.events, r.extra = nil, nil, nil
	r.faultK = faultK
	r.calls = 0
	r.failhooks = map[string]bool{}
	for k := range failhooks {
		r.failhooks[k] = true
	}
}

func (r *recorder) comment(format string, args ...interface{}) {
	s := fmt.Sprintf(format, args...)
	s = strings.ReplaceAll(s, "\r", " ")
	s = strings.ReplaceAll(s, "\n", " | ")
	r.comments = append(r.comments, "# "+s)
}

// call runs one fault-countable keeper call.  A T line is recorded only if the call returned nil.
func (r *recorder) call(desc string, exec func() error) error {
	idx := r.calls
	r.calls++
	if r.faultK == idx {
		r.comment("fault fired at call %d: %s", idx, desc)
		return errInjectedFault
	}
	if err := exec(); err != nil {
		r.comment("Tfail (call %d) %s: %v", idx, desc, err)
		return err
	}
	r.events = append(r.events, "T "+desc)
	return nil
}

// ---------------------------------------------------------------------------------------------
// bank keeper

type wrapBank struct {
	r    *recorder
	real bankkeeper.Keeper
}

var _ types.BankKeeper = (*wrapBank)(nil)

func (w *wrapBank) SendCoins(ctx context.Context, from, to sdk.AccAddress, amt sdk.Coins) error {
	desc := fmt.Sprintf("send %s %s %s", w.r.e.addrBytes(from), w.r.e.addrBytes(to), w.r.e.coinsN(amt))
	return w.r.call(desc, func() error { return w.real.SendCoins(ctx, from, to, amt) })
}

// SpendableCoins cannot fail: it is neither logged nor counted for `fault`.
func (w *wrapBank) SpendableCoins(ctx context.Context, addr sdk.AccAddress) sdk.Coins {
	return w.real.SpendableCoins(ctx, addr)
}

func (w *wrapBank) InputOutputCoins(ctx context.Context, input banktypes.Input, outputs []banktypes.Output) error {
	var desc string
	if len(outputs) == 1 {
		desc = fmt.Sprintf("io %s %s %s", w.r.e.addrStr(input.Address), w.r.e.addrStr(outputs[0].Address), w.r.e.coinsN(input.Coins))
	} else {
		parts := []string{"iom", w.r.e.addrStr(input.Address), fmt.Sprint(len(outputs))}
		for _, o := range outputs {
			parts = append(parts, w.r.e.addrStr(o.Address), w.r.e.coinsN(o.Coins))
		}
		desc = strings.Join(parts, " ")
	}
	return w.r.call(desc, func() error { return w.real.InputOutputCoins(ctx, input, outputs) })
}

// The three methods below are part of types.BankKeeper but are never called by the module.

func (w *wrapBank) SendCoinsFromAccountToModule(ctx context.Context, senderAddr sdk.AccAddress, recipientModule string, amt sdk.Coins) error {
	desc := fmt.Sprintf("other SendCoinsFromAccountToModule %s x:%s %s", w.r.e.addrBytes(senderAddr), recipientModule, w.r.e.coinsN(amt))
	return w.r.call(desc, func() error { return w.real.SendCoinsFromAccountToModule(ctx, senderAddr, recipientModule, amt) })
}

func (w *wrapBank) MintCoins(ctx context.Context, moduleName string, amt sdk.Coins) error {
	desc := fmt.Sprintf("other MintCoins x:%s %s", moduleName, w.r.e.coinsN(amt))
	return w.r.call(desc, func() error { return w.real.MintCoins(ctx, moduleName, amt) })
}

func (w *wrapBank) SendCoinsFromModuleToAccount(ctx context.Context, senderModule string, recipientAddr sdk.AccAddress, amt sdk.Coins) error {
	desc := fmt.Sprintf("other SendCoinsFromModuleToAccount x:%s %s %s", senderModule, w.r.e.addrBytes(recipientAddr), w.r.e.coinsN(amt))
	return w.r.call(desc, func() error { return w.real.SendCoinsFromModuleToAccount(ctx, senderModule, recipientAddr, amt) })
}

// ---------------------------------------------------------------------------------------------
// distribution keeper

type wrapDistr struct {
	r    *recorder
	real distrkeeper.Keeper
}

var _ types.DistrKeeper = (*wrapDistr)(nil)

func (w *wrapDistr) FundCommunityPool(ctx context.Context, amount sdk.Coins, sender sdk.AccAddress) error {
	desc := fmt.Sprintf("pool %s %s", w.r.e.addrBytes(sender), w.r.e.coinsN(amount))
	return w.r.call(desc, func() error { return w.real.FundCommunityPool(ctx, amount, sender) })
}

// ---------------------------------------------------------------------------------------------
// hook listeners

type listener struct {
	idx int
	r   *recorder
}

var _ types.FundraisingHooks = (*listener)(nil)

// hook records one hook call.  A listener whose index is >= the active listener count behaves
// as if it were not registered at all (no H line, returns nil).
func (l *listener) hook(name string, args ...string) error {
	if l.idx >= l.r.e.nListeners {
		return nil
	}
	line := fmt.Sprintf("H %d %s", l.idx, name)
	if len(args) > 0 {
		line += " " + strings.Join(args, " ")
	}
	l.r.events = append(l.r.events, line)
	key := fmt.Sprintf("%s/%d", name, l.idx)
	if l.r.failhooks[key] {
		delete(l.r.failhooks, key)
		l.r.comment("failhook fired: %s on listener %d", name, l.idx)
		return errInjectedHook
	}
	return nil
}

func (l *listener) BeforeFixedPriceAuctionCreated(_ context.Context, auctioneer string, startPrice math.LegacyDec, sellingCoin sdk.Coin,
	payingCoinDenom string, vestingSchedules []types.VestingSchedule, startTime, endTime time.Time,
) error {
	e := l.r.e
	return l.hook("BeforeFixedPriceAuctionCreated", e.addrStr(auctioneer), decStr(startPrice), e.coin(sellingCoin),
		e.denom(payingCoinDenom), schedStr(vestingSchedules), timeStr(startTime), timeStr(endTime))
}

func (l *listener) AfterFixedPriceAuctionCreated(_ context.Context, auctionId uint64, auctioneer string, startPrice math.LegacyDec,
	sellingCoin sdk.Coin, payingCoinDenom string, vestingSchedules []types.VestingSchedule, startTime, endTime time.Time,
) error {
	e := l.r.e
	return l.hook("AfterFixedPriceAuctionCreated", fmt.Sprint(auctionId), e.addrStr(auctioneer), decStr(startPrice), e.coin(sellingCoin),
		e.denom(payingCoinDenom), schedStr(vestingSchedules), timeStr(startTime), timeStr(endTime))
}

func (l *listener) BeforeBatchAuctionCreated(_ context.Context, auctioneer string, startPrice, minBidPrice math.LegacyDec,
	sellingCoin sdk.Coin, payingCoinDenom string, vestingSchedules []types.VestingSchedule, maxExtendedRound uint32,
	extendedRoundRate math.LegacyDec, startTime, endTime time.Time,
) error {
	e := l.r.e
	return l.hook("BeforeBatchAuctionCreated", e.addrStr(auctioneer), decStr(startPrice), decStr(minBidPrice), e.coin(sellingCoin),
		e.denom(payingCoinDenom), schedStr(vestingSchedules), fmt.Sprint(maxExtendedRound), decStr(extendedRoundRate),
		timeStr(startTime), timeStr(endTime))
}

func (l *listener) AfterBatchAuctionCreated(_ context.Context, auctionId uint64, auctioneer string, startPrice, minBidPrice math.LegacyDec,
	sellingCoin sdk.Coin, payingCoinDenom string, vestingSchedules []types.VestingSchedule, maxExtendedRound uint32,
	extendedRoundRate math.LegacyDec, startTime, endTime time.Time,
) error {
	e := l.r.e
	return l.hook("AfterBatchAuctionCreated", fmt.Sprint(auctionId), e.addrStr(auctioneer), decStr(startPrice), decStr(minBidPrice),
		e.coin(sellingCoin), e.denom(payingCoinDenom), schedStr(vestingSchedules), fmt.Sprint(maxExtendedRound),
		decStr(extendedRoundRate), timeStr(startTime), timeStr(endTime))
}

func (l *listener) BeforeAuctionCanceled(_ context.Context, auctionId uint64, auctioneer string) error {
	return l.hook("BeforeAuctionCanceled", fmt.Sprint(auctionId), l.r.e.addrStr(auctioneer))
}

func (l *listener) BeforeBidPlaced(_ context.Context, auctionId, bidId uint64, bidder string, bidType types.BidType,
	price math.LegacyDec, coin sdk.Coin,
) error {
	e := l.r.e
	return l.hook("BeforeBidPlaced", fmt.Sprint(auctionId), fmt.Sprint(bidId), e.addrStr(bidder), bidTypeStr(bidType), decStr(price), e.coin(coin))
}

func (l *listener) BeforeBidModified(_ context.Context, auctionId, bidId uint64, bidder string, bidType types.BidType,
	price math.LegacyDec, coin sdk.Coin,
) error {
	e := l.r.e
	return l.hook("BeforeBidModified", fmt.Sprint(auctionId), fmt.Sprint(bidId), e.addrStr(bidder), bidTypeStr(bidType), decStr(price), e.coin(coin))
}

func (l *listener) BeforeAllowedBiddersAdded(_ context.Context, allowedBidders []types.AllowedBidder) error {
	e := l.r.e
	parts := []string{fmt.Sprint(len(allowedBidders))}
	for _, ab := range allowedBidders {
		parts = append(parts, fmt.Sprint(ab.AuctionId), e.addrStr(ab.Bidder), intStr(ab.MaxBidAmount))
	}
	return l.hook("BeforeAllowedBiddersAdded", parts...)
}

func (l *listener) BeforeAllowedBidderUpdated(_ context.Context, auctionId uint64, bidder sdk.AccAddress, maxBidAmount math.Int) error {
	return l.hook("BeforeAllowedBidderUpdated", fmt.Sprint(auctionId), l.r.e.addrBytes(bidder), intStr(maxBidAmount))
}

func (l *listener) BeforeSellingCoinsAllocated(_ context.Context, auctionId uint64, allocationMap, refundMap map[string]math.Int) error {
	e := l.r.e
	return l.hook("BeforeSellingCoinsAllocated", fmt.Sprint(auctionId), e.amtMap(allocationMap), e.amtMap(refundMap))
}
