package main

// Rendering helpers (addresses, denoms, numbers, records) and the state dump.

import (
	"fmt"
	"os"
	"sort"
	"strings"
	"time"

	"cosmossdk.io/collections"
	"cosmossdk.io/math"
	sdk "github.com/cosmos/cosmos-sdk/types"

	"github.com/tendermint/fundraising/x/fundraising/keeper"
	"github.com/tendermint/fundraising/x/fundraising/types"
)

// Denoms is the denom universe: index order = string order.
var Denoms = []string{"dn0", "dn1", "dn2", "dn3", "dn4", "stake"}

const (
	InvalidDenomIdx = 99
	InvalidDenom    = "!"
	AuthorityIdx    = 900
	InvalidAddrIdx  = 901
	InvalidAddr     = "invalid"
	NumUsers        = 12
)

// ---------------------------------------------------------------------------------------------
// scalar rendering

func decStr(d math.LegacyDec) string {
	if d.IsNil() {
		return "0"
	}
	return d.BigInt().String()
}

func intStr(i math.Int) string {
	if i.IsNil() {
		return "0"
	}
	return i.String()
}

func timeStr(t time.Time) string { return fmt.Sprint(t.Unix()) }

func boolStr(b bool) string {
	if b {
		return "1"
	}
	return "0"
}

func bidTypeStr(t types.BidType) string {
	switch t {
	case types.BidTypeFixedPrice:
		return "F"
	case types.BidTypeBatchWorth:
		return "W"
	case types.BidTypeBatchMany:
		return "M"
	}
	return "X"
}

func schedStr(vs []types.VestingSchedule) string {
	parts := []string{fmt.Sprint(len(vs))}
	for _, s := range vs {
		parts = append(parts, timeStr(s.ReleaseTime), decStr(s.Weight))
	}
	return strings.Join(parts, " ")
}

// ---------------------------------------------------------------------------------------------
// denoms / coins

func (e *Env) denom(d string) string {
	for i, s := range Denoms {
		if s == d {
			return fmt.Sprint(i)
		}
	}
	if d == InvalidDenom {
		return fmt.Sprint(InvalidDenomIdx)
	}
	return "x:" + d
}

func (e *Env) coin(c sdk.Coin) string { return e.denom(c.Denom) + " " + intStr(c.Amount) }

// coinsN renders `<n> (<denom> <amt>)*` in the slice's own order.
func (e *Env) coinsN(cs sdk.Coins) string {
	parts := []string{fmt.Sprint(len(cs))}
	for _, c := range cs {
		parts = append(parts, e.coin(c))
	}
	return strings.Join(parts, " ")
}

// ---------------------------------------------------------------------------------------------
// addresses

// addrStr renders a bech32 (or arbitrary) address string.
func (e *Env) addrStr(s string) string {
	if n, ok := e.addrNames[s]; ok {
		return n
	}
	return "x:" + s
}

func (e *Env) addrBytes(a sdk.AccAddress) string { return e.addrStr(a.String()) }

// ensureEscrows makes sure that escrow names of auctions 0 … n-1 are known.
func (e *Env) ensureEscrows(n uint64) {
	for ; e.escUpTo < n; e.escUpTo++ {
		a := e.escUpTo
		e.addrNames[types.SellingReserveAddress(a).String()] = fmt.Sprintf("S%d", a)
		e.addrNames[types.PayingReserveAddress(a).String()] = fmt.Sprintf("P%d", a)
		e.addrNames[types.VestingReserveAddress(a).String()] = fmt.Sprintf("V%d", a)
	}
}

// amtMap renders an allocation/refund map: `<n> (<bidder> <amt>)*` sorted by user index; keys
// that are not users come last, ordered by their rendering.
func (e *Env) amtMap(m map[string]math.Int) string {
	type ent struct {
		idx  int
		name string
		amt  string
	}
	var es []ent
	for k, v := range m {
		idx, ok := e.userIdx[k]
		if !ok {
			idx = 1 << 30
		}
		es = append(es, ent{idx, e.addrStr(k), intStr(v)})
	}
	sort.Slice(es, func(i, j int) bool {
		if es[i].idx != es[j].idx {
			return es[i].idx < es[j].idx
		}
		return es[i].name < es[j].name
	})
	parts := []string{fmt.Sprint(len(es))}
	for _, x := range es {
		parts = append(parts, x.name, x.amt)
	}
	return strings.Join(parts, " ")
}

// ---------------------------------------------------------------------------------------------
// records (shared by the state dump and the R lines of queries)

func (e *Env) paramsLine(p types.Params) string {
	return fmt.Sprintf("P %s %s %d", e.coinsN(p.AuctionCreationFee), e.coinsN(p.PlaceBidFee), p.ExtendedPeriod)
}

func (e *Env) auctionLine(a types.AuctionI) string {
	var base *types.BaseAuction
	var tail, typ string
	switch x := a.(type) {
	case *types.FixedPriceAuction:
		base, typ = x.BaseAuction, "F"
		rem := "x"
		if x.BaseAuction != nil && x.RemainingSellingCoin.Denom == x.SellingCoin.Denom {
			rem = intStr(x.RemainingSellingCoin.Amount)
		}
		tail = "F " + rem
	case *types.BatchAuction:
		base, typ = x.BaseAuction, "B"
		tail = fmt.Sprintf("B %s %s %d %s", decStr(x.MinBidPrice), decStr(x.MatchedPrice), x.MaxExtendedRound, decStr(x.ExtendedRoundRate))
	default:
		return fmt.Sprintf("A x:%T", a)
	}
	if base == nil {
		return "A x:nilbase " + tail
	}
	parts := []string{
		"A", fmt.Sprint(base.Id), typ, fmt.Sprint(int32(base.Status)), e.addrStr(base.Auctioneer),
		e.coin(base.SellingCoin), e.denom(base.PayingCoinDenom), decStr(base.StartPrice), timeStr(base.StartTime),
		fmt.Sprint(len(base.EndTimes)),
	}
	for _, t := range base.EndTimes {
		parts = append(parts, timeStr(t))
	}
	parts = append(parts, schedStr(base.VestingSchedules),
		e.addrStr(base.SellingReserveAddress), e.addrStr(base.PayingReserveAddress), e.addrStr(base.VestingReserveAddress), tail)
	return strings.Join(parts, " ")
}

func (e *Env) allowedLine(keyAuction uint64, keyBidder string, ab types.AllowedBidder) string {
	return fmt.Sprintf("W %d %s %d %s %s", keyAuction, keyBidder, ab.AuctionId, e.addrStr(ab.Bidder), intStr(ab.MaxBidAmount))
}

func (e *Env) bidLine(keyAuction, keyBid uint64, b types.Bid) string {
	return fmt.Sprintf("B %d %d %d %d %s %s %s %s %s", keyAuction, keyBid, b.AuctionId, b.Id, e.addrStr(b.Bidder),
		bidTypeStr(b.Type), decStr(b.Price), e.coin(b.Coin), boolStr(b.IsMatched))
}

func (e *Env) queueLine(keyAuction uint64, keyTime time.Time, q types.VestingQueue) string {
	return fmt.Sprintf("Q %d %s %d %s %s %s %s", keyAuction, timeStr(keyTime), q.AuctionId, timeStr(q.ReleaseTime),
		e.addrStr(q.Auctioneer), e.coin(q.PayingCoin), boolStr(q.Released))
}

// ---------------------------------------------------------------------------------------------
// state dump

func (e *Env) Dump() []string {
	ctx := e.ctx
	k := e.k
	var out []string
	bad := func(what string, err error) {
		out = append(out, fmt.Sprintf("# dump error (%s): %s", what, strings.ReplaceAll(err.Error(), "\n", " | ")))
	}

	next, err := k.AuctionSeq.Peek(ctx)
	if err != nil {
		bad("AuctionSeq", err)
	}
	e.ensureEscrows(next + 8)

	if p, err := k.Params.Get(ctx); err != nil {
		bad("Params", err)
		out = append(out, "P x")
	} else {
		out = append(out, e.paramsLine(p))
	}
	out = append(out, fmt.Sprintf("N %d", next))

	if err := k.Auction.Walk(ctx, nil, func(_ uint64, a types.AuctionI) (bool, error) {
		out = append(out, e.auctionLine(a))
		return false, nil
	}); err != nil {
		bad("Auction", err)
	}

	// AllowedBidder: sorted by (auctionId, bidder index); non-user keys last by rendering.
	type wEnt struct {
		auction uint64
		idx     int
		name    string
		line    string
	}
	var ws []wEnt
	if err := k.AllowedBidder.Walk(ctx, nil, func(key collections.Pair[uint64, sdk.AccAddress], ab types.AllowedBidder) (bool, error) {
		name := e.addrBytes(key.K2())
		idx, ok := e.userIdx[key.K2().String()]
		if !ok {
			idx = 1 << 30
		}
		ws = append(ws, wEnt{key.K1(), idx, name, e.allowedLine(key.K1(), name, ab)})
		return false, nil
	}); err != nil {
		bad("AllowedBidder", err)
	}
	sort.SliceStable(ws, func(i, j int) bool {
		if ws[i].auction != ws[j].auction {
			return ws[i].auction < ws[j].auction
		}
		if ws[i].idx != ws[j].idx {
			return ws[i].idx < ws[j].idx
		}
		return ws[i].name < ws[j].name
	})
	for _, w := range ws {
		out = append(out, w.line)
	}

	if err := k.Bid.Walk(ctx, nil, func(key collections.Pair[uint64, uint64], b types.Bid) (bool, error) {
		out = append(out, e.bidLine(key.K1(), key.K2(), b))
		return false, nil
	}); err != nil {
		bad("Bid", err)
	}

	if err := k.VestingQueue.Walk(ctx, nil, func(key collections.Pair[uint64, time.Time], q types.VestingQueue) (bool, error) {
		out = append(out, e.queueLine(key.K1(), key.K2(), q))
		return false, nil
	}); err != nil {
		bad("VestingQueue", err)
	}

	if err := k.MatchedBidsLen.Walk(ctx, nil, func(id uint64, n int64) (bool, error) {
		if n != 0 {
			out = append(out, fmt.Sprintf("L %d %d", id, n))
		}
		return false, nil
	}); err != nil {
		bad("MatchedBidsLen", err)
	}

	if err := k.BidSeq.Walk(ctx, nil, func(id uint64, n uint64) (bool, error) {
		if n != 0 {
			out = append(out, fmt.Sprintf("S %d %d", id, n))
		}
		return false, nil
	}); err != nil {
		bad("BidSeq", err)
	}

	// balances
	balances := func(name string, addr sdk.AccAddress, base sdk.Coins) {
		for i, d := range Denoms {
			if e.appMode && d == "stake" {
				continue // moved by the simapp's mint / distribution / fee machinery: not shown
			}
			amt := e.app.BankKeeper.GetBalance(ctx, addr, d).Amount
			if base != nil {
				amt = amt.Sub(base.AmountOf(d))
			}
			if !amt.IsZero() {
				out = append(out, fmt.Sprintf("C %s %d %s", name, i, amt.String()))
			}
		}
	}
	for i, u := range e.users {
		balances(fmt.Sprintf("u%d", i), u, nil)
	}
	for a := uint64(0); a < next; a++ {
		balances(fmt.Sprintf("S%d", a), types.SellingReserveAddress(a), nil)
		balances(fmt.Sprintf("P%d", a), types.PayingReserveAddress(a), nil)
		balances(fmt.Sprintf("V%d", a), types.VestingReserveAddress(a), nil)
	}
	if !e.appMode {
		balances("pool", e.poolAddr, e.poolBase)
	}
	out = append(out, e.invLine())

	return out
}

// invLine runs the module's OWN invariants (keeper/invariants.go, the functions meant for the
// crisis module) on the current state and prints their `broken` flags:
//
//	I <selling 0|1> <paying 0|1> <vesting 0|1> <AllInvariants 0|1>
//
// (`x` for one that panics).  SellingPoolReserveAmountInvariant prints to os.Stdout with
// fmt.Println; the harness writes its stream through the writer it was given at start, so
// os.Stdout is pointed at the null device for the duration of the call.
func (e *Env) invLine() string {
	old := os.Stdout
	if null, err := os.OpenFile(os.DevNull, os.O_WRONLY, 0); err == nil {
		os.Stdout = null
		defer func() { os.Stdout = old; null.Close() }()
	}
	run := func(inv sdk.Invariant) (s string) {
		defer func() {
			if r := recover(); r != nil {
				s = "x"
			}
		}()
		_, broken := inv(e.ctx)
		return boolStr(broken)
	}
	return strings.Join([]string{"I",
		run(keeper.SellingPoolReserveAmountInvariant(e.k)),
		run(keeper.PayingPoolReserveAmountInvariant(e.k)),
		run(keeper.VestingPoolReserveAmountInvariant(e.k)),
		run(keeper.AllInvariants(e.k))}, " ")
}
