package main

// `harness gen`: random history generator.  Every op is executed on the real code as soon as it
// is generated, so later choices depend on the real state.  All randomness comes from ONE
// math/rand PRNG seeded by -seed.

import (
	"bufio"
	"encoding/json"
	"flag"
	"fmt"
	"math/big"
	"math/rand"
	"os"
	"sort"
	"strings"
)

type genCfg struct {
	seed      int64
	histories int
	maxops    int
	opsPath   string
	obsPath   string
	profile   string
	focus     string
	app       bool // appgen: record through apprun and avoid the ops it does not support
}

type Gen struct {
	cfg genCfg
	e   *Env
	r   *rand.Rand
	st  *Stats

	opsW, obsW *bufio.Writer

	// per history
	now            int64
	prev           *snapshot
	seenStatus     map[[2]uint64]bool
	hDenoms        []int // denoms (0…4) used for selling / paying in this history
	oddDenom       int   // a denom of 0…4 that no auction of this history uses on purpose
	poor           int   // bidder left poor (-1 = none)
	target         int   // number of auctions this history wants to create
	left           int   // remaining op budget of the random phase
	budgeted       bool  // true while ops count against `left`
	inScenario     bool  // a scenario template is being played
	scenarioPrefix int
}

func genMain(args []string, appMode bool) error {
	fs := flag.NewFlagSet("gen", flag.ContinueOnError)
	var c genCfg
	fs.Int64Var(&c.seed, "seed", 1, "PRNG seed")
	fs.IntVar(&c.histories, "histories", 10, "number of histories")
	fs.IntVar(&c.maxops, "maxops", 40, "ops per history in the random phase (funding prologue and drain blocks come on top)")
	fs.StringVar(&c.opsPath, "ops", "", "output: op file")
	fs.StringVar(&c.obsPath, "obs", "", "output: observation blocks")
	fs.StringVar(&c.profile, "profile", "quick", "quick|thorough")
	fs.StringVar(&c.focus, "focus", "", "hooks|faults")
	if err := fs.Parse(args); err != nil {
		return err
	}
	if c.opsPath == "" || c.obsPath == "" {
		return fmt.Errorf("gen: -ops and -obs are required")
	}
	if c.profile != "quick" && c.profile != "thorough" {
		return fmt.Errorf("gen: unknown profile %q", c.profile)
	}
	if c.focus != "" && c.focus != "hooks" && c.focus != "faults" && !strings.HasPrefix(c.focus, "scen:") {
		return fmt.Errorf("gen: unknown focus %q", c.focus)
	}
	if c.maxops < 1 {
		c.maxops = 1
	}
	opsF, err := os.Create(c.opsPath)
	if err != nil {
		return err
	}
	defer opsF.Close()
	obsF, err := os.Create(c.obsPath)
	if err != nil {
		return err
	}
	defer obsF.Close()
	c.app = appMode
	newEnv := NewEnv
	if appMode {
		newEnv = NewAppEnv
	}
	e, err := newEnv()
	if err != nil {
		return err
	}
	g := &Gen{cfg: c, e: e, r: rand.New(rand.NewSource(c.seed)), st: newStats(),
		opsW: bufio.NewWriterSize(opsF, 1<<20), obsW: bufio.NewWriterSize(obsF, 1<<20)}
	g.st.Seed, g.st.Profile, g.st.Focus = c.seed, c.profile, c.focus
	for i := 0; i < c.histories; i++ {
		g.history()
	}
	if err := g.opsW.Flush(); err != nil {
		return err
	}
	if err := g.obsW.Flush(); err != nil {
		return err
	}
	out, err := json.Marshal(g.st)
	if err != nil {
		return err
	}
	fmt.Println(string(out))
	return nil
}

// ---------------------------------------------------------------------------------------------
// random helpers

func (g *Gen) chance(p float64) bool { return g.r.Float64() < p }
func (g *Gen) intn(n int) int        { return g.r.Intn(n) }
func (g *Gen) between(a, b int) int  { return a + g.r.Intn(b-a+1) } // inclusive

func (g *Gen) pickInt(xs []int) int        { return xs[g.r.Intn(len(xs))] }
func (g *Gen) pickI64(xs ...int64) int64   { return xs[g.r.Intn(len(xs))] }
func (g *Gen) pickStr(xs ...string) string { return xs[g.r.Intn(len(xs))] }

// weighted returns an index drawn with the given weights.
func (g *Gen) weighted(ws []float64) int {
	tot := 0.0
	for _, w := range ws {
		tot += w
	}
	x := g.r.Float64() * tot
	for i, w := range ws {
		if x < w {
			return i
		}
		x -= w
	}
	return len(ws) - 1
}

func bi(n int64) *big.Int { return big.NewInt(n) }
func bs(s string) *big.Int {
	b, ok := new(big.Int).SetString(s, 10)
	if !ok {
		panic("bad big literal " + s)
	}
	return b
}
func p10(n int) *big.Int         { return new(big.Int).Exp(bi(10), bi(int64(n)), nil) }
func add(a, b *big.Int) *big.Int { return new(big.Int).Add(a, b) }
func sub(a, b *big.Int) *big.Int { return new(big.Int).Sub(a, b) }
func mul(a, b *big.Int) *big.Int { return new(big.Int).Mul(a, b) }
func quo(a, b *big.Int) *big.Int { return new(big.Int).Quo(a, b) }
func minB(a, b *big.Int) *big.Int {
	if a.Cmp(b) <= 0 {
		return a
	}
	return b
}

var one18 = p10(18)

// mulPriceCeil = ceil(q × price / 10^18), floorDivPrice = floor(amt × 10^18 / price).
func mulPriceCeil(q, price *big.Int) *big.Int {
	n := mul(q, price)
	d, m := new(big.Int).QuoRem(n, one18, new(big.Int))
	if m.Sign() > 0 {
		d.Add(d, bi(1))
	}
	return d
}
func floorDivPrice(amt, price *big.Int) *big.Int {
	if price.Sign() <= 0 {
		return new(big.Int)
	}
	return quo(mul(amt, one18), price)
}

// bigAmount returns m × 10^e with e in [lo,hi], m in 1…9 (sometimes with random low digits).
func (g *Gen) bigAmount(lo, hi int) *big.Int {
	e := g.between(lo, hi)
	v := mul(bi(int64(g.between(1, 9))), p10(e))
	if g.chance(0.3) && e >= 3 {
		v = add(v, bi(int64(g.intn(1000))))
	}
	return v
}

// ---------------------------------------------------------------------------------------------
// emitting

// emit executes one op on the real code, records op line and observation block, and returns the
// `res …` line.
func (g *Gen) emit(line string) string {
	pre := g.prev
	if pre == nil {
		pre = emptySnapshot()
	}
	injected := g.e.pendFault >= 0 || len(g.e.pendHooks) > 0
	block := g.e.Exec(line)
	g.opsW.WriteString(line + "\n")
	g.obsW.WriteString(block)
	res := ""
	if parts := strings.SplitN(block, "\n", 3); len(parts) >= 2 {
		res = parts[1]
	}
	post := g.e.Snapshot()
	if strings.HasPrefix(line, "reset") {
		g.seenStatus = map[[2]uint64]bool{}
	}
	g.st.account(g, line, res, block, pre, post, injected)
	g.prev = post
	if g.budgeted {
		g.left--
	}
	return res
}

// ---------------------------------------------------------------------------------------------
// one history

func (g *Gen) thorough() bool { return g.cfg.profile == "thorough" }

func (g *Gen) history() {
	g.st.Histories++
	g.budgeted = false
	g.prev = nil
	// scenario choice first, so that the `# scenario:` comment can precede the history
	scenario := ""
	g.scenarioPrefix = 0
	if strings.HasPrefix(g.cfg.focus, "scen:") || g.chance(0.35) {
		scenario = g.pickScenario()
		if g.chance(0.5) {
			g.scenarioPrefix = g.between(1, 4)
		}
		g.opsW.WriteString("# scenario: " + scenario + "\n")
		g.st.Scenarios[scenario]++
	} else {
		g.opsW.WriteString("# scenario: none (free random walk)\n")
	}
	g.emit("reset")
	g.now = GenesisTime

	// denoms of this history: 2–3 of 0…4 are "in use", one of the others is the odd one out
	perm := g.r.Perm(5)
	g.hDenoms = append([]int(nil), perm[:g.between(2, 3)]...)
	sort.Ints(g.hDenoms)
	g.oddDenom = perm[4]
	g.poor = -1
	if g.chance(0.25) {
		g.poor = g.between(3, 9)
	}
	g.target = g.between(1, 4)

	// funding prologue
	for u := 0; u < NumUsers; u++ {
		if u == g.poor {
			g.emit(fmt.Sprintf("fund %d %d %s", u, g.pickInt(g.hDenoms), bi(int64(g.between(1, 2000)))))
			if g.chance(0.5) {
				g.emit(fmt.Sprintf("fund %d 5 %s", u, bi(int64(g.between(1, 100000)))))
			}
			continue
		}
		g.emit(fmt.Sprintf("fund %d 5 %s", u, g.bigAmount(15, 30)))
		for _, d := range g.hDenoms {
			if u >= 10 && g.chance(0.5) {
				continue // outsiders need not hold everything
			}
			g.emit(fmt.Sprintf("fund %d %d %s", u, d, g.bigAmount(15, 30)))
		}
		if g.chance(0.3) {
			g.emit(fmt.Sprintf("fund %d %d %s", u, g.oddDenom, g.bigAmount(15, 30)))
		}
	}
	if g.cfg.focus == "hooks" && !g.cfg.app {
		g.emit(fmt.Sprintf("listeners %d", g.between(1, 3)))
	}

	// random phase, for ~35 % of the histories interleaved with a scenario template
	g.left = g.cfg.maxops
	g.budgeted = true
	if scenario != "" {
		for i := g.scenarioPrefix; i > 0 && g.left > 0; i-- {
			g.step() // a few free steps first, so that scenario auctions do not always get id 0
		}
		g.inScenario = true
		g.playScenario(scenario)
		g.inScenario = false
	}
	for g.left > 0 {
		g.step()
	}
	g.budgeted = false

	g.drain()

	allTerminal := true
	for _, a := range g.prev.aucs {
		if a.status != 4 && a.status != 5 {
			allTerminal = false
		}
	}
	if allTerminal && len(g.prev.aucs) > 0 {
		g.st.HistoriesAllTerminal++
	}
}

// step emits one randomly chosen action (possibly preceded by an injection op).
func (g *Gen) step() {
	s := g.prev
	genesisRate := 1.0
	if g.thorough() {
		genesisRate = 2.0
	}
	if !g.cfg.app && g.chance(genesisRate/float64(g.cfg.maxops)) {
		g.emit("genesis")
		return
	}

	nA := len(s.aucs)
	startedBiddable, batchBids, anyAllowed, wantsBidders, needBids, anyStandby := false, false, false, false, false, false
	for _, a := range s.aucs {
		if a.status == 1 {
			anyStandby = true
		}
		if biddableAuction(s, a) && len(s.bids[a.id]) < 3 {
			needBids = true
		}
		if len(s.allowed[a.id]) > 0 {
			anyAllowed = true
		}
		if (a.status == 1 || a.status == 2) && len(s.allowed[a.id]) < 3 {
			wantsBidders = true
		}
		if biddableAuction(s, a) {
			startedBiddable = true
		}
		if a.status == 2 && a.batch && len(s.bids[a.id]) > 0 {
			batchBids = true
		}
	}
	w := func(cond bool, yes, no float64) float64 {
		if cond {
			return yes
		}
		return no
	}
	rare := 1.2 // ≈ 2 % of the total weight
	hooksFocus := g.cfg.focus == "hooks"
	type act struct {
		w  float64
		fn func() []string
	}
	acts := []act{
		{w(nA == 0, 50, w(nA < g.target, 6, 0.3)), func() []string { return g.genCreate(s) }},
		{w(nA > 0, w(wantsBidders, 9, 2), 0.2), func() []string { return g.genKadd(s) }},
		{w(anyAllowed, 2.5, 0.2), func() []string { return g.genKupd(s) }},
		{w(startedBiddable, w(needBids, 38, 26), w(nA > 0, 0.5, 0.1)), func() []string { return g.genPlace(s) }},
		{w(batchBids, 7, w(nA > 0, 0.5, 0)), func() []string { return g.genModify(s) }},
		{w(anyStandby, 2.5, w(nA > 0, 0.7, 0.1)), func() []string { return g.genCancel(s) }},
		{2, func() []string { return g.genGift(s) }},
		{w(g.cfg.app, 0, 1.5), func() []string { return g.genParams(s) }},
		{w(nA > 0, w(needBids, 6, 14), 2), func() []string { return g.genBlock(s) }},
		{4, func() []string { return g.genQuery(s) }},
		{0.5, func() []string { return g.genAddmsg(s) }},
		{w(g.cfg.app, 0, w(hooksFocus, 3, rare)), func() []string { return []string{fmt.Sprintf("listeners %d", g.between(0, 3))} }},
	}
	ws := make([]float64, len(acts))
	for i, a := range acts {
		ws[i] = a.w
	}
	lines := acts[g.weighted(ws)].fn()
	if len(lines) == 0 {
		lines = g.genBlock(s)
	}
	for _, l := range lines {
		g.emitOp(l)
	}
}

// emitOp emits one generated op line: possibly an injection (`failhook` / `fault`) right before a
// module op, the clock update of a `block`, the op itself and (appgen) the quiesce blocks.  It
// returns the `res` line of the op.
func (g *Gen) emitOp(l string) string {
	s := g.prev
	hooksFocus, faultsFocus := g.cfg.focus == "hooks", g.cfg.focus == "faults"
	kind := strings.Fields(l)[0]
	if moduleOps[kind] {
		// injections right before a module op
		pHook, pFault := 0.02, 0.02
		if g.cfg.app {
			pHook, pFault = 0, 0 // listeners / failhook / fault are not supported by apprun
		}
		if hooksFocus {
			pHook = 0.35
		}
		if faultsFocus {
			pFault = 0.3
			if kind == "block" && g.blockWillAct(s, l) {
				pFault = 0.6
			}
		}
		if g.inScenario && !hooksFocus && !faultsFocus {
			pHook, pFault = 0, 0 // do not derail a scenario by a stray injection
		}
		// never arm two failhooks for one op: the harness keeps a set of armed failhooks, the
		// model only the last one (PROTOCOL does not say), so such streams would not be comparable
		if hooks := hooksOf(kind); len(hooks) > 0 && len(g.e.pendHooks) == 0 && g.chance(pHook) {
			if kind != "block" || g.blockWillAct(s, l) || g.chance(0.2) {
				g.emit(fmt.Sprintf("failhook %s %d", hooks[g.intn(len(hooks))], g.intn(3)))
			}
		}
		if g.chance(pFault) {
			g.emit(fmt.Sprintf("fault %d", g.intn(7)))
		}
	}
	if kind == "block" {
		var t int64
		fmt.Sscanf(strings.Fields(l)[1], "%d", &t)
		g.now = t
	}
	res := g.emit(l)
	g.quiesce()
	return res
}

// quiesce (appgen only): in the app EVERY block — also the block that carries a message tx —
// runs the module's BeginBlocker at the current block time, whereas in the model only `block`
// ops do.  BeginBlocker advances one lifecycle stage per auction and block, so a tx block would
// silently advance an auction that still has a stage due at the current time (started with the
// end time reached, vesting with a release due, a further extension round …).  To keep both
// sides in step, repeat `block <now>` until nothing is due any more; tx blocks are then
// idempotent with respect to BeginBlocker.  These blocks do not count against -maxops.
func (g *Gen) quiesce() {
	if !g.cfg.app {
		return
	}
	saved := g.budgeted
	g.budgeted = false
	for i := 0; i < 60; i++ {
		p := pendingInstants(g.prev)
		if len(p) == 0 || p[0] > g.now {
			break
		}
		g.emit(fmt.Sprintf("block %d", g.now))
	}
	g.budgeted = saved
}

// hooksOf lists the hooks an op kind can trigger.
func hooksOf(kind string) []string {
	switch kind {
	case "createF":
		return []string{"BeforeFixedPriceAuctionCreated", "AfterFixedPriceAuctionCreated"}
	case "createB":
		return []string{"BeforeBatchAuctionCreated", "AfterBatchAuctionCreated"}
	case "cancel":
		return []string{"BeforeAuctionCanceled"}
	case "place":
		return []string{"BeforeBidPlaced"}
	case "modify":
		return []string{"BeforeBidModified"}
	case "kadd", "addmsg":
		return []string{"BeforeAllowedBiddersAdded"}
	case "kupd":
		return []string{"BeforeAllowedBidderUpdated"}
	case "block":
		return []string{"BeforeSellingCoinsAllocated"}
	}
	return nil
}

// blockWillAct reports whether a `block <t>` line will settle an auction or release a vesting.
func (g *Gen) blockWillAct(s *snapshot, line string) bool {
	var t int64
	fmt.Sscanf(strings.Fields(line)[1], "%d", &t)
	for _, a := range s.aucs {
		if a.status == 2 && a.lastEnd() <= t {
			return true
		}
		if a.status == 3 {
			for _, q := range s.queues[a.id] {
				if !q.released && q.release <= t {
					return true
				}
			}
		}
	}
	return false
}

// pendingInstants lists, per live auction, the next instant at which BeginBlocker will act.
func pendingInstants(s *snapshot) []int64 {
	var out []int64
	for _, a := range s.aucs {
		switch a.status {
		case 1:
			out = append(out, a.start)
		case 2:
			out = append(out, a.lastEnd())
		case 3:
			for _, q := range s.queues[a.id] {
				if !q.released {
					out = append(out, q.release)
					break
				}
			}
		}
	}
	sort.Slice(out, func(i, j int) bool { return out[i] < out[j] })
	return out
}

// futureInstants lists every start / end / release instant of live auctions (for jumps).
func futureInstants(s *snapshot, now int64) []int64 {
	var out []int64
	for _, a := range s.aucs {
		if a.status == 4 || a.status == 5 {
			continue
		}
		for _, t := range append(append([]int64{a.start}, a.ends...), a.releases...) {
			if t >= now-1 {
				out = append(out, t)
			}
		}
	}
	sort.Slice(out, func(i, j int) bool { return out[i] < out[j] })
	return out
}

func (g *Gen) genBlock(s *snapshot) []string {
	now := g.now
	t := now + 1
	inst := futureInstants(s, now)
	switch g.weighted([]float64{25, 8, w3(len(inst) > 0, 52), w3(len(inst) > 1, 15)}) {
	case 0:
		t = now + 1
	case 1:
		t = now + 86400
	case 2:
		// one of the next few instants, minus 1 s / exactly / plus 1 s
		k := g.intn(min(len(inst), 3))
		t = inst[k] + g.pickI64(-1, 0, 0, 1)
	case 3:
		// jump beyond several instants
		k := g.between(1, len(inst)-1)
		t = inst[k] + g.pickI64(1, 60, 86400)
	}
	// do not run past the end of a started auction that has hardly any bids yet (most of the time)
	if g.chance(0.75) {
		for _, a := range s.aucs {
			if a.status == 2 && len(s.allowed[a.id]) > 0 && len(s.bids[a.id]) < 2 && a.lastEnd() > now && t >= a.lastEnd() {
				t = a.lastEnd() - 1
			}
			if a.status == 1 && a.start >= now && len(s.allowed[a.id]) > 0 && t >= a.ends[0] && a.ends[0]-1 >= a.start {
				t = a.ends[0] - 1
			}
		}
	}
	if t < now {
		t = now
	}
	return []string{fmt.Sprintf("block %d", t)}
}

func w3(cond bool, w float64) float64 {
	if cond {
		return w
	}
	return 0
}

// drain steps the clock to every pending instant until all auctions are finished / cancelled.
func (g *Gen) drain() {
	bound := 80
	if g.thorough() {
		bound = 200
	}
	for i := 0; i < bound; i++ {
		p := pendingInstants(g.prev)
		if len(p) == 0 {
			return
		}
		t := p[0]
		if t < g.now {
			t = g.now
		}
		g.now = t
		if g.cfg.focus == "faults" && g.chance(0.15) && g.blockWillAct(g.prev, fmt.Sprintf("block %d", t)) {
			g.emit(fmt.Sprintf("fault %d", g.intn(7)))
		}
		g.emit(fmt.Sprintf("block %d", t))
	}
}
