package main

// Scenario layer of the generator: ~35 % of the histories play one randomly parameterised
// scenario template (interleaved with noise ops, preceded and followed by the free random walk).
// Templates aim at situations the random walk hardly ever builds by chance: bids of the wrong
// type that are otherwise valid, the extension rule hit with exact equality, exact sell-outs,
// vesting dust, diff-0 modifies, cancel edge cases, capped books, several auctions due in one block.
// Every step re-reads the real state (g.prev); a template stops early when a prerequisite fails.

import (
	"fmt"
	"math/big"
	"strings"

	"cosmossdk.io/math"
)

type scenarioDef struct {
	name   string
	weight float64
	play   func(sc *scen) bool
}

func scenarioDefs() []scenarioDef {
	return []scenarioDef{
		{"1-type-mismatch", 3, (*scen).typeMismatch},
		{"2-extension-equality", 3, func(sc *scen) bool { return sc.extendEq(false) }},
		{"3-fixed-sold-out-exactly", 1, (*scen).fixedExact},
		{"4-vesting-dust", 1, (*scen).vestingDust},
		{"5-modify-edges", 1, (*scen).modifyEdges},
		{"6-cancel-edges", 1, (*scen).cancelEdges},
		{"7-concurrent-auctions-shared-bidder", 1, (*scen).concurrent},
		{"8-genesis-between-end-times", 1.5, func(sc *scen) bool { return sc.extendEq(true) }},
		{"9-capped-book", 1, (*scen).cappedBook},
		{"10-multi-status-block", 1, (*scen).multiStatus},
		{"11-kupd-lower-cap", 1, (*scen).kupdLower},
		{"12-fixed-remainders-one-bidder", 1.5, (*scen).fixedRemainders},
		{"13-window-jumped-then-cancel", 1, (*scen).windowJump},
		{"14-worth-bid-a-hair-below-an-integer", 1, (*scen).worthHair},
		{"15-fixed-paying-bid-a-hair-below-an-integer", 1, (*scen).fixedHair},
	}
}

func (g *Gen) pickScenario() string {
	defs := scenarioDefs()
	// `-focus scen:12,15`: only the listed scenario templates (directed search after a tie
	// theorem of the functions they exercise stopped checking)
	if strings.HasPrefix(g.cfg.focus, "scen:") {
		var sel []scenarioDef
		for _, n := range strings.Split(strings.TrimPrefix(g.cfg.focus, "scen:"), ",") {
			for _, d := range defs {
				if strings.HasPrefix(d.name, n+"-") {
					sel = append(sel, d)
				}
			}
		}
		if len(sel) > 0 {
			return sel[g.intn(len(sel))].name
		}
	}
	ws := make([]float64, len(defs))
	for i, d := range defs {
		ws[i] = d.weight
	}
	return defs[g.weighted(ws)].name
}

func (g *Gen) playScenario(name string) {
	for _, d := range scenarioDefs() {
		if d.name == name {
			if d.play(g.newScen()) {
				g.st.ScenariosCompleted[name]++
			}
			return
		}
	}
}

// ---------------------------------------------------------------------------------------------
// scenario context and primitive steps

type scen struct {
	g       *Gen
	owner   int
	bidders []int // candidate bidders (3…9 without the poor one), shuffled
	sd, pd  int   // selling / paying denom
}

type capEntry struct {
	u   int
	cap *big.Int
}

func (g *Gen) newScen() *scen {
	sc := &scen{g: g, owner: g.between(0, 2)}
	for _, i := range g.r.Perm(7) {
		if i+3 != g.poor {
			sc.bidders = append(sc.bidders, i+3)
		}
	}
	p := g.r.Perm(len(g.hDenoms))
	sc.sd, sc.pd = g.hDenoms[p[0]], g.hDenoms[p[1]]
	return sc
}

var scenPrices = []string{"1000000000000000000", "500000000000000000", "2000000000000000000", "333333333333333333",
	"300000000000000000", "1500000000000000000"}

func (sc *scen) price() *big.Int { return bs(scenPrices[sc.g.intn(len(scenPrices))]) }

// unit returns m × 10^e (m in 1…9).
func (sc *scen) unit(lo, hi int) *big.Int {
	return mul(bi(int64(sc.g.between(1, 9))), p10(sc.g.between(lo, hi)))
}

func (sc *scen) do(line string) bool { return sc.g.emitOp(line) == "res ok" }

// noise sometimes emits one op that does not interfere with the template: a query, a gift, or
// the creation of an unrelated auction.
func (sc *scen) noise() {
	g := sc.g
	if !g.chance(0.35) {
		return
	}
	var lines []string
	switch g.weighted([]float64{3, 3, 1}) {
	case 0:
		lines = g.genQuery(g.prev)
	case 1:
		lines = g.genGift(g.prev)
	case 2:
		lines = g.genCreate(g.prev)
	}
	for _, l := range lines {
		g.emitOp(l)
	}
}

func (sc *scen) auc(id uint64) *aucInfo { return sc.g.prev.auc(id) }

func (sc *scen) createFixed(price, amt *big.Int, start, end int64, sched []schedEntry) (uint64, bool) {
	id := sc.g.prev.next
	ok := sc.do(createOp{auctioneer: sc.owner, startPrice: price, sellDenom: sc.sd, sellAmt: amt, payDenom: sc.pd,
		start: start, end: end, sched: sched}.line())
	return id, ok && sc.auc(id) != nil
}

func (sc *scen) createBatch(price, minBid, amt *big.Int, maxExt int64, rate *big.Int, start, end int64, sched []schedEntry) (uint64, bool) {
	id := sc.g.prev.next
	ok := sc.do(createOp{batch: true, auctioneer: sc.owner, startPrice: price, minBid: minBid, sellDenom: sc.sd, sellAmt: amt,
		payDenom: sc.pd, maxExt: maxExt, rate: rate, start: start, end: end, sched: sched}.line())
	return id, ok && sc.auc(id) != nil
}

func (sc *scen) kadd(id uint64, es ...capEntry) bool {
	parts := []string{fmt.Sprintf("kadd %d %d", id, len(es))}
	for _, e := range es {
		parts = append(parts, fmt.Sprintf("%d %d %s", id, e.u, e.cap))
	}
	return sc.do(strings.Join(parts, " "))
}

func (sc *scen) place(u int, id uint64, typ string, price *big.Int, denom int, amt *big.Int) bool {
	return sc.do(fmt.Sprintf("place %d %d %s %s %d %s", u, id, typ, price, denom, amt))
}

func (sc *scen) modify(u int, id, bid uint64, price *big.Int, denom int, amt *big.Int) bool {
	return sc.do(fmt.Sprintf("modify %d %d %d %s %d %s", u, id, bid, price, denom, amt))
}

// block advances the clock to t (never backwards).
func (sc *scen) block(t int64) bool {
	if t < sc.g.now {
		t = sc.g.now
	}
	return sc.do(fmt.Sprintf("block %d", t))
}

// lastBidId returns the id of the newest bid of an auction (0 if none).
func (sc *scen) lastBidId(id uint64) uint64 {
	bids := sc.g.prev.bids[id]
	if len(bids) == 0 {
		return 0
	}
	return bids[len(bids)-1].id
}

func maxB(a, b *big.Int) *big.Int {
	if a.Cmp(b) >= 0 {
		return a
	}
	return b
}

func (sc *scen) smallSched(end int64) []schedEntry { return sc.g.schedule(sc.g.between(0, 2), end) }

// ---------------------------------------------------------------------------------------------
// 1. bids of the wrong type whose every other field is valid

func (sc *scen) typeMismatch() bool {
	g := sc.g
	if len(sc.bidders) < 2 {
		return false
	}
	p := sc.price()
	S := sc.unit(2, 12)
	b1, b2 := sc.bidders[0], sc.bidders[1]
	played := false

	if g.chance(0.85) { // W / M bids on a FIXED price auction
		end := g.now + 3600
		if id, ok := sc.createFixed(p, S, g.now, end, sc.smallSched(end)); ok {
			if !sc.kadd(id, capEntry{b1, maxB(quo(S, bi(2)), bi(1))}, capEntry{b2, S}) {
				return false
			}
			sc.noise()
			if g.chance(0.5) {
				sc.place(b2, id, "F", p, sc.sd, maxB(quo(S, bi(10)), bi(1))) // a valid bid first
			}
			accepted := false
			combos := [][2]string{{"M", "sell"}, {"W", "pay"}, {"M", "pay"}, {"W", "sell"}}
			g.r.Shuffle(len(combos), func(i, j int) { combos[i], combos[j] = combos[j], combos[i] })
			for _, c := range combos[:g.between(2, 4)] {
				b := g.pickInt([]int{b1, b2})
				a := sc.auc(id)
				room := minB(sub(g.prev.allowed[id][b], bidTotal(a, g.prev.bids[id], b)), a.remaining)
				if room.Sign() <= 0 {
					continue
				}
				q := []*big.Int{bi(1), room, maxB(quo(room, bi(2)), bi(1))}[g.intn(3)]
				denom, amt := sc.sd, q
				if c[1] == "pay" {
					denom, amt = sc.pd, mulPriceCeil(q, p)
					if floorDivPrice(amt, p).Cmp(room) > 0 {
						amt = quo(mul(room, p), one18)
					}
					if amt.Sign() <= 0 {
						amt = bi(1)
					}
				}
				if sc.place(b, id, c[0], p, denom, amt) {
					accepted = true
				}
				g.st.TypeMismatchValid++
				played = true
				sc.noise()
			}
			// a bid of the wrong type was ACCEPTED (it must not be): sell the published remainder
			// out with a valid bid, so that the settlement shows what the stray bid does to the supply
			if accepted {
				if a := sc.auc(id); a != nil && a.remaining.Sign() > 0 {
					sc.kadd(id, capEntry{b2, S})
					room := sub(S, bidTotal(a, g.prev.bids[id], b2))
					if room.Cmp(a.remaining) > 0 {
						room = a.remaining
					}
					if room.Sign() > 0 {
						sc.place(b2, id, "F", p, sc.sd, room)
					}
				}
				sc.block(end)
			}
		}
	}
	if g.chance(0.85) { // F bids on a BATCH auction
		minBid := []*big.Int{p, maxB(quo(p, bi(2)), bi(1)), bs("100000000000000000")}[g.intn(3)]
		end := g.now + 3600
		if id, ok := sc.createBatch(p, minBid, S, int64(g.between(0, 2)), g.rate(), g.now, end, sc.smallSched(end)); ok {
			if !sc.kadd(id, capEntry{b1, maxB(quo(S, bi(2)), bi(1))}, capEntry{b2, S}) {
				return played
			}
			if g.chance(0.5) {
				sc.place(b2, id, "M", p, sc.sd, maxB(quo(S, bi(10)), bi(1))) // a valid bid first
			}
			combos := []string{"pay", "sell"}
			g.r.Shuffle(2, func(i, j int) { combos[i], combos[j] = combos[j], combos[i] })
			for _, c := range combos[:g.between(1, 2)] {
				b := g.pickInt([]int{b1, b2})
				room := g.prev.allowed[id][b]
				q := []*big.Int{bi(1), room, maxB(quo(room, bi(2)), bi(1))}[g.intn(3)]
				denom, amt := sc.sd, q
				if c == "pay" {
					denom, amt = sc.pd, mulPriceCeil(q, p)
					if floorDivPrice(amt, p).Cmp(room) > 0 {
						amt = maxB(quo(mul(room, p), one18), bi(1))
					}
				}
				sc.place(b, id, "F", p, denom, amt)
				g.st.TypeMismatchValid++
				played = true
				sc.noise()
			}
		}
	}
	return played
}

// ---------------------------------------------------------------------------------------------
// 2. / 8. the extension rule 1 − curr/last >= rate hit with equality (and ± 1 raw unit)

func (sc *scen) extendEq(withGenesis bool) bool {
	g := sc.g
	k := g.between(2, 5) // matched bids at the first end time (`last`)
	if k+1 > len(sc.bidders) {
		k = len(sc.bidders) - 1
	}
	if k < 2 {
		return false
	}
	curr := k - 1
	if g.chance(0.3) {
		curr = g.between(1, k-1)
	}
	// 1 − curr/last exactly as the keeper computes it (LegacyDec quotient, 18 decimals)
	exact := math.LegacyOneDec().Sub(math.LegacyNewDec(int64(curr)).Quo(math.LegacyNewDec(int64(k)))).BigInt()
	rate := add(exact, bi(g.pickI64(-1, 0, 0, 0, 1)))
	maxExt := g.pickI64(2, 2, 2, 2, 2, 3, 3, 3, 3, 1) // with 1 the second end time is final and no decision is taken
	s := sc.unit(0, 9)                                // quantity of each old bid
	slack := []*big.Int{bi(0), bi(1), sub(s, bi(1))}[g.intn(3)]
	S := add(mul(bi(int64(k)), s), slack)
	p0 := bs(g.pickStr("1000000000000000000", "500000000000000000", "2000000000000000000", "333333333333333333"))
	minBid := maxB(quo(p0, bi(2)), bi(1))
	samePrice := curr == 1 && g.chance(0.5) // one price level: all or nothing
	step := []*big.Int{bi(1), p10(15), quo(p0, bi(10))}[g.intn(3)]
	prices := make([]*big.Int, k) // descending, prices[k-1] = p0
	for i := 0; i < k; i++ {
		prices[i] = add(p0, mul(step, bi(int64(k-1-i))))
		if samePrice {
			prices[i] = p0
		}
	}
	useModify := !samePrice && g.chance(0.4)

	end1 := g.now + g.pickI64(60, 3600, 86400)
	id, ok := sc.createBatch(p0, minBid, S, maxExt, rate, g.now, end1, sc.smallSched(end1))
	if !ok {
		return false
	}
	old := sc.bidders[:k]
	sniper := sc.bidders[k]
	var es []capEntry
	for _, u := range old {
		c := s // cap exactly equal to the demand
		if useModify || g.chance(0.4) {
			c = S
		}
		es = append(es, capEntry{u, c})
	}
	es = append(es, capEntry{sniper, S})
	if !sc.kadd(id, es...) {
		return false
	}
	for i, u := range old {
		if !sc.place(u, id, "M", prices[i], sc.sd, s) {
			return false
		}
		sc.noise()
	}
	if !sc.block(end1) {
		return false
	}
	a := sc.auc(id)
	if a == nil || a.status != 2 || len(a.ends) != 2 || a.matchedLen != int64(k) {
		return false // did not extend as planned (e.g. an injected fault)
	}
	sc.noise()
	if withGenesis && !g.cfg.app {
		sc.do("genesis")
	}
	// the sniping step: exactly curr bids (the big one and the curr−1 best old ones) still fit
	qMax := sub(S, mul(bi(int64(curr-1)), s))
	qMin := add(sub(S, mul(bi(int64(curr)), s)), bi(1))
	if samePrice {
		qMax, qMin = S, add(slack, bi(1))
	}
	Q := []*big.Int{qMax, qMax, maxB(qMin, bi(1))}[g.intn(3)]
	if useModify {
		// raise the best old bid instead of placing a new one
		top := g.prev.bids[id][0]
		newPrice := top.price
		if g.chance(0.5) {
			newPrice = add(top.price, step)
		}
		if !sc.modify(old[0], id, top.id, newPrice, sc.sd, Q) {
			return false
		}
	} else {
		P := add(prices[0], []*big.Int{bi(1), step, p0}[g.intn(3)])
		if !sc.place(sniper, id, "M", P, sc.sd, Q) {
			return false
		}
	}
	sc.noise()
	a = sc.auc(id)
	if !sc.block(a.lastEnd()) {
		return false
	}
	// possibly one more round
	if a = sc.auc(id); a != nil && a.status == 2 && g.chance(0.6) {
		sc.block(a.lastEnd())
	}
	return true
}

// ---------------------------------------------------------------------------------------------
// 3. fixed price auction sold out exactly, caps reached exactly, dust and fractional bids

func (sc *scen) fixedExact() bool {
	g := sc.g
	if len(sc.bidders) < 3 {
		return false
	}
	p := bs(g.pickStr("300000000000000000", "500000000000000000", "333333333333333333", "2000000000000000000",
		"1500000000000000000", "1000000000000000000", "3000000000000000000"))
	S := mul(bi(int64(g.between(20, 200))), []*big.Int{bi(1), bi(1), p10(3), p10(9)}[g.intn(4)])
	end := g.now + 3600
	id, ok := sc.createFixed(p, S, g.now, end, sc.smallSched(end))
	if !ok {
		return false
	}
	b1, b2, b3 := sc.bidders[0], sc.bidders[1], sc.bidders[2]
	cap1 := maxB(quo(S, bi(3)), bi(2))
	if !sc.kadd(id, capEntry{b1, cap1}, capEntry{b2, S}) {
		return false
	}
	// dust: a paying amount below the price buys nothing (quantity 0) when the price is above 1
	sc.place(b1, id, "F", p, sc.pd, bi(1))
	sc.place(g.between(10, 11), id, "F", p, sc.pd, bi(1)) // outsider, not allow-listed
	if g.chance(0.5) {
		sc.place(b3, id, "F", p, sc.pd, bi(int64(g.between(1, 2)))) // not allow-listed either
	}
	sc.noise()
	// selling-denom bids whose amount × price is fractional
	for _, n := range []int64{1, 5, 7} {
		if g.chance(0.7) {
			sc.place(b2, id, "F", p, sc.sd, bi(n))
		}
	}
	// exactly up to the cap, then one more
	a := sc.auc(id)
	if left := sub(cap1, bidTotal(a, g.prev.bids[id], b1)); left.Sign() > 0 && left.Cmp(a.remaining) <= 0 {
		sc.place(b1, id, "F", p, sc.sd, left)
		sc.place(b1, id, "F", p, sc.sd, bi(1)) // over the cap: rejected
	}
	sc.noise()
	// exactly the remainder, then one more
	a = sc.auc(id)
	if R := a.remaining; R.Sign() > 0 {
		amt, denom := R, sc.sd
		if pay := mulPriceCeil(R, p); g.chance(0.5) && floorDivPrice(pay, p).Cmp(R) == 0 {
			amt, denom = pay, sc.pd
		}
		if g.chance(0.3) {
			sc.place(b2, id, "F", p, sc.sd, add(R, bi(1))) // one too many: rejected
		}
		sc.place(b2, id, "F", p, denom, amt)
	}
	sc.place(b2, id, "F", p, sc.sd, bi(1)) // sold out: rejected
	sc.place(b1, id, "F", p, sc.pd, bi(1))
	sc.noise()
	return sc.block(end)
}

// ---------------------------------------------------------------------------------------------
// 4. vesting dust: proceeds 0, 1, 2, n−1 split over 3–6 instalments; blocks around the releases

func (sc *scen) vestingDust() bool {
	g := sc.g
	n := g.between(3, 6)
	var weights []*big.Int
	switch {
	case n == 3 && g.chance(0.4):
		weights = []*big.Int{bs("300000000000000000"), bs("300000000000000000"), bs("400000000000000000")}
	case g.chance(0.5):
		// 1/n each (rounded down), the last one takes the rest, e.g. …333, …333, …334
		part := quo(one18, bi(int64(n)))
		rem := new(big.Int).Set(one18)
		for i := 0; i < n; i++ {
			w := part
			if i == n-1 {
				w = rem
			}
			rem = sub(rem, w)
			weights = append(weights, w)
		}
	default:
		for _, e := range g.schedule(n, 0) {
			weights = append(weights, e.weight)
		}
	}
	p := bs(g.pickStr("1000000000000000000", "1000000000000000000", "2000000000000000000", "500000000000000000"))
	end := g.now + g.pickI64(60, 3600)
	gap := g.pickI64(1, 60, 3600)
	var sched []schedEntry
	var releases []int64
	for i, w := range weights {
		t := end + int64(i+1)*gap
		sched = append(sched, schedEntry{t, w})
		releases = append(releases, t)
	}
	// sometimes first offer the same schedule with two instalments due at the SAME instant: it
	// must be refused (release times strictly increasing); should it be accepted, the scenario
	// carries on with that auction, so that the settlement shows what becomes of the instalments
	var id uint64
	ok := false
	if n >= 3 && g.chance(0.3) {
		dup := append([]schedEntry{}, sched...)
		k := g.between(1, n-1)
		dup[k].release = dup[k-1].release
		if id, ok = sc.createFixed(p, bi(1000), g.now, end, dup); ok {
			for i := k; i < n; i++ {
				releases[i] = dup[i].release
			}
		}
	}
	if !ok {
		id, ok = sc.createFixed(p, bi(1000), g.now, end, sched)
	}
	if !ok || len(sc.bidders) < 1 {
		return false
	}
	b := sc.bidders[0]
	if !sc.kadd(id, capEntry{b, bi(1000)}) {
		return false
	}
	target := g.pickInt([]int{0, 1, 2, n - 1, n - 1})
	for paid := 0; paid < target; {
		amt := 1
		if target-paid > 1 && g.chance(0.5) {
			amt = target - paid
		}
		sc.place(b, id, "F", p, sc.pd, bi(int64(amt)))
		paid += amt
	}
	sc.noise()
	if !sc.block(end) {
		return false
	}
	for i := 0; i < n; {
		switch g.intn(3) {
		case 0: // exactly at the release time
			sc.block(releases[i])
			i++
		case 1: // one second before, then exactly
			sc.block(releases[i] - 1)
			sc.block(releases[i])
			i++
		default: // one block that jumps over several releases
			j := i + g.between(1, 3)
			if j > n-1 {
				j = n - 1
			}
			sc.block(releases[j] + g.pickI64(0, 1))
			i = j + 1
		}
		sc.noise()
	}
	return true
}

// ---------------------------------------------------------------------------------------------
// 5. modify edge cases: the ceil'd reservation stays the same / grows by exactly 1

func (sc *scen) modifyEdges() bool {
	g := sc.g
	if len(sc.bidders) < 2 {
		return false
	}
	third, half, one := bs("333333333333333333"), bs("500000000000000000"), bs("1000000000000000000")
	S := bi(100000)
	end := g.now + 3600
	id, ok := sc.createBatch(one, bs("100000000000000000"), S, int64(g.between(0, 1)), g.rate(), g.now, end, sc.smallSched(end))
	if !ok {
		return false
	}
	b1, b2 := sc.bidders[0], sc.bidders[1]
	if !sc.kadd(id, capEntry{b1, S}, capEntry{b2, S}) {
		return false
	}
	if !g.cfg.app && (g.cfg.focus == "hooks" || g.chance(0.5)) {
		sc.do(fmt.Sprintf("listeners %d", g.between(1, 3)))
	}
	type stepT struct {
		price *big.Int
		amt   int64
		diff0 bool
	}
	chains := []struct {
		u     int
		typ   string
		denom int
		first stepT
		mods  []stepT
	}{
		{b1, "M", sc.sd, stepT{half, 21, false}, []stepT{{half, 42, false}, {half, 43, false}}},
		{b1, "M", sc.sd, stepT{third, 10, false}, []stepT{{third, 11, true}, {third, 12, true}, {third, 13, false}}},
		{b1, "M", sc.sd, stepT{third, 100, false}, []stepT{{half, 150, false}}},
		{b1, "M", sc.sd, stepT{bs("300000000000000000"), 1, false}, []stepT{{half, 1, true}, {one, 1, true}, {one, 2, false}}},
		{b2, "W", sc.pd, stepT{half, 50, false}, []stepT{{bs("600000000000000000"), 50, true}, {one, 50, true}, {one, 51, false}}},
		{b2, "M", sc.sd, stepT{third, 3, false}, []stepT{{third, 3, false} /* equal: rejected */, {third, 4, false}, {third, 6, true}}},
		// a higher price with a LOWER amount whose reservation does not fall (60 ≥ 50, 50 = 50): rejected,
		// "the amount may not be lowered" is about the amount, not about what is reserved
		{b1, "M", sc.sd, stepT{half, 100, false}, []stepT{{one, 60, false}, {one, 50, false}, {one, 100, false}}},
	}
	g.r.Shuffle(len(chains), func(i, j int) { chains[i], chains[j] = chains[j], chains[i] })
	for _, c := range chains[:g.between(2, 5)] {
		if !sc.place(c.u, id, c.typ, c.first.price, c.denom, bi(c.first.amt)) {
			continue
		}
		bid := sc.lastBidId(id)
		for _, m := range c.mods {
			if m.diff0 && !g.cfg.app && len(g.e.pendHooks) == 0 && g.chance(0.4) {
				sc.do(fmt.Sprintf("failhook BeforeBidModified %d", g.intn(3)))
			}
			sc.modify(c.u, id, bid, m.price, c.denom, bi(m.amt))
		}
		sc.noise()
	}
	return sc.block(end)
}

// ---------------------------------------------------------------------------------------------
// 6. cancel edge cases

func (sc *scen) cancelEdges() bool {
	g := sc.g
	p, S := sc.price(), sc.unit(2, 9)
	stranger := (sc.owner + 1 + g.intn(2)) % 3
	cancel := func(signer int, id uint64) bool { return sc.do(fmt.Sprintf("cancel %d %d", signer, id)) }
	switch g.intn(4) {
	case 0: // twice by the owner
		id, ok := sc.createFixed(p, S, g.now+60, g.now+3660, sc.smallSched(g.now+3660))
		if !ok {
			return false
		}
		cancel(stranger, id)
		cancel(sc.owner, id)
		cancel(sc.owner, id)
	case 1: // after gifts to the selling escrow
		id, ok := sc.createBatch(p, maxB(quo(p, bi(2)), bi(1)), S, 1, g.rate(), g.now+60, g.now+3660, sc.smallSched(g.now+3660))
		if !ok {
			return false
		}
		sc.do(fmt.Sprintf("gift %d S%d %d %s", stranger, id, sc.sd, sc.unit(0, 6)))
		if g.chance(0.5) {
			sc.do(fmt.Sprintf("gift %d S%d %d %s", stranger, id, sc.pd, sc.unit(0, 6)))
		}
		cancel(sc.owner, id)
		cancel(sc.owner, id)
	case 2: // exactly at the block where the auction starts: before or after the block op
		start := g.now + 60
		id, ok := sc.createFixed(p, S, start, start+3600, sc.smallSched(start+3600))
		if !ok {
			return false
		}
		if g.chance(0.5) {
			sc.block(start - 1)
			cancel(sc.owner, id) // still stand-by: accepted
			sc.block(start)
		} else {
			sc.block(start)
			cancel(sc.owner, id) // started: rejected
			cancel(stranger, id)
		}
	default: // started, vesting and finished auctions cannot be cancelled
		end := g.now + 60
		id, ok := sc.createFixed(p, S, g.now, end, []schedEntry{{end + 60, new(big.Int).Set(one18)}})
		if !ok || len(sc.bidders) < 1 {
			return false
		}
		b := sc.bidders[0]
		sc.kadd(id, capEntry{b, S})
		sc.place(b, id, "F", p, sc.sd, maxB(quo(S, bi(2)), bi(1)))
		cancel(sc.owner, id)
		cancel(stranger, id)
		sc.block(end)
		cancel(sc.owner, id)
		sc.block(end + 60)
		cancel(sc.owner, id)
	}
	return true
}

// ---------------------------------------------------------------------------------------------
// 7. concurrent auctions sharing bidder and denoms; the bidder bids in the higher id first

func (sc *scen) concurrent() bool {
	g := sc.g
	if len(sc.bidders) < 2 {
		return false
	}
	n := g.between(2, 3)
	mode := g.intn(3) // 0 all fixed, 1 all batch, 2 mixed
	p := sc.price()
	b, other := sc.bidders[0], sc.bidders[1]
	type au struct {
		id    uint64
		batch bool
		cap   *big.Int
	}
	var as []au
	end := g.now + 3600
	for i := 0; i < n; i++ {
		batch := mode == 1 || (mode == 2 && i%2 == g.intn(2))
		S := sc.unit(2, 9)
		c := maxB(quo(S, bi(int64(g.between(1, 3)))), bi(1))
		var id uint64
		var ok bool
		if batch {
			id, ok = sc.createBatch(p, maxB(quo(p, bi(2)), bi(1)), S, int64(g.between(0, 1)), g.rate(), g.now, end+int64(i), sc.smallSched(end+int64(i)))
		} else {
			id, ok = sc.createFixed(p, S, g.now, end+int64(i), sc.smallSched(end+int64(i)))
		}
		if !ok {
			return false
		}
		if !sc.kadd(id, capEntry{b, c}, capEntry{other, c}) {
			return false
		}
		as = append(as, au{id, batch, c})
		sc.noise()
	}
	bid := func(a au, amt *big.Int) {
		if a.batch {
			sc.place(b, a.id, "M", p, sc.sd, amt)
		} else {
			sc.place(b, a.id, "F", p, sc.sd, amt)
		}
	}
	for i := n - 1; i >= 0; i-- { // higher id first: each amount fits its own allowance, not the sum
		bid(as[i], as[i].cap)
	}
	sc.noise()
	for i := 0; i < n; i++ { // one more each: fixed → over the cap, batch → accepted (per-bid check)
		bid(as[i], bi(1))
	}
	sc.place(other, as[0].id, map[bool]string{true: "M", false: "F"}[as[0].batch], p, sc.sd, bi(1))
	return sc.block(end + int64(n))
}

// ---------------------------------------------------------------------------------------------
// 9. batch books where the cap decides whether the lower price level fits

func (sc *scen) cappedBook() bool {
	g := sc.g
	if len(sc.bidders) < 2 {
		return false
	}
	A, B := sc.bidders[0], sc.bidders[1]
	u := sc.unit(0, 6)
	p2 := bs(g.pickStr("1000000000000000000", "500000000000000000", "333333333333333333"))
	p1 := add(p2, []*big.Int{bi(1), quo(p2, bi(2)), p2}[g.intn(3)])
	minBid := maxB(quo(p2, bi(2)), bi(1))
	q1, q2, qB := mul(u, bi(int64(g.between(2, 5)))), mul(u, bi(int64(g.between(2, 5)))), mul(u, bi(int64(g.between(1, 4))))
	var c, S *big.Int
	variant := g.intn(4)
	switch variant {
	case 0: // supply between the capped and the uncapped total
		c = maxB(q1, q2)
		lo, hi := add(c, qB), sub(add(add(q1, q2), qB), bi(1))
		S = []*big.Int{lo, hi, quo(add(lo, hi), bi(2))}[g.intn(3)]
	case 1: // cap exactly equal to the demand
		c = add(q1, q2)
		S = add(add(c, qB), bi(g.pickI64(-1, 0, 1)))
	case 2: // supply exactly equal to the total capped demand, ± 1
		c = add(maxB(q1, q2), bi(g.pickI64(0, 1)))
		S = add(add(c, qB), bi(g.pickI64(-1, 0, 1)))
	default: // several bids of one bidder at the same price with the cap binding
		q2 = q1
		p2 = p1
		c = add(q1, quo(q1, bi(2)))
		S = add(add(c, qB), bi(g.pickI64(-1, 0, 1)))
	}
	if S.Cmp(c) < 0 {
		S = c
	}
	end := g.now + 3600
	id, ok := sc.createBatch(p1, minBid, S, int64(g.between(0, 1)), g.rate(), g.now, end, sc.smallSched(end))
	if !ok {
		return false
	}
	capB := qB
	if g.chance(0.3) {
		capB = S
	}
	if capB.Cmp(S) > 0 {
		capB = S
	}
	if !sc.kadd(id, capEntry{A, c}, capEntry{B, capB}) {
		return false
	}
	sc.place(A, id, "M", p1, sc.sd, q1)
	sc.place(B, id, "M", p1, sc.sd, minB(qB, capB))
	sc.noise()
	if variant != 3 && g.chance(0.4) {
		// worth bid: quantity at its own price = q2 (it grows when the matched price is lower)
		sc.place(A, id, "W", p2, sc.pd, mulPriceCeil(q2, p2))
	} else {
		sc.place(A, id, "M", p2, sc.sd, q2)
	}
	if g.chance(0.3) {
		sc.place(B, id, "M", minBid, sc.sd, bi(1)) // a dust level below
	}
	if g.chance(0.35) {
		// somebody sends selling coins to the selling reserve: what is SOLD stays what was offered
		// (a lower price level must not start to "fit" because the escrow holds more)
		sc.do(fmt.Sprintf("gift %d S%d %d %s", sc.owner, id, sc.sd, add(q1, q2)))
	}
	sc.noise()
	if !sc.block(end) {
		return false
	}
	if a := sc.auc(id); a != nil && a.status == 2 {
		sc.block(a.lastEnd())
	}
	return true
}

// ---------------------------------------------------------------------------------------------
// 10. one block in which one auction opens, one settles with two winners and one releases

func (sc *scen) multiStatus() bool {
	g := sc.g
	if len(sc.bidders) < 3 {
		return false
	}
	b1, b2, b3 := sc.bidders[0], sc.bidders[1], sc.bidders[2]
	one := bs("1000000000000000000")
	T := g.now + g.pickI64(3600, 7200, 86400)
	// Z: settles soon, its (first) release is due at T
	endZ := g.now + 60
	schedZ := []schedEntry{{T, new(big.Int).Set(one18)}}
	if g.chance(0.5) {
		schedZ = []schedEntry{{T, bs("500000000000000000")}, {T + 60, bs("500000000000000000")}}
	}
	z, ok := sc.createFixed(one, bi(1000), g.now, endZ, schedZ)
	if !ok || !sc.kadd(z, capEntry{b1, bi(1000)}) {
		return false
	}
	sc.place(b1, z, "F", one, sc.pd, bi(int64(g.between(1, 100))))
	if !sc.block(endZ) {
		return false
	}
	// Y: started, ends at T, two winners.  X: opens at T.
	p := sc.price()
	S := sc.unit(3, 9)
	q := maxB(quo(S, bi(4)), bi(1))
	mkY := func() bool {
		var y uint64
		var ok bool
		batch := g.chance(0.6)
		if batch {
			y, ok = sc.createBatch(p, maxB(quo(p, bi(2)), bi(1)), S, 0, g.rate(), g.now, T, sc.smallSched(T))
		} else {
			y, ok = sc.createFixed(p, S, g.now, T, sc.smallSched(T))
		}
		if !ok || !sc.kadd(y, capEntry{b2, S}, capEntry{b3, S}, capEntry{b1, S}) {
			return false
		}
		typ := map[bool]string{true: "M", false: "F"}[batch]
		sc.place(b2, y, typ, p, sc.sd, q)
		sc.place(b3, y, typ, p, sc.sd, q)
		if g.chance(0.5) {
			sc.place(b1, y, typ, p, sc.sd, bi(1))
		}
		return true
	}
	mkX := func() bool {
		if g.chance(0.5) {
			_, ok := sc.createFixed(p, S, T, T+3600, sc.smallSched(T+3600))
			return ok
		}
		_, ok := sc.createBatch(p, maxB(quo(p, bi(2)), bi(1)), S, 1, g.rate(), T, T+3600, sc.smallSched(T+3600))
		return ok
	}
	if g.chance(0.5) {
		if !mkY() || !mkX() {
			return false
		}
	} else {
		if !mkX() || !mkY() {
			return false
		}
	}
	sc.noise()
	if g.chance(0.3) {
		sc.block(T - 1)
	}
	return sc.block(T)
}

// ---------------------------------------------------------------------------------------------
// 11. kupd lowering a cap below what is already bid; kadd of an existing bidder

func (sc *scen) kupdLower() bool {
	g := sc.g
	if len(sc.bidders) < 2 {
		return false
	}
	b, other := sc.bidders[0], sc.bidders[1]
	p := sc.price()
	S := sc.unit(3, 9)
	q := maxB(quo(S, bi(int64(g.between(2, 5)))), bi(2))
	end := g.now + 3600
	kupd := func(id uint64, c *big.Int) { sc.do(fmt.Sprintf("kupd %d %d %s", id, b, c)) }
	if g.chance(0.5) {
		id, ok := sc.createFixed(p, S, g.now, end, sc.smallSched(end))
		if !ok || !sc.kadd(id, capEntry{b, S}, capEntry{other, S}) {
			return false
		}
		sc.place(b, id, "F", p, sc.sd, q)
		kupd(id, sub(q, bi(1))) // below what is already bid
		sc.place(b, id, "F", p, sc.sd, bi(1))
		kupd(id, q) // exactly what is already bid
		sc.place(b, id, "F", p, sc.sd, bi(1))
		kupd(id, add(q, bi(1)))
		sc.place(b, id, "F", p, sc.sd, bi(1)) // fits again
		sc.place(b, id, "F", p, sc.sd, bi(1)) // over
		sc.kadd(id, capEntry{b, S})           // kadd of an existing bidder overwrites the cap
		sc.place(b, id, "F", p, sc.sd, bi(1))
	} else {
		id, ok := sc.createBatch(p, maxB(quo(p, bi(2)), bi(1)), S, int64(g.between(0, 1)), g.rate(), g.now, end, sc.smallSched(end))
		if !ok || !sc.kadd(id, capEntry{b, S}, capEntry{other, S}) {
			return false
		}
		sc.place(b, id, "M", p, sc.sd, q)
		sc.place(other, id, "M", p, sc.sd, q)
		low := maxB(quo(q, bi(2)), bi(1))
		kupd(id, low)                                   // below what is already bid
		sc.place(b, id, "M", add(p, bi(1)), sc.sd, low) // each bid only has to respect the cap by itself
		sc.place(b, id, "M", p, sc.sd, add(low, bi(1))) // above the new cap: rejected
		if g.chance(0.5) {
			sc.kadd(id, capEntry{b, q}) // overwritten again
		}
	}
	sc.noise()
	return sc.block(end)
}

// ---------------------------------------------------------------------------------------------
// 12. one bidder, several paying-denominated fixed-price bids whose amounts are not multiples of
// the price: every bid is converted (and counted against cap and remainder) on its own, so the
// truncation remainders must not add up to extra coins at settlement; cap reached exactly

func (sc *scen) fixedRemainders() bool {
	g := sc.g
	if len(sc.bidders) < 2 {
		return false
	}
	p := bs(g.pickStr("3000000000000000000", "7000000000000000000", "1500000000000000000", "2000000000000000000",
		"700000000000000000", "333333333333333333", "2500000000000000000"))
	n := g.between(2, 4)
	// per-bid quantity q_i and a remainder r_i < price (in paying units) that buys nothing
	var amts []*big.Int
	total := bi(0)
	for i := 0; i < n; i++ {
		q := bi(int64(g.between(1, 5)))
		pay := mulPriceCeil(q, p) // smallest paying amount that buys q
		// add a remainder that still converts to q
		for k := 0; k < 6; k++ {
			cand := add(pay, bi(int64(g.between(1, 6))))
			if floorDivPrice(cand, p).Cmp(q) == 0 {
				pay = cand
				break
			}
		}
		amts = append(amts, pay)
		total = add(total, floorDivPrice(pay, p))
	}
	S := add(total, bi(int64(g.between(0, 3))))
	end := g.now + 3600
	id, ok := sc.createFixed(p, S, g.now, end, sc.smallSched(end))
	if !ok {
		return false
	}
	b1, b2 := sc.bidders[0], sc.bidders[1]
	// the cap is exactly what the bids convert to one by one
	if !sc.kadd(id, capEntry{b1, total}, capEntry{b2, S}) {
		return false
	}
	if g.chance(0.5) && floorDivPrice(bi(1), p).Sign() == 0 {
		// a dust bid first: it pays one unit and buys nothing (price > 1); it must neither count
		// against the cap nor hide the bids that follow it from the cap check
		sc.place(b1, id, "F", p, sc.pd, bi(1))
	}
	for i, a := range amts {
		sc.place(b1, id, "F", p, sc.pd, a)
		if i == 0 {
			sc.noise()
		}
	}
	sc.place(b1, id, "F", p, sc.pd, mulPriceCeil(bi(1), p)) // one more coin: over the cap
	if g.chance(0.5) {
		sc.place(b2, id, "F", p, sc.pd, add(mulPriceCeil(bi(1), p), bi(1)))
	}
	sc.noise()
	return sc.block(end)
}

// ---------------------------------------------------------------------------------------------
// 13. a stand-by auction whose whole sale window is jumped over by one block (chain halt, or a
// window shorter than the block interval): it must still open at that block, so a later cancel
// is refused, and it settles at the following block

func (sc *scen) windowJump() bool {
	g := sc.g
	p, S := sc.price(), sc.unit(2, 9)
	start := g.now + int64(g.between(30, 120))
	end := start + int64(g.between(1, 30))
	var id uint64
	var ok bool
	if g.chance(0.5) {
		id, ok = sc.createFixed(p, S, start, end, sc.smallSched(end))
	} else {
		id, ok = sc.createBatch(p, maxB(quo(p, bi(2)), bi(1)), S, int64(g.between(0, 2)), g.rate(), start, end, sc.smallSched(end))
	}
	if !ok {
		return false
	}
	if g.chance(0.5) {
		sc.block(start - 1)
	}
	sc.noise()
	sc.block(end + int64(g.between(0, 50)))          // first block at or after the start is already past the end
	sc.do(fmt.Sprintf("cancel %d %d", sc.owner, id)) // opened: refused
	sc.block(g.now + 1)
	sc.do(fmt.Sprintf("cancel %d %d", sc.owner, id))
	return true
}

// ---------------------------------------------------------------------------------------------
// 14. a worth bid whose amount / price lies a hair (< 10^-18 relative) below a whole number of
// coins: truncation gives n − 1 coins, any rounding gives n (and then the bidder would be
// charged more than was reserved); also the mirror case a hair above

func (sc *scen) worthHair() bool {
	g := sc.g
	if len(sc.bidders) < 2 {
		return false
	}
	A, B := sc.bidders[0], sc.bidders[1]
	q := mul(bi(int64(g.between(1, 9))), p10(g.between(0, 7))) // whole price units
	n := bi(int64(g.between(1, 12)))
	base := mul(q, one18)
	var p *big.Int
	switch g.intn(3) {
	case 0:
		p = add(base, bi(1)) // W/p a hair below n
	case 1:
		p = sub(base, bi(1)) // a hair above n
	default:
		p = add(base, bi(int64(g.between(1, 3))))
	}
	W := mul(n, q)
	S := add(n, bi(int64(g.between(0, 5))))
	end := g.now + 3600
	minBid := maxB(quo(p, bi(2)), bi(1))
	id, ok := sc.createBatch(p, minBid, S, 0, g.rate(), g.now, end, sc.smallSched(end))
	if !ok {
		return false
	}
	if !sc.kadd(id, capEntry{A, S}, capEntry{B, S}) {
		return false
	}
	sc.place(A, id, "W", p, sc.pd, W)
	sc.noise()
	if g.chance(0.6) {
		// a second, ordinary bid at the same price so that the level holds two bids
		sc.place(B, id, "M", p, sc.sd, bi(int64(g.between(1, 3))))
	}
	if g.chance(0.4) {
		sc.place(B, id, "W", p, sc.pd, add(W, bi(int64(g.between(0, 2)))))
	}
	sc.noise()
	return sc.block(end)
}

// ---------------------------------------------------------------------------------------------
// 15. fixed price: a paying-denominated bid whose amount is short of k × price by less than half
// a raw unit of the quotient (huge price and amount k·price − 1, or price q + 10^-18 and amount
// k·q): truncation gives k − 1 coins, rounding gives k for less than k × price

func (sc *scen) fixedHair() bool {
	g := sc.g
	if len(sc.bidders) < 2 {
		return false
	}
	A, B := sc.bidders[0], sc.bidders[1]
	k := bi(int64(g.between(1, 9)))
	var p, amt *big.Int
	if g.chance(0.5) {
		// price m·10^e (value) with e ≥ 18: 1/price < 0.5·10^-18
		p = mul(mul(bi(int64(g.between(2, 9))), p10(g.between(18, 20))), one18)
		amt = sub(quo(mul(k, p), one18), bi(1))
	} else {
		q := bi(int64(g.between(2, 9)))
		p = add(mul(q, one18), bi(int64(g.between(1, 2))))
		amt = mul(k, q)
	}
	S := add(k, bi(int64(g.between(1, 5))))
	end := g.now + 3600
	id, ok := sc.createFixed(p, S, g.now, end, sc.smallSched(end))
	if !ok {
		return false
	}
	if !sc.kadd(id, capEntry{A, S}, capEntry{B, S}) {
		return false
	}
	sc.place(A, id, "F", p, sc.pd, amt)
	sc.noise()
	if g.chance(0.5) {
		sc.place(B, id, "F", p, sc.sd, bi(1))
	}
	if g.chance(0.5) {
		sc.place(A, id, "F", p, sc.pd, add(amt, bi(1)))
	}
	sc.noise()
	return sc.block(end)
}
