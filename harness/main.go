// Command harness executes op files (see /verif/PROTOCOL.md) against the real x/fundraising
// module code in-process and prints one observation block per op.
package main

import (
	"bufio"
	"fmt"
	"io"
	"os"
	"strings"
)

func usage() {
	fmt.Fprintln(os.Stderr, "usage: harness run <opsfile|->")
	fmt.Fprintln(os.Stderr, "       harness apprun <opsfile|->     (same ops, driven through the real app's ABCI path)")
	fmt.Fprintln(os.Stderr, "       harness appgen -seed <int> -histories <N> -maxops <L> -ops <opsfile> -obs <obsfile>")
	fmt.Fprintln(os.Stderr, "       harness gen -seed <int> -histories <N> -maxops <L> -ops <opsfile> -obs <obsfile> [-profile quick|thorough] [-focus hooks|faults]")
	os.Exit(2)
}

func main() {
	if len(os.Args) < 2 {
		usage()
	}
	switch os.Args[1] {
	case "run":
		if len(os.Args) != 3 {
			usage()
		}
		if err := runFile(os.Args[2], os.Stdout); err != nil {
			fmt.Fprintln(os.Stderr, "harness:", err)
			os.Exit(1)
		}
	case "apprun":
		if len(os.Args) != 3 {
			usage()
		}
		if err := runFileWith(os.Args[2], os.Stdout, NewAppEnv); err != nil {
			fmt.Fprintln(os.Stderr, "harness:", err)
			os.Exit(1)
		}
	case "appgen":
		if err := genMain(os.Args[2:], true); err != nil {
			fmt.Fprintln(os.Stderr, "harness:", err)
			os.Exit(1)
		}
	case "pureeval":
		if len(os.Args) != 3 {
			usage()
		}
		if err := pureEval(os.Args[2]); err != nil {
			fmt.Fprintln(os.Stderr, "harness:", err)
			os.Exit(1)
		}
	case "pure":
		if err := pureMain(os.Args[2:]); err != nil {
			fmt.Fprintln(os.Stderr, "harness:", err)
			os.Exit(1)
		}
	case "gen":
		if err := genMain(os.Args[2:], false); err != nil {
			fmt.Fprintln(os.Stderr, "harness:", err)
			os.Exit(1)
		}
	default:
		usage()
	}
}

// runFile executes every op of the file (blank lines and lines starting with '#' are skipped
// without producing a block) and writes the observation blocks to w, flushing after each.
func runFile(path string, w io.Writer) error { return runFileWith(path, w, NewEnv) }

func runFileWith(path string, w io.Writer, newEnv func() (*Env, error)) error {
	var in io.Reader = os.Stdin
	if path != "-" {
		f, err := os.Open(path)
		if err != nil {
			return err
		}
		defer f.Close()
		in = f
	}
	e, err := newEnv()
	if err != nil {
		return err
	}
	out := bufio.NewWriter(w)
	defer out.Flush()
	sc := bufio.NewScanner(in)
	sc.Buffer(make([]byte, 1<<20), 1<<26)
	for sc.Scan() {
		line := strings.TrimRight(sc.Text(), "\r\n")
		if s := strings.TrimSpace(line); s == "" || strings.HasPrefix(s, "#") {
			continue
		}
		if _, err := out.WriteString(e.Exec(line)); err != nil {
			return err
		}
		if err := out.Flush(); err != nil {
			return err
		}
	}
	return sc.Err()
}
