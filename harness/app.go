package main

// `harness apprun` / `harness appgen`: the APP-LEVEL stream.  Instead of calling an own keeper
// instance, ops drive the real application through its ABCI path (FinalizeBlock + Commit with
// signed txs), so that the app wiring is exercised: BeginBlocker registration and order, msg
// service routing, ValidateBasic and tx atomicity inside baseapp, and the app's own
// FundraisingKeeper with its real hooks / bank / distribution keepers.

import (
	"context"
	"fmt"
	"os"
	"sort"
	"time"

	abci "github.com/cometbft/cometbft/abci/types"
	cmtproto "github.com/cometbft/cometbft/proto/tendermint/types"
	"github.com/cosmos/cosmos-sdk/client"
	"github.com/cosmos/cosmos-sdk/crypto/keys/secp256k1"
	cryptotypes "github.com/cosmos/cosmos-sdk/crypto/types"
	sdk "github.com/cosmos/cosmos-sdk/types"
	"github.com/cosmos/cosmos-sdk/types/tx/signing"
	authsign "github.com/cosmos/cosmos-sdk/x/auth/signing"
	authtx "github.com/cosmos/cosmos-sdk/x/auth/tx"
	authtypes "github.com/cosmos/cosmos-sdk/x/auth/types"
	distrtypes "github.com/cosmos/cosmos-sdk/x/distribution/types"
	govtypes "github.com/cosmos/cosmos-sdk/x/gov/types"
	"github.com/cosmos/gogoproto/proto"

	"github.com/tendermint/fundraising/testutil/testutil/simapp"
	"github.com/tendermint/fundraising/x/fundraising/types"
)

const (
	appTxGas       = uint64(1_000_000_000)
	unsupportedApp = "unsupported in apprun"
)

// NewAppEnv returns an Env in app mode that has already been reset once.
func NewAppEnv() (*Env, error) {
	e := &Env{appMode: true}
	e.initAppUsers()
	if err := e.Reset(); err != nil {
		return nil, err
	}
	return e, nil
}

// initAppUsers derives the 12 user keys deterministically (secp256k1 from sha256("user<i>")),
// uses the keys' addresses as user addresses and numbers them by bech32 string order.
func (e *Env) initAppUsers() {
	type kv struct {
		s    string
		addr sdk.AccAddress
		priv cryptotypes.PrivKey
	}
	var all []kv
	for i := 0; i < NumUsers; i++ {
		priv := secp256k1.GenPrivKeyFromSecret([]byte(fmt.Sprintf("user%d", i)))
		addr := sdk.AccAddress(priv.PubKey().Address())
		all = append(all, kv{addr.String(), addr, priv})
	}
	sort.Slice(all, func(i, j int) bool { return all[i].s < all[j].s })
	e.users, e.userStrs, e.privs = nil, nil, nil
	e.userIdx = map[string]int{}
	for i, x := range all {
		e.users = append(e.users, x.addr)
		e.userStrs = append(e.userStrs, x.s)
		e.privs = append(e.privs, x.priv)
		e.userIdx[x.s] = i
	}
}

// appReset builds a fresh app (InitChain done by simapp.New), commits the genesis block and
// points the Env at the app's OWN keepers.
func (e *Env) appReset() error {
	a, err := simapp.New(ChainID)
	if err != nil {
		return fmt.Errorf("simapp.New: %w", err)
	}
	// The genesis state lives in the finalize-block state until the first block is executed:
	// run block 1 (empty, at the genesis time) and commit it.
	if _, err := a.FinalizeBlock(&abci.RequestFinalizeBlock{Height: 1, Time: time.Unix(GenesisTime, 0).UTC()}); err != nil {
		return fmt.Errorf("first block: %w", err)
	}
	if _, err := a.Commit(); err != nil {
		return fmt.Errorf("initial commit: %w", err)
	}
	e.app = a
	e.storeKey = a.GetKey(types.StoreKey)
	e.blockTime = time.Unix(GenesisTime, 0).UTC()
	e.appBroken = ""

	e.rec = newRecorder(e)
	e.nListeners = 0
	e.pendFault = -1
	e.pendHooks = map[string]bool{}

	e.authority = authtypes.NewModuleAddress(govtypes.ModuleName).String()
	e.poolAddr = authtypes.NewModuleAddress(distrtypes.ModuleName)
	e.addrNames = map[string]string{}
	for i, s := range e.userStrs {
		e.addrNames[s] = fmt.Sprintf("u%d", i)
	}
	e.addrNames[e.poolAddr.String()] = "pool"
	e.escUpTo = 0
	e.ensureEscrows(64)

	e.k = a.FundraisingKeeper
	e.msgs = nil // messages go through txs
	e.query = routerQueryServer{e}
	e.txConfig = authtx.NewTxConfig(a.AppCodec(), authtx.DefaultSignModes)
	e.ctx = e.appCtx()
	e.poolBase = nil
	return nil
}

// appCtx returns an UNCACHED context on the committed root multistore at the current block
// time.  It is used between blocks: for state dumps and queries (read only) and, through
// ctx.CacheContext() + write, for fund / gift / kadd / kupd / params.  Writes land in the root
// store directly, so the next FinalizeBlock (which branches the root store) sees them.
func (e *Env) appCtx() sdk.Context {
	hdr := cmtproto.Header{ChainID: e.app.ChainID(), Height: e.app.LastBlockHeight(), Time: e.blockTime}
	return e.app.BaseApp.NewUncachedContext(false, hdr).WithEventManager(sdk.NewEventManager())
}

// appBlock runs one block (FinalizeBlock + Commit) with the given txs at time t.
func (e *Env) appBlock(t time.Time, txs [][]byte) (resp *abci.ResponseFinalizeBlock, err error, panicked bool) {
	defer func() {
		if r := recover(); r != nil {
			panicked = true
			err = fmt.Errorf("panic: %v", r)
			e.rec.comment("panic: %v", r)
			e.appBroken = "a block panicked; the uncommitted block state may be partially applied"
		}
	}()
	req := &abci.RequestFinalizeBlock{Height: e.app.LastBlockHeight() + 1, Time: t, Txs: txs}
	resp, err = e.app.FinalizeBlock(req)
	if err != nil {
		// baseapp keeps the half-executed block state; there is no public way to discard it
		e.appBroken = "FinalizeBlock failed; the uncommitted block state may be partially applied"
		return nil, err, false
	}
	if _, err = e.app.Commit(); err != nil {
		return nil, err, false
	}
	return resp, nil, false
}

// appDeliver wraps msg in a tx signed by `signer` (sign mode direct, zero fee, large gas limit)
// and delivers it in its own block at the CURRENT block time.
func (e *Env) appDeliver(msg sdk.Msg, signer string) string {
	idx, ok := e.userIdx[signer]
	if !ok {
		// the gov authority (900) and "invalid" (901) have no key: such a message cannot be
		// put into a tx.  Do what baseapp would do with it: ValidateBasic, then the handler that
		// the app's MsgServiceRouter has registered, atomically, between blocks.
		e.rec.comment("signer %q has no key: routed through app.MsgServiceRouter() instead of a tx", signer)
		return e.appRoute(msg)
	}
	var accNum, seq uint64
	if acc := e.app.AccountKeeper.GetAccount(e.appCtx(), e.users[idx]); acc != nil {
		accNum, seq = acc.GetAccountNumber(), acc.GetSequence()
	} else {
		e.rec.comment("signer u%d has no account yet (never funded)", idx)
	}
	e.forgedProbe(msg, idx)
	txBytes, err := e.signTx(msg, e.privs[idx], accNum, seq)
	if err != nil {
		e.rec.comment("cannot build tx: %v", err)
		return "res err"
	}
	resp, err, _ := e.appBlock(e.blockTime, [][]byte{txBytes})
	if err != nil {
		e.rec.comment("FinalizeBlock error: %v", err)
		return "res err"
	}
	if len(resp.TxResults) != 1 {
		e.rec.comment("unexpected number of tx results: %d", len(resp.TxResults))
		return "res err"
	}
	if r := resp.TxResults[0]; r.Code != 0 {
		e.rec.comment("tx code %d (%s): %s", r.Code, r.Codespace, r.Log)
		return "res err"
	}
	return "res ok"
}

// forgedProbe: "an authorised signer" (C18), "only by the account that placed it" (C11), "only the
// auctioneer" (C12) at the level of the transaction: the SAME message in a tx that is signed only
// by ANOTHER account (one that exists, with its own account number and sequence) must not pass
// the application's CheckTx — the account the handler authorises (the message's signer field) must
// be the account whose signature the SDK demands (the cosmos.msg.v1.signer option compiled into the
// message descriptor).  Nothing is delivered; the outcome is printed as an `X` line.
func (e *Env) forgedProbe(msg sdk.Msg, signerIdx int) {
	for d := 1; d < len(e.users); d++ {
		j := (signerIdx + d) % len(e.users)
		if os.Getenv("HARNESS_FORGE_SELF") == "1" {
			j = signerIdx // self-test of the machinery: the "forged" tx is signed by the right key and must be reported as accepted
		}
		acc := e.app.AccountKeeper.GetAccount(e.appCtx(), e.users[j])
		if acc == nil {
			continue
		}
		txBytes, err := e.signTx(msg, e.privs[j], acc.GetAccountNumber(), acc.GetSequence())
		if err != nil {
			e.rec.comment("forged probe: cannot build tx: %v", err)
			return
		}
		func() {
			defer func() {
				if r := recover(); r != nil {
					e.rec.extra = append(e.rec.extra, fmt.Sprintf("X forged-panic u%d", j))
				}
			}()
			resp, err := e.app.CheckTx(&abci.RequestCheckTx{Tx: txBytes, Type: abci.CheckTxType_New})
			switch {
			case err != nil:
				e.rec.extra = append(e.rec.extra, fmt.Sprintf("X forged-rejected u%d", j))
			case resp.Code == 0:
				e.rec.extra = append(e.rec.extra, fmt.Sprintf("X forged-accepted u%d", j))
			default:
				e.rec.extra = append(e.rec.extra, fmt.Sprintf("X forged-rejected u%d", j))
				e.rec.comment("forged probe rejected: code %d (%s)", resp.Code, resp.Codespace)
			}
		}()
		return
	}
}

// appRoute executes a message that cannot be signed through the app's msg service router.
func (e *Env) appRoute(msg sdk.Msg) string {
	if v, ok := msg.(sdk.HasValidateBasic); ok {
		if err := v.ValidateBasic(); err != nil {
			e.rec.comment("ValidateBasic: %v", err)
			return "res err"
		}
	}
	handler := e.app.MsgServiceRouter().Handler(msg)
	if handler == nil {
		e.rec.comment("no handler registered for %s", sdk.MsgTypeURL(msg))
		return "res err"
	}
	err, panicked := e.runCached(func(ctx sdk.Context) error {
		_, err := handler(ctx, msg)
		return err
	})
	if err != nil {
		if !panicked {
			e.rec.comment("error: %v", err)
		}
		return "res err"
	}
	return "res ok"
}

func (e *Env) signTx(msg sdk.Msg, priv cryptotypes.PrivKey, accNum, seq uint64) ([]byte, error) {
	txCfg := e.txConfig
	signMode, err := authsign.APISignModeToInternal(txCfg.SignModeHandler().DefaultMode())
	if err != nil {
		return nil, err
	}
	b := txCfg.NewTxBuilder()
	if err := b.SetMsgs(msg); err != nil {
		return nil, err
	}
	sig := signing.SignatureV2{PubKey: priv.PubKey(), Data: &signing.SingleSignatureData{SignMode: signMode}, Sequence: seq}
	if err := b.SetSignatures(sig); err != nil {
		return nil, err
	}
	b.SetFeeAmount(sdk.Coins{})
	b.SetGasLimit(appTxGas)
	signerData := authsign.SignerData{
		Address:       sdk.AccAddress(priv.PubKey().Address()).String(),
		ChainID:       e.app.ChainID(),
		AccountNumber: accNum,
		Sequence:      seq,
		PubKey:        priv.PubKey(),
	}
	signBytes, err := authsign.GetSignBytesAdapter(context.Background(), txCfg.SignModeHandler(), signMode, signerData, b.GetTx())
	if err != nil {
		return nil, err
	}
	sigBz, err := priv.Sign(signBytes)
	if err != nil {
		return nil, err
	}
	sig.Data.(*signing.SingleSignatureData).Signature = sigBz
	if err := b.SetSignatures(sig); err != nil {
		return nil, err
	}
	return txCfg.TxEncoder()(b.GetTx())
}

var _ client.TxConfig // (type of Env.txConfig)

// ---------------------------------------------------------------------------------------------
// queries through the app's GRPCQueryRouter

type routerQueryServer struct{ e *Env }

var _ types.QueryServer = routerQueryServer{}

const queryService = "/fundraising.fundraising.v1.Query/"

func (q routerQueryServer) route(ctx context.Context, method string, req, resp proto.Message) error {
	handler := q.e.app.GRPCQueryRouter().Route(queryService + method)
	if handler == nil {
		return fmt.Errorf("no query handler registered for %s%s", queryService, method)
	}
	bz, err := proto.Marshal(req)
	if err != nil {
		return err
	}
	res, err := handler(sdk.UnwrapSDKContext(ctx), &abci.RequestQuery{Data: bz, Path: queryService + method})
	if err != nil {
		return err
	}
	return q.e.app.AppCodec().Unmarshal(res.Value, resp)
}

func (q routerQueryServer) Params(ctx context.Context, req *types.QueryParamsRequest) (*types.QueryParamsResponse, error) {
	resp := &types.QueryParamsResponse{}
	return resp, q.route(ctx, "Params", req, resp)
}

func (q routerQueryServer) ListAuction(ctx context.Context, req *types.QueryAllAuctionRequest) (*types.QueryAllAuctionResponse, error) {
	resp := &types.QueryAllAuctionResponse{}
	if err := q.route(ctx, "ListAuction", req, resp); err != nil {
		return nil, err
	}
	for _, any := range resp.Auction {
		var a types.AuctionI
		if err := q.e.app.AppCodec().InterfaceRegistry().UnpackAny(any, &a); err != nil {
			return nil, err
		}
	}
	return resp, nil
}

func (q routerQueryServer) GetAuction(ctx context.Context, req *types.QueryGetAuctionRequest) (*types.QueryGetAuctionResponse, error) {
	resp := &types.QueryGetAuctionResponse{}
	if err := q.route(ctx, "GetAuction", req, resp); err != nil {
		return nil, err
	}
	var a types.AuctionI
	if err := q.e.app.AppCodec().InterfaceRegistry().UnpackAny(resp.Auction, &a); err != nil {
		return nil, err
	}
	return resp, nil
}

func (q routerQueryServer) ListAllowedBidder(ctx context.Context, req *types.QueryAllAllowedBidderRequest) (*types.QueryAllAllowedBidderResponse, error) {
	resp := &types.QueryAllAllowedBidderResponse{}
	if err := q.route(ctx, "ListAllowedBidder", req, resp); err != nil {
		return nil, err
	}
	return resp, nil
}

func (q routerQueryServer) GetAllowedBidder(ctx context.Context, req *types.QueryGetAllowedBidderRequest) (*types.QueryGetAllowedBidderResponse, error) {
	resp := &types.QueryGetAllowedBidderResponse{}
	if err := q.route(ctx, "GetAllowedBidder", req, resp); err != nil {
		return nil, err
	}
	return resp, nil
}

func (q routerQueryServer) ListBid(ctx context.Context, req *types.QueryAllBidRequest) (*types.QueryAllBidResponse, error) {
	resp := &types.QueryAllBidResponse{}
	if err := q.route(ctx, "ListBid", req, resp); err != nil {
		return nil, err
	}
	return resp, nil
}

func (q routerQueryServer) GetBid(ctx context.Context, req *types.QueryGetBidRequest) (*types.QueryGetBidResponse, error) {
	resp := &types.QueryGetBidResponse{}
	if err := q.route(ctx, "GetBid", req, resp); err != nil {
		return nil, err
	}
	return resp, nil
}

func (q routerQueryServer) ListVestingQueue(ctx context.Context, req *types.QueryAllVestingQueueRequest) (*types.QueryAllVestingQueueResponse, error) {
	resp := &types.QueryAllVestingQueueResponse{}
	if err := q.route(ctx, "ListVestingQueue", req, resp); err != nil {
		return nil, err
	}
	return resp, nil
}
