#!/usr/bin/env python3
"""Projection-diff of two observation streams (e.g. `harness apprun` vs `fmodel`).

Only the `res` line and the state-dump lines  N A W B Q L S  of every block are compared
(not P, not C, not T / H / R / E lines, not `#` comments).  Blocks are aligned by position; the echoed
op line must be identical in both streams.

usage: appdiff.py [-a|--all] [-m MAX] <streamA> <streamB>
  default: print, per history, only the FIRST differing block (later blocks of a history usually
           differ as a consequence); -a prints every differing block; -m limits printed blocks.
exit status: 0 = no difference, 1 = differences, 2 = streams not aligned / usage.
"""
import difflib
import sys

KEEP = ("res", "N ", "A ", "W ", "B ", "Q ", "L ", "S ")


def blocks(path):
    out, cur, comments = [], [], []
    with open(path) as f:
        for line in f:
            line = line.rstrip("\n")
            if line == ".":
                out.append((cur, comments))
                cur, comments = [], []
            elif line.startswith("#"):
                comments.append(line)
            elif line.startswith("> ") or line.startswith(KEEP):
                cur.append(line)
    return out


def main(argv):
    show_all, limit, files = False, None, []
    it = iter(argv)
    for a in it:
        if a in ("-a", "--all"):
            show_all = True
        elif a in ("-m", "--max"):
            limit = int(next(it))
        else:
            files.append(a)
    if len(files) != 2:
        sys.stderr.write(__doc__)
        return 2
    a, b = blocks(files[0]), blocks(files[1])
    if len(a) != len(b):
        print("streams have different numbers of blocks: %d vs %d" % (len(a), len(b)))
        return 2
    hist, ndiff, printed, bad_hist, res_only, kinds = -1, 0, 0, set(), 0, {}
    for i, ((x, xc), (y, yc)) in enumerate(zip(a, b)):
        if not x or not y or x[0] != y[0]:
            print("block %d: op lines differ: %r vs %r" % (i, x[:1], y[:1]))
            return 2
        if x[0] == "> reset":
            hist += 1
        if x == y:
            continue
        ndiff += 1
        op = x[0][2:].split()[0]
        first = hist not in bad_hist
        bad_hist.add(hist)
        if first:
            kinds[op] = kinds.get(op, 0) + 1
            if x[1] != y[1]:
                res_only += 1
        if (show_all or first) and (limit is None or printed < limit):
            printed += 1
            print("=== history %d, block %d: %s" % (hist, i, x[0][2:]))
            for c in xc:
                print("    A %s" % c[:200])
            for c in yc:
                print("    B %s" % c[:200])
            for d in difflib.unified_diff(x, y, lineterm="", n=0):
                if d.startswith(("---", "+++", "@@")):
                    continue
                print("    " + d[:240])
    print("blocks: %d, histories: %d, differing blocks: %d, histories with a difference: %d"
          % (len(a), hist + 1, ndiff, len(bad_hist)))
    if bad_hist:
        print("first difference per history, by op kind: %s (of these, %d differ already in the res line)"
              % (dict(sorted(kinds.items())), res_only))
    return 1 if ndiff else 0


if __name__ == "__main__":
    sys.exit(main(sys.argv[1:]))
