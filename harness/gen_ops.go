package main

// Op builders of the random history generator (mostly valid, type directed, boundary biased).

import (
	"fmt"
	"math/big"
	"sort"
	"strings"

	"github.com/tendermint/fundraising/x/fundraising/types"
)

// ---------------------------------------------------------------------------------------------
// value pools

var commonPrices = []string{"1000000000000000000", "500000000000000000", "2000000000000000000", "333333333333333333"}
var extremePrices = []string{"1", "1000000000", "1000000000000000000000000000", "1000000000000000000000000000000000000"}

func (g *Gen) listPrice() *big.Int {
	pExtreme := 0.12
	if g.thorough() {
		pExtreme = 0.25
	}
	if g.chance(pExtreme) {
		return bs(extremePrices[g.intn(len(extremePrices))])
	}
	return bs(commonPrices[g.intn(len(commonPrices))])
}

// rate returns an extended-round rate: a value of the fixed set or exactly k/last (±1).
func (g *Gen) rate() *big.Int {
	if g.chance(0.6) {
		return bs(g.pickStr("1", "100000000000000000", "300000000000000000", "500000000000000000",
			"1000000000000000000", "1500000000000000000"))
	}
	last := int64(g.between(1, 4))
	k := int64(g.between(1, int(last)))
	v := quo(mul(bi(k), one18), bi(last))
	v = add(v, bi(g.pickI64(-1, 0, 0, 1)))
	if v.Sign() <= 0 {
		v = bi(1)
	}
	return v
}

type schedEntry struct {
	release int64
	weight  *big.Int
}

// schedule builds n instalments whose weights sum to exactly 10^18: random positive parts, the
// last one fixed up; release times strictly increasing and after `end`.
func (g *Gen) schedule(n int, end int64) []schedEntry {
	var out []schedEntry
	remaining := new(big.Int).Set(one18)
	t := end
	for i := 0; i < n; i++ {
		t += g.pickI64(1, 1, 60, 3600, 86400, 7*86400)
		var wgt *big.Int
		if i == n-1 {
			wgt = remaining
		} else {
			left := int64(n - 1 - i) // parts still to come: keep at least 1 for each
			maxPart := sub(remaining, bi(left))
			switch g.intn(4) {
			case 0:
				wgt = quo(one18, bi(int64(n))) // equal share, e.g. 333333333333333333
			case 1:
				wgt = bi(1)
			case 2:
				wgt = quo(mul(maxPart, bi(int64(g.between(1, 99)))), bi(100))
			default:
				wgt = mul(bi(int64(g.between(1, 9))), p10(g.between(14, 17)))
			}
			if wgt.Sign() <= 0 {
				wgt = bi(1)
			}
			wgt = minB(wgt, maxPart)
			remaining = sub(remaining, wgt)
		}
		out = append(out, schedEntry{t, wgt})
	}
	return out
}

func schedTokens(s []schedEntry) string {
	parts := []string{fmt.Sprint(len(s))}
	for _, x := range s {
		parts = append(parts, fmt.Sprint(x.release), x.weight.String())
	}
	return strings.Join(parts, " ")
}

// ---------------------------------------------------------------------------------------------
// create

type createOp struct {
	batch      bool
	auctioneer int
	startPrice *big.Int
	minBid     *big.Int
	sellDenom  int
	sellAmt    *big.Int
	payDenom   int
	maxExt     int64
	rate       *big.Int
	start, end int64
	sched      []schedEntry
}

func (c createOp) line() string {
	if c.batch {
		return fmt.Sprintf("createB %d %s %s %d %s %d %d %s %d %d %s", c.auctioneer, c.startPrice, c.minBid, c.sellDenom,
			c.sellAmt, c.payDenom, c.maxExt, c.rate, c.start, c.end, schedTokens(c.sched))
	}
	return fmt.Sprintf("createF %d %s %d %s %d %d %d %s", c.auctioneer, c.startPrice, c.sellDenom, c.sellAmt, c.payDenom,
		c.start, c.end, schedTokens(c.sched))
}

func (g *Gen) genCreate(s *snapshot) []string {
	c := createOp{batch: g.chance(0.5)}
	c.auctioneer = g.between(0, 2)
	if g.chance(0.08) {
		c.auctioneer = g.between(3, 11)
	}
	// denoms: distinct, mostly from the history's set
	pool := g.hDenoms
	if g.chance(0.08) {
		pool = []int{0, 1, 2, 3, 4}
	}
	p := g.r.Perm(len(pool))
	c.sellDenom, c.payDenom = pool[p[0]], pool[p[1]]

	bal := g.e.balance(c.auctioneer, c.sellDenom)
	switch g.weighted([]float64{70, 12, 5, 5, 3}) {
	case 0:
		c.sellAmt = g.bigAmount(6, 24)
	case 1:
		c.sellAmt = bi(int64(g.pickInt([]int{1, 2, 3, 5, 9, 10, 100, 1000})))
	case 2:
		c.sellAmt = g.bigAmount(2, 5)
	case 3:
		c.sellAmt = new(big.Int).Set(bal) // everything the auctioneer has
	case 4:
		c.sellAmt = add(bal, bi(1)) // one more than the balance: insufficient funds
	}
	if c.sellAmt.Cmp(bal) > 0 && g.chance(0.9) && bal.Sign() > 0 {
		c.sellAmt = quo(bal, bi(int64(g.between(1, 4))))
	}
	if c.sellAmt.Sign() <= 0 {
		c.sellAmt = bi(1)
	}

	c.startPrice = g.listPrice()
	c.minBid = bi(1)
	if c.batch {
		switch g.intn(6) {
		case 0:
			c.minBid = new(big.Int).Set(c.startPrice)
		case 1:
			c.minBid = quo(c.startPrice, bi(2))
		case 2:
			c.minBid = quo(c.startPrice, bi(10))
		case 3:
			c.minBid = bs("100000000000000000")
		case 4:
			c.minBid = bi(1)
		default:
			c.minBid = g.listPrice()
		}
		if c.minBid.Sign() <= 0 {
			c.minBid = bi(1)
		}
		c.maxExt = int64(g.between(0, 3))
		if g.thorough() && g.chance(0.3) {
			c.maxExt = int64(g.between(4, 30))
		}
		c.rate = g.rate()
	}

	now := g.now
	c.start = now + g.pickI64(-86400, -3600, -1, 0, 0, 1, 1, 60, 60, 3600, 86400)
	base := c.start
	if now > base {
		base = now
	}
	switch g.weighted([]float64{92, 4, 4}) {
	case 0:
		c.end = base + g.pickI64(1, 2, 60, 60, 3600, 3600, 86400, 86400, 7*86400)
	case 1:
		c.end = now // exactly the current block time (accepted if after the start time)
	case 2:
		c.end = now - 1 // already over: rejected by the keeper (or by ValidateBasic)
	}
	n := g.weighted([]float64{25, 25, 20, 15, 8, 7})
	c.sched = g.schedule(n, c.end)

	if g.chance(0.10) {
		g.malformCreate(&c)
		return []string{c.line()}
	}
	return []string{c.line()}
}

// malformCreate applies exactly one ValidateBasic (or keeper-level bound) violation.
func (g *Gen) malformCreate(c *createOp) {
	kinds := []string{"signer", "price0", "priceNeg", "amt0", "amtNeg", "sellDenom99", "payDenom99", "sameDenom", "endEqStart",
		"endBeforeStart", "weightsSum", "zeroWeight", "releaseAtEnd", "releaseOrder", "tooManySchedules"}
	if c.batch {
		kinds = append(kinds, "rate0", "minBid0", "minBidNeg", "maxExt31")
	}
	switch kinds[g.intn(len(kinds))] {
	case "signer":
		c.auctioneer = InvalidAddrIdx
	case "price0":
		c.startPrice = bi(0)
	case "priceNeg":
		c.startPrice = bi(-1)
	case "amt0":
		c.sellAmt = bi(0)
	case "amtNeg":
		c.sellAmt = bi(-5)
	case "sellDenom99":
		c.sellDenom = InvalidDenomIdx
	case "payDenom99":
		c.payDenom = InvalidDenomIdx
	case "sameDenom":
		c.payDenom = c.sellDenom
	case "endEqStart":
		c.end = c.start
	case "endBeforeStart":
		c.end = c.start - 1
	case "weightsSum":
		if len(c.sched) == 0 {
			c.sched = g.schedule(2, c.end)
		}
		last := &c.sched[len(c.sched)-1]
		last.weight = add(last.weight, bi(g.pickI64(-1, 1)))
	case "zeroWeight":
		c.sched = g.schedule(2, c.end)
		c.sched[0].weight = bi(0)
		c.sched[1].weight = new(big.Int).Set(one18)
	case "releaseAtEnd":
		if len(c.sched) == 0 {
			c.sched = g.schedule(1, c.end)
		}
		c.sched[0].release = c.end
	case "releaseOrder":
		c.sched = g.schedule(3, c.end)
		c.sched[2].release = c.sched[1].release - g.pickI64(0, 1)
	case "tooManySchedules":
		c.sched = nil
		part := quo(one18, bi(101))
		rem := new(big.Int).Set(one18)
		for i := 0; i < 101; i++ {
			wgt := part
			if i == 100 {
				wgt = rem
			}
			rem = sub(rem, wgt)
			c.sched = append(c.sched, schedEntry{c.end + int64(i) + 1, wgt})
		}
	case "rate0":
		c.rate = bi(0)
	case "minBid0":
		c.minBid = bi(0)
	case "minBidNeg":
		c.minBid = bi(-1)
	case "maxExt31":
		c.maxExt = 31
	}
}

// ---------------------------------------------------------------------------------------------
// allow-listing

func (g *Gen) liveAuctions(s *snapshot, statuses ...int) []*aucInfo {
	var out []*aucInfo
	for _, a := range s.aucs {
		for _, st := range statuses {
			if a.status == st {
				out = append(out, a)
			}
		}
	}
	return out
}

func (g *Gen) genKadd(s *snapshot) []string {
	cands := g.liveAuctions(s, 1, 2)
	var id uint64
	var sell *big.Int
	switch {
	case len(cands) > 0 && g.chance(0.92):
		a := cands[g.intn(len(cands))]
		id, sell = a.id, a.sellAmt
	case len(s.aucs) > 0 && g.chance(0.7):
		a := s.aucs[g.intn(len(s.aucs))]
		id, sell = a.id, a.sellAmt
	default:
		id, sell = s.next+uint64(g.intn(2)), bi(1000)
	}
	n := g.weighted([]float64{1, 45, 35, 19}) // 0 entries is rejected ("empty")
	var listed, unlisted []int
	for u := 3; u <= 9; u++ {
		if _, ok := s.allowed[id][u]; ok {
			listed = append(listed, u)
		} else {
			unlisted = append(unlisted, u)
		}
	}
	parts := []string{fmt.Sprintf("kadd %d %d", id, n)}
	used := map[int]bool{}
	for i := 0; i < n; i++ {
		pool := unlisted
		if len(pool) == 0 || (len(listed) > 0 && g.chance(0.25)) {
			pool = listed
		}
		u := pool[g.intn(len(pool))]
		if used[u] && g.chance(0.9) {
			u = g.between(3, 9)
		}
		used[u] = true
		var cap_ *big.Int
		switch g.weighted([]float64{22, 15, 10, 25, 8, 5, 4, 2}) {
		case 0:
			cap_ = new(big.Int).Set(sell)
		case 1:
			cap_ = quo(sell, bi(2))
		case 2:
			cap_ = quo(sell, bi(3))
		case 3:
			cap_ = minB(g.bigAmount(3, 24), sell)
		case 4:
			cap_ = bi(int64(g.between(1, 9)))
		case 5:
			cap_ = sub(sell, bi(1))
		case 6:
			cap_ = add(sell, bi(1)) // above the selling amount: rejected
		case 7:
			cap_ = bi(g.pickI64(0, -1)) // invalid maximum bid amount
		}
		if cap_.Sign() <= 0 && g.chance(0.9) {
			cap_ = bi(1)
		}
		rec := id
		if g.chance(0.06) {
			rec = id + uint64(g.between(1, 3))
		}
		parts = append(parts, fmt.Sprintf("%d %d %s", rec, u, cap_))
	}
	return []string{strings.Join(parts, " ")}
}

// bidTotal = what a bidder has already bid in an auction, in selling-coin units.
func bidTotal(a *aucInfo, bids []bidInfo, user int) *big.Int {
	tot := new(big.Int)
	for _, b := range bids {
		if b.bidder != user {
			continue
		}
		tot = add(tot, bidQty(a, b))
	}
	return tot
}

// bidQty converts a bid's coin to selling-coin units.
func bidQty(a *aucInfo, b bidInfo) *big.Int {
	if b.denom == a.payDenom {
		return floorDivPrice(b.amt, b.price)
	}
	return new(big.Int).Set(b.amt)
}

func (g *Gen) genKupd(s *snapshot) []string {
	var cands []*aucInfo
	for _, a := range s.aucs {
		if len(s.allowed[a.id]) > 0 {
			cands = append(cands, a)
		}
	}
	if len(cands) == 0 {
		if len(s.aucs) == 0 {
			return []string{fmt.Sprintf("kupd %d %d %d", s.next, g.between(3, 9), g.between(1, 1000))}
		}
		cands = s.aucs
	}
	a := cands[g.intn(len(cands))]
	users := s.allowedUsers(a.id)
	var u int
	if len(users) > 0 && g.chance(0.88) {
		u = users[g.intn(len(users))]
	} else {
		u = g.between(3, 11) // probably not listed: rejected
	}
	tot := bidTotal(a, s.bids[a.id], u)
	var cap_ *big.Int
	switch g.weighted([]float64{15, 15, 15, 20, 15, 12, 5, 3}) {
	case 0:
		cap_ = sub(tot, bi(1)) // below what is already bid
	case 1:
		cap_ = new(big.Int).Set(tot) // exactly what is already bid
	case 2:
		cap_ = add(tot, bi(1))
	case 3:
		cap_ = new(big.Int).Set(a.sellAmt)
	case 4:
		cap_ = quo(a.sellAmt, bi(int64(g.between(2, 5))))
	case 5:
		cap_ = g.bigAmount(3, 24)
	case 6:
		cap_ = add(a.sellAmt, bi(1))
	case 7:
		cap_ = bi(g.pickI64(0, -1))
	}
	if cap_.Sign() <= 0 && g.chance(0.8) {
		cap_ = bi(1)
	}
	return []string{fmt.Sprintf("kupd %d %d %s", a.id, u, cap_)}
}

func (g *Gen) genAddmsg(s *snapshot) []string {
	id := s.next
	if len(s.aucs) > 0 && g.chance(0.9) {
		id = s.aucs[g.intn(len(s.aucs))].id
	}
	bidder := g.between(3, 9)
	if g.chance(0.15) {
		bidder = InvalidAddrIdx
	}
	return []string{fmt.Sprintf("addmsg %d %d %d %s", id, id, bidder, g.bigAmount(0, 6))}
}

// ---------------------------------------------------------------------------------------------
// bids

// bidPrice chooses a price for a batch bid.
func (g *Gen) bidPrice(a *aucInfo, bids []bidInfo) *big.Int {
	var p *big.Int
	switch g.weighted([]float64{w3(len(bids) > 0, 40), 15, 15, 30}) {
	case 0:
		p = new(big.Int).Set(bids[g.intn(len(bids))].price) // an existing price level
	case 1:
		p = add(a.startPrice, bi(g.pickI64(-1, 0, 1)))
	case 2:
		p = add(a.minBid, bi(g.pickI64(0, 0, 1)))
	default:
		p = g.listPrice()
	}
	if p.Cmp(a.minBid) < 0 {
		p = new(big.Int).Set(a.minBid)
	}
	if p.Sign() <= 0 {
		p = bi(1)
	}
	return p
}

// bidQuantity chooses a quantity in selling-coin units.  validMax is the largest quantity that
// passes the cap / remaining checks (may be ≤ 0).
func (g *Gen) bidQuantity(a *aucInfo, cap_, capLeft, validMax *big.Int) *big.Int {
	var q *big.Int
	switch g.weighted([]float64{6, 8, w3(!a.batch, 10), w3(!a.batch, 6), 10, 8, w3(!a.batch, 10), 42}) {
	case 0:
		q = bi(1)
	case 1:
		q = bi(int64(g.between(2, 9)))
	case 2:
		q = new(big.Int).Set(a.remaining)
	case 3:
		q = add(a.remaining, bi(g.pickI64(-1, 1)))
	case 4:
		q = new(big.Int).Set(cap_)
	case 5:
		q = add(cap_, bi(g.pickI64(-1, 1)))
	case 6:
		q = new(big.Int).Set(capLeft)
	default:
		q = g.bigAmount(6, 24)
	}
	if q.Cmp(validMax) > 0 && validMax.Sign() > 0 && g.chance(0.92) {
		q = new(big.Int).Set(validMax)
		if g.chance(0.5) {
			q = quo(q, bi(int64(g.between(1, 6))))
		}
	}
	if q.Sign() <= 0 {
		q = bi(1)
	}
	return q
}

func bidTypeTok(t types.BidType) string { return bidTypeStr(t) }

// biddableAuction: started, somebody is allow-listed, a batch book has room (≤ 12 bids) and a
// fixed price auction is not sold out.
func biddableAuction(s *snapshot, a *aucInfo) bool {
	if a.status != 2 || len(s.allowed[a.id]) == 0 {
		return false
	}
	if a.batch {
		return len(s.bids[a.id]) < 12
	}
	return a.remaining.Sign() > 0
}

func (g *Gen) genPlace(s *snapshot) []string {
	var biddable []*aucInfo
	for _, a := range s.aucs {
		if biddableAuction(s, a) {
			biddable = append(biddable, a)
		}
	}
	if len(s.aucs) == 0 {
		return nil
	}
	wrong := ""
	if g.chance(0.10) || len(biddable) == 0 {
		wrong = g.pickStr("type", "denom", "price", "belowMin", "notAllowed", "notStarted", "overCap", "overRemaining", "funds")
	}
	var a *aucInfo
	if len(biddable) > 0 {
		a = biddable[g.intn(len(biddable))]
	}
	if wrong == "notStarted" || a == nil {
		// any auction that is not started (or an id that does not exist)
		var others []*aucInfo
		for _, x := range s.aucs {
			if x.status != 2 && (!x.batch || len(s.bids[x.id]) < 12) {
				others = append(others, x)
			}
		}
		if len(others) == 0 || g.chance(0.15) {
			return []string{fmt.Sprintf("place %d %d %s %s %d %s", g.between(3, 9), s.next+uint64(g.intn(3)), g.pickStr("F", "W", "M"),
				g.listPrice(), g.pickInt(g.hDenoms), g.bigAmount(0, 12))}
		}
		a = others[g.intn(len(others))]
		wrong = "notStarted"
	}
	bids := s.bids[a.id]
	users := s.allowedUsers(a.id)
	bidder := g.between(3, 9)
	if len(users) > 0 {
		bidder = users[g.intn(len(users))]
		if !a.batch && wrong == "" {
			// prefer a bidder whose cap is not used up yet
			var free []int
			for _, u := range users {
				if sub(s.allowed[a.id][u], bidTotal(a, bids, u)).Sign() > 0 {
					free = append(free, u)
				}
			}
			if len(free) > 0 {
				bidder = free[g.intn(len(free))]
			}
		}
	}
	if wrong == "funds" && g.poor >= 0 {
		if _, ok := s.allowed[a.id][g.poor]; ok {
			bidder = g.poor
		}
	}
	if wrong == "notAllowed" {
		bidder = g.between(10, 11)
		if g.chance(0.5) {
			for u := 3; u <= 9; u++ {
				if _, ok := s.allowed[a.id][u]; !ok {
					bidder = u
				}
			}
		}
	}
	cap_ := new(big.Int)
	if c, ok := s.allowed[a.id][bidder]; ok {
		cap_ = c
	}

	typ := types.BidTypeFixedPrice
	price := new(big.Int).Set(a.startPrice)
	var validMax, capLeft *big.Int
	if a.batch {
		typ = types.BidTypeBatchWorth
		if g.chance(0.5) {
			typ = types.BidTypeBatchMany
		}
		price = g.bidPrice(a, bids)
		validMax, capLeft = cap_, cap_
	} else {
		capLeft = sub(cap_, bidTotal(a, bids, bidder))
		validMax = minB(capLeft, a.remaining)
	}
	q := g.bidQuantity(a, cap_, capLeft, validMax)

	switch wrong {
	case "type":
		if a.batch {
			typ = types.BidTypeFixedPrice
		} else {
			typ = types.BidType(g.between(2, 3))
		}
	case "price":
		if !a.batch {
			price = add(price, bi(g.pickI64(-1, 1)))
		}
	case "belowMin":
		if a.batch {
			price = sub(a.minBid, bi(1))
		}
	case "overCap":
		q = add(capLeft, bi(1))
	case "overRemaining":
		if !a.batch {
			q = add(a.remaining, bi(1))
		}
	case "funds":
		q = mul(q, p10(g.between(12, 20)))
	}
	if price.Sign() <= 0 {
		price = bi(1)
	}

	// coin: paying denom (worth / fixed) or selling denom (many / fixed)
	denom := a.sellDenom
	usePaying := typ == types.BidTypeBatchWorth || (typ == types.BidTypeFixedPrice && g.chance(0.5))
	if wrong == "type" {
		usePaying = g.chance(0.5)
	}
	if usePaying {
		denom = a.payDenom
	}
	if wrong == "denom" {
		switch {
		case typ == types.BidTypeBatchWorth:
			denom = a.sellDenom
		case typ == types.BidTypeBatchMany:
			denom = a.payDenom
		default:
			denom = g.oddDenom
		}
		if g.chance(0.4) {
			denom = g.oddDenom
		}
		usePaying = denom == a.payDenom
	}
	if denom < 0 {
		denom = g.oddDenom
	}

	// keep the bid affordable unless it is meant to fail
	if wrong == "" && a.payDenom >= 0 {
		fee := new(big.Int)
		for _, c := range s.params.PlaceBidFee {
			if denomIdx(c.Denom) == a.payDenom {
				fee = c.Amount.BigInt()
			}
		}
		have := sub(g.e.balance(bidder, a.payDenom), fee)
		need := mulPriceCeil(q, price)
		if need.Cmp(have) > 0 && have.Sign() > 0 {
			q = floorDivPrice(quo(have, bi(int64(g.between(2, 4)))), price)
			if q.Sign() <= 0 {
				q = bi(1)
			}
		}
	}

	amt := q
	if usePaying {
		amt = mulPriceCeil(q, price)
		if g.chance(0.3) {
			amt = quo(mul(q, price), one18) // rounded down instead of up
		}
		if wrong == "" && validMax.Sign() > 0 && floorDivPrice(amt, price).Cmp(validMax) > 0 {
			// rounding pushed the converted quantity over the limit: stay just inside
			amt = quo(mul(validMax, price), one18)
		}
		if amt.Sign() <= 0 {
			amt = bi(1)
		}
	}
	op := placeOp{bidder: bidder, auction: a.id, typ: bidTypeTok(typ), price: price, denom: denom, amt: amt}
	if wrong == "" && g.chance(0.10) {
		g.malformPlace(&op, true)
	}
	return []string{op.line("place")}
}

type placeOp struct {
	bidder  int
	auction uint64
	typ     string // bid type token, or the bid id for modify
	price   *big.Int
	denom   int
	amt     *big.Int
}

func (p placeOp) line(kind string) string {
	return fmt.Sprintf("%s %d %d %s %s %d %s", kind, p.bidder, p.auction, p.typ, p.price, p.denom, p.amt)
}

func (g *Gen) malformPlace(p *placeOp, isPlace bool) {
	kinds := []string{"signer", "price0", "priceNeg", "amt0", "amtNeg", "denom99"}
	if isPlace {
		kinds = append(kinds, "typeX", "typeN")
	}
	switch kinds[g.intn(len(kinds))] {
	case "signer":
		p.bidder = InvalidAddrIdx
	case "price0":
		p.price = bi(0)
	case "priceNeg":
		p.price = bi(-1)
	case "amt0":
		p.amt = bi(0)
	case "amtNeg":
		p.amt = bi(-7)
	case "denom99":
		p.denom = InvalidDenomIdx
	case "typeX":
		p.typ = "X"
	case "typeN":
		p.typ = "N"
	}
}

func (g *Gen) genModify(s *snapshot) []string {
	type cand struct {
		a *aucInfo
		b bidInfo
	}
	var batch, fixed []cand
	for _, a := range s.aucs {
		for _, b := range s.bids[a.id] {
			if a.batch && a.status == 2 {
				batch = append(batch, cand{a, b})
			} else {
				fixed = append(fixed, cand{a, b})
			}
		}
	}
	if len(batch) == 0 && len(fixed) == 0 {
		if len(s.aucs) == 0 {
			return nil
		}
		a := s.aucs[g.intn(len(s.aucs))]
		return []string{fmt.Sprintf("modify %d %d %d %s %d %s", g.between(3, 9), a.id, g.between(1, 3), g.listPrice(), max(a.payDenom, 0), g.bigAmount(0, 9))}
	}
	kind := g.weighted([]float64{25, 25, 15, 7, 7, 7, 5, 5, w3(len(fixed) > 0, 4)})
	var c cand
	if kind == 8 || len(batch) == 0 {
		if len(fixed) == 0 {
			return nil
		}
		c = fixed[g.intn(len(fixed))]
	} else {
		c = batch[g.intn(len(batch))]
	}
	a, b := c.a, c.b
	bidder := b.bidder
	if bidder < 0 {
		bidder = g.between(3, 9)
	}
	price, amt, denom, bidId := new(big.Int).Set(b.price), new(big.Int).Set(b.amt), b.denom, b.id
	if denom < 0 {
		denom = g.oddDenom
	}
	raisePrice := func() {
		switch g.intn(4) {
		case 0:
			price = add(price, bi(1))
		case 1:
			price = mul(price, bi(2))
		case 2:
			// the level of another, higher bid
			for _, o := range s.bids[a.id] {
				if o.price.Cmp(price) > 0 {
					price = new(big.Int).Set(o.price)
					break
				}
			}
			if price.Cmp(b.price) == 0 {
				price = add(price, bi(1))
			}
		default:
			price = quo(mul(price, bi(int64(g.between(101, 150)))), bi(100))
			if price.Cmp(b.price) <= 0 {
				price = add(b.price, bi(1))
			}
		}
	}
	raiseAmt := func() {
		switch g.intn(3) {
		case 0:
			amt = add(amt, bi(1))
		case 1:
			amt = mul(amt, bi(2))
		default:
			amt = add(amt, g.bigAmount(0, 12))
		}
	}
	switch kind {
	case 0:
		raisePrice()
	case 1:
		raiseAmt()
	case 2:
		raisePrice()
		raiseAmt()
	case 3: // equal: rejected
	case 4: // lower: rejected
		if g.chance(0.5) && price.Cmp(bi(1)) > 0 {
			price = sub(price, bi(1))
		} else if amt.Cmp(bi(1)) > 0 {
			amt = sub(amt, bi(1))
		} else {
			price = sub(price, bi(1))
		}
	case 5: // wrong owner
		raisePrice()
		bidder = 3 + (bidder-3+g.between(1, 6))%7
	case 6: // wrong denom
		raiseAmt()
		if denom == a.payDenom {
			denom = a.sellDenom
		} else {
			denom = a.payDenom
		}
		if g.chance(0.3) || denom < 0 {
			denom = g.oddDenom
		}
	case 7: // unknown bid id
		raisePrice()
		bidId = uint64(len(s.bids[a.id]) + g.between(1, 5))
	case 8: // on a fixed price / not started auction: rejected
		raiseAmt()
	}
	op := placeOp{bidder: bidder, auction: a.id, typ: fmt.Sprint(bidId), price: price, denom: denom, amt: amt}
	if g.chance(0.10) {
		g.malformPlace(&op, false)
	}
	return []string{op.line("modify")}
}

// ---------------------------------------------------------------------------------------------
// cancel, gift, params

func (g *Gen) genCancel(s *snapshot) []string {
	if len(s.aucs) == 0 {
		return []string{fmt.Sprintf("cancel %d %d", g.between(0, 2), s.next)}
	}
	cands := g.liveAuctions(s, 1)
	if len(cands) == 0 || g.chance(0.25) {
		cands = s.aucs
	}
	a := cands[g.intn(len(cands))]
	signer := a.auctioneer
	if signer < 0 || g.chance(0.25) {
		signer = g.between(0, 11) // a stranger (or by chance the owner)
	}
	if g.chance(0.05) {
		signer = InvalidAddrIdx
	}
	return []string{fmt.Sprintf("cancel %d %d", signer, a.id)}
}

func (g *Gen) genGift(s *snapshot) []string {
	from := g.between(0, 11)
	// denom: selling / paying denom of some auction, or unrelated
	denom := g.pickInt(g.hDenoms)
	var a *aucInfo
	if len(s.aucs) > 0 {
		a = s.aucs[g.intn(len(s.aucs))]
		switch g.intn(3) {
		case 0:
			denom = a.sellDenom
		case 1:
			denom = a.payDenom
		default:
			denom = g.oddDenom
		}
	}
	if denom < 0 || g.chance(0.1) {
		denom = g.pickInt([]int{0, 1, 2, 3, 4, 5})
	}
	bal := g.e.balance(from, denom)
	if bal.Sign() == 0 && g.chance(0.9) {
		// look for somebody who holds the denom
		for u := 0; u < NumUsers; u++ {
			if b := g.e.balance(u, denom); b.Sign() > 0 {
				from, bal = u, b
				break
			}
		}
	}
	var amt *big.Int
	if g.chance(0.5) {
		amt = bi(int64(g.between(1, 9)))
	} else {
		amt = g.bigAmount(6, 20)
	}
	if amt.Cmp(bal) > 0 && g.chance(0.9) && bal.Sign() > 0 {
		amt = quo(bal, bi(int64(g.between(1, 3))))
	}
	if g.chance(0.03) {
		amt = add(bal, bi(1)) // insufficient funds
	}
	if amt.Sign() <= 0 {
		amt = bi(1)
	}
	var to string
	if g.chance(0.6) {
		id := s.next + uint64(g.intn(3)) // not yet existing
		if a != nil && g.chance(0.75) {
			id = a.id
		}
		to = fmt.Sprintf("%s%d", g.pickStr("S", "P", "V"), id)
	} else {
		to = fmt.Sprintf("u%d", g.between(0, 11))
	}
	return []string{fmt.Sprintf("gift %d %s %d %s", from, to, denom, amt)}
}

func (g *Gen) feeList(emptyW, oneW, twoW float64, lo, hi int) []string {
	switch g.weighted([]float64{emptyW, oneW, twoW}) {
	case 0:
		return nil
	case 1:
		d := 5
		if g.chance(0.3) {
			d = g.pickInt(g.hDenoms)
		}
		return []string{fmt.Sprintf("%d %s", d, g.bigAmount(lo, hi))}
	}
	d := g.pickInt(g.hDenoms)
	return []string{fmt.Sprintf("%d %s", d, g.bigAmount(lo, hi)), fmt.Sprintf("5 %s", g.bigAmount(lo, hi))}
}

func (g *Gen) genParams(s *snapshot) []string {
	signer := AuthorityIdx
	if g.chance(0.12) {
		signer = g.between(0, 11)
	}
	fee := g.feeList(25, 50, 25, 0, 8)
	bidFee := g.feeList(30, 50, 20, 0, 4)
	if g.chance(0.12) {
		// invalid coins: duplicate denom, zero / negative amount, wrong order
		switch g.intn(4) {
		case 0:
			fee = []string{"5 10", "5 20"}
		case 1:
			bidFee = []string{fmt.Sprintf("%d 0", g.pickInt(g.hDenoms))}
		case 2:
			fee = []string{"5 -1"}
		default:
			bidFee = []string{"5 7", fmt.Sprintf("%d 3", g.pickInt(g.hDenoms))}
		}
	}
	parts := []string{fmt.Sprintf("params %d %d", signer, len(fee))}
	parts = append(parts, fee...)
	parts = append(parts, fmt.Sprint(len(bidFee)))
	parts = append(parts, bidFee...)
	parts = append(parts, fmt.Sprint(g.pickInt([]int{0, 1, 1, 2, 7})))
	return []string{strings.Join(parts, " ")}
}

// ---------------------------------------------------------------------------------------------
// queries

func (g *Gen) genQuery(s *snapshot) []string {
	id := s.next + uint64(g.intn(2)) // matches nothing
	if len(s.aucs) > 0 && g.chance(0.8) {
		id = s.aucs[g.intn(len(s.aucs))].id
	}
	if len(s.aucs) > 0 && g.chance(0.5) {
		var rich []uint64
		for _, a := range s.aucs {
			if len(s.bids[a.id]) > 0 {
				rich = append(rich, a.id)
			}
		}
		if len(rich) > 0 {
			id = rich[g.intn(len(rich))]
		}
	}
	someBidder := func() string {
		users := s.allowedUsers(id)
		switch {
		case len(users) > 0 && g.chance(0.75):
			return fmt.Sprint(users[g.intn(len(users))])
		case g.chance(0.5):
			return fmt.Sprint(g.between(10, 11)) // outsider: matches nothing
		}
		return fmt.Sprint(g.between(3, 9))
	}
	switch g.intn(7) {
	case 0:
		bidder := "-"
		if g.chance(0.5) {
			bidder = someBidder()
		}
		return []string{fmt.Sprintf("qbids %d %s %s", id, bidder, g.pickStr("-", "-", "0", "1"))}
	case 1:
		return []string{fmt.Sprintf("qallowed %d", id)}
	case 2:
		return []string{fmt.Sprintf("qvestings %d", id)}
	case 3:
		status := g.pickStr("-", "-", "1", "2", "3", "4", "5")
		if g.chance(0.03) {
			status = "9" // invalid status: rejected
		}
		return []string{fmt.Sprintf("qauctions %s %s", status, g.pickStr("-", "-", "F", "B"))}
	case 4:
		return []string{fmt.Sprintf("qauction %d", id)}
	case 5:
		if g.chance(0.8) {
			for _, a := range s.aucs { // an auction that has bids, if any
				if len(s.bids[a.id]) > 0 && (len(s.bids[id]) == 0 || g.chance(0.3)) {
					id = a.id
				}
			}
		}
		bid := uint64(g.between(1, 3))
		if n := len(s.bids[id]); n > 0 && g.chance(0.8) {
			bid = s.bids[id][g.intn(n)].id
		} else if g.chance(0.3) {
			bid = 99
		}
		return []string{fmt.Sprintf("qbid %d %d", id, bid)}
	}
	if g.chance(0.8) {
		for _, a := range s.aucs { // an auction that has allow-listed bidders, if any
			if len(s.allowed[a.id]) > 0 && (len(s.allowed[id]) == 0 || g.chance(0.3)) {
				id = a.id
			}
		}
	}
	b := someBidder()
	if g.chance(0.05) {
		b = fmt.Sprint(InvalidAddrIdx)
	}
	return []string{fmt.Sprintf("qallowedone %d %s", id, b)}
}

var _ = sort.Ints
