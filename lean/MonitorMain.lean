import Fundraising.Monitor.Driver

def main : IO Unit := Fundraising.Monitor.monitorMain
