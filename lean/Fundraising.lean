import Fundraising.Model.Dec
import Fundraising.Model.Types
import Fundraising.Model.Exec
import Fundraising.Model.Match
import Fundraising.Model.Keeper
import Fundraising.Model.Block
import Fundraising.Model.Genesis
import Fundraising.Model.Step
