import Fundraising.Model.Step
/-
  Line-protocol driver (see /verif/PROTOCOL.md):
    lake env lean --run Main.lean < ops      or the compiled `fmodel` executable
  reads ops from stdin, prints one observation block per op.
-/
open Fundraising

/-! ### parsing -/

abbrev P := StateT (List String) Option

def tok : P String := do
  match (← get) with
  | [] => failure
  | t :: ts => set ts; pure t

def pInt : P Int := do
  let t ← tok
  match t.toInt? with
  | some i => pure i
  | none => failure

def pNat : P Nat := do
  let t ← tok
  match t.toNat? with
  | some i => pure i
  | none => failure

def pEnd : P Unit := do
  match (← get) with
  | [] => pure ()
  | _ => failure

def pMany {α : Type} (n : Nat) (p : P α) : P (List α) :=
  match n with
  | 0 => pure []
  | n + 1 => do
    let x ← p
    let xs ← pMany n p
    pure (x :: xs)

def pCoins : P (List Coin) := do
  let n ← pNat
  pMany n (do let d ← pNat; let a ← pInt; pure ⟨d, a⟩)

def pSchedules : P (List VS) := do
  let n ← pNat
  pMany n (do let r ← pInt; let w ← pInt; pure ⟨r, w⟩)

def pAddr : P Addr := do
  let t ← tok
  if t == "pool" then pure .pool
  else
    let rest := (t.drop 1).toString
    match rest.toNat? with
    | none => failure
    | some n =>
      match t.front with
      | 'u' => pure (.user n)
      | 'S' => pure (.sell n)
      | 'P' => pure (.pay n)
      | 'V' => pure (.vest n)
      | _ => failure

def pBidType : P (Option BidType) := do
  match (← tok) with
  | "F" => pure (some .fixed)
  | "W" => pure (some .worth)
  | "M" => pure (some .many)
  | "X" => pure none
  | "N" => pure none
  | _ => failure

def pOptNat : P (Option Nat) := do
  let t ← tok
  if t == "-" then pure none
  else match t.toNat? with
    | some n => pure (some n)
    | none => failure

def statusOfCode : Nat → Option Status
  | 1 => some .standby | 2 => some .started | 3 => some .vesting
  | 4 => some .finished | 5 => some .cancelled | _ => none

def pAllowedArg : P AllowedArg := do
  let r ← pNat; let b ← pNat; let cap ← pInt
  pure { recAuction := r, bidder := b, cap := cap }

def pOp : P Op := do
  let k ← tok
  let op ← (match k with
    | "reset" => pure Op.reset
    | "fund" => do let u ← pNat; let d ← pNat; let a ← pInt; pure (.fund u d a)
    | "gift" => do let u ← pNat; let t ← pAddr; let d ← pNat; let a ← pInt; pure (.gift u t d a)
    | "createF" => do
      let au ← pNat; let sp ← pInt; let sd ← pNat; let sa ← pInt; let pd ← pNat
      let st ← pInt; let et ← pInt; let vs ← pSchedules
      pure (.msg (.create { auctioneer := au, type := .fixed, startPrice := sp, sellDenom := sd,
                            sellAmt := sa, payDenom := pd, startTime := st, endTime := et,
                            schedules := vs }))
    | "createB" => do
      let au ← pNat; let sp ← pInt; let mb ← pInt; let sd ← pNat; let sa ← pInt; let pd ← pNat
      let mx ← pNat; let rate ← pInt
      let st ← pInt; let et ← pInt; let vs ← pSchedules
      pure (.msg (.create { auctioneer := au, type := .batch, startPrice := sp, minBid := mb,
                            sellDenom := sd, sellAmt := sa, payDenom := pd, maxExt := mx,
                            rate := rate, startTime := st, endTime := et, schedules := vs }))
    | "cancel" => do let u ← pNat; let a ← pNat; pure (.msg (.cancel u a))
    | "place" => do
      let u ← pNat; let a ← pNat; let t ← pBidType; let p ← pInt; let d ← pNat; let amt ← pInt
      pure (.msg (.place u a t p d amt))
    | "modify" => do
      let u ← pNat; let a ← pNat; let b ← pNat; let p ← pInt; let d ← pNat; let amt ← pInt
      pure (.msg (.modify u a b p d amt))
    | "addmsg" => do
      let a ← pNat; let ab ← pAllowedArg
      pure (.msg (.addAllowed a ab))
    | "params" => do
      let u ← pNat; let fee ← pCoins; let bf ← pCoins; let per ← pNat
      pure (.msg (.updateParams u { creationFee := fee, bidFee := bf, period := per }))
    | "kadd" => do let a ← pNat; let n ← pNat; let abs ← pMany n pAllowedArg; pure (.kadd a abs)
    | "kupd" => do let a ← pNat; let u ← pNat; let cap ← pInt; pure (.kupd a u cap)
    | "block" => do let t ← pInt; pure (.block t)
    | "genesis" => pure .genesis
    | "listeners" => do let n ← pNat; pure (.listeners n)
    | "failhook" => do let h ← tok; let i ← pNat; pure (.failhook h i)
    | "fault" => do let k ← pNat; pure (.fault k)
    | "qbids" => do
      let a ← pNat; let u ← pOptNat; let m ← pOptNat
      pure (.query (.bids a u (m.map (· != 0))))
    | "qallowed" => do let a ← pNat; pure (.query (.allowed a))
    | "qvestings" => do let a ← pNat; pure (.query (.vestings a))
    | "qauctions" => do
      let s ← pOptNat
      let t ← tok
      let st ← (match s with
        | none => pure none
        | some c => match statusOfCode c with
          | some x => pure (some x)
          | none => failure : P (Option Status))
      let ty ← (match t with
        | "-" => pure none | "F" => pure (some AType.fixed) | "B" => pure (some AType.batch)
        | _ => failure : P (Option AType))
      pure (.query (.auctions st ty))
    | "qauction" => do let a ← pNat; pure (.query (.auction a))
    | "qbid" => do let a ← pNat; let b ← pNat; pure (.query (.bid a b))
    | "qallowedone" => do let a ← pNat; let u ← pNat; pure (.query (.allowedOne a u))
    | _ => failure : P Op)
  pEnd
  pure op

def parseOp (line : String) : Option Op :=
  match (pOp.run ((line.splitOn " ").filter (· ≠ ""))) with
  | some (op, _) => some op
  | none => none

/-! ### printing -/

def join (ts : List String) : String := " ".intercalate ts

def lineAuction (a : Auction) : String :=
  join (["A", rNat a.id, (if a.type = .fixed then "F" else "B"), rNat a.status.code, rAcc a.auctioneer,
         rNat a.sellDenom, rInt a.sellAmt, rNat a.payDenom, rInt a.startPrice, rInt a.startTime,
         rNat a.endTimes.length] ++ a.endTimes.map rInt ++ rSchedules a.schedules
        ++ [s!"S{a.id}", s!"P{a.id}", s!"V{a.id}"]
        ++ (if a.type = .fixed then ["F", rInt a.remaining]
            else ["B", rInt a.minBid, rInt a.matchedPrice, rNat a.maxExt, rInt a.rate]))

def lineAllowed (aid : Nat) (x : Allowed) : String :=
  join ["W", rNat aid, rAcc x.bidder, rNat aid, rAcc x.bidder, rInt x.cap]

def lineBid (aid : Nat) (b : Bid) : String :=
  join ["B", rNat aid, rNat b.id, rNat b.auction, rNat b.id, rAcc b.bidder, rBidType b.type,
        rInt b.price, rNat b.denom, rInt b.amt, rBool b.matched]

def lineVQ (aid : Nat) (q : VQ) : String :=
  join ["Q", rNat aid, rInt q.release, rNat q.auction, rInt q.release, rAcc q.auctioneer,
        rNat q.denom, rInt q.amt, rBool q.released]

def NUSERS : Nat := 12
def NDENOMS : Nat := 6

def dumpState (s : Core) : List String :=
  let n := s.views.length
  let addrs : List Addr :=
    (List.range NUSERS).map Addr.user
    ++ (List.range n).flatMap (fun a => [Addr.sell a, Addr.pay a, Addr.vest a]) ++ [Addr.pool]
  [join (["P"] ++ rCoins s.params.creationFee ++ rCoins s.params.bidFee ++ [rNat s.params.period]),
   join ["N", rNat n]]
  ++ s.views.map (fun v => lineAuction v.a)
  ++ s.views.flatMap (fun v => v.allowed.map (lineAllowed v.a.id))
  ++ s.views.flatMap (fun v => v.bids.map (lineBid v.a.id))
  ++ s.views.flatMap (fun v => v.vqs.map (lineVQ v.a.id))
  ++ s.views.filterMap (fun v => if v.matchedLen = 0 then none else some (join ["L", rNat v.a.id, rInt v.matchedLen]))
  ++ s.views.filterMap (fun v => if v.bidSeq = 0 then none else some (join ["S", rNat v.a.id, rNat v.bidSeq]))
  ++ addrs.flatMap (fun a => (List.range NDENOMS).filterMap (fun d =>
      let b := s.bank a d
      if b = 0 then none else some (join ["C", rAddr a, rNat d, rInt b])))
  ++ [join ["I", rBool (sellingInvBroken s), rBool (payingInvBroken s), rBool (vestingInvBroken s),
            rBool (allInvariantsBroken s)]]

def lineEff : Eff → String
  | .hook i name args => join (["H", rNat i, name] ++ args)
  | .xfer t =>
    match t.kind with
    | .send => join (["T", "send", rAddr t.src, rAddr t.dst] ++ rCoins t.coins)
    | .io => join (["T", "io", rAddr t.src, rAddr t.dst] ++ rCoins t.coins)
    | .pool => join (["T", "pool", rAddr t.src] ++ rCoins t.coins)

def lineRes : Res → String
  | .ok => "res ok" | .err => "res err" | .panic => "res panic"
  | .errWith w => s!"res err {w}"

def queryLines (s : Core) : Query → Option (List String)
  | .bids aid u m => some ((queryBids s aid u m).map (fun b => "R " ++ lineBid b.auction b))
  | .allowed _ => some ((queryAllowedAll s).map (fun p => "R " ++ lineAllowed p.1 p.2))
  | .vestings _ => some ((queryVestingsAll s).map (fun q => "R " ++ lineVQ q.auction q))
  | .auctions st ty => some ((queryAuctions s st ty).map (fun a => "R " ++ lineAuction a))
  | .auction aid => (queryAuction s aid).map (fun a => ["R " ++ lineAuction a])
  | .bid aid b => (queryBid s aid b).map (fun x => ["R " ++ lineBid aid x])
  | .allowedOne aid u => (queryAllowedOne s aid u).map (fun x => ["R " ++ lineAllowed aid x])

def blockOf (st : State) (line : String) : List String × State :=
  match parseOp line with
  | none => (["> " ++ line, "res err", "# bad op"] ++ dumpState st.core ++ ["."], st)
  | some (.query q) =>
    match queryLines st.core q with
    | some ls => (["> " ++ line, "res ok"] ++ ls ++ dumpState st.core ++ ["."], st)
    | none => (["> " ++ line, "res err"] ++ dumpState st.core ++ ["."], st)
  | some op =>
    let (out, st') := step st op
    (["> " ++ line, lineRes out.res] ++ out.effs.map lineEff ++ dumpState st'.core ++ ["."], st')

partial def loop (h : IO.FS.Stream) (out : IO.FS.Stream) (st : State) : IO Unit := do
  let line ← h.getLine
  if line.isEmpty then return ()
  let l := line.trimAscii.toString
  if l.isEmpty || l.startsWith "#" then loop h out st
  else
    let (ls, st') := blockOf st l
    out.putStr ("\n".intercalate ls ++ "\n")
    loop h out st'

def main : IO Unit := do
  let out ← IO.getStdout
  loop (← IO.getStdin) out {}
