import Fundraising.Generated.Code.Pure
import Fundraising.Generated.Code.Match
/-
  Pure-function driver (exe `fgen`): evaluates, on the same inputs as the Go harness
  (`harness pure`), BOTH the definitions TRANSLATED from /repo's Go source on this run
  (`Gen.*`, Generated/Code) and the hand-written model functions, one result line per input
  line:   `gen <result> | model <result>`.
  The check compares  Go = gen  (the translator and its tables — the meaning it gives to the SDK's
  LegacyDec / Int arithmetic — validated by execution) and  Go = model  (a function-level search
  for a concrete input on which the implementation departs from the function the theorems are
  about).

  Input lines (all numbers decimal integers; prices/weights/decs are RAW 18-decimal integers):
    dec <op> <a> <b>            op ∈ mul mulTrunc quo quoTrunc mulInt ceil truncInt   (b ignored for unary ops)
    tosell <price> <amt> <sameDenom 0|1>        Bid.ConvertToSellingAmount
    topay  <price> <amt> <sameDenom 0|1>        Bid.ConvertToPayingAmount
    sched <endTime> <n> (<release> <weight>)*   ValidateVestingSchedules   (1 = error)
    match <matchPrice> <supply> <nAllowed> (<bidder> <cap>)* <nLevels> (<price> <nBids> (<id> <bidder> <W|M> <amt>)*)*
    bbp <n> (<price>)* out (<id>)*              types.BidsByPrice on bids 1…n (input order) given what types.SortBids returned
-/
open Fundraising Fundraising.Gen

abbrev P := StateT (List String) Option

def tok : P String := do
  match (← get) with
  | [] => failure
  | t :: ts => set ts; pure t

def pInt : P Int := do
  match (← tok).toInt? with
  | some i => pure i
  | none => failure

def pNat : P Nat := do
  match (← tok).toNat? with
  | some i => pure i
  | none => failure

def pMany {α : Type} : Nat → P α → P (List α)
  | 0, _ => pure []
  | n + 1, p => do
    let x ← p
    let xs ← pMany n p
    pure (x :: xs)

def showInts (l : List Int) : String := " ".intercalate (l.map toString)

def decOp (op : String) (a b : Int) : Option Int :=
  match op with
  | "mul" => some (Dec.mul a b)
  | "mulTrunc" => some (Dec.mulTrunc a b)
  | "quo" => if b = 0 then none else some (Dec.quo a b)
  | "quoTrunc" => if b = 0 then none else some (Dec.quoTrunc a b)
  | "mulInt" => some (Dec.mulInt a b)
  | "ceil" => some (Dec.ceil a)
  | "truncInt" => some (Dec.truncInt a)
  | _ => none

def mkBid (price amt : Int) (same : Nat) : Bid :=
  { auction := 0, id := 1, bidder := 1, type := .fixed, price := price, denom := if same = 1 then 1 else 0, amt := amt, matched := false }

/-- render a Go-shaped match result: price total | matched ids | bidder:matched:pay for the listed bidders -/
def showMState (st : MState) (m : Bool) (bidders : List Acc) : String :=
  s!"fit {st.price} {st.total} {if m then 1 else 0} ids {showInts (st.matched.map (fun b => (b.id : Int)))} by " ++
  " ".intercalate (bidders.filterMap (fun u => (st.byBidder u).map (fun r => s!"{u}:{r.matched}:{r.pay}")))

def showMAcc (acc : MAcc) (bidders : List Acc) (touched : List Acc) : String :=
  s!"fit {acc.price} {acc.total} {if acc.matched.isEmpty then 0 else 1} ids {showInts (acc.matched.map (fun b => (b.id : Int)))} by " ++
  " ".intercalate ((bidders.filter (touched.contains ·)).map (fun u => s!"{u}:{acc.alloc u}:{acc.pay u}"))

def runLine (line : String) : String :=
  let ts := (line.splitOn " ").filter (· ≠ "")
  let p : P String := do
    let k ← tok
    match k with
    | "dec" =>
      let op ← tok; let a ← pInt; let b ← pInt
      match decOp op a b with
      | some r => pure s!"gen {r} | model {r}"
      | none => pure "gen panic | model panic"
    | "tosell" =>
      let price ← pInt; let amt ← pInt; let same ← pNat
      let b := mkBid price amt same
      pure s!"gen {Bid_ConvertToSellingAmount b 1} | model {b.toSelling 1}"
    | "topay" =>
      let price ← pInt; let amt ← pInt; let same ← pNat
      let b := mkBid price amt same
      pure s!"gen {Bid_ConvertToPayingAmount b 1} | model {b.toPaying 1}"
    | "sched" =>
      let e ← pInt; let n ← pNat
      let vs ← pMany n (do let r ← pInt; let w ← pInt; pure (⟨r, w⟩ : VS))
      pure s!"gen {if ValidateVestingSchedules vs e then 1 else 0} | model {if validSchedules vs e then 0 else 1}"
    | "match" =>
      let mp ← pInt; let S ← pInt; let na ← pNat
      let allowed ← pMany na (do let u ← pNat; let c ← pInt; pure (⟨u, c⟩ : Allowed))
      let nl ← pNat
      let levels ← pMany nl (do
        let price ← pInt; let nb ← pNat
        let bids ← pMany nb (do
          let id ← pNat; let u ← pNat; let t ← tok; let amt ← pInt
          pure ({ auction := 0, id := id, bidder := u, type := if t == "W" then .worth else .many, price := price,
                  denom := if t == "W" then 1 else 0, amt := amt, matched := false } : Bid))
        pure (price, bids))
      let prices := levels.map (·.1)
      let byPrice : Dec → Option (List Bid) := fun q => (levels.find? (·.1 == q)).map (·.2)
      let sorted := levels.flatMap (·.2)
      let bidders := (allowed.map (·.bidder))
      let g := match Gen.Match mp prices byPrice S allowed with
        | (some st, m) => showMState st m bidders
        | (none, _) => "nofit"
      let touched := (sorted.takeWhile (fun b => decide (mp ≤ b.price))).map (·.bidder)
      let m := match matchAt mp sorted S allowed with
        | .fit acc => showMAcc acc bidders touched
        | .nofit => "nofit"
        | .panic => "panic"
      pure s!"gen {g} | model {m}"
    | "bbp" =>
      let n ← pNat
      let prs ← pMany n pInt
      let _ ← tok  -- "out"
      let outIds ← pMany n pNat
      let mk (id : Nat) (price : Int) : Bid :=
        { auction := 0, id := id, bidder := 1, type := .many, price := price, denom := 0, amt := 1, matched := false }
      let bids := (List.range n).map (fun i => mk (i + 1) (prs.getD i 0))
      let out := outIds.map (fun id => mk id (prs.getD (id - 1) 0))
      -- an enumeration of the map's keys (first occurrences, reversed: any order must do)
      let keys := ((out.map (·.price)).eraseDups).reverse
      let render (prices : List Dec) (by_ : Dec → Option (List Bid)) : String :=
        s!"prices {showInts prices} levels " ++
        " ; ".intercalate (prices.map (fun q => showInts (((by_ q).getD []).map (fun b => (b.id : Int))))) ++
        s!" maplen {keys.length}"
      let g := Gen.BidsByPrice bids out keys
      -- the model: the stable price-descending arrangement of the input for books of at most 12 bids
      -- (`sortBids`, what the executable model uses), of what SortBids returned for larger ones
      let arr := if n ≤ 12 then sortBids bids else sortBids out
      let mprices := distinctPrices arr
      pure s!"gen {render g.1 g.2} | model {render mprices (fun q => some (arr.filter (fun b => decide (b.price = q))))}"
    | _ => failure
  match p.run ts with
  | some (r, _) => r
  | none => "bad-line"

partial def loop (h : IO.FS.Stream) : IO Unit := do
  let line ← h.getLine
  if line.isEmpty then return ()
  IO.println (runLine line.trimAscii.toString)
  loop h

def main : IO Unit := do loop (← IO.getStdin)
