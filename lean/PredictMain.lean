import Fundraising.Monitor.Predict

def main : IO Unit := Fundraising.Monitor.predictMain
