import Fundraising.Spec.Invariants
/-
  C18 — the documented preconditions of each message, as ONE declarative conjunction per
  message that merges the stateless (`ValidateBasic`) and the stateful (keeper) checks.
  Sources: x/fundraising/spec/01_concepts.md, 04_messages.md, docs/How-To/cli/README.md,
  the message comments in tx.proto and the registered error texts; where the documents are
  silent the code's guard is taken as the documentation and marked (code).
-/
namespace Fundraising

/-- the account can pay the fee list and then still has `amt` of `d` (sufficient funds for
    the advertised fee plus the reservation) -/
def CanPay (bank : Bank) (u : Acc) (fee : List Coin) (d : Denom) (amt : Int) : Prop :=
  ∃ b, bank.sendCoins (.user u) .pool fee = some b ∧ amt ≤ b (.user u) d

/-- what `ValidateVestingSchedules` documents: no schedule, or positive weights ≤ 1 that
    sum to exactly 1 with release times strictly increasing and all after the end time -/
def SchedulesOk (vs : List VS) (endTime : Int) : Prop := validSchedules vs endTime = true

/-- MsgCreateFixedPriceAuction / MsgCreateBatchAuction -/
structure AcceptCreate (s : Core) (m : CreateMsg) : Prop where
  signer : validAcc m.auctioneer = true
  startPrice : 0 < m.startPrice
  sellCoin : validDenom m.sellDenom = true ∧ 0 < m.sellAmt
  payDenom : validDenom m.payDenom = true ∧ m.sellDenom ≠ m.payDenom
  times : m.startTime < m.endTime
  /-- (code) the end time must not lie before the current block time (equal is allowed) -/
  endNotPast : s.now ≤ m.endTime
  schedules : SchedulesOk m.schedules m.endTime ∧ m.schedules.length ≤ 100
  batch : m.type = .batch → 0 < m.minBid ∧ 0 < m.rate ∧ m.maxExt ≤ 30
  funds : CanPay s.bank m.auctioneer s.params.creationFee m.sellDenom m.sellAmt

/-- MsgCancelAuction -/
structure AcceptCancel (s : Core) (signer : Acc) (aid : Nat) : Prop where
  signerOk : validAcc signer = true
  exists_ : ∃ v, s.views[aid]? = some v ∧ v.a.auctioneer = signer ∧ v.a.status = .standby

/-- MsgPlaceBid -/
structure AcceptPlace (s : Core) (bidder : Acc) (aid : Nat) (t : BidType) (price : Dec)
    (denom : Denom) (amt : Int) : Prop where
  signerOk : validAcc bidder = true
  pricePos : 0 < price
  coinOk : validDenom denom = true ∧ 0 < amt
  auction : ∃ v, s.views[aid]? = some v ∧ v.a.status = .started ∧
    ∃ ab, lookupAllowed v.allowed bidder = some ab ∧
      let bid : Bid := { auction := aid, id := v.bidSeq + 1, bidder := bidder, type := t, price := price,
                         denom := denom, amt := amt, matched := false }
      match t with
      | .fixed =>
        v.a.type = .fixed ∧ (denom = v.a.payDenom ∨ denom = v.a.sellDenom) ∧ price = v.a.startPrice ∧
        bid.toSelling v.a.payDenom ≤ v.a.remaining ∧
        bidderTotal v bidder + bid.toSelling v.a.payDenom ≤ ab.cap ∧
        CanPay s.bank bidder s.params.bidFee v.a.payDenom (bid.toPaying v.a.payDenom)
      | .worth =>
        v.a.type = .batch ∧ denom = v.a.payDenom ∧ v.a.minBid ≤ price ∧
        bid.toSelling v.a.payDenom ≤ ab.cap ∧
        CanPay s.bank bidder s.params.bidFee denom amt
      | .many =>
        v.a.type = .batch ∧ denom = v.a.sellDenom ∧ v.a.minBid ≤ price ∧
        amt ≤ ab.cap ∧
        CanPay s.bank bidder s.params.bidFee v.a.payDenom (bid.toPaying v.a.payDenom)

/-- MsgModifyBid -/
structure AcceptModify (s : Core) (bidder : Acc) (aid bidId : Nat) (price : Dec) (denom : Denom)
    (amt : Int) : Prop where
  signerOk : validAcc bidder = true
  pricePos : 0 < price
  coinOk : validDenom denom = true ∧ 0 < amt
  auction : ∃ v, s.views[aid]? = some v ∧ v.a.status = .started ∧ v.a.type = .batch ∧
    ∃ b, v.bids.find? (·.id == bidId) = some b ∧ b.bidder = bidder ∧
      v.a.minBid ≤ price ∧ b.denom = denom ∧ b.price ≤ price ∧ b.amt ≤ amt ∧
      (b.price < price ∨ b.amt < amt) ∧
      -- sufficient funds for the increase of the reservation
      (let b' : Bid := { b with price := price, amt := amt }
       b'.toPaying v.a.payDenom - b.toPaying v.a.payDenom ≤ s.bank (.user bidder) v.a.payDenom)

/-- MsgAddAllowedBidder: never accepted in a default build -/
def AcceptAddAllowed (_s : Core) (_aid : Nat) (_ab : AllowedArg) : Prop := False

/-- MsgUpdateParams -/
structure AcceptParams (s : Core) (signer : Acc) (p : Params) : Prop where
  authority : signer = AUTHORITY
  fees : validCoins p.creationFee = true ∧ validCoins p.bidFee = true

def Accept (s : Core) : Msg → Prop
  | .create m => AcceptCreate s m
  | .cancel signer aid => AcceptCancel s signer aid
  | .place bidder aid (some t) price denom amt => AcceptPlace s bidder aid t price denom amt
  | .place _ _ none _ _ _ => False
  | .modify bidder aid bidId price denom amt => AcceptModify s bidder aid bidId price denom amt
  | .addAllowed aid ab => AcceptAddAllowed s aid ab
  | .updateParams signer p => AcceptParams s signer p

end Fundraising
