import Fundraising.Model.Match
/-
  Declarative specification of batch clearing (property C03, and the batch halves of
  C04 and C05): capped demand, the "fits the supply" predicate, the lowest fitting
  price.  Nothing here refers to the sweep or to the binary search.
-/
namespace Fundraising

/-- the quantity bid `b` asks for at price `p` -/
def qtyAt (b : Bid) (p : Dec) : Int := (bidQty b p).getD 0

/-- the allow-list cap of `u` (0 when not listed) -/
def capOf (allowed : List Allowed) (u : Acc) : Int := ((lookupAllowed allowed u).map (·.cap)).getD 0

/-- what bidder `u` asks for at price `p`: all of `u`'s bids priced at or above `p` -/
def rawDemand (bids : List Bid) (u : Acc) (p : Dec) : Int :=
  ((bids.filter (fun b => b.bidder == u && decide (p ≤ b.price))).map (qtyAt · p)).sum

/-- … limited to `u`'s maximum bid amount -/
def cappedDemand (bids : List Bid) (allowed : List Allowed) (u : Acc) (p : Dec) : Int :=
  min (rawDemand bids u p) (capOf allowed u)

/-- total capped demand at price `p` -/
def demand (bids : List Bid) (allowed : List Allowed) (p : Dec) : Int :=
  ((biddersOf bids).map (fun u => cappedDemand bids allowed u p)).sum

/-- the amount reserved for bidder `u` (sum of the bids' paying amounts) -/
def reservedOf (bids : List Bid) (payDenom : Denom) (u : Acc) : Int :=
  sumOver bids u (·.toPaying payDenom)

/-- `p` is the lowest recorded bid price at which capped demand fits the supply `S` -/
def IsClearingPrice (bids : List Bid) (allowed : List Allowed) (S : Int) (p : Dec) : Prop :=
  (∃ b ∈ bids, b.price = p) ∧ demand bids allowed p ≤ S ∧
  ∀ b ∈ bids, demand bids allowed b.price ≤ S → p ≤ b.price

/-- no recorded bid price fits -/
def NoPriceFits (bids : List Bid) (allowed : List Allowed) (S : Int) : Prop :=
  ∀ b ∈ bids, ¬ demand bids allowed b.price ≤ S

/-- well-formed batch order book: what `ValidateBasic`, `PlaceBid` and `AddAllowedBidders`
    guarantee for every bid recorded in a batch auction (proved as part of the reachable-
    state invariant `WF`, Proofs/Invariants.lean) -/
structure BookWF (a : Auction) (bids : List Bid) (allowed : List Allowed) : Prop where
  types : ∀ b ∈ bids, b.type = .worth ∨ b.type = .many
  denoms : ∀ b ∈ bids, (b.type = .worth → b.denom = a.payDenom) ∧ (b.type = .many → b.denom ≠ a.payDenom)
  prices : ∀ b ∈ bids, 0 < b.price
  amts : ∀ b ∈ bids, 0 < b.amt
  listed : ∀ b ∈ bids, (lookupAllowed allowed b.bidder).isSome
  caps : ∀ x ∈ allowed, 0 < x.cap
  supply : 0 < a.sellAmt
  ids : (bids.map (·.id)).Nodup

def lookupAmt (m : List (Acc × Int)) (u : Acc) : Int := ((m.find? (·.1 == u)).map (·.2)).getD 0

end Fundraising
