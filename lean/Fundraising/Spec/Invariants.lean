import Fundraising.Model.Step
import Fundraising.Spec.Clearing
/-
  Reachability and the well-formedness invariant of reachable states.  These are the
  predicates the state-machine theorems (C01, C02, C05–C13, C15, C16, C18, C19) are about;
  the same predicates are evaluated by the monitors on implementation-reported states.
-/
namespace Fundraising

/-- every state the system can be in: any sequence of operations (messages from any
    signer with any field values, keeper-API calls with any arguments, third-party
    transfers and mints of any amount, blocks at any time, genesis round trips, test
    controls) from the initial state; a failed operation leaves the state as it was -/
def Reach (st : State) : Prop := ∃ ops : List Op, run {} ops = st

/-! ### per-auction well-formedness -/

structure AuctionWF (a : Auction) : Prop where
  auctioneer : validAcc a.auctioneer = true
  sellPos : 0 < a.sellAmt
  pricePos : 0 < a.startPrice
  denomNe : a.sellDenom ≠ a.payDenom
  sellDenomOk : validDenom a.sellDenom = true
  payDenomOk : validDenom a.payDenom = true
  endNonempty : a.endTimes ≠ []
  endLen : a.endTimes.length ≤ a.maxExt + 1
  maxExt : a.maxExt ≤ 30
  /-- the schedule passed `ValidateVestingSchedules` against the first end time -/
  sched : validSchedules a.schedules (a.endTimes.headD 0) = true
  schedLen : a.schedules.length ≤ 100
  batch : a.type = .batch → 0 < a.minBid ∧ 0 < a.rate
  fixed : a.type = .fixed → a.maxExt = 0

structure BidWF (a : Auction) (allowed : List Allowed) (b : Bid) : Prop where
  auction : b.auction = a.id
  bidder : validAcc b.bidder = true
  price : 0 < b.price
  amt : 0 < b.amt
  listed : (lookupAllowed allowed b.bidder).isSome = true
  fixed : a.type = .fixed →
    b.type = .fixed ∧ b.price = a.startPrice ∧ (b.denom = a.payDenom ∨ b.denom = a.sellDenom)
  batch : a.type = .batch →
    (b.type = .worth ∧ b.denom = a.payDenom) ∨ (b.type = .many ∧ b.denom = a.sellDenom)
  minBid : a.type = .batch → a.minBid ≤ b.price

/-- sum of the selling amounts of all bids (what a fixed-price auction has sold) -/
def soldOf (v : AView) : Int := (v.bids.map (·.toSelling v.a.payDenom)).sum

/-- sum of the paying amounts reserved by all bids -/
def reservedTotal (v : AView) : Int := (v.bids.map (·.toPaying v.a.payDenom)).sum

/-- sum of the unreleased vesting instalments -/
def unreleasedTotal (v : AView) : Int := ((v.vqs.filter (fun q => !q.released)).map (·.amt)).sum

structure ViewWF (i : Nat) (v : AView) : Prop where
  id : v.a.id = i
  auction : AuctionWF v.a
  bids : ∀ b ∈ v.bids, BidWF v.a v.allowed b
  /-- bid ids are 1, 2, 3, … in store order: assigned in increasing order, never reused -/
  bidIds : v.bids.map (·.id) = (List.range v.bids.length).map (· + 1)
  bidSeq : v.bidSeq = v.bids.length
  caps : ∀ x ∈ v.allowed, validAcc x.bidder = true ∧ 0 < x.cap
  allowedSorted : (v.allowed.map (·.bidder)).Pairwise (· < ·)
  /-- bids exist only once the auction has opened -/
  noBidsBefore : (v.a.status = .standby ∨ v.a.status = .cancelled) → v.bids = []
  /-- MatchedBidsLen equals the number of flagged bids (batch), is never written (fixed) -/
  matchedLenBatch : v.a.type = .batch → v.matchedLen = countMatched v.bids
  matchedLenFixed : v.a.type = .fixed → v.matchedLen = 0
  /-- C06: the published remainder is exact while the auction can still sell -/
  remaining : v.a.type = .fixed → (v.a.status = .standby ∨ v.a.status = .started) →
    v.a.remaining = v.a.sellAmt - soldOf v ∧ 0 ≤ v.a.remaining
  /-- vesting queues: none before settlement, one per schedule entry afterwards -/
  vqsNone : (v.a.status = .standby ∨ v.a.status = .started ∨ v.a.status = .cancelled) → v.vqs = []
  vqsSome : (v.a.status = .vesting ∨ v.a.status = .finished) →
    v.vqs.map (·.release) = v.a.schedules.map (·.release)
  vqsWF : ∀ q ∈ v.vqs, 0 ≤ q.amt ∧ q.denom = v.a.payDenom ∧ q.auctioneer = v.a.auctioneer ∧ q.auction = i
  /-- instalments are released in order: the released ones form a prefix -/
  releasedPrefix : v.vqs.Pairwise (fun q q' => q'.released = true → q.released = true)
  /-- an auction is `vesting` exactly while its last instalment is unpaid -/
  vestingOpen : v.a.status = .vesting → ∃ q, v.vqs.getLast? = some q ∧ q.released = false
  finishedAll : v.a.status = .finished → ∀ q ∈ v.vqs, q.released = true

def ParamsWF (p : Params) : Prop := validCoins p.creationFee = true ∧ validCoins p.bidFee = true

/-- the invariant of reachable states -/
structure WF (s : Core) : Prop where
  params : ParamsWF s.params
  views : ∀ i v, s.views[i]? = some v → ViewWF i v
  /-- the allow-list switch of the default build is off (tied to the source by the
      regenerated `switchWrites` table, Props/C10) -/
  switchOff : s.enableAdd = false

/-! ### C01: what the escrows owe -/

def owedSell (v : AView) : Int :=
  if v.a.status = .standby ∨ v.a.status = .started then v.a.sellAmt else 0

def owedPay (v : AView) : Int :=
  if v.a.status = .started then reservedTotal v else 0

def owedVest (v : AView) : Int :=
  if v.a.status = .vesting then unreleasedTotal v else 0

/-- escrow balances cover what the records owe (every reachable state) -/
structure EscrowCovered (s : Core) (i : Nat) (v : AView) : Prop where
  sell : owedSell v ≤ s.bank (.sell i) v.a.sellDenom
  pay : owedPay v ≤ s.bank (.pay i) v.a.payDenom
  vest : owedVest v ≤ s.bank (.vest i) v.a.payDenom

/-- escrow balances equal what the records owe, and hold nothing else -/
structure EscrowExact (s : Core) (i : Nat) (v : AView) : Prop where
  sell : ∀ d, s.bank (.sell i) d = if d = v.a.sellDenom then owedSell v else 0
  pay : ∀ d, s.bank (.pay i) d = if d = v.a.payDenom then owedPay v else 0
  vest : ∀ d, s.bank (.vest i) d = if d = v.a.payDenom then owedVest v else 0

/-- escrows of auctions that do not exist yet hold nothing -/
def FutureEscrowsEmpty (s : Core) : Prop :=
  ∀ i, s.views.length ≤ i → ∀ d, s.bank (.sell i) d = 0 ∧ s.bank (.pay i) d = 0 ∧ s.bank (.vest i) d = 0

/-- the operation is not a third-party transfer into an escrow account -/
def Op.noEscrowGift : Op → Bool
  | .gift _ (.user _) _ _ => true
  | .gift _ .pool _ _ => true
  | .gift _ _ _ _ => false
  | _ => true

/-- all balances are non-negative -/
def BankNonneg (s : Core) : Prop := ∀ a d, 0 ≤ s.bank a d

end Fundraising
