import Fundraising.Spec.Invariants
/-
  C08 / C10 / C11 / C12 / C13 / C19 — what one operation may change.
-/
namespace Fundraising

/-- the lifecycle edges an auction may take in one operation -/
def statusEdge : Status → Status → Bool
  | .standby, .started => true
  | .started, .vesting => true
  | .started, .finished => true
  | .vesting, .finished => true
  | .standby, .cancelled => true
  | a, b => a == b

/-- the agreed terms of an auction (C19): everything except status, end-time extensions,
    the remainder and the published matched price -/
structure Terms where
  id : Nat
  type : AType
  auctioneer : Acc
  sellDenom : Denom
  sellAmt : Int
  payDenom : Denom
  startPrice : Dec
  minBid : Dec
  maxExt : Nat
  rate : Dec
  schedules : List VS
  startTime : Int
  firstEnd : Option Int
  deriving DecidableEq

def Auction.terms (a : Auction) : Terms :=
  { id := a.id, type := a.type, auctioneer := a.auctioneer, sellDenom := a.sellDenom,
    sellAmt := a.sellAmt, payDenom := a.payDenom, startPrice := a.startPrice, minBid := a.minBid,
    maxExt := a.maxExt, rate := a.rate, schedules := a.schedules, startTime := a.startTime,
    firstEnd := a.endTimes.head? }

/-- a bid's identity (C11/C19): auction, id, owner, type, denomination -/
def Bid.ident (b : Bid) : Nat × Nat × Acc × BidType × Denom := (b.auction, b.id, b.bidder, b.type, b.denom)

/-- `v'` is a legal successor of `v` for one operation (any operation but `reset`) -/
structure ViewStep (v v' : AView) : Prop where
  status : statusEdge v.a.status v'.a.status = true
  terms : v'.a.terms = v.a.terms
  /-- end times are only appended -/
  ends : ∃ more, v'.a.endTimes = v.a.endTimes ++ more
  /-- bids are never removed or re-identified, and only grow -/
  bidsKept : ∃ more, v'.bids.map Bid.ident = v.bids.map Bid.ident ++ more
  bidsGrow : ∀ b ∈ v.bids, ∃ b' ∈ v'.bids, b'.ident = b.ident ∧ b.price ≤ b'.price ∧ b.amt ≤ b'.amt
  /-- allow-list entries are never removed -/
  allowedKept : ∀ x ∈ v.allowed, ∃ x' ∈ v'.allowed, x'.bidder = x.bidder
  /-- the per-auction bid counter never decreases -/
  seq : v.bidSeq ≤ v'.bidSeq
  /-- vesting instalments are never removed, re-timed or re-sized, and never un-released -/
  vqsKept : ∀ q ∈ v.vqs, ∃ q' ∈ v'.vqs, q'.release = q.release ∧ q'.amt = q.amt ∧ (q.released = true → q'.released = true)

/-- the auction an operation names (create and block are handled separately) -/
def Op.target : Op → Option Nat
  | .msg (.cancel _ aid) => some aid
  | .msg (.place _ aid _ _ _ _) => some aid
  | .msg (.modify _ aid _ _ _ _) => some aid
  | .msg (.addAllowed aid _) => some aid
  | .kadd aid _ => some aid
  | .kupd aid _ _ => some aid
  | _ => none

/-- the three escrow balances of auction `j` are the same in two states -/
def SameEscrows (s s' : Core) (j : Nat) : Prop :=
  ∀ d, s'.bank (.sell j) d = s.bank (.sell j) d ∧ s'.bank (.pay j) d = s.bank (.pay j) d ∧
       s'.bank (.vest j) d = s.bank (.vest j) d

/-- nothing is due for the auction at block time `t` -/
def idleAt (v : AView) (t : Int) : Bool :=
  match v.a.status with
  | .standby => decide (t < v.a.startTime)
  | .started => decide (t < v.a.lastEnd)
  | .vesting => v.vqs.all (fun q => q.released || decide (t < q.release))
  | .finished => true
  | .cancelled => true

end Fundraising
