import Fundraising.Model.Exec
import Fundraising.Model.Match
/-
  The message handlers and the keeper API, statement by statement as in
  types/msgs.go (`ValidateBasic`), keeper/msg_server.go, keeper/auction.go, keeper/bid.go.
  Same order of checks, fee before reservation, same hook positions.
-/
namespace Fundraising

structure CreateMsg where
  auctioneer : Acc
  type : AType
  startPrice : Dec
  minBid : Dec := 0          -- batch only
  sellDenom : Denom
  sellAmt : Int
  payDenom : Denom
  maxExt : Nat := 0          -- batch only
  rate : Dec := 0            -- batch only
  startTime : Int
  endTime : Int
  schedules : List VS
  deriving Repr, Inhabited

/-- one entry of `[]types.AllowedBidder` as a caller passes it (`recAuction` is the
    record's own `AuctionId` field, which need not equal the call's auction id) -/
structure AllowedArg where
  recAuction : Nat
  bidder : Acc
  cap : Int
  deriving Repr, Inhabited

inductive Msg where
  | create (m : CreateMsg)
  | cancel (signer : Acc) (aid : Nat)
  | place (bidder : Acc) (aid : Nat) (type : Option BidType) (price : Dec) (denom : Denom) (amt : Int)
  | modify (bidder : Acc) (aid : Nat) (bidId : Nat) (price : Dec) (denom : Denom) (amt : Int)
  | addAllowed (aid : Nat) (ab : AllowedArg)
  | updateParams (signer : Acc) (p : Params)
  deriving Repr, Inhabited

/-- `0001-01-01T00:00:00Z` in unix seconds -/
def TIME_ZERO : Int := -62135596800

/-- `types.ValidateVestingSchedules(schedules, endTime)` -/
def validSchedulesLoop (endTime : Int) : List VS → Int → Dec → Option Dec
  | [], _, tot => some tot
  | s :: rest, prev, tot =>
    if !(s.weight > 0) then none
    else if !(s.release > endTime) then none
    else if !(s.release > prev) then none
    else if s.weight > Dec.one then none
    else validSchedulesLoop endTime rest s.release (tot + s.weight)

def validSchedules (vs : List VS) (endTime : Int) : Bool :=
  if vs.isEmpty then true
  else match validSchedulesLoop endTime vs TIME_ZERO 0 with
    | some tot => tot == Dec.one
    | none => false

/-- `sdk.Coins.Validate`: valid denoms, positive amounts, strictly increasing denoms -/
def validCoins : List Coin → Bool
  | [] => true
  | [c] => validDenom c.denom && decide (c.amt > 0)
  | c :: c' :: rest =>
    validDenom c.denom && decide (c.amt > 0) && decide (c.denom < c'.denom) && validCoins (c' :: rest)

/-- `sdk.Coin.Validate` -/
def validCoin (d : Denom) (amt : Int) : Bool := validDenom d && decide (0 ≤ amt)

/-! ### ValidateBasic -/

def validateBasic : Msg → Bool
  | .create m =>
    validAcc m.auctioneer && decide (m.startPrice > 0)
    && (m.type != .batch || decide (m.minBid > 0))
    && validCoin m.sellDenom m.sellAmt && decide (m.sellAmt > 0)
    && m.sellDenom != m.payDenom && validDenom m.payDenom
    && decide (m.endTime > m.startTime)
    && (m.type != .batch || decide (m.rate > 0))
    && validSchedules m.schedules m.endTime
  | .cancel signer _ => validAcc signer
  | .place bidder _ type price denom amt =>
    validAcc bidder && decide (price > 0) && validCoin denom amt && decide (amt > 0) && type.isSome
  | .modify bidder _ _ price denom amt =>
    validAcc bidder && decide (price > 0) && validCoin denom amt && decide (amt > 0)
  | .addAllowed _ ab => validAcc ab.bidder
  | .updateParams _ _ => true

/-! ### store helpers -/

def Ctx.view (c : Ctx) (aid : Nat) : M AView :=
  match c.s.views[aid]? with
  | some v => .ok v
  | none => c.fail

def Ctx.setView (c : Ctx) (aid : Nat) (v : AView) : Ctx :=
  { c with s := { c.s with views := c.s.views.set aid v } }

def Ctx.bal (c : Ctx) (a : Addr) (d : Denom) : Int := c.s.bank a d

def setAllowed (l : List Allowed) (x : Allowed) : List Allowed :=
  upsertBy (fun a => (a.bidder : Int)) x l

/-! ### CreateFixedPriceAuction / CreateBatchAuction -/

def createHookArgs (m : CreateMsg) (id : Option Nat) : List String :=
  (match id with | some i => [rNat i] | none => [])
  ++ [rAcc m.auctioneer, rInt m.startPrice]
  ++ (if m.type = .batch then [rInt m.minBid] else [])
  ++ [rNat m.sellDenom, rInt m.sellAmt, rNat m.payDenom]
  ++ rSchedules m.schedules
  ++ (if m.type = .batch then [rNat m.maxExt, rInt m.rate] else [])
  ++ [rInt m.startTime, rInt m.endTime]

def createAuction (c : Ctx) (m : CreateMsg) : M Ctx := do
  c.check (!(decide (c.s.now > m.endTime)))
  c.check (decide (m.schedules.length ≤ 100))
  c.check (m.type != .batch || decide (m.maxExt ≤ 30))
  let id := c.s.views.length                                   -- AuctionSeq.Next
  let c ← c.bankCall .pool (.user m.auctioneer) .pool c.s.params.creationFee
  let coins ← mkCoins c m.sellDenom m.sellAmt
  let c ← c.bankCall .send (.user m.auctioneer) (.sell id) coins
  let status := if m.startTime ≤ c.s.now then Status.started else Status.standby
  let a : Auction :=
    { id := id, type := m.type, auctioneer := m.auctioneer, sellDenom := m.sellDenom,
      sellAmt := m.sellAmt, payDenom := m.payDenom, startPrice := m.startPrice,
      startTime := m.startTime, endTimes := [m.endTime], schedules := m.schedules,
      status := status,
      remaining := if m.type = .fixed then m.sellAmt else 0,
      minBid := if m.type = .batch then m.minBid else 0,
      matchedPrice := 0,
      maxExt := if m.type = .batch then m.maxExt else 0,
      rate := if m.type = .batch then m.rate else 0 }
  let before := if m.type = .fixed then "BeforeFixedPriceAuctionCreated" else "BeforeBatchAuctionCreated"
  let after := if m.type = .fixed then "AfterFixedPriceAuctionCreated" else "AfterBatchAuctionCreated"
  let c ← c.hook before (createHookArgs m none)
  let c : Ctx := { c with s := { c.s with views := c.s.views ++ [({ a := a } : AView)] } }   -- Auction.Set
  c.hook after (createHookArgs m (some id))

/-! ### CancelAuction -/

def cancelAuction (c : Ctx) (signer : Acc) (aid : Nat) : M Ctx := do
  let v ← c.view aid
  c.check (v.a.auctioneer == signer)
  c.check (v.a.status == .standby)
  let coins ← mkCoins c v.a.sellDenom (c.bal (.sell aid) v.a.sellDenom)
  let c ← c.bankCall .send (.sell aid) (.user v.a.auctioneer) coins
  let c ← c.hook "BeforeAuctionCanceled" [rNat aid, rAcc signer]
  let a' := { v.a with remaining := if v.a.type = .fixed then 0 else v.a.remaining,
                       status := .cancelled }
  pure (c.setView aid { v with a := a' })

/-! ### PlaceBid -/

def bidHookArgs (b : Bid) : List String :=
  [rNat b.auction, rNat b.id, rAcc b.bidder, rBidType b.type, rInt b.price, rNat b.denom, rInt b.amt]

/-- total selling amount of the bidder's recorded bids in this auction
    (`GetBidsByBidder` + the `AuctionId` filter of `ValidateFixedPriceBid`) -/
def bidderTotal (v : AView) (u : Acc) : Int :=
  (v.bids.filter (·.bidder == u)).foldl (fun s b => s + b.toSelling v.a.payDenom) 0

def placeBid (c : Ctx) (bidder : Acc) (aid : Nat) (t : BidType) (price : Dec)
    (denom : Denom) (amt : Int) : M Ctx := do
  let v ← c.view aid
  c.check (v.a.status == .started)
  c.check (v.a.type != .batch || !(decide (price < v.a.minBid)))
  let ab ← match lookupAllowed v.allowed bidder with
    | some ab => pure ab
    | none => c.fail
  let c ← c.bankCall .pool (.user bidder) .pool c.s.params.bidFee
  let bidId := v.bidSeq + 1                                     -- GetNextBidIdWithUpdate
  let bid : Bid := { auction := aid, id := bidId, bidder := bidder, type := t, price := price,
                     denom := denom, amt := amt, matched := false }
  let pd := v.a.payDenom
  let (c, a', bid) ← (match t with
    | .fixed => do
      -- ValidateFixedPriceBid
      c.check (v.a.type == .fixed)
      c.check (denom == pd || denom == v.a.sellDenom)
      c.check (price == v.a.startPrice)
      let q := bid.toSelling pd
      c.check (!(decide (v.a.remaining < q)))
      c.check (!(decide (bidderTotal v bidder + q > ab.cap)))
      -- reserve, subtract from the remainder
      let coins ← mkCoins c pd (bid.toPaying pd)
      let c ← c.bankCall .send (.user bidder) (.pay aid) coins
      pure (c, { v.a with remaining := v.a.remaining - q }, { bid with matched := decide (q > 0) })
    | .worth => do
      c.check (v.a.type == .batch)
      c.check (denom == pd)
      c.check (!(decide (bid.toSelling pd > ab.cap)))
      let coins ← mkCoins c denom amt
      let c ← c.bankCall .send (.user bidder) (.pay aid) coins
      pure (c, v.a, bid)
    | .many => do
      c.check (v.a.type == .batch)
      c.check (denom == v.a.sellDenom)
      c.check (!(decide (bid.toSelling pd > ab.cap)))
      let coins ← mkCoins c pd (bid.toPaying pd)
      let c ← c.bankCall .send (.user bidder) (.pay aid) coins
      pure (c, v.a, bid) : M (Ctx × Auction × Bid))
  let c ← c.hook "BeforeBidPlaced" (bidHookArgs bid)
  pure (c.setView aid { v with a := a', bids := v.bids ++ [bid], bidSeq := bidId })

/-! ### ModifyBid -/

def modifyBid (c : Ctx) (bidder : Acc) (aid bidId : Nat) (price : Dec) (denom : Denom)
    (amt : Int) : M Ctx := do
  let v ← c.view aid
  c.check (v.a.status == .started)
  c.check (v.a.type == .batch)
  let bid ← match v.bids.find? (·.id == bidId) with
    | some b => pure b
    | none => c.fail
  c.check (bid.bidder == bidder)
  c.check (!(decide (price < v.a.minBid)))
  c.check (bid.denom == denom)
  c.check (!(decide (price < bid.price) || decide (amt < bid.amt)))
  c.check (!(decide (price = bid.price) && decide (amt = bid.amt)))
  let c ← (match bid.type with
    | .worth => do
      let diff := amt - bid.amt
      if diff > 0 then c.bankCall .send (.user bidder) (.pay aid) [⟨denom, diff⟩] else pure c
    | .many => do
      let prev := Dec.ceil (Dec.mul (Dec.ofInt bid.amt) bid.price)
      let curr := Dec.ceil (Dec.mul (Dec.ofInt amt) price)
      let diff := Dec.truncInt (curr - prev)
      if diff < 0 then c.fail .panic
      else if diff > 0 then c.bankCall .send (.user bidder) (.pay aid) [⟨v.a.payDenom, diff⟩]
      else pure c
    | .fixed => pure c : M Ctx)
  let bid' := { bid with price := price, amt := amt }
  let c ← c.hook "BeforeBidModified" (bidHookArgs bid')
  pure (c.setView aid { v with bids := v.bids.map (fun b => if b.id == bidId then bid' else b) })

/-! ### keeper API: AddAllowedBidders / UpdateAllowedBidder -/

def rAllowedArgs (abs : List AllowedArg) : List String :=
  rNat abs.length :: abs.flatMap (fun ab => [rNat ab.recAuction, rAcc ab.bidder, rInt ab.cap])

def addLoop (c : Ctx) (sellAmt : Int) : List AllowedArg → List Allowed → M (List Allowed)
  | [], l => pure l
  | ab :: rest, l => do
    c.check (validAcc ab.bidder)                       -- ab.Validate()
    c.check (decide (ab.cap > 0))
    c.check (!(decide (ab.cap > sellAmt)))
    addLoop c sellAmt rest (setAllowed l { bidder := ab.bidder, cap := ab.cap })

def addAllowedBidders (c : Ctx) (aid : Nat) (abs : List AllowedArg) : M Ctx := do
  c.check (!abs.isEmpty)
  let v ← c.view aid
  let c ← c.hook "BeforeAllowedBiddersAdded" (rAllowedArgs abs)
  let l ← addLoop c v.a.sellAmt abs v.allowed
  pure (c.setView aid { v with allowed := l })

def updateAllowedBidder (c : Ctx) (aid : Nat) (bidder : Acc) (cap : Int) : M Ctx := do
  let v ← c.view aid
  c.check (lookupAllowed v.allowed bidder).isSome
  c.check (decide (cap > 0))
  let c ← c.hook "BeforeAllowedBidderUpdated" [rNat aid, rAcc bidder, rInt cap]
  pure (c.setView aid { v with allowed := setAllowed v.allowed { bidder := bidder, cap := cap } })

/-! ### the message server -/

def handle (c : Ctx) : Msg → M Ctx
  | .create m => createAuction c m
  | .cancel signer aid => cancelAuction c signer aid
  | .place bidder aid (some t) price denom amt => placeBid c bidder aid t price denom amt
  | .place _ _ none _ _ _ => c.fail
  | .modify bidder aid bidId price denom amt => modifyBid c bidder aid bidId price denom amt
  | .addAllowed aid ab => do
    c.check c.s.enableAdd
    addAllowedBidders c aid [ab]
  | .updateParams signer p => do
    c.check (validAcc signer)
    c.check (signer == AUTHORITY)
    c.check (validCoins p.creationFee && validCoins p.bidFee)
    pure { c with s := { c.s with params := p } }

/-- baseapp: `ValidateBasic`, then the handler -/
def deliver (c : Ctx) (m : Msg) : M Ctx := do
  c.check (validateBasic m)
  handle c m

end Fundraising
