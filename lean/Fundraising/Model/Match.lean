import Fundraising.Model.Types
/-
  types/bid.go (conversions), types/utils.go (SortBids, BidsByPrice), types/match.go
  (Match), keeper/match.go (CalculateFixedPriceAllocation, CalculateBatchAllocation and
  the `sort.Search` loop it uses).
-/
namespace Fundraising

/-- `Bid.ConvertToSellingAmount(payingDenom)` -/
def Bid.toSelling (b : Bid) (payDenom : Denom) : Int :=
  if b.denom = payDenom then Dec.truncInt (Dec.quoTrunc (Dec.ofInt b.amt) b.price)
  else b.amt

/-- `Bid.ConvertToPayingAmount(payingDenom)` -/
def Bid.toPaying (b : Bid) (payDenom : Denom) : Int :=
  if b.denom = payDenom then b.amt
  else Dec.truncInt (Dec.ceil (Dec.mul (Dec.ofInt b.amt) b.price))

/-! ### SortBids / BidsByPrice

`types.SortBids` calls `sort.Slice` with the comparator
`price_i > price_j || id_i < id_j`, which is not a strict weak order.  For at most 12
bids Go's pdqsort is a plain insertion sort, and on the id-ascending input the keeper
passes it behaves as a *stable* sort by price, descending — that is `sortBids`.  For
larger books the within-price order is implementation-defined; every theorem about
matching is stated for an arbitrary price-sorted arrangement of the bids
(`Proofs/MatchLemmas`), and `sortBids` is only the arrangement the executable model uses.
-/

def insertByPrice (b : Bid) : List Bid → List Bid
  | [] => [b]
  | y :: ys => if y.price < b.price then b :: y :: ys else y :: insertByPrice b ys

def sortBids (bids : List Bid) : List Bid :=
  bids.foldl (fun acc b => insertByPrice b acc) []

/-- the distinct prices of a price-sorted bid list, descending (`prices` of `BidsByPrice`) -/
def distinctPrices : List Bid → List Dec
  | [] => []
  | [b] => [b.price]
  | b :: b' :: rest =>
    if b.price = b'.price then distinctPrices (b' :: rest)
    else b.price :: distinctPrices (b' :: rest)

/-! ### Match -/

/-- the quantity a bid asks for at match price `p`; `none` = Go leaves `bidAmt` nil -/
def bidQty (b : Bid) (p : Dec) : Option Int :=
  match b.type with
  | .worth => some (Dec.truncInt (Dec.quoTrunc (Dec.ofInt b.amt) p))
  | .many => some b.amt
  | .fixed => none

structure MAcc where
  price : Dec := 0                       -- res.MatchPrice
  total : Int := 0                       -- res.MatchedAmount
  rem : Acc → Option Int                 -- biddableAmtByBidder
  alloc : Acc → Int := fun _ => 0        -- MatchResultByBidder[·].MatchedAmount
  pay : Acc → Int := fun _ => 0          -- MatchResultByBidder[·].PayingAmount
  matched : List Bid := []               -- res.MatchedBids
  deriving Inhabited

inductive MRes where
  | panic               -- nil `math.Int` dereference in Go
  | nofit               -- `return nil, false`: supply exceeded
  | fit (acc : MAcc)
  deriving Inhabited

def bump (f : Acc → Int) (u : Acc) (x : Int) : Acc → Int :=
  fun v => if v = u then f v + x else f v

def matchStep (p : Dec) (S : Int) (acc : MAcc) (b : Bid) : MRes :=
  match bidQty b p, acc.rem b.bidder with
  | some q, some r =>
    let m := min q r
    if acc.total + m > S then .nofit
    else
      let payAmt := Dec.truncInt (Dec.ceil (Dec.mulInt p m))
      let acc := { acc with alloc := bump acc.alloc b.bidder m, pay := bump acc.pay b.bidder payAmt }
      if m > 0 then
        .fit { acc with rem := fun v => if v = b.bidder then some (r - m) else acc.rem v,
                        matched := acc.matched ++ [b],
                        total := acc.total + m }
      else .fit acc
  | _, _ => .panic

def matchLoop (p : Dec) (S : Int) : List Bid → MAcc → MRes
  | [], acc => .fit acc
  | b :: bs, acc =>
    match matchStep p S acc b with
    | .fit acc' => matchLoop p S bs acc'
    | r => r

def capsOf (allowed : List Allowed) : Acc → Option Int :=
  fun u => (lookupAllowed allowed u).map (·.cap)

/-- `types.Match(matchPrice, prices, bidsByPrice, sellingAmt, allowedBidders)` on the
    price-sorted bid list -/
def matchAt (p : Dec) (sorted : List Bid) (S : Int) (allowed : List Allowed) : MRes :=
  matchLoop p S (sorted.takeWhile (fun b => decide (p ≤ b.price))) { price := p, rem := capsOf allowed }

/-! ### sort.Search with the closure's stored result

`sort.Search(n, f)`: `i, j := 0, n; for i < j { h := (i+j)/2; if !f(h) { i = h+1 } else { j = h } }`.
The closure of `CalculateBatchAllocation` evaluates `Match` at `prices[n-1-h]` and keeps
the result of the last evaluation that returned true.  (After the `fix:` commit for C03
the closure's answer is "the demand fits the supply".)  `fuel` bounds the iterations;
`n` is always enough.
-/

def searchLoop (f : Nat → MRes) : Nat → Nat → Nat → Option MAcc → Option (Option MAcc)
  | 0, _, _, last => some last
  | fuel + 1, i, j, last =>
    if i < j then
      let h := (i + j) / 2
      match f h with
      | .panic => none
      | .nofit => searchLoop f fuel (h + 1) j last
      | .fit acc => searchLoop f fuel i h (some acc)
    else some last

structure MInfo where
  matchedLen : Int
  price : Dec
  total : Int
  alloc : List (Acc × Int)     -- AllocationMap, keys ascending
  refund : List (Acc × Int)    -- RefundMap, keys ascending
  matchedIds : List Nat
  deriving Repr, Inhabited

def insertAcc (u : Acc) : List Acc → List Acc
  | [] => [u]
  | y :: ys => if u < y then u :: y :: ys else if u = y then y :: ys else y :: insertAcc u ys

/-- the bidders that have at least one bid, ascending, without repetition
    (`sort.Strings` over the keys of a map keyed by bidder) -/
def biddersOf (bids : List Bid) : List Acc :=
  bids.foldl (fun l b => insertAcc b.bidder l) []

def sumOver (bids : List Bid) (u : Acc) (f : Bid → Int) : Int :=
  (bids.filter (·.bidder == u)).foldl (fun s b => s + f b) 0

/-- `CalculateFixedPriceAllocation` -/
def calcFixed (a : Auction) (bids : List Bid) : MInfo :=
  { matchedLen := bids.length
    price := a.startPrice
    total := bids.foldl (fun s b => s + b.toSelling a.payDenom) 0
    alloc := (biddersOf bids).map (fun u => (u, sumOver bids u (·.toSelling a.payDenom)))
    refund := []
    matchedIds := bids.map (·.id) }

/-- `CalculateBatchAllocation` without its store writes, given the arrangement `sorted`
    that `SortBids` produced; `none` = Go panics -/
def calcBatchWith (sorted : List Bid) (a : Auction) (bids : List Bid) (allowed : List Allowed) : Option MInfo :=
  let prices := distinctPrices sorted
  let n := prices.length
  let f := fun (h : Nat) => matchAt (prices.getD (n - 1 - h) 0) sorted a.sellAmt allowed
  match searchLoop f n 0 n none with
  | none => none
  | some res =>
    let bidders := biddersOf bids
    let reserved := fun u => sumOver bids u (·.toPaying a.payDenom)
    match res with
    | none =>
      some { matchedLen := 0, price := 0, total := 0
             alloc := bidders.map (fun u => (u, 0))
             refund := bidders.map (fun u => (u, reserved u))
             matchedIds := [] }
    | some acc =>
      some { matchedLen := acc.matched.length
             price := acc.price
             total := acc.total
             alloc := bidders.map (fun u => (u, acc.alloc u))
             refund := bidders.map (fun u => (u, reserved u - acc.pay u))
             matchedIds := acc.matched.map (·.id) }

/-- `CalculateBatchAllocation` with the arrangement of the executable model -/
def calcBatch (a : Auction) (bids : List Bid) (allowed : List Allowed) : Option MInfo :=
  calcBatchWith (sortBids bids) a bids allowed

end Fundraising
