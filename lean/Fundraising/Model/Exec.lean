import Fundraising.Model.Types
/-
  Execution context of one operation: the bank primitive, the hook dispatcher, the
  effect log, fault injection.  An operation is a function `Ctx → M Ctx`
  (`M = Except Fail`); an error aborts the operation, and the caller discards the
  state (transaction atomicity) but keeps the hook-call log.
-/
namespace Fundraising

inductive XKind where
  | send   -- BankKeeper.SendCoins
  | io     -- BankKeeper.InputOutputCoins (one input, one output)
  | pool   -- DistrKeeper.FundCommunityPool
  deriving DecidableEq, Repr, Inhabited

structure Transfer where
  kind : XKind
  src : Addr
  dst : Addr
  coins : List Coin
  deriving DecidableEq, Repr, Inhabited

inductive Eff where
  | xfer (t : Transfer)
  | hook (idx : Nat) (name : String) (args : List String)
  deriving DecidableEq, Repr, Inhabited

inductive Err where
  | reject   -- the operation returned an error
  | panic    -- the Go code would panic
  deriving DecidableEq, Repr, Inhabited

/-- test controls (not module state): number of active listeners, a one-shot failing
    listener, a one-shot failing bank call -/
structure Control where
  listeners : Nat := 0
  failhook : Option (String × Nat) := none
  fault : Option Nat := none
  deriving DecidableEq, Repr, Inhabited

structure Ctx where
  s : Core
  ctl : Control := {}
  effs : List Eff := []
  calls : Nat := 0

structure Fail where
  err : Err
  effs : List Eff
  deriving Repr

abbrev M := Except Fail

def Ctx.fail (c : Ctx) (e : Err := .reject) : M α := .error ⟨e, c.effs⟩

/-- `if !cond { return err }` -/
def Ctx.check (c : Ctx) (cond : Bool) : M Unit :=
  if cond then .ok () else c.fail

/-! ### bank -/

def Bank.move (b : Bank) (src dst : Addr) (d : Denom) (amt : Int) : Bank :=
  fun a d' =>
    b a d' - (if a = src ∧ d' = d then amt else 0) + (if a = dst ∧ d' = d then amt else 0)

/-- x/bank `SendCoins`: fails on insufficient funds, otherwise moves every coin -/
def Bank.sendCoins (b : Bank) (src dst : Addr) : List Coin → Option Bank
  | [] => some b
  | c :: cs =>
    if b src c.denom < c.amt then none
    else (b.move src dst c.denom c.amt).sendCoins src dst cs

/-- `sdk.NewCoins(sdk.NewCoin(denom, amt))`: panics on a negative amount, drops a zero coin -/
def mkCoins (c : Ctx) (d : Denom) (amt : Int) : M (List Coin) :=
  if amt < 0 then c.fail .panic
  else if amt = 0 then .ok [] else .ok [⟨d, amt⟩]

/-- one call on the bank / distribution keeper -/
def Ctx.bankCall (c : Ctx) (k : XKind) (src dst : Addr) (coins : List Coin) : M Ctx :=
  if c.ctl.fault = some c.calls then c.fail
  else match c.s.bank.sendCoins src dst coins with
    | none => c.fail
    | some b =>
      .ok { c with s := { c.s with bank := b },
                   effs := c.effs ++ [.xfer ⟨k, src, dst, coins⟩],
                   calls := c.calls + 1 }

/-! ### hooks: `MultiFundraisingHooks` dispatch -/

def dispatchTo (name : String) (args : List String) : List Nat → Ctx → M Ctx
  | [], c => .ok c
  | i :: is, c =>
    let c' := { c with effs := c.effs ++ [.hook i name args] }
    if c.ctl.failhook = some (name, i) then c'.fail
    else dispatchTo name args is c'

/-- `k.<Hook>(…)`: every registered listener, in order, first error wins -/
def Ctx.hook (c : Ctx) (name : String) (args : List String) : M Ctx :=
  dispatchTo name args (List.range c.ctl.listeners) c

/-! ### rendering shared by hook arguments and the state dump -/

def rAddr : Addr → String
  | .user u => s!"u{u}"
  | .sell a => s!"S{a}"
  | .pay a => s!"P{a}"
  | .vest a => s!"V{a}"
  | .pool => "pool"

def rAcc (u : Acc) : String := s!"u{u}"
def rInt (i : Int) : String := toString i
def rNat (i : Nat) : String := toString i
def rBool (b : Bool) : String := if b then "1" else "0"
def rBidType : BidType → String
  | .fixed => "F" | .worth => "W" | .many => "M"
def rCoins (cs : List Coin) : List String :=
  rNat cs.length :: cs.flatMap (fun c => [rNat c.denom, rInt c.amt])
def rSchedules (vs : List VS) : List String :=
  rNat vs.length :: vs.flatMap (fun v => [rInt v.release, rInt v.weight])
def rAmtMap (m : List (Acc × Int)) : List String :=
  rNat m.length :: m.flatMap (fun p => [rAcc p.1, rInt p.2])

end Fundraising
