import Fundraising.Model.Keeper
/-
  module/genesis.go (`ExportGenesis`, `InitGenesis`) and types/genesis.go
  (`GenesisState.Validate`), and the gRPC query server (keeper/query_*.go).
-/
namespace Fundraising

structure Genesis where
  params : Params
  auctions : List Auction
  allowed : List (Nat × Allowed)       -- the record's AuctionId and the rest
  bids : List Bid
  vqs : List VQ
  deriving Repr, Inhabited

/-- `ExportGenesis`: every collection walked in key order -/
def exportGenesis (s : Core) : Genesis :=
  { params := s.params
    auctions := s.views.map (·.a)
    allowed := s.views.flatMap (fun v => v.allowed.map (fun x => (v.a.id, x)))
    bids := s.views.flatMap (·.bids)
    vqs := s.views.flatMap (·.vqs) }

def noDup {α : Type} [DecidableEq α] : List α → Bool
  | [] => true
  | x :: xs => !xs.contains x && noDup xs

/-- `BaseAuction.Validate` (the schedule is checked against the *first* end time: an
    extension may legitimately move the last end time past the first release) -/
def Auction.validate (a : Auction) : Bool :=
  validAcc a.auctioneer && decide (a.startPrice > 0)
  && validCoin a.sellDenom a.sellAmt
  && a.sellDenom != a.payDenom && validDenom a.payDenom
  && (match a.endTimes.head? with
      | some e => validSchedules a.schedules e
      | none => false)

/-- `GenesisState.Validate` -/
def validateGenesis (g : Genesis) : Bool :=
  noDup (g.allowed.map (fun p => (p.1, p.2.bidder)))
  && g.allowed.all (fun p => validAcc p.2.bidder && decide (p.2.cap > 0))
  && noDup (g.vqs.map (fun q => (q.auction, q.release)))
  && g.vqs.all (fun q => validAcc q.auctioneer && validCoin q.denom q.amt)
  && noDup (g.bids.map (fun b => (b.auction, b.id)))
  && g.bids.all (fun b => validAcc b.bidder && decide (b.price > 0) && validCoin b.denom b.amt
                          && decide (b.amt > 0))
  && noDup (g.auctions.map (·.id))
  && g.auctions.all (·.validate)
  && validCoins g.params.creationFee && validCoins g.params.bidFee

def modifyView (vs : List AView) (i : Nat) (f : AView → AView) : Option (List AView) :=
  match vs[i]? with
  | some v => some (vs.set i (f v))
  | none => none

/-- number of bids flagged matched: `InitGenesis` rebuilds `MatchedBidsLen` of a batch
    auction from the flags (it is not part of the exported genesis) -/
def countMatched (bids : List Bid) : Int := (bids.filter (·.matched)).length

/-- `InitGenesis` into an empty store; `none` = it returns an error.
    Outside the model: allowed-bidder records whose auction does not exist (Go stores
    them under a key no auction owns; an export of a reachable state has none). -/
def initGenesis (g : Genesis) : Option (List AView) := do
  -- auctions: ids re-assigned from the sequence, in list order
  let views : List AView := g.auctions.zipIdx.map (fun p => ({ a := { p.1 with id := p.2 } } : AView))
  let views ← g.allowed.foldlM (fun vs p =>
    modifyView vs p.1 (fun v => { v with allowed := setAllowed v.allowed p.2 })) views
  let views ← g.bids.foldlM (fun vs b =>
    modifyView vs b.auction (fun v =>
      let id := v.bidSeq + 1
      { v with bids := v.bids ++ [{ b with id := id }], bidSeq := id })) views
  let views ← g.vqs.foldlM (fun vs q =>
    modifyView vs q.auction (fun v => { v with vqs := setVQ v.vqs q })) views
  pure (views.map (fun v =>
    if v.a.type = .batch then { v with matchedLen := countMatched v.bids } else v))

/-- the `genesis` operation of the harness: export, validate, wipe, import -/
def reimport (s : Core) : Except String Core :=
  let g := exportGenesis s
  if !validateGenesis g then .error "validate"
  else match initGenesis g with
    | none => .error "import"
    | some views => .ok { s with views := views, params := g.params }

/-! ### queries -/

/-- `ListBid`: the bids of the auction, filtered by bidder and matched flag when given -/
def queryBids (s : Core) (aid : Nat) (bidder : Option Acc) (matched : Option Bool) : List Bid :=
  match s.views[aid]? with
  | none => []
  | some v => v.bids.filter (fun b =>
      (match bidder with | some u => b.bidder == u | none => true)
      && (match matched with | some m => b.matched == m | none => true))

/-- `ListAllowedBidder` as the code has it: the request's `auction_id` is ignored
    (known finding, see DESIGN §7) -/
def queryAllowedAll (s : Core) : List (Nat × Allowed) :=
  s.views.flatMap (fun v => v.allowed.map (fun x => (v.a.id, x)))

/-- `ListVestingQueue` as the code has it: the request's `auction_id` is ignored -/
def queryVestingsAll (s : Core) : List VQ := s.views.flatMap (·.vqs)

/-- `ListAuction` with optional status/type filters -/
def queryAuctions (s : Core) (st : Option Status) (ty : Option AType) : List Auction :=
  (s.views.map (·.a)).filter (fun a =>
    (match st with | some x => a.status == x | none => true)
    && (match ty with | some x => a.type == x | none => true))

def queryAuction (s : Core) (aid : Nat) : Option Auction := (s.views[aid]?).map (·.a)
def queryBid (s : Core) (aid bidId : Nat) : Option Bid :=
  (s.views[aid]?).bind (fun v => v.bids.find? (·.id == bidId))
def queryAllowedOne (s : Core) (aid : Nat) (u : Acc) : Option Allowed :=
  (s.views[aid]?).bind (fun v => lookupAllowed v.allowed u)

end Fundraising
