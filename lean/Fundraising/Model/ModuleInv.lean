import Fundraising.Model.Match
/-
  The module's OWN invariants (keeper/invariants.go; `keeper.RegisterInvariants` would register them
  with the crisis module — `AppModule.RegisterInvariants` is empty, so only the simulation and the
  harness run them):
  `SellingPoolReserveAmountInvariant`, `PayingPoolReserveAmountInvariant`,
  `VestingPoolReserveAmountInvariant`, and `AllInvariants` (the first that is broken).

  Each walks every auction and compares the balance of one of its reserve accounts, in one
  denomination, with an amount computed from the records.  The functions below are what the Go
  functions compute (the `broken` flag; the text of the report is not modelled); the translated
  Go functions are proved equal to them in Proofs/Tie/Invariants.lean, the harness prints the
  flags the REAL functions return after every operation (`I` line of the state dump), and
  Props/C01 proves that no reachable state breaks any of them.
-/
namespace Fundraising

/-- `SellingPoolReserveAmountInvariant`, one auction: while it is STARTED the selling reserve
    holds at least the offered coin -/
def sellingInvHolds (s : Core) (v : AView) : Bool :=
  !(decide (v.a.status = .started)) || decide (v.a.sellAmt ≤ s.bank (.sell v.a.id) v.a.sellDenom)

/-- what `PayingPoolReserveAmountInvariant` adds up: the paying amounts of all bids while STARTED -/
def invTotalBid (v : AView) : Int :=
  if v.a.status = .started then (v.bids.map (·.toPaying v.a.payDenom)).sum else 0

def payingInvHolds (s : Core) (v : AView) : Bool :=
  decide (invTotalBid v ≤ s.bank (.pay v.a.id) v.a.payDenom)

/-- what `VestingPoolReserveAmountInvariant` adds up: the unreleased instalments while VESTING -/
def invTotalVesting (v : AView) : Int :=
  if v.a.status = .vesting then ((v.vqs.filter (fun q => !q.released)).map (·.amt)).sum else 0

def vestingInvHolds (s : Core) (v : AView) : Bool :=
  decide (invTotalVesting v ≤ s.bank (.vest v.a.id) v.a.payDenom)

def sellingInvBroken (s : Core) : Bool := s.views.any (fun v => !sellingInvHolds s v)
def payingInvBroken (s : Core) : Bool := s.views.any (fun v => !payingInvHolds s v)
def vestingInvBroken (s : Core) : Bool := s.views.any (fun v => !vestingInvHolds s v)

/-- `AllInvariants(k)(ctx)`: broken iff one of the three is -/
def allInvariantsBroken (s : Core) : Bool :=
  sellingInvBroken s || payingInvBroken s || vestingInvBroken s

end Fundraising
