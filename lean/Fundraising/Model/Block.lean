import Fundraising.Model.Keeper
/-
  keeper/abci.go (BeginBlocker), keeper/execution.go, the settlement half of
  keeper/auction.go (AllocateSellingCoin, RefundRemainingSellingCoin, RefundPayingCoin,
  ExtendRound, CloseFixedPriceAuction, CloseBatchAuction, ReleaseVestingPayingCoin) and
  keeper/vesting.go (ApplyVestingSchedules).
-/
namespace Fundraising

/-- `AllocateSellingCoin`: hook, then one `InputOutputCoins` per bidder with a non-zero
    allocation, in ascending bidder order (the sorted order the code computes) -/
def payOut (c : Ctx) (src : Addr) (d : Denom) : List (Acc × Int) → M Ctx
  | [] => pure c
  | (u, amt) :: rest =>
    if amt = 0 then payOut c src d rest
    else do
      let coins ← mkCoins c d amt
      let c ← c.bankCall .io src (.user u) coins
      payOut c src d rest

def allocateSellingCoin (c : Ctx) (a : Auction) (mi : MInfo) : M Ctx := do
  let c ← c.hook "BeforeSellingCoinsAllocated" ([rNat a.id] ++ rAmtMap mi.alloc ++ rAmtMap mi.refund)
  payOut c (.sell a.id) a.sellDenom mi.alloc

/-- `RefundRemainingSellingCoin`: everything spendable in the selling escrow (selling
    denom) goes to the auctioneer -/
def refundRemainingSellingCoin (c : Ctx) (a : Auction) : M Ctx := do
  let coins ← mkCoins c a.sellDenom (c.bal (.sell a.id) a.sellDenom)
  c.bankCall .send (.sell a.id) (.user a.auctioneer) coins

/-- `RefundPayingCoin` -/
def refundPayingCoin (c : Ctx) (a : Auction) (mi : MInfo) : M Ctx :=
  payOut c (.pay a.id) a.payDenom mi.refund

/-- the instalments of `ApplyVestingSchedules`: weight share truncated, the last one
    takes the remainder; `none` = a negative `sdk.Coin` (Go panics) -/
def splitLoop (reserve : Int) : List VS → Int → Option (List (Int × Int))
  | [], _ => some []
  | [s], rem => if rem < 0 then none else some [(s.release, rem)]
  | s :: s' :: rest, rem =>
    let amt := Dec.truncInt (Dec.mulTrunc (Dec.ofInt reserve) s.weight)
    if amt < 0 then none
    else if rem - amt < 0 then none
    else (splitLoop reserve (s' :: rest) (rem - amt)).map ((s.release, amt) :: ·)

/-- `ApplyVestingSchedules` -/
def applyVestingSchedules (c : Ctx) (aid : Nat) : M Ctx := do
  let v ← c.view aid
  let a := v.a
  let reserve := c.bal (.pay aid) a.payDenom
  let coins ← mkCoins c a.payDenom reserve
  if a.schedules.isEmpty then do
    let c ← c.bankCall .send (.pay aid) (.user a.auctioneer) coins
    pure (c.setView aid { v with a := { a with status := .finished } })
  else do
    let c ← c.bankCall .send (.pay aid) (.vest aid) coins
    match splitLoop reserve a.schedules reserve with
    | none => c.fail .panic
    | some parts =>
      let vqs := parts.foldl (fun l p =>
        setVQ l { auction := aid, release := p.1, auctioneer := a.auctioneer,
                  denom := a.payDenom, amt := p.2, released := false }) v.vqs
      pure (c.setView aid { v with a := { a with status := .vesting }, vqs := vqs })

/-- `CloseFixedPriceAuction` -/
def closeFixed (c : Ctx) (aid : Nat) : M Ctx := do
  let v ← c.view aid
  let mi := calcFixed v.a v.bids
  let c ← allocateSellingCoin c v.a mi
  let c ← refundRemainingSellingCoin c v.a
  applyVestingSchedules c aid

/-- `ExtendRound` -/
def extendRound (c : Ctx) (aid : Nat) : M Ctx := do
  let v ← c.view aid
  let next := v.a.lastEnd + 86400 * (c.s.params.period : Int)
  pure (c.setView aid { v with a := { v.a with endTimes := v.a.endTimes ++ [next] } })

/-- the three steps shared by both settling branches of `CloseBatchAuction`, then the
    published matched price (fix for C16), then `ApplyVestingSchedules` -/
def settleBatch (c : Ctx) (aid : Nat) (mi : MInfo) : M Ctx := do
  let v ← c.view aid
  let c ← allocateSellingCoin c v.a mi
  let c ← refundRemainingSellingCoin c v.a
  let c ← refundPayingCoin c v.a mi
  let v ← c.view aid
  let c := c.setView aid { v with a := { v.a with matchedPrice := if mi.total > 0 then mi.price else 0 } }
  applyVestingSchedules c aid

/-- the extension rule: `1 − Quo(curr, last) ≥ rate` in `LegacyDec` arithmetic -/
def shouldExtend (curr last : Int) (rate : Dec) : Bool :=
  decide (Dec.sub Dec.one (Dec.quo (Dec.ofInt curr) (Dec.ofInt last)) ≥ rate)

/-- `CloseBatchAuction` -/
def closeBatch (c : Ctx) (aid : Nat) : M Ctx := do
  let v ← c.view aid
  let last := v.matchedLen                                      -- GetLastMatchedBidsLen
  let mi ← match calcBatch v.a v.bids v.allowed with
    | some mi => pure mi
    | none => c.fail .panic
  -- store writes of CalculateBatchAllocation: matched flags, MatchedBidsLen
  let bids' := v.bids.map (fun b => { b with matched := mi.matchedIds.contains b.id })
  let c := c.setView aid { v with bids := bids', matchedLen := mi.matchedLen }
  if v.a.maxExt + 1 = v.a.endTimes.length then settleBatch c aid mi
  else if last = 0 then extendRound c aid
  else if shouldExtend mi.matchedLen last v.a.rate then extendRound c aid
  else settleBatch c aid mi

/-- `ReleaseVestingPayingCoin` over the snapshot of the auction's vesting queues -/
def releaseLoop (c : Ctx) (aid : Nat) (auctioneer : Acc) (n : Nat) : Nat → List VQ → M Ctx
  | _, [] => pure c
  | i, q :: rest =>
    if q.release ≤ c.s.now ∧ !q.released then do
      let coins ← mkCoins c q.denom q.amt
      let c ← c.bankCall .send (.vest aid) (.user auctioneer) coins
      let v ← c.view aid
      let c := c.setView aid { v with vqs := setVQ v.vqs { q with released := true } }
      let c ←
        if i + 1 = n then do
          let v ← c.view aid
          pure (c.setView aid { v with a := { v.a with status := .finished } })
        else pure c
      releaseLoop c aid auctioneer n (i + 1) rest
    else releaseLoop c aid auctioneer n (i + 1) rest

def releaseVesting (c : Ctx) (aid : Nat) : M Ctx := do
  let v ← c.view aid
  releaseLoop c aid v.a.auctioneer v.vqs.length 0 v.vqs

/-- one iteration of the `BeginBlocker` loop: dispatch on the auction's status -/
def blockStep (c : Ctx) (aid : Nat) : M Ctx := do
  let v ← c.view aid
  match v.a.status with
  | .standby =>
    if v.a.startTime ≤ c.s.now then
      pure (c.setView aid { v with a := { v.a with status := .started } })
    else pure c
  | .started =>
    match v.a.endTimes.getLast? with
    | none => c.fail .panic                                    -- `ts[len(ts)-1]` on an empty slice
    | some e =>
      if e ≤ c.s.now then
        match v.a.type with
        | .fixed => closeFixed c aid
        | .batch => closeBatch c aid
      else pure c
  | .vesting => releaseVesting c aid
  | .finished => pure c
  | .cancelled => pure c

def blockLoop (c : Ctx) : List Nat → M Ctx
  | [] => pure c
  | aid :: rest => do
    let c ← blockStep c aid
    blockLoop c rest

/-- `BeginBlocker` at block time `t` -/
def beginBlock (c : Ctx) (t : Int) : M Ctx :=
  let c := { c with s := { c.s with now := t } }
  blockLoop c (List.range c.s.views.length)

end Fundraising
