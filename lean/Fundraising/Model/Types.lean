import Fundraising.Model.Dec
/-
  Data of x/fundraising, as plain structures.

  * accounts are numbered (`Nat`); index 900 is the module authority, 901 stands for
    a syntactically invalid address string, everything < 900 is an ordinary user.
  * denominations are numbered; 99 stands for a syntactically invalid denom string.
  * times are integers (unix seconds); `AddDate(0,0,d)` in UTC is `+ 86400·d`.
  * the store: the collections keyed by `(auctionId, x)` are kept per auction in
    `AView` (key prefix = auction id, which is how `collections.Pair` keys are laid out
    and how the code reads them: prefix ranges); `views[i]` is auction `i`
    (ids are handed out by a `collections.Sequence` from 0 and auctions are never
    deleted, so `AuctionSeq = views.length`).
-/
namespace Fundraising

abbrev Denom := Nat
abbrev Acc := Nat

def AUTHORITY : Acc := 900
def validAcc (u : Acc) : Bool := u ≤ 900
def validDenom (d : Denom) : Bool := d < 90

/-- bank addresses: users, the three escrows of an auction, the community pool -/
inductive Addr where
  | user (u : Acc)
  | sell (a : Nat)
  | pay (a : Nat)
  | vest (a : Nat)
  | pool
  deriving DecidableEq, Repr, Inhabited

structure Coin where
  denom : Denom
  amt : Int
  deriving DecidableEq, Repr, Inhabited

inductive Status where
  | standby | started | vesting | finished | cancelled
  deriving DecidableEq, Repr, Inhabited

inductive AType where
  | fixed | batch
  deriving DecidableEq, Repr, Inhabited

inductive BidType where
  | fixed | worth | many
  deriving DecidableEq, Repr, Inhabited

structure VS where
  release : Int
  weight : Dec
  deriving DecidableEq, Repr, Inhabited

/-- `BaseAuction` + the fields of `FixedPriceAuction` (`remaining`) and of
    `BatchAuction` (`minBid … rate`) in one record; `type` says which are meaningful.
    The three reserve addresses are functions of `id` and are not stored. -/
structure Auction where
  id : Nat
  type : AType
  auctioneer : Acc
  sellDenom : Denom
  sellAmt : Int
  payDenom : Denom
  startPrice : Dec
  startTime : Int
  endTimes : List Int
  schedules : List VS
  status : Status
  remaining : Int := 0
  minBid : Dec := 0
  matchedPrice : Dec := 0
  maxExt : Nat := 0
  rate : Dec := 0
  deriving DecidableEq, Repr, Inhabited

structure Bid where
  auction : Nat
  id : Nat
  bidder : Acc
  type : BidType
  price : Dec
  denom : Denom
  amt : Int
  matched : Bool
  deriving DecidableEq, Repr, Inhabited

structure Allowed where
  bidder : Acc
  cap : Int
  deriving DecidableEq, Repr, Inhabited

structure VQ where
  auction : Nat
  release : Int
  auctioneer : Acc
  denom : Denom
  amt : Int
  released : Bool
  deriving DecidableEq, Repr, Inhabited

structure Params where
  creationFee : List Coin
  bidFee : List Coin
  period : Nat
  deriving DecidableEq, Repr, Inhabited

def Params.default : Params :=
  { creationFee := [⟨5, 100000000⟩], bidFee := [], period := 1 }

/-- everything the store holds under the key prefix of one auction -/
structure AView where
  a : Auction
  allowed : List Allowed := []     -- AllowedBidder[(id, ·)], kept sorted by bidder
  bids : List Bid := []            -- Bid[(id, ·)], in bid-id order
  vqs : List VQ := []              -- VestingQueue[(id, ·)], kept sorted by release time
  matchedLen : Int := 0            -- MatchedBidsLen[id] (absent = 0)
  bidSeq : Nat := 0                -- BidSeq[id] (absent = 0)
  deriving Repr, Inhabited

abbrev Bank := Addr → Denom → Int

/-- module + bank state -/
structure Core where
  params : Params := Params.default
  views : List AView := []
  bank : Bank := fun _ _ => 0
  now : Int := 1700000000
  /-- `keeper.EnableAddAllowedBidder` as the running binary sees it -/
  enableAdd : Bool := false
  deriving Inhabited

def Status.code : Status → Nat
  | .standby => 1 | .started => 2 | .vesting => 3 | .finished => 4 | .cancelled => 5

/-- rank used by the lifecycle theorems: standby < started < vesting < finished -/
def Status.rank : Status → Nat
  | .standby => 0 | .started => 1 | .vesting => 2 | .finished => 3 | .cancelled => 3

def Auction.lastEnd (a : Auction) : Int := a.endTimes.getLast?.getD 0

/-- association-list update for the key-ordered per-auction collections -/
def upsertBy {α : Type} (key : α → Int) (x : α) : List α → List α
  | [] => [x]
  | y :: ys =>
    if key x < key y then x :: y :: ys
    else if key x = key y then x :: ys
    else y :: upsertBy key x ys

/-- `VestingQueue.Set(Join(auction, releaseTime), q)` inside one auction's prefix -/
def setVQ (l : List VQ) (q : VQ) : List VQ := upsertBy (·.release) q l

def lookupAllowed (l : List Allowed) (u : Acc) : Option Allowed := l.find? (·.bidder == u)

end Fundraising
