/-
  Model of cosmossdk.io/math v1.3.0 `LegacyDec` (18 decimals) as a raw integer.

  A `LegacyDec` with value v is represented by the integer `v·10^18` (its `d.i`).
  Every function below is written the way dec.go computes it (big.Int `Quo`/`QuoRem`
  truncate towards zero = `Int.tdiv`/`Int.tmod`); closed forms are *lemmas* in
  `Proofs/DecLemmas.lean`, not definitions.

  Not modelled: the 256-bit (`Int`) and 315-bit (`LegacyDec`) caps (Go panics above
  them).  Division by zero: Go panics; callers only divide by validated positive
  prices (`ValidateBasic`: price > 0) – stated as hypotheses where it matters.
-/
namespace Fundraising

abbrev Dec := Int

/-- `precisionReuse` = 10^18 -/
def PREC : Int := 1000000000000000000
/-- `fivePrecision` = 5·10^17 -/
def HALF : Int := 500000000000000000

namespace Dec

def one : Dec := PREC

/-- `LegacyNewDecFromInt` / `LegacyNewDec` -/
def ofInt (i : Int) : Dec := i * PREC

/-- `chopPrecisionAndRound` on a non-negative argument: banker's rounding -/
def chopRoundNonneg (d : Int) : Int :=
  let quo := Int.tdiv d PREC
  let rem := Int.tmod d PREC
  if rem = 0 then quo
  else if rem < HALF then quo
  else if rem > HALF then quo + 1
  else if quo % 2 = 0 then quo else quo + 1

/-- `chopPrecisionAndRound` -/
def chopRound (d : Int) : Int :=
  if d < 0 then - chopRoundNonneg (-d) else chopRoundNonneg d

/-- `chopPrecisionAndTruncate` -/
def chopTrunc (d : Int) : Int := Int.tdiv d PREC

/-- `LegacyDec.Mul` -/
def mul (a b : Dec) : Dec := chopRound (a * b)
/-- `LegacyDec.MulTruncate` -/
def mulTrunc (a b : Dec) : Dec := chopTrunc (a * b)
/-- `LegacyDec.Quo` (double rounding: truncating big.Int quotient, then banker's chop) -/
def quo (a b : Dec) : Dec := chopRound (Int.tdiv (a * (PREC * PREC)) b)
/-- `LegacyDec.QuoTruncate` -/
def quoTrunc (a b : Dec) : Dec := chopTrunc (Int.tdiv (a * (PREC * PREC)) b)
/-- `LegacyDec.MulInt` (exact) -/
def mulInt (a : Dec) (i : Int) : Dec := a * i
/-- `LegacyDec.Ceil` -/
def ceil (d : Dec) : Dec :=
  let quo := Int.tdiv d PREC
  let rem := Int.tmod d PREC
  if rem = 0 then quo * PREC
  else if rem < 0 then quo * PREC
  else (quo + 1) * PREC
/-- `LegacyDec.TruncateInt` -/
def truncInt (d : Dec) : Int := Int.tdiv d PREC
/-- `LegacyDec.Sub` -/
def sub (a b : Dec) : Dec := a - b

end Dec
end Fundraising
