import Fundraising.Model.Block
import Fundraising.Model.Genesis
import Fundraising.Model.ModuleInv
/-
  The operations of the system as one step function: delivered messages (at the
  transaction boundary), keeper-API calls by other modules, blocks, genesis
  export/import, bank operations by third parties, and the harness's test controls.
-/
namespace Fundraising

structure State where
  core : Core := {}
  ctl : Control := {}
  deriving Inhabited

inductive Query where
  | bids (aid : Nat) (bidder : Option Acc) (matched : Option Bool)
  | allowed (aid : Nat)
  | vestings (aid : Nat)
  | auctions (st : Option Status) (ty : Option AType)
  | auction (aid : Nat)
  | bid (aid bidId : Nat)
  | allowedOne (aid : Nat) (u : Acc)
  deriving Repr, Inhabited

inductive Op where
  | reset
  | fund (u : Acc) (d : Denom) (amt : Int)
  | gift (src : Acc) (dst : Addr) (d : Denom) (amt : Int)
  | msg (m : Msg)
  | kadd (aid : Nat) (abs : List AllowedArg)
  | kupd (aid : Nat) (bidder : Acc) (cap : Int)
  | block (t : Int)
  | genesis
  | listeners (n : Nat)
  | failhook (name : String) (idx : Nat)
  | fault (k : Nat)
  | query (q : Query)
  deriving Repr, Inhabited

inductive Res where
  | ok
  | err
  | panic
  | errWith (what : String)
  deriving DecidableEq, Repr, Inhabited

structure Outcome where
  res : Res
  effs : List Eff := []
  deriving Repr, Inhabited

def Eff.isHook : Eff → Bool
  | .hook .. => true
  | .xfer .. => false

def clearOneShots (ctl : Control) : Control := { ctl with failhook := none, fault := none }

/-- run a module operation atomically: commit on success, discard on error (the hook
    calls already made stay visible); `recover` = baseapp's panic recovery in `runTx` -/
def runAtomic (st : State) (recover : Bool) (f : Ctx → M Ctx) : Outcome × State :=
  match f { s := st.core, ctl := st.ctl } with
  | .ok c => ({ res := .ok, effs := c.effs }, { core := c.s, ctl := clearOneShots st.ctl })
  | .error e =>
    ({ res := if e.err = .panic ∧ !recover then .panic else .err, effs := e.effs.filter Eff.isHook },
     { core := st.core, ctl := clearOneShots st.ctl })

def step (st : State) : Op → Outcome × State
  | .reset => ({ res := .ok }, {})
  | .fund u d amt =>
    -- a mint of a non-positive amount is refused by x/bank: nothing happens
    let bank : Bank := fun a d' =>
      st.core.bank a d' + (if a = .user u ∧ d' = d ∧ 0 < amt then amt else 0)
    ({ res := .ok }, { st with core := { st.core with bank := bank } })
  | .gift src dst d amt =>
    -- x/bank rejects non-positive amounts
    if amt ≤ 0 then ({ res := .err }, st)
    else match st.core.bank.sendCoins (.user src) dst [⟨d, amt⟩] with
    | some b => ({ res := .ok }, { st with core := { st.core with bank := b } })
    | none => ({ res := .err }, st)
  | .msg m => runAtomic st true (fun c => deliver c m)
  | .kadd aid abs => runAtomic st true (fun c => addAllowedBidders c aid abs)
  | .kupd aid u cap => runAtomic st true (fun c => updateAllowedBidder c aid u cap)
  | .block t =>
    let st := { st with core := { st.core with now := t } }
    runAtomic st false (fun c => beginBlock c t)
  | .genesis =>
    match reimport st.core with
    | .ok core => ({ res := .ok }, { st with core := core })
    | .error what => ({ res := .errWith what }, st)
  | .listeners n => ({ res := .ok }, { st with ctl := { st.ctl with listeners := n } })
  | .failhook name idx => ({ res := .ok }, { st with ctl := { st.ctl with failhook := some (name, idx) } })
  | .fault k => ({ res := .ok }, { st with ctl := { st.ctl with fault := some k } })
  | .query _ => ({ res := .ok }, st)

/-- run a history -/
def run (st : State) (ops : List Op) : State := ops.foldl (fun s op => (step s op).2) st

end Fundraising
