import Fundraising.Proofs.FrameProofs
import Fundraising.Proofs.ProgressProofs
import Fundraising.Proofs.WFProofs
/-
  C08 — Auctions move only forward through their lifecycle, at the right block.
  Reading R1 (DESIGN §5): `BeginBlocker` dispatches on the status an auction has at the start
  of the block, so one lifecycle stage is taken per block.
-/
namespace Fundraising

/-- **only forward**: in every reachable state, every operation (any message, keeper call,
    block, genesis round trip, failed operation) moves every existing auction along
    waiting → open → (vesting →) finished or waiting → cancelled, or leaves it where it is;
    finished and cancelled are permanent (`statusEdge` has no edge out of them) -/
theorem C08_status_only_forward (st : State) (h : Reach st) (op : Op) (hop : op ≠ .reset)
    (i : Nat) (v : AView) (hv : st.core.views[i]? = some v) :
    ∃ v', (step st op).2.core.views[i]? = some v' ∧ statusEdge v.a.status v'.a.status = true := by
  obtain ⟨v', h1, h2⟩ := view_step st op hop (wf_reach st h) i v hv
  exact ⟨v', h1, h2.status⟩

theorem C08_terminal_is_permanent (s : Status) (h : s = .finished ∨ s = .cancelled) (s' : Status)
    (he : statusEdge s s' = true) : s' = s := by
  rcases h with rfl | rfl <;> cases s' <;> simp [statusEdge] at he ⊢

/-- **opens at the first block at or after its start time** (and not before) -/
theorem C08_opens_at (st : State) (t : Int) (hok : (step st (.block t)).1.res = .ok)
    (i : Nat) (v v' : AView) (hv : st.core.views[i]? = some v)
    (hv' : (step st (.block t)).2.core.views[i]? = some v') (hs : v.a.status = .standby) :
    (v.a.startTime ≤ t → v'.a.status = .started) ∧ (t < v.a.startTime → v' = v) := by
  obtain ⟨h1, h2⟩ := block_opens st t hok i v v' hv hv' hs
  exact ⟨fun h => by rw [h1 h], h2⟩

/-- **at creation if that time has already passed** -/
theorem C08_created_open_iff_started (st : State) (m : CreateMsg)
    (hok : (step st (.msg (.create m))).1.res = .ok) :
    ∃ v, (step st (.msg (.create m))).2.core.views[st.core.views.length]? = some v ∧
      v.a.status = (if m.startTime ≤ st.core.now then .started else .standby) := by
  obtain ⟨v, h1, h2, _⟩ := create_status st m hok
  exact ⟨v, h1, h2⟩

/-- **settles (or takes an extended round) at the first block at or after its current end
    time**, untouched before it -/
theorem C08_settles_at (st : State) (t : Int) (hok : (step st (.block t)).1.res = .ok)
    (i : Nat) (v v' : AView) (hv : st.core.views[i]? = some v)
    (hv' : (step st (.block t)).2.core.views[i]? = some v') (hs : v.a.status = .started) :
    (v.a.lastEnd ≤ t →
      (v'.a.status = .vesting ∨ v'.a.status = .finished) ∨
      (v'.a.status = .started ∧ v.a.type = .batch ∧ v'.a.endTimes.length = v.a.endTimes.length + 1)) ∧
    (t < v.a.lastEnd → v' = v) :=
  block_closes st t hok i v v' hv hv' hs

/-- **finishes when its last instalment is released** -/
theorem C08_finishes_with_last_release (st : State) (h : Reach st) (t : Int)
    (hok : (step st (.block t)).1.res = .ok)
    (i : Nat) (v v' : AView) (hv : st.core.views[i]? = some v)
    (hv' : (step st (.block t)).2.core.views[i]? = some v') (hs : v.a.status = .vesting) :
    (v'.a.status = .finished ↔ ∃ q, v.vqs.getLast? = some q ∧ q.release ≤ t ∧ q.released = false) ∧
    (v'.a.status = .finished ∨ v'.a.status = .vesting) := by
  have hw := (wf_reach st h).views i v hv
  have hsorted : (v.vqs.map (·.release)).Pairwise (· < ·) := by
    rw [hw.vqsSome (Or.inl hs)]
    by_cases hne : v.a.schedules = []
    · simp [hne]
    · exact (validSchedules_spec _ _ hne hw.auction.sched).2.2
  obtain ⟨_, _, h3, h4⟩ := block_releases st t hok i v v' hv hv' hs hsorted
  exact ⟨h3, h4⟩

/-- **bids and modifications are accepted only while the auction is open** -/
theorem C08_bids_only_while_open (st : State) (h : Reach st) (op : Op) (hop : op ≠ .reset)
    (i : Nat) (v v' : AView) (hv : st.core.views[i]? = some v)
    (hv' : (step st op).2.core.views[i]? = some v') :
    (v.bids.length < v'.bids.length → v.a.status = .started) ∧
    (∀ b ∈ v.bids, ∀ b' ∈ v'.bids, b'.id = b.id → (b'.price ≠ b.price ∨ b'.amt ≠ b.amt) →
        v.a.status = .started) := by
  obtain ⟨h1, h2⟩ := bids_change_only_by_owner st op hop (wf_reach st h) i v v' hv hv'
  exact ⟨fun hl => (h2 hl).1, fun b hb b' hb' hid hne => (h1 b hb b' hb' hid hne).1⟩

end Fundraising
