import Fundraising.Spec.Clearing
import Fundraising.Proofs.MatchLemmas
/-
  C03 — Batch clearing price is the lowest bid price whose capped demand fits supply.

  Property theorems only (helper lemmas live in Proofs/MatchLemmas.lean).  They are
  stated for EVERY arrangement of the bids that is a permutation sorted by price,
  descending (`Arrangement`): Go's `sort.Slice` with the module's non-strict comparator
  fixes the order inside one price level only up to implementation, so nothing may
  depend on it.  `calcBatch` (the executable model) uses one such arrangement
  (`sortBids_arrangement`).
-/
namespace Fundraising

/-- the arrangement the executable model uses is admissible -/
theorem C03_sortBids_admissible (bids : List Bid) : Arrangement bids (sortBids bids) :=
  sortBids_arrangement bids

/-- at every positive price the sweep succeeds exactly when capped demand fits the supply,
    whatever the order inside the price levels -/
theorem C03_fits_iff (a : Auction) (bids sorted : List Bid) (allowed : List Allowed) (p : Dec)
    (hw : BookWF a bids allowed) (hs : Arrangement bids sorted) (hp : 0 < p) :
    (∃ acc, matchAt p sorted a.sellAmt allowed = .fit acc) ↔ demand bids allowed p ≤ a.sellAmt :=
  matchAt_fits_iff a bids sorted allowed p hw hs hp

/-- capped demand can only fall when the price rises (what makes binary search sound) -/
theorem C03_demand_antitone (a : Auction) (bids : List Bid) (allowed : List Allowed) (p q : Dec)
    (hw : BookWF a bids allowed) (hp : 0 < p) (hpq : p ≤ q) :
    demand bids allowed q ≤ demand bids allowed p :=
  demand_antitone a bids allowed p q hw hp hpq

/-- every order book either has a clearing price or no price fits -/
theorem C03_cases (bids : List Bid) (allowed : List Allowed) (S : Int) :
    NoPriceFits bids allowed S ∨ ∃ p, IsClearingPrice bids allowed S p :=
  clearing_cases bids allowed S

/-- **C03.**  The settlement computation never panics on a well-formed book and
    * if no recorded price fits: nothing is sold, everything is refunded;
    * otherwise the matched price is the lowest fitting recorded price, the amount sold
      is the capped demand at that price, every bidder is allocated exactly their capped
      demand, and if that demand is zero everything is refunded. -/
theorem C03_clearing (a : Auction) (bids sorted : List Bid) (allowed : List Allowed)
    (hw : BookWF a bids allowed) (hs : Arrangement bids sorted) :
    ∃ mi, calcBatchWith sorted a bids allowed = some mi ∧
      (NoPriceFits bids allowed a.sellAmt →
          mi.total = 0 ∧ mi.matchedLen = 0 ∧
          ∀ u ∈ biddersOf bids, lookupAmt mi.alloc u = 0 ∧
            lookupAmt mi.refund u = reservedOf bids a.payDenom u) ∧
      (∀ p, IsClearingPrice bids allowed a.sellAmt p →
          mi.price = p ∧ mi.total = demand bids allowed p ∧
          (∀ u ∈ biddersOf bids, lookupAmt mi.alloc u = cappedDemand bids allowed u p) ∧
          (demand bids allowed p = 0 →
            ∀ u ∈ biddersOf bids, lookupAmt mi.refund u = reservedOf bids a.payDenom u)) :=
  calcBatchWith_spec a bids sorted allowed hw hs

/-- the executable model's instance -/
theorem C03_clearing_model (a : Auction) (bids : List Bid) (allowed : List Allowed)
    (hw : BookWF a bids allowed) :
    ∃ mi, calcBatch a bids allowed = some mi ∧
      (NoPriceFits bids allowed a.sellAmt → mi.total = 0) ∧
      (∀ p, IsClearingPrice bids allowed a.sellAmt p →
          mi.price = p ∧ mi.total = demand bids allowed p ∧
          ∀ u ∈ biddersOf bids, lookupAmt mi.alloc u = cappedDemand bids allowed u p) := by
  obtain ⟨mi, h1, h2, h3⟩ := C03_clearing a bids (sortBids bids) allowed hw (sortBids_arrangement bids)
  exact ⟨mi, h1, fun h => (h2 h).1, fun p hp => ⟨(h3 p hp).1, (h3 p hp).2.1, (h3 p hp).2.2.1⟩⟩

/-! ### non-vacuity: a concrete book meets the hypotheses, and the regression witness of
    the defect repaired by the `fix:` commit (dust bid on top of the book) now clears -/

def exAuction : Auction :=
  { id := 0, type := .batch, auctioneer := 0, sellDenom := 0, sellAmt := 1000, payDenom := 1,
    startPrice := PREC, startTime := 0, endTimes := [10], schedules := [], status := .started,
    minBid := 1, maxExt := 0, rate := PREC }
def exAllowed : List Allowed := [⟨1, 1000⟩, ⟨2, 1000⟩]
/-- worth bid of 1 coin at price 10 (converts to 0 coins) above a 100-coin bid at price 5 -/
def exBids : List Bid :=
  [ { auction := 0, id := 1, bidder := 1, type := .worth, price := 10 * PREC, denom := 1, amt := 1, matched := false },
    { auction := 0, id := 2, bidder := 2, type := .many, price := 5 * PREC, denom := 0, amt := 100, matched := false } ]

example : BookWF exAuction exBids exAllowed := by
  constructor <;> simp [exBids, exAllowed, exAuction, lookupAllowed, PREC] <;> decide

example : (calcBatch exAuction exBids exAllowed).map (fun mi => (mi.price, mi.total, mi.alloc)) =
    some (5 * PREC, 100, [(1, 0), (2, 100)]) := by decide

end Fundraising
