import Fundraising.Proofs.MatchLemmas
import Fundraising.Proofs.ProgressProofs
import Fundraising.Proofs.AcceptProofs
import Fundraising.Proofs.WFProofs
/-
  C05 — Nobody receives more than their allowance, their request, or the supply.
-/
namespace Fundraising

/-- **batch**: for the settlement computation on any well-formed book (every arrangement Go's
    sort may produce): total sold ≤ offered amount, and every bidder's allocation is within the
    maximum bid amount the allow-list grants them AS OF SETTLEMENT (`allowed` is the list read
    at settlement) and within what their bids ask for at the clearing price -/
theorem C05_batch_bounds (a : Auction) (bids sorted : List Bid) (allowed : List Allowed) (mi : MInfo)
    (hw : BookWF a bids allowed) (hs : Arrangement bids sorted)
    (h : calcBatchWith sorted a bids allowed = some mi) :
    0 ≤ mi.total ∧ mi.total ≤ a.sellAmt ∧
    mi.total = ((biddersOf bids).map (lookupAmt mi.alloc)).sum ∧
    ∀ u ∈ biddersOf bids,
      0 ≤ lookupAmt mi.alloc u ∧ lookupAmt mi.alloc u ≤ capOf allowed u ∧
      lookupAmt mi.alloc u ≤ rawDemand bids u mi.price := by
  obtain ⟨h1, h2, h3, _, _, hb⟩ := calcBatchWith_bounds a bids sorted allowed mi hw hs h
  exact ⟨h1, h2, h3, fun u hu => let ⟨a1, a2, a3, _⟩ := hb u hu; ⟨a1, a2, a3⟩⟩

/-- what is computed is what is transferred: the coins leaving the selling escrow at a batch
    settlement are exactly the non-zero allocations, one transfer per bidder, then the unsold
    rest to the auctioneer -/
theorem C05_batch_transfers_are_allocations (st : State) (h : Reach st) (t : Int)
    (hok : (step st (.block t)).1.res = .ok)
    (i : Nat) (v v' : AView) (mi : MInfo) (hv : st.core.views[i]? = some v)
    (hv' : (step st (.block t)).2.core.views[i]? = some v')
    (hs : v.a.status = .started) (hty : v.a.type = .batch)
    (hmi : calcBatch v.a v.bids v.allowed = some mi) (hsettled : v'.a.status ≠ .started) :
    ∃ rest,
      (xfersOf (step st (.block t)).1.effs).filter (fun x => x.src = .sell i) =
        ((mi.alloc.filter (fun p => p.2 ≠ 0)).map
            (fun p => (⟨.io, .sell i, .user p.1, [⟨v.a.sellDenom, p.2⟩]⟩ : Transfer)))
        ++ [⟨.send, .sell i, .user v.a.auctioneer, rest⟩] := by
  have hids : ∀ (j : Nat) (w : AView), st.core.views[j]? = some w → w.a.id = j :=
    fun j w hw => ((wf_reach st h).views j w hw).id
  obtain ⟨rest, proceeds, heq, hsrc, _⟩ :=
    batch_settlement_transfers st t hok i v v' mi hv hv' hs hty hids hmi hsettled
  refine ⟨rest, ?_⟩
  have := congrArg (List.filter (fun x : Transfer => decide (x.src = .sell i))) heq
  rw [List.filter_filter] at this
  have e : (xfersOf (step st (.block t)).1.effs).filter (fun x => decide (x.src = .sell i)) =
      (xfersOf (step st (.block t)).1.effs).filter
        (fun x => decide (x.src = .sell i) && decide (x.src = .sell i ∨ x.src = .pay i)) := by
    apply List.filter_congr; intro x _; by_cases hx : x.src = .sell i <;> simp [hx]
  rw [e, this]
  simp [List.filter_append, List.filter_map, Function.comp_def, hsrc]

/-- **fixed price**: a bid is accepted only if the bidder's cumulative quantity incl. this
    bid is within the allowance AT THAT MOMENT and within the unsold remainder (so the total
    distributed never exceeds the offered amount); what each bidder receives at the close is
    the sum of their accepted bids -/
theorem C05_fixed_acceptance_within_allowance (st : State) (h : Reach st) (bidder : Acc) (aid : Nat)
    (price : Dec) (denom : Denom) (amt : Int)
    (hf : st.ctl.failhook = none) (hk : st.ctl.fault = none)
    (hok : (step st (.msg (.place bidder aid (some .fixed) price denom amt))).1.res = .ok) :
    ∃ v ab, st.core.views[aid]? = some v ∧ lookupAllowed v.allowed bidder = some ab ∧
      let bid : Bid := { auction := aid, id := v.bidSeq + 1, bidder := bidder, type := .fixed, price := price,
                         denom := denom, amt := amt, matched := false }
      bidderTotal v bidder + bid.toSelling v.a.payDenom ≤ ab.cap ∧
      bid.toSelling v.a.payDenom ≤ v.a.remaining ∧
      v.a.remaining = v.a.sellAmt - soldOf v := by
  have hacc := (deliver_ok_iff st _ (wf_reach st h) (bankNonneg_reach st h) hf hk).1 hok
  obtain ⟨v, hv, hst, ab, hab, hrest⟩ := (hacc : AcceptPlace _ _ _ _ _ _ _).auction
  simp only at hrest
  obtain ⟨hty, _, _, hrem, hcap, _⟩ := hrest
  have hw := (wf_reach st h).views aid v hv
  exact ⟨v, ab, hv, hab, hcap, hrem, (hw.remaining hty (Or.inr hst)).1⟩

theorem C05_fixed_transfers_are_accepted_bids (st : State) (h : Reach st) (t : Int)
    (hok : (step st (.block t)).1.res = .ok)
    (i : Nat) (v v' : AView) (hv : st.core.views[i]? = some v)
    (hv' : (step st (.block t)).2.core.views[i]? = some v')
    (hs : v.a.status = .started) (hty : v.a.type = .fixed) (hdue : v.a.lastEnd ≤ t) :
    ∃ rest proceeds,
      (xfersOf (step st (.block t)).1.effs).filter (fun x => x.src = .sell i ∨ x.src = .pay i) =
        (((calcFixed v.a v.bids).alloc.filter (fun p => p.2 ≠ 0)).map
            (fun p => (⟨.io, .sell i, .user p.1, [⟨v.a.sellDenom, p.2⟩]⟩ : Transfer)))
        ++ [⟨.send, .sell i, .user v.a.auctioneer, rest⟩] ++ [proceeds] ∧
      (calcFixed v.a v.bids).total = soldOf v ∧ soldOf v ≤ v.a.sellAmt := by
  have hids : ∀ (j : Nat) (w : AView), st.core.views[j]? = some w → w.a.id = j :=
    fun j w hw => ((wf_reach st h).views j w hw).id
  obtain ⟨_, _, rest, proceeds, heq, _⟩ := fixed_settlement_transfers st t hok i v v' hv hv' hs hty hids hdue
  have hw := (wf_reach st h).views i v hv
  obtain ⟨hr, hr0⟩ := hw.remaining hty (Or.inr hs)
  refine ⟨rest, proceeds, heq, ?_, by omega⟩
  unfold calcFixed soldOf
  simp only
  generalize v.bids = l
  have : ∀ (l : List Bid) (s : Int), l.foldl (fun s b => s + b.toSelling v.a.payDenom) s =
      s + (l.map (·.toSelling v.a.payDenom)).sum := by
    intro l; induction l with
    | nil => intro s; simp
    | cons b bs ih => intro s; simp [List.foldl_cons, ih]; omega
  simpa using this l 0

end Fundraising
