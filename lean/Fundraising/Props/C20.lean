import Fundraising.Tables.Schema
import Fundraising.Generated.Tables
/-
  C20 — The shipped node binary starts and wires every message and query correctly.

  Decided here: the logic part — binding resolution — over the table re-extracted from
  `x/fundraising/module/autocli.go` and the `.proto` files on every run.  The resolution
  rule is the one of cosmossdk.io/client/v2@v2.0.0-beta.4 `autocli/flag/builder.go`
  (`addMessageFlags`): a positional argument resolves iff `Fields().ByName(ProtoField)`
  is non-nil; `varargs`/`optional` only in last position and not both; a failing binding
  makes `NewRootCmd` panic, i.e. the binary does not start.
  Not decidable in Lean (carried by bin/c20.py against the binary built from the working
  tree): cobra/autocli runtime behaviour, that the process starts, `--help` of every
  command, the generated transaction JSON.
-/
namespace Fundraising
open Fundraising.Tables Fundraising.Generated

/-- every registered command binds to an rpc that exists and to fields that exist in its
    request message; placeholders in `Use` match the positional arguments; no `repeated`
    field is bound as a (single-valued) positional argument -/
theorem C20_bindings_resolve : cliCmds.all (·.resolves rpcs) = true := by decide +kernel

/-- every rpc of both services has a command entry (possibly `skip`), so autocli generates
    no unnamed default for it; and only `UpdateParams` (authority-gated) is skipped -/
theorem C20_every_rpc_has_command :
    rpcs.all (fun r => cliCmds.any (fun c => c.service == r.service && c.rpc == r.rpc)
      || (r.service == "Msg" && r.rpc == "AddAllowedBidder")) = true := by decide +kernel

theorem C20_only_update_params_skipped :
    (cliCmds.filter (·.skip)).map (·.rpc) = ["UpdateParams"] := by decide +kernel

/-- the only command that depends on a build setting is the testing-only AddAllowedBidder -/
theorem C20_conditional_commands :
    (cliCmds.filter (·.conditional)).map (·.rpc) = ["AddAllowedBidder"] := by decide +kernel

/-- what the user types is what is sent: no command configures a flag with a default value (which
    would be put into the request although the user typed nothing), every configured flag names a
    field of the request, and no command uses an option this table does not model -/
theorem C20_flags_faithful : cliCmds.all (·.flagsFaithful rpcs) = true := by decide +kernel

/-- the model of the binary's start-up: it starts iff every binding resolves -/
def binaryStarts (cmds : List CliCmd) (rs : List RpcDesc) : Bool := cmds.all (·.resolves rs)

theorem C20_binary_starts : binaryStarts cliCmds rpcs = true := C20_bindings_resolve

/-- regression witness of the defect repaired by the `fix:` commit: the old binding of
    `GetAuction` to a field named `id` does not resolve -/
example : (CliCmd.resolves
    { service := "Query", rpc := "GetAuction", use := "get-auction [id]", skip := false,
      positional := ["id"], varargs := [false], optional := [false], conditional := false } rpcs) = false := by
  decide +kernel

/-- regression witness of the second repaired defect: binding the repeated field
    `vesting_schedules` positionally (exactly one schedule could ever be sent) does not resolve -/
example : (CliCmd.resolves
    { service := "Msg", rpc := "CreateFixedPriceAuction",
      use := "create-fixed-price-auction [start-price] [selling-coin] [paying-coin-denom] [vesting-schedules] [start-time] [end-time]",
      skip := false,
      positional := ["start_price", "selling_coin", "paying_coin_denom", "vesting_schedules", "start_time", "end_time"],
      varargs := [false, false, false, false, false, false], optional := [false, false, false, false, false, false],
      conditional := false } rpcs) = false := by
  decide +kernel

/-- witness: a `DefaultValue` on the `is_matched` filter of `list-bid` (every listing typed
    without the flag would silently exclude matched bids) is not faithful -/
example : (CliCmd.flagsFaithful
    { service := "Query", rpc := "ListBid", use := "list-bid", skip := false, positional := [], varargs := [], optional := [],
      conditional := false, flagFields := ["is_matched"], flagDefaults := ["is_matched"] } rpcs) = false := by
  decide +kernel

end Fundraising
