import Fundraising.Proofs.GenesisProofs
import Fundraising.Proofs.WFProofs
import Fundraising.Tables.Schema
import Fundraising.Generated.Tables
/-
  C15 — Exported genesis validates, re-imports to the same state and behaves the same.
  (The model follows the code after the `fix:` commits to GenesisState.Validate,
  BaseAuction.Validate, InitGenesis (MatchedBidsLen) and AddAllowedBidders.)
-/
namespace Fundraising
open Fundraising.Tables Fundraising.Generated

/-- the genesis exported from ANY reachable state passes the module's own validation -/
theorem C15_export_validates (st : State) (h : Reach st) :
    validateGenesis (exportGenesis st.core) = true :=
  export_validates st.core (wf_reach st h)

/-- importing it rebuilds every collection exactly: auctions with their ids, allow-lists,
    bids with their ids and the per-auction bid counter, vesting queues, and the matched-bids
    counter (not exported; rebuilt from the flags); parameters are carried over -/
theorem C15_import_export (st : State) (h : Reach st) :
    initGenesis (exportGenesis st.core) = some st.core.views ∧
    (exportGenesis st.core).params = st.core.params :=
  ⟨import_export st.core (wf_reach st h), rfl⟩

/-- the whole round trip (export → validate → wipe → import) is the identity on reachable
    states … -/
theorem C15_round_trip_identity (st : State) (h : Reach st) :
    step st .genesis = ({ res := .ok }, st) := by
  simp [step, reimport_eq st.core (wf_reach st h)]

/-- … hence the re-imported chain evolves identically to the original under ANY subsequent
    blocks and messages -/
theorem C15_continues_identically (st : State) (h : Reach st) (ops : List Op) :
    run (step st .genesis).2 ops = run st ops := by
  rw [C15_round_trip_identity st h]

/-! ### source level: the regenerated genesis table -/

/-- every collection of the keeper is either exported and imported, or (the three counters)
    rebuilt by InitGenesis; and every duplicate check of `GenesisState.Validate` is keyed by
    the full key of its collection -/
theorem C15_collections_covered :
    collections.all (fun c =>
      c.imported && (c.exported || ["MatchedBidsLen", "BidSeq", "AuctionSeq"].contains c.name)
      && c.dupKeyFields == c.keyFields) = true := by decide +kernel

theorem C15_collections_known :
    collections.map (·.name) =
      ["Params", "MatchedBidsLen", "AllowedBidder", "VestingQueue", "BidSeq", "Bid", "AuctionSeq", "Auction"] := by
  decide +kernel

/-! regression witness of the repaired defects: two allowed bidders in one auction, and an
    auction extended past its first release time, export to a genesis that validates -/
def exTwoBidders : List Op :=
  [ .fund 0 5 1000000000, .fund 0 0 1000,
    .msg (.create { auctioneer := 0, type := .batch, startPrice := PREC, minBid := PREC, sellDenom := 0,
                    sellAmt := 1000, payDenom := 1, maxExt := 1, rate := PREC, startTime := 1700000100,
                    endTime := 1700001000, schedules := [⟨1700002000, PREC⟩] }),
    .kadd 0 [⟨0, 1, 1000⟩, ⟨0, 2, 500⟩], .block 1700000100, .block 1700001000 ]

example : ((run {} exTwoBidders).core.views[0]?.map (fun v => (v.a.endTimes, v.allowed.length))) =
    some ([1700001000, 1700087400], 2) := by decide
example : validateGenesis (exportGenesis (run {} exTwoBidders).core) = true := by decide

end Fundraising
