import Fundraising.Proofs.C02Base
import Fundraising.Proofs.AccountingProofs
import Fundraising.Proofs.ProgressProofs
import Fundraising.Proofs.WFProofs
/-
  C02 — Operations are zero-sum and every participant ends with exactly their due.
  (Proofs: Proofs/LedgerProofs.lean, Proofs/C02Base.lean, Proofs/AccountingProofs.lean.)
-/
namespace Fundraising

/-- **no coins created, destroyed or stranded.**  After every successful module operation
    every balance is the old balance plus the net of the bank calls the module made … -/
theorem C02_ledger (st : State) (op : Op) (hop : op.isModuleOp = true)
    (hok : (step st op).1.res = .ok) (a : Addr) (d : Denom) :
    (step st op).2.core.bank a d = st.core.bank a d + ((xfersOf (step st op).1.effs).map (·.delta a d)).sum :=
  c02_ledger st op hop hok a d

/-- … each of which is zero-sum over any set of accounts containing both ends … -/
theorem C02_transfer_zero_sum (t : Transfer) (L : List Addr) (hnd : L.Nodup) (hs : t.src ∈ L) (hd : t.dst ∈ L)
    (d : Denom) : (L.map (fun a => t.delta a d)).sum = 0 :=
  c02_transfer_zero_sum t L hnd hs hd d

/-- … and a failed operation moves nothing. -/
theorem C02_failed_moves_nothing (st : State) (op : Op) (hop : op.isModuleOp = true)
    (h : (step st op).1.res ≠ .ok) : (step st op).2.core.bank = st.core.bank :=
  c02_failed_moves_nothing st op hop h

/-- **the only amounts that leave a user's account**: in a successful module operation every
    transfer whose source is a user account is (a) the advertised creation fee or the offered
    coin, from the auctioneer who signed the creation, (b) the advertised bid fee or the
    bid's reservation, from the bidder who signed the bid, (c) the increase of the
    reservation, from the bidder who signed the modification.  Cancels, allow-list calls,
    parameter changes and blocks debit no user account at all. -/
theorem C02_user_debits (st : State) (op : Op) (hop : op.isModuleOp = true)
    (hok : (step st op).1.res = .ok) (x : Transfer) (hx : x ∈ xfersOf (step st op).1.effs)
    (u : Acc) (hu : x.src = .user u) :
    (∃ m, op = .msg (.create m) ∧ u = m.auctioneer ∧
        (x = ⟨.pool, .user u, .pool, st.core.params.creationFee⟩ ∨
         x = ⟨.send, .user u, .sell st.core.views.length, [⟨m.sellDenom, m.sellAmt⟩]⟩)) ∨
    (∃ aid t price denom amt, op = .msg (.place u aid (some t) price denom amt) ∧
        (x = ⟨.pool, .user u, .pool, st.core.params.bidFee⟩ ∨ (x.kind = .send ∧ x.dst = .pay aid))) ∨
    (∃ aid bidId price denom amt, op = .msg (.modify u aid bidId price denom amt) ∧
        x.kind = .send ∧ x.dst = .pay aid) :=
  c02_user_debits st op hop hok x hx u hu

/-- **nothing is left in escrow** once an auction is finished or cancelled (history without
    third-party transfers into escrows; with them, what is left is exactly those coins —
    C01_escrow_covered) -/
theorem C02_terminal_escrows_empty (ops : List Op) (h : NoEscrowGifts ops) (i : Nat) (v : AView)
    (hv : (run {} ops).core.views[i]? = some v)
    (hs : v.a.status = .finished ∨ v.a.status = .cancelled) (d : Denom) :
    (run {} ops).core.bank (.sell i) d = 0 ∧ (run {} ops).core.bank (.pay i) d = 0 ∧
    (run {} ops).core.bank (.vest i) d = 0 :=
  c02_terminal_escrows_empty ops h i v hv hs d

/-- blocks pay out of escrows only (bidders' allocations and refunds, the auctioneer's unsold
    coins and proceeds, paying → vesting escrow of the same auction) -/
theorem C02_blocks_pay_from_escrows (st : State) (t : Int) :
    ∀ x ∈ xfersOf (step st (.block t)).1.effs,
      (∃ i u, (x.src = .sell i ∨ x.src = .pay i ∨ x.src = .vest i) ∧ x.dst = .user u) ∨
      (∃ i, x.src = .pay i ∧ x.dst = .vest i) :=
  c02_blocks_pay_from_escrows st t

/-- **final accounting over the whole history** (ledger form): in a history without resets
    and third-party transfers into escrows, an escrow's balance is exactly the net of the
    module's own bank calls … -/
theorem C02_escrow_balance_is_ledger (ops : List Op) (hr : Op.reset ∉ ops) (hg : NoEscrowGifts ops)
    (a : Addr) (ha : (∃ i, a = .sell i) ∨ (∃ i, a = .pay i) ∨ (∃ i, a = .vest i)) (d : Denom) :
    (run {} ops).core.bank a d = netFlow (ledgerOf ops) a d :=
  escrow_balance_is_ledger ops hr hg a ha d

/-- … so once an auction is finished or cancelled, everything that ever entered its three
    escrows has left them again … -/
theorem C02_final_accounting (ops : List Op) (hr : Op.reset ∉ ops) (hg : NoEscrowGifts ops)
    (i : Nat) (v : AView) (hv : (run {} ops).core.views[i]? = some v)
    (hs : v.a.status = .finished ∨ v.a.status = .cancelled) (d : Denom) :
    netFlow (ledgerOf ops) (.sell i) d = 0 ∧ netFlow (ledgerOf ops) (.pay i) d = 0 ∧
    netFlow (ledgerOf ops) (.vest i) d = 0 :=
  final_accounting_escrows ops hr hg i v hv hs d

/-- … and over the whole history coins only ever moved: from the signer of a message to the
    community pool (fees) or to an escrow (reservations); from an escrow to a user account
    (allocations, refunds, unsold coins, proceeds, instalments); from a paying escrow to the
    vesting escrow of the same auction -/
theorem C02_ledger_shapes (ops : List Op) :
    ∀ t ∈ ledgerOf ops,
      (∃ u, t.src = .user u ∧ (t.dst = .pool ∨ (∃ i, t.dst = .sell i) ∨ (∃ i, t.dst = .pay i))) ∨
      (∃ i u, (t.src = .sell i ∨ t.src = .pay i ∨ t.src = .vest i) ∧ t.dst = .user u) ∨
      (∃ i, t.src = .pay i ∧ t.dst = .vest i) :=
  ledger_shapes ops

/-- **everyone gets their due at a batch settlement**: in the block that settles auction `i`,
    the coins leaving its selling and paying escrows are, in this order, exactly: each bidder's
    allocation (the non-zero ones, ascending bidder order), the unsold rest of the selling escrow to
    the auctioneer, each bidder's refund — by `calcBatchWith`, the reservation minus what the
    allocation costs at the matched price, i.e. the unused part of the reservation — and the
    proceeds (everything left in the paying escrow) to the auctioneer, or to the vesting escrow when
    there is a schedule -/
theorem C02_batch_settlement_pays_everyone (st : State) (h : Reach st) (t : Int)
    (hok : (step st (.block t)).1.res = .ok)
    (i : Nat) (v v' : AView) (mi : MInfo) (hv : st.core.views[i]? = some v)
    (hv' : (step st (.block t)).2.core.views[i]? = some v')
    (hs : v.a.status = .started) (hty : v.a.type = .batch)
    (hmi : calcBatch v.a v.bids v.allowed = some mi) (hsettled : v'.a.status ≠ .started) :
    ∃ rest proceeds,
      (xfersOf (step st (.block t)).1.effs).filter (fun x => x.src = .sell i ∨ x.src = .pay i) =
        ((mi.alloc.filter (fun p => p.2 ≠ 0)).map
            (fun p => (⟨.io, .sell i, .user p.1, [⟨v.a.sellDenom, p.2⟩]⟩ : Transfer)))
        ++ [⟨.send, .sell i, .user v.a.auctioneer, rest⟩]
        ++ ((mi.refund.filter (fun p => p.2 ≠ 0)).map
            (fun p => (⟨.io, .pay i, .user p.1, [⟨v.a.payDenom, p.2⟩]⟩ : Transfer)))
        ++ [proceeds] ∧
      proceeds.src = .pay i ∧
      proceeds.dst = (if v.a.schedules.isEmpty then .user v.a.auctioneer else .vest i) :=
  batch_settlement_transfers st t hok i v v' mi hv hv' hs hty
    (fun j w hw => ((wf_reach st h).views j w hw).id) hmi hsettled

end Fundraising
