import Fundraising.Spec.Clearing
import Fundraising.Proofs.MatchLemmas
import Fundraising.Proofs.DecLemmas
/-
  C04 — Winners pay one uniform price, never above their limit, within rounding.
  Batch part: corollaries of `calcBatchWith_bounds` (for every arrangement `SortBids`
  may produce).  Fixed-price part: the two conversions of `types/bid.go`.
-/
namespace Fundraising

/-- **batch.**  For the settlement result at matched price `X`, every bidder `u` with a
    bid, `pay = reserved − refund`, `k` = number of `u`'s matched bids:
    `X·alloc ≤ 10^18·pay` (at least price × quantity), `10^18·pay < X·alloc + 10^18·k`
    (less than one smallest paying unit more per matched bid), `pay ≤ reserved`, every
    matched bid is priced at or above `X`, and a bidder who wins nothing is refunded in
    full. -/
theorem C04_batch_uniform_price (a : Auction) (bids sorted : List Bid) (allowed : List Allowed) (mi : MInfo)
    (hw : BookWF a bids allowed) (hs : Arrangement bids sorted)
    (h : calcBatchWith sorted a bids allowed = some mi) :
    (∀ id ∈ mi.matchedIds, ∃ b ∈ bids, b.id = id ∧ mi.price ≤ b.price) ∧
    ∀ u ∈ biddersOf bids,
      let alloc := lookupAmt mi.alloc u
      let refund := lookupAmt mi.refund u
      let pay := reservedOf bids a.payDenom u - refund
      let k : Int := ((bids.filter (fun b => b.bidder == u && mi.matchedIds.contains b.id)).length : Int)
      mi.price * alloc ≤ PREC * pay ∧
      (0 < alloc → PREC * pay < mi.price * alloc + PREC * k) ∧
      pay ≤ reservedOf bids a.payDenom u ∧ 0 ≤ refund ∧
      (alloc = 0 → refund = reservedOf bids a.payDenom u) := by
  obtain ⟨_, _, _, _, hm, hb⟩ := calcBatchWith_bounds a bids sorted allowed mi hw hs h
  refine ⟨hm, fun u hu => ?_⟩
  obtain ⟨_, _, _, h4, h5, h6, h7, h8⟩ := hb u hu
  exact ⟨h6, h8, h5, h4, h7⟩

/-- **fixed price, paying-denominated bid** of `c` paying coins at price `p`: it receives
    `q = ⌊c/p⌋` selling coins and pays `c`: `p·q ≤ c·10^18 < p·(q+1)` — less than one
    selling coin's worth of rounding, in the auctioneer's favour -/
theorem C04_fixed_paying_denominated (b : Bid) (pd : Denom) (hd : b.denom = pd)
    (ha : 0 ≤ b.amt) (hp : 0 < b.price) :
    b.toPaying pd = b.amt ∧
    b.price * b.toSelling pd ≤ b.amt * PREC ∧ b.amt * PREC < b.price * (b.toSelling pd + 1) := by
  rw [Bid.toSelling_pay b pd hd ha hp, Bid.toPaying_pay b pd hd]
  refine ⟨rfl, ?_, ?_⟩
  · have := Int.ediv_mul_le (b.amt * PREC) (Int.ne_of_gt hp)
    rw [Int.mul_comm b.price]; exact this
  · have := Int.lt_ediv_add_one_mul_self (b.amt * PREC) hp
    rw [Int.mul_comm b.price]; exact this

/-- **fixed price, selling-denominated bid** of `a` selling coins at price `p`: it receives
    `a` and pays `⌈a·p⌉`: `a·p ≤ 10^18·pay < a·p + 10^18` — less than one smallest paying
    unit of rounding, in the auctioneer's favour -/
theorem C04_fixed_selling_denominated (b : Bid) (pd : Denom) (hd : b.denom ≠ pd)
    (ha : 0 ≤ b.amt) (hp : 0 ≤ b.price) :
    b.toSelling pd = b.amt ∧
    b.amt * b.price ≤ PREC * b.toPaying pd ∧ PREC * b.toPaying pd < b.amt * b.price + PREC := by
  rw [Bid.toSelling_sell b pd hd, Bid.toPaying_sell b pd hd ha hp]
  have h := Dec.ceilDiv_spec (b.amt * b.price) (Int.mul_nonneg ha hp)
  refine ⟨rfl, ?_, ?_⟩
  · rw [Int.mul_comm PREC]; exact h.1
  · rw [Int.mul_comm PREC]; exact h.2

/-! non-vacuity: price 1/3 (non-terminating), both denominations -/
example : (⟨0, 1, 1, .fixed, 333333333333333333, 1, 100, false⟩ : Bid).toSelling 1 = 300 := by decide
example : (⟨0, 1, 1, .fixed, 333333333333333333, 0, 100, false⟩ : Bid).toPaying 1 = 34 := by decide

end Fundraising
