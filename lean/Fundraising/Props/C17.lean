import Fundraising.Tables.Schema
import Fundraising.Generated.Tables
import Fundraising.Proofs.ExecLemmas
import Fundraising.Proofs.HookProofs
/-
  C17 — Every hook fires once with the real values and can veto the operation.

  (a) Source level, decided over the tables re-extracted from types/hooks.go,
      keeper/hooks.go, types/expected_keepers.go and the keeper on every run: all ten
      dispatchers and all ten keeper wrappers have the uniform shape (loop over every
      listener / nil-guard, same-named callee, the caller's arguments in order, error
      returned), every call site in the keeper returns the hook's error, `Before…` hooks
      precede the `Set` they announce and `After…` hooks follow it.
  (b) Model level: what the uniform dispatcher does for ANY number of listeners and any
      position of a failing one (`dispatchTo`), and how an operation reacts (`runAtomic`).
  (c) Op level: each operation that offers a hook calls it exactly once per listener with the
      values it then stores, and a veto at any position fails the operation with nothing
      committed (Proofs/HookProofs.lean).  The differential run (hooks focus) compares the
      ordered `H` lines incl. arguments with the real keeper's.
-/
namespace Fundraising
open Fundraising.Tables Fundraising.Generated

/-! ### (a) the source tables -/

theorem C17_all_dispatchers_uniform : dispatchers.all (·.uniform) = true := by decide +kernel
theorem C17_all_wrappers_uniform : keeperWrappers.all (·.uniform) = true := by decide +kernel

/-- dispatchers and wrappers exist for exactly the methods of the interface, with the
    interface's parameter lists -/
theorem C17_dispatchers_cover_interface :
    dispatchers.map (fun d => (d.name, d.params)) = hookInterface.map (fun h => (h.name, h.params)) ∧
    keeperWrappers.map (fun d => (d.name, d.params)) = hookInterface.map (fun h => (h.name, h.params)) := by
  decide +kernel

/-- every call site in the keeper returns the hook's error to its caller -/
theorem C17_sites_return_error : hookSites.all (·.errReturned) = true := by decide +kernel

/-- every hook of the interface is offered by at least one keeper operation -/
theorem C17_every_hook_has_site :
    hookInterface.all (fun h => hookSites.any (fun s => s.hook == h.name)) = true := by decide +kernel

/-- a `Before…` hook is called before the change it announces is written; an `After…` hook
    after it -/
theorem C17_before_commit :
    hookSites.all (fun s =>
      if s.hook.startsWith "Before" then
        match s.nextSetIndex with | some n => decide (s.stmtIndex < n) | none => false
      else
        match s.prevSetIndex with | some n => decide (n < s.stmtIndex) | none => false) = true := by
  decide +kernel

/-! ### (b) the dispatcher, for any number of listeners -/

/-- all listeners succeed ⇒ each is called exactly once, in registration order, with the
    caller's arguments, and nothing else happens -/
theorem C17_dispatch_all_once (c c' : Ctx) (name : String) (args : List String)
    (h : c.hook name args = .ok c') :
    c'.s = c.s ∧ c'.effs = c.effs ++ (List.range c.ctl.listeners).map (fun i => Eff.hook i name args) :=
  let ⟨a, _, _, d⟩ := hook_ok h
  ⟨a, d⟩

theorem C17_dispatch_succeeds (c : Ctx) (name : String) (args : List String)
    (hf : c.ctl.failhook = none) : ∃ c', c.hook name args = .ok c' :=
  hook_of_no_fail c name args hf

/-- listener `j` fails ⇒ the dispatcher returns its error; listeners before `j` were called
    exactly once, `j` once, none after -/
theorem dispatchTo_veto (name : String) (args : List String) (pre post : List Nat) (j : Nat) (c : Ctx)
    (hj : c.ctl.failhook = some (name, j)) (hpre : j ∉ pre) :
    dispatchTo name args (pre ++ j :: post) c =
      .error ⟨.reject, c.effs ++ (pre ++ [j]).map (fun i => Eff.hook i name args)⟩ := by
  induction pre generalizing c with
  | nil =>
    simp [dispatchTo, hj, Ctx.fail]
  | cons i pre ih =>
    have hi : i ≠ j := fun e => hpre (by simp [e])
    have hne : c.ctl.failhook ≠ some (name, i) := by
      rw [hj]; intro e; exact hi (by injection e with e; injection e with _ e; exact e.symm)
    simp only [List.cons_append, dispatchTo, hne, if_false]
    have := ih { c with effs := c.effs ++ [Eff.hook i name args] } hj
      (fun h => hpre (List.mem_cons_of_mem _ h))
    rw [this]
    simp [List.append_assoc]

theorem range_split (j n : Nat) (h : j < n) :
    List.range n = List.range j ++ j :: List.range' (j + 1) (n - (j + 1)) := by
  have e : n = j + ((n - (j + 1)) + 1) := by omega
  conv => lhs; rw [e]
  rw [List.range_eq_range', List.range_eq_range', ← List.range'_append_1, List.range'_succ]
  simp

theorem C17_dispatch_veto (c : Ctx) (name : String) (args : List String) (j : Nat)
    (hj : c.ctl.failhook = some (name, j)) (hlt : j < c.ctl.listeners) :
    c.hook name args =
      .error ⟨.reject, c.effs ++ (List.range (j + 1)).map (fun i => Eff.hook i name args)⟩ := by
  unfold Ctx.hook
  rw [range_split j _ hlt, dispatchTo_veto name args _ _ j c hj (by simp)]
  simp [List.range_succ]

/-- a message-triggered operation whose hook is vetoed fails and commits nothing -/
theorem C17_veto_reverts (st : State) (recover : Bool) (f : Ctx → M Ctx) (e : Fail)
    (h : f { s := st.core, ctl := st.ctl } = .error e) :
    (runAtomic st recover f).2.core = st.core ∧ (runAtomic st recover f).1.res ≠ .ok := by
  rcases runAtomic_cases st recover f with ⟨c, hc, _⟩ | ⟨e', _, h2, h3⟩
  · rw [h] at hc; cases hc
  · exact ⟨by rw [h2], h3⟩


/-! ### (c) every operation that offers a hook -/

/-- bid placement: `BeforeBidPlaced` once per listener, with the id, owner, type, price and
    coin of the bid that is then stored -/
theorem C17_place_bid_hook (st : State) (bidder : Acc) (aid : Nat) (t : BidType) (price : Dec) (denom : Denom)
    (amt : Int) (hok : (step st (.msg (.place bidder aid (some t) price denom amt))).1.res = .ok) :
    ∃ v' b, (step st (.msg (.place bidder aid (some t) price denom amt))).2.core.views[aid]? = some v' ∧
      v'.bids.getLast? = some b ∧
      hooksOf (step st (.msg (.place bidder aid (some t) price denom amt))).1.effs =
        calledOnce st.ctl.listeners "BeforeBidPlaced" (bidHookArgs b) :=
  place_hooks st bidder aid t price denom amt hok

/-- modification: `BeforeBidModified` once per listener with the values as stored — whether or
    not an extra reservation was needed -/
theorem C17_modify_bid_hook (st : State) (bidder : Acc) (aid bidId : Nat) (price : Dec) (denom : Denom)
    (amt : Int) (hok : (step st (.msg (.modify bidder aid bidId price denom amt))).1.res = .ok) :
    ∃ v' b, (step st (.msg (.modify bidder aid bidId price denom amt))).2.core.views[aid]? = some v' ∧
      b ∈ v'.bids ∧ b.id = bidId ∧ b.price = price ∧ b.amt = amt ∧
      hooksOf (step st (.msg (.modify bidder aid bidId price denom amt))).1.effs =
        calledOnce st.ctl.listeners "BeforeBidModified" (bidHookArgs b) :=
  modify_hooks st bidder aid bidId price denom amt hok

/-- creation: `Before…Created` then `After…Created` (with the new id), once per listener each -/
theorem C17_create_hooks (st : State) (m : CreateMsg) (hok : (step st (.msg (.create m))).1.res = .ok) :
    hooksOf (step st (.msg (.create m))).1.effs =
      calledOnce st.ctl.listeners
        (if m.type = .fixed then "BeforeFixedPriceAuctionCreated" else "BeforeBatchAuctionCreated")
        (createHookArgs m none) ++
      calledOnce st.ctl.listeners
        (if m.type = .fixed then "AfterFixedPriceAuctionCreated" else "AfterBatchAuctionCreated")
        (createHookArgs m (some st.core.views.length)) :=
  create_hooks st m hok

theorem C17_cancel_hook (st : State) (signer : Acc) (aid : Nat)
    (hok : (step st (.msg (.cancel signer aid))).1.res = .ok) :
    hooksOf (step st (.msg (.cancel signer aid))).1.effs =
      calledOnce st.ctl.listeners "BeforeAuctionCanceled" [rNat aid, rAcc signer] :=
  cancel_hooks st signer aid hok

theorem C17_allowlist_hooks (st : State) (aid : Nat) :
    (∀ abs, (step st (.kadd aid abs)).1.res = .ok →
      hooksOf (step st (.kadd aid abs)).1.effs =
        calledOnce st.ctl.listeners "BeforeAllowedBiddersAdded" (rAllowedArgs abs)) ∧
    (∀ u cap, (step st (.kupd aid u cap)).1.res = .ok →
      hooksOf (step st (.kupd aid u cap)).1.effs =
        calledOnce st.ctl.listeners "BeforeAllowedBidderUpdated" [rNat aid, rAcc u, rInt cap]) :=
  ⟨fun abs h => kadd_hooks st aid abs h, fun u cap h => kupd_hooks st aid u cap h⟩

/-- **veto, uniformly for every hook, every listener position and every operation** (messages,
    keeper-API calls and blocks — i.e. settlements): if a listener that the operation calls
    returns an error, the operation fails, commits nothing, and no later listener is called -/
theorem C17_veto_fails_operation (st : State) (op : Op) (hop : op.isModuleOp = true) (name : String) (j : Nat)
    (args : List String) (hf : st.ctl.failhook = none)
    (hok : (step st op).1.res = .ok) (hcall : Eff.hook j name args ∈ (step st op).1.effs) :
    let st' : State := { st with ctl := { st.ctl with failhook := some (name, j) } }
    (step st' op).1.res ≠ .ok ∧
    (step st' op).2.core = (match op with | .block t => { st.core with now := t } | _ => st.core) ∧
    ∀ k a, j < k → Eff.hook k name a ∉ (step st' op).1.effs :=
  veto_fails_op st op hop name j args hf hok hcall

end Fundraising
