import Fundraising.Proofs.FrameProofs
import Fundraising.Proofs.AcceptProofs
import Fundraising.Proofs.WFProofs
import Fundraising.Props.C08
import Fundraising.Props.C01
/-
  C12 — Only the auctioneer can cancel, only before opening, with a full refund.
-/
namespace Fundraising

/-- **accepted exactly when** signed by the auction's auctioneer while it is still waiting to
    open — for every signer, every auction status, every moment relative to the start time -/
theorem C12_cancel_accepted_iff (st : State) (h : Reach st) (signer : Acc) (aid : Nat)
    (hf : st.ctl.failhook = none) (hk : st.ctl.fault = none) :
    (step st (.msg (.cancel signer aid))).1.res = .ok ↔
      (validAcc signer = true ∧
       ∃ v, st.core.views[aid]? = some v ∧ v.a.auctioneer = signer ∧ v.a.status = .standby) := by
  rw [deliver_ok_iff st (.cancel signer aid) (wf_reach st h) (bankNonneg_reach st h) hf hk]
  exact ⟨fun a => ⟨a.signerOk, a.exists_⟩, fun ⟨a, b⟩ => ⟨a, b⟩⟩

/-- **what cancelling does**: the auction becomes cancelled, the published remainder is
    zeroed, the escrow's whole selling-denomination balance (the offered amount plus anything
    third parties sent there) is returned to the auctioneer, the escrow is empty -/
theorem C12_cancel_effect (st : State) (h : Reach st) (op : Op) (hop : op ≠ .reset)
    (i : Nat) (v v' : AView) (hv : st.core.views[i]? = some v)
    (hv' : (step st op).2.core.views[i]? = some v')
    (hs : v.a.status ≠ .cancelled) (hs' : v'.a.status = .cancelled) :
    op = .msg (.cancel v.a.auctioneer i) ∧ v.a.status = .standby ∧
    (v.a.type = .fixed → v'.a.remaining = 0) ∧
    (step st op).2.core.bank (.sell i) v.a.sellDenom = 0 ∧
    (step st op).2.core.bank (.user v.a.auctioneer) v.a.sellDenom =
      st.core.bank (.user v.a.auctioneer) v.a.sellDenom + st.core.bank (.sell i) v.a.sellDenom :=
  cancelled_only_by_cancel st op hop (wf_reach st h) i v v' hv hv' hs hs'

/-- the refund is at least the entire offered amount -/
theorem C12_refund_covers_offer (st : State) (h : Reach st) (i : Nat) (v : AView)
    (hv : st.core.views[i]? = some v) (hs : v.a.status = .standby) :
    v.a.sellAmt ≤ st.core.bank (.sell i) v.a.sellDenom := by
  have := (C01_escrow_covered st h i v hv).sell
  simpa [owedSell, hs] using this

/-- **once an auction has opened nobody can cancel it; cancelled is permanent** -/
theorem C12_opened_never_cancelled (st : State) (h : Reach st) (op : Op) (hop : op ≠ .reset)
    (i : Nat) (v : AView) (hv : st.core.views[i]? = some v) (hs : v.a.status ≠ .standby) :
    ∃ v', (step st op).2.core.views[i]? = some v' ∧
      (v'.a.status = .cancelled ↔ v.a.status = .cancelled) := by
  obtain ⟨v', h1, h2⟩ := C08_status_only_forward st h op hop i v hv
  refine ⟨v', h1, ?_⟩
  cases hv0 : v.a.status <;> cases hv1 : v'.a.status <;> simp_all [statusEdge]

end Fundraising
