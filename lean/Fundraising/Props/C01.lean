import Fundraising.Proofs.EscrowProofs
import Fundraising.Proofs.WFProofs
import Fundraising.Proofs.ModuleInvProofs
/-
  C01 — Escrow accounts always hold exactly what the module's records owe.

  `owedSell`/`owedPay`/`owedVest` (Spec/Invariants.lean): the selling escrow owes the full
  offered amount while the auction is waiting or open, the paying escrow owes the sum of
  the amounts reserved by all recorded bids while it is open, the vesting escrow owes the
  sum of the unreleased instalments while it is vesting; nothing in every other status.
  "Apart from coins that third parties sent to it directly": in a history without such
  transfers the balances are EXACTLY what is owed (in every denomination); with them, the
  balances still cover what is owed.
-/
namespace Fundraising

/-- a history in which no third party sends coins into an escrow account -/
def NoEscrowGifts (ops : List Op) : Prop := ∀ op ∈ ops, op.noEscrowGift = true

/-- **C01, exact.**  After every message and every block of ANY history without third-party
    transfers into escrow accounts — any interleaving of creations, bids, modifications,
    cancellations, allow-list changes, genesis round trips and block-time advances, over any
    number of concurrent auctions, any prices and amounts — every auction's three escrows
    hold exactly what its records owe, in every denomination, and the escrow accounts of
    auctions not yet created are empty. -/
theorem C01_escrow_exact (ops : List Op) (h : NoEscrowGifts ops) : AllExact (run {} ops).core := by
  have key : ∀ (ops : List Op), NoEscrowGifts ops → AllExact (run {} ops).core ∧ WF (run {} ops).core := by
    intro ops
    refine run_induction (P := fun ops st => NoEscrowGifts ops → AllExact st.core ∧ WF st.core) ?_ ?_ ops
    · intro _; exact ⟨exact_init, wf_init⟩
    · intro done op ih hg
      have hdone : NoEscrowGifts done := fun o ho => hg o (List.mem_append_left _ ho)
      have hop : op.noEscrowGift = true := hg op (by simp)
      obtain ⟨he, hw⟩ := ih hdone
      exact ⟨exact_step _ op hw hop he, wf_step _ op hw⟩
  exact (key ops h).1

/-- what the induction over reachable states carries: coverage, well-formedness, non-negative balances -/
theorem C01_reach_facts (st : State) (h : Reach st) : AllCovered st.core ∧ WF st.core ∧ BankNonneg st.core := by
  revert st h
  refine reach_induction (P := fun st => AllCovered st.core ∧ WF st.core ∧ BankNonneg st.core) ?_ ?_
  · exact ⟨covered_init, wf_init, bankNonneg_init⟩
  · intro st op _ ⟨hc, hw, hn⟩
    exact ⟨covered_step st op hw hn hc, wf_step st op hw, bankNonneg_step st op hn hw⟩

/-- **C01, the module's own invariants.**  The three invariants the module defines for the
    crisis module (keeper/invariants.go: selling / paying / vesting pool reserve amount — modelled
    in Model/ModuleInv.lean, proved equal to the translated Go functions in Proofs/Tie/Invariants,
    and run on the real keeper after every operation by the harness) are never broken: in EVERY
    reachable state, whatever third parties have sent to the escrows. -/
theorem C01_module_invariants_hold (st : State) (h : Reach st) : allInvariantsBroken st.core = false := by
  obtain ⟨hc, hw, hn⟩ := C01_reach_facts st h
  exact invariants_of_covered st.core hw hc hn

/-- **C01, with third-party transfers.**  In EVERY reachable state every escrow covers what
    the records owe (third-party coins can only add to a balance). -/
theorem C01_escrow_covered (st : State) (h : Reach st) : AllCovered st.core := by
  have key : ∀ st, Reach st → AllCovered st.core ∧ WF st.core ∧ BankNonneg st.core := by
    refine reach_induction (P := fun st => AllCovered st.core ∧ WF st.core ∧ BankNonneg st.core) ?_ ?_
    · exact ⟨covered_init, wf_init, bankNonneg_init⟩
    · intro st op _ ⟨hc, hw, hn⟩
      exact ⟨covered_step st op hw hn hc, wf_step st op hw, bankNonneg_step st op hn hw⟩
  exact (key st h).1

/-- unfolded for one auction: the three equalities -/
theorem C01_exact_unfolded (ops : List Op) (h : NoEscrowGifts ops) (i : Nat) (v : AView)
    (hv : (run {} ops).core.views[i]? = some v) :
    (run {} ops).core.bank (.sell i) v.a.sellDenom = owedSell v ∧
    (run {} ops).core.bank (.pay i) v.a.payDenom = owedPay v ∧
    (run {} ops).core.bank (.vest i) v.a.payDenom = owedVest v := by
  have := (C01_escrow_exact ops h).1 i v hv
  exact ⟨by simpa using this.sell v.a.sellDenom, by simpa using this.pay v.a.payDenom,
         by simpa using this.vest v.a.payDenom⟩

/-! non-vacuity: a concrete history (creation, allow-listing, opening, two bids) is
    gift-free and reaches a state with an open auction and non-zero reservations -/
def exOps : List Op :=
  [ .fund 0 5 1000000000, .fund 0 0 1000, .fund 1 1 1000,
    .msg (.create { auctioneer := 0, type := .batch, startPrice := PREC, minBid := PREC, sellDenom := 0,
                    sellAmt := 1000, payDenom := 1, maxExt := 0, rate := PREC, startTime := 1700000100,
                    endTime := 1700001000, schedules := [] }),
    .kadd 0 [⟨0, 1, 1000⟩], .block 1700000100,
    .msg (.place 1 0 (some .worth) (2 * PREC) 1 100) ]

example : NoEscrowGifts exOps := by intro op h; simp [exOps] at h; rcases h with h|h|h|h|h|h|h <;> subst h <;> rfl
example : ((run {} exOps).core.views[0]?.map (fun v => (v.a.status, owedPay v, owedSell v))) =
    some (.started, 100, 1000) := by decide
/-- the invariants are not vacuous there: the paying invariant compares 100 reserved with 100 held -/
example : ((run {} exOps).core.views[0]?.map (fun v => (invTotalBid v, (run {} exOps).core.bank (.pay 0) 1))) =
    some (100, 100) := by decide

end Fundraising
