import Fundraising.Proofs.ProgressProofs
import Fundraising.Proofs.WFProofs
import Fundraising.Proofs.MatchLemmas
/-
  C16 — Published results agree with what was actually settled.
  (The model follows the code after the `fix:` commits for IsMatched, MatchedPrice and the
  ListBid filters.)  Known finding (not repaired, see known_findings.json): ListAllowedBidder
  and ListVestingQueue ignore the request's auction_id — `queryAllowedAll` / `queryVestingsAll`
  model the code as it is, and `C16_list_allowed_ignores_auction_id` below proves the statement
  false for them with a concrete witness.
-/
namespace Fundraising

/-- **batch**: after the final settlement a bid is flagged matched exactly when it is in the
    final matching — i.e. exactly when it received coins (every matched bid has a positive
    match amount, Proofs/MatchSweep) — also when it was provisionally matched in an earlier
    round and outbid later; the published matched price is the clearing price that was used,
    zero if nothing was sold -/
theorem C16_batch_flags_and_price (st : State) (t : Int) (hok : (step st (.block t)).1.res = .ok)
    (i : Nat) (v v' : AView) (mi : MInfo) (hv : st.core.views[i]? = some v)
    (hv' : (step st (.block t)).2.core.views[i]? = some v')
    (hs : v.a.status = .started) (hty : v.a.type = .batch) (hdue : v.a.lastEnd ≤ t)
    (hmi : calcBatch v.a v.bids v.allowed = some mi) :
    v'.bids = v.bids.map (fun b => { b with matched := mi.matchedIds.contains b.id }) ∧
    (v'.a.status ≠ .started → v'.a.matchedPrice = (if mi.total > 0 then mi.price else 0)) :=
  let ⟨_, b, _, d⟩ := block_extends_iff st t hok i v v' mi hv hv' hs hty hdue hmi
  ⟨b, d⟩

/-- in every reachable state the matched-bids counter of a batch auction equals the number of
    flagged bids -/
theorem C16_counter_matches_flags (st : State) (h : Reach st) (i : Nat) (v : AView)
    (hv : st.core.views[i]? = some v) (hty : v.a.type = .batch) :
    v.matchedLen = countMatched v.bids :=
  ((wf_reach st h).views i v hv).matchedLenBatch hty

/-- **fixed price**: a bid is flagged at placement exactly when it buys at least one coin,
    which is exactly what it receives at the close -/
theorem C16_fixed_flag (st : State) (bidder : Acc) (aid : Nat) (price : Dec) (denom : Denom) (amt : Int)
    (v v' : AView) (hv : st.core.views[aid]? = some v)
    (hok : (step st (.msg (.place bidder aid (some .fixed) price denom amt))).1.res = .ok)
    (hv' : (step st (.msg (.place bidder aid (some .fixed) price denom amt))).2.core.views[aid]? = some v') :
    ∃ b, v'.bids = v.bids ++ [b] ∧ (b.matched = true ↔ 0 < b.toSelling v.a.payDenom) :=
  let ⟨b, h1, _, _, _, _, _, h7, _⟩ := fixed_bid_flag st bidder aid price denom amt v v' hv hok hv'
  ⟨b, h1, h7⟩

/-- **instalments**: flagged released exactly when paid (the flag flips in the block that
    makes the transfer, see C09_released_when_due_once), and in every reachable state the
    released instalments form a prefix, a vesting auction has its last instalment unpaid, a
    finished one has all paid -/
theorem C16_released_flags_consistent (st : State) (h : Reach st) (i : Nat) (v : AView)
    (hv : st.core.views[i]? = some v) :
    v.vqs.Pairwise (fun q q' => q'.released = true → q.released = true) ∧
    (v.a.status = .vesting → ∃ q, v.vqs.getLast? = some q ∧ q.released = false) ∧
    (v.a.status = .finished → ∀ q ∈ v.vqs, q.released = true) :=
  let hw := (wf_reach st h).views i v hv
  ⟨hw.releasedPrefix, hw.vestingOpen, hw.finishedAll⟩

/-! ### queries -/

/-- `ListBid` returns exactly the stored bids of the auction that satisfy the request -/
theorem C16_list_bid_is_filter (s : Core) (aid : Nat) (v : AView) (hv : s.views[aid]? = some v)
    (bidder : Option Acc) (matched : Option Bool) (b : Bid) :
    b ∈ queryBids s aid bidder matched ↔
      (b ∈ v.bids ∧ (∀ u, bidder = some u → b.bidder = u) ∧ (∀ m, matched = some m → b.matched = m)) := by
  unfold queryBids
  rw [hv]
  simp only [List.mem_filter, Bool.and_eq_true]
  constructor
  · rintro ⟨hb, h1, h2⟩
    refine ⟨hb, ?_, ?_⟩
    · intro u hu; subst hu; simpa using h1
    · intro m hm; subst hm; simpa using h2
  · rintro ⟨hb, h1, h2⟩
    refine ⟨hb, ?_, ?_⟩
    · cases bidder with
      | none => rfl
      | some u => simpa using h1 u rfl
    · cases matched with
      | none => rfl
      | some m => simpa using h2 m rfl

theorem C16_list_auction_is_filter (s : Core) (st : Option Status) (ty : Option AType) (a : Auction) :
    a ∈ queryAuctions s st ty ↔
      (a ∈ s.views.map (·.a) ∧ (∀ x, st = some x → a.status = x) ∧ (∀ x, ty = some x → a.type = x)) := by
  unfold queryAuctions
  simp only [List.mem_filter, Bool.and_eq_true]
  constructor
  · rintro ⟨ha, h1, h2⟩
    refine ⟨ha, ?_, ?_⟩
    · intro x hx; subst hx; simpa using h1
    · intro x hx; subst hx; simpa using h2
  · rintro ⟨ha, h1, h2⟩
    refine ⟨ha, ?_, ?_⟩
    · cases st with
      | none => rfl
      | some x => simpa using h1 x rfl
    · cases ty with
      | none => rfl
      | some x => simpa using h2 x rfl

/-- queries by id are look-ups -/
theorem C16_get_is_lookup (s : Core) (aid : Nat) :
    queryAuction s aid = (s.views[aid]?).map (·.a) ∧
    (∀ bidId, queryBid s aid bidId = (s.views[aid]?).bind (fun v => v.bids.find? (·.id == bidId))) ∧
    (∀ u, queryAllowedOne s aid u = (s.views[aid]?).bind (fun v => lookupAllowed v.allowed u)) :=
  ⟨rfl, fun _ => rfl, fun _ => rfl⟩

/-- **known finding, proved**: the listing of allowed bidders (as the code has it) returns
    records that do not satisfy the request's auction_id -/
theorem C16_list_allowed_ignores_auction_id :
    ∃ (s : Core) (aid : Nat) (p : Nat × Allowed), p ∈ queryAllowedAll s ∧ p.1 ≠ aid := by
  refine ⟨{ views := [{ a := { id := 0, type := .fixed, auctioneer := 0, sellDenom := 0, sellAmt := 1,
                                payDenom := 1, startPrice := 1, startTime := 0, endTimes := [1],
                                schedules := [], status := .standby },
                         allowed := [⟨1, 1⟩] }] }, 1, (0, ⟨1, 1⟩), ?_, by decide⟩
  simp [queryAllowedAll]

end Fundraising
