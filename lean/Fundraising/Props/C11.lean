import Fundraising.Proofs.FrameProofs
import Fundraising.Proofs.AcceptProofs
import Fundraising.Proofs.WFProofs
/-
  C11 — Bids can only grow, only by their owner, and are never removed.
-/
namespace Fundraising

/-- **accepted exactly when**: signed by the account that placed the bid, the batch auction
    is open, same denomination, price and amount both not lower with at least one strictly
    higher, price at or above the minimum bid price (and funds for the increase) -/
theorem C11_modify_accepted_iff (st : State) (h : Reach st) (bidder : Acc) (aid bidId : Nat)
    (price : Dec) (denom : Denom) (amt : Int)
    (hf : st.ctl.failhook = none) (hk : st.ctl.fault = none) :
    (step st (.msg (.modify bidder aid bidId price denom amt))).1.res = .ok ↔
      AcceptModify st.core bidder aid bidId price denom amt :=
  deliver_ok_iff st (.modify bidder aid bidId price denom amt)
    (wf_reach st h) (bankNonneg_reach st h) hf hk

/-- **the extra amount charged equals the increase in required reservation**, moved from the
    owner to the auction's paying escrow; the bid keeps its id, auction, owner, type,
    denomination and matched flag -/
theorem C11_modify_charges_the_increase (st : State) (h : Reach st) (bidder : Acc) (aid bidId : Nat)
    (price : Dec) (denom : Denom) (amt : Int) (v : AView) (b : Bid)
    (hv : st.core.views[aid]? = some v) (hb : v.bids.find? (·.id == bidId) = some b)
    (hok : (step st (.msg (.modify bidder aid bidId price denom amt))).1.res = .ok) :
    let st' := (step st (.msg (.modify bidder aid bidId price denom amt))).2
    let b' : Bid := { b with price := price, amt := amt }
    let diff := b'.toPaying v.a.payDenom - b.toPaying v.a.payDenom
    0 ≤ diff ∧
    st'.core.bank (.pay aid) v.a.payDenom = st.core.bank (.pay aid) v.a.payDenom + diff ∧
    st'.core.bank (.user bidder) v.a.payDenom = st.core.bank (.user bidder) v.a.payDenom - diff ∧
    ∃ v', st'.core.views[aid]? = some v' ∧ v'.bids = v.bids.map (fun x => if x.id == bidId then b' else x) :=
  modify_effect st bidder aid bidId price denom amt v b (wf_reach st h) hv hb hok

/-- **no operation deletes a bid, re-identifies it, or lowers its price or amount** (hence
    never lowers what is reserved for it: the reservation is monotone in both) -/
theorem C11_bids_never_removed_or_lowered (st : State) (h : Reach st) (op : Op) (hop : op ≠ .reset)
    (i : Nat) (v : AView) (hv : st.core.views[i]? = some v) :
    ∃ v', (step st op).2.core.views[i]? = some v' ∧
      (∃ more, v'.bids.map Bid.ident = v.bids.map Bid.ident ++ more) ∧
      ∀ b ∈ v.bids, ∃ b' ∈ v'.bids, b'.ident = b.ident ∧ b.price ≤ b'.price ∧ b.amt ≤ b'.amt := by
  obtain ⟨v', h1, h2⟩ := view_step st op hop (wf_reach st h) i v hv
  exact ⟨v', h1, h2.bidsKept, h2.bidsGrow⟩

/-- **only by the owner, only while the batch auction is open**: if an operation changes the
    price or amount of a recorded bid, the operation is a MsgModifyBid signed by the bid's
    owner for exactly that bid, on an open batch auction -/
theorem C11_changed_only_by_owner (st : State) (h : Reach st) (op : Op) (hop : op ≠ .reset)
    (i : Nat) (v v' : AView) (hv : st.core.views[i]? = some v)
    (hv' : (step st op).2.core.views[i]? = some v') (b b' : Bid) (hb : b ∈ v.bids) (hb' : b' ∈ v'.bids)
    (hid : b'.id = b.id) (hch : b'.price ≠ b.price ∨ b'.amt ≠ b.amt) :
    v.a.status = .started ∧ v.a.type = .batch ∧
    op = .msg (.modify b.bidder i b.id b'.price b.denom b'.amt) :=
  (bids_change_only_by_owner st op hop (wf_reach st h) i v v' hv hv').1 b hb b' hb' hid hch

end Fundraising
