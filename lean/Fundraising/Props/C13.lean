import Fundraising.Proofs.VestingLemmas
import Fundraising.Proofs.ProgressProofs
import Fundraising.Proofs.FrameProofs
import Fundraising.Proofs.WFProofs
import Fundraising.Proofs.LivenessProofs
/-
  C13 — Extended rounds follow the anti-sniping rule and are bounded.
  Reading R2 (DESIGN §5): "fallen by at least the configured rate" is evaluated in the module's
  own 18-decimal arithmetic, `1 − Quo(curr, last) ≥ rate`; `C13_rule_vs_exact_*` bound the
  disagreement with the exact rational comparison to the band |fall − rate| < 10^-18.
-/
namespace Fundraising

/-- **the rule.**  At an end time of an open batch auction (first block at or after it), with
    `mi` the matching on the recorded bids and `v.matchedLen` the number of matched bids
    recorded at the previous end time: the auction is extended iff rounds are left and (there
    is nothing to compare with, or the rule holds); otherwise it settles.  Either way the
    matched flags and the matched-bids counter are rewritten from `mi`. -/
theorem C13_extended_iff (st : State) (t : Int) (hok : (step st (.block t)).1.res = .ok)
    (i : Nat) (v v' : AView) (mi : MInfo) (hv : st.core.views[i]? = some v)
    (hv' : (step st (.block t)).2.core.views[i]? = some v')
    (hs : v.a.status = .started) (hty : v.a.type = .batch) (hdue : v.a.lastEnd ≤ t)
    (hmi : calcBatch v.a v.bids v.allowed = some mi) :
    (v'.a.status = .started ↔
      (v.a.maxExt + 1 ≠ v.a.endTimes.length ∧
        (v.matchedLen = 0 ∨ shouldExtend mi.matchedLen v.matchedLen v.a.rate = true))) ∧
    v'.matchedLen = mi.matchedLen :=
  let ⟨a, _, c, _⟩ := block_extends_iff st t hok i v v' mi hv hv' hs hty hdue hmi
  ⟨a, c⟩

/-- **each extension appends exactly one end time, one configured period after the previous
    one**, only in a block at or after that end time, only while rounds are left — and nothing
    else ever changes an auction's end times (period 0 included) -/
theorem C13_extension_appends (st : State) (h : Reach st) (op : Op) (hop : op ≠ .reset)
    (i : Nat) (v v' : AView) (hv : st.core.views[i]? = some v)
    (hv' : (step st op).2.core.views[i]? = some v') (hne : v'.a.endTimes ≠ v.a.endTimes) :
    ∃ t, op = .block t ∧ v.a.status = .started ∧ v.a.type = .batch ∧ v.a.lastEnd ≤ t ∧
      v.a.endTimes.length < v.a.maxExt + 1 ∧
      v'.a.endTimes = v.a.endTimes ++ [v.a.lastEnd + 86400 * (st.core.params.period : Int)] ∧
      v'.a.status = .started :=
  endTimes_step st op hop (wf_reach st h) i v v' hv hv' hne

/-- **bounded**: in every reachable state an auction has at most one plus its maximum extended
    rounds end times, and the maximum is at most 30 -/
theorem C13_rounds_bounded (st : State) (h : Reach st) (i : Nat) (v : AView)
    (hv : st.core.views[i]? = some v) :
    v.a.endTimes.length ≤ v.a.maxExt + 1 ∧ v.a.maxExt ≤ 30 ∧ v.a.endTimes ≠ [] :=
  rounds_bounded st h i v hv

/-- each end-time event (a block at or after the current end time of an open auction) either
    settles it or strictly decreases the number of rounds left `maxExt + 1 − #endTimes` -/
theorem C13_end_time_event_settles_or_consumes_a_round (st : State) (h : Reach st) (t : Int)
    (hok : (step st (.block t)).1.res = .ok)
    (i : Nat) (v v' : AView) (hv : st.core.views[i]? = some v)
    (hv' : (step st (.block t)).2.core.views[i]? = some v')
    (hs : v.a.status = .started) (hdue : v.a.lastEnd ≤ t) :
    (v'.a.status = .vesting ∨ v'.a.status = .finished) ∨
    (v'.a.status = .started ∧ v'.a.maxExt = v.a.maxExt ∧
      v'.a.maxExt + 1 - v'.a.endTimes.length < v.a.maxExt + 1 - v.a.endTimes.length) :=
  end_time_event_settles_or_consumes_a_round st h t hok i v v' hv hv' hs hdue

/-- **every auction eventually settles**: ANY sequence of successful blocks, each at or after
    the auction's then-current end time, that is at least `maxExt + 2 − #endTimes` long (so at
    most 31 such end-time events) leaves the auction settled — whatever its bids, rate, and
    extension period (zero included: one event per block) -/
theorem C13_every_auction_eventually_settles (st : State) (h : Reach st) (i : Nat) (v : AView)
    (hv : st.core.views[i]? = some v) (hs : v.a.status = .started) (ts : List Int)
    (hdue : DueRun i st ts) (hlen : v.a.maxExt + 2 ≤ ts.length + v.a.endTimes.length) :
    ∃ v', (runBlocks st ts).core.views[i]? = some v' ∧
      (v'.a.status = .vesting ∨ v'.a.status = .finished) :=
  settles_within st h i v hv hs ts hdue hlen

/-! ### the rule's arithmetic -/

theorem C13_rule_unfolded (curr last : Int) (rate : Dec) :
    shouldExtend curr last rate = true ↔ rate ≤ PREC - Dec.quo (Dec.ofInt curr) (Dec.ofInt last) :=
  shouldExtend_iff curr last rate

/-- fallen by at least `rate + 10^-18` ⇒ extended -/
theorem C13_rule_vs_exact_above (curr last : Int) (rate : Dec) (hc : 0 ≤ curr) (hl : 0 < last)
    (h : (rate + 1) * last ≤ (last - curr) * PREC) : shouldExtend curr last rate = true :=
  shouldExtend_of_fall curr last rate hc hl h

/-- fallen by at most `rate − 10^-18` (or risen) ⇒ settled -/
theorem C13_rule_vs_exact_below (curr last : Int) (rate : Dec) (hc : 0 ≤ curr) (hl : 0 < last)
    (h : (last - curr) * PREC ≤ (rate - 1) * last) : shouldExtend curr last rate = false :=
  not_shouldExtend_of_small_fall curr last rate hc hl h

/-- exact when the ratio is representable -/
theorem C13_rule_exact_when_representable (curr last : Int) (rate : Dec) (hc : 0 ≤ curr) (hl : 0 < last)
    (hdiv : last ∣ curr * PREC) :
    shouldExtend curr last rate = true ↔ rate * last ≤ (last - curr) * PREC :=
  shouldExtend_exact curr last rate hc hl hdiv

/-! non-vacuity: 2 → 1 matched bids at rate 0.5 extends (fall = rate exactly); 3 → 2 at rate
    1/3 rounded down extends, at 1/3 rounded up does not -/
example : shouldExtend 1 2 (PREC / 2) = true := by decide
example : shouldExtend 2 3 333333333333333333 = true := by decide
example : shouldExtend 2 3 333333333333333334 = false := by decide

end Fundraising
