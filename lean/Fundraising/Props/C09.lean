import Fundraising.Proofs.VestingLemmas
import Fundraising.Proofs.ProgressProofs
import Fundraising.Proofs.WFProofs
import Fundraising.Proofs.LivenessProofs
/-
  C09 — Vesting pays the auctioneer exactly the proceeds, on schedule, exactly once.
-/
namespace Fundraising

/-- **the split**: for ANY number of instalments (not only 1..100), any positive weights
    summing to one, and any non-negative proceeds (incl. zero and amounts smaller than the
    number of instalments): the computation produces no negative coin, one instalment per
    schedule entry with that entry's release time, every non-final instalment is the weight
    share rounded down, all are non-negative, and they sum EXACTLY to the proceeds -/
theorem C09_split_exact (R : Int) (vs : List VS) (hR : 0 ≤ R) (hv : ValidWeights vs) :
    ∃ parts, splitLoop R vs R = some parts ∧
      parts.map (·.1) = vs.map (·.release) ∧
      (parts.map (·.2)).sum = R ∧
      (∀ p ∈ parts, 0 ≤ p.2) ∧
      (∀ i, i + 1 < vs.length → (parts.map (·.2))[i]? = some (R * (vs.map (·.weight)).getD i 0 / PREC)) :=
  splitLoop_spec R vs hR hv

/-- what `ValidateVestingSchedules` guarantees about an accepted schedule -/
theorem C09_accepted_schedule (vs : List VS) (endTime : Int) (hne : vs ≠ [])
    (h : validSchedules vs endTime = true) :
    ValidWeights vs ∧ (∀ s ∈ vs, endTime < s.release) ∧ (vs.map (·.release)).Pairwise (· < ·) :=
  validSchedules_spec vs endTime hne h

/-- **at settlement**, in every reachable state: an auction without a schedule pays all
    proceeds at settlement and is finished; with a schedule the proceeds `R` (everything
    the paying escrow holds after refunds) move to the vesting escrow and are split by
    `splitLoop` into one unreleased instalment per schedule entry -/
theorem C09_settlement_split (st : State) (h : Reach st) (t : Int)
    (hok : (step st (.block t)).1.res = .ok)
    (i : Nat) (v v' : AView) (hv : st.core.views[i]? = some v)
    (hv' : (step st (.block t)).2.core.views[i]? = some v')
    (hs : v.a.status = .started) (hsettled : v'.a.status ≠ .started) :
    (v.a.schedules = [] → v'.a.status = .finished ∧ v'.vqs = []) ∧
    (v.a.schedules ≠ [] → v'.a.status = .vesting ∧
      ∃ R parts, 0 ≤ R ∧ splitLoop R v.a.schedules R = some parts ∧ (parts.map (·.2)).sum = R ∧
        v'.vqs.map (fun q => (q.release, q.amt)) = parts ∧
        (∀ q ∈ v'.vqs, q.released = false ∧ q.denom = v.a.payDenom ∧ q.auctioneer = v.a.auctioneer) ∧
        ∃ x ∈ xfersOf (step st (.block t)).1.effs, x.src = .pay i ∧ x.dst = .vest i ∧
          x.coins = (if R = 0 then [] else [⟨v.a.payDenom, R⟩])) := by
  have hw := (wf_reach st h).views i v hv
  have hvq : v.vqs = [] := hw.vqsNone (Or.inr (Or.inl hs))
  have hsched : (v.a.schedules.map (·.release)).Pairwise (· < ·) := by
    by_cases hne : v.a.schedules = []
    · simp [hne]
    · exact (validSchedules_spec _ _ hne hw.auction.sched).2.2
  obtain ⟨h1, h2⟩ := settlement_vesting st t hok i v v' hv hv' hs hsettled hvq hsched
  refine ⟨h1, fun hne => ?_⟩
  obtain ⟨hst, R, parts, hR, hsp, hq, hall, hx⟩ := h2 hne
  have hvw := (validSchedules_spec _ _ hne hw.auction.sched).1
  obtain ⟨parts', hp', _, hsum, _⟩ := splitLoop_spec R v.a.schedules hR hvw
  rw [hsp] at hp'; cases hp'
  exact ⟨hst, R, parts, hR, hsp, hsum, hq, hall, hx⟩

/-- **on schedule, exactly once**: in a successful block the `released` flag flips exactly
    for the unreleased instalments whose release time has come (so each instalment is paid
    in the FIRST block at or after its release time, also when a block skips several release
    times), each flip comes with exactly one transfer of that instalment from the vesting
    escrow to the auctioneer, nothing else in the queue changes — and a released instalment
    is never paid again (its flag never flips back: `ViewStep.vqsKept`, Props/C19) -/
theorem C09_released_when_due_once (st : State) (h : Reach st) (t : Int)
    (hok : (step st (.block t)).1.res = .ok)
    (i : Nat) (v v' : AView) (hv : st.core.views[i]? = some v)
    (hv' : (step st (.block t)).2.core.views[i]? = some v') (hs : v.a.status = .vesting) :
    v'.vqs = v.vqs.map (fun q => if q.release ≤ t ∧ q.released = false then { q with released := true } else q) ∧
    (xfersOf (step st (.block t)).1.effs).filter (fun x => x.src = .vest i) =
      (v.vqs.filter (fun q => decide (q.release ≤ t) && !q.released)).map
        (fun q => (⟨.send, .vest i, .user v.a.auctioneer, if q.amt = 0 then [] else [⟨q.denom, q.amt⟩]⟩ : Transfer)) := by
  have hw := (wf_reach st h).views i v hv
  have hsorted : (v.vqs.map (·.release)).Pairwise (· < ·) := by
    rw [hw.vqsSome (Or.inl hs)]
    by_cases hne : v.a.schedules = []
    · simp [hne]
    · exact (validSchedules_spec _ _ hne hw.auction.sched).2.2
  obtain ⟨h1, h2, _, _⟩ := block_releases st t hok i v v' hv hv' hs hsorted
  exact ⟨h1, h2⟩

/-- a block that skips all remaining release times pays every outstanding instalment in that
    one block and finishes the auction -/
theorem C09_all_paid_by_last_release (st : State) (h : Reach st) (i : Nat) (v : AView)
    (hv : st.core.views[i]? = some v) (hs : v.a.status = .vesting) (t : Int)
    (hok : (step st (.block t)).1.res = .ok) (ht : ∀ q ∈ v.vqs, q.release ≤ t) :
    ∃ v', (step st (.block t)).2.core.views[i]? = some v' ∧ v'.a.status = .finished ∧
      ∀ q ∈ v'.vqs, q.released = true :=
  finishes_at_last_release st h i v hv hs t hok ht

/-! non-vacuity: three instalments with weights 1/3, 1/3, 1/3+1e-18 of proceeds 2 (smaller than
    the number of instalments): 0, 0, 2 -/
example : splitLoop 2 [⟨10, 333333333333333333⟩, ⟨20, 333333333333333333⟩, ⟨30, 333333333333333334⟩] 2
    = some [(10, 0), (20, 0), (30, 2)] := by decide

end Fundraising
