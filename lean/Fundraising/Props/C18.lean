import Fundraising.Proofs.AcceptProofs
import Fundraising.Proofs.WFProofs
/-
  C18 — Messages are accepted exactly under their documented preconditions.
  The preconditions are the declarative conjunctions of Spec/Accept.lean (one per message,
  merging the stateless `ValidateBasic` and the stateful keeper checks; sources: spec/01,
  spec/04, docs/How-To/cli, tx.proto comments; guards taken from the code where the
  documents are silent are marked `(code)` there).
-/
namespace Fundraising

/-- in EVERY reachable state, for EVERY message with ANY field values: accepted iff the
    documented preconditions hold (no injected fault, no vetoing listener) -/
theorem C18_accepted_iff_preconditions (st : State) (h : Reach st) (m : Msg)
    (hf : st.ctl.failhook = none) (hk : st.ctl.fault = none) :
    (step st (.msg m)).1.res = .ok ↔ Accept st.core m :=
  deliver_ok_iff st m (wf_reach st h) (bankNonneg_reach st h) hf hk

/-- a rejected message (or keeper-API call) leaves all module state and all balances
    unchanged at the transaction boundary — whatever the reason of the rejection -/
theorem C18_rejected_changes_nothing (st : State) (m : Msg) (h : (step st (.msg m)).1.res ≠ .ok) :
    (step st (.msg m)).2.core = st.core :=
  reject_unchanged st (.msg m) (Or.inl ⟨m, rfl⟩) h

theorem C18_rejected_keeper_call_changes_nothing (st : State) (op : Op)
    (hop : (∃ a abs, op = .kadd a abs) ∨ (∃ a u c, op = .kupd a u c))
    (h : (step st op).1.res ≠ .ok) : (step st op).2.core = st.core :=
  reject_unchanged st op (Or.inr hop) h

/-! non-vacuity: in a concrete reachable state a valid bid satisfies `Accept` and is
    accepted; the same bid one coin over the allowance is rejected -/
def exState : State := run {}
  [ .fund 0 5 1000000000, .fund 0 0 1000, .fund 1 1 100000,
    .msg (.create { auctioneer := 0, type := .fixed, startPrice := 2 * PREC, sellDenom := 0, sellAmt := 1000,
                    payDenom := 1, startTime := 1700000000, endTime := 1700001000, schedules := [] }),
    .kadd 0 [⟨0, 1, 300⟩] ]

example : (step exState (.msg (.place 1 0 (some .fixed) (2 * PREC) 0 300))).1.res = .ok := by decide
example : (step exState (.msg (.place 1 0 (some .fixed) (2 * PREC) 0 301))).1.res = .err := by decide

end Fundraising
