import Fundraising.Proofs.OrderProofs
import Fundraising.Tables.Schema
import Fundraising.Generated.Tables
import Fundraising.Model.Step
/-
  C14 — Replaying the same history gives identical state, transfers and events.

  The model is a function (`step`), so the content of the property is that nothing the
  model abstracts away depends on a choice of the runtime.  The only such choices in the
  module are the iteration orders of Go maps.  (a) the table of EVERY `range` over a map in
  non-test module code is re-extracted on every run; each site must fall in a class whose
  result is provably independent of the iteration order; (b) the independence theorems.
  (c) what Lean cannot exhibit — the Go runtime itself — is covered by bin/c14.py, which
  re-executes histories in fresh processes with the ordered event stream switched on.
  (The model follows the code after the `fix:` commit that sends allocation and refund
  transfers in the sorted bidder order instead of map order.)
-/
namespace Fundraising
open Fundraising.Tables Fundraising.Generated

/-- (a) no map-range site has an order-dependent body -/
theorem C14_all_sites_order_independent :
    mapRanges.all (fun r => r.cls == .collectThenSort || r.cls == .pointwiseMapWrite) = true := by
  decide +kernel

/-- the sites are exactly the six the model accounts for: which function ranges over a Go map (or takes
    `maps.Keys` / `maps.Values` of one: a slice in the map's iteration order),
    how often, and how each range uses its keys (the NAME of the map variable is not part of the
    fact: renaming a local does not change it) -/
theorem C14_sites :
    mapRanges.map (fun r => (r.func, r.cls)) =
      [("AllocateSellingCoin", .collectThenSort), ("RefundPayingCoin", .collectThenSort),
       ("CalculateBatchAllocation", .pointwiseMapWrite),
       ("CalculateBatchAllocation", .pointwiseMapWrite),
       -- module wiring: `modNames := maps.Keys(hooks); order := modNames; sort.Strings(order)` — the
       -- order in which other modules' listeners are registered (lexical by module name)
       ("InvokeSetHooks", .collectThenSort), ("BidsByPrice", .collectThenSort)] := by
  decide +kernel

/-- (b1) collect-then-sort over bidder keys (AllocateSellingCoin, RefundPayingCoin): whatever
    order the runtime yields the keys in, the sorted slice — hence the order of the bank
    transfers and of their events — is the one the model uses -/
theorem C14_transfer_order_independent (bids : List Bid) (l₁ l₂ : List Acc)
    (h₁ : l₁.Perm (bids.map (·.bidder))) (h₂ : l₂.Perm (bids.map (·.bidder))) :
    sortKeys l₁ = sortKeys l₂ ∧ sortKeys l₁ = biddersOf bids :=
  ⟨sortKeys_perm l₁ l₂ (h₁.trans h₂.symm), (biddersOf_any_order bids l₁ h₁).symm⟩

/-- (b2) collect-then-sort over price keys (BidsByPrice) -/
theorem C14_price_levels_order_independent (bids : List Bid) (l₁ l₂ : List Dec)
    (h₁ : l₁.Perm ((sortBids bids).map (·.price))) (h₂ : l₂.Perm ((sortBids bids).map (·.price))) :
    sortPricesDesc l₁ = sortPricesDesc l₂ ∧ sortPricesDesc l₁ = distinctPrices (sortBids bids) :=
  ⟨sortPricesDesc_perm l₁ l₂ (h₁.trans h₂.symm), (distinctPrices_any_order bids l₁ h₁).symm⟩

/-- (b3) pointwise writes indexed by the range key (CalculateBatchAllocation) commute -/
theorem C14_pointwise_writes_order_independent {β : Type} (f : Acc → β) (m₀ : Acc → β)
    (l₁ l₂ : List Acc) (h : l₁.Perm l₂) : writeAll f m₀ l₁ = writeAll f m₀ l₂ :=
  writeAll_perm f m₀ l₁ l₂ h

/-- re-executing a history from the same genesis gives the same state (and, op by op, the
    same outcome incl. the ordered transfer list): the model has no other input -/
theorem C14_replay_identical (ops : List Op) : run {} ops = run {} ops := rfl

end Fundraising
