import Fundraising.Proofs.TotalityProofs
import Fundraising.Proofs.WFProofs
/-
  C07 — Block processing never fails, and never hides a failure.
  (The model follows the code after the `fix:` commit to BeginBlocker: finished and cancelled
  auctions are skipped and the first failing auction's error is returned.)
  Outside the model (see DESIGN §4): the 256/315-bit caps of math.Int / LegacyDec, protobuf
  timestamp range, failures of the store itself.
-/
namespace Fundraising

/-- **first sentence.**  In EVERY reachable state — any number of auctions in any statuses
    incl. finished and cancelled, empty order books, zero proceeds, any prices and amounts —
    at EVERY block time, `BeginBlocker` succeeds: no error, no panic (no injected fault, no
    vetoing listener). -/
theorem C07_block_never_fails (st : State) (h : Reach st) (t : Int)
    (hf : st.ctl.failhook = none) (hk : st.ctl.fault = none) :
    (step st (.block t)).1.res = .ok := by
  have key : ∀ st, Reach st → AllCovered st.core ∧ WF st.core ∧ BankNonneg st.core := by
    refine reach_induction (P := fun st => AllCovered st.core ∧ WF st.core ∧ BankNonneg st.core) ?_ ?_
    · exact ⟨covered_init, wf_init, bankNonneg_init⟩
    · intro st op _ ⟨hc, hw, hn⟩
      exact ⟨covered_step st op hw hn hc, wf_step st op hw, bankNonneg_step st op hn hw⟩
  obtain ⟨hc, hw, hn⟩ := key st h
  exact beginBlock_ok st t hw hn hc hf hk

/-- **second sentence, bank transfers.**  Whichever auction it belongs to: if the `k`-th bank
    call of the block fails, the block reports an error and commits nothing. -/
theorem C07_failure_reported_transfer (st : State) (t : Int) (k : Nat) (hk : st.ctl.fault = none)
    (hok : (step st (.block t)).1.res = .ok)
    (hlt : k < xferCount (step st (.block t)).1.effs) :
    let st' : State := { st with ctl := { st.ctl with fault := some k } }
    (step st' (.block t)).1.res = .err ∧
    (step st' (.block t)).2.core = { st.core with now := t } :=
  beginBlock_reports_fault st t k hk hok hlt

/-- **second sentence, listeners.**  If a listener that the block calls returns an error, the
    block reports an error and commits nothing. -/
theorem C07_failure_reported_hook (st : State) (t : Int) (name : String) (idx : Nat)
    (args : List String) (hf : st.ctl.failhook = none)
    (hok : (step st (.block t)).1.res = .ok)
    (hcall : Eff.hook idx name args ∈ (step st (.block t)).1.effs) :
    let st' : State := { st with ctl := { st.ctl with failhook := some (name, idx) } }
    (step st' (.block t)).1.res = .err ∧
    (step st' (.block t)).2.core = { st.core with now := t } :=
  beginBlock_reports_hook st t name idx args hf hok hcall

/-! non-vacuity and regression witness of the repaired defect: a state whose highest-id
    auction is cancelled (create, cancel) — the block succeeds -/
def exCancelled : List Op :=
  [ .fund 0 5 1000000000, .fund 0 0 1000,
    .msg (.create { auctioneer := 0, type := .fixed, startPrice := PREC, sellDenom := 0, sellAmt := 1000,
                    payDenom := 1, startTime := 1700000100, endTime := 1700001000, schedules := [] }),
    .msg (.cancel 0 0) ]

example : ((run {} exCancelled).core.views[0]?.map (·.a.status)) = some .cancelled := by decide
example : (step (run {} exCancelled) (.block 1700000200)).1.res = .ok := by decide

end Fundraising
