import Fundraising.Proofs.FrameProofs
import Fundraising.Proofs.WFProofs
import Fundraising.Tables.Schema
import Fundraising.Generated.Tables
/-
  C10 — Only allow-listed accounts can bid, and users cannot allow-list themselves.
  (The model follows the code after the `fix:` commit that removed the simulation package's
  `init()` which switched `EnableAddAllowedBidder` on in every binary.)
-/
namespace Fundraising
open Fundraising.Tables Fundraising.Generated

/-- a bid is recorded only for an account the auction's allow-list contains at that moment -/
theorem C10_bid_recorded_only_for_allowlisted (st : State) (h : Reach st) (op : Op) (hop : op ≠ .reset)
    (i : Nat) (v v' : AView) (hv : st.core.views[i]? = some v)
    (hv' : (step st op).2.core.views[i]? = some v') (hnew : v.bids.length < v'.bids.length) :
    ∃ b, v'.bids.getLast? = some b ∧ (lookupAllowed v.allowed b.bidder).isSome = true := by
  obtain ⟨_, _, b, hb, _, hl, _⟩ :=
    (bids_change_only_by_owner st op hop (wf_reach st h) i v v' hv hv').2 hnew
  exact ⟨b, hb, hl⟩

/-- in every reachable state every recorded bid's bidder is on the auction's allow-list
    (entries are never removed) -/
theorem C10_every_bid_allowlisted (st : State) (h : Reach st) (i : Nat) (v : AView)
    (hv : st.core.views[i]? = some v) : ∀ b ∈ v.bids, (lookupAllowed v.allowed b.bidder).isSome = true :=
  fun b hb => (((wf_reach st h).views i v hv).bids b hb).listed

/-- in a default build (switch off — the state of every reachable state of the model) the
    message MsgAddAllowedBidder is rejected and changes nothing, for every signer and auction -/
theorem C10_add_allowed_message_rejected (st : State) (h : Reach st) (aid : Nat) (ab : AllowedArg) :
    (step st (.msg (.addAllowed aid ab))).1.res ≠ .ok ∧
    (step st (.msg (.addAllowed aid ab))).2.core = st.core :=
  addAllowed_rejected st aid ab (wf_reach st h).switchOff

/-- no transaction message of any kind, with any field values, adds or changes an allow-list
    entry of any auction -/
theorem C10_no_message_changes_an_allowlist (st : State) (h : Reach st) (m : Msg)
    (i : Nat) (v : AView) (hv : st.core.views[i]? = some v) :
    ∃ v', (step st (.msg m)).2.core.views[i]? = some v' ∧ v'.allowed = v.allowed :=
  msg_keeps_allowlists st m (wf_reach st h).switchOff i v hv

/-! ### the switch in the shipped binary — decided over the table of ALL writes to
    `EnableAddAllowedBidder` / `enableAddAllowedBidder` in the packages linked into
    `./cmd/fundraisingd`, re-extracted from the source on every run -/

/-- Go initialisation order: the ldflag string (not set by the default Makefile build) is
    "false"; `keeper.init` parses it; no other package writes the switch.  Hence the switch is
    `false` when `main` starts. -/
theorem C10_default_build_switch_off :
    switchAtStartup switchWrites defaultBuildSetsLdflag = some false := by decide +kernel

/-- regression witness of the repaired defect: with the old `init()` of the simulation
    package in the table the value cannot be shown to be false -/
example : switchAtStartup (switchWrites ++
    [{ pkg := "github.com/tendermint/fundraising/x/fundraising/simulation",
       file := "x/fundraising/simulation/helpers.go", context := "init",
       target := "EnableAddAllowedBidder", rhs := .litTrue }]) defaultBuildSetsLdflag = none := by
  decide +kernel

end Fundraising
