import Fundraising.Proofs.ProgressProofs
import Fundraising.Proofs.FrameProofs
import Fundraising.Proofs.AcceptProofs
import Fundraising.Proofs.WFProofs
/-
  C06 — Fixed-price sales are first-come-first-served against an exact remainder.
-/
namespace Fundraising

/-- **accepted exactly when**: the auction is open, the bid is at the auction's price in one
    of its two denominations, the bidder is allow-listed with enough allowance left, the unsold
    remainder covers the whole bid (and the bidder can pay the fee and the reservation) -/
theorem C06_fixed_bid_accepted_iff (st : State) (h : Reach st) (bidder : Acc) (aid : Nat)
    (price : Dec) (denom : Denom) (amt : Int)
    (hf : st.ctl.failhook = none) (hk : st.ctl.fault = none) :
    (step st (.msg (.place bidder aid (some .fixed) price denom amt))).1.res = .ok ↔
      AcceptPlace st.core bidder aid .fixed price denom amt :=
  deliver_ok_iff st (.place bidder aid (some .fixed) price denom amt)
    (wf_reach st h) (bankNonneg_reach st h) hf hk

/-- **the published remainder is exact**: in every reachable state, while a fixed-price
    auction is waiting or open, remainder = offered − sum of accepted bids, and it is never
    negative: the auction can never oversell -/
theorem C06_remainder_exact (st : State) (h : Reach st) (i : Nat) (v : AView)
    (hv : st.core.views[i]? = some v) (hty : v.a.type = .fixed)
    (hs : v.a.status = .standby ∨ v.a.status = .started) :
    v.a.remaining = v.a.sellAmt - soldOf v ∧ 0 ≤ v.a.remaining ∧ soldOf v ≤ v.a.sellAmt := by
  obtain ⟨h1, h2⟩ := ((wf_reach st h).views i v hv).remaining hty hs
  exact ⟨h1, h2, by omega⟩

/-- each accepted bid takes exactly its own quantity off the remainder -/
theorem C06_accepted_bid_decrements (st : State) (bidder : Acc) (aid : Nat) (price : Dec) (denom : Denom)
    (amt : Int) (v v' : AView) (hv : st.core.views[aid]? = some v)
    (hok : (step st (.msg (.place bidder aid (some .fixed) price denom amt))).1.res = .ok)
    (hv' : (step st (.msg (.place bidder aid (some .fixed) price denom amt))).2.core.views[aid]? = some v') :
    ∃ b, v'.bids = v.bids ++ [b] ∧ b.price = price ∧ b.denom = denom ∧ b.amt = amt ∧ b.bidder = bidder ∧
      v'.a.remaining = v.a.remaining - b.toSelling v.a.payDenom := by
  obtain ⟨b, h1, _, h3, h4, h5, h6, _, h8⟩ := fixed_bid_flag st bidder aid price denom amt v v' hv hok hv'
  exact ⟨b, h1, h3, h4, h5, h6, h8⟩

/-- **earlier bids are never displaced or scaled down by later ones**: no operation removes a
    bid of a fixed-price auction or changes its price or amount (modification is only possible
    in batch auctions) -/
theorem C06_accepted_bids_are_final (st : State) (h : Reach st) (op : Op) (hop : op ≠ .reset)
    (i : Nat) (v v' : AView) (hv : st.core.views[i]? = some v)
    (hv' : (step st op).2.core.views[i]? = some v') (hty : v.a.type = .fixed) :
    ∀ b ∈ v.bids, ∃ b' ∈ v'.bids, b'.ident = b.ident ∧ b'.price = b.price ∧ b'.amt = b.amt := by
  intro b hb
  obtain ⟨v'', h1, h2⟩ := view_step st op hop (wf_reach st h) i v hv
  rw [hv'] at h1; cases h1
  obtain ⟨b', hb', hid, _, _⟩ := h2.bidsGrow b hb
  refine ⟨b', hb', hid, ?_⟩
  have hch := (bids_change_only_by_owner st op hop (wf_reach st h) i v v' hv hv').1 b hb b' hb'
    (by have := congrArg (fun x => x.2.1) hid; simpa [Bid.ident] using this)
  by_cases hp : b'.price = b.price
  · by_cases ha : b'.amt = b.amt
    · exact ⟨hp, ha⟩
    · exact absurd (hch (Or.inr ha)).2.1 (by rw [hty]; simp)
  · exact absurd (hch (Or.inl hp)).2.1 (by rw [hty]; simp)

/-- at the close every bidder receives exactly the sum of their accepted bids -/
theorem C06_close_allocates_accepted_bids (a : Auction) (bids : List Bid) :
    (calcFixed a bids).alloc =
      (biddersOf bids).map (fun u => (u, sumOver bids u (·.toSelling a.payDenom))) := rfl

end Fundraising
