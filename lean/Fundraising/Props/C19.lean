import Fundraising.Proofs.FrameProofs
import Fundraising.Proofs.WFProofs
/-
  C19 — Operations touch only their own auction and never alter agreed terms.
-/
namespace Fundraising

/-- **an operation on one auction never changes another**: a message or keeper-API call that
    names auction `a` leaves every other auction's record, bids, allow-list, instalments,
    counters and all three escrow balances exactly as they were (also when it fails) -/
theorem C19_frame_targeted (st : State) (op : Op) (a : Nat) (ht : op.target = some a) (j : Nat) (hj : j ≠ a) :
    (step st op).2.core.views[j]? = st.core.views[j]? ∧ SameEscrows st.core (step st op).2.core j :=
  frame_target st op a ht j hj

/-- creating an auction leaves every existing auction and its escrows untouched -/
theorem C19_frame_create (st : State) (m : CreateMsg) (j : Nat) (hj : j < st.core.views.length) :
    (step st (.msg (.create m))).2.core.views[j]? = st.core.views[j]? ∧
    SameEscrows st.core (step st (.msg (.create m))).2.core j :=
  let ⟨a, b, _⟩ := frame_create st m j hj
  ⟨a, b⟩

/-- **the settlement of one auction never changes another**: an auction with nothing due at the
    block's time is untouched by the block, whatever settles, extends or pays out in it -/
theorem C19_frame_block (st : State) (h : Reach st) (t : Int) (j : Nat) (v : AView)
    (hv : st.core.views[j]? = some v) (hidle : idleAt v t = true) :
    (step st (.block t)).2.core.views[j]? = some v ∧ SameEscrows st.core (step st (.block t)).2.core j :=
  frame_block_idle st t (wf_reach st h) j v hv hidle

/-- **a bidder's allowance and bids in one auction never affect what they may do in
    another**: whether a message on auction `a` is accepted, and its entire effect on auction
    `a`, is the same after any operation that targets a different auction -/
theorem C19_other_auction_irrelevant (st : State) (op : Op) (b : Nat) (ht : op.target = some b)
    (a : Nat) (hab : a ≠ b) :
    (step st op).2.core.views[a]? = st.core.views[a]? :=
  (frame_target st op b ht a hab).1

/-- **agreed terms are never altered**: in every reachable state, no operation changes an
    auction's id, type, auctioneer, offered coin, paying denomination, start price, minimum
    bid price, extension settings, vesting schedule, start time or first end time (the escrow
    addresses are functions of the id); bids keep their auction, id, owner, type and
    denomination (`Bid.ident`) -/
theorem C19_terms_immutable (st : State) (h : Reach st) (op : Op) (hop : op ≠ .reset)
    (i : Nat) (v : AView) (hv : st.core.views[i]? = some v) :
    ∃ v', (step st op).2.core.views[i]? = some v' ∧ v'.a.terms = v.a.terms ∧
      ∃ more, v'.bids.map Bid.ident = v.bids.map Bid.ident ++ more := by
  obtain ⟨v', h1, h2⟩ := view_step st op hop (wf_reach st h) i v hv
  exact ⟨v', h1, h2.terms, h2.bidsKept⟩

/-- **ids are assigned in increasing order and never reused**: auctions are numbered
    0, 1, 2, … in creation order and never removed; an auction's bids are numbered 1, 2, 3, …
    in placement order, the counter equals their number and never decreases -/
theorem C19_ids_increasing (st : State) (h : Reach st) :
    (∀ (i : Nat) (v : AView), st.core.views[i]? = some v → v.a.id = i ∧
        v.bids.map (·.id) = (List.range v.bids.length).map (· + 1) ∧ v.bidSeq = v.bids.length) ∧
    (∀ op, op ≠ .reset → st.core.views.length ≤ (step st op).2.core.views.length) := by
  refine ⟨fun i v hv => ?_, fun op hop => views_grow st op hop (wf_reach st h)⟩
  have hw := (wf_reach st h).views i v hv
  exact ⟨hw.id, hw.bidIds, hw.bidSeq⟩

end Fundraising
