import Fundraising.Proofs.ProgressBasic
/-
  Exact inversions of the settlement operations: `applyVestingSchedules`, `closeFixed`,
  `settleBatch`, `extendRound`, `closeBatch`.
-/
namespace Fundraising.ProgressInv
open Fundraising.WFInv (bind_ok pure_ok fail_ne_ok)

/-- the vesting queue made from one instalment -/
def vqOf (aid : Nat) (a : Auction) (p : Int × Int) : VQ :=
  { auction := aid, release := p.1, auctioneer := a.auctioneer, denom := a.payDenom, amt := p.2,
    released := false }

/-- what `ApplyVestingSchedules` writes for view `v` with proceeds `R` -/
def Settled (aid : Nat) (v : AView) (R : Int) (w : AView) : Prop :=
  (v.a.schedules = [] → w = { v with a := { v.a with status := .finished } }) ∧
  (v.a.schedules ≠ [] → ∃ parts, splitLoop R v.a.schedules R = some parts ∧
     w = { v with a := { v.a with status := .vesting },
                  vqs := parts.foldl (fun l p => setVQ l (vqOf aid v.a p)) v.vqs })

/-- the proceeds transfer of `ApplyVestingSchedules` -/
def proceedsOf (aid : Nat) (v : AView) (R : Int) : Transfer :=
  ⟨.send, .pay aid, if v.a.schedules.isEmpty then .user v.a.auctioneer else .vest aid,
   coinsOf v.a.payDenom R⟩

theorem isEmpty_iff {α : Type} (l : List α) : l.isEmpty = true ↔ l = [] := by
  cases l <;> simp

theorem applyVesting_inv {c c' : Ctx} {aid : Nat} {v : AView}
    (h : applyVestingSchedules c aid = .ok c') (hv : c.s.views[aid]? = some v) :
    ∃ R w, 0 ≤ R ∧ Settled aid v R w ∧ c'.s.views = c.s.views.set aid w ∧ c'.s.now = c.s.now ∧
      c'.effs = c.effs ++ [.xfer (proceedsOf aid v R)] := by
  unfold applyVestingSchedules at h
  simp only [bind_ok] at h
  obtain ⟨v', hv', coins, hmk, h⟩ := h
  rw [view_ok_iff, hv] at hv'
  cases hv'
  obtain ⟨hR, rfl⟩ := mkCoins_inv hmk
  refine ⟨c.bal (.pay aid) v.a.payDenom, ?_⟩
  split at h
  · rename_i hemp
    simp only [bind_ok, pure_ok] at h
    obtain ⟨c1, hb, rfl⟩ := h
    have e := bankCall_ext hb
    have hs0 : v.a.schedules = [] := (isEmpty_iff _).mp hemp
    refine ⟨_, hR, ⟨fun _ => rfl, fun hne => absurd hs0 hne⟩, ?_, e.now, ?_⟩
    · rw [setView_views, e.views]
    · rw [setView_effs, e.effs]; unfold proceedsOf; rw [if_pos hemp]
  · rename_i hemp
    simp only [bind_ok] at h
    obtain ⟨c1, hb, h⟩ := h
    have e := bankCall_ext hb
    have hsne : v.a.schedules ≠ [] := fun e0 => hemp ((isEmpty_iff _).mpr e0)
    cases hsp : splitLoop (c.bal (.pay aid) v.a.payDenom) v.a.schedules (c.bal (.pay aid) v.a.payDenom) with
    | none => rw [hsp] at h; simp only [fail_ne_ok] at h
    | some parts =>
      rw [hsp] at h
      simp only [pure_ok] at h
      subst h
      refine ⟨_, hR, ⟨fun e0 => absurd e0 hsne, fun _ => ⟨parts, hsp, rfl⟩⟩, ?_, e.now, ?_⟩
      · rw [setView_views, e.views]; rfl
      · rw [setView_effs, e.effs]; unfold proceedsOf; rw [if_neg hemp]

theorem Settled.status {aid : Nat} {v w : AView} {R : Int} (h : Settled aid v R w) :
    (v.a.schedules = [] → w.a.status = .finished) ∧ (v.a.schedules ≠ [] → w.a.status = .vesting) := by
  refine ⟨fun e => ?_, fun e => ?_⟩
  · rw [h.1 e]
  · obtain ⟨_, _, rfl⟩ := h.2 e; rfl

theorem Settled.status_or {aid : Nat} {v w : AView} {R : Int} (h : Settled aid v R w) :
    w.a.status = .vesting ∨ w.a.status = .finished := by
  by_cases e : v.a.schedules = []
  · exact Or.inr (h.status.1 e)
  · exact Or.inl (h.status.2 e)

theorem Settled.keeps {aid : Nat} {v w : AView} {R : Int} (h : Settled aid v R w) :
    w.bids = v.bids ∧ w.matchedLen = v.matchedLen ∧ w.a.matchedPrice = v.a.matchedPrice := by
  by_cases e : v.a.schedules = []
  · rw [h.1 e]; exact ⟨rfl, rfl, rfl⟩
  · obtain ⟨_, _, rfl⟩ := h.2 e; exact ⟨rfl, rfl, rfl⟩

theorem allocate_ext {c c' : Ctx} {a : Auction} {mi : MInfo} (h : allocateSellingCoin c a mi = .ok c') :
    ∃ e, Ext c c' e ∧ xf e = payXfers (.sell a.id) a.sellDenom mi.alloc := by
  unfold allocateSellingCoin at h
  simp only [bind_ok] at h
  obtain ⟨c1, hh, h⟩ := h
  obtain ⟨l1, e1, x1⟩ := hook_ext hh
  obtain ⟨l2, e2, x2⟩ := payOut_ext h
  exact ⟨_, e1.trans e2, by rw [xf_append, x1, x2]; rfl⟩

theorem refundRem_ext {c c' : Ctx} {a : Auction} (h : refundRemainingSellingCoin c a = .ok c') :
    ∃ rest, Ext c c' [.xfer ⟨.send, .sell a.id, .user a.auctioneer, rest⟩] := by
  unfold refundRemainingSellingCoin at h
  simp only [bind_ok] at h
  obtain ⟨coins, _, h⟩ := h
  exact ⟨coins, bankCall_ext h⟩

/-- the transfers of a settlement (`refund = []` for fixed-price auctions) -/
def settleXfers (aid : Nat) (v : AView) (alloc refund : List (Acc × Int)) (rest : List Coin) (R : Int) :
    List Transfer :=
  payXfers (.sell v.a.id) v.a.sellDenom alloc
    ++ [⟨.send, .sell v.a.id, .user v.a.auctioneer, rest⟩]
    ++ payXfers (.pay v.a.id) v.a.payDenom refund
    ++ [proceedsOf aid v R]

theorem closeFixed_inv {c c' : Ctx} {aid : Nat} {v : AView}
    (h : closeFixed c aid = .ok c') (hv : c.s.views[aid]? = some v) :
    ∃ R w rest e, 0 ≤ R ∧ Settled aid v R w ∧ c'.s.views = c.s.views.set aid w ∧ c'.s.now = c.s.now ∧
      c'.effs = c.effs ++ e ∧ xf e = settleXfers aid v (calcFixed v.a v.bids).alloc [] rest R := by
  unfold closeFixed at h
  simp only [bind_ok] at h
  obtain ⟨v', hv', c1, h1, c2, h2, h⟩ := h
  rw [view_ok_iff, hv] at hv'
  cases hv'
  obtain ⟨l1, e1, x1⟩ := allocate_ext h1
  obtain ⟨rest, e2⟩ := refundRem_ext h2
  have e12 := e1.trans e2
  obtain ⟨R, w, hR, hS, hvs, hnow, heff⟩ := applyVesting_inv h (by rw [e12.views]; exact hv)
  refine ⟨R, w, rest, (l1 ++ [.xfer ⟨.send, .sell v.a.id, .user v.a.auctioneer, rest⟩])
    ++ [.xfer (proceedsOf aid v R)], hR, hS, by rw [hvs, e12.views], by rw [hnow, e12.now], ?_, ?_⟩
  · rw [heff, e12.effs, List.append_assoc]
  · rw [xf_append, xf_append, x1, xf_xfer, xf_xfer]
    unfold settleXfers payXfers
    simp

theorem settleBatch_inv {c c' : Ctx} {aid : Nat} {v : AView} {mi : MInfo}
    (h : settleBatch c aid mi = .ok c') (hv : c.s.views[aid]? = some v) :
    ∃ R w rest e, 0 ≤ R ∧
      Settled aid { v with a := { v.a with matchedPrice := if mi.total > 0 then mi.price else 0 } } R w ∧
      c'.s.views = c.s.views.set aid w ∧ c'.s.now = c.s.now ∧
      c'.effs = c.effs ++ e ∧ xf e = settleXfers aid v mi.alloc mi.refund rest R := by
  unfold settleBatch at h
  simp only [bind_ok] at h
  obtain ⟨v', hv', c1, h1, c2, h2, c3, h3, v3, hv3, h⟩ := h
  rw [view_ok_iff, hv] at hv'
  cases hv'
  obtain ⟨l1, e1, x1⟩ := allocate_ext h1
  obtain ⟨rest, e2⟩ := refundRem_ext h2
  obtain ⟨l3, e3, x3⟩ := payOut_ext h3
  have e123 := (e1.trans e2).trans e3
  have hv3' : c3.s.views[aid]? = some v := by rw [e123.views]; exact hv
  rw [view_ok_iff, hv3'] at hv3
  cases hv3
  obtain ⟨R, w, hR, hS, hvs, hnow, heff⟩ := applyVesting_inv h
    (show (c3.setView aid _).s.views[aid]? = some _ from getElem?_set_self hv3')
  refine ⟨R, w, rest, ((l1 ++ [.xfer ⟨.send, .sell v.a.id, .user v.a.auctioneer, rest⟩]) ++ l3)
    ++ [.xfer (proceedsOf aid v R)], hR, hS, ?_, ?_, ?_, ?_⟩
  · rw [hvs, setView_views, List.set_set, e123.views]
  · rw [hnow, setView_now, e123.now]
  · rw [heff, setView_effs, e123.effs, List.append_assoc]; rfl
  · rw [xf_append, xf_append, xf_append, x1, x3, xf_xfer, xf_xfer]
    rfl

theorem extendRound_inv {c c' : Ctx} {aid : Nat} {v : AView}
    (h : extendRound c aid = .ok c') (hv : c.s.views[aid]? = some v) :
    c' = c.setView aid { v with a := { v.a with
      endTimes := v.a.endTimes ++ [v.a.lastEnd + 86400 * (c.s.params.period : Int)] } } := by
  unfold extendRound at h
  simp only [bind_ok, pure_ok] at h
  obtain ⟨v', hv', rfl⟩ := h
  rw [view_ok_iff, hv] at hv'
  cases hv'
  rfl

/-- the store writes of `CalculateBatchAllocation` -/
def markBids (v : AView) (mi : MInfo) : AView :=
  { v with bids := v.bids.map (fun b => { b with matched := mi.matchedIds.contains b.id }),
           matchedLen := mi.matchedLen }

/-- the extension decision of `CloseBatchAuction` -/
def extDecision (v : AView) (mi : MInfo) : Prop :=
  v.a.maxExt + 1 ≠ v.a.endTimes.length ∧
    (v.matchedLen = 0 ∨ shouldExtend mi.matchedLen v.matchedLen v.a.rate = true)

theorem closeBatch_inv {c c' : Ctx} {aid : Nat} {v : AView}
    (h : closeBatch c aid = .ok c') (hv : c.s.views[aid]? = some v) :
    ∃ mi, calcBatch v.a v.bids v.allowed = some mi ∧
      (extDecision v mi →
        c' = c.setView aid { markBids v mi with a := { v.a with
          endTimes := v.a.endTimes ++ [v.a.lastEnd + 86400 * (c.s.params.period : Int)] } }) ∧
      (¬ extDecision v mi →
        ∃ R w rest e, 0 ≤ R ∧
          Settled aid { markBids v mi with a := { v.a with
            matchedPrice := if mi.total > 0 then mi.price else 0 } } R w ∧
          c'.s.views = c.s.views.set aid w ∧ c'.s.now = c.s.now ∧
          c'.effs = c.effs ++ e ∧ xf e = settleXfers aid v mi.alloc mi.refund rest R) := by
  unfold closeBatch at h
  simp only [bind_ok] at h
  obtain ⟨v', hv', h⟩ := h
  rw [view_ok_iff, hv] at hv'
  cases hv'
  cases hcb : calcBatch v.a v.bids v.allowed with
  | none => simp only [hcb, bind_ok, fail_ne_ok, false_and, exists_false] at h
  | some mi =>
    simp only [hcb, bind_ok, pure_ok, exists_eq_left'] at h
    refine ⟨mi, rfl, ?_⟩
    have hv0 : (c.setView aid (markBids v mi)).s.views[aid]? = some (markBids v mi) :=
      getElem?_set_self hv
    have hset : ∀ w, ((c.setView aid (markBids v mi)).setView aid w) = c.setView aid w := by
      intro w
      show ({ c with s := { c.s with views := (c.s.views.set aid _).set aid w } } : Ctx) = _
      rw [List.set_set]; rfl
    have settle : settleBatch (c.setView aid (markBids v mi)) aid mi = .ok c' →
        ∃ R w rest e, 0 ≤ R ∧
          Settled aid { markBids v mi with a := { v.a with
            matchedPrice := if mi.total > 0 then mi.price else 0 } } R w ∧
          c'.s.views = c.s.views.set aid w ∧ c'.s.now = c.s.now ∧
          c'.effs = c.effs ++ e ∧ xf e = settleXfers aid v mi.alloc mi.refund rest R := by
      intro hs
      obtain ⟨R, w, rest, e, hR, hS, hvs, hnow, heff, hx⟩ := settleBatch_inv hs hv0
      refine ⟨R, w, rest, e, hR, hS, ?_, hnow, heff, hx⟩
      rw [hvs, setView_views, List.set_set]
    have extend : extendRound (c.setView aid (markBids v mi)) aid = .ok c' →
        c' = c.setView aid { markBids v mi with a := { v.a with
          endTimes := v.a.endTimes ++ [v.a.lastEnd + 86400 * (c.s.params.period : Int)] } } := by
      intro hs
      rw [extendRound_inv hs hv0, hset]
      rfl
    unfold extDecision
    split at h
    · rename_i h1
      exact ⟨fun d => absurd h1 d.1, fun _ => settle h⟩
    · rename_i h1
      split at h
      · rename_i h2
        exact ⟨fun _ => extend h, fun d => absurd ⟨h1, Or.inl h2⟩ d⟩
      · rename_i h2
        split at h
        · rename_i h3
          exact ⟨fun _ => extend h, fun d => absurd ⟨h1, Or.inr h3⟩ d⟩
        · rename_i h3
          refine ⟨fun d => ?_, fun _ => settle h⟩
          rcases d.2 with d2 | d2
          · exact absurd d2 h2
          · exact absurd d2 h3

end Fundraising.ProgressInv
