import Fundraising.Model.Match
/-
  Closed forms of the `LegacyDec` computations the module performs, for the operand
  ranges in which it performs them (non-negative amounts, positive prices).
  `PREC = 10^18`.
-/
namespace Fundraising
namespace Dec

theorem PREC_pos : (0 : Int) < PREC := by decide

theorem chopRoundNonneg_mul_PREC (x : Int) (hx : 0 ≤ x) : chopRoundNonneg (x * PREC) = x := by
  have h0 : (0 : Int) ≤ x * PREC := Int.mul_nonneg hx (by decide)
  unfold chopRoundNonneg
  rw [Int.tdiv_eq_ediv_of_nonneg h0, Int.tmod_eq_emod_of_nonneg h0]
  have h1 : x * PREC % PREC = 0 := Int.mul_emod_left x PREC
  have h2 : x * PREC / PREC = x := Int.mul_ediv_cancel x (by decide)
  simp [h1, h2]

theorem chopRound_mul_PREC (x : Int) (hx : 0 ≤ x) : chopRound (x * PREC) = x := by
  have h0 : (0 : Int) ≤ x * PREC := Int.mul_nonneg hx (by decide)
  unfold chopRound
  rw [if_neg (by omega)]
  exact chopRoundNonneg_mul_PREC x hx

/-- `LegacyNewDecFromInt(a).Mul(p)` is exact: `a·p` -/
theorem mul_ofInt (a : Int) (p : Dec) (ha : 0 ≤ a) (hp : 0 ≤ p) : mul (ofInt a) p = a * p := by
  unfold mul ofInt
  have : a * PREC * p = (a * p) * PREC := by
    rw [Int.mul_assoc, Int.mul_comm PREC p, ← Int.mul_assoc]
  rw [this]
  exact chopRound_mul_PREC _ (Int.mul_nonneg ha hp)

/-- `Ceil().TruncateInt()` of a non-negative decimal is the integer ceiling -/
theorem truncInt_ceil (x : Int) (hx : 0 ≤ x) : truncInt (ceil x) = (x + (PREC - 1)) / PREC := by
  unfold truncInt ceil
  rw [Int.tdiv_eq_ediv_of_nonneg hx, Int.tmod_eq_emod_of_nonneg hx]
  have hq : 0 ≤ x / PREC := Int.ediv_nonneg hx (by decide)
  by_cases h : x % PREC = 0
  · simp only [h, if_true]
    rw [Int.tdiv_eq_ediv_of_nonneg (Int.mul_nonneg hq (by decide)), Int.mul_ediv_cancel _ (by decide)]
    unfold PREC at *; omega
  · have hpos : ¬ x % PREC < 0 := by
      have := Int.emod_nonneg x (b := PREC) (by decide); omega
    simp only [h, hpos, if_false]
    have hq1 : 0 ≤ x / PREC + 1 := by omega
    rw [Int.tdiv_eq_ediv_of_nonneg (Int.mul_nonneg hq1 (by decide)), Int.mul_ediv_cancel _ (by decide)]
    unfold PREC at *; omega

/-- integer ceiling, characterised -/
theorem ceilDiv_spec (x : Int) (_hx : 0 ≤ x) :
    x ≤ ((x + (PREC - 1)) / PREC) * PREC ∧ ((x + (PREC - 1)) / PREC) * PREC < x + PREC := by
  unfold PREC; omega

/-- `LegacyNewDecFromInt(c).QuoTruncate(p).TruncateInt()` is `⌊c·10^18 / p⌋` -/
theorem truncInt_quoTrunc_ofInt (c : Int) (p : Dec) (hc : 0 ≤ c) (hp : 0 < p) :
    truncInt (quoTrunc (ofInt c) p) = c * PREC / p := by
  unfold truncInt quoTrunc chopTrunc ofInt
  have h1 : 0 ≤ c * PREC * (PREC * PREC) :=
    Int.mul_nonneg (Int.mul_nonneg hc (by decide)) (by decide)
  rw [Int.tdiv_eq_ediv_of_nonneg h1]
  have h2 : 0 ≤ c * PREC * (PREC * PREC) / p := Int.ediv_nonneg h1 (Int.le_of_lt hp)
  rw [Int.tdiv_eq_ediv_of_nonneg h2]
  have h3 : 0 ≤ c * PREC * (PREC * PREC) / p / PREC := Int.ediv_nonneg h2 (by decide)
  rw [Int.tdiv_eq_ediv_of_nonneg h3]
  -- (X / p) / PREC / PREC = X / (p * (PREC*PREC)) and X = (c*PREC) * (PREC*PREC)
  have dd : ∀ (x y z : Int), 0 ≤ y → x / y / z = x / (y * z) := by
    intro x y z hy
    rw [Int.ediv_ediv, if_neg (by intro h; exact absurd h.1 (by omega)), Int.sub_zero]
  have e1 : c * PREC * (PREC * PREC) / p / PREC / PREC = c * PREC * (PREC * PREC) / (p * (PREC * PREC)) := by
    rw [dd _ p PREC (Int.le_of_lt hp), dd _ (p * PREC) PREC (Int.mul_nonneg (Int.le_of_lt hp) (by decide)),
        Int.mul_assoc p PREC PREC]
  rw [e1]
  exact Int.mul_ediv_mul_of_pos_left _ _ (by decide)

/-- `LegacyNewDecFromInt(r).MulTruncate(w).TruncateInt()` is `⌊r·w / 10^18⌋` -/
theorem truncInt_mulTrunc_ofInt (r : Int) (w : Dec) (hr : 0 ≤ r) (hw : 0 ≤ w) :
    truncInt (mulTrunc (ofInt r) w) = r * w / PREC := by
  unfold truncInt mulTrunc chopTrunc ofInt
  have h1 : 0 ≤ r * PREC * w := Int.mul_nonneg (Int.mul_nonneg hr (by decide)) hw
  rw [Int.tdiv_eq_ediv_of_nonneg h1]
  have h2 : 0 ≤ r * PREC * w / PREC := Int.ediv_nonneg h1 (by decide)
  rw [Int.tdiv_eq_ediv_of_nonneg h2]
  have : r * PREC * w = (r * w) * PREC := by
    rw [Int.mul_assoc, Int.mul_comm PREC w, ← Int.mul_assoc]
  rw [this, Int.mul_ediv_cancel _ (by decide)]

end Dec

/-! ### the two conversions of `types/bid.go` -/

/-- paying-denominated bid: quantity `⌊amt·10^18 / price⌋` -/
theorem Bid.toSelling_pay (b : Bid) (pd : Denom) (h : b.denom = pd) (ha : 0 ≤ b.amt) (hp : 0 < b.price) :
    b.toSelling pd = b.amt * PREC / b.price := by
  unfold Bid.toSelling; rw [if_pos h]; exact Dec.truncInt_quoTrunc_ofInt _ _ ha hp

theorem Bid.toSelling_sell (b : Bid) (pd : Denom) (h : b.denom ≠ pd) : b.toSelling pd = b.amt := by
  unfold Bid.toSelling; rw [if_neg h]

theorem Bid.toPaying_pay (b : Bid) (pd : Denom) (h : b.denom = pd) : b.toPaying pd = b.amt := by
  unfold Bid.toPaying; rw [if_pos h]

/-- selling-denominated bid: reservation `⌈amt·price / 10^18⌉` -/
theorem Bid.toPaying_sell (b : Bid) (pd : Denom) (h : b.denom ≠ pd) (ha : 0 ≤ b.amt) (hp : 0 ≤ b.price) :
    b.toPaying pd = (b.amt * b.price + (PREC - 1)) / PREC := by
  unfold Bid.toPaying; rw [if_neg h, Dec.mul_ofInt _ _ ha hp]
  exact Dec.truncInt_ceil _ (Int.mul_nonneg ha hp)

end Fundraising
