import Fundraising.Spec.Invariants
import Fundraising.Proofs.ExecLemmas
import Fundraising.Proofs.Reach
import Fundraising.Proofs.VestingLemmas
import Fundraising.Proofs.GenesisProofs
/-
  The well-formedness invariant holds in every reachable state.
  STATEMENTS ARE FIXED (cited by every state-machine property file).
-/
namespace Fundraising

theorem wf_init : WF ({} : Core) := by
  sorry

theorem bankNonneg_init : BankNonneg ({} : Core) := by
  sorry

/-- every operation — successful or not — preserves well-formedness -/
theorem wf_step (st : State) (op : Op) (h : WF st.core) : WF (step st op).2.core := by
  sorry

/-- no operation makes a balance negative -/
theorem bankNonneg_step (st : State) (op : Op) (h : BankNonneg st.core) :
    BankNonneg (step st op).2.core := by
  sorry

theorem wf_reach (st : State) (h : Reach st) : WF st.core :=
  reach_induction (P := fun st => WF st.core) wf_init (fun st op _ ih => wf_step st op ih) st h

theorem bankNonneg_reach (st : State) (h : Reach st) : BankNonneg st.core :=
  reach_induction (P := fun st => BankNonneg st.core) bankNonneg_init
    (fun st op _ ih => bankNonneg_step st op ih) st h

end Fundraising
