import Fundraising.Spec.Invariants
import Fundraising.Proofs.ExecLemmas
import Fundraising.Proofs.Reach
import Fundraising.Proofs.VestingLemmas
import Fundraising.Proofs.GenesisProofs
import Fundraising.Proofs.WFBasic
import Fundraising.Proofs.WFCreate
import Fundraising.Proofs.WFBid
import Fundraising.Proofs.WFAllowed
import Fundraising.Proofs.WFBlock
/-
  The well-formedness invariant holds in every reachable state.
  STATEMENTS ARE FIXED (cited by every state-machine property file).
-/
namespace Fundraising

theorem wf_init : WF ({} : Core) := by
  refine ⟨⟨by decide, by decide⟩, ?_, rfl⟩
  intro i v h
  simp at h

theorem bankNonneg_init : BankNonneg ({} : Core) := by
  intro a d
  exact Int.le_refl 0

/-! ### the message server -/

theorem handle_wf {c c' : Ctx} {m : Msg} (h : handle c m = .ok c')
    (hvb : validateBasic m = true) (hw : WF c.s) :
    WF c'.s ∧ (BankNonneg c.s → BankNonneg c'.s) := by
  cases m with
  | create m => exact WFInv.createAuction_wf h hvb hw
  | cancel signer aid => exact WFInv.cancelAuction_wf h hw
  | place bidder aid t price denom amt =>
    cases t with
    | none => simp only [handle, WFInv.fail_ne_ok] at h
    | some t =>
      simp only [validateBasic, Bool.and_eq_true, decide_eq_true_eq] at hvb
      obtain ⟨⟨⟨⟨h1, h2⟩, _⟩, h4⟩, _⟩ := hvb
      exact WFInv.placeBid_wf h h1 h2 h4 hw
  | modify bidder aid bidId price denom amt =>
    simp only [validateBasic, Bool.and_eq_true, decide_eq_true_eq] at hvb
    obtain ⟨⟨⟨_, h2⟩, _⟩, h4⟩ := hvb
    exact WFInv.modifyBid_wf h h2 h4 hw
  | addAllowed aid ab =>
    simp only [handle, WFInv.bind_ok] at h
    obtain ⟨_, hc, h⟩ := h
    exact WFInv.addAllowedBidders_wf h hw
  | updateParams signer p =>
    simp only [handle, WFInv.bind_ok, WFInv.pure_ok] at h
    obtain ⟨_, _, _, _, _, hc, rfl⟩ := h
    rw [check_ok_iff] at hc
    exact ⟨WFInv.updateParams_wf hw hc, id⟩

theorem deliver_wf {c c' : Ctx} {m : Msg} (h : deliver c m = .ok c') (hw : WF c.s) :
    WF c'.s ∧ (BankNonneg c.s → BankNonneg c'.s) := by
  unfold deliver at h
  simp only [WFInv.bind_ok] at h
  obtain ⟨_, hc, h⟩ := h
  rw [check_ok_iff] at hc
  exact handle_wf h hc hw

/-! ### the step function -/

theorem runAtomic_inv (st : State) (recover : Bool) (f : Ctx → M Ctx) (hw : WF st.core)
    (hf : ∀ c', f { s := st.core, ctl := st.ctl } = .ok c' →
      WF c'.s ∧ (BankNonneg st.core → BankNonneg c'.s)) :
    WF (runAtomic st recover f).2.core ∧
      (BankNonneg st.core → BankNonneg (runAtomic st recover f).2.core) := by
  rcases runAtomic_cases st recover f with ⟨c, hc, e⟩ | ⟨e, _, h2, _⟩
  · rw [e]; exact hf c hc
  · rw [h2]; exact ⟨hw, id⟩

theorem step_inv (st : State) (op : Op) (hw : WF st.core) :
    WF (step st op).2.core ∧ (BankNonneg st.core → BankNonneg (step st op).2.core) := by
  cases op with
  | reset => exact ⟨wf_init, fun _ => bankNonneg_init⟩
  | fund u d amt =>
    refine ⟨⟨hw.params, hw.views, hw.switchOff⟩, ?_⟩
    intro hn a d'
    show 0 ≤ st.core.bank a d' + (if a = .user u ∧ d' = d ∧ 0 < amt then amt else 0)
    have := hn a d'
    split
    · rename_i h; have := h.2.2; omega
    · omega
  | gift src dst d amt =>
    unfold step
    by_cases h0 : amt ≤ 0
    · simp only [h0, if_true]; exact ⟨hw, id⟩
    · simp only [h0, if_false]
      cases hs : st.core.bank.sendCoins (.user src) dst [⟨d, amt⟩] with
      | none => exact ⟨hw, id⟩
      | some b =>
        refine ⟨⟨hw.params, hw.views, hw.switchOff⟩, ?_⟩
        intro hn
        exact WFInv.sendCoins_nonneg hn (by intro x hx; simp at hx; subst hx; show (0 : Int) ≤ amt; omega) hs
  | msg m => exact runAtomic_inv st true _ hw (fun c' h => deliver_wf h hw)
  | kadd aid abs => exact runAtomic_inv st true _ hw (fun c' h => WFInv.addAllowedBidders_wf h hw)
  | kupd aid u cap => exact runAtomic_inv st true _ hw (fun c' h => WFInv.updateAllowedBidder_wf h hw)
  | block t =>
    have hw' : WF ({ st with core := { st.core with now := t } } : State).core :=
      ⟨hw.params, hw.views, hw.switchOff⟩
    have r := runAtomic_inv { st with core := { st.core with now := t } } false
      (fun c => beginBlock c t) hw' (fun c' h => WFInv.beginBlock_wf h hw')
    exact ⟨r.1, r.2⟩
  | genesis =>
    unfold step
    simp only [reimport_eq st.core hw]
    exact ⟨hw, id⟩
  | listeners n => exact ⟨hw, id⟩
  | failhook name idx => exact ⟨hw, id⟩
  | fault k => exact ⟨hw, id⟩
  | query q => exact ⟨hw, id⟩

/-- every operation — successful or not — preserves well-formedness -/
theorem wf_step (st : State) (op : Op) (h : WF st.core) : WF (step st op).2.core :=
  (step_inv st op h).1

/-- no operation makes a balance negative (in a well-formed state: the fee coins of
    `Params` must be valid, which `WF` records) -/
theorem bankNonneg_step (st : State) (op : Op) (h : BankNonneg st.core) (hw : WF st.core) :
    BankNonneg (step st op).2.core :=
  (step_inv st op hw).2 h

theorem wf_reach (st : State) (h : Reach st) : WF st.core :=
  reach_induction (P := fun st => WF st.core) wf_init (fun st op _ ih => wf_step st op ih) st h

theorem bankNonneg_reach (st : State) (h : Reach st) : BankNonneg st.core :=
  (reach_induction (P := fun st => WF st.core ∧ BankNonneg st.core) ⟨wf_init, bankNonneg_init⟩
    (fun st op _ ih => ⟨wf_step st op ih.1, bankNonneg_step st op ih.2 ih.1⟩) st h).2

end Fundraising
