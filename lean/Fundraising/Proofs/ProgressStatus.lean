import Fundraising.Proofs.ProgressBlock
/-
  Per-status inversion of one `BeginBlocker` iteration, the vesting split of a settlement,
  and the filtering of a block's transfers by debited account.
-/
namespace Fundraising.ProgressInv
open Fundraising.WFInv (bind_ok pure_ok fail_ne_ok)

theorem blockStep_standby {c c' : Ctx} {aid : Nat} {v : AView} (h : blockStep c aid = .ok c')
    (hv : c.s.views[aid]? = some v) (hs : v.a.status = .standby) :
    (v.a.startTime ≤ c.s.now → c'.s.views[aid]? = some { v with a := { v.a with status := .started } }) ∧
    (c.s.now < v.a.startTime → c' = c) := by
  unfold blockStep at h
  simp only [bind_ok] at h
  obtain ⟨v', hv', h⟩ := h
  rw [view_ok_iff, hv] at hv'
  cases hv'
  simp only [hs] at h
  split at h
  · rename_i hd
    rw [pure_ok] at h; subst h
    exact ⟨fun _ => getElem?_set_self hv, fun hlt => absurd hd (by omega)⟩
  · rename_i hd
    rw [pure_ok] at h
    exact ⟨fun hle => absurd hle hd, fun _ => h.symm⟩

theorem blockStep_terminal {c c' : Ctx} {aid : Nat} {v : AView} (h : blockStep c aid = .ok c')
    (hv : c.s.views[aid]? = some v) (hs : v.a.status = .finished ∨ v.a.status = .cancelled) :
    c' = c := by
  unfold blockStep at h
  simp only [bind_ok] at h
  obtain ⟨v', hv', h⟩ := h
  rw [view_ok_iff, hv] at hv'
  cases hv'
  rcases hs with hs | hs <;> simp only [hs, pure_ok] at h <;> exact h.symm

theorem blockStep_vesting {c c' : Ctx} {aid : Nat} {v : AView} (h : blockStep c aid = .ok c')
    (hv : c.s.views[aid]? = some v) (hs : v.a.status = .vesting) :
    releaseVesting c aid = .ok c' := by
  unfold blockStep at h
  simp only [bind_ok] at h
  obtain ⟨v', hv', h⟩ := h
  rw [view_ok_iff, hv] at hv'
  cases hv'
  simp only [hs] at h
  exact h

/-- the view after extending the round -/
def extended (v : AView) (mi : MInfo) (next : Int) : AView :=
  { markBids v mi with a := { v.a with endTimes := v.a.endTimes ++ [next] } }

/-- the view `ApplyVestingSchedules` starts from when a batch auction settles -/
def priced (v : AView) (mi : MInfo) : AView :=
  { markBids v mi with a := { v.a with matchedPrice := if mi.total > 0 then mi.price else 0 } }

/-- what a settling iteration leaves: the view and the effects -/
def SettleOut (c c' : Ctx) (aid : Nat) (v v0 : AView) (alloc refund : List (Acc × Int)) : Prop :=
  ∃ R w rest e, 0 ≤ R ∧ Settled aid v0 R w ∧ c'.s.views[aid]? = some w ∧
    c'.effs = c.effs ++ e ∧ xf e = settleXfers aid v alloc refund rest R

theorem blockStep_started_cases {c c' : Ctx} {aid : Nat} {v : AView} (h : blockStep c aid = .ok c')
    (hv : c.s.views[aid]? = some v) (hs : v.a.status = .started) :
    (c.s.now < v.a.lastEnd ∧ c' = c) ∨
    (v.a.lastEnd ≤ c.s.now ∧ v.a.type = .fixed ∧
      SettleOut c c' aid v v (calcFixed v.a v.bids).alloc []) ∨
    (v.a.lastEnd ≤ c.s.now ∧ v.a.type = .batch ∧ ∃ mi, calcBatch v.a v.bids v.allowed = some mi ∧
      ((extDecision v mi ∧ ∃ next, c'.s.views[aid]? = some (extended v mi next)) ∨
       (¬ extDecision v mi ∧ SettleOut c c' aid v (priced v mi) mi.alloc mi.refund))) := by
  obtain ⟨hnd, hd⟩ := blockStep_started h hv hs
  by_cases hdue : v.a.lastEnd ≤ c.s.now
  · obtain ⟨hf, hb⟩ := hd hdue
    cases ht : v.a.type
    · obtain ⟨R, w, rest, e, hR, hS, hvs, _, heff, hx⟩ := closeFixed_inv (hf ht) hv
      refine Or.inr (Or.inl ⟨hdue, rfl, R, w, rest, e, hR, hS, ?_, heff, hx⟩)
      rw [hvs]; exact getElem?_set_self hv
    · obtain ⟨mi, hmi, hext, hset⟩ := closeBatch_inv (hb ht) hv
      refine Or.inr (Or.inr ⟨hdue, rfl, mi, hmi, ?_⟩)
      by_cases hde : extDecision v mi
      · refine Or.inl ⟨hde, v.a.lastEnd + 86400 * (c.s.params.period : Int), ?_⟩
        rw [hext hde]
        exact getElem?_set_self hv
      · obtain ⟨R, w, rest, e, hR, hS, hvs, _, heff, hx⟩ := hset hde
        refine Or.inr ⟨hde, R, w, rest, e, hR, hS, ?_, heff, hx⟩
        rw [hvs]; exact getElem?_set_self hv
  · exact Or.inl ⟨by omega, hnd (by omega)⟩

/-! ### the vesting split -/

theorem Settled.vesting {aid : Nat} {v0 w : AView} {R : Int} (h : Settled aid v0 R w)
    (hvq : v0.vqs = []) (hsched : (v0.a.schedules.map (·.release)).Pairwise (· < ·)) :
    (v0.a.schedules = [] → w.a.status = .finished ∧ w.vqs = []) ∧
    (v0.a.schedules ≠ [] → w.a.status = .vesting ∧
      ∃ parts, splitLoop R v0.a.schedules R = some parts ∧
        w.vqs.map (fun q => (q.release, q.amt)) = parts ∧
        (∀ q ∈ w.vqs, q.released = false ∧ q.denom = v0.a.payDenom ∧ q.auctioneer = v0.a.auctioneer)) := by
  refine ⟨fun e => ?_, fun e => ?_⟩
  · rw [h.1 e]; exact ⟨rfl, hvq⟩
  · obtain ⟨parts, hsp, rfl⟩ := h.2 e
    refine ⟨rfl, parts, hsp, ?_⟩
    have hrel := splitLoop_release R _ _ _ hsp
    have hfold := foldl_setVQ (vqOf aid v0.a) (fun _ => rfl) parts v0.vqs (by rw [hrel]; exact hsched)
      (by rw [hvq]; intro y hy; cases hy)
    rw [hvq, List.nil_append] at hfold
    simp only
    rw [hvq, hfold]
    constructor
    · rw [List.map_map]
      have : ((fun q : VQ => (q.release, q.amt)) ∘ vqOf aid v0.a) = id := by
        funext p; rfl
      rw [this, List.map_id]
    · intro q hq
      obtain ⟨p, _, rfl⟩ := List.mem_map.mp hq
      exact ⟨rfl, rfl, rfl⟩

/-! ### filtering a block's transfers -/

theorem filter_segment (P : Transfer → Bool) (pre seg post : List Eff)
    (hf : ∀ x ∈ xf pre ++ xf post, P x = false) (hs : ∀ x ∈ xf seg, P x = true) :
    (xf (pre ++ seg ++ post)).filter P = xf seg := by
  rw [xf_append, xf_append, List.filter_append, List.filter_append]
  have h1 : (xf pre).filter P = [] := by
    rw [List.filter_eq_nil_iff]
    intro x hx
    rw [hf x (List.mem_append_left _ hx)]; simp
  have h2 : (xf post).filter P = [] := by
    rw [List.filter_eq_nil_iff]
    intro x hx
    rw [hf x (List.mem_append_right _ hx)]; simp
  have h3 : (xf seg).filter P = xf seg := by
    rw [List.filter_eq_self]
    exact hs
  rw [h1, h2, h3]; simp

theorem mem_segment {pre seg post : List Eff} {x : Transfer} (h : x ∈ xf seg) :
    x ∈ xf (pre ++ seg ++ post) := by
  rw [xf_append, xf_append]
  exact List.mem_append_left _ (List.mem_append_right _ h)

end Fundraising.ProgressInv
