import Fundraising.Proofs.WFBasic
/-
  `AddAllowedBidders` / `UpdateAllowedBidder` preserve `WF` and `BankNonneg`:
  the allow-list stays strictly sorted by bidder, every entry stays valid with a positive
  cap, and no bidder is ever removed from the list (so every recorded bid stays listed).
-/
namespace Fundraising.WFInv

/-! ### `setAllowed` on a sorted list -/

theorem mem_setAllowed {x y : Allowed} : ∀ {l : List Allowed},
    y ∈ setAllowed l x → y = x ∨ y ∈ l := by
  intro l
  induction l with
  | nil =>
    intro h
    simp [setAllowed, upsertBy] at h
    exact Or.inl h
  | cons z zs ih =>
    intro h
    unfold setAllowed upsertBy at h
    split at h
    · rcases List.mem_cons.mp h with h | h
      · exact Or.inl h
      · exact Or.inr h
    · split at h
      · rcases List.mem_cons.mp h with h | h
        · exact Or.inl h
        · exact Or.inr (List.mem_cons_of_mem _ h)
      · rcases List.mem_cons.mp h with h | h
        · exact Or.inr (h ▸ List.mem_cons_self ..)
        · rcases ih h with h | h
          · exact Or.inl h
          · exact Or.inr (List.mem_cons_of_mem _ h)

theorem setAllowed_sorted {x : Allowed} : ∀ {l : List Allowed},
    (l.map (·.bidder)).Pairwise (· < ·) → ((setAllowed l x).map (·.bidder)).Pairwise (· < ·) := by
  intro l
  induction l with
  | nil =>
    intro _
    simp [setAllowed, upsertBy]
  | cons z zs ih =>
    intro h
    rw [List.map_cons, List.pairwise_cons] at h
    obtain ⟨hz, hs⟩ := h
    have hz' : ∀ w ∈ zs, (z.bidder : Nat) < w.bidder := fun w hw =>
      hz _ (List.mem_map.mpr ⟨w, hw, rfl⟩)
    unfold setAllowed upsertBy
    split
    · rename_i hlt
      have hlt' : (x.bidder : Nat) < z.bidder := Int.ofNat_lt.mp hlt
      rw [List.map_cons, List.pairwise_cons]
      refine ⟨?_, ?_⟩
      · intro b hb
        rw [List.map_cons] at hb
        rcases List.mem_cons.mp hb with rfl | hb
        · exact hlt'
        · exact Nat.lt_trans hlt' (hz b hb)
      · rw [List.map_cons, List.pairwise_cons]
        exact ⟨hz, hs⟩
    · split
      · rename_i _ heq
        have heq' : (x.bidder : Nat) = z.bidder := Int.ofNat_inj.mp heq
        rw [List.map_cons, List.pairwise_cons]
        refine ⟨?_, hs⟩
        intro b hb
        show (x.bidder : Nat) < b
        rw [heq']
        exact hz b hb
      · rename_i hnlt hne
        have hgt : (z.bidder : Nat) < x.bidder := by
          have h1 : ¬ (x.bidder : Nat) < z.bidder := fun h => hnlt (Int.ofNat_lt.mpr h)
          have h2 : ¬ (x.bidder : Nat) = z.bidder := fun h => hne (congrArg Int.ofNat h)
          exact Nat.lt_of_le_of_ne (Nat.le_of_not_lt h1) (fun h => h2 h.symm)
        rw [List.map_cons, List.pairwise_cons]
        refine ⟨?_, ih hs⟩
        intro b hb
        obtain ⟨w, hw, rfl⟩ := List.mem_map.mp hb
        rcases mem_setAllowed hw with rfl | hw
        · exact hgt
        · exact hz' w hw

/-- every key of `l` is still a key after `setAllowed` -/
theorem setAllowed_keys {x : Allowed} : ∀ {l : List Allowed} {w : Allowed},
    w ∈ l → ∃ z ∈ setAllowed l x, z.bidder = w.bidder := by
  intro l
  induction l with
  | nil => intro w hw; cases hw
  | cons y ys ih =>
    intro w hw
    unfold setAllowed upsertBy
    split
    · exact ⟨w, List.mem_cons_of_mem _ hw, rfl⟩
    · split
      · rename_i _ heq
        have heq' : (x.bidder : Nat) = y.bidder := Int.ofNat_inj.mp heq
        rcases List.mem_cons.mp hw with rfl | hw
        · exact ⟨x, List.mem_cons_self .., heq'⟩
        · exact ⟨w, List.mem_cons_of_mem _ hw, rfl⟩
      · rcases List.mem_cons.mp hw with rfl | hw
        · exact ⟨w, List.mem_cons_self .., rfl⟩
        · obtain ⟨z, hz, hzb⟩ := ih hw
          exact ⟨z, List.mem_cons_of_mem _ hz, hzb⟩

theorem lookupAllowed_isSome_iff {l : List Allowed} {u : Acc} :
    (lookupAllowed l u).isSome = true ↔ ∃ w ∈ l, w.bidder = u := by
  unfold lookupAllowed
  rw [List.find?_isSome]
  constructor
  · rintro ⟨w, hw, hb⟩
    exact ⟨w, hw, by simpa using hb⟩
  · rintro ⟨w, hw, hb⟩
    exact ⟨w, hw, by simpa using hb⟩

theorem setAllowed_lookup {l : List Allowed} {x : Allowed} {u : Acc}
    (h : (lookupAllowed l u).isSome = true) : (lookupAllowed (setAllowed l x) u).isSome = true := by
  rw [lookupAllowed_isSome_iff] at h ⊢
  obtain ⟨w, hw, hb⟩ := h
  obtain ⟨z, hz, hzb⟩ := setAllowed_keys (x := x) hw
  exact ⟨z, hz, hzb.trans hb⟩

theorem setAllowed_caps {l : List Allowed} {x : Allowed}
    (hl : ∀ y ∈ l, validAcc y.bidder = true ∧ 0 < y.cap)
    (hx : validAcc x.bidder = true ∧ 0 < x.cap) :
    ∀ y ∈ setAllowed l x, validAcc y.bidder = true ∧ 0 < y.cap := by
  intro y hy
  rcases mem_setAllowed hy with rfl | hy
  · exact hx
  · exact hl y hy

/-! ### the loop of `AddAllowedBidders` -/

theorem addLoop_inv {c : Ctx} {sa : Int} : ∀ {abs : List AllowedArg} {l l' : List Allowed},
    addLoop c sa abs l = .ok l' →
    (l.map (·.bidder)).Pairwise (· < ·) →
    (∀ y ∈ l, validAcc y.bidder = true ∧ 0 < y.cap) →
    (l'.map (·.bidder)).Pairwise (· < ·) ∧
    (∀ y ∈ l', validAcc y.bidder = true ∧ 0 < y.cap) ∧
    ∀ u, (lookupAllowed l u).isSome = true → (lookupAllowed l' u).isSome = true := by
  intro abs
  induction abs with
  | nil =>
    intro l l' h hs hc
    unfold addLoop at h
    rw [pure_ok] at h
    subst h
    exact ⟨hs, hc, fun _ h => h⟩
  | cons ab rest ih =>
    intro l l' h hs hc
    unfold addLoop at h
    simp only [bind_ok] at h
    obtain ⟨_, h1, _, h2, _, _, h⟩ := h
    rw [check_ok_iff] at h1 h2
    have hcap : 0 < ab.cap := by simpa using h2
    obtain ⟨s', c', k'⟩ := ih h (setAllowed_sorted hs)
      (setAllowed_caps hc ⟨h1, hcap⟩)
    exact ⟨s', c', fun u hu => k' u (setAllowed_lookup hu)⟩

/-- replacing the allow-list by one that is sorted, valid, and keeps all keys -/
theorem ViewWF.setAllowedList {i : Nat} {v : AView} (V : ViewWF i v) {l : List Allowed}
    (hs : (l.map (·.bidder)).Pairwise (· < ·))
    (hc : ∀ y ∈ l, validAcc y.bidder = true ∧ 0 < y.cap)
    (hk : ∀ u, (lookupAllowed v.allowed u).isSome = true → (lookupAllowed l u).isSome = true) :
    ViewWF i { v with allowed := l } :=
  { id := V.id
    auction := V.auction
    bids := fun b hb =>
      let B := V.bids b hb
      { auction := B.auction, bidder := B.bidder, price := B.price, amt := B.amt,
        listed := hk _ B.listed, fixed := B.fixed, batch := B.batch, minBid := B.minBid }
    bidIds := V.bidIds
    bidSeq := V.bidSeq
    caps := hc
    allowedSorted := hs
    noBidsBefore := V.noBidsBefore
    matchedLenBatch := V.matchedLenBatch
    matchedLenFixed := V.matchedLenFixed
    remaining := V.remaining
    vqsNone := V.vqsNone
    vqsSome := V.vqsSome
    vqsWF := V.vqsWF
    releasedPrefix := V.releasedPrefix
    vestingOpen := V.vestingOpen
    finishedAll := V.finishedAll }

/-! ### the two keeper calls -/

theorem addAllowedBidders_wf {c c' : Ctx} {aid : Nat} {abs : List AllowedArg}
    (h : addAllowedBidders c aid abs = .ok c') (hw : WF c.s) :
    WF c'.s ∧ (BankNonneg c.s → BankNonneg c'.s) := by
  unfold addAllowedBidders at h
  simp only [bind_ok, pure_ok] at h
  obtain ⟨_, _, v, hv, c1, hh, l, hl, rfl⟩ := h
  rw [view_ok_iff] at hv
  obtain ⟨f1, _, n1⟩ := hook_frame hh
  have hw1 : WF c1.s := WF.frame f1 hw
  have V := hw.views aid v hv
  obtain ⟨hs, hc, hk⟩ := addLoop_inv hl V.allowedSorted V.caps
  exact ⟨WF.ctx_setView hw1 aid _ (ViewWF.setAllowedList V hs hc hk), fun hn => n1 hn⟩

theorem updateAllowedBidder_wf {c c' : Ctx} {aid : Nat} {bidder : Acc} {cap : Int}
    (h : updateAllowedBidder c aid bidder cap = .ok c') (hw : WF c.s) :
    WF c'.s ∧ (BankNonneg c.s → BankNonneg c'.s) := by
  unfold updateAllowedBidder at h
  simp only [bind_ok, pure_ok] at h
  obtain ⟨v, hv, _, hc1, _, hc2, c1, hh, rfl⟩ := h
  rw [view_ok_iff] at hv
  rw [check_ok_iff] at hc1 hc2
  obtain ⟨f1, _, n1⟩ := hook_frame hh
  have hw1 : WF c1.s := WF.frame f1 hw
  have V := hw.views aid v hv
  have hcap : 0 < cap := by simpa using hc2
  obtain ⟨w, hwm, hwb⟩ := lookupAllowed_isSome_iff.mp hc1
  have hva : validAcc bidder = true := hwb ▸ (V.caps w hwm).1
  refine ⟨WF.ctx_setView hw1 aid _ (ViewWF.setAllowedList V (setAllowed_sorted V.allowedSorted)
    (setAllowed_caps V.caps ⟨hva, hcap⟩) (fun u hu => setAllowed_lookup hu)), fun hn => n1 hn⟩

end Fundraising.WFInv
