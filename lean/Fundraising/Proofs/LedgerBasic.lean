import Fundraising.Proofs.ExecLemmas
/-
  Tools for the ledger proofs (C02): the transfers of an effect log, the net change of a
  transfer, and the relation `Led c c' xs` — "from `c` to `c'` exactly the transfers `xs`
  were logged (plus hook entries) and every balance moved by their net".  The primitives
  (`bankCall`, `hook`, `setView`) satisfy it and it composes.

  `xfers`/`tdelta` are the same functions as `xfersOf`/`Transfer.delta` of
  Proofs/LedgerProofs.lean (which imports this file and identifies them by `rfl`).
-/
set_option linter.unusedSimpArgs false
set_option linter.unusedVariables false
namespace Fundraising.LedgerInv

theorem bind_ok {ε α β : Type} {x : Except ε α} {f : α → Except ε β} {b : β} :
    (x >>= f) = Except.ok b ↔ ∃ a, x = .ok a ∧ f a = .ok b := by
  cases x with
  | error e => simp [bind, Except.bind]
  | ok a => simp [bind, Except.bind]

theorem pure_ok {ε α : Type} {a b : α} : (pure a : Except ε α) = Except.ok b ↔ a = b := by
  simp [pure, Except.pure]

theorem fail_ok {α : Type} {c : Ctx} {e : Err} {b : α} : (c.fail e : M α) = Except.ok b ↔ False := by
  simp [Ctx.fail]

theorem check_ok {c : Ctx} {b : Bool} {u : Unit} : c.check b = Except.ok u ↔ b = true :=
  check_ok_iff

/-! ### transfers of a log -/

def xfers (effs : List Eff) : List Transfer :=
  effs.filterMap (fun e => match e with | .xfer t => some t | .hook .. => none)

theorem xfers_nil : xfers [] = [] := rfl

theorem xfers_append (l l' : List Eff) : xfers (l ++ l') = xfers l ++ xfers l' := by
  simp [xfers, List.filterMap_append]

theorem xfers_xfer (t : Transfer) : xfers [.xfer t] = [t] := rfl

theorem xfers_hooks (name : String) (args : List String) (is : List Nat) :
    xfers (is.map (fun i => Eff.hook i name args)) = [] := by
  induction is with
  | nil => rfl
  | cons i is ih => simp [xfers]

theorem xfers_filter_isHook (l : List Eff) : xfers (l.filter Eff.isHook) = [] := by
  induction l with
  | nil => rfl
  | cons e l ih =>
    cases e with
    | xfer t => simpa [List.filter, Eff.isHook] using ih
    | hook i n a => simpa [List.filter, Eff.isHook, xfers] using ih

/-! ### net change of a transfer -/

def amtOf (coins : List Coin) (d : Denom) : Int := ((coins.filter (·.denom == d)).map (·.amt)).sum

def tdelta (t : Transfer) (a : Addr) (d : Denom) : Int :=
  (if a = t.dst then amtOf t.coins d else 0) - (if a = t.src then amtOf t.coins d else 0)

def net (xs : List Transfer) (a : Addr) (d : Denom) : Int := (xs.map (fun t => tdelta t a d)).sum

theorem net_nil (a : Addr) (d : Denom) : net [] a d = 0 := rfl

theorem net_append (xs ys : List Transfer) (a : Addr) (d : Denom) :
    net (xs ++ ys) a d = net xs a d + net ys a d := by
  simp [net, List.map_append, List.sum_append]

theorem net_single (t : Transfer) (a : Addr) (d : Denom) : net [t] a d = tdelta t a d := by
  simp [net]

theorem amtOf_nil (d : Denom) : amtOf [] d = 0 := rfl

theorem amtOf_cons (c : Coin) (cs : List Coin) (d : Denom) :
    amtOf (c :: cs) d = (if c.denom = d then c.amt else 0) + amtOf cs d := by
  unfold amtOf
  by_cases h : c.denom = d
  · simp [List.filter_cons, h]
  · simp [List.filter_cons, h]

/-- `SendCoins` moves exactly the net of the transfer -/
theorem sendCoins_delta {coins : List Coin} : ∀ {b b' : Bank} {src dst : Addr},
    b.sendCoins src dst coins = some b' →
    ∀ a d, b' a d = b a d + ((if a = dst then amtOf coins d else 0) - (if a = src then amtOf coins d else 0)) := by
  induction coins with
  | nil =>
    intro b b' src dst h a d
    simp [Bank.sendCoins] at h; subst h
    simp [amtOf_nil]
  | cons x xs ih =>
    intro b b' src dst h a d
    unfold Bank.sendCoins at h
    by_cases hlt : b src x.denom < x.amt
    · simp [hlt] at h
    · simp only [hlt, if_false] at h
      rw [ih h a d, move_apply, amtOf_cons]
      have e3 : (if x.denom = d then x.amt else 0) = (if d = x.denom then x.amt else 0) := by
        by_cases h3 : d = x.denom
        · simp [h3]
        · simp [h3, Ne.symm h3]
      rw [e3]
      by_cases h3 : d = x.denom
      · simp only [h3, and_true, if_true]
        split <;> split <;> omega
      · simp only [h3, and_false, if_false]
        split <;> split <;> omega

/-! ### the relation -/

/-- from `c` to `c'` the log grew by hook entries and exactly the transfers `xs`, and every
    balance changed by the net of `xs` -/
def Led (c c' : Ctx) (xs : List Transfer) : Prop :=
  (∃ l, c'.effs = c.effs ++ l ∧ xfers l = xs) ∧
  ∀ a d, c'.s.bank a d = c.s.bank a d + net xs a d

theorem Led.refl (c : Ctx) : Led c c [] :=
  ⟨⟨[], by simp, rfl⟩, fun a d => by simp [net_nil]⟩

theorem Led.of_eqs {c c' : Ctx} (he : c'.effs = c.effs) (hb : c'.s.bank = c.s.bank) : Led c c' [] :=
  ⟨⟨[], by simp [he], rfl⟩, fun a d => by simp [net_nil, hb]⟩

theorem Led.trans {c c' c'' : Ctx} {xs ys : List Transfer} (h : Led c c' xs) (h' : Led c' c'' ys) :
    Led c c'' (xs ++ ys) := by
  obtain ⟨⟨l, hl, hx⟩, hb⟩ := h
  obtain ⟨⟨l', hl', hx'⟩, hb'⟩ := h'
  refine ⟨⟨l ++ l', by rw [hl', hl, List.append_assoc], by rw [xfers_append, hx, hx']⟩, ?_⟩
  intro a d
  rw [hb' a d, hb a d, net_append]; omega

theorem Led.trans_nil {c c' c'' : Ctx} {xs : List Transfer} (h : Led c c' xs) (h' : Led c' c'' []) :
    Led c c'' xs := by
  simpa using h.trans h'

theorem Led.nil_trans {c c' c'' : Ctx} {xs : List Transfer} (h : Led c c' []) (h' : Led c' c'' xs) :
    Led c c'' xs := by
  simpa using h.trans h'

theorem bankCall_led {c c' : Ctx} {k : XKind} {src dst : Addr} {coins : List Coin}
    (h : c.bankCall k src dst coins = .ok c') : Led c c' [⟨k, src, dst, coins⟩] := by
  obtain ⟨_, b, hb, rfl⟩ := bankCall_ok h
  refine ⟨⟨_, rfl, rfl⟩, ?_⟩
  intro a d
  rw [net_single]
  exact sendCoins_delta hb a d

theorem hook_led {c c' : Ctx} {name : String} {args : List String} (h : c.hook name args = .ok c') :
    Led c c' [] := by
  obtain ⟨h1, _, _, h4⟩ := hook_ok h
  refine ⟨⟨_, h4, xfers_hooks _ _ _⟩, ?_⟩
  intro a d
  simp [net_nil, h1]

theorem setView_led (c : Ctx) (aid : Nat) (v : AView) : Led c (c.setView aid v) [] :=
  Led.of_eqs rfl rfl

/-! ### transfers of a given shape -/

/-- `Led` with every logged transfer satisfying `P` -/
def LedP (P : Transfer → Prop) (c c' : Ctx) : Prop := ∃ xs, Led c c' xs ∧ ∀ x ∈ xs, P x

theorem LedP.refl (P : Transfer → Prop) (c : Ctx) : LedP P c c :=
  ⟨[], Led.refl c, by simp⟩

theorem LedP.of_nil {P : Transfer → Prop} {c c' : Ctx} (h : Led c c' []) : LedP P c c' :=
  ⟨[], h, by simp⟩

theorem LedP.of_single {P : Transfer → Prop} {c c' : Ctx} {t : Transfer} (h : Led c c' [t]) (hp : P t) :
    LedP P c c' :=
  ⟨[t], h, by simpa using hp⟩

theorem LedP.trans {P : Transfer → Prop} {c c' c'' : Ctx} (h : LedP P c c') (h' : LedP P c' c'') :
    LedP P c c'' := by
  obtain ⟨xs, hl, hp⟩ := h
  obtain ⟨ys, hl', hp'⟩ := h'
  refine ⟨xs ++ ys, hl.trans hl', ?_⟩
  intro x hx
  rcases List.mem_append.mp hx with hx | hx
  · exact hp x hx
  · exact hp' x hx

theorem LedP.mono {P Q : Transfer → Prop} {c c' : Ctx} (hpq : ∀ x, P x → Q x) (h : LedP P c c') :
    LedP Q c c' := by
  obtain ⟨xs, hl, hp⟩ := h
  exact ⟨xs, hl, fun x hx => hpq x (hp x hx)⟩

/-! ### `runAtomic` -/

/-- a successful atomic run commits the handler's context; a failed one keeps the core and
    logs no transfer -/
theorem runAtomic_led (st : State) (recover : Bool) (f : Ctx → M Ctx) :
    (∃ c, f { s := st.core, ctl := st.ctl } = .ok c ∧ (runAtomic st recover f).1.res = .ok ∧
        (runAtomic st recover f).1.effs = c.effs ∧ (runAtomic st recover f).2.core = c.s) ∨
    ((runAtomic st recover f).1.res ≠ .ok ∧ xfers (runAtomic st recover f).1.effs = [] ∧
        (runAtomic st recover f).2.core = st.core) := by
  unfold runAtomic
  cases h : f { s := st.core, ctl := st.ctl } with
  | ok c => exact Or.inl ⟨c, rfl, rfl, rfl, rfl⟩
  | error e =>
    refine Or.inr ⟨?_, xfers_filter_isHook _, rfl⟩
    simp only
    split <;> simp

/-- what `Led` from the initial context of an atomic run says about the committed outcome -/
theorem Led.start {s : Core} {ctl : Control} {c' : Ctx} {xs : List Transfer}
    (h : Led { s := s, ctl := ctl } c' xs) :
    xfers c'.effs = xs ∧ ∀ a d, c'.s.bank a d = s.bank a d + net xs a d := by
  obtain ⟨⟨l, hl, hx⟩, hb⟩ := h
  refine ⟨?_, hb⟩
  rw [hl]
  simpa using hx

end Fundraising.LedgerInv
