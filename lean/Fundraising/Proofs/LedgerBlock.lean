import Fundraising.Proofs.LedgerBasic
/-
  The transfers of `BeginBlocker`: every one leaves an escrow and goes to a user account,
  or moves the proceeds from the paying to the vesting escrow of the same auction.
-/
set_option linter.unusedSimpArgs false
set_option linter.unusedVariables false
namespace Fundraising.LedgerInv

/-- the shape of a settlement / release transfer -/
def BlockShape (x : Transfer) : Prop :=
  (∃ i u, (x.src = .sell i ∨ x.src = .pay i ∨ x.src = .vest i) ∧ x.dst = .user u) ∨
  (∃ i, x.src = .pay i ∧ x.dst = .vest i)

def IsEscrow (a : Addr) : Prop := ∃ i, a = .sell i ∨ a = .pay i ∨ a = .vest i

theorem shape_out {k : XKind} {src : Addr} {u : Acc} {coins : List Coin} (h : IsEscrow src) :
    BlockShape ⟨k, src, .user u, coins⟩ := by
  obtain ⟨i, hi⟩ := h
  exact Or.inl ⟨i, u, hi, rfl⟩

abbrev LedB := LedP BlockShape

theorem payOut_led {src : Addr} {d : Denom} (hs : IsEscrow src) (l : List (Acc × Int)) :
    ∀ {c c' : Ctx}, payOut c src d l = .ok c' → LedB c c' := by
  induction l with
  | nil =>
    intro c c' h
    simp only [payOut, pure_ok] at h
    subst h; exact LedP.refl _ _
  | cons p rest ih =>
    intro c c' h
    obtain ⟨u, amt⟩ := p
    unfold payOut at h
    split at h
    · exact ih h
    · simp only [bind_ok] at h
      obtain ⟨coins, _, c1, hbc, h⟩ := h
      exact (LedP.of_single (bankCall_led hbc) (shape_out hs)).trans (ih h)

theorem allocateSellingCoin_led {c c' : Ctx} {a : Auction} {mi : MInfo}
    (h : allocateSellingCoin c a mi = .ok c') : LedB c c' := by
  unfold allocateSellingCoin at h
  simp only [bind_ok] at h
  obtain ⟨c1, hhk, h⟩ := h
  exact (LedP.of_nil (hook_led hhk)).trans (payOut_led ⟨a.id, Or.inl rfl⟩ _ h)

theorem refundRemainingSellingCoin_led {c c' : Ctx} {a : Auction}
    (h : refundRemainingSellingCoin c a = .ok c') : LedB c c' := by
  unfold refundRemainingSellingCoin at h
  simp only [bind_ok] at h
  obtain ⟨coins, _, h⟩ := h
  exact LedP.of_single (bankCall_led h) (shape_out ⟨a.id, Or.inl rfl⟩)

theorem refundPayingCoin_led {c c' : Ctx} {a : Auction} {mi : MInfo}
    (h : refundPayingCoin c a mi = .ok c') : LedB c c' :=
  payOut_led ⟨a.id, Or.inr (Or.inl rfl)⟩ _ h

theorem applyVestingSchedules_led {c c' : Ctx} {aid : Nat}
    (h : applyVestingSchedules c aid = .ok c') : LedB c c' := by
  unfold applyVestingSchedules at h
  simp only [bind_ok, view_ok_iff] at h
  obtain ⟨v, hv, coins, _, h⟩ := h
  split at h
  · simp only [bind_ok, pure_ok] at h
    obtain ⟨c1, hbc, rfl⟩ := h
    exact (LedP.of_single (bankCall_led hbc) (shape_out ⟨aid, Or.inr (Or.inl rfl)⟩)).trans
      (LedP.of_nil (setView_led _ _ _))
  · simp only [bind_ok] at h
    obtain ⟨c1, hbc, h⟩ := h
    have l1 : LedB c c1 := LedP.of_single (bankCall_led hbc) (Or.inr ⟨aid, rfl, rfl⟩)
    split at h
    · exact (fail_ok.mp h).elim
    · rw [pure_ok] at h; subst h
      exact l1.trans (LedP.of_nil (setView_led _ _ _))

theorem closeFixed_led {c c' : Ctx} {aid : Nat} (h : closeFixed c aid = .ok c') : LedB c c' := by
  unfold closeFixed at h
  simp only [bind_ok, view_ok_iff] at h
  obtain ⟨v, hv, c1, h1, c2, h2, h3⟩ := h
  exact ((allocateSellingCoin_led h1).trans (refundRemainingSellingCoin_led h2)).trans
    (applyVestingSchedules_led h3)

theorem extendRound_led {c c' : Ctx} {aid : Nat} (h : extendRound c aid = .ok c') : LedB c c' := by
  unfold extendRound at h
  simp only [bind_ok, view_ok_iff, pure_ok] at h
  obtain ⟨v, hv, rfl⟩ := h
  exact LedP.of_nil (setView_led _ _ _)

theorem settleBatch_led {c c' : Ctx} {aid : Nat} {mi : MInfo} (h : settleBatch c aid mi = .ok c') :
    LedB c c' := by
  unfold settleBatch at h
  simp only [bind_ok, view_ok_iff] at h
  obtain ⟨v, hv, c1, h1, c2, h2, c3, h3, v', hv', h4⟩ := h
  exact ((((allocateSellingCoin_led h1).trans (refundRemainingSellingCoin_led h2)).trans
    (refundPayingCoin_led h3)).trans (LedP.of_nil (setView_led _ _ _))).trans
    (applyVestingSchedules_led h4)

theorem closeBatch_led {c c' : Ctx} {aid : Nat} (h : closeBatch c aid = .ok c') : LedB c c' := by
  unfold closeBatch at h
  simp only [bind_ok, view_ok_iff] at h
  obtain ⟨v, hv, h⟩ := h
  have l0 : ∀ w, LedB c (c.setView aid w) := fun w => LedP.of_nil (setView_led _ _ _)
  split at h
  · simp only [bind_ok, pure_ok] at h
    obtain ⟨mi, rfl, h⟩ := h
    split at h
    · exact (l0 _).trans (settleBatch_led h)
    · split at h
      · exact (l0 _).trans (extendRound_led h)
      · split at h
        · exact (l0 _).trans (extendRound_led h)
        · exact (l0 _).trans (settleBatch_led h)
  · simp only [bind_ok, fail_ok, false_and, exists_false] at h

theorem releaseLoop_led {aid : Nat} {auctioneer : Acc} {n : Nat} (l : List VQ) :
    ∀ {c c' : Ctx} {i : Nat}, releaseLoop c aid auctioneer n i l = .ok c' → LedB c c' := by
  induction l with
  | nil =>
    intro c c' i h
    simp only [releaseLoop, pure_ok] at h
    subst h; exact LedP.refl _ _
  | cons q rest ih =>
    intro c c' i h
    unfold releaseLoop at h
    split at h
    · simp only [bind_ok, view_ok_iff] at h
      obtain ⟨coins, _, c1, hbc, v, hv, h⟩ := h
      have l1 : LedB c c1 := LedP.of_single (bankCall_led hbc) (shape_out ⟨aid, Or.inr (Or.inr rfl)⟩)
      have l2 := l1.trans (LedP.of_nil (setView_led c1 aid { v with vqs := setVQ v.vqs { q with released := true } }))
      split at h
      · simp only [bind_ok, view_ok_iff, pure_ok] at h
        obtain ⟨w, _, _, rfl, h⟩ := h
        exact (l2.trans (LedP.of_nil (setView_led _ _ _))).trans (ih h)
      · simp only [bind_ok, pure_ok] at h
        obtain ⟨_, rfl, h⟩ := h
        exact l2.trans (ih h)
    · exact ih h

theorem releaseVesting_led {c c' : Ctx} {aid : Nat} (h : releaseVesting c aid = .ok c') : LedB c c' := by
  unfold releaseVesting at h
  simp only [bind_ok, view_ok_iff] at h
  obtain ⟨v, hv, h⟩ := h
  exact releaseLoop_led _ h

theorem blockStep_led {c c' : Ctx} {aid : Nat} (h : blockStep c aid = .ok c') : LedB c c' := by
  unfold blockStep at h
  simp only [bind_ok, view_ok_iff] at h
  obtain ⟨v, hv, h⟩ := h
  split at h
  · split at h
    · rw [pure_ok] at h; subst h; exact LedP.of_nil (setView_led _ _ _)
    · rw [pure_ok] at h; subst h; exact LedP.refl _ _
  · split at h
    · exact (fail_ok.mp h).elim
    · split at h
      · split at h
        · exact closeFixed_led h
        · exact closeBatch_led h
      · rw [pure_ok] at h; subst h; exact LedP.refl _ _
  · exact releaseVesting_led h
  · rw [pure_ok] at h; subst h; exact LedP.refl _ _
  · rw [pure_ok] at h; subst h; exact LedP.refl _ _

theorem blockLoop_led (l : List Nat) : ∀ {c c' : Ctx}, blockLoop c l = .ok c' → LedB c c' := by
  induction l with
  | nil =>
    intro c c' h
    simp only [blockLoop, pure_ok] at h
    subst h; exact LedP.refl _ _
  | cons aid rest ih =>
    intro c c' h
    simp only [blockLoop, bind_ok] at h
    obtain ⟨c1, h1, h2⟩ := h
    exact (blockStep_led h1).trans (ih h2)

theorem beginBlock_led {c c' : Ctx} {t : Int} (h : beginBlock c t = .ok c') : LedB c c' := by
  unfold beginBlock at h
  have l0 : LedB c { c with s := { c.s with now := t } } := LedP.of_nil (Led.of_eqs rfl rfl)
  exact l0.trans (blockLoop_led _ h)

end Fundraising.LedgerInv
