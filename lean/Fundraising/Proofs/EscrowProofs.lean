import Fundraising.Spec.Invariants
import Fundraising.Proofs.ExecLemmas
import Fundraising.Proofs.Reach
import Fundraising.Proofs.VestingLemmas
import Fundraising.Proofs.MatchLemmas
import Fundraising.Proofs.GenesisProofs
import Fundraising.Proofs.EscrowMsgs
import Fundraising.Proofs.EscrowBlock
/-
  C01 — escrow accounts hold what the records owe.
  STATEMENTS ARE FIXED (cited by Props/C01.lean, Props/C07.lean).
-/
namespace Fundraising

/-- every auction's three escrows cover what its records owe -/
def AllCovered (s : Core) : Prop := ∀ i v, s.views[i]? = some v → EscrowCovered s i v

/-- every auction's three escrows hold exactly what its records owe and nothing else, and
    the escrows of auctions not created yet are empty -/
def AllExact (s : Core) : Prop :=
  (∀ i v, s.views[i]? = some v → EscrowExact s i v) ∧ FutureEscrowsEmpty s

namespace EscrowInv

theorem allCovered_iff (s : Core) : AllCovered s ↔ AllCov s := Iff.rfl
theorem allExact_iff (s : Core) : AllExact s ↔ AllEx s := Iff.rfl

theorem escrowCovered_mono {s s' : Core} {j : Nat} {v : AView}
    (hb : ∀ x, escIdx x = some j → ∀ d, s.bank x d ≤ s'.bank x d)
    (h : EscrowCovered s j v) : EscrowCovered s' j v := by
  obtain ⟨a, b, c⟩ := h
  exact ⟨Int.le_trans a (hb _ rfl _), Int.le_trans b (hb _ rfl _), Int.le_trans c (hb _ rfl _)⟩

/-- a successful handler run: every case of `deliver`, for coverage -/
theorem deliver_cov {c c' : Ctx} {m : Msg} (h : deliver c m = .ok c') (hwf : WF c.s)
    (hnn : BankNonneg c.s) (hc : AllCov c.s) : AllCov c'.s := by
  rcases deliver_cases h with ⟨i, g⟩ | ⟨m', hcr⟩ | ⟨hv, hb⟩
  · exact g.allCov (fun v hv => hwf.views i v hv) hc
  · obtain ⟨b', v, e, hfr, hsl⟩ := create_spec hcr
    refine allCov_append (v := v) (by rw [e]) (by intro x j hx hj d; rw [e]; exact hfr x j hx hj d) ?_ hc
    rw [escrowCovered_iff]
    obtain ⟨h1, _, _⟩ := hsl v.a.sellDenom
    obtain ⟨_, h2, h3⟩ := hsl v.a.payDenom
    rw [h1, h2, h3]
    exact ⟨hnn _ _, hnn _ _, hnn _ _⟩
  · exact allCov_of_same hv (fun x j _ d => by rw [hb]) hc

theorem deliver_ex {c c' : Ctx} {m : Msg} (h : deliver c m = .ok c') (hwf : WF c.s)
    (hc : AllEx c.s) : AllEx c'.s := by
  rcases deliver_cases h with ⟨i, g⟩ | ⟨m', hcr⟩ | ⟨hv, hb⟩
  · exact g.allEx (fun v hv => hwf.views i v hv) hc
  · obtain ⟨b', v, e, hfr, hsl⟩ := create_spec hcr
    refine allEx_append (v := v) (by rw [e]) (by intro x j hx hj d; rw [e]; exact hfr x j hx hj d) ?_ hc
    rw [escrowExact_iff]
    intro d
    obtain ⟨h1, h2, h3⟩ := hsl d
    obtain ⟨e1, e2, e3⟩ := hc.2 c.s.views.length (Nat.le_refl _) d
    rw [h1, h2, h3]
    exact ⟨e1, e2, e3⟩
  · exact allEx_of_same hv (fun x j _ d => by rw [hb]) hc

/-- `runAtomic` keeps a predicate that the handler keeps on success -/
theorem runAtomic_keeps (P : Core → Prop) (st : State) (recover : Bool) (f : Ctx → M Ctx)
    (hf : ∀ c', f { s := st.core, ctl := st.ctl } = .ok c' → P c'.s) (hp : P st.core) :
    P (runAtomic st recover f).2.core := by
  rcases runAtomic_cases st recover f with ⟨c, hc, e⟩ | ⟨e, _, e2, _⟩
  · rw [e]; exact hf c hc
  · rw [e2]; exact hp

end EscrowInv

open EscrowInv

theorem covered_init : AllCovered ({} : Core) := by
  intro i v h
  simp at h

/-- every operation, including third-party transfers into escrow accounts, keeps the
    escrows covering what is owed -/
theorem covered_step (st : State) (op : Op) (hwf : WF st.core) (hnn : BankNonneg st.core)
    (h : AllCovered st.core) : AllCovered (step st op).2.core := by
  cases op with
  | reset => exact covered_init
  | fund u d amt =>
    refine allCov_of_same (s := st.core) rfl ?_ h
    intro x j hx d'
    simp only [step]
    simp [esc_ne_user hx]
  | gift src dst d amt =>
    simp only [step]
    by_cases hle : amt ≤ 0
    · rw [if_pos hle]; exact h
    · rw [if_neg hle, sendCoins_single]
      by_cases hlt : st.core.bank (.user src) d < amt
      · rw [if_pos hlt]; exact h
      · rw [if_neg hlt]
        intro j v hv
        refine escrowCovered_mono ?_ (h j v hv)
        intro x hx d'
        simp only [move_apply]
        simp only [esc_ne_user hx, false_and, if_false, Int.sub_zero]
        split <;> omega
  | msg m =>
    exact runAtomic_keeps AllCov st true _ (fun c' hc => deliver_cov hc hwf hnn h) h
  | kadd aid abs =>
    exact runAtomic_keeps AllCov st true _
      (fun c' hc => (add_good hc).allCov (fun v hv => hwf.views aid v hv) h) h
  | kupd aid u cap =>
    exact runAtomic_keeps AllCov st true _
      (fun c' hc => (upd_good hc).allCov (fun v hv => hwf.views aid v hv) h) h
  | block t =>
    have h' : AllCov ({ st.core with now := t } : Core) := allCov_of_same (s := st.core) rfl (fun _ _ _ _ => rfl) h
    exact runAtomic_keeps AllCov { st with core := { st.core with now := t } } false _
      (fun c' hc => beginBlock_keeps AllCov (fun i s s' g w p => g.allCov w p) hc
        (fun j v hv => hwf.views j v hv) h') h'
  | genesis =>
    simp only [step]
    rw [reimport_eq _ hwf]
    exact h
  | listeners n => exact h
  | failhook name idx => exact h
  | fault k => exact h
  | query q => exact h

theorem exact_init : AllExact ({} : Core) := by
  refine ⟨?_, ?_⟩
  · intro i v h
    simp at h
  · intro i _ d
    exact ⟨rfl, rfl, rfl⟩

/-- every operation other than a third-party transfer into an escrow account keeps the
    escrow balances EXACTLY equal to what is owed -/
theorem exact_step (st : State) (op : Op) (hwf : WF st.core) (hop : op.noEscrowGift = true)
    (h : AllExact st.core) : AllExact (step st op).2.core := by
  cases op with
  | reset => exact exact_init
  | fund u d amt =>
    refine allEx_of_same (s := st.core) rfl ?_ h
    intro x j hx d'
    simp only [step]
    simp [esc_ne_user hx]
  | gift src dst d amt =>
    simp only [step]
    by_cases hle : amt ≤ 0
    · rw [if_pos hle]; exact h
    · rw [if_neg hle, sendCoins_single]
      by_cases hlt : st.core.bank (.user src) d < amt
      · rw [if_pos hlt]; exact h
      · rw [if_neg hlt]
        refine allEx_of_same (s := st.core) rfl ?_ h
        intro x j hx d'
        simp only [move_apply]
        have hdst : x ≠ dst := by
          intro e; subst e
          cases x <;> simp [escIdx] at hx <;> simp [Op.noEscrowGift] at hop
        simp [esc_ne_user hx, hdst]
  | msg m =>
    exact runAtomic_keeps AllEx st true _ (fun c' hc => deliver_ex hc hwf h) h
  | kadd aid abs =>
    exact runAtomic_keeps AllEx st true _
      (fun c' hc => (add_good hc).allEx (fun v hv => hwf.views aid v hv) h) h
  | kupd aid u cap =>
    exact runAtomic_keeps AllEx st true _
      (fun c' hc => (upd_good hc).allEx (fun v hv => hwf.views aid v hv) h) h
  | block t =>
    have h' : AllEx ({ st.core with now := t } : Core) := allEx_of_same (s := st.core) rfl (fun _ _ _ _ => rfl) h
    exact runAtomic_keeps AllEx { st with core := { st.core with now := t } } false _
      (fun c' hc => beginBlock_keeps AllEx (fun i s s' g w p => g.allEx w p) hc
        (fun j v hv => hwf.views j v hv) h') h'
  | genesis =>
    simp only [step]
    rw [reimport_eq _ hwf]
    exact h
  | listeners n => exact h
  | failhook name idx => exact h
  | fault k => exact h
  | query q => exact h

end Fundraising
