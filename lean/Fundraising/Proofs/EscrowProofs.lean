import Fundraising.Spec.Invariants
import Fundraising.Proofs.ExecLemmas
import Fundraising.Proofs.Reach
import Fundraising.Proofs.VestingLemmas
import Fundraising.Proofs.MatchLemmas
/-
  C01 — escrow accounts hold what the records owe.
  STATEMENTS ARE FIXED (cited by Props/C01.lean, Props/C07.lean).
-/
namespace Fundraising

/-- every auction's three escrows cover what its records owe -/
def AllCovered (s : Core) : Prop := ∀ i v, s.views[i]? = some v → EscrowCovered s i v

/-- every auction's three escrows hold exactly what its records owe and nothing else, and
    the escrows of auctions not created yet are empty -/
def AllExact (s : Core) : Prop :=
  (∀ i v, s.views[i]? = some v → EscrowExact s i v) ∧ FutureEscrowsEmpty s

theorem covered_init : AllCovered ({} : Core) := by
  sorry

/-- every operation, including third-party transfers into escrow accounts, keeps the
    escrows covering what is owed -/
theorem covered_step (st : State) (op : Op) (hwf : WF st.core) (hnn : BankNonneg st.core)
    (h : AllCovered st.core) : AllCovered (step st op).2.core := by
  sorry

theorem exact_init : AllExact ({} : Core) := by
  sorry

/-- every operation other than a third-party transfer into an escrow account keeps the
    escrow balances EXACTLY equal to what is owed -/
theorem exact_step (st : State) (op : Op) (hwf : WF st.core) (hop : op.noEscrowGift = true)
    (h : AllExact st.core) : AllExact (step st op).2.core := by
  sorry

end Fundraising
