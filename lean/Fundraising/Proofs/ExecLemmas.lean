import Fundraising.Model.Step
/-
  Inversion lemmas for the execution primitives (`check`, `bankCall`, `hook`, `mkCoins`,
  `view`, `runAtomic`).  Shared by all state-machine proofs: a successful primitive
  tells exactly what it did.
-/
namespace Fundraising

theorem check_ok_iff {c : Ctx} {b : Bool} : c.check b = .ok () ↔ b = true := by
  unfold Ctx.check Ctx.fail
  cases b <;> simp

theorem check_error {c : Ctx} {b : Bool} {f : Fail} (h : c.check b = .error f) :
    b = false ∧ f = ⟨.reject, c.effs⟩ := by
  unfold Ctx.check Ctx.fail at h
  cases b <;> simp at h
  exact ⟨rfl, h.symm⟩

theorem view_ok_iff {c : Ctx} {aid : Nat} {v : AView} :
    c.view aid = .ok v ↔ c.s.views[aid]? = some v := by
  unfold Ctx.view Ctx.fail
  cases h : c.s.views[aid]? <;> simp

theorem mkCoins_ok {c : Ctx} {d : Denom} {amt : Int} {cs : List Coin} (h : mkCoins c d amt = .ok cs) :
    0 ≤ amt ∧ cs = (if amt = 0 then [] else [⟨d, amt⟩]) := by
  unfold mkCoins Ctx.fail at h
  by_cases h1 : amt < 0
  · simp [h1] at h
  · by_cases h2 : amt = 0
    · simp [h2] at h; simp [h2, h]
    · simp [h1, h2] at h; simp [h2, ← h]; omega

theorem mkCoins_of_nonneg (c : Ctx) (d : Denom) (amt : Int) (h : 0 ≤ amt) :
    mkCoins c d amt = .ok (if amt = 0 then [] else [⟨d, amt⟩]) := by
  unfold mkCoins
  by_cases h2 : amt = 0
  · simp [h2]
  · have : ¬ amt < 0 := by omega
    simp [this, h2]

/-- what a successful bank call did -/
theorem bankCall_ok {c c' : Ctx} {k : XKind} {src dst : Addr} {coins : List Coin}
    (h : c.bankCall k src dst coins = .ok c') :
    c.ctl.fault ≠ some c.calls ∧
    ∃ b, c.s.bank.sendCoins src dst coins = some b ∧
      c' = { c with s := { c.s with bank := b },
                    effs := c.effs ++ [.xfer ⟨k, src, dst, coins⟩],
                    calls := c.calls + 1 } := by
  unfold Ctx.bankCall Ctx.fail at h
  by_cases hf : c.ctl.fault = some c.calls
  · simp [hf] at h
  · simp only [hf, if_false] at h
    cases hb : c.s.bank.sendCoins src dst coins with
    | none => simp [hb] at h
    | some b =>
      simp only [hb] at h
      exact ⟨hf, b, rfl, (Except.ok.inj h).symm⟩

/-- a bank call succeeds when no fault is armed for it and the funds suffice -/
theorem bankCall_of_send {c : Ctx} {k : XKind} {src dst : Addr} {coins : List Coin} {b : Bank}
    (hf : c.ctl.fault ≠ some c.calls) (hb : c.s.bank.sendCoins src dst coins = some b) :
    c.bankCall k src dst coins =
      .ok { c with s := { c.s with bank := b },
                   effs := c.effs ++ [.xfer ⟨k, src, dst, coins⟩],
                   calls := c.calls + 1 } := by
  unfold Ctx.bankCall
  simp [hf, hb]

theorem sendCoins_nil (b : Bank) (src dst : Addr) : b.sendCoins src dst [] = some b := rfl

theorem sendCoins_single (b : Bank) (src dst : Addr) (d : Denom) (amt : Int) :
    b.sendCoins src dst [⟨d, amt⟩] =
      if b src d < amt then none else some (b.move src dst d amt) := by
  simp [Bank.sendCoins]

theorem move_apply (b : Bank) (src dst a : Addr) (d d' : Denom) (amt : Int) :
    (b.move src dst d amt) a d' =
      b a d' - (if a = src ∧ d' = d then amt else 0) + (if a = dst ∧ d' = d then amt else 0) := rfl

/-- the dispatcher only logs: a successful hook leaves state, controls and the call
    counter unchanged and appends hook entries only -/
theorem dispatchTo_ok {name : String} {args : List String} {is : List Nat} {c c' : Ctx}
    (h : dispatchTo name args is c = .ok c') :
    c'.s = c.s ∧ c'.ctl = c.ctl ∧ c'.calls = c.calls ∧
    c'.effs = c.effs ++ is.map (fun i => Eff.hook i name args) ∧
    ∀ i ∈ is, c.ctl.failhook ≠ some (name, i) := by
  induction is generalizing c with
  | nil =>
    simp [dispatchTo] at h; subst h; simp
  | cons i is ih =>
    unfold dispatchTo at h
    by_cases hf : c.ctl.failhook = some (name, i)
    · simp [hf, Ctx.fail] at h
    · simp only [hf, if_false] at h
      obtain ⟨h1, h2, h3, h4, h5⟩ := ih h
      refine ⟨h1, h2, h3, ?_, ?_⟩
      · simp [h4, List.append_assoc]
      · intro j hj
        rcases List.mem_cons.mp hj with rfl | hj
        · exact hf
        · exact h5 j hj

theorem hook_ok {c c' : Ctx} {name : String} {args : List String} (h : c.hook name args = .ok c') :
    c'.s = c.s ∧ c'.ctl = c.ctl ∧ c'.calls = c.calls ∧
    c'.effs = c.effs ++ (List.range c.ctl.listeners).map (fun i => Eff.hook i name args) :=
  let ⟨a, b, d, e, _⟩ := dispatchTo_ok h
  ⟨a, b, d, e⟩

/-- with no failing listener armed the hook succeeds -/
theorem dispatchTo_of_no_fail (name : String) (args : List String) (is : List Nat) (c : Ctx)
    (hf : c.ctl.failhook = none) : ∃ c', dispatchTo name args is c = .ok c' := by
  induction is generalizing c with
  | nil => exact ⟨c, rfl⟩
  | cons i is ih =>
    unfold dispatchTo
    simp only [hf]
    exact ih _ hf

theorem hook_of_no_fail (c : Ctx) (name : String) (args : List String)
    (hf : c.ctl.failhook = none) : ∃ c', c.hook name args = .ok c' :=
  dispatchTo_of_no_fail name args _ c hf

theorem setView_views (c : Ctx) (aid : Nat) (v : AView) :
    (c.setView aid v).s.views = c.s.views.set aid v := rfl

theorem setView_bank (c : Ctx) (aid : Nat) (v : AView) : (c.setView aid v).s.bank = c.s.bank := rfl
theorem setView_params (c : Ctx) (aid : Nat) (v : AView) : (c.setView aid v).s.params = c.s.params := rfl
theorem setView_now (c : Ctx) (aid : Nat) (v : AView) : (c.setView aid v).s.now = c.s.now := rfl
theorem setView_ctl (c : Ctx) (aid : Nat) (v : AView) : (c.setView aid v).ctl = c.ctl := rfl
theorem setView_effs (c : Ctx) (aid : Nat) (v : AView) : (c.setView aid v).effs = c.effs := rfl
theorem setView_calls (c : Ctx) (aid : Nat) (v : AView) : (c.setView aid v).calls = c.calls := rfl

/-- `runAtomic`: on success the core is the handler's, on failure it is unchanged -/
theorem runAtomic_cases (st : State) (recover : Bool) (f : Ctx → M Ctx) :
    (∃ c, f { s := st.core, ctl := st.ctl } = .ok c ∧
        runAtomic st recover f = ({ res := .ok, effs := c.effs }, { core := c.s, ctl := clearOneShots st.ctl })) ∨
    (∃ e, f { s := st.core, ctl := st.ctl } = .error e ∧
        (runAtomic st recover f).2 = { core := st.core, ctl := clearOneShots st.ctl } ∧
        (runAtomic st recover f).1.res ≠ .ok) := by
  unfold runAtomic
  cases h : f { s := st.core, ctl := st.ctl } with
  | ok c => exact Or.inl ⟨c, rfl, rfl⟩
  | error e =>
    refine Or.inr ⟨e, rfl, rfl, ?_⟩
    simp only
    split <;> simp

end Fundraising
