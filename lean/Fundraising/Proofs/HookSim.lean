import Fundraising.Proofs.TotalSimInst
/-
  C17 helpers: the simulation of Proofs/TotalSim.lean for a failing listener `(name, j)`,
  strengthened to say WHAT the failed run logged: the armed run follows the failure-free run
  up to the first dispatch of hook `name` and is rejected there, after listeners `0 … j` and no
  later one.  `Good c`: the failure-free run has not reached that dispatch yet — any entry of
  hook `name` in its log comes from a dispatch over fewer than `j + 1` listeners.
-/
namespace Fundraising.HookInv
open Fundraising

/-- any entry of hook `name` logged so far comes from a dispatch that did not reach listener `j` -/
def Good (name : String) (j : Nat) (c : Ctx) : Prop :=
  ∀ k a, Eff.hook k name a ∈ c.effs → k < c.ctl.listeners ∧ c.ctl.listeners ≤ j

/-- no listener after `j` was called for hook `name` -/
def NoLater (name : String) (j : Nat) (e : List Eff) : Prop :=
  ∀ k a, j < k → Eff.hook k name a ∉ e

/-- `c0`/`c2`: contexts of the failure-free run before/after a piece of a handler;
    `y`: the result of the same piece run from the armed `c0` -/
def RelH (name : String) (j : Nat) (c0 c2 : Ctx) (y : M Ctx) : Prop :=
  c2.ctl = c0.ctl ∧
  (Good name j c0 →
    (Good name j c2 ∧ y = .ok ((hookSpec name j).armC c2)) ∨
    (∃ e, y = .error ⟨.reject, e⟩ ∧ NoLater name j e))

def SoundH (name : String) (j : Nat) (f : Ctx → M Ctx) : Prop :=
  ∀ c c', f c = .ok c' → RelH name j c c' (f ((hookSpec name j).armC c))

variable {name : String} {j : Nat}

theorem RelH.chain {x : M Ctx} {g : Ctx → M Ctx} {c0 c1 c2 : Ctx}
    (h1 : RelH name j c0 c1 x) (h2 : RelH name j c1 c2 (g ((hookSpec name j).armC c1))) :
    RelH name j c0 c2 (x >>= g) := by
  refine ⟨h2.1.trans h1.1, fun hg => ?_⟩
  rcases h1.2 hg with ⟨hg1, hx⟩ | ⟨e, hx, hn⟩
  · rw [hx, ok_bind]
    exact h2.2 hg1
  · rw [hx, error_bind]
    exact Or.inr ⟨e, rfl, hn⟩

theorem RelH.refl (c : Ctx) : RelH name j c c (.ok ((hookSpec name j).armC c)) :=
  ⟨rfl, fun h => Or.inl ⟨h, rfl⟩⟩

/-- a pure state change (store writes) -/
theorem RelH.pure {c c' : Ctx} (he : c'.effs = c.effs) (hc : c'.ctl = c.ctl) :
    RelH name j c c' (.ok ((hookSpec name j).armC c')) := by
  refine ⟨hc, fun h => Or.inl ⟨?_, rfl⟩⟩
  intro k a hm
  rw [he] at hm
  rw [hc]
  exact h k a hm

theorem check_armC {S : SimSpec} (c : Ctx) (b : Bool) : (S.armC c).check b = c.check b := rfl
theorem fail_armC {S : SimSpec} {α : Type} (c : Ctx) (e : Err) :
    ((S.armC c).fail e : M α) = c.fail e := rfl

/-! ### the primitives -/

theorem bank_sound (k : XKind) (src dst : Addr) (coins : List Coin) :
    SoundH name j (fun c => c.bankCall k src dst coins) := by
  intro c c' h
  obtain ⟨hne, b, hb, rfl⟩ := bankCall_ok h
  refine ⟨rfl, fun hg => Or.inl ⟨?_, ?_⟩⟩
  · intro k a hm
    rcases List.mem_append.1 hm with hm | hm
    · exact hg k a hm
    · simp at hm
  · exact bankCall_of_send (c := (hookSpec name j).armC c) hne hb

/-- listener `j` fails: the dispatcher is rejected after listeners `0 … j` -/
theorem dispatchTo_veto' (name : String) (args : List String) (pre post : List Nat) (j : Nat) (c : Ctx)
    (hj : c.ctl.failhook = some (name, j)) (hpre : j ∉ pre) :
    dispatchTo name args (pre ++ j :: post) c =
      .error ⟨.reject, c.effs ++ (pre ++ [j]).map (fun i => Eff.hook i name args)⟩ := by
  induction pre generalizing c with
  | nil =>
    simp [dispatchTo, hj, Ctx.fail]
  | cons i pre ih =>
    have hi : i ≠ j := fun e => hpre (by simp [e])
    have hne : c.ctl.failhook ≠ some (name, i) := by
      rw [hj]; intro e; exact hi (by injection e with e; injection e with _ e; exact e.symm)
    simp only [List.cons_append, dispatchTo, hne, if_false]
    have := ih { c with effs := c.effs ++ [Eff.hook i name args] } hj
      (fun h => hpre (List.mem_cons_of_mem _ h))
    rw [this]
    simp [List.append_assoc]

theorem range_split' (j n : Nat) (h : j < n) :
    List.range n = List.range j ++ j :: List.range' (j + 1) (n - (j + 1)) := by
  have e : n = j + ((n - (j + 1)) + 1) := by omega
  conv => lhs; rw [e]
  rw [List.range_eq_range', List.range_eq_range', ← List.range'_append_1, List.range'_succ]
  simp

theorem hook_veto (c : Ctx) (name : String) (args : List String) (j : Nat)
    (hj : c.ctl.failhook = some (name, j)) (hlt : j < c.ctl.listeners) :
    c.hook name args =
      .error ⟨.reject, c.effs ++ (List.range (j + 1)).map (fun i => Eff.hook i name args)⟩ := by
  unfold Ctx.hook
  rw [range_split' j _ hlt, dispatchTo_veto' name args _ _ j c hj (by simp)]
  simp [List.range_succ]

theorem hook_sound (name' : String) (args' : List String) :
    SoundH name j (fun c => c.hook name' args') := by
  intro c c' h
  obtain ⟨h1, h2, h3, h4, h5⟩ := dispatchTo_ok h
  refine ⟨h2, fun hg => ?_⟩
  by_cases hhit : name' = name ∧ j < c.ctl.listeners
  · obtain ⟨rfl, hlt⟩ := hhit
    refine Or.inr ⟨_, hook_veto ((hookSpec name' j).armC c) name' args' j rfl hlt, ?_⟩
    intro k a hk hm
    rcases List.mem_append.1 hm with hm | hm
    · have := (hg k a hm).2
      omega
    · obtain ⟨i, hi, e⟩ := List.mem_map.1 hm
      injection e with e1 e2 e3
      have := List.mem_range.1 hi
      omega
  · refine Or.inl ⟨?_, ?_⟩
    · intro k a hm
      rw [h4] at hm
      rw [h2]
      rcases List.mem_append.1 hm with hm | hm
      · exact hg k a hm
      · obtain ⟨i, hi, e⟩ := List.mem_map.1 hm
        injection e with e1 e2 e3
        have hi' := List.mem_range.1 hi
        refine ⟨by omega, ?_⟩
        rcases Nat.lt_or_ge j c.ctl.listeners with hlt | hge
        · exact absurd ⟨e2, hlt⟩ hhit
        · exact hge
    · refine dispatchTo_armC (hookSpec name j) name' args' _ c c' h ?_
      intro i hi e
      have e' : some (name, j) = some (name', i) := e
      injection e' with e'
      injection e' with e1 e2
      exact hhit ⟨e1.symm, by rw [e2]; exact List.mem_range.1 hi⟩

/-! ### the handlers -/

theorem payOut_sound (src : Addr) (d : Denom) :
    ∀ l, SoundH name j (fun c => payOut c src d l)
  | [] => by
    intro c c' h
    simp only [payOut, pure_eq_ok] at h ⊢
    cases h
    exact RelH.refl c
  | (u, amt) :: rest => by
    intro c c' h
    simp only [payOut] at h ⊢
    by_cases h0 : amt = 0
    · simp only [h0, if_true] at h ⊢
      exact payOut_sound src d rest c c' h
    · simp only [h0, if_false] at h ⊢
      obtain ⟨coins, hm, h⟩ := bind_eq_ok.1 h
      obtain ⟨c1, hb, h⟩ := bind_eq_ok.1 h
      rw [mkCoins_armC, hm, ok_bind]
      exact RelH.chain (bank_sound _ _ _ _ c c1 hb) (payOut_sound src d rest c1 c' h)

theorem allocateSellingCoin_sound (a : Auction) (mi : MInfo) :
    SoundH name j (fun c => allocateSellingCoin c a mi) := by
  intro c c' h
  simp only [allocateSellingCoin] at h ⊢
  obtain ⟨c1, h1, h⟩ := bind_eq_ok.1 h
  exact RelH.chain (hook_sound _ _ c c1 h1) (payOut_sound _ _ _ c1 c' h)

theorem refundRemainingSellingCoin_sound (a : Auction) :
    SoundH name j (fun c => refundRemainingSellingCoin c a) := by
  intro c c' h
  simp only [refundRemainingSellingCoin] at h ⊢
  obtain ⟨coins, hm, h⟩ := bind_eq_ok.1 h
  rw [mkCoins_armC, bal_armC, hm, ok_bind]
  exact bank_sound _ _ _ _ c c' h

theorem refundPayingCoin_sound (a : Auction) (mi : MInfo) :
    SoundH name j (fun c => refundPayingCoin c a mi) := by
  intro c c' h
  exact payOut_sound _ _ _ c c' h


theorem applyVestingSchedules_sound (aid : Nat) :
    SoundH name j (fun c => applyVestingSchedules c aid) := by
  intro c c' h
  simp only [applyVestingSchedules] at h ⊢
  obtain ⟨v, hv, h⟩ := bind_eq_ok.1 h
  obtain ⟨coins, hm, h⟩ := bind_eq_ok.1 h
  rw [view_armC, hv, ok_bind]
  simp only [mkCoins_armC, bal_armC]
  rw [hm, ok_bind]
  by_cases he : v.a.schedules.isEmpty = true
  · rw [if_pos he] at h ⊢
    obtain ⟨c1, hb, h⟩ := bind_eq_ok.1 h
    rw [pure_eq_ok] at h
    cases h
    exact RelH.chain (bank_sound _ _ _ _ c c1 hb) (RelH.pure rfl rfl)
  · rw [if_neg he] at h ⊢
    obtain ⟨c1, hb, h⟩ := bind_eq_ok.1 h
    cases hs : splitLoop (c.bal (Addr.pay aid) v.a.payDenom) v.a.schedules
        (c.bal (Addr.pay aid) v.a.payDenom) with
    | none => rw [hs] at h; cases h
    | some parts =>
      rw [hs] at h
      simp only [pure_eq_ok] at h
      cases h
      exact RelH.chain (bank_sound _ _ _ _ c c1 hb) (RelH.pure rfl rfl)

theorem closeFixed_sound (aid : Nat) : SoundH name j (fun c => closeFixed c aid) := by
  intro c c' h
  simp only [closeFixed] at h ⊢
  obtain ⟨v, hv, h⟩ := bind_eq_ok.1 h
  obtain ⟨c1, h1, h⟩ := bind_eq_ok.1 h
  obtain ⟨c2, h2, h⟩ := bind_eq_ok.1 h
  rw [view_armC, hv, ok_bind]
  exact RelH.chain (allocateSellingCoin_sound _ _ c c1 h1)
    (RelH.chain (refundRemainingSellingCoin_sound _ c1 c2 h2)
      (applyVestingSchedules_sound aid c2 c' h))

theorem extendRound_sound (aid : Nat) : SoundH name j (fun c => extendRound c aid) := by
  intro c c' h
  simp only [extendRound] at h ⊢
  obtain ⟨v, hv, h⟩ := bind_eq_ok.1 h
  rw [view_armC, hv, ok_bind]
  rw [pure_eq_ok] at h
  cases h
  exact RelH.pure rfl rfl

theorem settleBatch_sound (aid : Nat) (mi : MInfo) :
    SoundH name j (fun c => settleBatch c aid mi) := by
  intro c c' h
  simp only [settleBatch] at h ⊢
  obtain ⟨v, hv, h⟩ := bind_eq_ok.1 h
  obtain ⟨c1, h1, h⟩ := bind_eq_ok.1 h
  obtain ⟨c2, h2, h⟩ := bind_eq_ok.1 h
  obtain ⟨c3, h3, h⟩ := bind_eq_ok.1 h
  obtain ⟨v3, hv3, h⟩ := bind_eq_ok.1 h
  rw [view_armC, hv, ok_bind]
  refine RelH.chain (allocateSellingCoin_sound _ _ c c1 h1)
    (RelH.chain (refundRemainingSellingCoin_sound _ c1 c2 h2)
      (RelH.chain (refundPayingCoin_sound _ _ c2 c3 h3) ?_))
  rw [view_armC, hv3, ok_bind]
  exact applyVestingSchedules_sound aid _ c' h

theorem closeBatch_sound (aid : Nat) : SoundH name j (fun c => closeBatch c aid) := by
  intro c c' h
  simp only [closeBatch] at h ⊢
  obtain ⟨v, hv, h⟩ := bind_eq_ok.1 h
  rw [view_armC, hv, ok_bind]
  cases hcb : calcBatch v.a v.bids v.allowed with
  | none => rw [hcb] at h; cases h
  | some mi =>
    rw [hcb] at h
    simp only [pure_eq_ok, ok_bind, setView_armC] at h ⊢
    split at h
    next hA => rw [if_pos hA]; exact settleBatch_sound aid _ _ c' h
    next hA =>
      rw [if_neg hA]
      split at h
      next hB => rw [if_pos hB]; exact extendRound_sound aid _ c' h
      next hB =>
        rw [if_neg hB]
        split at h
        next hC => rw [if_pos hC]; exact extendRound_sound aid _ c' h
        next hC => rw [if_neg hC]; exact settleBatch_sound aid _ _ c' h

theorem releaseLoop_sound (aid : Nat) (auctioneer : Acc) (n : Nat) :
    ∀ (l : List VQ) (i : Nat), SoundH name j (fun c => releaseLoop c aid auctioneer n i l)
  | [], i => by
    intro c c' h
    simp only [releaseLoop, pure_eq_ok] at h ⊢
    cases h
    exact RelH.refl c
  | q :: rest, i => by
    intro c c' h
    simp only [releaseLoop] at h ⊢
    split at h
    next hd =>
      rw [if_pos (show q.release ≤ ((hookSpec name j).armC c).s.now ∧ (!q.released) = true from hd)]
      obtain ⟨coins, hm, h⟩ := bind_eq_ok.1 h
      obtain ⟨c1, hb, h⟩ := bind_eq_ok.1 h
      obtain ⟨v, hv, h⟩ := bind_eq_ok.1 h
      rw [mkCoins_armC, hm, ok_bind]
      refine RelH.chain (bank_sound _ _ _ _ c c1 hb) ?_
      rw [view_armC, hv, ok_bind]
      simp only [setView_armC]
      split at h
      next hn =>
        rw [if_pos hn]
        obtain ⟨v2, hv2, h⟩ := bind_eq_ok.1 h
        rw [view_armC, hv2, ok_bind]
        rw [pure_eq_ok, ok_bind] at h ⊢
        exact releaseLoop_sound aid auctioneer n rest (i + 1) _ c' h
      next hn =>
        rw [if_neg hn]
        rw [pure_eq_ok, ok_bind] at h ⊢
        exact releaseLoop_sound aid auctioneer n rest (i + 1) _ c' h
    next hd =>
      rw [if_neg (show ¬ (q.release ≤ ((hookSpec name j).armC c).s.now ∧ (!q.released) = true) from hd)]
      exact releaseLoop_sound aid auctioneer n rest (i + 1) c c' h

theorem releaseVesting_sound (aid : Nat) :
    SoundH name j (fun c => releaseVesting c aid) := by
  intro c c' h
  simp only [releaseVesting] at h ⊢
  obtain ⟨v, hv, h⟩ := bind_eq_ok.1 h
  rw [view_armC, hv, ok_bind]
  exact releaseLoop_sound aid _ _ _ _ c c' h

theorem blockStep_sound (aid : Nat) : SoundH name j (fun c => blockStep c aid) := by
  intro c c' h
  simp only [blockStep] at h ⊢
  obtain ⟨v, hv, h⟩ := bind_eq_ok.1 h
  rw [view_armC, hv, ok_bind]
  cases hst : v.a.status with
  | standby =>
    simp only [hst] at h ⊢
    split at h
    next hd =>
      rw [if_pos (show v.a.startTime ≤ ((hookSpec name j).armC c).s.now from hd)]
      rw [pure_eq_ok] at h
      cases h
      exact RelH.pure rfl rfl
    next hd =>
      rw [if_neg (show ¬ v.a.startTime ≤ ((hookSpec name j).armC c).s.now from hd)]
      rw [pure_eq_ok] at h
      cases h
      exact RelH.refl c
  | started =>
    simp only [hst] at h ⊢
    cases he : v.a.endTimes.getLast? with
    | none => rw [he] at h; cases h
    | some e =>
      simp only [he] at h ⊢
      split at h
      next hd =>
        rw [if_pos (show e ≤ ((hookSpec name j).armC c).s.now from hd)]
        cases hty : v.a.type with
        | fixed => simp only [hty] at h ⊢; exact closeFixed_sound aid c c' h
        | batch => simp only [hty] at h ⊢; exact closeBatch_sound aid c c' h
      next hd =>
        rw [if_neg (show ¬ e ≤ ((hookSpec name j).armC c).s.now from hd)]
        rw [pure_eq_ok] at h
        cases h
        exact RelH.refl c
  | vesting =>
    simp only [hst] at h ⊢
    exact releaseVesting_sound aid c c' h
  | finished =>
    simp only [hst, pure_eq_ok] at h ⊢
    cases h
    exact RelH.refl c
  | cancelled =>
    simp only [hst, pure_eq_ok] at h ⊢
    cases h
    exact RelH.refl c

theorem blockLoop_sound : ∀ l, SoundH name j (fun c => blockLoop c l)
  | [] => by
    intro c c' h
    simp only [blockLoop, pure_eq_ok] at h ⊢
    cases h
    exact RelH.refl c
  | aid :: rest => by
    intro c c' h
    simp only [blockLoop] at h ⊢
    obtain ⟨c1, h1, h⟩ := bind_eq_ok.1 h
    exact RelH.chain (blockStep_sound aid c c1 h1) (blockLoop_sound rest c1 c' h)

theorem beginBlock_sound (t : Int) : SoundH name j (fun c => beginBlock c t) := by
  intro c c' h
  simp only [beginBlock] at h ⊢
  exact blockLoop_sound _ { c with s := { c.s with now := t } } c' h


end Fundraising.HookInv
