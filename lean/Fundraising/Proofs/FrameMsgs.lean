import Fundraising.Proofs.FrameBasic
/-
  Footprints of the message handlers and the keeper-API calls: which view a successful
  handler rewrites and how, and that no other auction's record or escrow is touched.
-/
set_option linter.unusedSimpArgs false
set_option linter.unusedVariables false
namespace Fundraising.Frame

/-! ### CancelAuction -/

theorem cancel_spec {c c' : Ctx} {signer : Acc} {aid : Nat}
    (h : cancelAuction c signer aid = .ok c') :
    FP aid c.s c'.s ∧ ∃ v, c.s.views[aid]? = some v ∧ v.a.auctioneer = signer ∧ v.a.status = .standby ∧
      c'.s.views[aid]? = some { v with a := { v.a with
          remaining := if v.a.type = .fixed then 0 else v.a.remaining, status := .cancelled } } ∧
      0 ≤ c.s.bank (.sell aid) v.a.sellDenom ∧
      c'.s.bank = c.s.bank.move (.sell aid) (.user v.a.auctioneer) v.a.sellDenom
        (c.s.bank (.sell aid) v.a.sellDenom) := by
  unfold cancelAuction at h
  simp only [bind_ok, check_ok, view_ok_iff, pure_ok] at h
  obtain ⟨v, hv, _, hsig, _, hst, coins, hmk, c1, hbc, c2, hhk, rfl⟩ := h
  have hst := status_of_beq hst
  have hsig : v.a.auctioneer = signer := by simpa using hsig
  obtain ⟨hnn, h1⟩ := send_mk hmk hbc
  obtain ⟨h2, _⟩ := hook_ok hhk
  have hv2 : c2.s.views[aid]? = some v := by rw [h2, h1]; exact hv
  refine ⟨?_, v, hv, hsig, hst, setView_get _ hv2, hnn, ?_⟩
  · have b1 : BankOnly aid c.s c2.s := by
      rw [h2, h1]
      exact ⟨_, rfl, move_other _ _ _ (loc_sell aid) (loc_user aid _)⟩
    exact b1.fp.trans (fp_setView c2 aid _)
  · rw [setView_bank, h2, h1]
    rfl

/-! ### PlaceBid -/

theorem place_spec {c c' : Ctx} {bidder : Acc} {aid : Nat} {t : BidType} {price : Dec} {denom : Denom}
    {amt : Int} (h : placeBid c bidder aid t price denom amt = .ok c') :
    FP aid c.s c'.s ∧ ∃ v, c.s.views[aid]? = some v ∧ v.a.status = .started ∧
      (lookupAllowed v.allowed bidder).isSome = true ∧
      ∃ (r : Int) (m : Bool), c'.s.views[aid]? = some { v with
          a := { v.a with remaining := r },
          bids := v.bids ++ [⟨aid, v.bidSeq + 1, bidder, t, price, denom, amt, m⟩],
          bidSeq := v.bidSeq + 1 } := by
  unfold placeBid at h
  simp only [bind_ok, check_ok, view_ok_iff, pure_ok] at h
  obtain ⟨v, hv, _, hst, _, _, h⟩ := h
  have hst := status_of_beq hst
  split at h
  · rename_i ab hab
    simp only [bind_ok, check_ok, view_ok_iff, pure_ok] at h
    obtain ⟨_, rfl, c1, hfee, ⟨c2, a', bid'⟩, hin, c3, hhk, rfl⟩ := h
    have b1 : BankOnly aid c.s c1.s := bankCall_only hfee (loc_user aid _) (loc_pool aid)
    have key : BankOnly aid c1.s c2.s ∧ ∃ (r : Int) (m : Bool), a' = { v.a with remaining := r } ∧
        bid' = ⟨aid, v.bidSeq + 1, bidder, t, price, denom, amt, m⟩ := by
      cases t with
      | fixed =>
        simp only [bind_ok, check_ok, pure_ok] at hin
        obtain ⟨_, _, _, _, _, _, _, _, _, _, coins, hmk, c2', hbc, heq⟩ := hin
        cases heq
        exact ⟨bankCall_only hbc (loc_user aid _) (loc_pay aid), _, _, rfl, rfl⟩
      | worth =>
        simp only [bind_ok, check_ok, pure_ok] at hin
        obtain ⟨_, _, _, _, _, _, coins, hmk, c2', hbc, heq⟩ := hin
        cases heq
        exact ⟨bankCall_only hbc (loc_user aid _) (loc_pay aid), v.a.remaining, false, rfl, rfl⟩
      | many =>
        simp only [bind_ok, check_ok, pure_ok] at hin
        obtain ⟨_, _, _, _, _, _, coins, hmk, c2', hbc, heq⟩ := hin
        cases heq
        exact ⟨bankCall_only hbc (loc_user aid _) (loc_pay aid), v.a.remaining, false, rfl, rfl⟩
    obtain ⟨b2, r, m, rfl, rfl⟩ := key
    have b3 : BankOnly aid c2.s c3.s := hook_only hhk
    have b13 := (b1.trans b2).trans b3
    have hv3 : c3.s.views[aid]? = some v := by rw [b13.views]; exact hv
    refine ⟨b13.fp.trans (fp_setView c3 aid _), v, hv, hst, ?_, r, m, setView_get _ hv3⟩
    rw [hab]; rfl
  · simp only [bind_ok, fail_ok] at h
    obtain ⟨_, h, _⟩ := h
    exact h.elim

/-! ### ModifyBid -/

theorem modify_spec {c c' : Ctx} {bidder : Acc} {aid bidId : Nat} {price : Dec} {denom : Denom}
    {amt : Int} (h : modifyBid c bidder aid bidId price denom amt = .ok c') :
    FP aid c.s c'.s ∧ ∃ v bid, c.s.views[aid]? = some v ∧ v.a.status = .started ∧ v.a.type = .batch ∧
      v.bids.find? (·.id == bidId) = some bid ∧ bid.bidder = bidder ∧ bid.denom = denom ∧
      bid.price ≤ price ∧ bid.amt ≤ amt ∧
      c'.s.views[aid]? = some { v with bids := v.bids.map (fun b =>
          if b.id == bidId then { bid with price := price, amt := amt } else b) } := by
  unfold modifyBid at h
  simp only [bind_ok, check_ok, view_ok_iff, pure_ok] at h
  obtain ⟨v, hv, _, hst, _, hty, h⟩ := h
  have hst := status_of_beq hst
  have hty : v.a.type = .batch := by simpa using hty
  split at h
  · rename_i bid hfind
    simp only [bind_ok, check_ok, view_ok_iff, pure_ok] at h
    obtain ⟨_, rfl, _, hbd, _, _, _, hden, _, hge, _, _, c1, hpay, c2, hhk, rfl⟩ := h
    have hbd : bid.bidder = bidder := by simpa using hbd
    have hden : bid.denom = denom := by simpa using hden
    have hge : bid.price ≤ price ∧ bid.amt ≤ amt := by
      simp only [Bool.not_eq_true', Bool.or_eq_false_iff, decide_eq_false_iff_not] at hge
      unfold Dec at *
      omega
    have b1 : BankOnly aid c.s c1.s := by
      cases hbt : bid.type with
      | fixed =>
        rw [hbt] at hpay
        simp only [pure_ok] at hpay
        exact bankOnly_of_eq (by rw [hpay])
      | worth =>
        rw [hbt] at hpay
        simp only at hpay
        split at hpay
        · exact bankCall_only hpay (loc_user aid _) (loc_pay aid)
        · simp only [pure_ok] at hpay
          exact bankOnly_of_eq (by rw [hpay])
      | many =>
        rw [hbt] at hpay
        simp only at hpay
        split at hpay
        · exact (fail_ok.mp hpay).elim
        · split at hpay
          · exact bankCall_only hpay (loc_user aid _) (loc_pay aid)
          · simp only [pure_ok] at hpay
            exact bankOnly_of_eq (by rw [hpay])
    have b2 : BankOnly aid c1.s c2.s := hook_only hhk
    have b12 := b1.trans b2
    have hv2 : c2.s.views[aid]? = some v := by rw [b12.views]; exact hv
    exact ⟨b12.fp.trans (fp_setView c2 aid _), v, bid, hv, hst, hty, hfind, hbd, hden, hge.1, hge.2,
      setView_get _ hv2⟩
  · simp only [bind_ok, fail_ok] at h
    obtain ⟨_, h, _⟩ := h
    exact h.elim

/-! ### AddAllowedBidders / UpdateAllowedBidder -/

theorem upsertBy_kept {α : Type} (key : α → Int) (x : α) : ∀ (l : List α), ∀ y ∈ l,
    ∃ y' ∈ upsertBy key x l, key y' = key y := by
  intro l
  induction l with
  | nil => intro y hy; cases hy
  | cons z zs ih =>
    intro y hy
    simp only [upsertBy]
    split
    · exact ⟨y, List.mem_cons_of_mem _ hy, rfl⟩
    · split
      · rename_i hk
        rcases List.mem_cons.mp hy with rfl | hy
        · exact ⟨x, List.mem_cons_self .., hk⟩
        · exact ⟨y, List.mem_cons_of_mem _ hy, rfl⟩
      · rcases List.mem_cons.mp hy with rfl | hy
        · exact ⟨y, List.mem_cons_self .., rfl⟩
        · obtain ⟨y', hy', hk⟩ := ih y hy
          exact ⟨y', List.mem_cons_of_mem _ hy', hk⟩

/-- allow-list entries are never removed by `setAllowed` -/
theorem setAllowed_kept (l : List Allowed) (x : Allowed) : ∀ y ∈ l,
    ∃ y' ∈ setAllowed l x, y'.bidder = y.bidder := by
  intro y hy
  obtain ⟨y', hy', hk⟩ := upsertBy_kept (fun a : Allowed => (a.bidder : Int)) x l y hy
  refine ⟨y', hy', ?_⟩
  unfold Acc at *
  omega

theorem addLoop_kept {c : Ctx} {sellAmt : Int} : ∀ {abs : List AllowedArg} {l l' : List Allowed},
    addLoop c sellAmt abs l = .ok l' → ∀ y ∈ l, ∃ y' ∈ l', y'.bidder = y.bidder := by
  intro abs
  induction abs with
  | nil =>
    intro l l' h y hy
    simp only [addLoop, pure_ok] at h
    subst h
    exact ⟨y, hy, rfl⟩
  | cons ab rest ih =>
    intro l l' h y hy
    simp only [addLoop, bind_ok, check_ok] at h
    obtain ⟨_, _, _, _, _, _, h⟩ := h
    obtain ⟨y1, hy1, e1⟩ := setAllowed_kept l { bidder := ab.bidder, cap := ab.cap } y hy
    obtain ⟨y2, hy2, e2⟩ := ih h y1 hy1
    exact ⟨y2, hy2, e2.trans e1⟩

theorem addAllowed_spec {c c' : Ctx} {aid : Nat} {abs : List AllowedArg}
    (h : addAllowedBidders c aid abs = .ok c') :
    FP aid c.s c'.s ∧ ∃ v l, c.s.views[aid]? = some v ∧
      (∀ y ∈ v.allowed, ∃ y' ∈ l, y'.bidder = y.bidder) ∧
      c'.s.views[aid]? = some { v with allowed := l } := by
  unfold addAllowedBidders at h
  simp only [bind_ok, check_ok, view_ok_iff, pure_ok] at h
  obtain ⟨_, _, v, hv, c1, hhk, l, hl, rfl⟩ := h
  have b1 : BankOnly aid c.s c1.s := hook_only hhk
  have hv1 : c1.s.views[aid]? = some v := by rw [b1.views]; exact hv
  exact ⟨b1.fp.trans (fp_setView c1 aid _), v, l, hv, addLoop_kept hl, setView_get _ hv1⟩

theorem updateAllowed_spec {c c' : Ctx} {aid : Nat} {bidder : Acc} {cap : Int}
    (h : updateAllowedBidder c aid bidder cap = .ok c') :
    FP aid c.s c'.s ∧ ∃ v l, c.s.views[aid]? = some v ∧
      (∀ y ∈ v.allowed, ∃ y' ∈ l, y'.bidder = y.bidder) ∧
      c'.s.views[aid]? = some { v with allowed := l } := by
  unfold updateAllowedBidder at h
  simp only [bind_ok, check_ok, view_ok_iff, pure_ok] at h
  obtain ⟨v, hv, _, _, _, _, c1, hhk, rfl⟩ := h
  have b1 : BankOnly aid c.s c1.s := hook_only hhk
  have hv1 : c1.s.views[aid]? = some v := by rw [b1.views]; exact hv
  exact ⟨b1.fp.trans (fp_setView c1 aid _), v, _, hv, setAllowed_kept _ _, setView_get _ hv1⟩

/-! ### CreateAuction -/

theorem create_spec {c c' : Ctx} {m : CreateMsg} (h : createAuction c m = .ok c') :
    ∃ nv, c'.s.views = c.s.views ++ [nv] ∧ OtherEsc c.s.views.length c.s.bank c'.s.bank ∧
      c'.s.params = c.s.params ∧ c'.s.now = c.s.now ∧ c'.s.enableAdd = c.s.enableAdd := by
  unfold createAuction at h
  simp only [bind_ok, check_ok, view_ok_iff, pure_ok] at h
  obtain ⟨_, _, _, _, _, _, c1, hfee, coins, hmk, c2, hbc, c3, hhk, hhk2⟩ := h
  have b1 : BankOnly c.s.views.length c.s c1.s := bankCall_only hfee (loc_user _ _) (loc_pool _)
  have b2 : BankOnly c.s.views.length c1.s c2.s := bankCall_only hbc (loc_user _ _) (loc_sell _)
  have b3 : BankOnly c.s.views.length c2.s c3.s := hook_only hhk
  have b13 := (b1.trans b2).trans b3
  have e := (hook_ok hhk2).1
  simp only at e
  rw [e]
  exact ⟨_, congrArg (· ++ _) b13.views, b13.bank, b13.params, b13.now, b13.enableAdd⟩

end Fundraising.Frame
