import Fundraising.Model.Match
/-
  C14 — the result of each place where the Go code ranges over a map does not depend on
  the iteration order the runtime picks.  STATEMENTS ARE FIXED (cited by Props/C14.lean).
-/
namespace Fundraising

/-- "collect the keys of a map into a slice, then sort it": the keys arrive in the order
    `l` chosen by the runtime; the code sorts them (model: insertion into a sorted,
    duplicate-free list — `sort.Strings` on distinct keys) -/
def sortKeys (l : List Acc) : List Acc := l.foldl (fun acc u => insertAcc u acc) []

/-- any two iteration orders of the same key set give the same sorted slice -/
theorem sortKeys_perm (l₁ l₂ : List Acc) (h : l₁.Perm l₂) : sortKeys l₁ = sortKeys l₂ := by
  sorry

/-- the sorted slice is strictly increasing and has exactly the collected keys -/
theorem sortKeys_spec (l : List Acc) :
    (sortKeys l).Pairwise (· < ·) ∧ ∀ u, u ∈ sortKeys l ↔ u ∈ l := by
  sorry

/-- `biddersOf` (the model's rendering of "keys of the allocation / refund map, sorted") is
    `sortKeys` of the bidders in ANY order -/
theorem biddersOf_any_order (bids : List Bid) (l : List Acc) (h : l.Perm (bids.map (·.bidder))) :
    biddersOf bids = sortKeys l := by
  sorry

/-- the same for the price keys of `bidsByPrice`, sorted descending with a strict order -/
def insertDesc (p : Dec) : List Dec → List Dec
  | [] => [p]
  | y :: ys => if y < p then p :: y :: ys else if p = y then y :: ys else y :: insertDesc p ys

def sortPricesDesc (l : List Dec) : List Dec := l.foldl (fun acc p => insertDesc p acc) []

theorem sortPricesDesc_perm (l₁ l₂ : List Dec) (h : l₁.Perm l₂) :
    sortPricesDesc l₁ = sortPricesDesc l₂ := by
  sorry

/-- the model's price list is what the code computes, for every iteration order of the map -/
theorem distinctPrices_any_order (bids : List Bid) (l : List Dec)
    (h : l.Perm ((sortBids bids).map (·.price))) :
    distinctPrices (sortBids bids) = sortPricesDesc l := by
  sorry

/-- "for k, v := range m { other[k] = f k v }": pointwise writes indexed by the range key
    commute — any two iteration orders build the same map -/
def writeAll {β : Type} (f : Acc → β) (m₀ : Acc → β) (l : List Acc) : Acc → β :=
  l.foldl (fun m k => fun x => if x = k then f k else m x) m₀

theorem writeAll_perm {β : Type} (f : Acc → β) (m₀ : Acc → β) (l₁ l₂ : List Acc) (h : l₁.Perm l₂) :
    writeAll f m₀ l₁ = writeAll f m₀ l₂ := by
  sorry

end Fundraising
