import Fundraising.Model.Match
import Fundraising.Proofs.MatchList
/-
  C14 — the result of each place where the Go code ranges over a map does not depend on
  the iteration order the runtime picks.  STATEMENTS ARE FIXED (cited by Props/C14.lean).
-/
namespace Fundraising

/-! ### helper: a strictly sorted list is determined by its members -/

theorem strictSorted_ext {α : Type} (r : α → α → Prop) (asym : ∀ a b, r a b → r b a → False) :
    ∀ (l₁ l₂ : List α), l₁.Pairwise r → l₂.Pairwise r → (∀ x, x ∈ l₁ ↔ x ∈ l₂) → l₁ = l₂
  | [], [], _, _, _ => rfl
  | [], b :: l₂, _, _, h => by
    have := (h b).2 List.mem_cons_self
    cases this
  | a :: l₁, [], _, _, h => by
    have := (h a).1 List.mem_cons_self
    cases this
  | a :: l₁, b :: l₂, h₁, h₂, h => by
    have h₁' := List.pairwise_cons.1 h₁
    have h₂' := List.pairwise_cons.1 h₂
    have hab : a = b := by
      rcases List.mem_cons.1 ((h a).1 List.mem_cons_self) with e | ha
      · exact e
      · rcases List.mem_cons.1 ((h b).2 List.mem_cons_self) with e | hb
        · exact e.symm
        · exact (asym a b (h₁'.1 b hb) (h₂'.1 a ha)).elim
    subst hab
    have irr : ∀ x, ¬ r x x := fun x hx => asym x x hx hx
    have ht : l₁ = l₂ := by
      refine strictSorted_ext r asym l₁ l₂ h₁'.2 h₂'.2 (fun x => ⟨fun hx => ?_, fun hx => ?_⟩)
      · rcases List.mem_cons.1 ((h x).1 (List.mem_cons_of_mem _ hx)) with e | hx'
        · subst e; exact (irr _ (h₁'.1 _ hx)).elim
        · exact hx'
      · rcases List.mem_cons.1 ((h x).2 (List.mem_cons_of_mem _ hx)) with e | hx'
        · subst e; exact (irr _ (h₂'.1 _ hx)).elim
        · exact hx'
    rw [ht]

theorem natLt_asym (a b : Acc) : a < b → b < a → False := fun h1 h2 =>
  Nat.lt_irrefl a (Nat.lt_trans h1 h2)

theorem intGt_asym (a b : Dec) : b < a → a < b → False := fun h1 h2 =>
  Int.lt_irrefl b (Int.lt_trans h1 h2)

/-- "collect the keys of a map into a slice, then sort it": the keys arrive in the order
    `l` chosen by the runtime; the code sorts them (model: insertion into a sorted,
    duplicate-free list — `sort.Strings` on distinct keys) -/
def sortKeys (l : List Acc) : List Acc := l.foldl (fun acc u => insertAcc u acc) []

theorem sortKeys_foldl (l : List Acc) : ∀ (acc : List Acc), acc.Pairwise (· < ·) →
    (l.foldl (fun acc u => insertAcc u acc) acc).Pairwise (· < ·) ∧
    ∀ v, v ∈ l.foldl (fun acc u => insertAcc u acc) acc ↔ v ∈ acc ∨ v ∈ l := by
  induction l with
  | nil => intro acc h; exact ⟨h, fun v => by simp⟩
  | cons u us ih =>
    intro acc h
    simp only [List.foldl_cons]
    have := ih (insertAcc u acc) (insertAcc_sorted u acc h)
    refine ⟨this.1, fun v => ?_⟩
    rw [this.2 v, mem_insertAcc, List.mem_cons]
    constructor
    · rintro ((h | h) | h)
      · exact Or.inr (Or.inl h)
      · exact Or.inl h
      · exact Or.inr (Or.inr h)
    · rintro (h | h | h)
      · exact Or.inl (Or.inr h)
      · exact Or.inl (Or.inl h)
      · exact Or.inr h

theorem sortKeys_sorted (l : List Acc) : (sortKeys l).Pairwise (· < ·) :=
  (sortKeys_foldl l [] List.Pairwise.nil).1

theorem mem_sortKeys (l : List Acc) (u : Acc) : u ∈ sortKeys l ↔ u ∈ l := by
  have := (sortKeys_foldl l [] List.Pairwise.nil).2 u
  unfold sortKeys; rw [this]; simp

/-- any two iteration orders of the same key set give the same sorted slice -/
theorem sortKeys_perm (l₁ l₂ : List Acc) (h : l₁.Perm l₂) : sortKeys l₁ = sortKeys l₂ := by
  refine strictSorted_ext (· < ·) natLt_asym _ _ (sortKeys_sorted l₁) (sortKeys_sorted l₂) (fun x => ?_)
  rw [mem_sortKeys, mem_sortKeys]
  exact h.mem_iff

/-- the sorted slice is strictly increasing and has exactly the collected keys -/
theorem sortKeys_spec (l : List Acc) :
    (sortKeys l).Pairwise (· < ·) ∧ ∀ u, u ∈ sortKeys l ↔ u ∈ l :=
  ⟨sortKeys_sorted l, mem_sortKeys l⟩

/-- `biddersOf` (the model's rendering of "keys of the allocation / refund map, sorted") is
    `sortKeys` of the bidders in ANY order -/
theorem biddersOf_any_order (bids : List Bid) (l : List Acc) (h : l.Perm (bids.map (·.bidder))) :
    biddersOf bids = sortKeys l := by
  have hs : (biddersOf bids).Pairwise (· < ·) := by
    have := (biddersOf_foldl bids [] List.Pairwise.nil).2
    unfold biddersOf; exact this
  refine strictSorted_ext (· < ·) natLt_asym _ _ hs (sortKeys_sorted l) (fun x => ?_)
  rw [mem_biddersOf, mem_sortKeys, h.mem_iff, List.mem_map]

/-- the same for the price keys of `bidsByPrice`, sorted descending with a strict order -/
def insertDesc (p : Dec) : List Dec → List Dec
  | [] => [p]
  | y :: ys => if y < p then p :: y :: ys else if p = y then y :: ys else y :: insertDesc p ys

def sortPricesDesc (l : List Dec) : List Dec := l.foldl (fun acc p => insertDesc p acc) []

theorem mem_insertDesc (p v : Dec) : ∀ (l : List Dec), v ∈ insertDesc p l ↔ v = p ∨ v ∈ l
  | [] => by simp [insertDesc]
  | y :: ys => by
    unfold insertDesc
    split
    · simp
    · split
      · rename_i _ he; subst he; simp
      · rw [List.mem_cons, mem_insertDesc p v ys, List.mem_cons]
        constructor
        · rintro (h | h | h) <;> simp [h]
        · rintro (h | h | h) <;> simp [h]

theorem insertDesc_sorted (p : Dec) : ∀ (l : List Dec), l.Pairwise (fun x y => y < x) →
    (insertDesc p l).Pairwise (fun x y => y < x)
  | [], _ => by simp [insertDesc]
  | y :: ys, h => by
    have h' := List.pairwise_cons.1 h
    unfold insertDesc
    split
    · rename_i hlt
      refine List.pairwise_cons.2 ⟨?_, h⟩
      intro z hz
      rcases List.mem_cons.1 hz with rfl | hz
      · exact hlt
      · exact Int.lt_trans (h'.1 z hz) hlt
    · split
      · exact h
      · rename_i hnlt hne
        refine List.pairwise_cons.2 ⟨?_, insertDesc_sorted p ys h'.2⟩
        intro z hz
        rcases (mem_insertDesc p z ys).1 hz with rfl | hz
        · exact Int.lt_iff_le_and_ne.2 ⟨Int.not_lt.1 hnlt, hne⟩
        · exact h'.1 z hz

theorem sortPricesDesc_foldl (l : List Dec) : ∀ (acc : List Dec), acc.Pairwise (fun x y => y < x) →
    (l.foldl (fun acc p => insertDesc p acc) acc).Pairwise (fun x y => y < x) ∧
    ∀ v, v ∈ l.foldl (fun acc p => insertDesc p acc) acc ↔ v ∈ acc ∨ v ∈ l := by
  induction l with
  | nil => intro acc h; exact ⟨h, fun v => by simp⟩
  | cons u us ih =>
    intro acc h
    simp only [List.foldl_cons]
    have := ih (insertDesc u acc) (insertDesc_sorted u acc h)
    refine ⟨this.1, fun v => ?_⟩
    rw [this.2 v, mem_insertDesc, List.mem_cons]
    constructor
    · rintro ((h | h) | h)
      · exact Or.inr (Or.inl h)
      · exact Or.inl h
      · exact Or.inr (Or.inr h)
    · rintro (h | h | h)
      · exact Or.inl (Or.inr h)
      · exact Or.inl (Or.inl h)
      · exact Or.inr h

theorem sortPricesDesc_sorted (l : List Dec) : (sortPricesDesc l).Pairwise (fun x y => y < x) :=
  (sortPricesDesc_foldl l [] List.Pairwise.nil).1

theorem mem_sortPricesDesc (l : List Dec) (u : Dec) : u ∈ sortPricesDesc l ↔ u ∈ l := by
  have := (sortPricesDesc_foldl l [] List.Pairwise.nil).2 u
  unfold sortPricesDesc; rw [this]; simp

theorem sortPricesDesc_perm (l₁ l₂ : List Dec) (h : l₁.Perm l₂) :
    sortPricesDesc l₁ = sortPricesDesc l₂ := by
  refine strictSorted_ext (fun x y => y < x) intGt_asym _ _
    (sortPricesDesc_sorted l₁) (sortPricesDesc_sorted l₂) (fun x => ?_)
  rw [mem_sortPricesDesc, mem_sortPricesDesc]
  exact h.mem_iff

/-- the model's price list is what the code computes, for every iteration order of the map -/
theorem distinctPrices_any_order (bids : List Bid) (l : List Dec)
    (h : l.Perm ((sortBids bids).map (·.price))) :
    distinctPrices (sortBids bids) = sortPricesDesc l := by
  have hs : (sortBids bids).Pairwise (fun x y => y.price ≤ x.price) := by
    have := (sortBids_foldl bids [] List.Pairwise.nil).2
    unfold sortBids; exact this
  refine strictSorted_ext (fun x y => y < x) intGt_asym _ _
    (distinctPrices_desc _ hs) (sortPricesDesc_sorted l) (fun x => ?_)
  rw [mem_distinctPrices, mem_sortPricesDesc, h.mem_iff, List.mem_map]

/-- "for k, v := range m { other[k] = f k v }": pointwise writes indexed by the range key
    commute — any two iteration orders build the same map -/
def writeAll {β : Type} (f : Acc → β) (m₀ : Acc → β) (l : List Acc) : Acc → β :=
  l.foldl (fun m k => fun x => if x = k then f k else m x) m₀

theorem writeAll_apply {β : Type} (f : Acc → β) : ∀ (l : List Acc) (m₀ : Acc → β) (x : Acc),
    writeAll f m₀ l x = if x ∈ l then f x else m₀ x
  | [], m₀, x => by simp [writeAll]
  | k :: l, m₀, x => by
    have ih := writeAll_apply f l (fun x => if x = k then f k else m₀ x) x
    unfold writeAll at ih ⊢
    rw [List.foldl_cons, ih]
    by_cases hl : x ∈ l
    · simp [hl]
    · by_cases hk : x = k
      · subst hk; simp
      · simp [hl, hk]

theorem writeAll_perm {β : Type} (f : Acc → β) (m₀ : Acc → β) (l₁ l₂ : List Acc) (h : l₁.Perm l₂) :
    writeAll f m₀ l₁ = writeAll f m₀ l₂ := by
  funext x
  rw [writeAll_apply, writeAll_apply]
  by_cases hx : x ∈ l₁
  · rw [if_pos hx, if_pos (h.mem_iff.1 hx)]
  · rw [if_neg hx, if_neg (fun h' => hx (h.mem_iff.2 h'))]

end Fundraising
