import Fundraising.Spec.Invariants
import Fundraising.Proofs.ExecLemmas
import Fundraising.Proofs.Reach
import Fundraising.Proofs.VestingLemmas
import Fundraising.Proofs.MatchLemmas
import Fundraising.Proofs.EscrowProofs
import Fundraising.Proofs.TotalSimInst
import Fundraising.Proofs.TotalBlock
/-
  C07 — block processing never fails, and never hides a failure.
  STATEMENTS ARE FIXED (cited by Props/C07.lean).
-/
namespace Fundraising

/-- number of bank / distribution calls in an effect log -/
def xferCount (effs : List Eff) : Nat := (effs.filter (fun e => !e.isHook)).length

/-- **no failure, no panic.**  In a well-formed state whose escrows cover what is owed,
    with no injected fault and no failing listener, `BeginBlocker` succeeds at every
    block time (also one that lies in the past) -/
theorem beginBlock_ok (st : State) (t : Int) (hwf : WF st.core) (hnn : BankNonneg st.core)
    (hcov : AllCovered st.core) (hf : st.ctl.failhook = none) (hk : st.ctl.fault = none) :
    (step st (.block t)).1.res = .ok := by
  obtain ⟨c', hc'⟩ := beginBlock_total st.core st.ctl t hwf hnn hcov hf hk
  simp only [step]
  unfold runAtomic
  simp only [hc']

/-- **a failing bank transfer is reported.**  If the block, run without fault, makes more
    than `k` bank calls, then with the `k`-th call failing the block reports an error
    (whichever auction the call belongs to) and commits nothing -/
theorem beginBlock_reports_fault (st : State) (t : Int) (k : Nat) (hk : st.ctl.fault = none)
    (hok : (step st (.block t)).1.res = .ok)
    (hlt : k < xferCount (step st (.block t)).1.effs) :
    let st' : State := { st with ctl := { st.ctl with fault := some k } }
    (step st' (.block t)).1.res = .err ∧
    (step st' (.block t)).2.core = { st.core with now := t } := by
  intro st'
  have _ := hk
  have hx : xferCount (step st (.block t)).1.effs = xcount (step st (.block t)).1.effs := rfl
  exact step_block_armed (faultSpec k) (faultSpec_ok k) st t ⟨rfl, Nat.zero_le _⟩ hok
    (fun n hn => by
      have h1 : n = xcount (step st (.block t)).1.effs := hn.1
      have h2 : n ≤ k := hn.2
      omega)

/-- **a failing listener is reported.**  If the block, run with all listeners succeeding,
    calls hook `name` on listener `idx`, then with that listener failing the block
    reports an error and commits nothing -/
theorem beginBlock_reports_hook (st : State) (t : Int) (name : String) (idx : Nat)
    (args : List String) (hf : st.ctl.failhook = none)
    (hok : (step st (.block t)).1.res = .ok)
    (hcall : Eff.hook idx name args ∈ (step st (.block t)).1.effs) :
    let st' : State := { st with ctl := { st.ctl with failhook := some (name, idx) } }
    (step st' (.block t)).1.res = .err ∧
    (step st' (.block t)).2.core = { st.core with now := t } := by
  intro st'
  have _ := hf
  exact step_block_armed (hookSpec name idx) (hookSpec_ok name idx) st t
    (fun _ hm => by cases hm) hok (fun _ hn => hn args hcall)

end Fundraising
