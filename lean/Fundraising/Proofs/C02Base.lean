import Fundraising.Proofs.LedgerProofs
import Fundraising.Proofs.EscrowProofs
import Fundraising.Proofs.WFProofs
import Fundraising.Props.C01
/-
  C02 — corollaries of the ledger lemmas, shared by Props/C02.lean and
  Proofs/AccountingProofs.lean (kept apart only to avoid an import cycle).
-/
namespace Fundraising

/-- **no coins created, destroyed or stranded.**  After every successful module operation
    every balance is the old balance plus the net of the bank calls the module made … -/
theorem c02_ledger (st : State) (op : Op) (hop : op.isModuleOp = true)
    (hok : (step st op).1.res = .ok) (a : Addr) (d : Denom) :
    (step st op).2.core.bank a d = st.core.bank a d + ((xfersOf (step st op).1.effs).map (·.delta a d)).sum :=
  ledger_pointwise st op hop hok a d

/-- … each of which is zero-sum over any set of accounts containing both ends … -/
theorem c02_transfer_zero_sum (t : Transfer) (L : List Addr) (hnd : L.Nodup) (hs : t.src ∈ L) (hd : t.dst ∈ L)
    (d : Denom) : (L.map (fun a => t.delta a d)).sum = 0 :=
  delta_zero_sum t L hnd hs hd d

/-- … and a failed operation moves nothing. -/
theorem c02_failed_moves_nothing (st : State) (op : Op) (hop : op.isModuleOp = true)
    (h : (step st op).1.res ≠ .ok) : (step st op).2.core.bank = st.core.bank :=
  failed_op_no_transfer st op hop h

/-- a bid on an auction that does not exist is rejected -/
theorem place_needs_view (st : State) (bidder : Acc) (aid : Nat) (t : BidType) (price : Dec)
    (denom : Denom) (amt : Int) (hv : st.core.views[aid]? = none)
    (hok : (step st (.msg (.place bidder aid (some t) price denom amt))).1.res = .ok) : False := by
  rcases runAtomic_cases st true (fun c => deliver c (.place bidder aid (some t) price denom amt)) with
    ⟨c, hc, _⟩ | ⟨e, _, _, hne⟩
  · simp only [deliver, handle, placeBid, Ctx.view, hv, Ctx.fail, bind, Except.bind] at hc
    split at hc <;> cases hc
  · exact hne hok

/-- **the only amounts that leave a user's account**: in a successful module operation every
    transfer whose source is a user account is (a) the advertised creation fee or the offered
    coin, from the auctioneer who signed the creation, (b) the advertised bid fee or the
    bid's reservation, from the bidder who signed the bid, (c) the increase of the
    reservation, from the bidder who signed the modification.  Cancels, allow-list calls,
    parameter changes and blocks debit no user account at all. -/
theorem c02_user_debits (st : State) (op : Op) (hop : op.isModuleOp = true)
    (hok : (step st op).1.res = .ok) (x : Transfer) (hx : x ∈ xfersOf (step st op).1.effs)
    (u : Acc) (hu : x.src = .user u) :
    (∃ m, op = .msg (.create m) ∧ u = m.auctioneer ∧
        (x = ⟨.pool, .user u, .pool, st.core.params.creationFee⟩ ∨
         x = ⟨.send, .user u, .sell st.core.views.length, [⟨m.sellDenom, m.sellAmt⟩]⟩)) ∨
    (∃ aid t price denom amt, op = .msg (.place u aid (some t) price denom amt) ∧
        (x = ⟨.pool, .user u, .pool, st.core.params.bidFee⟩ ∨ (x.kind = .send ∧ x.dst = .pay aid))) ∨
    (∃ aid bidId price denom amt, op = .msg (.modify u aid bidId price denom amt) ∧
        x.kind = .send ∧ x.dst = .pay aid) := by
  cases op with
  | msg m =>
    cases m with
    | create m =>
      have h := create_transfers st m hok
      rw [h] at hx
      simp only [List.mem_cons, List.not_mem_nil, or_false] at hx
      refine Or.inl ⟨m, rfl, ?_, ?_⟩
      · rcases hx with rfl | rfl <;> (simp at hu; exact hu.symm)
      · rcases hx with rfl | rfl
        · simp at hu; subst hu; exact Or.inl rfl
        · simp at hu; subst hu; exact Or.inr rfl
    | cancel signer aid =>
      obtain ⟨coins, h⟩ := cancel_transfers st signer aid hok
      rw [h] at hx; simp at hx; subst hx; simp at hu
    | place bidder aid t price denom amt =>
      cases t with
      | none => simp [step, runAtomic, deliver, validateBasic, Ctx.check, Ctx.fail, bind, Except.bind] at hok
      | some t =>
        cases hv : st.core.views[aid]? with
        | none =>
          exfalso
          exact place_needs_view st bidder aid t price denom amt hv hok
        | some v =>
          have h := place_transfers st bidder aid t price denom amt v hv hok
          simp only at h
          rw [h] at hx
          simp only [List.mem_cons, List.not_mem_nil, or_false] at hx
          refine Or.inr (Or.inl ⟨aid, t, price, denom, amt, ?_, ?_⟩)
          · rcases hx with rfl | rfl <;> (simp at hu; subst hu; rfl)
          · rcases hx with rfl | rfl
            · simp at hu; subst hu; exact Or.inl rfl
            · exact Or.inr ⟨rfl, rfl⟩
    | modify bidder aid bidId price denom amt =>
      rcases modify_transfers st bidder aid bidId price denom amt hok with h | ⟨d, y, _, h⟩
      · rw [h] at hx; simp at hx
      · rw [h] at hx; simp at hx; subst hx
        simp at hu; subst hu
        exact Or.inr (Or.inr ⟨aid, bidId, price, denom, amt, rfl, rfl, rfl⟩)
    | addAllowed a ab =>
      have := admin_no_transfers st (.msg (.addAllowed a ab)) (Or.inr (Or.inr (Or.inr ⟨a, ab, rfl⟩)))
      rw [this] at hx; simp at hx
    | updateParams s p =>
      have := admin_no_transfers st (.msg (.updateParams s p)) (Or.inr (Or.inr (Or.inl ⟨s, p, rfl⟩)))
      rw [this] at hx; simp at hx
  | kadd a abs =>
    have := admin_no_transfers st (.kadd a abs) (Or.inl ⟨a, abs, rfl⟩)
    rw [this] at hx; simp at hx
  | kupd a u' c =>
    have := admin_no_transfers st (.kupd a u' c) (Or.inr (Or.inl ⟨a, u', c, rfl⟩))
    rw [this] at hx; simp at hx
  | block t =>
    rcases block_transfers st t x hx with ⟨i, _, hsrc, _⟩ | ⟨i, hsrc, _⟩
    · rcases hsrc with h | h | h <;> (rw [h] at hu; cases hu)
    · rw [hsrc] at hu; cases hu
  | _ => simp [Op.isModuleOp] at hop

/-- **nothing is left in escrow** once an auction is finished or cancelled (history without
    third-party transfers into escrows; with them, what is left is exactly those coins —
    C01_escrow_covered) -/
theorem c02_terminal_escrows_empty (ops : List Op) (h : NoEscrowGifts ops) (i : Nat) (v : AView)
    (hv : (run {} ops).core.views[i]? = some v)
    (hs : v.a.status = .finished ∨ v.a.status = .cancelled) (d : Denom) :
    (run {} ops).core.bank (.sell i) d = 0 ∧ (run {} ops).core.bank (.pay i) d = 0 ∧
    (run {} ops).core.bank (.vest i) d = 0 := by
  have hx := (C01_escrow_exact ops h).1 i v hv
  have h1 := hx.sell d; have h2 := hx.pay d; have h3 := hx.vest d
  have e1 : owedSell v = 0 := by unfold owedSell; rcases hs with hs | hs <;> simp [hs]
  have e2 : owedPay v = 0 := by unfold owedPay; rcases hs with hs | hs <;> simp [hs]
  have e3 : owedVest v = 0 := by unfold owedVest; rcases hs with hs | hs <;> simp [hs]
  rw [e1] at h1; rw [e2] at h2; rw [e3] at h3
  exact ⟨by simpa using h1, by simpa using h2, by simpa using h3⟩

/-- blocks pay out of escrows only (bidders' allocations and refunds, the auctioneer's unsold
    coins and proceeds, paying → vesting escrow of the same auction) -/
theorem c02_blocks_pay_from_escrows (st : State) (t : Int) :
    ∀ x ∈ xfersOf (step st (.block t)).1.effs,
      (∃ i u, (x.src = .sell i ∨ x.src = .pay i ∨ x.src = .vest i) ∧ x.dst = .user u) ∨
      (∃ i, x.src = .pay i ∧ x.dst = .vest i) :=
  block_transfers st t

end Fundraising
