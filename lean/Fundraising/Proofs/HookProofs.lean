import Fundraising.Spec.Frame
import Fundraising.Proofs.ExecLemmas
import Fundraising.Proofs.LedgerProofs
import Fundraising.Proofs.HookSimMsgs
/-
  C17 — op level: each operation that offers a hook calls every registered listener exactly
  once, with the values the operation actually uses / stores, BEFORE the change it announces is
  committed; a veto makes the operation fail.  STATEMENTS ARE FIXED (cited by Props/C17.lean).
-/
set_option linter.unusedSimpArgs false
set_option linter.unusedVariables false
namespace Fundraising

/-- the hook entries of an effect log, in order -/
def hooksOf (effs : List Eff) : List (Nat × String × List String) :=
  effs.filterMap (fun e => match e with | .hook i n a => some (i, n, a) | .xfer _ => none)

/-- `n` listeners each called once, in registration order, with the same arguments -/
def calledOnce (n : Nat) (name : String) (args : List String) : List (Nat × String × List String) :=
  (List.range n).map (fun i => (i, name, args))

/-! ### helpers (the fixed statements follow below) -/
namespace HookInv
open LedgerInv (bind_ok pure_ok fail_ok check_ok)

theorem hooksOf_append (l l' : List Eff) : hooksOf (l ++ l') = hooksOf l ++ hooksOf l' := by
  simp [hooksOf, List.filterMap_append]

theorem hooksOf_xfer (t : Transfer) : hooksOf [.xfer t] = [] := rfl

theorem hooksOf_hooks (name : String) (args : List String) (is : List Nat) :
    hooksOf (is.map (fun i => Eff.hook i name args)) = is.map (fun i => (i, name, args)) := by
  induction is with
  | nil => rfl
  | cons i is ih =>
    have : hooksOf (Eff.hook i name args :: is.map (fun i => Eff.hook i name args)) =
        (i, name, args) :: hooksOf (is.map (fun i => Eff.hook i name args)) := rfl
    rw [List.map_cons, this, ih, List.map_cons]

/-- from `c` to `c'` the controls and the collections are unchanged and the log grew by
    transfers and exactly the hook entries `hs` -/
def Grow (c c' : Ctx) (hs : List (Nat × String × List String)) : Prop :=
  c'.ctl = c.ctl ∧ c'.s.views = c.s.views ∧ ∃ l, c'.effs = c.effs ++ l ∧ hooksOf l = hs

theorem Grow.refl (c : Ctx) : Grow c c [] := ⟨rfl, rfl, [], by simp, rfl⟩

theorem Grow.trans {c c' c'' : Ctx} {hs hs' : List (Nat × String × List String)}
    (h : Grow c c' hs) (h' : Grow c' c'' hs') : Grow c c'' (hs ++ hs') := by
  obtain ⟨h1, h2, l, hl, hx⟩ := h
  obtain ⟨h1', h2', l', hl', hx'⟩ := h'
  exact ⟨h1'.trans h1, h2'.trans h2, l ++ l', by rw [hl', hl, List.append_assoc],
    by rw [hooksOf_append, hx, hx']⟩

theorem Grow.trans_nil {c c' c'' : Ctx} {hs : List (Nat × String × List String)}
    (h : Grow c c' hs) (h' : Grow c' c'' []) : Grow c c'' hs := by
  simpa using h.trans h'

theorem Grow.nil_trans {c c' c'' : Ctx} {hs : List (Nat × String × List String)}
    (h : Grow c c' []) (h' : Grow c' c'' hs) : Grow c c'' hs := by
  simpa using h.trans h'

theorem bankCall_grow {c c' : Ctx} {k : XKind} {src dst : Addr} {coins : List Coin}
    (h : c.bankCall k src dst coins = .ok c') : Grow c c' [] := by
  obtain ⟨_, b, _, rfl⟩ := bankCall_ok h
  exact ⟨rfl, rfl, _, rfl, rfl⟩

theorem hook_grow {c c' : Ctx} {name : String} {args : List String} (h : c.hook name args = .ok c') :
    Grow c c' (calledOnce c.ctl.listeners name args) := by
  obtain ⟨h1, h2, _, h4⟩ := hook_ok h
  exact ⟨h2, by rw [h1], _, h4, hooksOf_hooks _ _ _⟩

/-- the hook part of a log: what `Grow` says about a run from an empty log -/
theorem Grow.start {s : Core} {ctl : Control} {c' : Ctx} {hs : List (Nat × String × List String)}
    (h : Grow { s := s, ctl := ctl } c' hs) : hooksOf c'.effs = hs := by
  obtain ⟨_, _, l, hl, hx⟩ := h
  rw [hl]
  simpa using hx

/-- a successful atomic run: the handler's final context -/
theorem runAtomic_ok {st : State} {recover : Bool} {f : Ctx → M Ctx}
    (hok : (runAtomic st recover f).1.res = .ok) :
    ∃ c, f { s := st.core, ctl := st.ctl } = .ok c ∧ (runAtomic st recover f).1.effs = c.effs ∧
      (runAtomic st recover f).2.core = c.s := by
  rcases runAtomic_cases st recover f with ⟨c, hc, hr⟩ | ⟨e, _, _, hne⟩
  · exact ⟨c, hc, by rw [hr], by rw [hr]⟩
  · exact absurd hok hne

/-! #### the handlers -/

theorem createAuction_grow {c c' : Ctx} {m : CreateMsg} (h : createAuction c m = .ok c') :
    ∃ l, c'.effs = c.effs ++ l ∧ hooksOf l =
      calledOnce c.ctl.listeners
        (if m.type = .fixed then "BeforeFixedPriceAuctionCreated" else "BeforeBatchAuctionCreated")
        (createHookArgs m none) ++
      calledOnce c.ctl.listeners
        (if m.type = .fixed then "AfterFixedPriceAuctionCreated" else "AfterBatchAuctionCreated")
        (createHookArgs m (some c.s.views.length)) := by
  unfold createAuction at h
  simp only [bind_ok, check_ok, pure_ok] at h
  obtain ⟨_, _, _, _, _, _, c1, hfee, coins, hmk, c2, hsend, c3, hh1, hh2⟩ := h
  have g2 := (bankCall_grow hfee).trans (bankCall_grow hsend)
  have g3 := hook_grow hh1
  have g4 := hook_grow hh2
  have e2 : c2.ctl = c.ctl := g2.1
  have e3 : c3.ctl = c2.ctl := g3.1
  rw [e2] at g3
  simp only [e3, e2] at g4
  obtain ⟨_, _, l2, hl2, hx2⟩ := g2
  obtain ⟨_, _, l3, hl3, hx3⟩ := g3
  obtain ⟨_, _, l4, hl4, hx4⟩ := g4
  refine ⟨l2 ++ l3 ++ l4, ?_, ?_⟩
  · rw [hl4]; simp only [hl3, hl2, List.append_assoc]
  · rw [hooksOf_append, hooksOf_append, hx2, hx3, hx4]; rfl

theorem cancelAuction_grow {c c' : Ctx} {signer : Acc} {aid : Nat}
    (h : cancelAuction c signer aid = .ok c') :
    ∃ l, c'.effs = c.effs ++ l ∧
      hooksOf l = calledOnce c.ctl.listeners "BeforeAuctionCanceled" [rNat aid, rAcc signer] := by
  unfold cancelAuction at h
  simp only [bind_ok, check_ok, view_ok_iff, pure_ok] at h
  obtain ⟨v, hv, _, _, _, _, coins, hmk, c1, hbc, c2, hhk, rfl⟩ := h
  have g1 := bankCall_grow hbc
  have g2 := hook_grow hhk
  rw [g1.1] at g2
  obtain ⟨_, _, l, hl, hx⟩ := g1.nil_trans g2
  exact ⟨l, hl, hx⟩

theorem setView_get {c : Ctx} {aid : Nat} {v w : AView} {vs : List AView} (he : c.s.views = vs)
    (hv : vs[aid]? = some v) : (c.setView aid w).s.views[aid]? = some w := by
  rw [setView_views, he]
  have hlt : aid < vs.length := by
    rcases Nat.lt_or_ge aid vs.length with h | h
    · exact h
    · rw [List.getElem?_eq_none h] at hv; cases hv
  exact List.getElem?_set_self hlt

theorem placeBid_grow {c c' : Ctx} {bidder : Acc} {aid : Nat} {t : BidType} {price : Dec}
    {denom : Denom} {amt : Int} (h : placeBid c bidder aid t price denom amt = .ok c') :
    ∃ v' b, c'.s.views[aid]? = some v' ∧ v'.bids.getLast? = some b ∧
      ∃ l, c'.effs = c.effs ++ l ∧
        hooksOf l = calledOnce c.ctl.listeners "BeforeBidPlaced" (bidHookArgs b) := by
  unfold placeBid at h
  simp only [bind_ok, check_ok, view_ok_iff, pure_ok] at h
  obtain ⟨v, hv, _, hst, _, _, h⟩ := h
  split at h
  · rename_i ab hab
    simp only [bind_ok, check_ok, view_ok_iff, pure_ok] at h
    obtain ⟨_, rfl, c1, hfee, ⟨c2, a', bid'⟩, hin, c3, hhk, rfl⟩ := h
    have key : Grow c1 c2 [] ∧ bidHookArgs bid' =
        bidHookArgs (⟨aid, v.bidSeq + 1, bidder, t, price, denom, amt, false⟩ : Bid) := by
      cases t with
      | fixed =>
        simp only [bind_ok, check_ok, pure_ok] at hin
        obtain ⟨_, _, _, _, _, _, _, _, _, _, coins, hmk, c2', hbc, heq⟩ := hin
        simp only [Prod.mk.injEq] at heq
        obtain ⟨rfl, _, rfl⟩ := heq
        exact ⟨bankCall_grow hbc, rfl⟩
      | worth =>
        simp only [bind_ok, check_ok, pure_ok] at hin
        obtain ⟨_, _, _, _, _, _, coins, hmk, c2', hbc, heq⟩ := hin
        simp only [Prod.mk.injEq] at heq
        obtain ⟨rfl, _, rfl⟩ := heq
        exact ⟨bankCall_grow hbc, rfl⟩
      | many =>
        simp only [bind_ok, check_ok, pure_ok] at hin
        obtain ⟨_, _, _, _, _, _, coins, hmk, c2', hbc, heq⟩ := hin
        simp only [Prod.mk.injEq] at heq
        obtain ⟨rfl, _, rfl⟩ := heq
        exact ⟨bankCall_grow hbc, rfl⟩
    obtain ⟨g2, hargs⟩ := key
    have g12 := (bankCall_grow hfee).trans g2
    have g3 := hook_grow hhk
    rw [g12.1] at g3
    have g := g12.trans g3
    obtain ⟨_, hviews, l, hl, hx⟩ := g
    refine ⟨_, bid', setView_get hviews hv, ?_, l, hl, ?_⟩
    · exact List.getLast?_concat
    · simpa using hx
  · simp only [bind_ok, fail_ok, false_and, exists_false] at h

theorem modifyBid_grow {c c' : Ctx} {bidder : Acc} {aid bidId : Nat} {price : Dec} {denom : Denom}
    {amt : Int} (h : modifyBid c bidder aid bidId price denom amt = .ok c') :
    ∃ v' b, c'.s.views[aid]? = some v' ∧ b ∈ v'.bids ∧ b.id = bidId ∧ b.price = price ∧ b.amt = amt ∧
      ∃ l, c'.effs = c.effs ++ l ∧
        hooksOf l = calledOnce c.ctl.listeners "BeforeBidModified" (bidHookArgs b) := by
  unfold modifyBid at h
  simp only [bind_ok, check_ok, view_ok_iff, pure_ok] at h
  obtain ⟨v, hv, _, _, _, _, h⟩ := h
  split at h
  · rename_i bid hbid
    simp only [bind_ok, check_ok, view_ok_iff, pure_ok] at h
    obtain ⟨_, rfl, _, _, _, _, _, _, _, _, _, _, c1, hin, c2, hhk, rfl⟩ := h
    have key : Grow c c1 [] := by
      split at hin
      · split at hin
        · exact bankCall_grow hin
        · rw [pure_ok] at hin; subst hin; exact Grow.refl _
      · split at hin
        · exact (fail_ok.mp hin).elim
        · split at hin
          · exact bankCall_grow hin
          · rw [pure_ok] at hin; subst hin; exact Grow.refl _
      · rw [pure_ok] at hin; subst hin; exact Grow.refl _
    have g2 := hook_grow hhk
    rw [key.1] at g2
    obtain ⟨_, hviews, l, hl, hx⟩ := key.nil_trans g2
    have hid : (bid.id == bidId) = true :=
      List.find?_some (p := fun x : Bid => x.id == bidId) hbid
    have hmem : bid ∈ v.bids := List.mem_of_find?_eq_some hbid
    refine ⟨_, { bid with price := price, amt := amt }, setView_get hviews hv, ?_, ?_, rfl, rfl,
      l, hl, hx⟩
    · refine List.mem_map.2 ⟨bid, hmem, ?_⟩
      simp only [hid, if_true]
    · simpa using hid
  · simp only [bind_ok, fail_ok, false_and, exists_false] at h

theorem addAllowedBidders_grow {c c' : Ctx} {aid : Nat} {abs : List AllowedArg}
    (h : addAllowedBidders c aid abs = .ok c') :
    ∃ l, c'.effs = c.effs ++ l ∧
      hooksOf l = calledOnce c.ctl.listeners "BeforeAllowedBiddersAdded" (rAllowedArgs abs) := by
  unfold addAllowedBidders at h
  simp only [bind_ok, check_ok, view_ok_iff, pure_ok] at h
  obtain ⟨_, _, v, hv, c1, hhk, l, _, rfl⟩ := h
  obtain ⟨_, _, l, hl, hx⟩ := hook_grow hhk
  exact ⟨l, hl, hx⟩

theorem updateAllowedBidder_grow {c c' : Ctx} {aid : Nat} {bidder : Acc} {cap : Int}
    (h : updateAllowedBidder c aid bidder cap = .ok c') :
    ∃ l, c'.effs = c.effs ++ l ∧
      hooksOf l = calledOnce c.ctl.listeners "BeforeAllowedBidderUpdated"
        [rNat aid, rAcc bidder, rInt cap] := by
  unfold updateAllowedBidder at h
  simp only [bind_ok, check_ok, view_ok_iff, pure_ok] at h
  obtain ⟨v, hv, _, _, _, _, c1, hhk, rfl⟩ := h
  obtain ⟨_, _, l, hl, hx⟩ := hook_grow hhk
  exact ⟨l, hl, hx⟩

/-- a successful message, at the level of `step` -/
theorem step_msg_ok {st : State} {m : Msg} (hok : (step st (.msg m)).1.res = .ok) :
    ∃ c, handle { s := st.core, ctl := st.ctl } m = .ok c ∧ (step st (.msg m)).1.effs = c.effs ∧
      (step st (.msg m)).2.core = c.s := by
  obtain ⟨c, hc, he, hs⟩ := runAtomic_ok (st := st) (recover := true) (f := fun c => deliver c m) hok
  exact ⟨c, (LedgerInv.deliver_ok hc).2, he, hs⟩

theorem start_effs {s : Core} {ctl : Control} {c' : Ctx} {l : List Eff}
    (hl : c'.effs = ({ s := s, ctl := ctl } : Ctx).effs ++ l) : c'.effs = l := by
  rw [hl]; rfl

end HookInv

/-- **place bid**: exactly `BeforeBidPlaced`, once per listener, with the id, owner, type, price
    and coin of the bid that is then stored -/
theorem place_hooks (st : State) (bidder : Acc) (aid : Nat) (t : BidType) (price : Dec) (denom : Denom)
    (amt : Int) (hok : (step st (.msg (.place bidder aid (some t) price denom amt))).1.res = .ok) :
    ∃ v' b, (step st (.msg (.place bidder aid (some t) price denom amt))).2.core.views[aid]? = some v' ∧
      v'.bids.getLast? = some b ∧
      hooksOf (step st (.msg (.place bidder aid (some t) price denom amt))).1.effs =
        calledOnce st.ctl.listeners "BeforeBidPlaced" (bidHookArgs b) := by
  obtain ⟨c, hc, he, hs⟩ := HookInv.step_msg_ok hok
  obtain ⟨v', b, hv', hb, l, hl, hx⟩ := HookInv.placeBid_grow (show placeBid _ _ _ _ _ _ _ = .ok c from hc)
  refine ⟨v', b, by rw [hs]; exact hv', hb, ?_⟩
  rw [he, HookInv.start_effs hl]
  exact hx

/-- **modify bid**: exactly `BeforeBidModified`, once per listener, with the values of the bid
    as stored after the modification — whether or not an extra reservation was needed -/
theorem modify_hooks (st : State) (bidder : Acc) (aid bidId : Nat) (price : Dec) (denom : Denom)
    (amt : Int) (hok : (step st (.msg (.modify bidder aid bidId price denom amt))).1.res = .ok) :
    ∃ v' b, (step st (.msg (.modify bidder aid bidId price denom amt))).2.core.views[aid]? = some v' ∧
      b ∈ v'.bids ∧ b.id = bidId ∧ b.price = price ∧ b.amt = amt ∧
      hooksOf (step st (.msg (.modify bidder aid bidId price denom amt))).1.effs =
        calledOnce st.ctl.listeners "BeforeBidModified" (bidHookArgs b) := by
  obtain ⟨c, hc, he, hs⟩ := HookInv.step_msg_ok hok
  obtain ⟨v', b, hv', hb, h1, h2, h3, l, hl, hx⟩ :=
    HookInv.modifyBid_grow (show modifyBid _ _ _ _ _ _ _ = .ok c from hc)
  refine ⟨v', b, by rw [hs]; exact hv', hb, h1, h2, h3, ?_⟩
  rw [he, HookInv.start_effs hl]
  exact hx

/-- **create auction**: `Before…Created` then `After…Created` (the latter with the new id),
    once per listener each, with the values of the message = the values stored -/
theorem create_hooks (st : State) (m : CreateMsg) (hok : (step st (.msg (.create m))).1.res = .ok) :
    hooksOf (step st (.msg (.create m))).1.effs =
      calledOnce st.ctl.listeners
        (if m.type = .fixed then "BeforeFixedPriceAuctionCreated" else "BeforeBatchAuctionCreated")
        (createHookArgs m none) ++
      calledOnce st.ctl.listeners
        (if m.type = .fixed then "AfterFixedPriceAuctionCreated" else "AfterBatchAuctionCreated")
        (createHookArgs m (some st.core.views.length)) := by
  obtain ⟨c, hc, he, hs⟩ := HookInv.step_msg_ok hok
  obtain ⟨l, hl, hx⟩ := HookInv.createAuction_grow (show createAuction _ _ = .ok c from hc)
  rw [he, HookInv.start_effs hl]
  exact hx

/-- **cancel**: exactly `BeforeAuctionCanceled (id, auctioneer)` once per listener -/
theorem cancel_hooks (st : State) (signer : Acc) (aid : Nat)
    (hok : (step st (.msg (.cancel signer aid))).1.res = .ok) :
    hooksOf (step st (.msg (.cancel signer aid))).1.effs =
      calledOnce st.ctl.listeners "BeforeAuctionCanceled" [rNat aid, rAcc signer] := by
  obtain ⟨c, hc, he, hs⟩ := HookInv.step_msg_ok hok
  obtain ⟨l, hl, hx⟩ := HookInv.cancelAuction_grow (show cancelAuction _ _ _ = .ok c from hc)
  rw [he, HookInv.start_effs hl]
  exact hx

/-- **allow-list calls**: `BeforeAllowedBiddersAdded (the list passed)` / `BeforeAllowedBidderUpdated
    (id, bidder, new maximum)` once per listener -/
theorem kadd_hooks (st : State) (aid : Nat) (abs : List AllowedArg)
    (hok : (step st (.kadd aid abs)).1.res = .ok) :
    hooksOf (step st (.kadd aid abs)).1.effs =
      calledOnce st.ctl.listeners "BeforeAllowedBiddersAdded" (rAllowedArgs abs) := by
  obtain ⟨c, hc, he, hs⟩ := HookInv.runAtomic_ok (st := st) (recover := true)
    (f := fun c => addAllowedBidders c aid abs) hok
  obtain ⟨l, hl, hx⟩ := HookInv.addAllowedBidders_grow hc
  have he' : (step st (.kadd aid abs)).1.effs = c.effs := he
  rw [he', HookInv.start_effs hl]
  exact hx

theorem kupd_hooks (st : State) (aid : Nat) (u : Acc) (cap : Int)
    (hok : (step st (.kupd aid u cap)).1.res = .ok) :
    hooksOf (step st (.kupd aid u cap)).1.effs =
      calledOnce st.ctl.listeners "BeforeAllowedBidderUpdated" [rNat aid, rAcc u, rInt cap] := by
  obtain ⟨c, hc, he, hs⟩ := HookInv.runAtomic_ok (st := st) (recover := true)
    (f := fun c => updateAllowedBidder c aid u cap) hok
  obtain ⟨l, hl, hx⟩ := HookInv.updateAllowedBidder_grow hc
  have he' : (step st (.kupd aid u cap)).1.effs = c.effs := he
  rw [he', HookInv.start_effs hl]
  exact hx

/-- **before the change is committed**: in every successful operation each hook entry of the
    effect log precedes the state change (the handlers write the collection only after the
    hook returned) — stated through its consequence that a VETO leaves the state untouched:
    if listener `j < listeners` fails on hook `name` and the un-vetoed operation calls that
    hook, the vetoed operation fails, commits nothing, and the listeners after `j` are not
    called for that hook -/
theorem veto_fails_op (st : State) (op : Op) (hop : op.isModuleOp = true) (name : String) (j : Nat)
    (args : List String) (hf : st.ctl.failhook = none)
    (hok : (step st op).1.res = .ok) (hcall : Eff.hook j name args ∈ (step st op).1.effs) :
    let st' : State := { st with ctl := { st.ctl with failhook := some (name, j) } }
    (step st' op).1.res ≠ .ok ∧
    (step st' op).2.core = (match op with | .block t => { st.core with now := t } | _ => st.core) ∧
    ∀ k a, j < k → Eff.hook k name a ∉ (step st' op).1.effs := by
  intro st'
  have _ := hf
  cases op with
  | msg m =>
    exact HookInv.runAtomic_veto st true (fun c => deliver c m) (HookInv.deliver_sound m) args hok hcall
  | kadd aid abs =>
    exact HookInv.runAtomic_veto st true (fun c => addAllowedBidders c aid abs)
      (HookInv.addAllowedBidders_sound aid abs) args hok hcall
  | kupd aid u cap =>
    exact HookInv.runAtomic_veto st true (fun c => updateAllowedBidder c aid u cap)
      (HookInv.updateAllowedBidder_sound aid u cap) args hok hcall
  | block t =>
    exact HookInv.runAtomic_veto { st with core := { st.core with now := t } } false
      (fun c => beginBlock c t) (HookInv.beginBlock_sound t) args hok hcall
  | reset => cases hop
  | fund u d amt => cases hop
  | gift src dst d amt => cases hop
  | genesis => cases hop
  | listeners n => cases hop
  | failhook n i => cases hop
  | fault k => cases hop
  | query q => cases hop

end Fundraising
