import Fundraising.Spec.Clearing
import Fundraising.Proofs.DecLemmas
/-
  Helper lemmas for C03 / C04 (batch) / C05 (batch): the sweep computes capped demand for
  every arrangement, fails exactly when demand exceeds supply, demand is antitone in the
  price, Go's `sort.Search` loop returns the result at the least fitting index.

  STATEMENTS BELOW ARE FIXED (they are what Props/C03–C05 cite); proofs to be filled in.
-/
namespace Fundraising

/-- any arrangement `SortBids` could produce: a permutation of the bids with prices
    descending (order inside a price level arbitrary) -/
def Arrangement (bids sorted : List Bid) : Prop :=
  sorted.Perm bids ∧ sorted.Pairwise (fun x y => y.price ≤ x.price)

theorem sortBids_arrangement (bids : List Bid) : Arrangement bids (sortBids bids) := by
  sorry

theorem matchAt_fits_iff (a : Auction) (bids sorted : List Bid) (allowed : List Allowed) (p : Dec)
    (hw : BookWF a bids allowed) (hs : Arrangement bids sorted) (hp : 0 < p) :
    (∃ acc, matchAt p sorted a.sellAmt allowed = .fit acc) ↔ demand bids allowed p ≤ a.sellAmt := by
  sorry

/-- on a well-formed book the sweep never hits a nil `math.Int` -/
theorem matchAt_ne_panic (a : Auction) (bids sorted : List Bid) (allowed : List Allowed) (p : Dec)
    (hw : BookWF a bids allowed) (hs : Arrangement bids sorted) :
    matchAt p sorted a.sellAmt allowed ≠ .panic := by
  sorry

/-- number of `u`'s bids in the matched list -/
def matchedCount (acc : MAcc) (u : Acc) : Int := (acc.matched.filter (·.bidder == u)).length

/-- what a successful sweep at price `p` returns -/
theorem matchAt_result (a : Auction) (bids sorted : List Bid) (allowed : List Allowed) (p : Dec)
    (acc : MAcc) (hw : BookWF a bids allowed) (hs : Arrangement bids sorted) (hp : 0 < p)
    (h : matchAt p sorted a.sellAmt allowed = .fit acc) :
    acc.price = p ∧ acc.total = demand bids allowed p ∧ acc.total ≤ a.sellAmt ∧
    (∀ u, acc.alloc u = cappedDemand bids allowed u p) ∧
    -- uniform price within rounding: p·alloc ≤ 10^18·pay < p·alloc + 10^18·(#matched bids of u)
    (∀ u, p * acc.alloc u ≤ PREC * acc.pay u) ∧
    (∀ u, acc.alloc u = 0 → acc.pay u = 0) ∧
    (∀ u, 0 < acc.alloc u → PREC * acc.pay u < p * acc.alloc u + PREC * matchedCount acc u) ∧
    -- never more than reserved
    (∀ u, acc.pay u ≤ reservedOf bids a.payDenom u) ∧
    -- the matched bids are exactly the recorded bids that got a positive amount; all priced ≥ p
    (∀ b ∈ acc.matched, b ∈ bids ∧ p ≤ b.price) := by
  sorry

theorem demand_antitone (a : Auction) (bids : List Bid) (allowed : List Allowed) (p q : Dec)
    (hw : BookWF a bids allowed) (hp : 0 < p) (hpq : p ≤ q) :
    demand bids allowed q ≤ demand bids allowed p := by
  sorry

theorem clearing_cases (bids : List Bid) (allowed : List Allowed) (S : Int) :
    NoPriceFits bids allowed S ∨ ∃ p, IsClearingPrice bids allowed S p := by
  sorry

/-- Go's `sort.Search` loop with the closure's stored result: for a predicate that is
    monotone in the index (once it fits it fits for every larger index) and never panics,
    the loop returns the result at the LEAST fitting index, or nothing if none fits. -/
theorem searchLoop_least (f : Nat → MRes) (n : Nat)
    (hnp : ∀ h, h < n → f h ≠ .panic)
    (hmono : ∀ h h', h ≤ h' → h' < n → (∃ acc, f h = .fit acc) → ∃ acc, f h' = .fit acc) :
    (∀ h, h < n → f h = .nofit) ∧ searchLoop f n 0 n none = some none ∨
    ∃ h acc, h < n ∧ f h = .fit acc ∧ (∀ h', h' < h → f h' = .nofit) ∧
      searchLoop f n 0 n none = some (some acc) := by
  sorry

theorem calcBatchWith_spec (a : Auction) (bids sorted : List Bid) (allowed : List Allowed)
    (hw : BookWF a bids allowed) (hs : Arrangement bids sorted) :
    ∃ mi, calcBatchWith sorted a bids allowed = some mi ∧
      (NoPriceFits bids allowed a.sellAmt →
          mi.total = 0 ∧ mi.matchedLen = 0 ∧
          ∀ u ∈ biddersOf bids, lookupAmt mi.alloc u = 0 ∧
            lookupAmt mi.refund u = reservedOf bids a.payDenom u) ∧
      (∀ p, IsClearingPrice bids allowed a.sellAmt p →
          mi.price = p ∧ mi.total = demand bids allowed p ∧
          (∀ u ∈ biddersOf bids, lookupAmt mi.alloc u = cappedDemand bids allowed u p) ∧
          (demand bids allowed p = 0 →
            ∀ u ∈ biddersOf bids, lookupAmt mi.refund u = reservedOf bids a.payDenom u)) := by
  sorry

/-- the bounds C04 and C05 need from a batch settlement, for every bidder with a bid -/
theorem calcBatchWith_bounds (a : Auction) (bids sorted : List Bid) (allowed : List Allowed) (mi : MInfo)
    (hw : BookWF a bids allowed) (hs : Arrangement bids sorted)
    (h : calcBatchWith sorted a bids allowed = some mi) :
    0 ≤ mi.total ∧ mi.total ≤ a.sellAmt ∧
    mi.total = ((biddersOf bids).map (lookupAmt mi.alloc)).sum ∧
    mi.matchedLen = mi.matchedIds.length ∧
    (∀ id ∈ mi.matchedIds, ∃ b ∈ bids, b.id = id ∧ mi.price ≤ b.price) ∧
    ∀ u ∈ biddersOf bids,
      let alloc := lookupAmt mi.alloc u
      let refund := lookupAmt mi.refund u
      let pay := reservedOf bids a.payDenom u - refund
      let k : Int := ((bids.filter (fun b => b.bidder == u && mi.matchedIds.contains b.id)).length : Int)
      0 ≤ alloc ∧ alloc ≤ capOf allowed u ∧ alloc ≤ rawDemand bids u mi.price ∧
      0 ≤ refund ∧ pay ≤ reservedOf bids a.payDenom u ∧
      mi.price * alloc ≤ PREC * pay ∧
      (alloc = 0 → refund = reservedOf bids a.payDenom u) ∧
      (0 < alloc → PREC * pay < mi.price * alloc + PREC * k) := by
  sorry

end Fundraising
