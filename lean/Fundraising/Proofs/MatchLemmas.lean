import Fundraising.Spec.Clearing
import Fundraising.Proofs.DecLemmas
import Fundraising.Proofs.MatchBatch
/-
  Helper lemmas for C03 / C04 (batch) / C05 (batch): the sweep computes capped demand for
  every arrangement, fails exactly when demand exceeds supply, demand is antitone in the
  price, Go's `sort.Search` loop returns the result at the least fitting index.

  STATEMENTS BELOW ARE FIXED (they are what Props/C03–C05 cite); proofs to be filled in.
-/
namespace Fundraising

/-- any arrangement `SortBids` could produce: a permutation of the bids with prices
    descending (order inside a price level arbitrary) -/
def Arrangement (bids sorted : List Bid) : Prop :=
  sorted.Perm bids ∧ sorted.Pairwise (fun x y => y.price ≤ x.price)

theorem sortBids_arrangement (bids : List Bid) : Arrangement bids (sortBids bids) := by
  have := sortBids_foldl bids [] List.Pairwise.nil
  unfold Arrangement sortBids
  simpa using this

theorem matchAt_fits_iff (a : Auction) (bids sorted : List Bid) (allowed : List Allowed) (p : Dec)
    (hw : BookWF a bids allowed) (hs : Arrangement bids sorted) (hp : 0 < p) :
    (∃ acc, matchAt p sorted a.sellAmt allowed = .fit acc) ↔ demand bids allowed p ≤ a.sellAmt := by
  rcases matchAt_spec a bids sorted allowed p hw hs.1 hs.2 hp with ⟨h1, h2⟩ | ⟨h1, acc, h2, _⟩
  · rw [h2]
    constructor
    · rintro ⟨acc, e⟩; cases e
    · intro h3; omega
  · rw [h2]
    exact ⟨fun _ => h1, fun _ => ⟨acc, rfl⟩⟩

/-- on a well-formed book the sweep never hits a nil `math.Int` -/
theorem matchAt_ne_panic (a : Auction) (bids sorted : List Bid) (allowed : List Allowed) (p : Dec)
    (hw : BookWF a bids allowed) (hs : Arrangement bids sorted) :
    matchAt p sorted a.sellAmt allowed ≠ .panic :=
  matchAt_no_panic a bids sorted allowed p hw hs.1

/-- number of `u`'s bids in the matched list -/
def matchedCount (acc : MAcc) (u : Acc) : Int := (acc.matched.filter (·.bidder == u)).length

/-- what a successful sweep at price `p` returns -/
theorem matchAt_result (a : Auction) (bids sorted : List Bid) (allowed : List Allowed) (p : Dec)
    (acc : MAcc) (hw : BookWF a bids allowed) (hs : Arrangement bids sorted) (hp : 0 < p)
    (h : matchAt p sorted a.sellAmt allowed = .fit acc) :
    acc.price = p ∧ acc.total = demand bids allowed p ∧ acc.total ≤ a.sellAmt ∧
    (∀ u, acc.alloc u = cappedDemand bids allowed u p) ∧
    -- uniform price within rounding: p·alloc ≤ 10^18·pay < p·alloc + 10^18·(#matched bids of u)
    (∀ u, p * acc.alloc u ≤ PREC * acc.pay u) ∧
    (∀ u, acc.alloc u = 0 → acc.pay u = 0) ∧
    (∀ u, 0 < acc.alloc u → PREC * acc.pay u < p * acc.alloc u + PREC * matchedCount acc u) ∧
    -- never more than reserved
    (∀ u, acc.pay u ≤ reservedOf bids a.payDenom u) ∧
    -- the matched bids are exactly the recorded bids that got a positive amount; all priced ≥ p
    (∀ b ∈ acc.matched, b ∈ bids ∧ p ≤ b.price) := by
  obtain ⟨h1, h2, h3, h4, h5, h6, h7, h8, h9, _⟩ :=
    matchAt_full a bids sorted allowed p acc hw hs.1 hs.2 hp h
  exact ⟨h1, h2, h3, h4, h5, h6, h7, h8, h9⟩

theorem demand_antitone (a : Auction) (bids : List Bid) (allowed : List Allowed) (p q : Dec)
    (hw : BookWF a bids allowed) (hp : 0 < p) (hpq : p ≤ q) :
    demand bids allowed q ≤ demand bids allowed p :=
  demand_antitone' a bids allowed p q hw hp hpq

theorem clearing_cases (bids : List Bid) (allowed : List Allowed) (S : Int) :
    NoPriceFits bids allowed S ∨ ∃ p, IsClearingPrice bids allowed S p :=
  exists_min_price (fun p => demand bids allowed p ≤ S) bids

/-- Go's `sort.Search` loop with the closure's stored result: for a predicate that is
    monotone in the index (once it fits it fits for every larger index) and never panics,
    the loop returns the result at the LEAST fitting index, or nothing if none fits. -/
theorem searchLoop_least (f : Nat → MRes) (n : Nat)
    (hnp : ∀ h, h < n → f h ≠ .panic)
    (hmono : ∀ h h', h ≤ h' → h' < n → (∃ acc, f h = .fit acc) → ∃ acc, f h' = .fit acc) :
    (∀ h, h < n → f h = .nofit) ∧ searchLoop f n 0 n none = some none ∨
    ∃ h acc, h < n ∧ f h = .fit acc ∧ (∀ h', h' < h → f h' = .nofit) ∧
      searchLoop f n 0 n none = some (some acc) :=
  searchLoop_least' f n hnp hmono

theorem calcBatchWith_spec (a : Auction) (bids sorted : List Bid) (allowed : List Allowed)
    (hw : BookWF a bids allowed) (hs : Arrangement bids sorted) :
    ∃ mi, calcBatchWith sorted a bids allowed = some mi ∧
      (NoPriceFits bids allowed a.sellAmt →
          mi.total = 0 ∧ mi.matchedLen = 0 ∧
          ∀ u ∈ biddersOf bids, lookupAmt mi.alloc u = 0 ∧
            lookupAmt mi.refund u = reservedOf bids a.payDenom u) ∧
      (∀ p, IsClearingPrice bids allowed a.sellAmt p →
          mi.price = p ∧ mi.total = demand bids allowed p ∧
          (∀ u ∈ biddersOf bids, lookupAmt mi.alloc u = cappedDemand bids allowed u p) ∧
          (demand bids allowed p = 0 →
            ∀ u ∈ biddersOf bids, lookupAmt mi.refund u = reservedOf bids a.payDenom u)) := by
  rcases calcBatchWith_cases a bids sorted allowed hw hs.1 hs.2 with
    ⟨hno, hc⟩ | ⟨p0, acc, hcl, hp0, hm, hc⟩
  · refine ⟨_, hc, ?_, ?_⟩
    · intro _
      refine ⟨rfl, rfl, ?_⟩
      intro u hu
      exact ⟨lookupAmt_map (fun _ => 0) u _ hu,
        lookupAmt_map (fun u => sumOver bids u (·.toPaying a.payDenom)) u _ hu⟩
    · intro p hcp
      obtain ⟨⟨b, hb, e⟩, hd, _⟩ := hcp
      rw [← e] at hd
      exact absurd hd (hno b hb)
  · obtain ⟨hpr, htot, _, halloc, _, hz, _, _, _, _⟩ :=
      matchAt_full a bids sorted allowed p0 acc hw hs.1 hs.2 hp0 hm
    refine ⟨_, hc, ?_, ?_⟩
    · intro hno
      obtain ⟨⟨b, hb, e⟩, hd, _⟩ := hcl
      rw [← e] at hd
      exact absurd hd (hno b hb)
    · intro p hcp
      have hpp : p = p0 := by
        obtain ⟨⟨b, hb, e⟩, hd, hmin⟩ := hcp
        obtain ⟨⟨b0, hb0, e0⟩, hd0, hmin0⟩ := hcl
        have h1 : p ≤ p0 := by
          have := hmin b0 hb0 (by rw [e0]; exact hd0)
          rw [e0] at this; exact this
        have h2 : p0 ≤ p := by
          have := hmin0 b hb (by rw [e]; exact hd)
          rw [e] at this; exact this
        exact Int.le_antisymm h1 h2
      subst hpp
      refine ⟨hpr, htot, ?_, ?_⟩
      · intro u hu
        show lookupAmt ((biddersOf bids).map (fun u => (u, acc.alloc u))) u = _
        rw [lookupAmt_map (fun u => acc.alloc u) u _ hu]
        exact halloc u
      · intro hd0 u hu
        show lookupAmt ((biddersOf bids).map
          (fun u => (u, sumOver bids u (·.toPaying a.payDenom) - acc.pay u))) u = _
        rw [lookupAmt_map (fun u => sumOver bids u (·.toPaying a.payDenom) - acc.pay u) u _ hu]
        have hcd : cappedDemand bids allowed u p = 0 :=
          isum_map_eq_zero _ (biddersOf bids)
            (fun v _ => cappedDemand_nonneg a bids allowed hw v p (Int.le_of_lt hp0)) hd0 u hu
        have := hz u (by rw [halloc u]; exact hcd)
        unfold reservedOf; omega

/-- the bounds C04 and C05 need from a batch settlement, for every bidder with a bid -/
theorem calcBatchWith_bounds (a : Auction) (bids sorted : List Bid) (allowed : List Allowed) (mi : MInfo)
    (hw : BookWF a bids allowed) (hs : Arrangement bids sorted)
    (h : calcBatchWith sorted a bids allowed = some mi) :
    0 ≤ mi.total ∧ mi.total ≤ a.sellAmt ∧
    mi.total = ((biddersOf bids).map (lookupAmt mi.alloc)).sum ∧
    mi.matchedLen = mi.matchedIds.length ∧
    (∀ id ∈ mi.matchedIds, ∃ b ∈ bids, b.id = id ∧ mi.price ≤ b.price) ∧
    ∀ u ∈ biddersOf bids,
      let alloc := lookupAmt mi.alloc u
      let refund := lookupAmt mi.refund u
      let pay := reservedOf bids a.payDenom u - refund
      let k : Int := ((bids.filter (fun b => b.bidder == u && mi.matchedIds.contains b.id)).length : Int)
      0 ≤ alloc ∧ alloc ≤ capOf allowed u ∧ alloc ≤ rawDemand bids u mi.price ∧
      0 ≤ refund ∧ pay ≤ reservedOf bids a.payDenom u ∧
      mi.price * alloc ≤ PREC * pay ∧
      (alloc = 0 → refund = reservedOf bids a.payDenom u) ∧
      (0 < alloc → PREC * pay < mi.price * alloc + PREC * k) := by
  rcases calcBatchWith_cases a bids sorted allowed hw hs.1 hs.2 with
    ⟨hno, hc⟩ | ⟨p0, acc, hcl, hp0, hm, hc⟩
  · rw [hc] at h
    injection h with h
    subst h
    refine ⟨Int.le_refl 0, Int.le_of_lt hw.supply, ?_, rfl, ?_, ?_⟩
    · show (0 : Int) = _
      rw [isum_map_congr (lookupAmt (noMatchInfo a bids).alloc) (fun _ => 0) (biddersOf bids)
        (fun u hu => lookupAmt_map (fun _ => 0) u _ hu), isum_map_zero]
    · intro id hid; cases hid
    · intro u hu
      have ha : lookupAmt (noMatchInfo a bids).alloc u = 0 := lookupAmt_map (fun _ => 0) u _ hu
      have hr : lookupAmt (noMatchInfo a bids).refund u = reservedOf bids a.payDenom u :=
        lookupAmt_map (fun u => sumOver bids u (·.toPaying a.payDenom)) u _ hu
      have h1 := capOf_nonneg allowed hw.caps u
      have h2 := rawDemand_nonneg a bids allowed hw u 0 (Int.le_refl 0)
      have h3 := reservedOf_nonneg a bids allowed hw u
      have hprice : (noMatchInfo a bids).price = 0 := rfl
      simp only [ha, hr, hprice]
      refine ⟨Int.le_refl 0, h1, h2, h3, by omega, by simp, fun _ => trivial, fun h => by omega⟩
  · rw [hc] at h
    injection h with h
    subst h
    obtain ⟨hpr, htot, hle, halloc, hlo, hz, hhi, hres, hmat, hsub⟩ :=
      matchAt_full a bids sorted allowed p0 acc hw hs.1 hs.2 hp0 hm
    have hp00 : 0 ≤ p0 := Int.le_of_lt hp0
    have hla : ∀ u ∈ biddersOf bids, lookupAmt (matchInfo a bids acc).alloc u = acc.alloc u :=
      fun u hu => lookupAmt_map (fun u => acc.alloc u) u _ hu
    refine ⟨?_, hle, ?_, ?_, ?_, ?_⟩
    · show 0 ≤ acc.total
      rw [htot]
      exact isum_map_nonneg _ _ (fun u _ => cappedDemand_nonneg a bids allowed hw u p0 hp00)
    · show acc.total = _
      rw [htot, isum_map_congr _ _ _ hla]
      exact isum_map_congr _ _ _ (fun u _ => (halloc u).symm)
    · show ((acc.matched.length : Nat) : Int) = (((acc.matched.map (·.id)).length : Nat) : Int)
      rw [List.length_map]
    · intro id hid
      obtain ⟨b, hb, e⟩ := List.mem_map.1 hid
      have := hmat b hb
      exact ⟨b, this.1, e, by show acc.price ≤ b.price; rw [hpr]; exact this.2⟩
    · intro u hu
      have ha := hla u hu
      have hr : lookupAmt (matchInfo a bids acc).refund u = reservedOf bids a.payDenom u - acc.pay u :=
        lookupAmt_map (fun u => sumOver bids u (·.toPaying a.payDenom) - acc.pay u) u _ hu
      have hprice : (matchInfo a bids acc).price = p0 := hpr
      have hids : (matchInfo a bids acc).matchedIds = acc.matched.map (·.id) := rfl
      have h0 := cappedDemand_nonneg a bids allowed hw u p0 hp00
      have hcd := halloc u
      have hlo' := hlo u
      have hpay0 : 0 ≤ acc.pay u := by
        have : 0 ≤ p0 * acc.alloc u := Int.mul_nonneg hp00 (by rw [hcd]; exact h0)
        have : 0 ≤ PREC * acc.pay u := Int.le_trans this hlo'
        unfold PREC at this; omega
      have hres' := hres u
      have hk := matched_count_le bids sorted acc.matched hs.1 hsub u
      have hpayeq : reservedOf bids a.payDenom u - (reservedOf bids a.payDenom u - acc.pay u) = acc.pay u := by
        omega
      simp only [ha, hr, hprice, hids, hpayeq]
      refine ⟨by omega, ?_, ?_, by omega, by omega, hlo', ?_, ?_⟩
      · rw [hcd]; unfold cappedDemand; omega
      · rw [hcd]; unfold cappedDemand; omega
      · intro hz0
        have := hz u hz0
        omega
      · intro hpos
        have h1 := hhi u hpos
        have h2 : PREC * ((acc.matched.filter (·.bidder == u)).length : Int) ≤
            PREC * ((bids.filter (fun b => b.bidder == u &&
              (acc.matched.map (·.id)).contains b.id)).length : Int) :=
          Int.mul_le_mul_of_nonneg_left (Int.ofNat_le.2 hk) (by decide)
        exact Int.lt_of_lt_of_le h1 (Int.add_le_add_left h2 _)

end Fundraising
