import Fundraising.Proofs.TotalSim
/-
  C07 helpers, part 2: the two instances of the simulation (a failing bank call, a
  failing listener) and what they say about a whole block.
-/
namespace Fundraising

/-- bank / distribution calls in an effect log (same as `xferCount`) -/
def xcount (effs : List Eff) : Nat := (effs.filter (fun e => !e.isHook)).length

theorem xcount_append (l l' : List Eff) : xcount (l ++ l') = xcount l + xcount l' := by
  simp [xcount, List.filter_append]

theorem xcount_xfer (t : Transfer) : xcount [.xfer t] = 1 := rfl

theorem xcount_hooks (name : String) (args : List String) (is : List Nat) :
    xcount (is.map (fun i => Eff.hook i name args)) = 0 := by
  induction is with
  | nil => rfl
  | cons i is ih => simp [xcount, Eff.isHook]

/-- a block of the failure-free run that ends beyond the failing primitive is rejected
    and rolled back when the failure is armed -/
theorem step_block_armed (S : SimSpec) (hS : SimOK S) (st : State) (t : Int)
    (hg : S.Good [] 0) (hok : (step st (.block t)).1.res = .ok)
    (hex : ∀ n, ¬ S.Good (step st (.block t)).1.effs n) :
    (step { st with ctl := S.arm st.ctl } (.block t)).1.res = .err ∧
    (step { st with ctl := S.arm st.ctl } (.block t)).2.core = { st.core with now := t } := by
  simp only [step] at hok hex ⊢
  rcases runAtomic_cases { st with core := { st.core with now := t } } false
      (fun c => beginBlock c t) with ⟨c', hc', hr⟩ | ⟨e, _, _, hne⟩
  · rw [hr] at hex
    have hrel := beginBlock_sound hS t _ c' hc'
    rcases hrel.2 hg with ⟨hgood, _⟩ | ⟨_, e, he⟩
    · exact absurd hgood (hex _)
    · have he' : beginBlock { s := { st.core with now := t }, ctl := S.arm st.ctl } t =
          .error ⟨.reject, e⟩ := he
      unfold runAtomic
      simp only [he']
      exact ⟨by simp, trivial⟩
  · exact absurd hok hne

/-! ### a failing bank call -/

def faultSpec (k : Nat) : SimSpec where
  arm ctl := { ctl with fault := some k }
  Good effs calls := calls = xcount effs ∧ calls ≤ k
  Past effs _ := k < xcount effs

theorem dispatchTo_armC (S : SimSpec) (name : String) (args : List String) :
    ∀ (is : List Nat) (c c' : Ctx), dispatchTo name args is c = .ok c' →
      (∀ i ∈ is, (S.arm c.ctl).failhook ≠ some (name, i)) →
      dispatchTo name args is (S.armC c) = .ok (S.armC c')
  | [], c, c', h, _ => by
    simp only [dispatchTo] at h ⊢
    cases h
    rfl
  | i :: is, c, c', h, hne => by
    unfold dispatchTo at h ⊢
    by_cases hf : c.ctl.failhook = some (name, i)
    · simp [hf, Ctx.fail] at h
    · simp only [hf, if_false] at h
      have h1 : ¬ (S.armC c).ctl.failhook = some (name, i) := hne i (List.mem_cons_self)
      simp only [h1, if_false]
      exact dispatchTo_armC S name args is _ c' h
        (fun j hj => hne j (List.mem_cons_of_mem _ hj))

theorem faultSpec_ok (k : Nat) : SimOK (faultSpec k) where
  bank := by
    intro kind src dst coins c c' h
    obtain ⟨_, b, hb, rfl⟩ := bankCall_ok h
    refine ⟨?_, ?_⟩
    · intro hp
      show k < xcount (c.effs ++ [_])
      rw [xcount_append]
      exact Nat.lt_of_lt_of_le hp (Nat.le_add_right _ _)
    · rintro ⟨h1, h2⟩
      by_cases hlt : c.calls < k
      · refine Or.inl ⟨⟨?_, ?_⟩, ?_⟩
        · show c.calls + 1 = xcount (c.effs ++ [_])
          rw [xcount_append, xcount_xfer, h1]
        · exact hlt
        · have hne : ((faultSpec k).armC c).ctl.fault ≠ some ((faultSpec k).armC c).calls := by
            show some k ≠ some c.calls
            intro e
            injection e with e
            omega
          exact bankCall_of_send hne hb
      · have hk : c.calls = k := by omega
        refine Or.inr ⟨?_, c.effs, ?_⟩
        · show k < xcount (c.effs ++ [_])
          rw [xcount_append, xcount_xfer]
          omega
        · have : ((faultSpec k).armC c).ctl.fault = some ((faultSpec k).armC c).calls := by
            show some k = some c.calls
            rw [hk]
          show ((faultSpec k).armC c).bankCall kind src dst coins = _
          unfold Ctx.bankCall
          rw [if_pos this]
          rfl
  hook := by
    intro name args c c' h
    obtain ⟨h1, h2, h3, h4, h5⟩ := dispatchTo_ok h
    have hx : xcount c'.effs = xcount c.effs := by
      rw [h4, xcount_append, xcount_hooks]; rfl
    refine ⟨?_, ?_⟩
    · intro hp
      show k < xcount c'.effs
      rw [hx]; exact hp
    · rintro ⟨g1, g2⟩
      refine Or.inl ⟨⟨?_, ?_⟩, ?_⟩
      · rw [hx, h3]; exact g1
      · rw [h3]; exact g2
      · exact dispatchTo_armC (faultSpec k) name args _ c c' h h5

/-! ### a failing listener -/

def hookSpec (name : String) (idx : Nat) : SimSpec where
  arm ctl := { ctl with failhook := some (name, idx) }
  Good effs _ := ∀ args, Eff.hook idx name args ∉ effs
  Past effs _ := ∃ args, Eff.hook idx name args ∈ effs

/-- with listener `idx` failing on `name`, a dispatch that reaches it is rejected -/
theorem dispatchTo_reject (name : String) (idx : Nat) (args : List String) :
    ∀ (is : List Nat) (c : Ctx), c.ctl.failhook = some (name, idx) → idx ∈ is →
      ∃ e, dispatchTo name args is c = .error ⟨.reject, e⟩
  | [], _, _, h => by cases h
  | i :: is, c, hf, h => by
    unfold dispatchTo
    by_cases hi : i = idx
    · subst hi
      simp only [hf, if_true]
      exact ⟨_, rfl⟩
    · have : ¬ c.ctl.failhook = some (name, i) := by
        rw [hf]
        intro e
        injection e with e
        injection e with _ e
        exact hi e.symm
      simp only [this, if_false]
      rcases List.mem_cons.1 h with h | h
      · exact absurd h.symm hi
      · exact dispatchTo_reject name idx args is _ hf h

theorem hookSpec_ok (name : String) (idx : Nat) : SimOK (hookSpec name idx) where
  bank := by
    intro kind src dst coins c c' h
    obtain ⟨hne, b, hb, rfl⟩ := bankCall_ok h
    refine ⟨?_, ?_⟩
    · rintro ⟨args, hm⟩
      exact ⟨args, List.mem_append_left _ hm⟩
    · intro hg
      refine Or.inl ⟨?_, ?_⟩
      · intro args hm
        rcases List.mem_append.1 hm with hm | hm
        · exact hg args hm
        · simp at hm
      · exact bankCall_of_send (c := (hookSpec name idx).armC c) hne hb
  hook := by
    intro name' args' c c' h
    obtain ⟨h1, h2, h3, h4, h5⟩ := dispatchTo_ok h
    refine ⟨?_, ?_⟩
    · rintro ⟨args, hm⟩
      refine ⟨args, ?_⟩
      show _ ∈ c'.effs
      rw [h4]
      exact List.mem_append_left _ hm
    · intro hg
      by_cases hhit : name' = name ∧ idx < c.ctl.listeners
      · obtain ⟨rfl, hlt⟩ := hhit
        refine Or.inr ⟨⟨args', ?_⟩, ?_⟩
        · show _ ∈ c'.effs
          rw [h4]
          exact List.mem_append_right _ (List.mem_map.2 ⟨idx, List.mem_range.2 hlt, rfl⟩)
        · exact dispatchTo_reject name' idx args' _ ((hookSpec name' idx).armC c) rfl
            (List.mem_range.2 hlt)
      · refine Or.inl ⟨?_, ?_⟩
        · intro args hm
          have hm' : Eff.hook idx name args ∈ c'.effs := hm
          rw [h4] at hm'
          rcases List.mem_append.1 hm' with hm' | hm'
          · exact hg args hm'
          · obtain ⟨i, hi, e⟩ := List.mem_map.1 hm'
            injection e with e1 e2 e3
            exact hhit ⟨e2, by rw [← e1]; exact List.mem_range.1 hi⟩
        · refine dispatchTo_armC (hookSpec name idx) name' args' _ c c' h ?_
          intro i hi e
          have e' : some (name, idx) = some (name', i) := e
          injection e' with e'
          injection e' with e1 e2
          exact hhit ⟨e1.symm, by rw [e2]; exact List.mem_range.1 hi⟩

end Fundraising
