import Fundraising.Proofs.EscrowSettle
import Fundraising.Proofs.EscrowRelease
/-
  C01: one iteration of the BeginBlocker loop keeps the accounting of its auction and
  touches no other auction; hence so does the whole loop.
-/
set_option linter.unusedSimpArgs false
set_option linter.unusedVariables false
namespace Fundraising.EscrowInv

theorem good_of_spec {i : Nat} {s s' : Core} {v : AView} (hv : s.views[i]? = some v)
    (h : ViewWF i v → Local i s s' ∧ ∃ v', s'.views[i]? = some v' ∧ Keeps s s' i v v') : Good i s s' :=
  ⟨v, hv, h⟩

theorem blockStep_good {c c' : Ctx} {i : Nat} (h : blockStep c i = .ok c') : Good i c.s c'.s := by
  unfold blockStep at h
  simp only [bind_ok, view_ok_iff] at h
  obtain ⟨v, hv, h⟩ := h
  cases hst : v.a.status with
  | standby =>
    rw [hst] at h
    simp only at h
    by_cases hnow : v.a.startTime ≤ c.s.now
    · rw [if_pos hnow, pure_ok] at h
      subst h
      refine good_of_set hv (setView_views _ _ _) (fun x j _ _ d => by rw [setView_bank]) ?_
      intro w
      have hb : v.bids = [] := w.noBidsBefore (Or.inl hst)
      refine ⟨rfl, rfl, ?_, ?_, ?_⟩
      · intro d; left
        simp only [slackSell, owedSell, setView_bank, hst]
        simp
      · intro d; left
        simp only [slackPay, owedPay, setView_bank, hst, reservedTotal, hb]
        simp
      · intro d; left
        simp only [slackVest, owedVest, setView_bank, hst]
        simp
    · rw [if_neg hnow, pure_ok] at h
      subst h
      exact good_of_same hv rfl rfl
  | started =>
    rw [hst] at h
    simp only at h
    split at h
    · exact (fail_ok.mp h).elim
    · rename_i e _
      by_cases hnow : e ≤ c.s.now
      · rw [if_pos hnow] at h
        refine good_of_spec hv (fun w => ?_)
        split at h
        · exact closeFixed_spec h hv w.id w.auction (w.vqsNone (Or.inr (Or.inl hst))) hst
        · exact closeBatch_spec h hv w.id w.auction (w.vqsNone (Or.inr (Or.inl hst))) hst
      · rw [if_neg hnow, pure_ok] at h
        subst h
        exact good_of_same hv rfl rfl
  | vesting =>
    rw [hst] at h
    simp only at h
    exact good_of_spec hv (fun w => releaseVesting_spec h hv w hst)
  | finished =>
    rw [hst] at h
    simp only [pure_ok] at h
    subst h
    exact good_of_same hv rfl rfl
  | cancelled =>
    rw [hst] at h
    simp only [pure_ok] at h
    subst h
    exact good_of_same hv rfl rfl

/-- any predicate on the module state kept by every well-formed single-auction operation
    is kept by the BeginBlocker loop -/
theorem blockLoop_keeps (P : Core → Prop)
    (hP : ∀ i s s', Good i s s' → (∀ v, s.views[i]? = some v → ViewWF i v) → P s → P s')
    {c' : Ctx} : ∀ (l : List Nat) (c : Ctx), blockLoop c l = .ok c' → l.Nodup →
      (∀ j ∈ l, ∀ v, c.s.views[j]? = some v → ViewWF j v) → P c.s → P c'.s := by
  intro l
  induction l with
  | nil =>
    intro c h _ _ hp
    simp only [blockLoop, pure_ok] at h
    subst h; exact hp
  | cons i rest ih =>
    intro c h hnd hwf hp
    simp only [blockLoop, bind_ok] at h
    obtain ⟨c1, h1, h2⟩ := h
    have g := blockStep_good h1
    have hwfi : ∀ v, c.s.views[i]? = some v → ViewWF i v := hwf i (by simp)
    rw [List.nodup_cons] at hnd
    refine ih c1 h2 hnd.2 ?_ (hP i _ _ g hwfi hp)
    intro j hj v hv
    obtain ⟨v0, hv0, hk⟩ := g
    obtain ⟨l, _⟩ := hk (hwfi v0 hv0)
    have hji : j ≠ i := by intro e; subst e; exact hnd.1 hj
    rw [l.views j hji] at hv
    exact hwf j (List.mem_cons_of_mem _ hj) v hv

theorem beginBlock_keeps (P : Core → Prop)
    (hP : ∀ i s s', Good i s s' → (∀ v, s.views[i]? = some v → ViewWF i v) → P s → P s')
    {c c' : Ctx} {t : Int} (h : beginBlock c t = .ok c')
    (hwf : ∀ j v, c.s.views[j]? = some v → ViewWF j v) (hp : P { c.s with now := t }) : P c'.s := by
  unfold beginBlock at h
  exact blockLoop_keeps P hP _ _ h List.nodup_range (fun j _ v hv => hwf j v hv) hp

end Fundraising.EscrowInv
