import Fundraising.Proofs.WFVesting
import Fundraising.Proofs.WFRelease
import Fundraising.Proofs.WFMatchCount
/-
  Settlement (`closeFixed`, `closeBatch`, `extendRound`, `settleBatch`) and the
  `BeginBlocker` loop preserve `WF` and `BankNonneg`.
-/
namespace Fundraising.WFInv

/-! ### CloseFixedPriceAuction -/

theorem closeFixed_wf {c c' : Ctx} {aid : Nat} {v : AView}
    (h : closeFixed c aid = .ok c') (hw : WF c.s)
    (hv : c.s.views[aid]? = some v) (hst : v.a.status = .started) :
    WF c'.s ∧ (BankNonneg c.s → BankNonneg c'.s) := by
  unfold closeFixed at h
  simp only [bind_ok] at h
  obtain ⟨v', hv', c1, h1, c2, h2, h⟩ := h
  obtain ⟨f1, n1⟩ := allocateSellingCoin_frame h1
  obtain ⟨f2, n2⟩ := refundRemainingSellingCoin_frame h2
  have f := f1.trans f2
  obtain ⟨w, n3⟩ := applyVesting_wf h (WF.frame f hw) (by rw [f.views]; exact hv) hst
  exact ⟨w, fun hn => n3 (n2 (n1 hn))⟩

/-! ### ExtendRound -/

theorem extendRound_wf {c c' : Ctx} {aid : Nat} {v : AView}
    (h : extendRound c aid = .ok c') (hw : WF c.s)
    (hv : c.s.views[aid]? = some v) (hlen : v.a.maxExt + 1 ≠ v.a.endTimes.length) :
    WF c'.s ∧ (BankNonneg c.s → BankNonneg c'.s) := by
  unfold extendRound at h
  simp only [bind_ok, pure_ok] at h
  obtain ⟨v', hv', rfl⟩ := h
  rw [view_ok_iff, hv] at hv'
  cases hv'
  have V := hw.views aid v hv
  refine ⟨WF.ctx_setView hw aid _ ?_, id⟩
  have A := V.auction
  exact {
    id := V.id
    auction := {
      auctioneer := A.auctioneer
      sellPos := A.sellPos
      pricePos := A.pricePos
      denomNe := A.denomNe
      sellDenomOk := A.sellDenomOk
      payDenomOk := A.payDenomOk
      endNonempty := by
        show v.a.endTimes ++ [_] ≠ []
        simp
      endLen := by
        show (v.a.endTimes ++ [_]).length ≤ v.a.maxExt + 1
        have := A.endLen
        rw [List.length_append, List.length_singleton]
        omega
      maxExt := A.maxExt
      sched := by
        show validSchedules v.a.schedules ((v.a.endTimes ++ [_]).headD 0) = true
        have := A.sched
        cases he : v.a.endTimes with
        | nil => exact absurd he A.endNonempty
        | cons x xs => rw [he] at this; simpa using this
      schedLen := A.schedLen
      batch := A.batch
      fixed := A.fixed }
    bids := fun b hb => BidWF.congr (V.bids b hb) rfl rfl rfl rfl rfl rfl
    bidIds := V.bidIds
    bidSeq := V.bidSeq
    caps := V.caps
    allowedSorted := V.allowedSorted
    noBidsBefore := V.noBidsBefore
    matchedLenBatch := V.matchedLenBatch
    matchedLenFixed := V.matchedLenFixed
    remaining := V.remaining
    vqsNone := V.vqsNone
    vqsSome := V.vqsSome
    vqsWF := V.vqsWF
    releasedPrefix := V.releasedPrefix
    vestingOpen := V.vestingOpen
    finishedAll := V.finishedAll }

/-! ### settling a batch auction -/

theorem ViewWF.setMatchedPrice {i : Nat} {v : AView} (V : ViewWF i v) (p : Dec) :
    ViewWF i { v with a := { v.a with matchedPrice := p } } :=
  { id := V.id
    auction := { V.auction with }
    bids := fun b hb => BidWF.congr (V.bids b hb) rfl rfl rfl rfl rfl rfl
    bidIds := V.bidIds
    bidSeq := V.bidSeq
    caps := V.caps
    allowedSorted := V.allowedSorted
    noBidsBefore := V.noBidsBefore
    matchedLenBatch := V.matchedLenBatch
    matchedLenFixed := V.matchedLenFixed
    remaining := V.remaining
    vqsNone := V.vqsNone
    vqsSome := V.vqsSome
    vqsWF := V.vqsWF
    releasedPrefix := V.releasedPrefix
    vestingOpen := V.vestingOpen
    finishedAll := V.finishedAll }

theorem getElem?_set_self' {l : List AView} {i : Nat} {v w : AView} (h : l[i]? = some v) :
    (l.set i w)[i]? = some w := by
  have hi : i < l.length := by
    rcases Nat.lt_or_ge i l.length with h' | h'
    · exact h'
    · rw [List.getElem?_eq_none h'] at h; cases h
  simp [hi]

theorem settleBatch_wf {c c' : Ctx} {aid : Nat} {mi : MInfo} {v : AView}
    (h : settleBatch c aid mi = .ok c') (hw : WF c.s)
    (hv : c.s.views[aid]? = some v) (hst : v.a.status = .started) :
    WF c'.s ∧ (BankNonneg c.s → BankNonneg c'.s) := by
  unfold settleBatch at h
  simp only [bind_ok] at h
  obtain ⟨v', hv', c1, h1, c2, h2, c3, h3, v3, hv3, h⟩ := h
  rw [view_ok_iff, hv] at hv'
  cases hv'
  obtain ⟨f1, n1⟩ := allocateSellingCoin_frame h1
  obtain ⟨f2, n2⟩ := refundRemainingSellingCoin_frame h2
  obtain ⟨f3, n3⟩ := refundPayingCoin_frame h3
  have f := (f1.trans f2).trans f3
  have hv3' : c3.s.views[aid]? = some v := by rw [f.views]; exact hv
  rw [view_ok_iff, hv3'] at hv3
  cases hv3
  have hw3 := WF.frame f hw
  have V := hw3.views aid v hv3'
  obtain ⟨w, n4⟩ := applyVesting_wf h
    (WF.ctx_setView hw3 aid _ (ViewWF.setMatchedPrice V (if mi.total > 0 then mi.price else 0)))
    (getElem?_set_self' hv3') hst
  exact ⟨w, fun hn => n4 (n3 (n2 (n1 hn)))⟩

/-! ### CloseBatchAuction -/

theorem bidIds_nodup {l : List Bid} (h : l.map (·.id) = (List.range l.length).map (· + 1)) :
    (l.map (·.id)).Nodup := by
  rw [h, List.nodup_iff_pairwise_ne, List.pairwise_map]
  exact List.pairwise_lt_range.imp (by intro a b hab; omega)

theorem bookWF_of_view {i : Nat} {v : AView} (V : ViewWF i v) (ht : v.a.type = .batch) :
    BookWF v.a v.bids v.allowed :=
  { types := by
      intro b hb
      rcases (V.bids b hb).batch ht with h | h
      · exact Or.inl h.1
      · exact Or.inr h.1
    denoms := by
      intro b hb
      rcases (V.bids b hb).batch ht with h | h
      · exact ⟨fun _ => h.2, fun e => by rw [h.1] at e; cases e⟩
      · refine ⟨fun e => (by rw [h.1] at e; cases e), fun _ => ?_⟩
        rw [h.2]; exact V.auction.denomNe
    prices := fun b hb => (V.bids b hb).price
    amts := fun b hb => (V.bids b hb).amt
    listed := fun b hb => (V.bids b hb).listed
    caps := fun x hx => (V.caps x hx).2
    supply := V.auction.sellPos
    ids := bidIds_nodup V.bidIds }

/-- the store writes of `CalculateBatchAllocation` -/
theorem closeBatch_view {i : Nat} {v : AView} {mi : MInfo} (V : ViewWF i v) (ht : v.a.type = .batch)
    (hcb : calcBatch v.a v.bids v.allowed = some mi) :
    ViewWF i { v with
      bids := v.bids.map (fun b => { b with matched := mi.matchedIds.contains b.id }),
      matchedLen := mi.matchedLen } :=
  { id := V.id
    auction := V.auction
    bids := by
      intro b' hb'
      obtain ⟨b, hb, rfl⟩ := List.mem_map.mp hb'
      have B := V.bids b hb
      exact ⟨B.auction, B.bidder, B.price, B.amt, B.listed, B.fixed, B.batch, B.minBid⟩
    bidIds := by
      show (v.bids.map _).map (fun b : Bid => b.id) = (List.range (v.bids.map _).length).map (· + 1)
      rw [List.length_map, ← V.bidIds, List.map_map]
      rfl
    bidSeq := by
      show v.bidSeq = (v.bids.map _).length
      rw [List.length_map]; exact V.bidSeq
    caps := V.caps
    allowedSorted := V.allowedSorted
    noBidsBefore := by
      intro h
      show v.bids.map _ = []
      rw [V.noBidsBefore h]; rfl
    matchedLenBatch := fun _ =>
      calcBatch_matchedLen_count v.a v.bids v.allowed mi (bookWF_of_view V ht) hcb
    matchedLenFixed := by intro (h : v.a.type = .fixed); rw [ht] at h; cases h
    remaining := by intro (h : v.a.type = .fixed); rw [ht] at h; cases h
    vqsNone := V.vqsNone
    vqsSome := V.vqsSome
    vqsWF := V.vqsWF
    releasedPrefix := V.releasedPrefix
    vestingOpen := V.vestingOpen
    finishedAll := V.finishedAll }

theorem closeBatch_wf {c c' : Ctx} {aid : Nat} {v : AView}
    (h : closeBatch c aid = .ok c') (hw : WF c.s)
    (hv : c.s.views[aid]? = some v) (hst : v.a.status = .started) (ht : v.a.type = .batch) :
    WF c'.s ∧ (BankNonneg c.s → BankNonneg c'.s) := by
  unfold closeBatch at h
  simp only [bind_ok] at h
  obtain ⟨v', hv', h⟩ := h
  rw [view_ok_iff, hv] at hv'
  cases hv'
  have V := hw.views aid v hv
  cases hcb : calcBatch v.a v.bids v.allowed with
  | none => simp only [hcb, bind_ok, fail_ne_ok, false_and, exists_false] at h
  | some mi =>
    simp only [hcb, bind_ok, pure_ok, exists_eq_left'] at h
    have hw0 := WF.ctx_setView (c := c) hw aid _ (closeBatch_view V ht hcb)
    have hv0 := getElem?_set_self' (w := { v with
      bids := v.bids.map (fun b => { b with matched := mi.matchedIds.contains b.id }),
      matchedLen := mi.matchedLen }) hv
    split at h
    · have r := settleBatch_wf h hw0 hv0 hst
      exact ⟨r.1, r.2⟩
    · rename_i hne
      split at h
      · have r := extendRound_wf h hw0 hv0 hne
        exact ⟨r.1, r.2⟩
      · split at h
        · have r := extendRound_wf h hw0 hv0 hne
          exact ⟨r.1, r.2⟩
        · have r := settleBatch_wf h hw0 hv0 hst
          exact ⟨r.1, r.2⟩

/-! ### BeginBlocker -/

theorem blockStep_wf {c c' : Ctx} {aid : Nat} (h : blockStep c aid = .ok c') (hw : WF c.s) :
    WF c'.s ∧ (BankNonneg c.s → BankNonneg c'.s) := by
  unfold blockStep at h
  simp only [bind_ok] at h
  obtain ⟨v, hv, h⟩ := h
  rw [view_ok_iff] at hv
  have V := hw.views aid v hv
  cases hs : v.a.status <;> simp only [hs] at h
  · -- standby
    split at h
    · rw [pure_ok] at h; subst h
      refine ⟨WF.ctx_setView hw aid _ ?_, id⟩
      have hb0 : v.bids = [] := V.noBidsBefore (Or.inl hs)
      exact {
        id := V.id
        auction := { V.auction with }
        bids := fun b hb => BidWF.congr (V.bids b hb) rfl rfl rfl rfl rfl rfl
        bidIds := V.bidIds
        bidSeq := V.bidSeq
        caps := V.caps
        allowedSorted := V.allowedSorted
        noBidsBefore := fun _ => hb0
        matchedLenBatch := V.matchedLenBatch
        matchedLenFixed := V.matchedLenFixed
        remaining := fun h _ => V.remaining h (Or.inl hs)
        vqsNone := fun _ => V.vqsNone (Or.inl hs)
        vqsSome := by intro h; simp at h
        vqsWF := V.vqsWF
        releasedPrefix := V.releasedPrefix
        vestingOpen := by intro h; simp at h
        finishedAll := by intro h; simp at h }
    · rw [pure_ok] at h; subst h; exact ⟨hw, id⟩
  · -- started
    split at h
    · simp only [fail_ne_ok] at h
    · split at h
      · cases ht : v.a.type <;> simp only [ht] at h
        · exact closeFixed_wf h hw hv hs
        · exact closeBatch_wf h hw hv hs ht
      · rw [pure_ok] at h; subst h; exact ⟨hw, id⟩
  · exact releaseVesting_wf h hw hv hs
  · rw [pure_ok] at h; subst h; exact ⟨hw, id⟩
  · rw [pure_ok] at h; subst h; exact ⟨hw, id⟩

theorem blockLoop_wf : ∀ {l : List Nat} {c c' : Ctx}, blockLoop c l = .ok c' → WF c.s →
    WF c'.s ∧ (BankNonneg c.s → BankNonneg c'.s) := by
  intro l
  induction l with
  | nil =>
    intro c c' h hw
    simp only [blockLoop, pure_ok] at h
    subst h; exact ⟨hw, id⟩
  | cons aid rest ih =>
    intro c c' h hw
    unfold blockLoop at h
    simp only [bind_ok] at h
    obtain ⟨c1, h1, h⟩ := h
    obtain ⟨w1, n1⟩ := blockStep_wf h1 hw
    obtain ⟨w2, n2⟩ := ih h w1
    exact ⟨w2, fun hn => n2 (n1 hn)⟩

theorem beginBlock_wf {c c' : Ctx} {t : Int} (h : beginBlock c t = .ok c') (hw : WF c.s) :
    WF c'.s ∧ (BankNonneg c.s → BankNonneg c'.s) := by
  unfold beginBlock at h
  have r := blockLoop_wf h ⟨hw.params, hw.views, hw.switchOff⟩
  exact ⟨r.1, r.2⟩

end Fundraising.WFInv
