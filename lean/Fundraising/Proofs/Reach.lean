import Fundraising.Spec.Invariants
namespace Fundraising

theorem run_nil (st : State) : run st [] = st := rfl

theorem run_cons (st : State) (op : Op) (ops : List Op) :
    run st (op :: ops) = run (step st op).2 ops := by
  simp [run, List.foldl_cons]

theorem run_append (st : State) (ops : List Op) (op : Op) :
    run st (ops ++ [op]) = (step (run st ops) op).2 := by
  simp [run, List.foldl_append]

theorem run_append' (st : State) (ops ops' : List Op) :
    run st (ops ++ ops') = run (run st ops) ops' := by
  simp [run, List.foldl_append]

theorem reach_init : Reach {} := ⟨[], rfl⟩

theorem reach_step {st : State} (h : Reach st) (op : Op) : Reach (step st op).2 := by
  obtain ⟨ops, rfl⟩ := h
  exact ⟨ops ++ [op], run_append _ _ _⟩

theorem reach_run {st : State} (h : Reach st) (ops : List Op) : Reach (run st ops) := by
  induction ops generalizing st with
  | nil => exact h
  | cons op ops ih => rw [run_cons]; exact ih (reach_step h op)

/-- induction over reachable states -/
theorem reach_induction {P : State → Prop} (h0 : P {})
    (hs : ∀ st op, Reach st → P st → P (step st op).2) : ∀ st, Reach st → P st := by
  have key : ∀ (ops : List Op) (st : State), Reach st → P st → P (run st ops) := by
    intro ops
    induction ops with
    | nil => intro st _ h; exact h
    | cons op ops ih =>
      intro st hr h
      rw [run_cons]
      exact ih _ (reach_step hr op) (hs st op hr h)
  intro st ⟨ops, hops⟩
  subst hops
  exact key ops {} reach_init h0

/-- induction over a history, for statements about the history itself: `P done st` where
    `done` is the list of operations executed so far -/
theorem run_induction {P : List Op → State → Prop} (h0 : P [] {})
    (hs : ∀ done op, P done (run {} done) → P (done ++ [op]) (step (run {} done) op).2) :
    ∀ ops, P ops (run {} ops) := by
  have key : ∀ (ops done : List Op), P done (run {} done) → P (done ++ ops) (run {} (done ++ ops)) := by
    intro ops
    induction ops with
    | nil => intro done h; simpa using h
    | cons op ops ih =>
      intro done h
      have h' := hs done op h
      rw [← run_append] at h'
      have := ih (done ++ [op]) h'
      simpa [List.append_assoc] using this
  intro ops
  simpa using key ops [] h0

end Fundraising
