import Fundraising.Proofs.WFBasic
/-
  Tools for the lifecycle theorems (ProgressProofs): the transfer projection of an effect
  log, "extension" of a context by effects (bank-only operations), the payout loop, list
  facts about `upsertBy`, `splitLoop`.
-/
namespace Fundraising.ProgressInv
open Fundraising.WFInv (bind_ok pure_ok fail_ne_ok)

/-- the transfers in an effect log (same definition as `xfersOf`) -/
def xf (effs : List Eff) : List Transfer :=
  effs.filterMap (fun e => match e with | .xfer t => some t | .hook .. => none)

theorem xf_nil : xf [] = [] := rfl

theorem xf_append (a b : List Eff) : xf (a ++ b) = xf a ++ xf b := by
  unfold xf; exact List.filterMap_append ..

theorem xf_xfer (t : Transfer) : xf [.xfer t] = [t] := rfl

theorem xf_hooks (name : String) (args : List String) (is : List Nat) :
    xf (is.map (fun i => Eff.hook i name args)) = [] := by
  induction is with
  | nil => rfl
  | cons i is ih =>
    rw [List.map_cons]
    show xf ([Eff.hook i name args] ++ _) = []
    rw [xf_append, ih]; rfl

/-- `sdk.NewCoins(sdk.NewCoin(d, amt))` for a non-negative amount -/
def coinsOf (d : Denom) (amt : Int) : List Coin := if amt = 0 then [] else [⟨d, amt⟩]

/-- `c'` is `c` with some bank movement and the effects `l` appended: views and clock kept -/
structure Ext (c c' : Ctx) (l : List Eff) : Prop where
  views : c'.s.views = c.s.views
  now : c'.s.now = c.s.now
  effs : c'.effs = c.effs ++ l

theorem Ext.refl (c : Ctx) : Ext c c [] := ⟨rfl, rfl, by simp⟩

theorem Ext.trans {c c1 c2 : Ctx} {l1 l2 : List Eff} (h1 : Ext c c1 l1) (h2 : Ext c1 c2 l2) :
    Ext c c2 (l1 ++ l2) :=
  ⟨h2.views.trans h1.views, h2.now.trans h1.now, by rw [h2.effs, h1.effs, List.append_assoc]⟩

theorem hook_ext {c c' : Ctx} {name : String} {args : List String} (h : c.hook name args = .ok c') :
    ∃ l, Ext c c' l ∧ xf l = [] := by
  obtain ⟨h1, _, _, h4⟩ := hook_ok h
  exact ⟨_, ⟨by rw [h1], by rw [h1], h4⟩, xf_hooks ..⟩

theorem bankCall_ext {c c' : Ctx} {k : XKind} {src dst : Addr} {coins : List Coin}
    (h : c.bankCall k src dst coins = .ok c') : Ext c c' [.xfer ⟨k, src, dst, coins⟩] := by
  obtain ⟨_, b, _, rfl⟩ := bankCall_ok h
  exact ⟨rfl, rfl, rfl⟩

theorem mkCoins_inv {c : Ctx} {d : Denom} {amt : Int} {cs : List Coin} (h : mkCoins c d amt = .ok cs) :
    0 ≤ amt ∧ cs = coinsOf d amt := mkCoins_ok h

/-! ### the payout loop -/

/-- the transfers of `payOut` -/
def payXfers (src : Addr) (d : Denom) (l : List (Acc × Int)) : List Transfer :=
  (l.filter (fun p => p.2 ≠ 0)).map (fun p => (⟨.io, src, .user p.1, [⟨d, p.2⟩]⟩ : Transfer))

theorem payXfers_src {src : Addr} {d : Denom} {l : List (Acc × Int)} :
    ∀ x ∈ payXfers src d l, x.src = src := by
  intro x hx
  unfold payXfers at hx
  obtain ⟨p, _, rfl⟩ := List.mem_map.mp hx
  rfl

theorem payOut_ext {src : Addr} {d : Denom} : ∀ {l : List (Acc × Int)} {c c' : Ctx},
    payOut c src d l = .ok c' → ∃ e, Ext c c' e ∧ xf e = payXfers src d l := by
  intro l
  induction l with
  | nil =>
    intro c c' h
    simp only [payOut, pure_ok] at h
    subst h
    exact ⟨[], Ext.refl _, rfl⟩
  | cons p rest ih =>
    intro c c' h
    obtain ⟨u, amt⟩ := p
    unfold payOut at h
    split at h
    · rename_i h0
      obtain ⟨e, he, hx⟩ := ih h
      refine ⟨e, he, ?_⟩
      rw [hx]; unfold payXfers
      simp [h0]
    · rename_i h0
      simp only [bind_ok] at h
      obtain ⟨coins, hmk, c1, hb, h⟩ := h
      obtain ⟨_, rfl⟩ := mkCoins_inv hmk
      obtain ⟨e, he, hx⟩ := ih h
      refine ⟨_, (bankCall_ext hb).trans he, ?_⟩
      rw [xf_append, hx, xf_xfer]; unfold payXfers coinsOf
      simp [h0]

/-! ### list facts -/

theorem getElem?_set_self {l : List AView} {i : Nat} {v w : AView} (h : l[i]? = some v) :
    (l.set i w)[i]? = some w := by
  have hi : i < l.length := by
    rcases Nat.lt_or_ge i l.length with h' | h'
    · exact h'
    · rw [List.getElem?_eq_none h'] at h; cases h
  simp [hi]

theorem getElem?_set_other {l : List AView} {i j : Nat} (w : AView) (h : j ≠ i) :
    (l.set i w)[j]? = l[j]? := by
  rw [List.getElem?_set]
  simp [Ne.symm h]

theorem upsertBy_append {α : Type} (key : α → Int) (x : α) :
    ∀ l : List α, (∀ y ∈ l, key y < key x) → upsertBy key x l = l ++ [x] := by
  intro l
  induction l with
  | nil => intro _; rfl
  | cons y ys ih =>
    intro h
    have hy := h y (List.mem_cons_self ..)
    unfold upsertBy
    have h1 : ¬ key x < key y := by omega
    have h2 : ¬ key x = key y := by omega
    simp only [h1, h2, if_false]
    rw [ih (fun z hz => h z (List.mem_cons_of_mem _ hz))]
    rfl

theorem upsertBy_replace {α : Type} (key : α → Int) (x y : α) (post : List α)
    (hk : key x = key y) : ∀ (pre : List α), (∀ z ∈ pre, key z < key y) →
    upsertBy key x (pre ++ y :: post) = pre ++ x :: post
  | [], _ => by simp [upsertBy, hk]
  | z :: pre, h => by
    have hz : key z < key y := h z (List.mem_cons_self ..)
    have ih := upsertBy_replace key x y post hk pre (fun w hw => h w (List.mem_cons_of_mem _ hw))
    have h1 : ¬ key x < key z := by omega
    have h2 : ¬ key x = key z := by omega
    simp [upsertBy, h1, h2, ih]

theorem foldl_setVQ (mk : Int × Int → VQ) (hmk : ∀ p, (mk p).release = p.1) :
    ∀ (parts : List (Int × Int)) (acc : List VQ),
      (parts.map (·.1)).Pairwise (· < ·) →
      (∀ y ∈ acc, ∀ p ∈ parts, y.release < p.1) →
      parts.foldl (fun l p => setVQ l (mk p)) acc = acc ++ parts.map mk := by
  intro parts
  induction parts with
  | nil => intro acc _ _; simp
  | cons p ps ih =>
    intro acc hs hacc
    rw [List.foldl_cons]
    have h1 : setVQ acc (mk p) = acc ++ [mk p] := by
      unfold setVQ
      apply upsertBy_append
      intro y hy
      show y.release < (mk p).release
      rw [hmk]
      exact hacc y hy p (List.mem_cons_self ..)
    rw [h1]
    rw [List.map_cons, List.pairwise_cons] at hs
    rw [ih (acc ++ [mk p]) hs.2 ?_]
    · simp
    · intro y hy q hq
      rcases List.mem_append.mp hy with hy | hy
      · exact hacc y hy q (List.mem_cons_of_mem _ hq)
      · simp at hy; subst hy
        rw [hmk]
        exact hs.1 q.1 (List.mem_map.mpr ⟨q, hq, rfl⟩)

/-- the instalments carry the schedule's release times, whatever the weights -/
theorem splitLoop_release (R : Int) : ∀ (vs : List VS) (rem : Int) (parts : List (Int × Int)),
    splitLoop R vs rem = some parts → parts.map (·.1) = vs.map (·.release)
  | [], _, parts, h => by
    simp [splitLoop] at h; subst h; rfl
  | [s], rem, parts, h => by
    simp only [splitLoop] at h
    split at h
    · cases h
    · cases h; rfl
  | s :: s' :: rest, rem, parts, h => by
    simp only [splitLoop] at h
    split at h
    · cases h
    · split at h
      · cases h
      · simp only [Option.map_eq_some_iff] at h
        obtain ⟨ps, hps, rfl⟩ := h
        have ih := splitLoop_release R (s' :: rest) _ ps hps
        simp only [List.map_cons] at ih ⊢
        rw [ih]

end Fundraising.ProgressInv
