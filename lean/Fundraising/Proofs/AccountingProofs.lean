import Fundraising.Proofs.C02Base
/-
  C02 — final accounting over a whole history, stated over the monotone ledger of bank
  calls.  STATEMENTS ARE FIXED.
-/
namespace Fundraising

/-- the bank calls the module made over a history, in order (successful module operations
    only; a failed operation makes none) -/
def ledgerFrom : State → List Op → List Transfer
  | _, [] => []
  | st, op :: ops =>
    (if op.isModuleOp ∧ (step st op).1.res = .ok then xfersOf (step st op).1.effs else [])
      ++ ledgerFrom (step st op).2 ops

def ledgerOf (ops : List Op) : List Transfer := ledgerFrom {} ops

/-- net flow of an account over a ledger -/
def netFlow (l : List Transfer) (a : Addr) (d : Denom) : Int := (l.map (·.delta a d)).sum

/-! ### helpers (the fixed statements follow below) -/
namespace AccountingInv

theorem netFlow_nil (a : Addr) (d : Denom) : netFlow [] a d = 0 := rfl

theorem netFlow_append (l l' : List Transfer) (a : Addr) (d : Denom) :
    netFlow (l ++ l') a d = netFlow l a d + netFlow l' a d := by
  simp [netFlow, List.map_append, List.sum_append]

theorem ledgerFrom_cons (st : State) (op : Op) (ops : List Op) :
    ledgerFrom st (op :: ops) =
      (if op.isModuleOp ∧ (step st op).1.res = .ok then xfersOf (step st op).1.effs else [])
        ++ ledgerFrom (step st op).2 ops := rfl

/-- a genesis round trip never touches the bank -/
theorem reimport_bank {s c : Core} (h : reimport s = .ok c) : c.bank = s.bank := by
  unfold reimport at h
  simp only at h
  split at h
  · cases h
  · split at h
    · cases h
    · cases h; rfl

/-- the address is one of the three escrow accounts of some auction -/
def IsEscrow (a : Addr) : Prop := (∃ i, a = .sell i) ∨ (∃ i, a = .pay i) ∨ (∃ i, a = .vest i)

theorem IsEscrow.ne_user {a : Addr} (h : IsEscrow a) (u : Acc) : a ≠ .user u := by
  rcases h with ⟨i, rfl⟩ | ⟨i, rfl⟩ | ⟨i, rfl⟩ <;> intro e <;> cases e

theorem IsEscrow.ne_pool {a : Addr} (h : IsEscrow a) : a ≠ .pool := by
  rcases h with ⟨i, rfl⟩ | ⟨i, rfl⟩ | ⟨i, rfl⟩ <;> intro e <;> cases e

/-- one operation: the balance of an escrow account changes by exactly the net of the bank
    calls the module logged for it (none for a failed or non-module operation) -/
theorem step_escrow (st : State) (op : Op) (hr : op ≠ .reset) (hg : op.noEscrowGift = true)
    (a : Addr) (ha : IsEscrow a) (d : Denom) :
    (step st op).2.core.bank a d = st.core.bank a d +
      netFlow (if op.isModuleOp ∧ (step st op).1.res = .ok then xfersOf (step st op).1.effs else []) a d := by
  by_cases hop : op.isModuleOp = true
  · by_cases hok : (step st op).1.res = .ok
    · rw [if_pos ⟨hop, hok⟩]
      exact ledger_pointwise st op hop hok a d
    · rw [if_neg (fun h => hok h.2), failed_op_no_transfer st op hop hok, netFlow_nil]; omega
  · rw [if_neg (fun h => hop h.1), netFlow_nil, Int.add_zero]
    cases op with
    | reset => exact (hr rfl).elim
    | fund u d' amt =>
      show st.core.bank a d + (if a = .user u ∧ d = d' ∧ 0 < amt then amt else 0) = _
      rw [if_neg (fun h => ha.ne_user u h.1)]; omega
    | gift src dst d' amt =>
      simp only [step]
      split
      · rfl
      · split
        · rename_i b hb
          have h := LedgerInv.sendCoins_delta hb a d
          show b a d = _
          have h1 : a ≠ .user src := ha.ne_user src
          have h2 : a ≠ dst := by
            cases dst with
            | user u => exact ha.ne_user u
            | pool => exact ha.ne_pool
            | sell i => simp [Op.noEscrowGift] at hg
            | pay i => simp [Op.noEscrowGift] at hg
            | vest i => simp [Op.noEscrowGift] at hg
          rw [h, if_neg h1, if_neg h2]; omega
        · rfl
    | genesis =>
      simp only [step]
      split
      · rename_i core hc
        show core.bank a d = _
        rw [reimport_bank hc]
      · rfl
    | msg m => simp [Op.isModuleOp] at hop
    | kadd _ _ => simp [Op.isModuleOp] at hop
    | kupd _ _ _ => simp [Op.isModuleOp] at hop
    | block _ => simp [Op.isModuleOp] at hop
    | listeners n => rfl
    | failhook name idx => rfl
    | fault k => rfl
    | query q => rfl

/-- (1), from an arbitrary start state -/
theorem escrow_balance_from (ops : List Op) : ∀ (st : State), Op.reset ∉ ops → NoEscrowGifts ops →
    ∀ (a : Addr), IsEscrow a → ∀ (d : Denom),
    (run st ops).core.bank a d = st.core.bank a d + netFlow (ledgerFrom st ops) a d := by
  induction ops with
  | nil => intro st _ _ a _ d; simp [run_nil, ledgerFrom, netFlow_nil]
  | cons op ops ih =>
    intro st hr hg a ha d
    have hr' : Op.reset ∉ ops := fun h => hr (List.mem_cons_of_mem _ h)
    have hop : op ≠ .reset := fun e => hr (e ▸ List.mem_cons_self ..)
    have hg' : NoEscrowGifts ops := fun o ho => hg o (List.mem_cons_of_mem _ ho)
    rw [run_cons, ih (step st op).2 hr' hg' a ha d, ledgerFrom_cons, netFlow_append,
      step_escrow st op hop (hg op (List.mem_cons_self ..)) a ha d]
    omega

/-- the three shapes of a bank call of the module -/
def Shape (t : Transfer) : Prop :=
  (∃ u, t.src = .user u ∧ (t.dst = .pool ∨ (∃ i, t.dst = .sell i) ∨ (∃ i, t.dst = .pay i))) ∨
  (∃ i u, (t.src = .sell i ∨ t.src = .pay i ∨ t.src = .vest i) ∧ t.dst = .user u) ∨
  (∃ i, t.src = .pay i ∧ t.dst = .vest i)

/-- every bank call of a successful module operation has one of the three shapes -/
theorem step_shapes (st : State) (op : Op) (hop : op.isModuleOp = true)
    (hok : (step st op).1.res = .ok) : ∀ x ∈ xfersOf (step st op).1.effs, Shape x := by
  intro x hx
  cases op with
  | msg m =>
    cases m with
    | create m =>
      rw [create_transfers st m hok] at hx
      simp only [List.mem_cons, List.not_mem_nil, or_false] at hx
      rcases hx with rfl | rfl
      · exact Or.inl ⟨_, rfl, Or.inl rfl⟩
      · exact Or.inl ⟨_, rfl, Or.inr (Or.inl ⟨_, rfl⟩)⟩
    | cancel signer aid =>
      obtain ⟨coins, h⟩ := cancel_transfers st signer aid hok
      rw [h] at hx
      simp only [List.mem_cons, List.not_mem_nil, or_false] at hx
      subst hx
      exact Or.inr (Or.inl ⟨aid, signer, Or.inl rfl, rfl⟩)
    | place bidder aid t price denom amt =>
      cases t with
      | none => simp [step, runAtomic, deliver, validateBasic, Ctx.check, Ctx.fail, bind, Except.bind] at hok
      | some t =>
        cases hv : st.core.views[aid]? with
        | none => exact (place_needs_view st bidder aid t price denom amt hv hok).elim
        | some v =>
          have h := place_transfers st bidder aid t price denom amt v hv hok
          simp only at h
          rw [h] at hx
          simp only [List.mem_cons, List.not_mem_nil, or_false] at hx
          rcases hx with rfl | rfl
          · exact Or.inl ⟨_, rfl, Or.inl rfl⟩
          · exact Or.inl ⟨_, rfl, Or.inr (Or.inr ⟨_, rfl⟩)⟩
    | modify bidder aid bidId price denom amt =>
      rcases modify_transfers st bidder aid bidId price denom amt hok with h | ⟨d, y, _, h⟩
      · rw [h] at hx; cases hx
      · rw [h] at hx
        simp only [List.mem_cons, List.not_mem_nil, or_false] at hx
        subst hx
        exact Or.inl ⟨_, rfl, Or.inr (Or.inr ⟨_, rfl⟩)⟩
    | addAllowed a ab =>
      have := admin_no_transfers st (.msg (.addAllowed a ab)) (Or.inr (Or.inr (Or.inr ⟨a, ab, rfl⟩)))
      rw [this] at hx; cases hx
    | updateParams s p =>
      have := admin_no_transfers st (.msg (.updateParams s p)) (Or.inr (Or.inr (Or.inl ⟨s, p, rfl⟩)))
      rw [this] at hx; cases hx
  | kadd a abs =>
    have := admin_no_transfers st (.kadd a abs) (Or.inl ⟨a, abs, rfl⟩)
    rw [this] at hx; cases hx
  | kupd a u' c =>
    have := admin_no_transfers st (.kupd a u' c) (Or.inr (Or.inl ⟨a, u', c, rfl⟩))
    rw [this] at hx; cases hx
  | block t => exact Or.inr (block_transfers st t x hx)
  | _ => simp [Op.isModuleOp] at hop

/-- (3), from an arbitrary start state -/
theorem ledger_shapes_from (ops : List Op) : ∀ (st : State), ∀ t ∈ ledgerFrom st ops, Shape t := by
  induction ops with
  | nil => intro st t ht; cases ht
  | cons op ops ih =>
    intro st t ht
    rw [ledgerFrom_cons, List.mem_append] at ht
    rcases ht with ht | ht
    · by_cases h : op.isModuleOp ∧ (step st op).1.res = .ok
      · rw [if_pos h] at ht
        exact step_shapes st op h.1 h.2 t ht
      · rw [if_neg h] at ht; cases ht
    · exact ih _ t ht

end AccountingInv
open AccountingInv

/-- **escrow balances are exactly the net of the module's own bank calls** in a history
    without resets and without third-party transfers into escrows -/
theorem escrow_balance_is_ledger (ops : List Op) (hr : Op.reset ∉ ops) (hg : NoEscrowGifts ops)
    (a : Addr) (ha : (∃ i, a = .sell i) ∨ (∃ i, a = .pay i) ∨ (∃ i, a = .vest i)) (d : Denom) :
    (run {} ops).core.bank a d = netFlow (ledgerOf ops) a d := by
  have h := escrow_balance_from ops {} hr hg a ha d
  rw [h]
  show (0 : Int) + netFlow (ledgerOf ops) a d = _
  omega

/-- **final accounting.**  Once an auction is finished or cancelled, everything that ever
    entered its three escrows has left them again (net flow zero in every denomination) … -/
theorem final_accounting_escrows (ops : List Op) (hr : Op.reset ∉ ops) (hg : NoEscrowGifts ops)
    (i : Nat) (v : AView) (hv : (run {} ops).core.views[i]? = some v)
    (hs : v.a.status = .finished ∨ v.a.status = .cancelled) (d : Denom) :
    netFlow (ledgerOf ops) (.sell i) d = 0 ∧ netFlow (ledgerOf ops) (.pay i) d = 0 ∧
    netFlow (ledgerOf ops) (.vest i) d = 0 := by
  obtain ⟨h1, h2, h3⟩ := c02_terminal_escrows_empty ops hg i v hv hs d
  rw [← escrow_balance_is_ledger ops hr hg (.sell i) (Or.inl ⟨i, rfl⟩) d,
    ← escrow_balance_is_ledger ops hr hg (.pay i) (Or.inr (Or.inl ⟨i, rfl⟩)) d,
    ← escrow_balance_is_ledger ops hr hg (.vest i) (Or.inr (Or.inr ⟨i, rfl⟩)) d]
  exact ⟨h1, h2, h3⟩

/-- … and every coin that left an escrow went to a user account (a bidder's allocation or
    refund, the auctioneer's unsold coins, proceeds and instalments) or from a paying escrow
    to the vesting escrow of the same auction; every coin that entered an escrow came from the
    signer of the message that reserved it; fees went to the community pool and nowhere else -/
theorem ledger_shapes (ops : List Op) :
    ∀ t ∈ ledgerOf ops,
      (∃ u, t.src = .user u ∧ (t.dst = .pool ∨ (∃ i, t.dst = .sell i) ∨ (∃ i, t.dst = .pay i))) ∨
      (∃ i u, (t.src = .sell i ∨ t.src = .pay i ∨ t.src = .vest i) ∧ t.dst = .user u) ∨
      (∃ i, t.src = .pay i ∧ t.dst = .vest i) := by
  intro t ht
  exact ledger_shapes_from ops {} t ht

end Fundraising
