import Fundraising.Proofs.MatchSweep
import Fundraising.Proofs.SearchLoop
/-
  From the sweep to `calcBatchWith`: what a successful sweep returns, antitone demand,
  existence of the lowest fitting price, the reversed price index, the two outcomes of
  `calcBatchWith`.
-/
namespace Fundraising

theorem bsum_filter_le (f : Bid → Int) (l : List Bid) (P : Bid → Bool) (u : Acc)
    (h : ∀ b ∈ l, 0 ≤ f b) : bsum f (l.filter P) u ≤ bsum f l u := by
  unfold bsum
  rw [List.filter_filter]
  apply isum_filter_mono _ _ f f l
  · intro x _ hx
    simp only [Bool.and_eq_true] at hx
    exact hx.1
  · intro _ _ _; exact Int.le_refl _
  · exact h

/-- everything a successful sweep at a positive price returns -/
theorem matchAt_full (a : Auction) (bids sorted : List Bid) (allowed : List Allowed) (p : Dec)
    (acc : MAcc) (hw : BookWF a bids allowed) (hperm : sorted.Perm bids)
    (hdesc : sorted.Pairwise (fun x y => y.price ≤ x.price)) (hp : 0 < p)
    (h : matchAt p sorted a.sellAmt allowed = .fit acc) :
    acc.price = p ∧ acc.total = demand bids allowed p ∧ acc.total ≤ a.sellAmt ∧
    (∀ u, acc.alloc u = cappedDemand bids allowed u p) ∧
    (∀ u, p * acc.alloc u ≤ PREC * acc.pay u) ∧
    (∀ u, acc.alloc u = 0 → acc.pay u = 0) ∧
    (∀ u, 0 < acc.alloc u → PREC * acc.pay u <
      p * acc.alloc u + PREC * ((acc.matched.filter (·.bidder == u)).length : Int)) ∧
    (∀ u, acc.pay u ≤ reservedOf bids a.payDenom u) ∧
    (∀ b ∈ acc.matched, b ∈ bids ∧ p ≤ b.price) ∧ acc.matched.Sublist sorted := by
  rcases matchAt_spec a bids sorted allowed p hw hperm hdesc hp with ⟨_, h2⟩ | ⟨h1, acc', h2, hinv⟩
  · rw [h] at h2; cases h2
  · rw [h] at h2
    injection h2 with h2
    subst h2
    have htot : acc.total = demand bids allowed p := by
      rw [hinv.total, totalOf_filter_eq bids sorted allowed hperm p]
    refine ⟨hinv.price, htot, by rw [htot]; exact h1,
      fun u => by rw [hinv.alloc u, allocOf_filter_eq bids sorted allowed hperm p u],
      hinv.payLo, ?_, ?_, ?_, ?_, ?_⟩
    · intro u h0
      rcases hinv.payHi u with ⟨_, e⟩ | ⟨e, _⟩
      · exact e
      · omega
    · intro u h0
      rcases hinv.payHi u with ⟨e, _⟩ | ⟨_, e⟩
      · omega
      · exact e
    · intro u
      unfold reservedOf
      rw [sumOver_eq_bsum]
      have h1 := hinv.payRes u
      have h2 := bsum_filter_le (·.toPaying a.payDenom) sorted (fun b => decide (p ≤ b.price)) u
        (fun b hb => book_toPaying_nonneg a bids allowed hw b (hperm.mem_iff.1 hb))
      have h3 := bsum_perm (·.toPaying a.payDenom) hperm u
      omega
    · intro b hb
      have := List.mem_filter.1 (hinv.matched.subset hb)
      exact ⟨hperm.mem_iff.1 this.1, by simpa using this.2⟩
    · exact hinv.matched.trans List.filter_sublist

theorem rawDemand_nonneg (a : Auction) (bids : List Bid) (allowed : List Allowed)
    (hw : BookWF a bids allowed) (u : Acc) (p : Dec) (hp : 0 ≤ p) : 0 ≤ rawDemand bids u p := by
  unfold rawDemand
  apply isum_map_nonneg
  intro b hb
  exact qtyAt_nonneg b p (Int.le_of_lt (hw.amts b (List.mem_filter.1 hb).1)) hp

theorem cappedDemand_nonneg (a : Auction) (bids : List Bid) (allowed : List Allowed)
    (hw : BookWF a bids allowed) (u : Acc) (p : Dec) (hp : 0 ≤ p) :
    0 ≤ cappedDemand bids allowed u p := by
  have h1 := rawDemand_nonneg a bids allowed hw u p hp
  have h2 := capOf_nonneg allowed hw.caps u
  unfold cappedDemand; omega

theorem reservedOf_nonneg (a : Auction) (bids : List Bid) (allowed : List Allowed)
    (hw : BookWF a bids allowed) (u : Acc) : 0 ≤ reservedOf bids a.payDenom u := by
  unfold reservedOf
  rw [sumOver_eq_bsum]
  exact bsum_nonneg _ _ _ (fun b hb => book_toPaying_nonneg a bids allowed hw b hb)

theorem demand_antitone' (a : Auction) (bids : List Bid) (allowed : List Allowed) (p q : Dec)
    (hw : BookWF a bids allowed) (hp : 0 < p) (hpq : p ≤ q) :
    demand bids allowed q ≤ demand bids allowed p := by
  unfold demand
  apply isum_map_le
  intro u _
  have : rawDemand bids u q ≤ rawDemand bids u p := by
    unfold rawDemand
    apply isum_filter_mono
    · intro x _ hx
      simp only [Bool.and_eq_true, decide_eq_true_eq] at hx ⊢
      exact ⟨hx.1, Int.le_trans hpq hx.2⟩
    · intro x hx _
      exact qtyAt_antitone x p q (Int.le_of_lt (hw.amts x hx)) hp hpq
    · intro x hx
      exact qtyAt_nonneg x p (Int.le_of_lt (hw.amts x hx)) (Int.le_of_lt hp)
  unfold cappedDemand
  omega

theorem exists_min_price (P : Dec → Prop) : ∀ (l : List Bid),
    (∀ b ∈ l, ¬ P b.price) ∨
    ∃ p, (∃ b ∈ l, b.price = p) ∧ P p ∧ ∀ b ∈ l, P b.price → p ≤ b.price
  | [] => Or.inl (fun b hb => by cases hb)
  | b :: l => by
    rcases exists_min_price P l with h | ⟨p0, ⟨c0, hc0, e0⟩, hP0, hmin⟩
    · by_cases hb : P b.price
      · right
        refine ⟨b.price, ⟨b, List.mem_cons_self, rfl⟩, hb, ?_⟩
        intro c hc hPc
        rcases List.mem_cons.1 hc with rfl | hc
        · exact Int.le_refl _
        · exact absurd hPc (h c hc)
      · left
        intro c hc
        rcases List.mem_cons.1 hc with rfl | hc
        · exact hb
        · exact h c hc
    · right
      by_cases hb : P b.price ∧ b.price < p0
      · refine ⟨b.price, ⟨b, List.mem_cons_self, rfl⟩, hb.1, ?_⟩
        intro c hc hPc
        rcases List.mem_cons.1 hc with rfl | hc
        · exact Int.le_refl _
        · exact Int.le_trans (Int.le_of_lt hb.2) (hmin c hc hPc)
      · refine ⟨p0, ⟨c0, List.mem_cons_of_mem _ hc0, e0⟩, hP0, ?_⟩
        intro c hc hPc
        rcases List.mem_cons.1 hc with rfl | hc
        · exact Int.not_lt.1 (fun hlt => hb ⟨hPc, hlt⟩)
        · exact hmin c hc hPc

/-! ### the reversed index into the descending price list -/

theorem getD_rev_eq (ps : List Dec) (h : Nat) (hh : h < ps.length) :
    ps.getD (ps.length - 1 - h) 0 = ps[ps.length - 1 - h]'(by omega) := by
  have : ps.length - 1 - h < ps.length := by omega
  rw [List.getD_eq_getElem?_getD, List.getElem?_eq_getElem this]; rfl

theorem getD_rev_mem (ps : List Dec) (h : Nat) (hh : h < ps.length) :
    ps.getD (ps.length - 1 - h) 0 ∈ ps := by
  rw [getD_rev_eq ps h hh]; exact List.getElem_mem _

theorem getD_rev_mono (ps : List Dec) (hdesc : ps.Pairwise (fun x y => y < x)) (h h' : Nat)
    (hle : h ≤ h') (hh : h' < ps.length) :
    ps.getD (ps.length - 1 - h) 0 ≤ ps.getD (ps.length - 1 - h') 0 := by
  rw [getD_rev_eq ps h (by omega), getD_rev_eq ps h' hh]
  by_cases e : h = h'
  · subst e; exact Int.le_refl _
  · exact Int.le_of_lt (List.pairwise_iff_getElem.1 hdesc (ps.length - 1 - h') (ps.length - 1 - h)
      (by omega) (by omega) (by omega))

theorem getD_rev_surj (ps : List Dec) (x : Dec) (hx : x ∈ ps) :
    ∃ h, h < ps.length ∧ ps.getD (ps.length - 1 - h) 0 = x := by
  obtain ⟨i, hi, e⟩ := List.mem_iff_getElem.1 hx
  refine ⟨ps.length - 1 - i, by omega, ?_⟩
  rw [getD_rev_eq ps _ (by omega)]
  have : ps.length - 1 - (ps.length - 1 - i) = i := by omega
  simp only [this]; exact e

/-! ### calcBatchWith -/

/-- the closure handed to `sort.Search` -/
def batchF (sorted : List Bid) (a : Auction) (allowed : List Allowed) : Nat → MRes :=
  fun h => matchAt ((distinctPrices sorted).getD ((distinctPrices sorted).length - 1 - h) 0)
    sorted a.sellAmt allowed

def noMatchInfo (a : Auction) (bids : List Bid) : MInfo :=
  { matchedLen := 0, price := 0, total := 0
    alloc := (biddersOf bids).map (fun u => (u, 0))
    refund := (biddersOf bids).map (fun u => (u, sumOver bids u (·.toPaying a.payDenom)))
    matchedIds := [] }

def matchInfo (a : Auction) (bids : List Bid) (acc : MAcc) : MInfo :=
  { matchedLen := acc.matched.length
    price := acc.price
    total := acc.total
    alloc := (biddersOf bids).map (fun u => (u, acc.alloc u))
    refund := (biddersOf bids).map (fun u => (u, sumOver bids u (·.toPaying a.payDenom) - acc.pay u))
    matchedIds := acc.matched.map (·.id) }

theorem calcBatchWith_none (sorted : List Bid) (a : Auction) (bids : List Bid) (allowed : List Allowed)
    (h : searchLoop (batchF sorted a allowed) (distinctPrices sorted).length 0
      (distinctPrices sorted).length none = some none) :
    calcBatchWith sorted a bids allowed = some (noMatchInfo a bids) := by
  unfold batchF at h
  unfold calcBatchWith noMatchInfo
  simp only [h]

theorem calcBatchWith_some (sorted : List Bid) (a : Auction) (bids : List Bid) (allowed : List Allowed)
    (acc : MAcc)
    (h : searchLoop (batchF sorted a allowed) (distinctPrices sorted).length 0
      (distinctPrices sorted).length none = some (some acc)) :
    calcBatchWith sorted a bids allowed = some (matchInfo a bids acc) := by
  unfold batchF at h
  unfold calcBatchWith matchInfo
  simp only [h]

/-- the two outcomes of `calcBatchWith` on a well-formed book -/
theorem calcBatchWith_cases (a : Auction) (bids sorted : List Bid) (allowed : List Allowed)
    (hw : BookWF a bids allowed) (hperm : sorted.Perm bids)
    (hdesc : sorted.Pairwise (fun x y => y.price ≤ x.price)) :
    (NoPriceFits bids allowed a.sellAmt ∧
      calcBatchWith sorted a bids allowed = some (noMatchInfo a bids)) ∨
    (∃ p acc, IsClearingPrice bids allowed a.sellAmt p ∧ 0 < p ∧
      matchAt p sorted a.sellAmt allowed = .fit acc ∧
      calcBatchWith sorted a bids allowed = some (matchInfo a bids acc)) := by
  have hps := distinctPrices_desc sorted hdesc
  -- every index below `n` denotes a recorded, positive price
  have hrec : ∀ h, h < (distinctPrices sorted).length →
      ∃ b ∈ bids, b.price = (distinctPrices sorted).getD ((distinctPrices sorted).length - 1 - h) 0 := by
    intro h hh
    obtain ⟨b, hb, e⟩ := (mem_distinctPrices _ sorted).1 (getD_rev_mem _ h hh)
    exact ⟨b, hperm.mem_iff.1 hb, e⟩
  have hpos : ∀ h, h < (distinctPrices sorted).length →
      0 < (distinctPrices sorted).getD ((distinctPrices sorted).length - 1 - h) 0 := by
    intro h hh
    obtain ⟨b, hb, e⟩ := hrec h hh
    rw [← e]; exact hw.prices b hb
  -- every recorded price has an index
  have hidx : ∀ b ∈ bids, ∃ h, h < (distinctPrices sorted).length ∧
      (distinctPrices sorted).getD ((distinctPrices sorted).length - 1 - h) 0 = b.price := by
    intro b hb
    exact getD_rev_surj _ _ ((mem_distinctPrices _ sorted).2 ⟨b, hperm.mem_iff.2 hb, rfl⟩)
  have hfit : ∀ h, h < (distinctPrices sorted).length →
      ((∃ acc, batchF sorted a allowed h = .fit acc) ↔
        demand bids allowed ((distinctPrices sorted).getD ((distinctPrices sorted).length - 1 - h) 0)
          ≤ a.sellAmt) := by
    intro h hh
    unfold batchF
    rcases matchAt_spec a bids sorted allowed _ hw hperm hdesc (hpos h hh) with ⟨h1, h2⟩ | ⟨h1, acc, h2, _⟩
    · rw [h2]
      constructor
      · rintro ⟨acc, e⟩; cases e
      · intro h3; omega
    · rw [h2]
      exact ⟨fun _ => h1, fun _ => ⟨acc, rfl⟩⟩
  have hnp : ∀ h, h < (distinctPrices sorted).length → batchF sorted a allowed h ≠ .panic := by
    intro h _
    exact matchAt_no_panic a bids sorted allowed _ hw hperm
  have hmono : ∀ h h', h ≤ h' → h' < (distinctPrices sorted).length →
      (∃ acc, batchF sorted a allowed h = .fit acc) → ∃ acc, batchF sorted a allowed h' = .fit acc := by
    intro h h' hle hh' hf
    have hh : h < (distinctPrices sorted).length := by omega
    rw [hfit h hh] at hf
    rw [hfit h' hh']
    exact Int.le_trans (demand_antitone' a bids allowed _ _ hw (hpos h hh)
      (getD_rev_mono _ hps h h' hle hh')) hf
  rcases searchLoop_least' (batchF sorted a allowed) _ hnp hmono with ⟨hall, hres⟩ | ⟨h, acc, hh, hf, hlow, hres⟩
  · left
    refine ⟨?_, calcBatchWith_none sorted a bids allowed hres⟩
    intro b hb hd
    obtain ⟨h, hh, e⟩ := hidx b hb
    rw [← e, ← hfit h hh, hall h hh] at hd
    obtain ⟨acc, e'⟩ := hd
    cases e'
  · right
    refine ⟨_, acc, ⟨?_, ?_, ?_⟩, hpos h hh, hf, calcBatchWith_some sorted a bids allowed acc hres⟩
    · exact hrec h hh
    · exact (hfit h hh).1 ⟨acc, hf⟩
    · intro b hb hd
      obtain ⟨h', hh', e⟩ := hidx b hb
      rw [← e] at hd ⊢
      obtain ⟨acc', hf'⟩ := (hfit h' hh').2 hd
      have : ¬ h' < h := by
        intro hlt
        rw [hlow h' hlt] at hf'; cases hf'
      exact getD_rev_mono _ hps h h' (by omega) hh'

theorem isum_map_zero {α : Type} : ∀ (l : List α), (l.map (fun _ => (0 : Int))).sum = 0
  | [] => rfl
  | _ :: l => by simp only [List.map_cons, List.sum_cons, isum_map_zero l]; rfl

/-- every matched bid of `u` is one of `u`'s recorded bids whose id is in the matched ids -/
theorem matched_count_le (bids sorted matched : List Bid) (hperm : sorted.Perm bids)
    (hsub : matched.Sublist sorted) (u : Acc) :
    (matched.filter (·.bidder == u)).length ≤
      (bids.filter (fun b => b.bidder == u && (matched.map (·.id)).contains b.id)).length := by
  have h1 : matched.filter (·.bidder == u) =
      matched.filter (fun b => b.bidder == u && (matched.map (·.id)).contains b.id) := by
    apply List.filter_congr
    intro b hb
    have : (matched.map (·.id)).contains b.id = true := by
      simp only [List.contains_iff_mem, List.mem_map]
      exact ⟨b, hb, rfl⟩
    rw [this, Bool.and_true]
  rw [h1]
  exact Nat.le_trans (hsub.filter _).length_le (Nat.le_of_eq (hperm.filter _).length_eq)

end Fundraising
