import Fundraising.Proofs.AcceptBase
/-
  C18 / C11, MsgModifyBid.
-/
set_option linter.unusedSimpArgs false
set_option linter.unusedVariables false
namespace Fundraising
namespace AcceptAux

/-- the increase of the reservation of a paying-denominated (worth) bid -/
theorem diff_worth (b : Bid) (pd : Denom) (price : Dec) (amt : Int) (hd : b.denom = pd) :
    ({ b with price := price, amt := amt } : Bid).toPaying pd - b.toPaying pd = amt - b.amt := by
  simp [Bid.toPaying, hd]

/-- the increase of the reservation of a selling-denominated (many) bid, as the handler
    computes it -/
theorem diff_many (b : Bid) (pd : Denom) (price : Dec) (amt : Int) (hd : b.denom ≠ pd) :
    ({ b with price := price, amt := amt } : Bid).toPaying pd - b.toPaying pd =
      Dec.truncInt (Dec.ceil (Dec.mul (Dec.ofInt amt) price) - Dec.ceil (Dec.mul (Dec.ofInt b.amt) b.price)) := by
  rw [truncInt_ceil_sub]
  simp [Bid.toPaying, hd]

theorem diff_many_nonneg (b : Bid) (price : Dec) (amt : Int) (ha : 0 < b.amt) (hp : 0 < b.price)
    (hpp : b.price ≤ price) (haa : b.amt ≤ amt) :
    0 ≤ Dec.truncInt (Dec.ceil (Dec.mul (Dec.ofInt amt) price) - Dec.ceil (Dec.mul (Dec.ofInt b.amt) b.price)) := by
  rw [truncInt_ceil_sub]
  have := sellPay_mono b.amt amt b.price price (Int.le_of_lt ha) (Int.le_of_lt hp) haa hpp
  omega

/-- what a successful modification checked and did -/
theorem modify_inv {c c' : Ctx} {bidder : Acc} {aid bidId : Nat} {price : Dec} {denom : Denom}
    {amt : Int} (hwf : WF c.s) (h : deliver c (.modify bidder aid bidId price denom amt) = .ok c') :
    (validAcc bidder = true ∧ 0 < price ∧ validDenom denom = true ∧ 0 < amt) ∧
    ∃ v, c.s.views[aid]? = some v ∧ v.a.status = .started ∧ v.a.type = .batch ∧
      ∃ b, v.bids.find? (·.id == bidId) = some b ∧ b.bidder = bidder ∧ v.a.minBid ≤ price ∧
        b.denom = denom ∧ b.price ≤ price ∧ b.amt ≤ amt ∧ (b.price < price ∨ b.amt < amt) ∧
        ∃ diff, diff = ({ b with price := price, amt := amt } : Bid).toPaying v.a.payDenom
                          - b.toPaying v.a.payDenom ∧
          0 ≤ diff ∧ (0 < diff → diff ≤ c.s.bank (.user bidder) v.a.payDenom) ∧
          c'.s.bank = c.s.bank.move (.user bidder) (.pay aid) v.a.payDenom diff ∧
          c'.s.views = c.s.views.set aid
            { v with bids :=
                v.bids.map (fun x => if x.id == bidId then { b with price := price, amt := amt } else x) } := by
  unfold deliver at h
  simp only [bind_ok, check_ok, handle] at h
  obtain ⟨_, hvb, h⟩ := h
  simp only [validateBasic, validCoin, Bool.and_eq_true, decide_eq_true_eq] at hvb
  obtain ⟨⟨⟨v1, v2⟩, v3, _⟩, v4⟩ := hvb
  unfold modifyBid at h
  simp only [bind_ok, check_ok, view_ok_iff, pure_ok] at h
  obtain ⟨v, hv, _, hst, _, hty, h⟩ := h
  have hst := status_of_beq hst
  have hty := atype_of_beq hty
  have hW := hwf.views aid v hv
  refine ⟨⟨v1, v2, v3, v4⟩, v, hv, hst, hty, ?_⟩
  split at h
  · rename_i bid hfind
    simp only [bind_ok, check_ok, view_ok_iff, pure_ok] at h
    obtain ⟨_, rfl, _, h1, _, h2, _, h3, _, h4, _, h5, c1, hin, c2, hhk, rfl⟩ := h
    have h1 : bid.bidder = bidder := by simpa using h1
    have h3 : bid.denom = denom := by simpa using h3
    simp only [Bool.not_eq_true', Bool.or_eq_false_iff, Bool.and_eq_false_iff, decide_eq_false_iff_not] at h2 h4 h5
    have hmem : bid ∈ v.bids := List.mem_of_find?_eq_some hfind
    have hB := hW.bids bid hmem
    have hbp := hB.price
    have hba := hB.amt
    obtain ⟨h4a, h4b⟩ := h4
    have e2 : v.a.minBid ≤ price := by unfold Dec at *; omega
    have e4a : bid.price ≤ price := by unfold Dec at *; omega
    have e4b : bid.amt ≤ amt := by omega
    have e5 : bid.price < price ∨ bid.amt < amt := by
      unfold Dec at *
      rcases h5 with h5 | h5
      · left; omega
      · right; omega
    obtain ⟨hs, _⟩ := hook_ok hhk
    refine ⟨bid, hfind, h1, e2, h3, e4a, e4b, e5, _, rfl, ?_⟩
    rw [setView_bank, setView_views, hs]
    have key : ∃ D, D = ({ bid with price := price, amt := amt } : Bid).toPaying v.a.payDenom
                          - bid.toPaying v.a.payDenom ∧
        0 ≤ D ∧ (0 < D → D ≤ c.s.bank (.user bidder) v.a.payDenom) ∧
        c1.s = { c.s with bank := c.s.bank.move (.user bidder) (.pay aid) v.a.payDenom D } := by
      cases hbt : bid.type with
      | worth =>
        rw [hbt] at hin
        simp only at hin
        have hden : bid.denom = v.a.payDenom := by
          rcases hB.batch hty with ⟨_, q⟩ | ⟨q, _⟩
          · exact q
          · rw [hbt] at q; cases q
        have hdp : denom = v.a.payDenom := h3.symm.trans hden
        refine ⟨amt - bid.amt, (diff_worth bid _ price amt hden).symm, by omega, ?_⟩
        by_cases hpos : amt - bid.amt > 0
        · rw [if_pos hpos] at hin
          obtain ⟨hc, hs1⟩ := send_single_inv hin
          rw [hdp] at hc hs1
          exact ⟨fun _ => hc, hs1⟩
        · rw [if_neg hpos, pure_ok] at hin
          subst hin
          have hz : amt - bid.amt = 0 := by omega
          rw [hz, move_zero]
          exact ⟨fun q => absurd q (by omega), rfl⟩
      | many =>
        rw [hbt] at hin
        simp only at hin
        have hden : bid.denom ≠ v.a.payDenom := by
          rcases hB.batch hty with ⟨q, _⟩ | ⟨_, q⟩
          · rw [hbt] at q; cases q
          · rw [q]; exact hW.auction.denomNe
        have hnn := diff_many_nonneg bid price amt hba hbp e4a e4b
        refine ⟨_, (diff_many bid _ price amt hden).symm, hnn, ?_⟩
        rw [if_neg (by omega)] at hin
        split at hin
        · obtain ⟨hc, hs1⟩ := send_single_inv hin
          exact ⟨fun _ => hc, hs1⟩
        · rw [pure_ok] at hin
          subst hin
          rename_i hpos
          have hz : Dec.truncInt (Dec.ceil (Dec.mul (Dec.ofInt amt) price)
              - Dec.ceil (Dec.mul (Dec.ofInt bid.amt) bid.price)) = 0 := by omega
          rw [hz, move_zero]
          exact ⟨fun q => absurd q (by omega), rfl⟩
      | fixed =>
        rcases hB.batch hty with ⟨q, _⟩ | ⟨q, _⟩ <;> (rw [hbt] at q; cases q)
    obtain ⟨D, hD, hD0, hDc, hs1⟩ := key
    rw [← hD, hs1]
    exact ⟨hD0, hDc, rfl, rfl⟩
  · simp only [bind_ok, fail_ok] at h
    obtain ⟨_, h, _⟩ := h
    exact h.elim

theorem modify_accept_of_ok {c c' : Ctx} {bidder : Acc} {aid bidId : Nat} {price : Dec} {denom : Denom}
    {amt : Int} (hwf : WF c.s) (hnn : BankNonneg c.s)
    (h : deliver c (.modify bidder aid bidId price denom amt) = .ok c') :
    AcceptModify c.s bidder aid bidId price denom amt := by
  obtain ⟨⟨v1, v2, v3, v4⟩, v, hv, hst, hty, b, hfind, h1, h2, h3, h4, h5, h6, D, hD, hD0, hDc, _⟩ :=
    modify_inv hwf h
  refine ⟨v1, v2, ⟨v3, v4⟩, v, hv, hst, hty, b, hfind, h1, h2, h3, h4, h5, h6, ?_⟩
  show ({ b with price := price, amt := amt } : Bid).toPaying v.a.payDenom - b.toPaying v.a.payDenom
    ≤ c.s.bank (.user bidder) v.a.payDenom
  rw [← hD]
  by_cases hp : 0 < D
  · exact hDc hp
  · have := hnn (.user bidder) v.a.payDenom
    omega

theorem modify_ok_of_accept {c : Ctx} {bidder : Acc} {aid bidId : Nat} {price : Dec} {denom : Denom}
    {amt : Int} (hwf : WF c.s) (hf : c.ctl.failhook = none) (hk : c.ctl.fault = none)
    (ha : AcceptModify c.s bidder aid bidId price denom amt) :
    ∃ c', deliver c (.modify bidder aid bidId price denom amt) = .ok c' := by
  obtain ⟨v1, v2, ⟨v3, v4⟩, v, hv, hst, hty, bid, hfind, h1, h2, h3, h4, h5, h6, hfunds⟩ := ha
  have hfunds : ({ bid with price := price, amt := amt } : Bid).toPaying v.a.payDenom
      - bid.toPaying v.a.payDenom ≤ c.s.bank (.user bidder) v.a.payDenom := hfunds
  have hW := hwf.views aid v hv
  have hmem : bid ∈ v.bids := List.mem_of_find?_eq_some hfind
  have hB := hW.bids bid hmem
  have hbp := hB.price
  have hba := hB.amt
  have hvb : validateBasic (.modify bidder aid bidId price denom amt) = true := by
    simp only [validateBasic, validCoin, Bool.and_eq_true, decide_eq_true_eq]
    exact ⟨⟨⟨v1, v2⟩, v3, by omega⟩, v4⟩
  unfold deliver
  rw [bind_of_ok (check_of hvb)]
  show ∃ c', modifyBid c bidder aid bidId price denom amt = .ok c'
  unfold modifyBid
  rw [bind_of_ok (view_ok_iff.mpr hv), bind_of_ok (check_of (by simp [hst])),
    bind_of_ok (check_of (by simp [hty]))]
  simp only [hfind, pure_bind]
  rw [bind_of_ok (check_of (by simp [h1])),
    bind_of_ok (check_of (by
      simp only [Bool.not_eq_true', decide_eq_false_iff_not]; unfold Dec at *; omega)),
    bind_of_ok (check_of (by simp [h3])),
    bind_of_ok (check_of (by
      simp only [Bool.not_eq_true', Bool.or_eq_false_iff, decide_eq_false_iff_not]
      unfold Dec at *; omega)),
    bind_of_ok (check_of (by
      simp only [Bool.not_eq_true', Bool.and_eq_false_iff, decide_eq_false_iff_not]
      unfold Dec at *; omega))]
  have fin : ∀ (c1 : Ctx) (n : String) (args : List String) (g : Ctx → Ctx), c1.ctl = c.ctl →
      ∃ c', (c1.hook n args >>= fun c2 => (pure (g c2) : M Ctx)) = .ok c' := by
    intro c1 n args g hc1
    refine exists_hook_bind (by rw [hc1]; exact hf) ?_
    intro c3 _ _
    exact ⟨_, rfl⟩
  cases hbt : bid.type with
  | worth =>
    simp only [hbt]
    have hden : bid.denom = v.a.payDenom := by
      rcases hB.batch hty with ⟨_, q⟩ | ⟨q, _⟩
      · exact q
      · rw [hbt] at q; cases q
    have hdp : denom = v.a.payDenom := h3.symm.trans hden
    rw [diff_worth bid _ price amt hden, ← hdp] at hfunds
    by_cases hpos : amt - bid.amt > 0
    · rw [if_pos hpos]
      obtain ⟨c1, hc1, hctl⟩ := exists_send_single .send (.pay aid) hk hfunds
      rw [bind_of_ok hc1]
      exact fin c1 _ _ _ hctl
    · rw [if_neg hpos]
      simp only [pure_bind]
      exact fin c _ _ _ rfl
  | many =>
    simp only [hbt]
    have hden : bid.denom ≠ v.a.payDenom := by
      rcases hB.batch hty with ⟨q, _⟩ | ⟨_, q⟩
      · rw [hbt] at q; cases q
      · rw [q]; exact hW.auction.denomNe
    have hnn := diff_many_nonneg bid price amt hba hbp h4 h5
    rw [diff_many bid _ price amt hden] at hfunds
    rw [if_neg (by omega)]
    split
    · obtain ⟨c1, hc1, hctl⟩ := exists_send_single .send (.pay aid) hk hfunds
      rw [bind_of_ok hc1]
      exact fin c1 _ _ _ hctl
    · simp only [pure_bind]
      exact fin c _ _ _ rfl
  | fixed =>
    rcases hB.batch hty with ⟨q, _⟩ | ⟨q, _⟩ <;> (rw [hbt] at q; cases q)

end AcceptAux
end Fundraising
