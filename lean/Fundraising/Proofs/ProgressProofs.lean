import Fundraising.Spec.Frame
import Fundraising.Proofs.ExecLemmas
import Fundraising.Proofs.LedgerProofs
/-
  C08 / C09 / C13 / C16 — what a successful block does to each auction (the lifecycle moves
  at the right block; instalments are paid when due, once; the extension decision; the
  published results).  STATEMENTS ARE FIXED (cited by the Props files).
-/
namespace Fundraising

/-- the state before the block, with the block's time set -/
def atBlock (st : State) (t : Int) : Core := { st.core with now := t }

/-- **stand-by auctions open at the first block at or after their start time** -/
theorem block_opens (st : State) (t : Int) (hok : (step st (.block t)).1.res = .ok)
    (i : Nat) (v v' : AView) (hv : st.core.views[i]? = some v)
    (hv' : (step st (.block t)).2.core.views[i]? = some v') (hs : v.a.status = .standby) :
    (v.a.startTime ≤ t → v' = { v with a := { v.a with status := .started } }) ∧
    (t < v.a.startTime → v' = v) := by
  sorry

/-- an auction created when its start time has already passed is open at once -/
theorem create_status (st : State) (m : CreateMsg) (hok : (step st (.msg (.create m))).1.res = .ok) :
    ∃ v, (step st (.msg (.create m))).2.core.views[st.core.views.length]? = some v ∧
      v.a.status = (if m.startTime ≤ st.core.now then .started else .standby) ∧
      v.bids = [] ∧ v.allowed = [] ∧ v.vqs = [] ∧ v.a.endTimes = [m.endTime] := by
  sorry

/-- **open auctions are settled or extended at the first block at or after their current end
    time**, and left alone before it -/
theorem block_closes (st : State) (t : Int) (hok : (step st (.block t)).1.res = .ok)
    (i : Nat) (v v' : AView) (hv : st.core.views[i]? = some v)
    (hv' : (step st (.block t)).2.core.views[i]? = some v') (hs : v.a.status = .started) :
    (v.a.lastEnd ≤ t →
      (v'.a.status = .vesting ∨ v'.a.status = .finished) ∨
      (v'.a.status = .started ∧ v.a.type = .batch ∧ v'.a.endTimes.length = v.a.endTimes.length + 1)) ∧
    (t < v.a.lastEnd → v' = v) := by
  sorry

/-- **the extension decision** (C13): at an end time of a batch auction, with `mi` the
    matching computed on the recorded bids and `last` the number of matched bids recorded at
    the previous end time, the auction is extended iff rounds are left and (`last = 0` or the
    rule `1 − curr/last ≥ rate` holds in the module's arithmetic); otherwise it settles -/
theorem block_extends_iff (st : State) (t : Int) (hok : (step st (.block t)).1.res = .ok)
    (i : Nat) (v v' : AView) (mi : MInfo) (hv : st.core.views[i]? = some v)
    (hv' : (step st (.block t)).2.core.views[i]? = some v')
    (hs : v.a.status = .started) (hty : v.a.type = .batch) (hdue : v.a.lastEnd ≤ t)
    (hmi : calcBatch v.a v.bids v.allowed = some mi) :
    (v'.a.status = .started ↔
      (v.a.maxExt + 1 ≠ v.a.endTimes.length ∧
        (v.matchedLen = 0 ∨ shouldExtend mi.matchedLen v.matchedLen v.a.rate = true))) ∧
    -- whatever the decision, the matched flags and MatchedBidsLen are rewritten from `mi`
    v'.bids = v.bids.map (fun b => { b with matched := mi.matchedIds.contains b.id }) ∧
    v'.matchedLen = mi.matchedLen ∧
    -- published matched price (C16): the clearing price that was used, zero if nothing sold
    (v'.a.status ≠ .started → v'.a.matchedPrice = (if mi.total > 0 then mi.price else 0)) := by
  sorry

/-- **settlement transfers of a batch auction** (C03/C04/C05/C16 tie the clearing result to
    what is actually transferred): allocations out of the selling escrow in ascending bidder
    order, then the unsold rest to the auctioneer, then the refunds out of the paying escrow
    in ascending bidder order, then the proceeds -/
theorem batch_settlement_transfers (st : State) (t : Int) (hok : (step st (.block t)).1.res = .ok)
    (i : Nat) (v v' : AView) (mi : MInfo) (hv : st.core.views[i]? = some v)
    (hv' : (step st (.block t)).2.core.views[i]? = some v')
    (hs : v.a.status = .started) (hty : v.a.type = .batch)
    (hids : ∀ j w, st.core.views[j]? = some w → w.a.id = j)
    (hmi : calcBatch v.a v.bids v.allowed = some mi) (hsettled : v'.a.status ≠ .started) :
    ∃ rest proceeds,
      (xfersOf (step st (.block t)).1.effs).filter (fun x => x.src = .sell i ∨ x.src = .pay i) =
        ((mi.alloc.filter (fun p => p.2 ≠ 0)).map
            (fun p => (⟨.io, .sell i, .user p.1, [⟨v.a.sellDenom, p.2⟩]⟩ : Transfer)))
        ++ [⟨.send, .sell i, .user v.a.auctioneer, rest⟩]
        ++ ((mi.refund.filter (fun p => p.2 ≠ 0)).map
            (fun p => (⟨.io, .pay i, .user p.1, [⟨v.a.payDenom, p.2⟩]⟩ : Transfer)))
        ++ [proceeds] ∧
      proceeds.src = .pay i ∧
      proceeds.dst = (if v.a.schedules.isEmpty then .user v.a.auctioneer else .vest i) := by
  sorry

/-- **settlement transfers of a fixed-price auction**: every bidder receives the sum of
    their accepted bids -/
theorem fixed_settlement_transfers (st : State) (t : Int) (hok : (step st (.block t)).1.res = .ok)
    (i : Nat) (v v' : AView) (hv : st.core.views[i]? = some v)
    (hv' : (step st (.block t)).2.core.views[i]? = some v')
    (hs : v.a.status = .started) (hty : v.a.type = .fixed)
    (hids : ∀ j w, st.core.views[j]? = some w → w.a.id = j) (hdue : v.a.lastEnd ≤ t) :
    (v'.a.status = .vesting ∨ v'.a.status = .finished) ∧ v'.bids = v.bids ∧
    ∃ rest proceeds,
      (xfersOf (step st (.block t)).1.effs).filter (fun x => x.src = .sell i ∨ x.src = .pay i) =
        (((calcFixed v.a v.bids).alloc.filter (fun p => p.2 ≠ 0)).map
            (fun p => (⟨.io, .sell i, .user p.1, [⟨v.a.sellDenom, p.2⟩]⟩ : Transfer)))
        ++ [⟨.send, .sell i, .user v.a.auctioneer, rest⟩] ++ [proceeds] ∧
      proceeds.src = .pay i ∧
      proceeds.dst = (if v.a.schedules.isEmpty then .user v.a.auctioneer else .vest i) := by
  sorry

/-- **the vesting split at settlement** (C09): the proceeds `R` moved out of the paying
    escrow are split by `splitLoop` over the schedule into the new vesting queues (all
    unreleased); without a schedule the auction is finished at once -/
theorem settlement_vesting (st : State) (t : Int) (hok : (step st (.block t)).1.res = .ok)
    (i : Nat) (v v' : AView) (hv : st.core.views[i]? = some v)
    (hv' : (step st (.block t)).2.core.views[i]? = some v')
    (hs : v.a.status = .started) (hsettled : v'.a.status ≠ .started) (hvq : v.vqs = [])
    (hsched : (v.a.schedules.map (·.release)).Pairwise (· < ·)) :
    (v.a.schedules = [] → v'.a.status = .finished ∧ v'.vqs = []) ∧
    (v.a.schedules ≠ [] → v'.a.status = .vesting ∧
      ∃ R parts, 0 ≤ R ∧ splitLoop R v.a.schedules R = some parts ∧
        v'.vqs.map (fun q => (q.release, q.amt)) = parts ∧
        (∀ q ∈ v'.vqs, q.released = false ∧ q.denom = v.a.payDenom ∧ q.auctioneer = v.a.auctioneer) ∧
        ∃ x ∈ xfersOf (step st (.block t)).1.effs, x.src = .pay i ∧ x.dst = .vest i ∧
          x.coins = (if R = 0 then [] else [⟨v.a.payDenom, R⟩])) := by
  sorry

/-- **instalments are paid when due, each exactly once** (C09/C16): in a successful block an
    instalment's `released` flag flips exactly for the unreleased instalments whose release
    time has come, each flip comes with one transfer of exactly that instalment from the
    vesting escrow to the auctioneer (in release order), nothing else changes in the queue,
    and the auction is finished exactly when the last instalment has been paid -/
theorem block_releases (st : State) (t : Int) (hok : (step st (.block t)).1.res = .ok)
    (i : Nat) (v v' : AView) (hv : st.core.views[i]? = some v)
    (hv' : (step st (.block t)).2.core.views[i]? = some v') (hs : v.a.status = .vesting)
    (hsorted : (v.vqs.map (·.release)).Pairwise (· < ·)) :
    v'.vqs = v.vqs.map (fun q => if q.release ≤ t ∧ q.released = false then { q with released := true } else q) ∧
    (xfersOf (step st (.block t)).1.effs).filter (fun x => x.src = .vest i) =
      (v.vqs.filter (fun q => decide (q.release ≤ t) && !q.released)).map
        (fun q => (⟨.send, .vest i, .user v.a.auctioneer, if q.amt = 0 then [] else [⟨q.denom, q.amt⟩]⟩ : Transfer)) ∧
    (v'.a.status = .finished ↔ ∃ q, v.vqs.getLast? = some q ∧ q.release ≤ t ∧ q.released = false) ∧
    (v'.a.status = .finished ∨ v'.a.status = .vesting) := by
  sorry

/-- finished and cancelled auctions are never touched by a block -/
theorem block_terminal (st : State) (t : Int) (i : Nat) (v : AView) (hv : st.core.views[i]? = some v)
    (hs : v.a.status = .finished ∨ v.a.status = .cancelled) :
    (step st (.block t)).2.core.views[i]? = some v := by
  sorry

/-- fixed-price bids: flagged matched at placement exactly when they buy at least one coin -/
theorem fixed_bid_flag (st : State) (bidder : Acc) (aid : Nat) (price : Dec) (denom : Denom) (amt : Int)
    (v v' : AView) (hv : st.core.views[aid]? = some v)
    (hok : (step st (.msg (.place bidder aid (some .fixed) price denom amt))).1.res = .ok)
    (hv' : (step st (.msg (.place bidder aid (some .fixed) price denom amt))).2.core.views[aid]? = some v') :
    ∃ b, v'.bids = v.bids ++ [b] ∧ b.type = .fixed ∧ b.price = price ∧ b.denom = denom ∧ b.amt = amt ∧
      b.bidder = bidder ∧ (b.matched = true ↔ 0 < b.toSelling v.a.payDenom) ∧
      v'.a.remaining = v.a.remaining - b.toSelling v.a.payDenom := by
  sorry

end Fundraising
