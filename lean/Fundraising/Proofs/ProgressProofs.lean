import Fundraising.Spec.Frame
import Fundraising.Proofs.ExecLemmas
import Fundraising.Proofs.LedgerProofs
import Fundraising.Proofs.ProgressStatus
import Fundraising.Proofs.ProgressMsgs
/-
  C08 / C09 / C13 / C16 — what a successful block does to each auction (the lifecycle moves
  at the right block; instalments are paid when due, once; the extension decision; the
  published results).  STATEMENTS ARE FIXED (cited by the Props files).
-/
namespace Fundraising.ProgressInv

theorem xfersOf_eq (effs : List Eff) : xfersOf effs = xf effs := rfl

/-- a settlement debits only the two escrows -/
theorem settleXfers_src' {aid : Nat} {v : AView} {alloc refund : List (Acc × Int)} {rest : List Coin}
    {R : Int} : ∀ x ∈ settleXfers aid v alloc refund rest R,
      x.src = .sell v.a.id ∨ x.src = .pay v.a.id ∨ x.src = .pay aid := by
  intro x hx
  unfold settleXfers at hx
  simp only [List.mem_append, List.mem_singleton] at hx
  rcases hx with ((hx | hx) | hx) | hx
  · exact Or.inl (payXfers_src x hx)
  · subst hx; exact Or.inl rfl
  · exact Or.inr (Or.inl (payXfers_src x hx))
  · subst hx; exact Or.inr (Or.inr rfl)

theorem foreign_settle {i j id : Nat} {a : Addr} (h : SrcOK j id a) (hid : id = j) (hj : j ≠ i) :
    ¬ (a = .sell i ∨ a = .pay i) := by
  subst hid
  rcases h with h | h | h | h <;> subst h <;> simp [hj]

theorem foreign_vest {i j id : Nat} {a : Addr} (h : SrcOK j id a) (hj : j ≠ i) : a ≠ .vest i := by
  rcases h with h | h | h | h <;> subst h <;> simp [hj]

/-- the filter of a whole block's transfers on the two escrows of auction `i` is the
    settlement segment of iteration `i` -/
theorem filter_settle {i : Nat} {views : List AView} {v : AView} {pre seg post : List Eff}
    {alloc refund : List (Acc × Int)} {rest : List Coin} {R : Int}
    (hids : ∀ (j : Nat) (w : AView), views[j]? = some w → w.a.id = j) (hv : views[i]? = some v)
    (hfor : ∀ x ∈ xf pre ++ xf post, ∃ j w, j ≠ i ∧ views[j]? = some w ∧ SrcOK j w.a.id x.src)
    (hx : xf seg = settleXfers i v alloc refund rest R) :
    (xf (pre ++ seg ++ post)).filter (fun x => x.src = .sell i ∨ x.src = .pay i) =
      settleXfers i v alloc refund rest R := by
  rw [← hx]
  apply filter_segment
  · intro x hm
    obtain ⟨j, w, hj, hw, hsrc⟩ := hfor x hm
    exact decide_eq_false (foreign_settle hsrc (hids j w hw) hj)
  · intro x hm
    rw [hx] at hm
    have hid := hids i v hv
    have := settleXfers_src' x hm
    rw [hid] at this
    apply decide_eq_true
    rcases this with h | h | h
    · exact Or.inl h
    · exact Or.inr h
    · exact Or.inr h

theorem vesting_of_settled {aid : Nat} {v v0 w : AView} {R : Int} {alloc refund : List (Acc × Int)}
    {rest : List Coin} {L : List Transfer}
    (hS : Settled aid v0 R w) (hR : 0 ≤ R) (hvq0 : v0.vqs = [])
    (hs0 : v0.a.schedules = v.a.schedules) (hp0 : v0.a.payDenom = v.a.payDenom)
    (ha0 : v0.a.auctioneer = v.a.auctioneer)
    (hsched : (v.a.schedules.map (·.release)).Pairwise (· < ·))
    (hL : ∀ x ∈ settleXfers aid v alloc refund rest R, x ∈ L) :
    (v.a.schedules = [] → w.a.status = .finished ∧ w.vqs = []) ∧
    (v.a.schedules ≠ [] → w.a.status = .vesting ∧
      ∃ R parts, 0 ≤ R ∧ splitLoop R v.a.schedules R = some parts ∧
        w.vqs.map (fun q => (q.release, q.amt)) = parts ∧
        (∀ q ∈ w.vqs, q.released = false ∧ q.denom = v.a.payDenom ∧ q.auctioneer = v.a.auctioneer) ∧
        ∃ x ∈ L, x.src = .pay aid ∧ x.dst = .vest aid ∧
          x.coins = (if R = 0 then [] else [⟨v.a.payDenom, R⟩])) := by
  have hV := hS.vesting hvq0 (by rw [hs0]; exact hsched)
  rw [hs0, hp0, ha0] at hV
  refine ⟨hV.1, fun hne => ?_⟩
  obtain ⟨hst, parts, hsp, hmap, hall⟩ := hV.2 hne
  refine ⟨hst, R, parts, hR, hsp, hmap, hall, proceedsOf aid v R, hL _ ?_, rfl, ?_, rfl⟩
  · unfold settleXfers; simp
  · have : v.a.schedules.isEmpty = false := by
      cases hsc : v.a.schedules with
      | nil => exact absurd hsc hne
      | cons _ _ => rfl
    unfold proceedsOf
    simp [this]

end Fundraising.ProgressInv

namespace Fundraising

/-- the state before the block, with the block's time set -/
def atBlock (st : State) (t : Int) : Core := { st.core with now := t }

/-- **stand-by auctions open at the first block at or after their start time** -/
theorem block_opens (st : State) (t : Int) (hok : (step st (.block t)).1.res = .ok)
    (i : Nat) (v v' : AView) (hv : st.core.views[i]? = some v)
    (hv' : (step st (.block t)).2.core.views[i]? = some v') (hs : v.a.status = .standby) :
    (v.a.startTime ≤ t → v' = { v with a := { v.a with status := .started } }) ∧
    (t < v.a.startTime → v' = v) := by
  obtain ⟨c1, c2, pre, seg, post, hstep, hv1, hnow, hfin, _, _, _⟩ := ProgressInv.block_inv st t hok i v hv
  rw [hfin] at hv'
  obtain ⟨h1, h2⟩ := ProgressInv.blockStep_standby hstep hv1 hs
  rw [hnow] at h1 h2
  constructor
  · intro hle
    rw [h1 hle] at hv'
    exact (Option.some.inj hv').symm
  · intro hlt
    rw [h2 hlt, hv1] at hv'
    exact (Option.some.inj hv').symm

/-- an auction created when its start time has already passed is open at once -/
theorem create_status (st : State) (m : CreateMsg) (hok : (step st (.msg (.create m))).1.res = .ok) :
    ∃ v, (step st (.msg (.create m))).2.core.views[st.core.views.length]? = some v ∧
      v.a.status = (if m.startTime ≤ st.core.now then .started else .standby) ∧
      v.bids = [] ∧ v.allowed = [] ∧ v.vqs = [] ∧ v.a.endTimes = [m.endTime] := by
  obtain ⟨c', hh, hcore⟩ := ProgressInv.msg_ok st _ hok
  obtain ⟨a, hviews, hst, hend⟩ := ProgressInv.createAuction_inv (c := { s := st.core, ctl := st.ctl }) (m := m) hh
  refine ⟨{ a := a }, ?_, hst, rfl, rfl, rfl, hend⟩
  rw [hcore, hviews]
  simp

/-- **open auctions are settled or extended at the first block at or after their current end
    time**, and left alone before it -/
theorem block_closes (st : State) (t : Int) (hok : (step st (.block t)).1.res = .ok)
    (i : Nat) (v v' : AView) (hv : st.core.views[i]? = some v)
    (hv' : (step st (.block t)).2.core.views[i]? = some v') (hs : v.a.status = .started) :
    (v.a.lastEnd ≤ t →
      (v'.a.status = .vesting ∨ v'.a.status = .finished) ∨
      (v'.a.status = .started ∧ v.a.type = .batch ∧ v'.a.endTimes.length = v.a.endTimes.length + 1)) ∧
    (t < v.a.lastEnd → v' = v) := by
  obtain ⟨c1, c2, pre, seg, post, hstep, hv1, hnow, hfin, _, _, _⟩ := ProgressInv.block_inv st t hok i v hv
  rw [hfin] at hv'
  rcases ProgressInv.blockStep_started_cases hstep hv1 hs with
    ⟨hlt, rfl⟩ | ⟨hdue, hty, R, w, rest, e, hR, hS, hw, _, _⟩ |
    ⟨hdue, hty, mi, hmi, ⟨hde, next, hw⟩ | ⟨hde, R, w, rest, e, hR, hS, hw, _, _⟩⟩
  · rw [hnow] at hlt
    rw [hv1] at hv'
    exact ⟨fun hle => absurd hle (by omega), fun _ => (Option.some.inj hv').symm⟩
  · rw [hnow] at hdue
    rw [hw] at hv'
    cases hv'
    exact ⟨fun _ => Or.inl hS.status_or, fun hlt => absurd hdue (by omega)⟩
  · rw [hnow] at hdue
    rw [hw] at hv'
    cases hv'
    refine ⟨fun _ => Or.inr ⟨hs, hty, ?_⟩, fun hlt => absurd hdue (by omega)⟩
    show (v.a.endTimes ++ [next]).length = _
    simp
  · rw [hnow] at hdue
    rw [hw] at hv'
    cases hv'
    exact ⟨fun _ => Or.inl hS.status_or, fun hlt => absurd hdue (by omega)⟩

/-- **the extension decision** (C13): at an end time of a batch auction, with `mi` the
    matching computed on the recorded bids and `last` the number of matched bids recorded at
    the previous end time, the auction is extended iff rounds are left and (`last = 0` or the
    rule `1 − curr/last ≥ rate` holds in the module's arithmetic); otherwise it settles -/
theorem block_extends_iff (st : State) (t : Int) (hok : (step st (.block t)).1.res = .ok)
    (i : Nat) (v v' : AView) (mi : MInfo) (hv : st.core.views[i]? = some v)
    (hv' : (step st (.block t)).2.core.views[i]? = some v')
    (hs : v.a.status = .started) (hty : v.a.type = .batch) (hdue : v.a.lastEnd ≤ t)
    (hmi : calcBatch v.a v.bids v.allowed = some mi) :
    (v'.a.status = .started ↔
      (v.a.maxExt + 1 ≠ v.a.endTimes.length ∧
        (v.matchedLen = 0 ∨ shouldExtend mi.matchedLen v.matchedLen v.a.rate = true))) ∧
    -- whatever the decision, the matched flags and MatchedBidsLen are rewritten from `mi`
    v'.bids = v.bids.map (fun b => { b with matched := mi.matchedIds.contains b.id }) ∧
    v'.matchedLen = mi.matchedLen ∧
    -- published matched price (C16): the clearing price that was used, zero if nothing sold
    (v'.a.status ≠ .started → v'.a.matchedPrice = (if mi.total > 0 then mi.price else 0)) := by
  obtain ⟨c1, c2, pre, seg, post, hstep, hv1, hnow, hfin, _, _, _⟩ := ProgressInv.block_inv st t hok i v hv
  rw [hfin] at hv'
  rcases ProgressInv.blockStep_started_cases hstep hv1 hs with
    ⟨hlt, rfl⟩ | ⟨hdue', hty', _⟩ |
    ⟨hdue', hty', mi', hmi', ⟨hde, next, hw⟩ | ⟨hde, R, w, rest, e, hR, hS, hw, _, _⟩⟩
  · rw [hnow] at hlt
    exact absurd hdue (by omega)
  · rw [hty] at hty'; cases hty'
  · rw [hmi] at hmi'
    cases hmi'
    rw [hw] at hv'
    cases hv'
    exact ⟨⟨fun _ => hde, fun _ => hs⟩, rfl, rfl, fun hne => absurd hs hne⟩
  · rw [hmi] at hmi'
    cases hmi'
    rw [hw] at hv'
    cases hv'
    obtain ⟨hb, hm, hp⟩ := hS.keeps
    have hst : v'.a.status ≠ .started := by
      rcases hS.status_or with h | h <;> rw [h] <;> simp
    exact ⟨⟨fun h => absurd h hst, fun h => absurd h hde⟩, hb, hm, fun _ => hp⟩

/-- **settlement transfers of a batch auction** (C03/C04/C05/C16 tie the clearing result to
    what is actually transferred): allocations out of the selling escrow in ascending bidder
    order, then the unsold rest to the auctioneer, then the refunds out of the paying escrow
    in ascending bidder order, then the proceeds -/
theorem batch_settlement_transfers (st : State) (t : Int) (hok : (step st (.block t)).1.res = .ok)
    (i : Nat) (v v' : AView) (mi : MInfo) (hv : st.core.views[i]? = some v)
    (hv' : (step st (.block t)).2.core.views[i]? = some v')
    (hs : v.a.status = .started) (hty : v.a.type = .batch)
    (hids : ∀ (j : Nat) (w : AView), st.core.views[j]? = some w → w.a.id = j)
    (hmi : calcBatch v.a v.bids v.allowed = some mi) (hsettled : v'.a.status ≠ .started) :
    ∃ rest proceeds,
      (xfersOf (step st (.block t)).1.effs).filter (fun x => x.src = .sell i ∨ x.src = .pay i) =
        ((mi.alloc.filter (fun p => p.2 ≠ 0)).map
            (fun p => (⟨.io, .sell i, .user p.1, [⟨v.a.sellDenom, p.2⟩]⟩ : Transfer)))
        ++ [⟨.send, .sell i, .user v.a.auctioneer, rest⟩]
        ++ ((mi.refund.filter (fun p => p.2 ≠ 0)).map
            (fun p => (⟨.io, .pay i, .user p.1, [⟨v.a.payDenom, p.2⟩]⟩ : Transfer)))
        ++ [proceeds] ∧
      proceeds.src = .pay i ∧
      proceeds.dst = (if v.a.schedules.isEmpty then .user v.a.auctioneer else .vest i) := by
  obtain ⟨c1, c2, pre, seg, post, hstep, hv1, hnow, hfin, hseg, heffs, hfor⟩ :=
    ProgressInv.block_inv st t hok i v hv
  rw [hfin] at hv'
  rcases ProgressInv.blockStep_started_cases hstep hv1 hs with
    ⟨hlt, rfl⟩ | ⟨hdue', hty', _⟩ |
    ⟨hdue', hty', mi', hmi', ⟨hde, next, hw⟩ | ⟨hde, R, w, rest, e, hR, hS, hw, he, hx⟩⟩
  · rw [hv1] at hv'
    cases hv'
    exact absurd hs hsettled
  · rw [hty] at hty'; cases hty'
  · rw [hw] at hv'
    cases hv'
    exact absurd hs hsettled
  · rw [hmi] at hmi'
    cases hmi'
    have hse : seg = e := List.append_cancel_left (hseg.symm.trans he)
    subst hse
    have hF := ProgressInv.filter_settle hids hv hfor hx
    have hid := hids i v hv
    refine ⟨rest, ProgressInv.proceedsOf i v R, ?_, rfl, rfl⟩
    rw [ProgressInv.xfersOf_eq, heffs, hF]
    unfold ProgressInv.settleXfers ProgressInv.payXfers
    rw [hid]

/-- **settlement transfers of a fixed-price auction**: every bidder receives the sum of
    their accepted bids -/
theorem fixed_settlement_transfers (st : State) (t : Int) (hok : (step st (.block t)).1.res = .ok)
    (i : Nat) (v v' : AView) (hv : st.core.views[i]? = some v)
    (hv' : (step st (.block t)).2.core.views[i]? = some v')
    (hs : v.a.status = .started) (hty : v.a.type = .fixed)
    (hids : ∀ (j : Nat) (w : AView), st.core.views[j]? = some w → w.a.id = j) (hdue : v.a.lastEnd ≤ t) :
    (v'.a.status = .vesting ∨ v'.a.status = .finished) ∧ v'.bids = v.bids ∧
    ∃ rest proceeds,
      (xfersOf (step st (.block t)).1.effs).filter (fun x => x.src = .sell i ∨ x.src = .pay i) =
        (((calcFixed v.a v.bids).alloc.filter (fun p => p.2 ≠ 0)).map
            (fun p => (⟨.io, .sell i, .user p.1, [⟨v.a.sellDenom, p.2⟩]⟩ : Transfer)))
        ++ [⟨.send, .sell i, .user v.a.auctioneer, rest⟩] ++ [proceeds] ∧
      proceeds.src = .pay i ∧
      proceeds.dst = (if v.a.schedules.isEmpty then .user v.a.auctioneer else .vest i) := by
  obtain ⟨c1, c2, pre, seg, post, hstep, hv1, hnow, hfin, hseg, heffs, hfor⟩ :=
    ProgressInv.block_inv st t hok i v hv
  rw [hfin] at hv'
  rcases ProgressInv.blockStep_started_cases hstep hv1 hs with
    ⟨hlt, rfl⟩ | ⟨hdue', hty', R, w, rest, e, hR, hS, hw, he, hx⟩ | ⟨hdue', hty', _⟩
  · rw [hnow] at hlt
    exact absurd hdue (by omega)
  · rw [hw] at hv'
    cases hv'
    have hse : seg = e := List.append_cancel_left (hseg.symm.trans he)
    subst hse
    have hF := ProgressInv.filter_settle hids hv hfor hx
    have hid := hids i v hv
    refine ⟨hS.status_or, hS.keeps.1, rest, ProgressInv.proceedsOf i v R, ?_, rfl, rfl⟩
    rw [ProgressInv.xfersOf_eq, heffs, hF]
    unfold ProgressInv.settleXfers ProgressInv.payXfers
    rw [hid]
    simp
  · rw [hty] at hty'; cases hty'

/-- **the vesting split at settlement** (C09): the proceeds `R` moved out of the paying
    escrow are split by `splitLoop` over the schedule into the new vesting queues (all
    unreleased); without a schedule the auction is finished at once -/
theorem settlement_vesting (st : State) (t : Int) (hok : (step st (.block t)).1.res = .ok)
    (i : Nat) (v v' : AView) (hv : st.core.views[i]? = some v)
    (hv' : (step st (.block t)).2.core.views[i]? = some v')
    (hs : v.a.status = .started) (hsettled : v'.a.status ≠ .started) (hvq : v.vqs = [])
    (hsched : (v.a.schedules.map (·.release)).Pairwise (· < ·)) :
    (v.a.schedules = [] → v'.a.status = .finished ∧ v'.vqs = []) ∧
    (v.a.schedules ≠ [] → v'.a.status = .vesting ∧
      ∃ R parts, 0 ≤ R ∧ splitLoop R v.a.schedules R = some parts ∧
        v'.vqs.map (fun q => (q.release, q.amt)) = parts ∧
        (∀ q ∈ v'.vqs, q.released = false ∧ q.denom = v.a.payDenom ∧ q.auctioneer = v.a.auctioneer) ∧
        ∃ x ∈ xfersOf (step st (.block t)).1.effs, x.src = .pay i ∧ x.dst = .vest i ∧
          x.coins = (if R = 0 then [] else [⟨v.a.payDenom, R⟩])) := by
  obtain ⟨c1, c2, pre, seg, post, hstep, hv1, hnow, hfin, hseg, heffs, hfor⟩ :=
    ProgressInv.block_inv st t hok i v hv
  rw [hfin] at hv'
  rw [ProgressInv.xfersOf_eq, heffs]
  rcases ProgressInv.blockStep_started_cases hstep hv1 hs with
    ⟨hlt, rfl⟩ | ⟨hdue', hty', R, w, rest, e, hR, hS, hw, he, hx⟩ |
    ⟨hdue', hty', mi, hmi, ⟨hde, next, hw⟩ | ⟨hde, R, w, rest, e, hR, hS, hw, he, hx⟩⟩
  · rw [hv1] at hv'
    cases hv'
    exact absurd hs hsettled
  · rw [hw] at hv'
    cases hv'
    have hse : seg = e := List.append_cancel_left (hseg.symm.trans he)
    subst hse
    exact ProgressInv.vesting_of_settled hS hR hvq rfl rfl rfl hsched
      (fun x hm => ProgressInv.mem_segment (by rw [hx]; exact hm))
  · rw [hw] at hv'
    cases hv'
    exact absurd hs hsettled
  · rw [hw] at hv'
    cases hv'
    have hse : seg = e := List.append_cancel_left (hseg.symm.trans he)
    subst hse
    exact ProgressInv.vesting_of_settled hS hR hvq rfl rfl rfl hsched
      (fun x hm => ProgressInv.mem_segment (by rw [hx]; exact hm))

/-- **instalments are paid when due, each exactly once** (C09/C16): in a successful block an
    instalment's `released` flag flips exactly for the unreleased instalments whose release
    time has come, each flip comes with one transfer of exactly that instalment from the
    vesting escrow to the auctioneer (in release order), nothing else changes in the queue,
    and the auction is finished exactly when the last instalment has been paid -/
theorem block_releases (st : State) (t : Int) (hok : (step st (.block t)).1.res = .ok)
    (i : Nat) (v v' : AView) (hv : st.core.views[i]? = some v)
    (hv' : (step st (.block t)).2.core.views[i]? = some v') (hs : v.a.status = .vesting)
    (hsorted : (v.vqs.map (·.release)).Pairwise (· < ·)) :
    v'.vqs = v.vqs.map (fun q => if q.release ≤ t ∧ q.released = false then { q with released := true } else q) ∧
    (xfersOf (step st (.block t)).1.effs).filter (fun x => x.src = .vest i) =
      (v.vqs.filter (fun q => decide (q.release ≤ t) && !q.released)).map
        (fun q => (⟨.send, .vest i, .user v.a.auctioneer, if q.amt = 0 then [] else [⟨q.denom, q.amt⟩]⟩ : Transfer)) ∧
    (v'.a.status = .finished ↔ ∃ q, v.vqs.getLast? = some q ∧ q.release ≤ t ∧ q.released = false) ∧
    (v'.a.status = .finished ∨ v'.a.status = .vesting) := by
  obtain ⟨c1, c2, pre, seg, post, hstep, hv1, hnow, hfin, hseg, heffs, hfor⟩ :=
    ProgressInv.block_inv st t hok i v hv
  rw [hfin] at hv'
  have hrel := ProgressInv.blockStep_vesting hstep hv1 hs
  obtain ⟨_, _, ⟨e, he, hx⟩, hview⟩ := ProgressInv.releaseVesting_inv hrel hv1
  obtain ⟨w, hw, hwq, hwst, hwor⟩ := hview hsorted
  rw [hw] at hv'
  cases hv'
  rw [hnow] at hwq hwst hx
  have hse : seg = e := List.append_cancel_left (hseg.symm.trans he)
  subst hse
  refine ⟨hwq, ?_, ?_, ?_⟩
  · rw [ProgressInv.xfersOf_eq, heffs]
    refine (ProgressInv.filter_segment _ pre seg post ?_ ?_).trans hx
    · intro x hm
      obtain ⟨j, w', hj, _, hsrc⟩ := hfor x hm
      exact decide_eq_false (ProgressInv.foreign_vest hsrc hj)
    · intro x hm
      rw [hx] at hm
      obtain ⟨q, _, rfl⟩ := List.mem_map.mp hm
      exact decide_eq_true rfl
  · rw [hwst, hs]
    simp
  · rw [hs] at hwor
    exact hwor

/-- finished and cancelled auctions are never touched by a block -/
theorem block_terminal (st : State) (t : Int) (i : Nat) (v : AView) (hv : st.core.views[i]? = some v)
    (hs : v.a.status = .finished ∨ v.a.status = .cancelled) :
    (step st (.block t)).2.core.views[i]? = some v := by
  rcases ProgressInv.block_cases st t with ⟨c', hb, _, _, hc⟩ | ⟨_, hc⟩
  · obtain ⟨c1, c2, pre, seg, post, hstep, hv1, _, hfin, _, _, _⟩ := ProgressInv.beginBlock_inv hb i v hv
    rw [hc, hfin, ProgressInv.blockStep_terminal hstep hv1 hs]
    exact hv1
  · rw [hc]; exact hv

/-- fixed-price bids: flagged matched at placement exactly when they buy at least one coin -/
theorem fixed_bid_flag (st : State) (bidder : Acc) (aid : Nat) (price : Dec) (denom : Denom) (amt : Int)
    (v v' : AView) (hv : st.core.views[aid]? = some v)
    (hok : (step st (.msg (.place bidder aid (some .fixed) price denom amt))).1.res = .ok)
    (hv' : (step st (.msg (.place bidder aid (some .fixed) price denom amt))).2.core.views[aid]? = some v') :
    ∃ b, v'.bids = v.bids ++ [b] ∧ b.type = .fixed ∧ b.price = price ∧ b.denom = denom ∧ b.amt = amt ∧
      b.bidder = bidder ∧ (b.matched = true ↔ 0 < b.toSelling v.a.payDenom) ∧
      v'.a.remaining = v.a.remaining - b.toSelling v.a.payDenom := by
  obtain ⟨c', hh, hcore⟩ := ProgressInv.msg_ok st _ hok
  obtain ⟨b, h1, h2, h3, h4, h5, hmat, hview⟩ :=
    ProgressInv.placeBid_fixed_inv (c := { s := st.core, ctl := st.ctl }) hh hv
  rw [hcore, hview] at hv'
  cases hv'
  refine ⟨b, rfl, h1, h2, h3, h4, h5, ?_, rfl⟩
  rw [hmat]
  simp

end Fundraising
