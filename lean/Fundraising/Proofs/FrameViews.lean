import Fundraising.Proofs.FrameStep
/-
  Record-level consequences of the message handlers' footprints: `ViewStep` for each kind
  of rewrite, uniqueness of bid ids in a well-formed view.
-/
set_option linter.unusedSimpArgs false
set_option linter.unusedVariables false
namespace Fundraising.Frame

/-! ### bid ids of a well-formed view -/

theorem inj_of_pairwise {α β : Type} {f : α → β} : ∀ {l : List α},
    l.Pairwise (fun a b => f a ≠ f b) → ∀ a ∈ l, ∀ b ∈ l, f a = f b → a = b := by
  intro l
  induction l with
  | nil => intro _ a ha; cases ha
  | cons x xs ih =>
    intro hp a ha b hb hab
    rw [List.pairwise_cons] at hp
    rcases List.mem_cons.mp ha with ha1 | ha1
    · rcases List.mem_cons.mp hb with hb1 | hb1
      · rw [ha1, hb1]
      · subst ha1
        exact absurd hab (hp.1 b hb1)
    · rcases List.mem_cons.mp hb with hb1 | hb1
      · subst hb1
        exact absurd hab.symm (hp.1 a ha1)
      · exact ih hp.2 a ha1 b hb1 hab

theorem id_unique {i : Nat} {v : AView} (w : ViewWF i v) :
    ∀ a ∈ v.bids, ∀ b ∈ v.bids, a.id = b.id → a = b := by
  apply inj_of_pairwise
  have h : (v.bids.map (·.id)).Pairwise (· ≠ ·) := by
    rw [w.bidIds, List.pairwise_map]
    exact List.nodup_range.imp (fun h e => h (by omega))
  exact List.pairwise_map.mp h

theorem id_le {i : Nat} {v : AView} (w : ViewWF i v) : ∀ b ∈ v.bids, b.id ≤ v.bids.length := by
  intro b hb
  have h : b.id ∈ v.bids.map (·.id) := List.mem_map.mpr ⟨b, hb, rfl⟩
  rw [w.bidIds] at h
  obtain ⟨k, hk, e⟩ := List.mem_map.mp h
  have := List.mem_range.mp hk
  omega

/-- the bid `find?` returns is the only one with that id -/
theorem find_unique {i : Nat} {v : AView} (w : ViewWF i v) {bidId : Nat} {bid : Bid}
    (hfind : v.bids.find? (·.id == bidId) = some bid) :
    bid ∈ v.bids ∧ bid.id = bidId ∧ ∀ x ∈ v.bids, x.id = bidId → x = bid := by
  have hmem := List.mem_of_find?_eq_some hfind
  have hid : bid.id = bidId := by simpa using List.find?_some hfind
  exact ⟨hmem, hid, fun x hx e => id_unique w x hx bid hmem (e.trans hid.symm)⟩

/-! ### `ViewStep` of the four kinds of rewrite -/

theorem viewStep_cancel {v : AView} (hst : v.a.status = .standby) (r : Int) :
    ViewStep v { v with a := { v.a with remaining := r, status := .cancelled } } where
  status := by rw [hst]; rfl
  terms := rfl
  ends := ⟨[], by simp⟩
  bidsKept := ⟨[], by simp⟩
  bidsGrow := fun b hb => ⟨b, hb, rfl, Int.le_refl _, Int.le_refl _⟩
  allowedKept := fun x hx => ⟨x, hx, rfl⟩
  seq := Nat.le_refl _
  vqsKept := fun q hq => ⟨q, hq, rfl, rfl, id⟩

theorem viewStep_place (v : AView) (r : Int) (nb : Bid) :
    ViewStep v { v with a := { v.a with remaining := r }, bids := v.bids ++ [nb],
                        bidSeq := v.bidSeq + 1 } where
  status := statusEdge_refl _
  terms := rfl
  ends := ⟨[], by simp⟩
  bidsKept := ⟨[nb.ident], by simp⟩
  bidsGrow := fun b hb => ⟨b, List.mem_append_left _ hb, rfl, Int.le_refl _, Int.le_refl _⟩
  allowedKept := fun x hx => ⟨x, hx, rfl⟩
  seq := Nat.le_succ _
  vqsKept := fun q hq => ⟨q, hq, rfl, rfl, id⟩

theorem viewStep_modify {i : Nat} {v : AView} (w : ViewWF i v) {bidId : Nat} {bid : Bid}
    (hfind : v.bids.find? (·.id == bidId) = some bid) {price : Dec} {amt : Int}
    (hprice : bid.price ≤ price) (hamt : bid.amt ≤ amt) :
    ViewStep v { v with bids := v.bids.map (fun b =>
      if b.id == bidId then { bid with price := price, amt := amt } else b) } where
  status := statusEdge_refl _
  terms := rfl
  ends := ⟨[], by simp⟩
  bidsKept := by
    obtain ⟨_, _, huniq⟩ := find_unique w hfind
    refine ⟨[], ?_⟩
    simp only [List.map_map, List.append_nil]
    apply List.map_congr_left
    intro b hb
    simp only [Function.comp]
    by_cases hid : b.id = bidId
    · have := huniq b hb hid
      subst this
      simp [hid, Bid.ident]
    · simp [hid]
  bidsGrow := by
    obtain ⟨_, _, huniq⟩ := find_unique w hfind
    intro b hb
    refine ⟨_, List.mem_map.mpr ⟨b, hb, rfl⟩, ?_⟩
    by_cases hid : b.id = bidId
    · have := huniq b hb hid
      subst this
      subst hid
      simp only [beq_self_eq_true, if_true]
      exact ⟨rfl, hprice, hamt⟩
    · have : (b.id == bidId) = false := by simpa using hid
      simp only [this]
      exact ⟨rfl, Int.le_refl _, Int.le_refl _⟩
  allowedKept := fun x hx => ⟨x, hx, rfl⟩
  seq := Nat.le_refl _
  vqsKept := fun q hq => ⟨q, hq, rfl, rfl, id⟩

theorem viewStep_allowed (v : AView) {l : List Allowed}
    (kept : ∀ y ∈ v.allowed, ∃ y' ∈ l, y'.bidder = y.bidder) :
    ViewStep v { v with allowed := l } where
  status := statusEdge_refl _
  terms := rfl
  ends := ⟨[], by simp⟩
  bidsKept := ⟨[], by simp⟩
  bidsGrow := fun b hb => ⟨b, hb, rfl, Int.le_refl _, Int.le_refl _⟩
  allowedKept := kept
  seq := Nat.le_refl _
  vqsKept := fun q hq => ⟨q, hq, rfl, rfl, id⟩

/-! ### the two halves of `bids_change_only_by_owner` when the bids are as they were -/

/-- the conclusion of `bids_change_only_by_owner` -/
def BidsClaim (op : Op) (i : Nat) (v v' : AView) : Prop :=
  (∀ b ∈ v.bids, ∀ b' ∈ v'.bids, b'.id = b.id → (b'.price ≠ b.price ∨ b'.amt ≠ b.amt) →
      v.a.status = .started ∧ v.a.type = .batch ∧
      op = .msg (.modify b.bidder i b.id b'.price b.denom b'.amt)) ∧
  (v.bids.length < v'.bids.length →
      v.a.status = .started ∧ v'.bids.length = v.bids.length + 1 ∧
      ∃ b, v'.bids.getLast? = some b ∧ b.id = v.bids.length + 1 ∧
        (lookupAllowed v.allowed b.bidder).isSome = true ∧
        op = .msg (.place b.bidder i (some b.type) b.price b.denom b.amt))

/-- only matched flags were rewritten (or nothing at all) -/
theorem bidsClaim_flags {op : Op} {i : Nat} {v v' : AView} (w : ViewWF i v) (f : Bid → Bool)
    (hb : v'.bids = v.bids.map (fun b => { b with matched := f b })) : BidsClaim op i v v' := by
  constructor
  · intro b hb0 b' hb' hid hne
    rw [hb] at hb'
    obtain ⟨x, hx, rfl⟩ := List.mem_map.mp hb'
    have := id_unique w x hx b hb0 hid
    subst this
    simp at hne
  · intro hlt
    rw [hb, List.length_map] at hlt
    omega

theorem bidsClaim_same {op : Op} {i : Nat} {v v' : AView} (w : ViewWF i v)
    (hb : v'.bids = v.bids) : BidsClaim op i v v' :=
  bidsClaim_flags w (·.matched) (by rw [hb]; exact map_matched_self _)

/-! ### a `Kind` operation seen from one auction -/

/-- what a `Kind` operation did to the record `v` of auction `i` -/
inductive At (s : Core) (op : Op) (s' : Core) (i : Nat) (v : AView) : AView → Prop
  | same : At s op s' i v v
  | cancel (signer : Acc) (hop : op = .msg (.cancel signer i))
      (hsigner : v.a.auctioneer = signer) (hst : v.a.status = .standby)
      (hnn : 0 ≤ s.bank (.sell i) v.a.sellDenom)
      (hbank : s'.bank = s.bank.move (.sell i) (.user v.a.auctioneer) v.a.sellDenom
        (s.bank (.sell i) v.a.sellDenom)) :
      At s op s' i v { v with a := { v.a with
          remaining := if v.a.type = .fixed then 0 else v.a.remaining, status := .cancelled } }
  | place (bidder : Acc) (t : BidType) (price : Dec) (denom : Denom) (amt : Int) (r : Int) (m : Bool)
      (hop : op = .msg (.place bidder i (some t) price denom amt))
      (hst : v.a.status = .started) (hallowed : (lookupAllowed v.allowed bidder).isSome = true) :
      At s op s' i v { v with
          a := { v.a with remaining := r },
          bids := v.bids ++ [⟨i, v.bidSeq + 1, bidder, t, price, denom, amt, m⟩],
          bidSeq := v.bidSeq + 1 }
  | modify (bidder : Acc) (bidId : Nat) (price : Dec) (denom : Denom) (amt : Int) (bid : Bid)
      (hop : op = .msg (.modify bidder i bidId price denom amt))
      (hst : v.a.status = .started) (hty : v.a.type = .batch)
      (hfind : v.bids.find? (·.id == bidId) = some bid)
      (hbidder : bid.bidder = bidder) (hdenom : bid.denom = denom)
      (hprice : bid.price ≤ price) (hamt : bid.amt ≤ amt) :
      At s op s' i v { v with bids := v.bids.map (fun b =>
          if b.id == bidId then { bid with price := price, amt := amt } else b) }
  | allowed (l : List Allowed) (hmsg : ∀ m, op = .msg m → s.enableAdd = true)
      (kept : ∀ y ∈ v.allowed, ∃ y' ∈ l, y'.bidder = y.bidder) :
      At s op s' i v { v with allowed := l }

theorem Kind.at {s s' : Core} {op : Op} (k : Kind s op s') {i : Nat} {v : AView}
    (hv : s.views[i]? = some v) : ∃ v', s'.views[i]? = some v' ∧ At s op s' i v v' := by
  cases k with
  | same hvs => exact ⟨v, by rw [hvs]; exact hv, .same⟩
  | create m nv hop hvs =>
    exact ⟨v, by rw [hvs, List.getElem?_append_left (lt_of_get hv)]; exact hv, .same⟩
  | cancel signer aid w hop fp pre hsigner hst post hnn hbank =>
    by_cases hi : i = aid
    · subst hi
      have e : v = w := by rw [hv] at pre; exact Option.some.inj pre
      subst e
      exact ⟨_, post, .cancel signer hop hsigner hst hnn hbank⟩
    · exact ⟨v, by rw [fp.others i hi]; exact hv, .same⟩
  | place bidder aid t price denom amt w r m hop fp pre hst hallowed post =>
    by_cases hi : i = aid
    · subst hi
      have e : v = w := by rw [hv] at pre; exact Option.some.inj pre
      subst e
      exact ⟨_, post, .place bidder t price denom amt r m hop hst hallowed⟩
    · exact ⟨v, by rw [fp.others i hi]; exact hv, .same⟩
  | modify bidder aid bidId price denom amt w bid hop fp pre hst hty hfind hbidder hdenom hprice hamt post =>
    by_cases hi : i = aid
    · subst hi
      have e : v = w := by rw [hv] at pre; exact Option.some.inj pre
      subst e
      exact ⟨_, post, .modify bidder bidId price denom amt bid hop hst hty hfind hbidder hdenom hprice hamt⟩
    · exact ⟨v, by rw [fp.others i hi]; exact hv, .same⟩
  | allowed aid w l hmsg fp pre kept post =>
    by_cases hi : i = aid
    · subst hi
      have e : v = w := by rw [hv] at pre; exact Option.some.inj pre
      subst e
      exact ⟨_, post, .allowed l hmsg kept⟩
    · exact ⟨v, by rw [fp.others i hi]; exact hv, .same⟩

end Fundraising.Frame
