import Fundraising.Proofs.WFBasic
import Fundraising.Proofs.VestingLemmas
/-
  `ReleaseVestingPayingCoin` (`releaseVesting` / `releaseLoop`) preserves `WF` and
  `BankNonneg`.
-/
namespace Fundraising.WFInv

/-- with strictly smaller keys in front, `upsertBy` replaces the entry with the same key
    in place -/
theorem upsertBy_replace {α : Type} (key : α → Int) (x y : α) (post : List α)
    (hk : key x = key y) : ∀ (pre : List α), (∀ z ∈ pre, key z < key y) →
    upsertBy key x (pre ++ y :: post) = pre ++ x :: post
  | [], _ => by simp [upsertBy, hk]
  | z :: pre, h => by
    have hz : key z < key y := h z (List.mem_cons_self ..)
    have ih := upsertBy_replace key x y post hk pre (fun w hw => h w (List.mem_cons_of_mem _ hw))
    have h1 : ¬ key x < key z := by omega
    have h2 : ¬ key x = key z := by omega
    simp [upsertBy, h1, h2, ih]

/-- release times of the vesting queues of a settled auction are strictly increasing -/
theorem vqs_sorted {i : Nat} {v : AView} (V : ViewWF i v)
    (hst : v.a.status = .vesting ∨ v.a.status = .finished) :
    (v.vqs.map (·.release)).Pairwise (· < ·) := by
  rw [V.vqsSome hst]
  by_cases hne : v.a.schedules = []
  · simp [hne]
  · exact (validSchedules_spec _ _ hne V.auction.sched).2.2

/-- entries in front of `q` are released strictly earlier -/
theorem pre_lt {i : Nat} {v : AView} {pre rest : List VQ} {q : VQ} (V : ViewWF i v)
    (hst : v.a.status = .vesting ∨ v.a.status = .finished) (hvq : v.vqs = pre ++ q :: rest) :
    ∀ x ∈ pre, x.release < q.release := by
  have hs := vqs_sorted V hst
  rw [hvq, List.map_append, List.pairwise_append] at hs
  intro x hx
  exact hs.2.2 _ (List.mem_map_of_mem hx) _ (by simp)

/-- marking the first due, unreleased instalment as released: the view stays well-formed,
    with status `st = vesting` when instalments remain behind it and `st = finished` when it
    was the last one -/
theorem viewWF_release {aid : Nat} {vc : AView} {pre rest : List VQ} {q : VQ} {now : Int}
    {st : Status}
    (V : ViewWF aid vc) (hvq : vc.vqs = pre ++ q :: rest) (hst : vc.a.status = .vesting)
    (hdue : q.release ≤ now) (hpre : ∀ x ∈ pre, x.release ≤ now → x.released = true)
    (hst' : (st = .vesting ∧ rest ≠ []) ∨ (st = .finished ∧ rest = [])) :
    ViewWF aid { vc with a := { vc.a with status := st },
                         vqs := pre ++ { q with released := true } :: rest } := by
  have hlt := pre_lt V (Or.inl hst) hvq
  have hrel : ∀ x ∈ pre, x.released = true := fun x hx =>
    hpre x hx (by have := hlt x hx; omega)
  have hstv : st = .vesting ∨ st = .finished := by
    rcases hst' with h | h
    · exact Or.inl h.1
    · exact Or.inr h.1
  have hP := V.releasedPrefix
  rw [hvq, List.pairwise_append, List.pairwise_cons] at hP
  obtain ⟨hP1, ⟨hP2, hP3⟩, hP4⟩ := hP
  exact {
    id := V.id
    auction := { V.auction with }
    bids := fun b hb => { V.bids b hb with }
    bidIds := V.bidIds
    bidSeq := V.bidSeq
    caps := V.caps
    allowedSorted := V.allowedSorted
    noBidsBefore := by
      intro h
      rcases hstv with e | e <;> simp [e] at h
    matchedLenBatch := V.matchedLenBatch
    matchedLenFixed := V.matchedLenFixed
    remaining := by
      intro _ h
      rcases hstv with e | e <;> simp [e] at h
    vqsNone := by
      intro h
      rcases hstv with e | e <;> simp [e] at h
    vqsSome := by
      intro _
      have := V.vqsSome (Or.inl hst)
      rw [hvq] at this
      simpa using this
    vqsWF := by
      intro x hx
      have hW := V.vqsWF
      rw [hvq] at hW
      rcases List.mem_append.mp hx with hx | hx
      · exact hW x (List.mem_append_left _ hx)
      · rcases List.mem_cons.mp hx with rfl | hx
        · exact hW q (by simp)
        · exact hW x (by simp [hx])
    releasedPrefix := by
      rw [List.pairwise_append, List.pairwise_cons]
      refine ⟨hP1, ⟨fun _ _ _ => rfl, hP3⟩, ?_⟩
      intro x hx y hy hy'
      exact hrel x hx
    vestingOpen := by
      intro h
      rcases hst' with ⟨_, hne⟩ | ⟨e, _⟩
      · obtain ⟨z, hz, hz'⟩ := V.vestingOpen hst
        refine ⟨z, ?_, hz'⟩
        rw [hvq] at hz
        cases rest with
        | nil => exact absurd rfl hne
        | cons r rs =>
          simpa [List.getLast?_append, List.getLast?_cons_cons] using hz
      · simp [e] at h
    finishedAll := by
      intro h x hx
      rcases hst' with ⟨e, _⟩ | ⟨_, e⟩
      · simp [e] at h
      · subst e
        rcases List.mem_append.mp hx with hx | hx
        · exact hrel x hx
        · simp at hx; subst hx; rfl }

/-- with the status unchanged the record is the old one -/
theorem AView.status_eta {vc : AView} {l : List VQ} (hst : vc.a.status = .vesting) :
    ({ vc with vqs := l } : AView) = { vc with a := { vc.a with status := .vesting }, vqs := l } := by
  cases vc with
  | mk a al b vq m bs =>
    cases a
    simp only at hst
    subst hst
    rfl

theorem releaseLoop_wf {aid : Nat} {auc : Acc} {n : Nat} :
    ∀ (rest : List VQ) (c c' : Ctx) (i : Nat) (pre : List VQ) (vc : AView),
      releaseLoop c aid auc n i rest = .ok c' →
      WF c.s →
      c.s.views[aid]? = some vc →
      vc.vqs = pre ++ rest →
      n = i + rest.length →
      (∀ x ∈ pre, x.release ≤ c.s.now → x.released = true) →
      (rest ≠ [] → vc.a.status = .vesting) →
      WF c'.s ∧ (BankNonneg c.s → BankNonneg c'.s)
  | [], c, c', i, pre, vc, h, hw, _, _, _, _, _ => by
    unfold releaseLoop at h
    rw [pure_ok] at h
    subst h
    exact ⟨hw, id⟩
  | q :: rest, c, c', i, pre, vc, h, hw, hv, hvq, hn, hpre, hst => by
    have hst : vc.a.status = .vesting := hst (by simp)
    have V := hw.views aid vc hv
    unfold releaseLoop at h
    by_cases hc : q.release ≤ c.s.now ∧ (!q.released) = true
    · rw [if_pos hc] at h
      simp only [bind_ok] at h
      obtain ⟨coins, hmk, c1, hb, v1, hv1, hc3⟩ := h
      obtain ⟨f1, _, n1⟩ := bankCall_frame hb
      rw [view_ok_iff, f1.views, hv] at hv1
      have hv1 : vc = v1 := Option.some.inj hv1
      subst hv1
      have hw1 : WF c1.s := WF.frame f1 hw
      have hlt := pre_lt V (Or.inl hst) hvq
      have hset : setVQ vc.vqs { q with released := true }
          = pre ++ { q with released := true } :: rest := by
        rw [hvq]
        exact upsertBy_replace (·.release) { q with released := true } q rest rfl pre hlt
      rw [hset] at hc3
      have hlen : aid < c1.s.views.length := by
        rw [f1.views]
        exact (List.getElem?_eq_some_iff.mp hv).1
      have hpre' : ∀ x ∈ pre ++ [{ q with released := true }],
          x.release ≤ c.s.now → x.released = true := by
        intro x hx hd
        rcases List.mem_append.mp hx with hx | hx
        · exact hpre x hx hd
        · simp at hx; subst hx; rfl
      by_cases hi : i + 1 = n
      · have hr : rest = [] := by
          have : rest.length = 0 := by simp at hn; omega
          exact List.eq_nil_of_length_eq_zero this
        rw [if_pos hi] at hc3
        simp only [bind_ok, pure_ok] at hc3
        obtain ⟨v2, hv2, _, rfl, hloop⟩ := hc3
        rw [view_ok_iff, setView_views, List.getElem?_set_self hlen] at hv2
        have hv2 := Option.some.inj hv2
        subst hv2
        have NV := viewWF_release (st := .finished) V hvq hst hc.1 hpre (Or.inr ⟨rfl, hr⟩)
        have hw3 := WF.ctx_setView hw1 aid _ NV
        refine (fun p => ⟨p.1, fun hb0 => p.2 (n1 (mkCoins_nonneg hmk) hb0)⟩)
          (releaseLoop_wf rest _ c' (i + 1) (pre ++ [{ q with released := true }])
            { vc with a := { vc.a with status := .finished },
                      vqs := pre ++ { q with released := true } :: rest } hloop
            ?_ ?_ ?_ ?_ ?_ ?_)
        · simp only [Ctx.setView, List.set_set]
          exact hw3
        · simp only [Ctx.setView, List.set_set]
          exact List.getElem?_set_self hlen
        · simp
        · simp at hn; omega
        · simpa [Ctx.setView, f1.now] using hpre'
        · intro hne; exact absurd hr hne
      · have hr : rest ≠ [] := by
          intro e; subst e; simp at hn; omega
        rw [if_neg hi] at hc3
        simp only [bind_ok, pure_ok] at hc3
        obtain ⟨_, rfl, hloop⟩ := hc3
        have NV := viewWF_release (st := .vesting) V hvq hst hc.1 hpre (Or.inl ⟨rfl, hr⟩)
        rw [← AView.status_eta hst] at NV
        have hw3 := WF.ctx_setView hw1 aid _ NV
        refine (fun p => ⟨p.1, fun hb0 => p.2 (n1 (mkCoins_nonneg hmk) hb0)⟩)
          (releaseLoop_wf rest _ c' (i + 1) (pre ++ [{ q with released := true }])
            { vc with vqs := pre ++ { q with released := true } :: rest } hloop
            hw3 ?_ ?_ ?_ ?_ ?_)
        · exact List.getElem?_set_self hlen
        · simp
        · simp at hn; omega
        · simpa [Ctx.setView, f1.now] using hpre'
        · intro _; exact hst
    · rw [if_neg hc] at h
      refine releaseLoop_wf rest c c' (i + 1) (pre ++ [q]) vc h hw hv ?_ ?_ ?_ ?_
      · simp [hvq]
      · simp at hn; omega
      · intro x hx hd
        rcases List.mem_append.mp hx with hx | hx
        · exact hpre x hx hd
        · simp at hx; subst hx
          cases hr : x.released with
          | true => rfl
          | false => exact absurd ⟨hd, by simp [hr]⟩ hc
      · intro _; exact hst

/-- `ReleaseVestingPayingCoin` on a vesting auction preserves the invariants -/
theorem releaseVesting_wf {c c' : Ctx} {aid : Nat} {v : AView}
    (h : releaseVesting c aid = .ok c') (hw : WF c.s)
    (hv : c.s.views[aid]? = some v) (hst : v.a.status = .vesting) :
    WF c'.s ∧ (BankNonneg c.s → BankNonneg c'.s) := by
  unfold releaseVesting at h
  simp only [bind_ok] at h
  obtain ⟨v0, hv0, h⟩ := h
  rw [view_ok_iff, hv] at hv0
  have hv0 := Option.some.inj hv0
  subst hv0
  exact releaseLoop_wf v.vqs c c' 0 [] v h hw hv (by simp) (by simp) (by simp) (fun _ => hst)

end Fundraising.WFInv
