import Fundraising.Proofs.AcceptBase
/-
  C18, MsgPlaceBid.
-/
set_option linter.unusedSimpArgs false
set_option linter.unusedVariables false
namespace Fundraising
namespace AcceptAux

theorem place_accept_of_ok {c c' : Ctx} {bidder : Acc} {aid : Nat} {t : BidType} {price : Dec}
    {denom : Denom} {amt : Int} (hwf : WF c.s)
    (h : deliver c (.place bidder aid (some t) price denom amt) = .ok c') :
    AcceptPlace c.s bidder aid t price denom amt := by
  unfold deliver at h
  simp only [bind_ok, check_ok, handle] at h
  obtain ⟨_, hvb, h⟩ := h
  simp only [validateBasic, validCoin, Bool.and_eq_true, decide_eq_true_eq, Option.isSome_some] at hvb
  obtain ⟨⟨⟨⟨v1, v2⟩, v3, _⟩, v4⟩, _⟩ := hvb
  unfold placeBid at h
  simp only [bind_ok, check_ok, view_ok_iff, pure_ok] at h
  obtain ⟨v, hv, _, hst, _, hguard, h⟩ := h
  have hst := status_of_beq hst
  have hW := hwf.views aid v hv
  split at h
  · rename_i ab hab
    simp only [bind_ok, check_ok, view_ok_iff, pure_ok] at h
    obtain ⟨_, rfl, c1, hfee, ⟨c2, a', bid'⟩, hin, _⟩ := h
    obtain ⟨_, b, hb, rfl⟩ := bankCall_ok hfee
    refine ⟨v1, v2, ⟨v3, v4⟩, v, hv, hst, ab, hab, ?_⟩
    cases t with
    | fixed =>
      simp only [bind_ok, check_ok, pure_ok] at hin
      obtain ⟨_, h1, _, h2, _, h3, _, h4, _, h5, coins, hmk, c2', hbc, _⟩ := hin
      dsimp only
      have h1 := atype_of_beq h1
      simp only [Bool.or_eq_true, beq_iff_eq, Bool.not_eq_true', decide_eq_false_iff_not] at h2 h3 h4 h5
      have hpos := toPaying_pos ⟨aid, v.bidSeq + 1, bidder, .fixed, price, denom, amt, false⟩ v.a.payDenom v4 v2
      have hcov := reserve_inv hpos hmk hbc
      exact ⟨h1, h2, h3, by omega, by omega, b, hb, hcov⟩
    | worth =>
      simp only [bind_ok, check_ok, pure_ok] at hin
      obtain ⟨_, h1, _, h2, _, h3, coins, hmk, c2', hbc, _⟩ := hin
      dsimp only
      have h1 := atype_of_beq h1
      simp only [Bool.or_eq_true, beq_iff_eq, Bool.not_eq_true', decide_eq_false_iff_not] at h2 h3
      have hcov := reserve_inv v4 hmk hbc
      have hmin : v.a.minBid ≤ price := by
        simp only [h1, bne_self_eq_false, Bool.false_or, Bool.not_eq_true', decide_eq_false_iff_not] at hguard
        unfold Dec at *; omega
      exact ⟨h1, h2, hmin, by omega, b, hb, hcov⟩
    | many =>
      simp only [bind_ok, check_ok, pure_ok] at hin
      obtain ⟨_, h1, _, h2, _, h3, coins, hmk, c2', hbc, _⟩ := hin
      dsimp only
      have h1 := atype_of_beq h1
      simp only [Bool.or_eq_true, beq_iff_eq, Bool.not_eq_true', decide_eq_false_iff_not] at h2 h3
      have hpos := toPaying_pos ⟨aid, v.bidSeq + 1, bidder, .many, price, denom, amt, false⟩ v.a.payDenom v4 v2
      have hcov := reserve_inv hpos hmk hbc
      have hmin : v.a.minBid ≤ price := by
        simp only [h1, bne_self_eq_false, Bool.false_or, Bool.not_eq_true', decide_eq_false_iff_not] at hguard
        unfold Dec at *; omega
      have hne : denom ≠ v.a.payDenom := by rw [h2]; exact hW.auction.denomNe
      rw [Bid.toSelling_sell _ _ hne] at h3
      have h3 : ¬ amt > ab.cap := h3
      exact ⟨h1, h2, hmin, by omega, b, hb, hcov⟩
  · simp only [bind_ok, fail_ok] at h
    obtain ⟨_, h, _⟩ := h
    exact h.elim

theorem place_ok_of_accept {c : Ctx} {bidder : Acc} {aid : Nat} {t : BidType} {price : Dec}
    {denom : Denom} {amt : Int} (hwf : WF c.s) (hf : c.ctl.failhook = none) (hk : c.ctl.fault = none)
    (ha : AcceptPlace c.s bidder aid t price denom amt) :
    ∃ c', deliver c (.place bidder aid (some t) price denom amt) = .ok c' := by
  obtain ⟨v1, v2, ⟨v3, v4⟩, v, hv, hst, ab, hab, hrest⟩ := ha
  have hW := hwf.views aid v hv
  have hvb : validateBasic (.place bidder aid (some t) price denom amt) = true := by
    simp only [validateBasic, validCoin, Bool.and_eq_true, decide_eq_true_eq, Option.isSome_some]
    exact ⟨⟨⟨⟨v1, v2⟩, v3, by omega⟩, v4⟩, trivial⟩
  unfold deliver
  rw [bind_of_ok (check_of hvb)]
  show ∃ c', placeBid c bidder aid t price denom amt = .ok c'
  unfold placeBid
  rw [bind_of_ok (view_ok_iff.mpr hv), bind_of_ok (check_of (by simp [hst]))]
  cases t with
  | fixed =>
    dsimp only at hrest
    obtain ⟨h1, h2, h3, h4, h5, b, hb, hcov⟩ := hrest
    rw [bind_of_ok (check_of (by simp [h1]))]
    simp only [hab, pure_bind]
    rw [bind_of_ok (bankCall_of_send (by rw [hk]; simp) hb)]
    simp only [bind_assoc, pure_bind]
    rw [bind_of_ok (check_of (by simp [h1])), bind_of_ok (check_of (by simpa using h2)),
      bind_of_ok (check_of (by simp [h3])),
      bind_of_ok (check_of (by simp only [Bool.not_eq_true', decide_eq_false_iff_not]; omega)),
      bind_of_ok (check_of (by simp only [Bool.not_eq_true', decide_eq_false_iff_not]; omega))]
    have hpos := toPaying_pos ⟨aid, v.bidSeq + 1, bidder, .fixed, price, denom, amt, false⟩ v.a.payDenom v4 v2
    refine exists_reserve_bind hk hpos hcov ?_
    intro c2 h2 _
    refine exists_hook_bind (by rw [h2]; exact hf) ?_
    intro c3 _ _
    exact ⟨_, rfl⟩
  | worth =>
    dsimp only at hrest
    obtain ⟨h1, h2, h3, h4, b, hb, hcov⟩ := hrest
    rw [bind_of_ok (check_of (by
      simp only [h1, bne_self_eq_false, Bool.false_or, Bool.not_eq_true', decide_eq_false_iff_not]
      unfold Dec at *; omega))]
    simp only [hab, pure_bind]
    rw [bind_of_ok (bankCall_of_send (by rw [hk]; simp) hb)]
    simp only [bind_assoc, pure_bind]
    rw [bind_of_ok (check_of (by simp [h1])), bind_of_ok (check_of (by simpa using h2)),
      bind_of_ok (check_of (by simp only [Bool.not_eq_true', decide_eq_false_iff_not]; omega))]
    refine exists_reserve_bind hk v4 hcov ?_
    intro c2 h2 _
    refine exists_hook_bind (by rw [h2]; exact hf) ?_
    intro c3 _ _
    exact ⟨_, rfl⟩
  | many =>
    dsimp only at hrest
    obtain ⟨h1, h2, h3, h4, b, hb, hcov⟩ := hrest
    rw [bind_of_ok (check_of (by
      simp only [h1, bne_self_eq_false, Bool.false_or, Bool.not_eq_true', decide_eq_false_iff_not]
      unfold Dec at *; omega))]
    simp only [hab, pure_bind]
    rw [bind_of_ok (bankCall_of_send (by rw [hk]; simp) hb)]
    simp only [bind_assoc, pure_bind]
    have hne : denom ≠ v.a.payDenom := by rw [h2]; exact hW.auction.denomNe
    have hsell := Bid.toSelling_sell ⟨aid, v.bidSeq + 1, bidder, .many, price, denom, amt, false⟩ v.a.payDenom hne
    have hsell' : (Bid.mk aid (v.bidSeq + 1) bidder .many price denom amt false).toSelling v.a.payDenom = amt := hsell
    rw [bind_of_ok (check_of (by simp [h1])), bind_of_ok (check_of (by simpa using h2)),
      bind_of_ok (check_of (by
        simp only [Bool.not_eq_true', decide_eq_false_iff_not]; rw [hsell']; omega))]
    have hpos := toPaying_pos ⟨aid, v.bidSeq + 1, bidder, .many, price, denom, amt, false⟩ v.a.payDenom v4 v2
    refine exists_reserve_bind hk hpos hcov ?_
    intro c2 h2 _
    refine exists_hook_bind (by rw [h2]; exact hf) ?_
    intro c3 _ _
    exact ⟨_, rfl⟩

end AcceptAux
end Fundraising
