import Fundraising.Spec.Invariants
import Fundraising.Proofs.ExecLemmas
import Fundraising.Proofs.DecLemmas
import Fundraising.Proofs.LedgerMsgs
import Fundraising.Proofs.LedgerBlock
/-
  C02 — operations are zero-sum; the only debits of user accounts are the advertised fee and
  the reservation.  STATEMENTS ARE FIXED (cited by Props/C02.lean).
-/
namespace Fundraising

/-- the transfers in an effect log, in order -/
def xfersOf (effs : List Eff) : List Transfer :=
  effs.filterMap (fun e => match e with | .xfer t => some t | .hook .. => none)

/-- net change a transfer causes to (address, denom) -/
def Transfer.delta (t : Transfer) (a : Addr) (d : Denom) : Int :=
  let amt := ((t.coins.filter (·.denom == d)).map (·.amt)).sum
  (if a = t.dst then amt else 0) - (if a = t.src then amt else 0)

/-- the operation is one the module executes (message, keeper-API call, block) -/
def Op.isModuleOp : Op → Bool
  | .msg _ => true | .kadd .. => true | .kupd .. => true | .block _ => true | _ => false


/-! ### helpers (the fixed statements follow below) -/
namespace LedgerInv

theorem xfersOf_eq (l : List Eff) : xfersOf l = xfers l := rfl

theorem delta_eq (t : Transfer) (a : Addr) (d : Denom) : t.delta a d = tdelta t a d := rfl

theorem net_eq (xs : List Transfer) (a : Addr) (d : Denom) : (xs.map (·.delta a d)).sum = net xs a d := rfl

/-- an atomic run of a handler all of whose successful executions are accounted for by
    their logged transfers -/
theorem run_led (st : State) (recover : Bool) (f : Ctx → M Ctx)
    (hf : ∀ c', f { s := st.core, ctl := st.ctl } = .ok c' →
      ∃ xs, Led { s := st.core, ctl := st.ctl } c' xs) :
    ((runAtomic st recover f).1.res = .ok ∧
      ∀ a d, (runAtomic st recover f).2.core.bank a d =
        st.core.bank a d + net (xfers (runAtomic st recover f).1.effs) a d) ∨
    ((runAtomic st recover f).1.res ≠ .ok ∧ xfers (runAtomic st recover f).1.effs = [] ∧
      (runAtomic st recover f).2.core = st.core) := by
  rcases runAtomic_led st recover f with ⟨c, hc, hres, heffs, hcore⟩ | h
  · obtain ⟨xs, hl⟩ := hf c hc
    obtain ⟨hx, hb⟩ := hl.start
    refine Or.inl ⟨hres, ?_⟩
    intro a d
    rw [hcore, heffs, hx]
    exact hb a d
  · exact Or.inr h

/-- every module operation: accounted for on success, no transfer and no change on failure -/
theorem step_led (st : State) (op : Op) (hop : op.isModuleOp = true) :
    ((step st op).1.res = .ok ∧
      ∀ a d, (step st op).2.core.bank a d = st.core.bank a d + net (xfers (step st op).1.effs) a d) ∨
    ((step st op).1.res ≠ .ok ∧ xfers (step st op).1.effs = [] ∧ (step st op).2.core.bank = st.core.bank) := by
  cases op with
  | msg m =>
    rcases run_led st true (fun c => deliver c m) (fun c' h => deliver_led h) with h | ⟨h1, h2, h3⟩
    · exact Or.inl h
    · exact Or.inr ⟨h1, h2, by rw [show (step st (.msg m)).2.core = st.core from h3]⟩
  | kadd aid abs =>
    rcases run_led st true (fun c => addAllowedBidders c aid abs)
      (fun c' h => ⟨_, addAllowedBidders_led h⟩) with h | ⟨h1, h2, h3⟩
    · exact Or.inl h
    · exact Or.inr ⟨h1, h2, by rw [show (step st (.kadd aid abs)).2.core = st.core from h3]⟩
  | kupd aid u cap =>
    rcases run_led st true (fun c => updateAllowedBidder c aid u cap)
      (fun c' h => ⟨_, updateAllowedBidder_led h⟩) with h | ⟨h1, h2, h3⟩
    · exact Or.inl h
    · exact Or.inr ⟨h1, h2, by rw [show (step st (.kupd aid u cap)).2.core = st.core from h3]⟩
  | block t =>
    rcases run_led { st with core := { st.core with now := t } } false (fun c => beginBlock c t)
      (fun c' h => by obtain ⟨xs, hl, _⟩ := beginBlock_led h; exact ⟨xs, hl⟩) with h | ⟨h1, h2, h3⟩
    · exact Or.inl h
    · refine Or.inr ⟨h1, h2, ?_⟩
      rw [show (step st (.block t)).2.core = { st.core with now := t } from h3]
  | _ => simp [Op.isModuleOp] at hop

theorem sum_map_add {α : Type} (L : List α) (f g : α → Int) :
    (L.map (fun a => f a + g a)).sum = (L.map f).sum + (L.map g).sum := by
  induction L with
  | nil => rfl
  | cons x L ih => simp only [List.map_cons, List.sum_cons, ih]; omega

theorem sum_map_sub {α : Type} (L : List α) (f g : α → Int) :
    (L.map (fun a => f a - g a)).sum = (L.map f).sum - (L.map g).sum := by
  induction L with
  | nil => rfl
  | cons x L ih => simp only [List.map_cons, List.sum_cons, ih]; omega

theorem sum_indicator_notMem {α : Type} [DecidableEq α] (L : List α) (x : α) (m : Int) (h : x ∉ L) :
    (L.map (fun a => if a = x then m else 0)).sum = 0 := by
  induction L with
  | nil => rfl
  | cons y L ih =>
    have hy : y ≠ x := fun e => h (e ▸ List.mem_cons_self ..)
    have hL : x ∉ L := fun e => h (List.mem_cons_of_mem _ e)
    simp only [List.map_cons, List.sum_cons, ih hL, if_neg hy]; omega

theorem sum_indicator {α : Type} [DecidableEq α] (L : List α) (x : α) (m : Int) (hnd : L.Nodup) (h : x ∈ L) :
    (L.map (fun a => if a = x then m else 0)).sum = m := by
  induction L with
  | nil => cases h
  | cons y L ih =>
    rw [List.nodup_cons] at hnd
    simp only [List.map_cons, List.sum_cons]
    by_cases hy : y = x
    · subst hy
      rw [if_pos rfl, sum_indicator_notMem L y m hnd.1]; omega
    · rw [if_neg hy]
      rcases List.mem_cons.mp h with e | e
      · exact (hy e.symm).elim
      · rw [ih hnd.2 e]; omega

theorem tdelta_zero_sum (t : Transfer) (L : List Addr) (hnd : L.Nodup) (hs : t.src ∈ L) (hd : t.dst ∈ L)
    (d : Denom) : (L.map (fun a => tdelta t a d)).sum = 0 := by
  unfold tdelta
  rw [sum_map_sub, sum_indicator L t.dst _ hnd hd, sum_indicator L t.src _ hnd hs]; omega

/-- a successful message: the handler ran on the initial context after `ValidateBasic` -/
theorem msg_ok {st : State} {m : Msg} (hok : (step st (.msg m)).1.res = .ok) :
    ∃ c, validateBasic m = true ∧ handle { s := st.core, ctl := st.ctl } m = .ok c ∧
      (step st (.msg m)).1.effs = c.effs := by
  rcases runAtomic_led st true (fun c => deliver c m) with ⟨c, hc, _, heffs, _⟩ | ⟨h, _⟩
  · obtain ⟨hv, hh⟩ := deliver_ok hc
    exact ⟨c, hv, hh, heffs⟩
  · exact (h hok).elim

/-- an atomic run of a handler that logs no transfer -/
theorem run_no_xfers (st : State) (recover : Bool) (f : Ctx → M Ctx)
    (hf : ∀ c', f { s := st.core, ctl := st.ctl } = .ok c' → Led { s := st.core, ctl := st.ctl } c' []) :
    xfers (runAtomic st recover f).1.effs = [] := by
  rcases runAtomic_led st recover f with ⟨c, hc, _, heffs, _⟩ | ⟨_, h, _⟩
  · rw [heffs]; exact (hf c hc).start.1
  · exact h

end LedgerInv
open LedgerInv

/-- **ledger.**  After a successful module operation every balance is the old balance plus the
    net of the logged transfers: the module moves coins only through the logged bank calls —
    it never mints, burns or strands coins -/
theorem ledger_pointwise (st : State) (op : Op) (hop : op.isModuleOp = true)
    (hok : (step st op).1.res = .ok) (a : Addr) (d : Denom) :
    (step st op).2.core.bank a d = st.core.bank a d + ((xfersOf (step st op).1.effs).map (·.delta a d)).sum := by
  rcases step_led st op hop with ⟨_, h⟩ | ⟨h, _⟩
  · exact h a d
  · exact (h hok).elim

/-- a failed module operation changes no balance -/
theorem failed_op_no_transfer (st : State) (op : Op) (hop : op.isModuleOp = true)
    (h : (step st op).1.res ≠ .ok) : (step st op).2.core.bank = st.core.bank := by
  rcases step_led st op hop with ⟨h', _⟩ | ⟨_, _, h'⟩
  · exact (h h').elim
  · exact h'

/-- **zero-sum.**  Over any duplicate-free set of accounts that contains both ends of a
    transfer, the transfer's net effect is zero in every denomination -/
theorem delta_zero_sum (t : Transfer) (L : List Addr) (hnd : L.Nodup) (hs : t.src ∈ L) (hd : t.dst ∈ L)
    (d : Denom) : (L.map (fun a => t.delta a d)).sum = 0 := by
  exact tdelta_zero_sum t L hnd hs hd d

/-- third-party transfers are zero-sum too; `fund` (the faucet) is the only operation that
    changes the supply -/
theorem gift_zero_sum (st : State) (src : Acc) (dst : Addr) (d : Denom) (amt : Int)
    (L : List Addr) (hnd : L.Nodup) (hs : Addr.user src ∈ L) (hd : dst ∈ L) (d' : Denom) :
    (L.map (fun a => (step st (.gift src dst d amt)).2.core.bank a d')).sum =
    (L.map (fun a => st.core.bank a d')).sum := by
  simp only [step]
  split
  · rfl
  · split
    · rename_i b hb
      have hb' := sendCoins_delta hb
      have e : (fun a => b a d') = (fun a => st.core.bank a d' +
          tdelta ⟨.send, .user src, dst, [⟨d, amt⟩]⟩ a d') := by
        funext a; exact hb' a d'
      show (L.map (fun a => b a d')).sum = _
      rw [e, sum_map_add, tdelta_zero_sum _ L hnd hs hd d']; omega
    · rfl

/-! ### the only debits of user accounts -/

/-- creation: the advertised creation fee to the community pool, then the offered coin to
    the new auction's selling escrow; nothing else -/
theorem create_transfers (st : State) (m : CreateMsg) (hok : (step st (.msg (.create m))).1.res = .ok) :
    xfersOf (step st (.msg (.create m))).1.effs =
      [⟨.pool, .user m.auctioneer, .pool, st.core.params.creationFee⟩,
       ⟨.send, .user m.auctioneer, .sell st.core.views.length, [⟨m.sellDenom, m.sellAmt⟩]⟩] := by
  obtain ⟨c, hv, hh, heffs⟩ := msg_ok hok
  rw [heffs, xfersOf_eq, (createAuction_led hh).start.1]
  simp only [validateBasic, Bool.and_eq_true, decide_eq_true_eq] at hv
  have hpos : m.sellAmt > 0 := hv.1.1.1.1.1.2
  have hne : m.sellAmt ≠ 0 := by omega
  simp [hne]

/-- bid placement: the advertised bid fee to the pool, then the bid's reservation to the
    auction's paying escrow -/
theorem place_transfers (st : State) (bidder : Acc) (aid : Nat) (t : BidType) (price : Dec)
    (denom : Denom) (amt : Int) (v : AView) (hv : st.core.views[aid]? = some v)
    (hok : (step st (.msg (.place bidder aid (some t) price denom amt))).1.res = .ok) :
    let bid : Bid := { auction := aid, id := v.bidSeq + 1, bidder := bidder, type := t, price := price,
                       denom := denom, amt := amt, matched := false }
    let r := bid.toPaying v.a.payDenom
    xfersOf (step st (.msg (.place bidder aid (some t) price denom amt))).1.effs =
      [⟨.pool, .user bidder, .pool, st.core.params.bidFee⟩,
       ⟨.send, .user bidder, .pay aid, if r = 0 then [] else [⟨v.a.payDenom, r⟩]⟩] := by
  intro bid r
  obtain ⟨c, _, hh, heffs⟩ := msg_ok hok
  obtain ⟨v', hv', hl⟩ := placeBid_led hh
  have e : v' = v := by
    have : some v' = some v := hv'.symm.trans hv
    exact Option.some.inj this
  subst e
  rw [heffs, xfersOf_eq, hl.start.1]

/-- modification: nothing, or the increase of the reservation to the paying escrow -/
theorem modify_transfers (st : State) (bidder : Acc) (aid bidId : Nat) (price : Dec) (denom : Denom)
    (amt : Int) (hok : (step st (.msg (.modify bidder aid bidId price denom amt))).1.res = .ok) :
    xfersOf (step st (.msg (.modify bidder aid bidId price denom amt))).1.effs = [] ∨
    ∃ d x, 0 < x ∧ xfersOf (step st (.msg (.modify bidder aid bidId price denom amt))).1.effs =
      [⟨.send, .user bidder, .pay aid, [⟨d, x⟩]⟩] := by
  obtain ⟨c, _, hh, heffs⟩ := msg_ok hok
  rw [heffs, xfersOf_eq]
  rcases modifyBid_led hh with hl | ⟨d, x, hx, hl⟩
  · exact Or.inl hl.start.1
  · exact Or.inr ⟨d, x, hx, hl.start.1⟩

/-- cancel: one transfer, out of the selling escrow to the auctioneer -/
theorem cancel_transfers (st : State) (signer : Acc) (aid : Nat)
    (hok : (step st (.msg (.cancel signer aid))).1.res = .ok) :
    ∃ coins, xfersOf (step st (.msg (.cancel signer aid))).1.effs = [⟨.send, .sell aid, .user signer, coins⟩] := by
  obtain ⟨c, _, hh, heffs⟩ := msg_ok hok
  obtain ⟨coins, hl⟩ := cancelAuction_led hh
  exact ⟨coins, by rw [heffs, xfersOf_eq, hl.start.1]⟩

/-- allow-list operations and parameter changes move no coins -/
theorem admin_no_transfers (st : State) (op : Op)
    (hop : (∃ a abs, op = .kadd a abs) ∨ (∃ a u c, op = .kupd a u c) ∨ (∃ s p, op = .msg (.updateParams s p))
           ∨ (∃ a ab, op = .msg (.addAllowed a ab))) :
    xfersOf (step st op).1.effs = [] := by
  rcases hop with ⟨a, abs, rfl⟩ | ⟨a, u, c, rfl⟩ | ⟨sg, p, rfl⟩ | ⟨a, ab, rfl⟩
  · exact run_no_xfers st true _ (fun c' h => addAllowedBidders_led h)
  · exact run_no_xfers st true _ (fun c' h => updateAllowedBidder_led h)
  · exact run_no_xfers st true _ (fun c' h => updateParams_led (deliver_ok h).2)
  · exact run_no_xfers st true _ (fun c' h => addAllowed_led (deliver_ok h).2)

/-- blocks: every transfer leaves an escrow of some auction (never a user account) and goes
    to a user account or from the paying to the vesting escrow of the same auction -/
theorem block_transfers (st : State) (t : Int) :
    ∀ x ∈ xfersOf (step st (.block t)).1.effs,
      (∃ i u, (x.src = .sell i ∨ x.src = .pay i ∨ x.src = .vest i) ∧ x.dst = .user u) ∨
      (∃ i, x.src = .pay i ∧ x.dst = .vest i) := by
  intro x hx
  have hx : x ∈ xfers (runAtomic { st with core := { st.core with now := t } } false
      (fun c => beginBlock c t)).1.effs := hx
  rcases runAtomic_led { st with core := { st.core with now := t } } false (fun c => beginBlock c t)
    with ⟨c, hc, _, heffs, _⟩ | ⟨_, h, _⟩
  · obtain ⟨xs, hl, hp⟩ := beginBlock_led hc
    rw [heffs, hl.start.1] at hx
    exact hp x hx
  · rw [h] at hx; cases hx

end Fundraising
