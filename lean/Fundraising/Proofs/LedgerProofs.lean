import Fundraising.Spec.Invariants
import Fundraising.Proofs.ExecLemmas
import Fundraising.Proofs.DecLemmas
/-
  C02 — operations are zero-sum; the only debits of user accounts are the advertised fee and
  the reservation.  STATEMENTS ARE FIXED (cited by Props/C02.lean).
-/
namespace Fundraising

/-- the transfers in an effect log, in order -/
def xfersOf (effs : List Eff) : List Transfer :=
  effs.filterMap (fun e => match e with | .xfer t => some t | .hook .. => none)

/-- net change a transfer causes to (address, denom) -/
def Transfer.delta (t : Transfer) (a : Addr) (d : Denom) : Int :=
  let amt := ((t.coins.filter (·.denom == d)).map (·.amt)).sum
  (if a = t.dst then amt else 0) - (if a = t.src then amt else 0)

/-- the operation is one the module executes (message, keeper-API call, block) -/
def Op.isModuleOp : Op → Bool
  | .msg _ => true | .kadd .. => true | .kupd .. => true | .block _ => true | _ => false

/-- **ledger.**  After a successful module operation every balance is the old balance plus the
    net of the logged transfers: the module moves coins only through the logged bank calls —
    it never mints, burns or strands coins -/
theorem ledger_pointwise (st : State) (op : Op) (hop : op.isModuleOp = true)
    (hok : (step st op).1.res = .ok) (a : Addr) (d : Denom) :
    (step st op).2.core.bank a d = st.core.bank a d + ((xfersOf (step st op).1.effs).map (·.delta a d)).sum := by
  sorry

/-- a failed module operation changes no balance -/
theorem failed_op_no_transfer (st : State) (op : Op) (hop : op.isModuleOp = true)
    (h : (step st op).1.res ≠ .ok) : (step st op).2.core.bank = st.core.bank := by
  sorry

/-- **zero-sum.**  Over any duplicate-free set of accounts that contains both ends of a
    transfer, the transfer's net effect is zero in every denomination -/
theorem delta_zero_sum (t : Transfer) (L : List Addr) (hnd : L.Nodup) (hs : t.src ∈ L) (hd : t.dst ∈ L)
    (d : Denom) : (L.map (fun a => t.delta a d)).sum = 0 := by
  sorry

/-- third-party transfers are zero-sum too; `fund` (the faucet) is the only operation that
    changes the supply -/
theorem gift_zero_sum (st : State) (src : Acc) (dst : Addr) (d : Denom) (amt : Int)
    (L : List Addr) (hnd : L.Nodup) (hs : Addr.user src ∈ L) (hd : dst ∈ L) (d' : Denom) :
    (L.map (fun a => (step st (.gift src dst d amt)).2.core.bank a d')).sum =
    (L.map (fun a => st.core.bank a d')).sum := by
  sorry

/-! ### the only debits of user accounts -/

/-- creation: the advertised creation fee to the community pool, then the offered coin to
    the new auction's selling escrow; nothing else -/
theorem create_transfers (st : State) (m : CreateMsg) (hok : (step st (.msg (.create m))).1.res = .ok) :
    xfersOf (step st (.msg (.create m))).1.effs =
      [⟨.pool, .user m.auctioneer, .pool, st.core.params.creationFee⟩,
       ⟨.send, .user m.auctioneer, .sell st.core.views.length, [⟨m.sellDenom, m.sellAmt⟩]⟩] := by
  sorry

/-- bid placement: the advertised bid fee to the pool, then the bid's reservation to the
    auction's paying escrow -/
theorem place_transfers (st : State) (bidder : Acc) (aid : Nat) (t : BidType) (price : Dec)
    (denom : Denom) (amt : Int) (v : AView) (hv : st.core.views[aid]? = some v)
    (hok : (step st (.msg (.place bidder aid (some t) price denom amt))).1.res = .ok) :
    let bid : Bid := { auction := aid, id := v.bidSeq + 1, bidder := bidder, type := t, price := price,
                       denom := denom, amt := amt, matched := false }
    let r := bid.toPaying v.a.payDenom
    xfersOf (step st (.msg (.place bidder aid (some t) price denom amt))).1.effs =
      [⟨.pool, .user bidder, .pool, st.core.params.bidFee⟩,
       ⟨.send, .user bidder, .pay aid, if r = 0 then [] else [⟨v.a.payDenom, r⟩]⟩] := by
  sorry

/-- modification: nothing, or the increase of the reservation to the paying escrow -/
theorem modify_transfers (st : State) (bidder : Acc) (aid bidId : Nat) (price : Dec) (denom : Denom)
    (amt : Int) (hok : (step st (.msg (.modify bidder aid bidId price denom amt))).1.res = .ok) :
    xfersOf (step st (.msg (.modify bidder aid bidId price denom amt))).1.effs = [] ∨
    ∃ d x, 0 < x ∧ xfersOf (step st (.msg (.modify bidder aid bidId price denom amt))).1.effs =
      [⟨.send, .user bidder, .pay aid, [⟨d, x⟩]⟩] := by
  sorry

/-- cancel: one transfer, out of the selling escrow to the auctioneer -/
theorem cancel_transfers (st : State) (signer : Acc) (aid : Nat)
    (hok : (step st (.msg (.cancel signer aid))).1.res = .ok) :
    ∃ coins, xfersOf (step st (.msg (.cancel signer aid))).1.effs = [⟨.send, .sell aid, .user signer, coins⟩] := by
  sorry

/-- allow-list operations and parameter changes move no coins -/
theorem admin_no_transfers (st : State) (op : Op)
    (hop : (∃ a abs, op = .kadd a abs) ∨ (∃ a u c, op = .kupd a u c) ∨ (∃ s p, op = .msg (.updateParams s p))
           ∨ (∃ a ab, op = .msg (.addAllowed a ab))) :
    xfersOf (step st op).1.effs = [] := by
  sorry

/-- blocks: every transfer leaves an escrow of some auction (never a user account) and goes
    to a user account or from the paying to the vesting escrow of the same auction -/
theorem block_transfers (st : State) (t : Int) :
    ∀ x ∈ xfersOf (step st (.block t)).1.effs,
      (∃ i u, (x.src = .sell i ∨ x.src = .pay i ∨ x.src = .vest i) ∧ x.dst = .user u) ∨
      (∃ i, x.src = .pay i ∧ x.dst = .vest i) := by
  sorry

end Fundraising
