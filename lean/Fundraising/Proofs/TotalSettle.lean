import Fundraising.Proofs.TotalBank
import Fundraising.Proofs.VestingLemmas
import Fundraising.Proofs.MatchList
/-
  C07 helpers, part 5: each settlement handler succeeds when its transfers are covered.
-/
namespace Fundraising

theorem XFrame.of_eq {src : Addr} {c c' : Ctx} (hs : c'.s = c.s) (hc : c'.ctl = c.ctl) :
    XFrame src c c' :=
  ⟨hc, by rw [hs], fun h => by rw [hs]; exact h, fun _ _ _ _ => by rw [hs]⟩

theorem allocateSellingCoin_ok (c : Ctx) (hf : c.ctl.fault = none) (hh : c.ctl.failhook = none)
    (a : Auction) (mi : MInfo) (h0 : ∀ p ∈ mi.alloc, 0 ≤ p.2)
    (hsum : (mi.alloc.map (·.2)).sum ≤ c.s.bank (.sell a.id) a.sellDenom) :
    ∃ c', allocateSellingCoin c a mi = .ok c' ∧ XFrame (.sell a.id) c c' := by
  unfold allocateSellingCoin
  obtain ⟨c1, h1⟩ := hook_of_no_fail c "BeforeSellingCoinsAllocated"
    ([rNat a.id] ++ rAmtMap mi.alloc ++ rAmtMap mi.refund) hh
  obtain ⟨hs, hc, _, _⟩ := hook_ok h1
  rw [h1, ok_bind]
  obtain ⟨c2, h2, hx⟩ := payOut_ok (.sell a.id) (fun u e => by cases e) a.sellDenom mi.alloc c1
    (by rw [hc]; exact hf) h0 (by rw [hs]; exact hsum)
  exact ⟨c2, h2, (XFrame.of_eq hs hc).trans hx⟩

theorem refundRemainingSellingCoin_ok (c : Ctx) (hf : c.ctl.fault = none) (a : Auction)
    (hnn : BankNonneg c.s) :
    ∃ c', refundRemainingSellingCoin c a = .ok c' ∧ XFrame (.sell a.id) c c' := by
  unfold refundRemainingSellingCoin
  have h0 : 0 ≤ c.bal (.sell a.id) a.sellDenom := hnn _ _
  rw [mkCoins_of_nonneg c _ _ h0, ok_bind]
  obtain ⟨c1, h1, hx, _⟩ := send_user_ok c hf .send (.sell a.id) a.auctioneer
    (fun u e => by cases e) a.sellDenom _ h0 (Int.le_refl _)
  exact ⟨c1, h1, hx⟩

theorem refundPayingCoin_ok (c : Ctx) (hf : c.ctl.fault = none) (a : Auction) (mi : MInfo)
    (h0 : ∀ p ∈ mi.refund, 0 ≤ p.2)
    (hsum : (mi.refund.map (·.2)).sum ≤ c.s.bank (.pay a.id) a.payDenom) :
    ∃ c', refundPayingCoin c a mi = .ok c' ∧ XFrame (.pay a.id) c c' :=
  payOut_ok (.pay a.id) (fun u e => by cases e) a.payDenom mi.refund c hf h0 hsum

theorem applyVestingSchedules_ok (c : Ctx) (hf : c.ctl.fault = none) (aid : Nat) (v : AView)
    (hv : c.s.views[aid]? = some v) (hnn : BankNonneg c.s) (e : Int)
    (hs : validSchedules v.a.schedules e = true) :
    ∃ c', applyVestingSchedules c aid = .ok c' ∧ Frame aid c c' := by
  unfold applyVestingSchedules
  rw [view_of_get hv, ok_bind]
  simp only []
  have h0 : 0 ≤ c.bal (.pay aid) v.a.payDenom := hnn _ _
  rw [mkCoins_of_nonneg c _ _ h0, ok_bind]
  by_cases he : v.a.schedules.isEmpty = true
  · rw [if_pos he]
    obtain ⟨c1, h1, hx, _⟩ := send_user_ok c hf .send (.pay aid) v.a.auctioneer
      (fun u e => by cases e) v.a.payDenom _ h0 (Int.le_refl _)
    rw [h1, ok_bind]
    exact ⟨_, rfl, (hx.frame (Or.inr (Or.inl rfl))).trans (setView_frame aid c1 _)⟩
  · rw [if_neg he]
    obtain ⟨c1, h1, hc, hvw, hb⟩ := bankCall_amt c hf .send (.pay aid) (.vest aid) v.a.payDenom
      (c.bal (.pay aid) v.a.payDenom) (Int.le_refl _)
    rw [h1, ok_bind]
    have hne : v.a.schedules ≠ [] := fun e => he (by rw [e]; rfl)
    obtain ⟨hvw', _, _⟩ := validSchedules_spec v.a.schedules e hne hs
    obtain ⟨parts, hp, _⟩ := splitLoop_spec (c.bal (.pay aid) v.a.payDenom) v.a.schedules h0 hvw'
    rw [hp]
    refine ⟨_, rfl, Frame.trans ?_ (setView_frame aid c1 _)⟩
    refine ⟨hc, by rw [hvw], fun j _ => by rw [hvw], ?_, ?_, ?_, ?_⟩
    · intro hn a d'
      have := hn a d'
      have h0' : 0 ≤ c.s.bank (.pay aid) v.a.payDenom := h0
      rw [hb]
      show 0 ≤ c.s.bank a d' - (if a = Addr.pay aid ∧ d' = v.a.payDenom then
          c.s.bank (.pay aid) v.a.payDenom else 0) + (if a = Addr.vest aid ∧ d' = v.a.payDenom then
          c.s.bank (.pay aid) v.a.payDenom else 0)
      by_cases ha : a = Addr.pay aid ∧ d' = v.a.payDenom
      · obtain ⟨rfl, rfl⟩ := ha
        rw [if_pos ⟨rfl, rfl⟩, if_neg (fun e => by cases e.1)]
        omega
      · rw [if_neg ha]
        split <;> omega
    · intro j hj d
      rw [hb, if_neg (fun e => by cases e.1), if_neg (fun e => by cases e.1)]
      omega
    · intro j hj d
      rw [hb, if_neg (fun e => hj (by cases e.1; rfl)), if_neg (fun e => by cases e.1)]
      omega
    · intro j hj d
      rw [hb, if_neg (fun e => by cases e.1), if_neg (fun e => hj (by cases e.1; rfl))]
      omega

theorem closeFixed_ok (c : Ctx) (hf : c.ctl.fault = none) (hh : c.ctl.failhook = none)
    (aid : Nat) (v : AView) (hv : c.s.views[aid]? = some v) (hid : v.a.id = aid)
    (hnn : BankNonneg c.s) (e : Int) (hs : validSchedules v.a.schedules e = true)
    (h0 : ∀ p ∈ (calcFixed v.a v.bids).alloc, 0 ≤ p.2)
    (hsum : ((calcFixed v.a v.bids).alloc.map (·.2)).sum ≤ c.s.bank (.sell aid) v.a.sellDenom) :
    ∃ c', closeFixed c aid = .ok c' ∧ Frame aid c c' := by
  unfold closeFixed
  rw [view_of_get hv, ok_bind]
  simp only []
  obtain ⟨c1, h1, hx1⟩ := allocateSellingCoin_ok c hf hh v.a _ h0 (by rw [hid]; exact hsum)
  rw [h1, ok_bind]
  obtain ⟨c2, h2, hx2⟩ := refundRemainingSellingCoin_ok c1 (by rw [hx1.ctl]; exact hf) v.a
    (hx1.nonneg hnn)
  rw [h2, ok_bind]
  have hx := hx1.trans hx2
  rw [hid] at hx
  obtain ⟨c3, h3, hfr⟩ := applyVestingSchedules_ok c2 (by rw [hx.ctl]; exact hf) aid v
    (by rw [hx.views]; exact hv) (hx.nonneg hnn) e hs
  exact ⟨c3, h3, (hx.frame (Or.inl rfl)).trans hfr⟩

theorem extendRound_ok (c : Ctx) (aid : Nat) (v : AView) (hv : c.s.views[aid]? = some v) :
    ∃ c', extendRound c aid = .ok c' ∧ Frame aid c c' := by
  unfold extendRound
  rw [view_of_get hv, ok_bind]
  exact ⟨_, rfl, setView_frame aid c _⟩

theorem settleBatch_ok (c : Ctx) (hf : c.ctl.fault = none) (hh : c.ctl.failhook = none)
    (aid : Nat) (v : AView) (hv : c.s.views[aid]? = some v) (hid : v.a.id = aid)
    (hnn : BankNonneg c.s) (e : Int) (hs : validSchedules v.a.schedules e = true) (mi : MInfo)
    (h0 : ∀ p ∈ mi.alloc, 0 ≤ p.2)
    (hsum : (mi.alloc.map (·.2)).sum ≤ c.s.bank (.sell aid) v.a.sellDenom)
    (r0 : ∀ p ∈ mi.refund, 0 ≤ p.2)
    (rsum : (mi.refund.map (·.2)).sum ≤ c.s.bank (.pay aid) v.a.payDenom) :
    ∃ c', settleBatch c aid mi = .ok c' ∧ Frame aid c c' := by
  unfold settleBatch
  rw [view_of_get hv, ok_bind]
  obtain ⟨c1, h1, hx1⟩ := allocateSellingCoin_ok c hf hh v.a _ h0 (by rw [hid]; exact hsum)
  rw [h1, ok_bind]
  obtain ⟨c2, h2, hx2⟩ := refundRemainingSellingCoin_ok c1 (by rw [hx1.ctl]; exact hf) v.a
    (hx1.nonneg hnn)
  rw [h2, ok_bind]
  have hx := hx1.trans hx2
  rw [hid] at hx
  have hpay : c2.s.bank (.pay aid) v.a.payDenom = c.s.bank (.pay aid) v.a.payDenom :=
    hx.other _ (fun e => by cases e) (fun u e => by cases e) _
  obtain ⟨c3, h3, hx3⟩ := refundPayingCoin_ok c2 (by rw [hx.ctl]; exact hf) v.a mi r0
    (by rw [hid, hpay]; exact rsum)
  rw [h3, ok_bind]
  rw [hid] at hx3
  have hv3 : c3.s.views[aid]? = some v := by rw [hx3.views, hx.views]; exact hv
  rw [view_of_get hv3, ok_bind]
  simp only []
  have hf3 : c3.ctl.fault = none := by rw [hx3.ctl, hx.ctl]; exact hf
  have hn3 : BankNonneg c3.s := hx3.nonneg (hx.nonneg hnn)
  obtain ⟨c4, h4, hfr⟩ := applyVestingSchedules_ok
    (c3.setView aid { v with a := { v.a with matchedPrice := if mi.total > 0 then mi.price else 0 } })
    hf3 aid _ (setView_get aid c3 _ (lt_of_get hv3)) hn3 e hs
  exact ⟨c4, h4, ((hx.frame (Or.inl rfl)).trans (hx3.frame (Or.inr (Or.inl rfl)))).trans
    ((setView_frame aid c3 _).trans hfr)⟩

/-- `closeBatch`, given what `calcBatch` returns -/
theorem closeBatch_ok (c : Ctx) (hf : c.ctl.fault = none) (hh : c.ctl.failhook = none)
    (aid : Nat) (v : AView) (hv : c.s.views[aid]? = some v) (hid : v.a.id = aid)
    (hnn : BankNonneg c.s) (e : Int) (hs : validSchedules v.a.schedules e = true) (mi : MInfo)
    (hmi : calcBatch v.a v.bids v.allowed = some mi)
    (h0 : ∀ p ∈ mi.alloc, 0 ≤ p.2)
    (hsum : (mi.alloc.map (·.2)).sum ≤ c.s.bank (.sell aid) v.a.sellDenom)
    (r0 : ∀ p ∈ mi.refund, 0 ≤ p.2)
    (rsum : (mi.refund.map (·.2)).sum ≤ c.s.bank (.pay aid) v.a.payDenom) :
    ∃ c', closeBatch c aid = .ok c' ∧ Frame aid c c' := by
  unfold closeBatch
  rw [view_of_get hv, ok_bind]
  simp only [hmi, pure_eq_ok, ok_bind]
  have hlt := lt_of_get hv
  have hsettle := settleBatch_ok
    (c.setView aid { v with
      bids := v.bids.map (fun b => { b with matched := mi.matchedIds.contains b.id }),
      matchedLen := mi.matchedLen })
    hf hh aid _ (setView_get aid c _ hlt) hid hnn e hs mi h0 hsum r0 rsum
  have hext := extendRound_ok
    (c.setView aid { v with
      bids := v.bids.map (fun b => { b with matched := mi.matchedIds.contains b.id }),
      matchedLen := mi.matchedLen })
    aid _ (setView_get aid c _ hlt)
  have hfr0 := setView_frame aid c { v with
      bids := v.bids.map (fun b => { b with matched := mi.matchedIds.contains b.id }),
      matchedLen := mi.matchedLen }
  split
  · obtain ⟨c', h1, h2⟩ := hsettle
    exact ⟨c', h1, hfr0.trans h2⟩
  · split
    · obtain ⟨c', h1, h2⟩ := hext
      exact ⟨c', h1, hfr0.trans h2⟩
    · split
      · obtain ⟨c', h1, h2⟩ := hext
        exact ⟨c', h1, hfr0.trans h2⟩
      · obtain ⟨c', h1, h2⟩ := hsettle
        exact ⟨c', h1, hfr0.trans h2⟩

end Fundraising
