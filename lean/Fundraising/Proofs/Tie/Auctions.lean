import Fundraising.Generated.Code.Auctions
import Fundraising.Tables.GoRun
import Fundraising.Proofs.Tie.Pure
import Fundraising.Proofs.ExecLemmas
/-
  Tie of the translated `Keeper.CancelAuction`, `Keeper.AddAllowedBidders`,
  `Keeper.UpdateAllowedBidder` and `msgServer.AddAllowedBidder` (keeper/auction.go,
  keeper/msg_server.go) to the hand-written handlers of Model/Keeper.lean.
-/
namespace Fundraising
open Fundraising.Gen Fundraising.Go
set_option linter.unusedSimpArgs false

/-- **CancelAuction.**  `hid`: the stored auction carries its own key (`ViewWF.id`). -/
theorem tie_CancelAuction (c : Ctx) (signer : Acc) (aid : Nat) (v : AView) (hv : c.s.views[aid]? = some v)
    (hid : v.a.id = aid) :
    cancelAuction c signer aid = Go.runPlan c aid v (Gen.CancelAuction ⟨signer, aid⟩ (rdAuction c.s) c.s.bank) := by
  subst hid
  have hA : rdAuction c.s (v.a.id : Int) = (v.a, false) := by simp [rdAuction, hv]
  unfold cancelAuction Gen.CancelAuction
  simp only [Ctx.view, hv, Ctx.bal, hA]
  by_cases h1 : v.a.auctioneer = signer
  · subst h1
    by_cases h2 : v.a.status = Status.standby
    · cases hty : v.a.type <;>
      simp [runPlan, applyEff, dstOf, bind, Except.bind, pure, Except.pure, Ctx.fail, Ctx.check, h2, hty] <;>
      (cases hmk : mkCoins c v.a.sellDenom (c.s.bank (.sell v.a.id) v.a.sellDenom) with
      | error e => simp
      | ok coins =>
        simp
        cases hb : c.bankCall .send (.sell v.a.id) (.user v.a.auctioneer) coins with
        | error e => simp
        | ok c1 =>
          simp
          cases hh : c1.hook "BeforeAuctionCanceled" [rNat v.a.id, rAcc v.a.auctioneer] with
          | error e => simp
          | ok c2 => simp)
    · simp [runPlan, bind, Except.bind, pure, Except.pure, Ctx.fail, Ctx.check, h2]
  · simp [runPlan, bind, Except.bind, pure, Except.pure, Ctx.fail, Ctx.check, h1]

theorem tie_CancelAuction_noAuction (c : Ctx) (signer : Acc) (aid : Nat) (hv : c.s.views[aid]? = none)
    (bal : Addr → Denom → Int) :
    cancelAuction c signer aid = c.fail ∧ Gen.CancelAuction ⟨signer, aid⟩ (rdAuction c.s) bal = (true, []) := by
  have hA : rdAuction c.s (aid : Int) = (default, true) := by simp [rdAuction, hv]
  unfold cancelAuction Gen.CancelAuction
  simp [Ctx.view, hv, Ctx.fail, bind, Except.bind, hA]

/-! ### the loop of `AddAllowedBidders` -/

private theorem runEffs_append (l1 l2 : List GEff) (c : Ctx) (v : AView) :
    runEffs (l1 ++ l2) c v = (runEffs l1 c v >>= fun p => runEffs l2 p.1 p.2) := by
  induction l1 generalizing c v with
  | nil => simp [bind, Except.bind, pure, Except.pure]
  | cons e es ih =>
    simp only [List.cons_append, runEffs_cons, ih]
    cases applyEff e c v <;> simp [bind, Except.bind]

/-- the plan a finished / interrupted loop stands for -/
private def loopPlan : Loop (Bool × List GEff) (List GEff) → Bool × List GEff
  | .ret r => r
  | .done e => (false, e)

private theorem addLoop_run (a : Auction) (aid : Nat) (err : Bool) (abs : List AllowedArg) (effs : List GEff)
    (c0 : Ctx) (v0 : AView) (hid : v0.a.id = aid) :
    runPlan c0 aid v0 (loopPlan (AddAllowedBidders.loop1 a (aid : Int) err abs effs)) =
      (runEffs effs c0 v0 >>= fun p => do
        let l ← addLoop p.1 a.sellAmt abs p.2.allowed
        pure (p.1.setView aid { p.2 with allowed := l })) := by
  induction abs generalizing effs with
  | nil =>
    simp [AddAllowedBidders.loop1, loopPlan, runPlan, addLoop]
  | cons ab rest ih =>
    unfold AddAllowedBidders.loop1 addLoop
    simp only [tie_AllowedBidder_Validate]
    by_cases h1 : validAcc ab.bidder = true
    · by_cases h2 : ab.cap > 0
      · by_cases h3 : ab.cap > a.sellAmt
        · simp [h1, h2, h3, loopPlan, runPlan, Ctx.check, Ctx.fail]
          cases runEffs effs c0 v0 <;> simp [bind, Except.bind, pure, Except.pure]
        · simp only [h1, h2, h3, sellingCoin_amt, decide_true, decide_false, Bool.and_self, Bool.not_true,
            Bool.false_eq_true, if_false, ih, runEffs_append]
          cases hr : runEffs effs c0 v0 with
          | error e => simp [bind, Except.bind, pure, Except.pure]
          | ok p =>
            have hp : p.2.a.id = aid := by
              rw [runEffs_id effs c0 v0 p.1 p.2 hr, hid]
            simp [bind, Except.bind, pure, Except.pure, applyEff, Ctx.check, setAllowedArg, hp]
      · simp [h1, h2, loopPlan, runPlan, Ctx.check, Ctx.fail]
        cases runEffs effs c0 v0 <;> simp [bind, Except.bind, pure, Except.pure]
    · simp [h1, loopPlan, runPlan, Ctx.check, Ctx.fail]
      cases runEffs effs c0 v0 <;> simp [bind, Except.bind, pure, Except.pure]

/-- **AddAllowedBidders** (keeper API). -/
theorem tie_AddAllowedBidders (c : Ctx) (aid : Nat) (abs : List AllowedArg) (v : AView) (hv : c.s.views[aid]? = some v)
    (hid : v.a.id = aid) :
    addAllowedBidders c aid abs = Go.runPlan c aid v (Gen.AddAllowedBidders (aid : Int) abs (rdAuction c.s)) := by
  have key := addLoop_run v.a aid false abs [GEff.mk GName.beforeAllowedBiddersAdded [GVal.allowed abs]] c v hid
  have hA : rdAuction c.s (aid : Int) = (v.a, false) := by simp [rdAuction, hv]
  unfold addAllowedBidders Gen.AddAllowedBidders
  simp only [Ctx.view, hv, hA]
  cases abs with
  | nil => simp [runPlan, Ctx.check, Ctx.fail, bind, Except.bind, pure, Except.pure]
  | cons ab rest =>
    have hne : ¬ (((ab :: rest).length : Int) = 0) := by simp; omega
    simp only [hne, decide_false, if_false, Bool.false_eq_true, List.nil_append]
    show _ = runPlan c aid v (loopPlan _)
    rw [key]
    simp [applyEff, Ctx.check, bind, Except.bind, pure, Except.pure]
    cases c.hook "BeforeAllowedBiddersAdded" (rAllowedArgs (ab :: rest)) <;> simp

theorem tie_AddAllowedBidders_noAuction (c : Ctx) (aid : Nat) (abs : List AllowedArg) (hv : c.s.views[aid]? = none) :
    addAllowedBidders c aid abs = c.fail ∧ Gen.AddAllowedBidders (aid : Int) abs (rdAuction c.s) = (true, []) := by
  have hA : rdAuction c.s (aid : Int) = (default, true) := by simp [rdAuction, hv]
  unfold addAllowedBidders Gen.AddAllowedBidders
  simp only [Ctx.view, hv, hA]
  cases abs <;> simp [Ctx.check, Ctx.fail, bind, Except.bind, pure, Except.pure]

/-- **UpdateAllowedBidder** (keeper API).  `hacc`: callers pass a real account address (the Go
    parameter is an `sdk.AccAddress`, not a string to be parsed). -/
theorem tie_UpdateAllowedBidder (c : Ctx) (aid : Nat) (bidder : Acc) (cap : Int) (hacc : validAcc bidder = true)
    (v : AView) (hv : c.s.views[aid]? = some v) (hid : v.a.id = aid) :
    updateAllowedBidder c aid bidder cap =
      Go.runPlan c aid v (Gen.UpdateAllowedBidder (aid : Int) bidder cap (rdAuction c.s) (rdAllowed c.s)) := by
  subst hid
  have hA : rdAuction c.s (v.a.id : Int) = (v.a, false) := by simp [rdAuction, hv]
  have hB : rdAllowed c.s (v.a.id : Int) bidder =
      ((lookupAllowed v.allowed bidder).getD default, (lookupAllowed v.allowed bidder).isNone) := by
    simp [rdAllowed, hv]
  unfold updateAllowedBidder Gen.UpdateAllowedBidder
  simp only [Ctx.view, hv, tie_AllowedBidder_Validate, hacc, hA, hB]
  cases hl : lookupAllowed v.allowed bidder with
  | none => simp [runPlan, Ctx.check, Ctx.fail, bind, Except.bind, pure, Except.pure, hl]
  | some x =>
    by_cases h2 : cap > 0
    · simp [runPlan, applyEff, setAllowedArg, Ctx.check, Ctx.fail, bind, Except.bind, pure, Except.pure, h2, hl]
      cases c.hook "BeforeAllowedBidderUpdated" [rNat v.a.id, rAcc bidder, rInt cap] <;> simp
    · simp [runPlan, Ctx.check, Ctx.fail, bind, Except.bind, pure, Except.pure, h2, hl]

theorem tie_UpdateAllowedBidder_noAuction (c : Ctx) (aid : Nat) (bidder : Acc) (cap : Int) (hv : c.s.views[aid]? = none)
    (ab : Int → Acc → Allowed × Bool) :
    updateAllowedBidder c aid bidder cap = c.fail ∧
    Gen.UpdateAllowedBidder (aid : Int) bidder cap (rdAuction c.s) ab = (true, []) := by
  have hA : rdAuction c.s (aid : Int) = (default, true) := by simp [rdAuction, hv]
  unfold updateAllowedBidder Gen.UpdateAllowedBidder
  simp [Ctx.view, hv, Ctx.fail, bind, Except.bind, hA]

/-- **MsgAddAllowedBidder** through the message server: refused unless the switch is on
    (the C10 guard), then exactly `AddAllowedBidders` with the one-element list. -/
theorem tie_MsgServer_AddAllowedBidder (c : Ctx) (aid : Nat) (ab : AllowedArg) (hacc : validAcc ab.bidder = true)
    (v : AView) (hv : c.s.views[aid]? = some v) (hid : v.a.id = aid) :
    handle c (.addAllowed aid ab) =
      Go.runPlan c aid v (Gen.MsgServer_AddAllowedBidder ⟨aid, ab⟩ (rdAuction c.s) c.s.enableAdd).2 := by
  unfold handle Gen.MsgServer_AddAllowedBidder
  simp only [hacc]
  cases he : c.s.enableAdd with
  | false => simp [runPlan, Ctx.check, Ctx.fail, bind, Except.bind, pure, Except.pure]
  | true =>
    simp only [tie_AddAllowedBidders c aid [ab] v hv hid, Ctx.check, bind, Except.bind, if_true]
    congr 1
    cases Gen.AddAllowedBidders (aid : Int) [ab] (rdAuction c.s) with
    | mk e l => cases e <;> simp

/-- the C10 guard in isolation: with the switch off the translated handler refuses, before
    any effect, whatever the auction and the entry -/
theorem tie_MsgServer_AddAllowedBidder_off (m : AddAllowedMsg) (ag : Int → Auction × Bool) :
    (Gen.MsgServer_AddAllowedBidder m ag false).2 = (true, []) := by
  unfold Gen.MsgServer_AddAllowedBidder
  by_cases h : validAcc m.ab.bidder = true <;> simp [h]

end Fundraising
