import Fundraising.Generated.Code.Auctions
import Fundraising.Tables.GoRun
import Fundraising.Proofs.Tie.Pure
import Fundraising.Proofs.ExecLemmas
/-
  Tie of the translated `Keeper.CancelAuction`, `Keeper.AddAllowedBidders`,
  `Keeper.UpdateAllowedBidder` and `msgServer.AddAllowedBidder` (keeper/auction.go,
  keeper/msg_server.go) to the hand-written handlers of Model/Keeper.lean.
-/
namespace Fundraising
open Fundraising.Gen Fundraising.Go

/-- **CancelAuction.**  `hid`: the stored auction carries its own key (`ViewWF.id`). -/
theorem tie_CancelAuction (c : Ctx) (signer : Acc) (aid : Nat) (v : AView) (hv : c.s.views[aid]? = some v)
    (hid : v.a.id = aid) :
    cancelAuction c signer aid = Go.runPlan c aid v (Gen.CancelAuction ⟨signer, aid⟩ v.a false c.s.bank) := by
  sorry

theorem tie_CancelAuction_noAuction (c : Ctx) (signer : Acc) (aid : Nat) (hv : c.s.views[aid]? = none)
    (a : Auction) (bal : Addr → Denom → Int) :
    cancelAuction c signer aid = c.fail ∧ Gen.CancelAuction ⟨signer, aid⟩ a true bal = (true, []) := by
  sorry

/-- **AddAllowedBidders** (keeper API). -/
theorem tie_AddAllowedBidders (c : Ctx) (aid : Nat) (abs : List AllowedArg) (v : AView) (hv : c.s.views[aid]? = some v) :
    addAllowedBidders c aid abs = Go.runPlan c aid v (Gen.AddAllowedBidders (aid : Int) abs v.a false) := by
  sorry

theorem tie_AddAllowedBidders_noAuction (c : Ctx) (aid : Nat) (abs : List AllowedArg) (hv : c.s.views[aid]? = none)
    (a : Auction) :
    addAllowedBidders c aid abs = c.fail ∧ Gen.AddAllowedBidders (aid : Int) abs a true = (true, []) := by
  sorry

/-- **UpdateAllowedBidder** (keeper API).  `hacc`: callers pass a real account address (the Go
    parameter is an `sdk.AccAddress`, not a string to be parsed). -/
theorem tie_UpdateAllowedBidder (c : Ctx) (aid : Nat) (bidder : Acc) (cap : Int) (hacc : validAcc bidder = true)
    (v : AView) (hv : c.s.views[aid]? = some v) :
    updateAllowedBidder c aid bidder cap =
      Go.runPlan c aid v (Gen.UpdateAllowedBidder (aid : Int) bidder cap v.a false
        ((lookupAllowed v.allowed bidder).getD default) (lookupAllowed v.allowed bidder).isNone) := by
  sorry

theorem tie_UpdateAllowedBidder_noAuction (c : Ctx) (aid : Nat) (bidder : Acc) (cap : Int) (hv : c.s.views[aid]? = none)
    (a : Auction) (ab : Allowed) (e : Bool) :
    updateAllowedBidder c aid bidder cap = c.fail ∧
    Gen.UpdateAllowedBidder (aid : Int) bidder cap a true ab e = (true, []) := by
  sorry

/-- **MsgAddAllowedBidder** through the message server: refused unless the switch is on
    (the C10 guard), then exactly `AddAllowedBidders` with the one-element list. -/
theorem tie_MsgServer_AddAllowedBidder (c : Ctx) (aid : Nat) (ab : AllowedArg) (hacc : validAcc ab.bidder = true)
    (v : AView) (hv : c.s.views[aid]? = some v) :
    handle c (.addAllowed aid ab) =
      Go.runPlan c aid v (Gen.MsgServer_AddAllowedBidder ⟨aid, ab⟩ v.a false c.s.enableAdd).2 := by
  sorry

/-- the C10 guard in isolation: with the switch off the translated handler refuses, before
    any effect, whatever the auction and the entry -/
theorem tie_MsgServer_AddAllowedBidder_off (m : AddAllowedMsg) (a : Auction) (e : Bool) :
    (Gen.MsgServer_AddAllowedBidder m a e false).2 = (true, []) := by
  sorry

end Fundraising
