import Fundraising.Generated.Code.Settle
import Fundraising.Tables.GoRun
import Fundraising.Proofs.Tie.Pure
import Fundraising.Proofs.ExecLemmas
/-
  Tie of the translated block-processing functions (keeper/abci.go, execution.go, the
  settlement half of auction.go) to `blockStep`, `closeFixed`, `closeBatch`, `extendRound`,
  `refundRemainingSellingCoin` of Model/Block.lean.  A recorded call of another keeper function
  is interpreted by the model's function of that name (`Go.applySettle`), which has its own tie
  theorem here or in Proofs/Tie/Vesting.lean.
-/
namespace Fundraising
open Fundraising.Gen Fundraising.Go

/-- which executor `BeginBlocker` calls for an auction -/
def dispatchEff (a : Auction) : Option GEff :=
  match a.status with
  | .standby => some ⟨.execStandBy, [.auction a]⟩
  | .started => some ⟨.execStarted, [.auction a]⟩
  | .vesting => some ⟨.execVesting, [.auction a]⟩
  | .finished => none
  | .cancelled => none

/-- **BeginBlocker**: every auction, in store order, dispatched on its status; never an error
    of its own (the five statuses are all there are) -/
theorem tie_BeginBlocker (auctions : List Auction) :
    Gen.BeginBlocker auctions = (false, auctions.filterMap dispatchEff) := by
  sorry

/-- … which is the dispatch of the model's `blockStep`: -/
theorem tie_ExecuteStandByStatus (c : Ctx) (aid : Nat) (v : AView) (hv : c.s.views[aid]? = some v)
    (hst : v.a.status = .standby) :
    blockStep c aid = Go.runSettlePlan c aid (Gen.ExecuteStandByStatus v.a c.s.now) := by
  sorry

theorem tie_ExecuteStartedStatus (c : Ctx) (aid : Nat) (v : AView) (hv : c.s.views[aid]? = some v)
    (hst : v.a.status = .started) (hne : v.a.endTimes ≠ []) :
    blockStep c aid = Go.runSettlePlan c aid (Gen.ExecuteStartedStatus v.a c.s.now) := by
  sorry

theorem tie_ExecuteVestingStatus (c : Ctx) (aid : Nat) (v : AView) (hv : c.s.views[aid]? = some v)
    (hst : v.a.status = .vesting) :
    blockStep c aid = releaseVesting c aid := by
  sorry

theorem tie_blockStep_terminal (c : Ctx) (aid : Nat) (v : AView) (hv : c.s.views[aid]? = some v)
    (hst : v.a.status = .finished ∨ v.a.status = .cancelled) :
    blockStep c aid = pure c ∧ dispatchEff v.a = none := by
  sorry

theorem tie_publishedMatchedPrice (mi : MInfo) :
    Gen.publishedMatchedPrice mi = if mi.total > 0 then mi.price else 0 := by
  sorry

/-- **CloseFixedPriceAuction** -/
theorem tie_CloseFixedPriceAuction (c : Ctx) (aid : Nat) (v : AView) (hv : c.s.views[aid]? = some v) :
    closeFixed c aid = Go.runSettlePlan c aid (Gen.CloseFixedPriceAuction v.a (calcFixed v.a v.bids)) := by
  sorry

/-- **CloseBatchAuction**: the round limit, the "nothing to compare with" case and the
    anti-sniping rule `1 − Quo(curr, last) ≥ rate`, each followed by the same settling steps -/
theorem tie_CloseBatchAuction (c : Ctx) (aid : Nat) (v : AView) (hv : c.s.views[aid]? = some v)
    (hty : v.a.type = .batch) (mi : MInfo) (hmi : calcBatch v.a v.bids v.allowed = some mi) :
    closeBatch c aid = Go.runSettlePlan c aid (Gen.CloseBatchAuction v.a v.matchedLen mi) := by
  sorry

/-- **ExtendRound** -/
theorem tie_ExtendRound (c : Ctx) (aid : Nat) (v : AView) (hv : c.s.views[aid]? = some v) (hne : v.a.endTimes ≠ []) :
    extendRound c aid = Go.runSettlePlan c aid (Gen.ExtendRound v.a c.s.params) := by
  sorry

/-- **RefundRemainingSellingCoin** -/
theorem tie_RefundRemainingSellingCoin (c : Ctx) (a : Auction) :
    refundRemainingSellingCoin c a = Go.runSettlePlan c a.id (Gen.RefundRemainingSellingCoin a c.s.bank) := by
  sorry

end Fundraising
