import Fundraising.Generated.Code.Settle
import Fundraising.Tables.GoRun
import Fundraising.Proofs.Tie.Pure
import Fundraising.Proofs.ExecLemmas
/-
  Tie of the translated block-processing functions (keeper/abci.go, execution.go, the
  settlement half of auction.go) to `blockStep`, `closeFixed`, `closeBatch`, `extendRound`,
  `refundRemainingSellingCoin` of Model/Block.lean.  A recorded call of another keeper function
  is interpreted by the model's function of that name (`Go.applySettle`), which has its own tie
  theorem here or in Proofs/Tie/Vesting.lean.
-/
namespace Fundraising
open Fundraising.Gen Fundraising.Go

/-- which executor `BeginBlocker` calls for an auction -/
def dispatchEff (a : Auction) : Option GEff :=
  match a.status with
  | .standby => some ⟨.execStandBy, [.auction a]⟩
  | .started => some ⟨.execStarted, [.auction a]⟩
  | .vesting => some ⟨.execVesting, [.auction a]⟩
  | .finished => none
  | .cancelled => none

/-- the loop of `BeginBlocker`, with the loop-carried effect list generalised -/
private theorem beginBlocker_loop (auctions : List Auction) (effs : List GEff) :
    Gen.BeginBlocker.loop1 auctions false effs = Loop.done (false, effs ++ auctions.filterMap dispatchEff) := by
  induction auctions generalizing effs with
  | nil => simp [BeginBlocker.loop1]
  | cons a rest ih =>
    unfold BeginBlocker.loop1
    cases hs : a.status <;> simp [ih, dispatchEff, hs]

/-- **BeginBlocker**: every auction, in store order, dispatched on its status; never an error
    of its own (the five statuses are all there are) -/
theorem tie_BeginBlocker (auctions : List Auction) :
    Gen.BeginBlocker auctions = (false, auctions.filterMap dispatchEff) := by
  simp [BeginBlocker, beginBlocker_loop]

/-! ### helpers: the monad, and "bank calls and hooks do not touch the views" -/

@[simp] private theorem ok_bind {α β : Type} (a : α) (f : α → M β) : ((Except.ok a : M α) >>= f) = f a := rfl

@[simp] private theorem error_bind {α β : Type} (e : Fail) (f : α → M β) :
    ((Except.error e : M α) >>= f) = Except.error e := rfl

private theorem bind_ok {α β : Type} {x : M α} {f : α → M β} {b : β} (h : (x >>= f) = .ok b) :
    ∃ a, x = .ok a ∧ f a = .ok b := by
  cases x with
  | error e => simp [bind, Except.bind] at h
  | ok a => exact ⟨a, rfl, h⟩

private theorem view_of {c : Ctx} {aid : Nat} {v : AView} (hv : c.s.views[aid]? = some v) : c.view aid = pure v :=
  view_ok_iff.mpr hv

private theorem bankCall_views {c c' : Ctx} {k : XKind} {src dst : Addr} {coins : List Coin}
    (h : c.bankCall k src dst coins = .ok c') : c'.s.views = c.s.views := by
  obtain ⟨_, b, _, rfl⟩ := bankCall_ok h
  rfl

private theorem hook_views {c c' : Ctx} {name : String} {args : List String}
    (h : c.hook name args = .ok c') : c'.s.views = c.s.views := by
  rw [(hook_ok h).1]

private theorem payOut_views (src : Addr) (d : Denom) (l : List (Acc × Int)) {c c' : Ctx}
    (h : payOut c src d l = .ok c') : c'.s.views = c.s.views := by
  induction l generalizing c with
  | nil => simp [payOut, pure, Except.pure] at h; subst h; rfl
  | cons p rest ih =>
    obtain ⟨u, amt⟩ := p
    unfold payOut at h
    by_cases h0 : amt = 0
    · simp only [h0, if_true] at h; exact ih h
    · simp only [h0, if_false] at h
      obtain ⟨coins, _, h⟩ := bind_ok h
      obtain ⟨c1, hb, h⟩ := bind_ok h
      rw [ih h, bankCall_views hb]

private theorem allocateSellingCoin_views {c c' : Ctx} {a : Auction} {mi : MInfo}
    (h : allocateSellingCoin c a mi = .ok c') : c'.s.views = c.s.views := by
  unfold allocateSellingCoin at h
  obtain ⟨c1, hh, h⟩ := bind_ok h
  rw [payOut_views _ _ _ h, hook_views hh]

private theorem refundRemainingSellingCoin_views {c c' : Ctx} {a : Auction}
    (h : refundRemainingSellingCoin c a = .ok c') : c'.s.views = c.s.views := by
  unfold refundRemainingSellingCoin at h
  obtain ⟨coins, _, h⟩ := bind_ok h
  exact bankCall_views h

private theorem refundPayingCoin_views {c c' : Ctx} {a : Auction} {mi : MInfo}
    (h : refundPayingCoin c a mi = .ok c') : c'.s.views = c.s.views :=
  payOut_views _ _ _ h

private theorem setView_self {c : Ctx} {aid : Nat} {v : AView} (hv : c.s.views[aid]? = some v) :
    c.setView aid v = c := by
  unfold Ctx.setView
  have : c.s.views.set aid v = c.s.views := by
    apply List.ext_getElem?
    intro i
    by_cases hi : i = aid
    · subst hi; simp [List.getElem?_set]; grind
    · simp [List.getElem?_set]; grind
  rw [this]

private theorem setView_get {c : Ctx} {aid : Nat} {v v' : AView} (hv : c.s.views[aid]? = some v) :
    (c.setView aid v').s.views[aid]? = some v' := by
  have hlt : aid < c.s.views.length := by
    rcases Nat.lt_or_ge aid c.s.views.length with h | h
    · exact h
    · rw [List.getElem?_eq_none h] at hv; cases hv
  simp [Ctx.setView, hlt]

private theorem runSettlePlan_false (c : Ctx) (aid : Nat) (es : List GEff) :
    runSettlePlan c aid (false, es) = runSettle aid es c := by
  simp [runSettlePlan]

private theorem runSettle_calcBatch (c : Ctx) (aid : Nat) (v : AView) (hv : c.s.views[aid]? = some v)
    (mi : MInfo) (hmi : calcBatch v.a v.bids v.allowed = some mi) (a : Auction) (es : List GEff) :
    runSettle aid (⟨.calcBatch, [.auction a]⟩ :: es) c =
      runSettle aid es (c.setView aid { v with bids := v.bids.map (fun b => { b with matched := mi.matchedIds.contains b.id }), matchedLen := mi.matchedLen }) := by
  simp only [runSettle_cons, applySettle, view_of hv, pure_bind, hmi]

private theorem runSettle_extendRound (c : Ctx) (aid : Nat) (a : Auction) :
    runSettle aid [⟨.extendRound, [.auction a]⟩] c = extendRound c aid := by
  simp only [runSettle_cons, runSettle_nil, applySettle, bind_pure]

/-- … which is the dispatch of the model's `blockStep`: -/
theorem tie_ExecuteStandByStatus (c : Ctx) (aid : Nat) (v : AView) (hv : c.s.views[aid]? = some v)
    (hst : v.a.status = .standby) (hid : v.a.id = aid) :
    blockStep c aid = Go.runSettlePlan c aid (Gen.ExecuteStandByStatus v.a c.s.now) := by
  unfold blockStep ExecuteStandByStatus
  simp only [Ctx.view, hv, tie_ShouldAuctionStarted, bind, Except.bind, hst]
  by_cases h : v.a.startTime ≤ c.s.now <;>
    simp [h, hid, runSettlePlan, applySettle, Ctx.view, hv, bind, Except.bind, pure, Except.pure]

theorem tie_ExecuteStartedStatus (c : Ctx) (aid : Nat) (v : AView) (hv : c.s.views[aid]? = some v)
    (hst : v.a.status = .started) (hne : v.a.endTimes ≠ []) :
    blockStep c aid = Go.runSettlePlan c aid (Gen.ExecuteStartedStatus v.a c.s.now) := by
  unfold blockStep ExecuteStartedStatus
  simp only [Ctx.view, hv, tie_ShouldAuctionClosed _ _ hne, bind, Except.bind, hst, Auction.lastEnd]
  obtain ⟨e, he⟩ : ∃ e, v.a.endTimes.getLast? = some e := by
    cases hl : v.a.endTimes.getLast? with
    | none => simp at hl; exact absurd hl hne
    | some e => exact ⟨e, rfl⟩
  simp only [he, Option.getD_some]
  by_cases h : e ≤ c.s.now <;> cases hty : v.a.type <;>
      simp [h, runSettlePlan, applySettle, bind, Except.bind, pure, Except.pure]
  · cases closeFixed c aid <;> rfl
  · cases closeBatch c aid <;> rfl

theorem tie_ExecuteVestingStatus (c : Ctx) (aid : Nat) (v : AView) (hv : c.s.views[aid]? = some v)
    (hst : v.a.status = .vesting) :
    blockStep c aid = releaseVesting c aid := by
  unfold blockStep
  simp [Ctx.view, hv, hst, bind, Except.bind]

theorem tie_blockStep_terminal (c : Ctx) (aid : Nat) (v : AView) (hv : c.s.views[aid]? = some v)
    (hst : v.a.status = .finished ∨ v.a.status = .cancelled) :
    blockStep c aid = pure c ∧ dispatchEff v.a = none := by
  unfold blockStep dispatchEff
  rcases hst with hst | hst <;> simp [Ctx.view, hv, hst, bind, Except.bind]

theorem tie_publishedMatchedPrice (mi : MInfo) :
    Gen.publishedMatchedPrice mi = if mi.total > 0 then mi.price else 0 := by
  unfold publishedMatchedPrice
  grind

/-- **CloseFixedPriceAuction** -/
theorem tie_CloseFixedPriceAuction (c : Ctx) (aid : Nat) (v : AView) (hv : c.s.views[aid]? = some v) :
    closeFixed c aid = Go.runSettlePlan c aid (Gen.CloseFixedPriceAuction v.a (calcFixed v.a v.bids)) := by
  unfold closeFixed CloseFixedPriceAuction
  simp only [view_of hv, runSettlePlan, List.nil_append, List.cons_append, runSettle_cons, runSettle_nil,
    applySettle, bind_assoc, pure_bind, bind_pure]
  cases h1 : allocateSellingCoin c v.a (calcFixed v.a v.bids) with
  | error e => rfl
  | ok c1 =>
    simp only [ok_bind]
    cases h2 : refundRemainingSellingCoin c1 v.a with
    | error e => rfl
    | ok c2 =>
      simp only [ok_bind]
      have hv2 : c2.s.views[aid]? = some v := by
        rw [refundRemainingSellingCoin_views h2, allocateSellingCoin_views h1]; exact hv
      simp only [view_of hv2, pure_bind, setView_self hv2]
      cases applyVestingSchedules c2 aid <;> rfl

/-- the settling steps shared by two branches of `CloseBatchAuction` -/
private theorem settleBatch_tie (c : Ctx) (aid : Nat) (v : AView) (hv : c.s.views[aid]? = some v) (mi : MInfo) :
    settleBatch c aid mi = runSettle aid
      [⟨.allocateSellingCoin, [.auction v.a, .minfo mi]⟩, ⟨.refundRemainingSellingCoin, [.auction v.a]⟩,
       ⟨.refundPayingCoin, [.auction v.a, .minfo mi]⟩,
       ⟨.applyVestingSchedules, [.auction { v.a with matchedPrice := publishedMatchedPrice mi }]⟩] c := by
  unfold settleBatch
  simp only [view_of hv, runSettle_cons, runSettle_nil, applySettle, pure_bind, bind_pure,
    tie_publishedMatchedPrice]
  cases h1 : allocateSellingCoin c v.a mi with
  | error e => rfl
  | ok c1 =>
    simp only [ok_bind]
    cases h2 : refundRemainingSellingCoin c1 v.a with
    | error e => rfl
    | ok c2 =>
      simp only [ok_bind]
      cases h3 : refundPayingCoin c2 v.a mi with
      | error e => rfl
      | ok c3 =>
        simp only [ok_bind]
        have hv3 : c3.s.views[aid]? = some v := by
          rw [refundPayingCoin_views h3, refundRemainingSellingCoin_views h2, allocateSellingCoin_views h1]
          exact hv
        simp only [view_of hv3, pure_bind]

local macro "settle_norm" "[" ls:Lean.Parser.Tactic.simpLemma,* "]" : tactic =>
  `(tactic| simp only [if_true, if_false, decide_true, decide_false, Bool.not_true, Bool.not_false, Bool.false_eq_true,
      Bool.and_true, Bool.true_and, Bool.and_false, Bool.false_and, Bool.or_true, Bool.true_or, Bool.or_false, Bool.false_or,
      List.nil_append, List.cons_append, List.append_nil, runSettlePlan_false, apply_ite Prod.snd, apply_ite Prod.fst, ite_self, $ls,*])

/-- **CloseBatchAuction**: the round limit, the "nothing to compare with" case and the
    anti-sniping rule `1 − Quo(curr, last) ≥ rate`, each followed by the same settling steps -/
theorem tie_CloseBatchAuction (c : Ctx) (aid : Nat) (v : AView) (hv : c.s.views[aid]? = some v)
    (hty : v.a.type = .batch) (mi : MInfo) (hmi : calcBatch v.a v.bids v.allowed = some mi) (hid : v.a.id = aid) :
    closeBatch c aid = Go.runSettlePlan c aid (Gen.CloseBatchAuction v.a (rdMatchedLen c.s) mi) := by
  have hok : decide (v.a.type = AType.batch) = true := by simp [hty]
  have hML : rdMatchedLen c.s (v.a.id : Int) = (v.matchedLen : Int) := by
    simp [rdMatchedLen, hid, hv]
  unfold closeBatch CloseBatchAuction
  simp only [view_of hv, hmi, hok, hML, pure_bind, Bool.not_true, Bool.false_eq_true, if_false,
    List.nil_append, List.cons_append]
  -- the three decisions, on the model's side; then ONE normalisation of both sides with every
  -- spelling of each fact (`=`/casts, `≥`/`<`/`≤`), so that the way the code arranges the tests —
  -- nested ifs, a conjunction of flags, a predicate helper — does not matter
  have h3 : shouldExtend mi.matchedLen v.matchedLen v.a.rate =
      decide (Dec.one - (Dec.ofInt mi.matchedLen).quo (Dec.ofInt v.matchedLen) ≥ v.a.rate) := rfl
  rw [h3]
  by_cases h1 : v.a.maxExt + 1 = v.a.endTimes.length
  · have h1' : ((v.a.maxExt : Int) + 1 = (v.a.endTimes.length : Int)) := by omega
    settle_norm [h1, h1']
    rw [runSettle_calcBatch c aid v hv mi hmi, settleBatch_tie _ aid _ (setView_get hv)]
  · have h1' : ¬ ((v.a.maxExt : Int) + 1 = (v.a.endTimes.length : Int)) := by omega
    by_cases h2 : v.matchedLen = 0
    · settle_norm [h1, h1', h2]
      rw [runSettle_calcBatch c aid v hv mi hmi, runSettle_extendRound]
    · by_cases h4 : Dec.one - (Dec.ofInt mi.matchedLen).quo (Dec.ofInt v.matchedLen) ≥ v.a.rate
      · have h4a : ¬ (Dec.one - (Dec.ofInt mi.matchedLen).quo (Dec.ofInt v.matchedLen) < v.a.rate) := Int.not_lt.mpr h4
        have h4b : v.a.rate ≤ Dec.one - (Dec.ofInt mi.matchedLen).quo (Dec.ofInt v.matchedLen) := h4
        settle_norm [h1, h1', h2, h4, h4a, h4b]
        rw [runSettle_calcBatch c aid v hv mi hmi, runSettle_extendRound]
      · have h4a : Dec.one - (Dec.ofInt mi.matchedLen).quo (Dec.ofInt v.matchedLen) < v.a.rate := Int.not_le.mp h4
        have h4b : ¬ (v.a.rate ≤ Dec.one - (Dec.ofInt mi.matchedLen).quo (Dec.ofInt v.matchedLen)) := h4
        settle_norm [h1, h1', h2, h4, h4a, h4b]
        rw [runSettle_calcBatch c aid v hv mi hmi, settleBatch_tie _ aid _ (setView_get hv)]

/-- **ExtendRound** -/
theorem tie_ExtendRound (c : Ctx) (aid : Nat) (v : AView) (hv : c.s.views[aid]? = some v) (hne : v.a.endTimes ≠ [])
    (hid : v.a.id = aid) :
    extendRound c aid = Go.runSettlePlan c aid (Gen.ExtendRound v.a c.s.params) := by
  unfold extendRound ExtendRound
  simp [hid, runSettlePlan, applySettle, Ctx.view, hv, bind, Except.bind, pure, Except.pure, index_last hne,
    Auction.lastEnd, Go.addDate]

/-- **RefundRemainingSellingCoin** -/
theorem tie_RefundRemainingSellingCoin (c : Ctx) (a : Auction) :
    refundRemainingSellingCoin c a = Go.runSettlePlan c a.id (Gen.RefundRemainingSellingCoin a c.s.bank) := by
  unfold refundRemainingSellingCoin RefundRemainingSellingCoin
  simp [runSettlePlan, applySettle, dstOf, Ctx.bal]

end Fundraising
