import Fundraising.Generated.Code.Msgs
import Fundraising.Proofs.Tie.Pure
/-
  Tie of the translated `ValidateBasic` methods (types/msgs.go) to the model's `validateBasic`
  (see Proofs/Tie/Pure.lean for what a tie theorem is).
-/
namespace Fundraising
open Fundraising.Gen

/-! ### types/msgs.go: ValidateBasic of every message (true = an error is returned) -/

theorem tie_ValidateBasic_cancel (m : CancelMsg) :
    MsgCancelAuction_ValidateBasic m = !validateBasic (.cancel m.signer m.aid) := by
  unfold MsgCancelAuction_ValidateBasic validateBasic
  grind

theorem tie_ValidateBasic_place (m : PlaceMsg) :
    MsgPlaceBid_ValidateBasic m = !validateBasic (.place m.bidder m.aid m.bidType m.price m.denom m.amt) := by
  unfold MsgPlaceBid_ValidateBasic validateBasic validCoin
  rcases m with ⟨b, a, (_|_|_|_), p, d, am⟩ <;> grind

theorem tie_ValidateBasic_modify (m : ModifyMsg) :
    MsgModifyBid_ValidateBasic m = !validateBasic (.modify m.bidder m.aid m.bidId m.price m.denom m.amt) := by
  unfold MsgModifyBid_ValidateBasic validateBasic validCoin
  grind

theorem tie_ValidateBasic_addAllowed (m : AddAllowedMsg) :
    MsgAddAllowedBidder_ValidateBasic m = !validateBasic (.addAllowed m.aid m.ab) := by
  unfold MsgAddAllowedBidder_ValidateBasic validateBasic
  grind

end Fundraising
