import Fundraising.Generated.Code.Getters
import Fundraising.Tables.GoStore
/-
  Tie of the keeper's keyed getters (keeper/bid.go, match.go, vesting.go, allowed_bidder.go),
  translated store-threaded: on the store of a model state, each returns exactly the value of the
  read function (`Go.rd…`, Tables/GoRun.lean) with which the handler ties instantiate the oracle
  functions of the translated handlers — the records filed under THAT auction id (a prefixed
  range), the bids of THAT bidder (a filter inside the Walk), "not found" read as 0.
-/
namespace Fundraising
open Fundraising.Gen Fundraising.Go

namespace TieGetters

theorem viewAt_storeOf (s : Core) (id : Int) : (storeOf s).viewAt id = viewAt s id := rfl

theorem foldl_append {α : Type} (l acc : List α) :
    List.foldl (fun s v => s ++ [v]) acc l = acc ++ l := by
  induction l generalizing acc with
  | nil => simp
  | cons x xs ih => rw [List.foldl_cons, ih]; simp

theorem foldl_filter {α : Type} (p : α → Bool) (l acc : List α) :
    List.foldl (fun s v => if p v then s ++ [v] else s) acc l = acc ++ l.filter p := by
  induction l generalizing acc with
  | nil => simp
  | cons x xs ih =>
    rw [List.foldl_cons, ih]
    cases h : p x <;> simp [h]

end TieGetters
open TieGetters

/-- **GetBidsByAuctionId**: the bids filed under the prefix `id`, in key order, nothing else -/
theorem tie_GetBidsByAuctionId (s : Core) (id : Int) :
    Gen.GetBidsByAuctionId id (storeOf s) = (rdBids s id, false, storeOf s) := by
  unfold Gen.GetBidsByAuctionId
  simp only [GetBidsByAuctionId.walk1, foldl_append, List.nil_append, GStore.bidsOf, viewAt_storeOf, rdBids]

/-- **GetBidsByBidder**: every bid of the store whose bidder is `u` -/
theorem tie_GetBidsByBidder (s : Core) (u : Acc) :
    Gen.GetBidsByBidder u (storeOf s) = (rdBidsByBidder s u, false, storeOf s) := by
  unfold Gen.GetBidsByBidder
  have : (fun (s__ : List Bid) (v__ : Bid) => GetBidsByBidder.walk1 u v__ s__) =
      (fun s v => if (fun b : Bid => b.bidder == u) v then s ++ [v] else s) := by
    funext s v; simp [GetBidsByBidder.walk1]
  simp only [this, foldl_filter, List.nil_append, GStore.allBids, storeOf, rdBidsByBidder]

/-- **GetVestingQueuesByAuctionId** -/
theorem tie_GetVestingQueuesByAuctionId (s : Core) (id : Int) :
    Gen.GetVestingQueuesByAuctionId id (storeOf s) = (rdVqs s id, false, storeOf s) := by
  unfold Gen.GetVestingQueuesByAuctionId
  simp only [GetVestingQueuesByAuctionId.walk1, foldl_append, List.nil_append, GStore.vqsOf, viewAt_storeOf, rdVqs]

/-- **GetAllowedBiddersByAuction** -/
theorem tie_GetAllowedBiddersByAuction (s : Core) (id : Int) :
    Gen.GetAllowedBiddersByAuction id (storeOf s) = (rdAllowedList s id, false, storeOf s) := by
  unfold Gen.GetAllowedBiddersByAuction
  simp only [GetAllowedBiddersByAuction.walk1, foldl_append, List.nil_append, GStore.allowedOf, viewAt_storeOf, rdAllowedList]

/-- **GetLastMatchedBidsLen**: "not found" is 0 -/
theorem tie_GetLastMatchedBidsLen (s : Core) (id : Int) :
    Gen.GetLastMatchedBidsLen id (storeOf s) = (rdMatchedLen s id, false, storeOf s) := by
  unfold Gen.GetLastMatchedBidsLen
  rw [show GStore.matchedLenGet (storeOf s) id =
      (match viewAt s id with
        | some v => (v.matchedLen, decide (v.matchedLen = 0))
        | none => (0, true)) from rfl]
  unfold rdMatchedLen
  split
  · rename_i v hv
    by_cases h : v.matchedLen = 0 <;> simp [h, hv]
  · rename_i hv
    simp [hv]

/-- **GetNextBidIdWithUpdate**: the value is the read function's; the store afterwards is the
    one the store-threaded `InitGenesis` works with (`GStore.nextBidId`) -/
theorem tie_GetNextBidIdWithUpdate (s : Core) (id : Int) (h0 : 0 ≤ id) :
    Gen.GetNextBidIdWithUpdate id (storeOf s) =
      (rdNextBidId s id, false, (GStore.nextBidId (storeOf s) id).2) ∧
    (GStore.nextBidId (storeOf s) id).1 = rdNextBidId s id := by
  have hvA : (storeOf s).viewAt id = (storeOf s).views[id.toNat]? := by simp [GStore.viewAt, h0]
  unfold Gen.GetNextBidIdWithUpdate
  simp only [GStore.bidSeqGet, GStore.bidSeqSet, GStore.nextBidId, rdNextBidId, ← viewAt_storeOf, hvA, h0, if_true]
  cases hv : (storeOf s).views[id.toNat]? with
  | none => simp [GStore.modify, hv]
  | some v =>
    by_cases h : v.bidSeq = 0
    · simp [h, GStore.modify, hv]
    · simp [h, GStore.modify, hv]

/-! ### the list-all helpers (`Auctions()` is what `BeginBlocker` iterates over) -/

/-- **Auctions**: every auction record, in id order — the snapshot `BeginBlocker` takes -/
theorem tie_Auctions (s : Core) :
    Gen.Auctions (storeOf s) = (s.views.map (·.a), false, storeOf s) := by
  unfold Gen.Auctions
  simp only [Auctions.walk1, foldl_append, List.nil_append, GStore.allAuctions, storeOf]

theorem tie_Bids (s : Core) :
    Gen.Bids (storeOf s) = (s.views.flatMap (·.bids), false, storeOf s) := by
  unfold Gen.Bids
  simp only [Bids.walk1, foldl_append, List.nil_append, GStore.allBids, storeOf]

theorem tie_VestingQueues (s : Core) :
    Gen.VestingQueues (storeOf s) = (s.views.flatMap (·.vqs), false, storeOf s) := by
  unfold Gen.VestingQueues
  simp only [VestingQueues.walk1, foldl_append, List.nil_append, GStore.allVqs, storeOf]

theorem tie_AllowedBidders (s : Core) :
    Gen.AllowedBidders (storeOf s) = (GStore.allAllowed (storeOf s), false, storeOf s) := by
  unfold Gen.AllowedBidders
  simp only [AllowedBidders.walk1, foldl_append, List.nil_append]

end Fundraising
