import Fundraising.Proofs.Tie.Import
import Fundraising.Proofs.Tie.Export
import Fundraising.Props.C15
/-
  C15 for the translated code: from every reachable state, the translated `ExportGenesis`
  yields a genesis that the translated `GenesisState.Validate` accepts and that the translated
  `InitGenesis`, run on an empty store, turns back into exactly the store it was exported from
  (same records in every collection, same parameters, the auction sequence at the next free id).
-/
namespace Fundraising
open Fundraising.Gen Fundraising.Go

theorem code_C15_round_trip (st : State) (h : Reach st) :
    let g := (Gen.ExportGenesis (storeOf st.core)).1
    Gen.GenesisState_Validate g = false ∧ Gen.InitGenesis g {} = (false, storeOf st.core) := by
  have hwf := wf_reach st h
  simp only [tie_ExportGenesis]
  have hval := (C15_export_validates st h)
  have himp := (C15_import_export st h).1
  refine ⟨?_, ?_⟩
  · rw [tie_GenesisState_Validate]; simp [hval]
  · have hA : ∀ p ∈ (exportGenesis st.core).allowed, p.1 < (exportGenesis st.core).auctions.length := by
      intro p hp
      simp only [exportGenesis, List.mem_flatMap, List.mem_map] at hp
      obtain ⟨v, hv, x, _, rfl⟩ := hp
      obtain ⟨i, hi, hvi⟩ := List.getElem_of_mem hv
      have hid := (hwf.views i v (by rw [List.getElem?_eq_getElem hi, hvi])).id
      simp only [exportGenesis, List.length_map]
      omega
    have hAv : ∀ p ∈ (exportGenesis st.core).allowed, validAcc p.2.bidder = true := by
      intro p hp
      simp only [exportGenesis, List.mem_flatMap, List.mem_map] at hp
      obtain ⟨v, hv, x, hx, rfl⟩ := hp
      obtain ⟨i, hi, hvi⟩ := List.getElem_of_mem hv
      exact ((hwf.views i v (by rw [List.getElem?_eq_getElem hi, hvi])).caps x hx).1
    have t := tie_InitGenesis (exportGenesis st.core) hA hAv
    rw [himp] at t
    simp only at t
    rw [t]
    simp [storeOf, exportGenesis]

end Fundraising
