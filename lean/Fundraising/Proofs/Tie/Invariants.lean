import Fundraising.Generated.Code.Invariants
import Fundraising.Proofs.Tie.Getters
import Fundraising.Proofs.Tie.Pure
import Fundraising.Proofs.EscrowProofs
import Fundraising.Proofs.WFProofs
import Fundraising.Props.C01
/-
  The module's own invariants (keeper/invariants.go), TRANSLATED from the Go source on every run
  (Generated/Code/Invariants.lean: the closure each `…Invariant(k)` returns, store-threaded, the
  bank balance an oracle function of the address the code passes), are the model's functions
  (Model/ModuleInv.lean) on the store of a model state — and no reachable state breaks them.
-/
namespace Fundraising
open Fundraising.Gen Fundraising.Go

/-- record id = key: all the ties need from `WF` -/
def IdsOK (s : Core) : Prop := ∀ (i : Nat) (v : AView), s.views[i]? = some v → v.a.id = i

theorem IdsOK_of_WF {s : Core} (h : WF s) : IdsOK s := fun i v hv => (h.views i v hv).id

namespace TieInv

theorem broken_eq {α : Type} (l : List α) (p : α → Bool) :
    (!decide ((0 : Int) + ((l.filter p).length : Int) = 0)) = l.any p := by
  induction l with
  | nil => simp
  | cons x xs ih =>
    cases hp : p x
    · simpa [List.filter_cons, hp] using ih
    · simp [hp]; omega

theorem view_lookup {s : Core} (h : IdsOK s) {v : AView} (hv : v ∈ s.views) :
    viewAt s (v.a.id : Int) = some v := by
  obtain ⟨i, hi⟩ := List.mem_iff_getElem?.mp hv
  have := h i v hi
  rw [viewAt_nat, this, hi]

theorem rdBids_mem {s : Core} (h : IdsOK s) {v : AView} (hv : v ∈ s.views) :
    rdBids s (v.a.id : Int) = v.bids := by
  simp [rdBids, view_lookup h hv]

theorem rdVqs_mem {s : Core} (h : IdsOK s) {v : AView} (hv : v ∈ s.views) :
    rdVqs s (v.a.id : Int) = v.vqs := by
  simp [rdVqs, view_lookup h hv]

theorem selling_loop1 (s : Core) (vs : List AView) (count : Int) (st : GStore) :
    SellingPoolReserveAmountInvariant.loop1 s.bank (vs.map (·.a)) count st =
      Loop.done (count + ((vs.filter (fun v => !sellingInvHolds s v)).length : Int), st) := by
  induction vs generalizing count with
  | nil => simp [SellingPoolReserveAmountInvariant.loop1]
  | cons v vs ih =>
    simp only [List.map_cons, SellingPoolReserveAmountInvariant.loop1,
      sellingCoin_denom, sellingCoin_amt, decide_true, Bool.true_and]
    by_cases hst : v.a.status = Status.started
    · by_cases hle : v.a.sellAmt ≤ s.bank (Addr.sell v.a.id) v.a.sellDenom
      · simp [hst, hle, ih, sellingInvHolds]
      · simp [hst, hle, ih, sellingInvHolds]; omega
    · simp [hst, ih, sellingInvHolds]

theorem paying_loop2 (a : Auction) (l : List Bid) (acc : Coin) (st : GStore) :
    PayingPoolReserveAmountInvariant.loop2 a l acc st =
      Loop.done (⟨acc.denom, acc.amt + (l.map (·.toPaying a.payDenom)).sum⟩, st) := by
  induction l generalizing acc with
  | nil => simp [PayingPoolReserveAmountInvariant.loop2]
  | cons b l ih =>
    simp only [PayingPoolReserveAmountInvariant.loop2, ih, tie_ConvertToPayingAmount,
      List.map_cons, List.sum_cons, Int.add_assoc]

theorem paying_loop1 (s : Core) (h : IdsOK s) (err : Bool) (vs : List AView)
    (hvs : ∀ v ∈ vs, v ∈ s.views) (count : Int) :
    PayingPoolReserveAmountInvariant.loop1 s.bank err (vs.map (·.a)) count (storeOf s) =
      Loop.done (count + ((vs.filter (fun v => !payingInvHolds s v)).length : Int), storeOf s) := by
  induction vs generalizing count with
  | nil => simp [PayingPoolReserveAmountInvariant.loop1]
  | cons v vs ih =>
    have hv : v ∈ s.views := hvs v (by simp)
    have ih' := fun c => ih (fun w hw => hvs w (by simp [hw])) c
    simp only [List.map_cons, PayingPoolReserveAmountInvariant.loop1,
      tie_GetBidsByAuctionId, rdBids_mem h hv, paying_loop2, decide_true, Bool.true_and]
    by_cases hst : v.a.status = Status.started
    · by_cases hle : (v.bids.map (·.toPaying v.a.payDenom)).sum ≤ s.bank (Addr.pay v.a.id) v.a.payDenom
      · simp [hst, hle, ih', payingInvHolds, invTotalBid]
      · simp [hst, hle, ih', payingInvHolds, invTotalBid]; omega
    · by_cases hle : 0 ≤ s.bank (Addr.pay v.a.id) v.a.payDenom
      · simp [hst, hle, ih', payingInvHolds, invTotalBid]
      · simp [hst, hle, ih', payingInvHolds, invTotalBid]; omega

theorem vesting_loop2 (l : List VQ) (acc : Coin) (st : GStore) :
    VestingPoolReserveAmountInvariant.loop2 l acc st =
      Loop.done (⟨acc.denom, acc.amt + ((l.filter (fun q => !q.released)).map (·.amt)).sum⟩, st) := by
  induction l generalizing acc with
  | nil => simp [VestingPoolReserveAmountInvariant.loop2]
  | cons q l ih =>
    cases hq : q.released
    · simp [VestingPoolReserveAmountInvariant.loop2, ih, hq, Int.add_assoc]
    · simp [VestingPoolReserveAmountInvariant.loop2, ih, hq]

theorem vesting_loop1 (s : Core) (h : IdsOK s) (err : Bool) (vs : List AView)
    (hvs : ∀ v ∈ vs, v ∈ s.views) (count : Int) :
    VestingPoolReserveAmountInvariant.loop1 s.bank err (vs.map (·.a)) count (storeOf s) =
      Loop.done (count + ((vs.filter (fun v => !vestingInvHolds s v)).length : Int), storeOf s) := by
  induction vs generalizing count with
  | nil => simp [VestingPoolReserveAmountInvariant.loop1]
  | cons v vs ih =>
    have hv : v ∈ s.views := hvs v (by simp)
    have ih' := fun c => ih (fun w hw => hvs w (by simp [hw])) c
    simp only [List.map_cons, VestingPoolReserveAmountInvariant.loop1,
      tie_GetVestingQueuesByAuctionId, rdVqs_mem h hv, vesting_loop2, decide_true, Bool.true_and]
    by_cases hst : v.a.status = Status.vesting
    · by_cases hle : ((v.vqs.filter (fun q => !q.released)).map (·.amt)).sum ≤ s.bank (Addr.vest v.a.id) v.a.payDenom
      · simp [hst, hle, ih', vestingInvHolds, invTotalVesting]
      · simp [hst, hle, ih', vestingInvHolds, invTotalVesting]; omega
    · by_cases hle : 0 ≤ s.bank (Addr.vest v.a.id) v.a.payDenom
      · simp [hst, hle, ih', vestingInvHolds, invTotalVesting]
      · simp [hst, hle, ih', vestingInvHolds, invTotalVesting]; omega

end TieInv
open TieInv

/-- **SellingPoolReserveAmountInvariant** = `sellingInvBroken` -/
theorem tie_SellingPoolReserveAmountInvariant (s : Core) :
    Gen.SellingPoolReserveAmountInvariant s.bank (storeOf s) = ("", sellingInvBroken s, storeOf s) := by
  unfold Gen.SellingPoolReserveAmountInvariant
  simp only [tie_Auctions, selling_loop1, broken_eq, sellingInvBroken]
  simp

/-- **PayingPoolReserveAmountInvariant** = `payingInvBroken` (the bids it adds up are read with
    `GetBidsByAuctionId(auction.GetId())`: the record's id must be the key it is filed under) -/
theorem tie_PayingPoolReserveAmountInvariant (s : Core) (h : IdsOK s) :
    Gen.PayingPoolReserveAmountInvariant s.bank (storeOf s) = ("", payingInvBroken s, storeOf s) := by
  unfold Gen.PayingPoolReserveAmountInvariant
  simp only [tie_Auctions, paying_loop1 s h _ s.views (fun _ hv => hv), broken_eq, payingInvBroken]
  simp

/-- **VestingPoolReserveAmountInvariant** = `vestingInvBroken` -/
theorem tie_VestingPoolReserveAmountInvariant (s : Core) (h : IdsOK s) :
    Gen.VestingPoolReserveAmountInvariant s.bank (storeOf s) = ("", vestingInvBroken s, storeOf s) := by
  unfold Gen.VestingPoolReserveAmountInvariant
  simp only [tie_Auctions, vesting_loop1 s h _ s.views (fun _ hv => hv), broken_eq, vestingInvBroken]
  simp

/-- **The translated invariants never report `broken`** on the store and bank of a state in which
    the escrows cover what the records owe (every reachable state: Props/C01) -/
theorem code_invariants_hold (s : Core) (hw : WF s) (hc : AllCovered s) (hn : BankNonneg s) :
    (Gen.SellingPoolReserveAmountInvariant s.bank (storeOf s)).2.1 = false ∧
    (Gen.PayingPoolReserveAmountInvariant s.bank (storeOf s)).2.1 = false ∧
    (Gen.VestingPoolReserveAmountInvariant s.bank (storeOf s)).2.1 = false := by
  have hi := IdsOK_of_WF hw
  have hb := invariants_of_covered s hw hc hn
  simp only [allInvariantsBroken, Bool.or_eq_false_iff] at hb
  rw [tie_SellingPoolReserveAmountInvariant, tie_PayingPoolReserveAmountInvariant s hi,
    tie_VestingPoolReserveAmountInvariant s hi]
  exact ⟨hb.1.1, hb.1.2, hb.2⟩

/-- **AllInvariants** (the first of the three that is broken; the loop over the literal list of the
    three functions is unrolled by the translator) = `allInvariantsBroken` -/
theorem tie_AllInvariants (s : Core) (h : IdsOK s) :
    Gen.AllInvariants s.bank (storeOf s) = ("", allInvariantsBroken s, storeOf s) := by
  unfold Gen.AllInvariants
  simp only [tie_SellingPoolReserveAmountInvariant, tie_PayingPoolReserveAmountInvariant s h,
    tie_VestingPoolReserveAmountInvariant s h, allInvariantsBroken]
  cases sellingInvBroken s <;> cases payingInvBroken s <;> cases vestingInvBroken s <;> simp

/-- **C01 at the level of the translated code**: in EVERY reachable state — any history of
    messages, keeper calls, third-party transfers, blocks and genesis round trips — each of the
    module's three registered invariants, as translated from keeper/invariants.go, reports
    "not broken" on that state's store and balances. -/
theorem code_C01_module_invariants_hold (st : State) (h : Reach st) :
    (Gen.SellingPoolReserveAmountInvariant st.core.bank (storeOf st.core)).2.1 = false ∧
    (Gen.PayingPoolReserveAmountInvariant st.core.bank (storeOf st.core)).2.1 = false ∧
    (Gen.VestingPoolReserveAmountInvariant st.core.bank (storeOf st.core)).2.1 = false := by
  have hi := IdsOK_of_WF (C01_reach_facts st h).2.1
  have hb := C01_module_invariants_hold st h
  simp only [allInvariantsBroken, Bool.or_eq_false_iff] at hb
  rw [tie_SellingPoolReserveAmountInvariant, tie_PayingPoolReserveAmountInvariant _ hi,
    tie_VestingPoolReserveAmountInvariant _ hi]
  exact ⟨hb.1.1, hb.1.2, hb.2⟩

end Fundraising
