import Fundraising.Generated.Tables
/-
  The translator reads `x.GetF()` as "field F of x" and `x.SetF(v)` as "x with F := v" (its field and
  mutator tables).  The table `accessors` is re-extracted from types/*.go on every run: which
  fields of its receiver each `Get…` / `Set…` method reads and assigns.  Every one is faithful to
  its name — and there are exactly the accessors the tables know.
-/
namespace Fundraising
open Fundraising.Tables Fundraising.Generated

theorem tie_accessors_faithful : accessors.all Accessor.faithful = true := by decide +kernel

/-- the accessors the translator's tables give a meaning to are all there (and, by the theorem
    above, mean what the tables say); further accessors may be added freely -/
theorem tie_accessors_known :
    ([("AllowedBidder", "GetBidder"),
      ("BaseAuction", "GetAuctioneer"), ("BaseAuction", "GetEndTimes"), ("BaseAuction", "GetId"),
      ("BaseAuction", "GetPayingCoinDenom"), ("BaseAuction", "GetPayingReserveAddress"),
      ("BaseAuction", "GetSellingCoin"), ("BaseAuction", "GetSellingReserveAddress"),
      ("BaseAuction", "GetStartPrice"), ("BaseAuction", "GetStartTime"), ("BaseAuction", "GetStatus"),
      ("BaseAuction", "GetType"), ("BaseAuction", "GetVestingReserveAddress"), ("BaseAuction", "GetVestingSchedules"),
      ("BaseAuction", "SetStatus"), ("BaseAuction", "SetEndTimes"),
      ("Bid", "GetBidder"), ("Bid", "SetMatched"), ("VestingQueue", "SetReleased")] : List (String × String)).all
      (fun p => accessors.any (fun a => a.recv == p.1 && a.name == p.2)) = true := by decide +kernel

/-- the four `Iterate…` methods of the keeper walk the WHOLE collection of their name, handing the
    callback through (what the translation of `Auctions()`, `Bids()`, … assumes of them) -/
theorem tie_iterators :
    iterators.map (fun i => (i.name, i.coll, i.walksAll)) =
      [("IterateAllowedBidders", "AllowedBidder", true), ("IterateAuctions", "Auction", true),
       ("IterateBids", "Bid", true), ("IterateVestingQueues", "VestingQueue", true)] := by decide +kernel

end Fundraising
