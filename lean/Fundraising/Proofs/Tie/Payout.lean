import Fundraising.Generated.Code.Payout
import Fundraising.Tables.GoRun
import Fundraising.Proofs.ExecLemmas
/-
  Tie of the translated `Keeper.AllocateSellingCoin` / `Keeper.RefundPayingCoin`
  (keeper/auction.go) to `allocateSellingCoin` / `refundPayingCoin` of Model/Block.lean.

  The Go code collects the keys of a Go map (`for bidder := range mInfo.AllocationMap`), sorts
  them, and issues one `InputOutputCoins` per bidder with a non-zero amount.  `keys` is the
  order in which THIS execution's map iteration visits the keys: the theorems hold for every
  such order, and `*_order_independent` states it outright — the ordered sequence of bank
  transfers does not depend on Go's map iteration order (C14; the original code ranged over a
  map to SEND, defect F-2).
-/
namespace Fundraising
open Fundraising.Gen Fundraising.Go

/-- the transfers the translated code issues: ascending bidder order, zero amounts skipped -/
def payoutEffs (src : Addr) (d : Denom) (keys : List Acc) (m : Acc → Option Int) : List GEff :=
  ((Go.sortAcc keys).filter (fun u => decide ((m u).getD 0 ≠ 0))).map
    (fun u => ⟨GName.inputOutputCoins, [.bankIn ⟨src, ⟨d, (m u).getD 0⟩⟩, .bankOuts [⟨u, ⟨d, (m u).getD 0⟩⟩]]⟩)

/-! ### helper lemmas -/

theorem sortAcc_perm (l : List Acc) : (Go.sortAcc l).Perm l := List.mergeSort_perm _ _

theorem sortAcc_pairwise (l : List Acc) : (Go.sortAcc l).Pairwise (fun a b => a ≤ b) := by
  have h := List.pairwise_mergeSort (le := fun (a b : Acc) => decide (a ≤ b))
    (by intro a b c; simp only [decide_eq_true_eq]; exact Nat.le_trans)
    (by intro a b; simp only [Bool.or_eq_true, decide_eq_true_eq]; exact Nat.le_total a b) l
  simpa [Go.sortAcc] using h

theorem sortAcc_congr {l l' : List Acc} (hp : l.Perm l') : Go.sortAcc l = Go.sortAcc l' := by
  apply List.Perm.eq_of_pairwise (le := fun (a b : Acc) => a ≤ b)
  · intro a b _ _ h1 h2; exact Nat.le_antisymm h1 h2
  · exact sortAcc_pairwise l
  · exact sortAcc_pairwise l'
  · exact (sortAcc_perm l).trans (hp.trans (sortAcc_perm l').symm)

/-- the `ioCoins` entry the translated code builds for a bidder with a non-zero amount -/
def iocOf (src : Addr) (d : Denom) (m : Acc → Option Int) (u : Acc) : IOC :=
  { bidder := u, outputs := [BankOut.mk u (Coin.mk d ((m u).getD 0))], input := BankIn.mk src (Coin.mk d ((m u).getD 0)) }

theorem alloc_loop1 (g : MInfoG) (keys acc : List Acc) (effs : List GEff) :
    AllocateSellingCoin.loop1 g keys acc effs = Loop.done (acc ++ keys, effs) := by
  induction keys generalizing acc with
  | nil => simp [AllocateSellingCoin.loop1]
  | cons k ks ih => simp [AllocateSellingCoin.loop1, ih]

theorem refund_loop1 (g : MInfoG) (keys acc : List Acc) (effs : List GEff) :
    RefundPayingCoin.loop1 g keys acc effs = Loop.done (acc ++ keys, effs) := by
  induction keys generalizing acc with
  | nil => simp [RefundPayingCoin.loop1]
  | cons k ks ih => simp [RefundPayingCoin.loop1, ih]

theorem alloc_loop2 (a : Auction) (g : MInfoG) (L : List Acc) (io : Acc → Option IOC) (effs : List GEff)
    (hnd : L.Nodup) (hv : ∀ u ∈ L, validAcc u = true) (hio : ∀ u ∈ L, io u = none) :
    ∃ io', AllocateSellingCoin.loop2 a g L io effs = Loop.done (io', effs) ∧
      ∀ u, io' u = if u ∈ L ∧ (g.alloc u).getD 0 ≠ 0 then some (iocOf (.sell a.id) (Go.sellingCoin a).denom g.alloc u) else io u := by
  induction L generalizing io with
  | nil => exact ⟨io, by simp [AllocateSellingCoin.loop2]⟩
  | cons k ks ih =>
    have hnd' : ks.Nodup := (List.nodup_cons.mp hnd).2
    have hk : k ∉ ks := (List.nodup_cons.mp hnd).1
    have hvk : validAcc k = true := hv k (by simp)
    have hiok : io k = none := hio k (by simp)
    unfold AllocateSellingCoin.loop2
    by_cases hz : (g.alloc k).getD 0 = 0
    · obtain ⟨io', h1, h2⟩ := ih io hnd' (fun u hu => hv u (by simp [hu])) (fun u hu => hio u (by simp [hu]))
      refine ⟨io', by simp [hz, h1], ?_⟩
      intro u; rw [h2 u]; grind
    · obtain ⟨io', h1, h2⟩ := ih (Go.mapSet io k (iocOf (.sell a.id) (Go.sellingCoin a).denom g.alloc k)) hnd' (fun u hu => hv u (by simp [hu]))
        (fun u hu => by
          have : u ≠ k := by rintro rfl; exact hk hu
          simp [Go.mapSet, this, hio u (by simp [hu])])
      refine ⟨io', by simpa [hz, hvk, hiok, iocOf] using h1, ?_⟩
      intro u; rw [h2 u]; simp only [Go.mapSet]; grind

theorem alloc_loop3 (src : Addr) (d : Denom) (m : Acc → Option Int) (io : Acc → Option IOC) (L : List Acc) (effs : List GEff)
    (hio : ∀ u ∈ L, io u = if (m u).getD 0 ≠ 0 then some (iocOf src d m u) else none) :
    AllocateSellingCoin.loop3 io L effs = Loop.done (effs ++
      (L.filter (fun u => decide ((m u).getD 0 ≠ 0))).map
        (fun u => ⟨GName.inputOutputCoins, [.bankIn ⟨src, ⟨d, (m u).getD 0⟩⟩, .bankOuts [⟨u, ⟨d, (m u).getD 0⟩⟩]]⟩)) := by
  induction L generalizing effs with
  | nil => simp [AllocateSellingCoin.loop3]
  | cons k ks ih =>
    have hk := hio k (by simp)
    have ih' := fun effs => ih effs (fun u hu => hio u (by simp [hu]))
    unfold AllocateSellingCoin.loop3
    by_cases hz : (m k).getD 0 = 0
    · simp [hz] at hk; simp [hk, hz, ih']
    · simp [hz] at hk; simp [hk, hz, ih', iocOf]

theorem refund_loop2 (a : Auction) (g : MInfoG) (L : List Acc) (io : Acc → Option IOC) (effs : List GEff)
    (hnd : L.Nodup) (hv : ∀ u ∈ L, validAcc u = true) (hio : ∀ u ∈ L, io u = none) :
    ∃ io', RefundPayingCoin.loop2 a g L io effs = Loop.done (io', effs) ∧
      ∀ u, io' u = if u ∈ L ∧ (g.refund u).getD 0 ≠ 0 then some (iocOf (.pay a.id) a.payDenom g.refund u) else io u := by
  induction L generalizing io with
  | nil => exact ⟨io, by simp [RefundPayingCoin.loop2]⟩
  | cons k ks ih =>
    have hnd' : ks.Nodup := (List.nodup_cons.mp hnd).2
    have hk : k ∉ ks := (List.nodup_cons.mp hnd).1
    have hvk : validAcc k = true := hv k (by simp)
    have hiok : io k = none := hio k (by simp)
    unfold RefundPayingCoin.loop2
    by_cases hz : (g.refund k).getD 0 = 0
    · obtain ⟨io', h1, h2⟩ := ih io hnd' (fun u hu => hv u (by simp [hu])) (fun u hu => hio u (by simp [hu]))
      refine ⟨io', by simp [hz, h1], ?_⟩
      intro u; rw [h2 u]; grind
    · obtain ⟨io', h1, h2⟩ := ih (Go.mapSet io k (iocOf (.pay a.id) a.payDenom g.refund k)) hnd' (fun u hu => hv u (by simp [hu]))
        (fun u hu => by
          have : u ≠ k := by rintro rfl; exact hk hu
          simp [Go.mapSet, this, hio u (by simp [hu])])
      refine ⟨io', by simpa [hz, hvk, hiok, iocOf] using h1, ?_⟩
      intro u; rw [h2 u]; simp only [Go.mapSet]; grind

theorem refund_loop3 (src : Addr) (d : Denom) (m : Acc → Option Int) (io : Acc → Option IOC) (L : List Acc) (effs : List GEff)
    (hio : ∀ u ∈ L, io u = if (m u).getD 0 ≠ 0 then some (iocOf src d m u) else none) :
    RefundPayingCoin.loop3 io L effs = Loop.done (effs ++
      (L.filter (fun u => decide ((m u).getD 0 ≠ 0))).map
        (fun u => ⟨GName.inputOutputCoins, [.bankIn ⟨src, ⟨d, (m u).getD 0⟩⟩, .bankOuts [⟨u, ⟨d, (m u).getD 0⟩⟩]]⟩)) := by
  induction L generalizing effs with
  | nil => simp [RefundPayingCoin.loop3]
  | cons k ks ih =>
    have hk := hio k (by simp)
    have ih' := fun effs => ih effs (fun u hu => hio u (by simp [hu]))
    unfold RefundPayingCoin.loop3
    by_cases hz : (m k).getD 0 = 0
    · simp [hz] at hk; simp [hk, hz, ih']
    · simp [hz] at hk; simp [hk, hz, ih', iocOf]

theorem sortAcc_nodup {keys : List Acc} (hnd : keys.Nodup) : (Go.sortAcc keys).Nodup :=
  (sortAcc_perm keys).symm.nodup hnd

theorem sortAcc_valid {keys : List Acc} (hv : ∀ u ∈ keys, validAcc u = true) :
    ∀ u ∈ Go.sortAcc keys, validAcc u = true :=
  fun u hu => hv u ((sortAcc_perm keys).mem_iff.mp hu)

/-- **AllocateSellingCoin**, as a plan: the hook first, then the transfers.  `hv`: the map keys
    are account addresses (they are bidders of recorded bids). -/
theorem tie_AllocateSellingCoin_plan (a : Auction) (g : MInfoG) (keys : List Acc) (hnd : keys.Nodup)
    (hv : ∀ u ∈ keys, validAcc u = true) :
    Gen.AllocateSellingCoin a g keys =
      (false, ⟨GName.beforeSellingCoinsAllocated, [.int (a.id : Int), .amap g.alloc, .amap g.refund]⟩ ::
              payoutEffs (.sell a.id) a.sellDenom keys g.alloc) := by
  unfold Gen.AllocateSellingCoin
  simp only [alloc_loop1, List.nil_append]
  obtain ⟨io', h1, h2⟩ := alloc_loop2 a g (Go.sortAcc keys) (fun _ => none)
    [⟨GName.beforeSellingCoinsAllocated, [.int (a.id : Int), .amap g.alloc, .amap g.refund]⟩]
    (sortAcc_nodup hnd) (sortAcc_valid hv) (fun _ _ => rfl)
  simp only [h1]
  rw [alloc_loop3 (.sell a.id) (Go.sellingCoin a).denom g.alloc io']
  · simp [payoutEffs]
  · intro u hu; rw [h2 u]; simp [hu]

/-- **RefundPayingCoin**, as a plan -/
theorem tie_RefundPayingCoin_plan (a : Auction) (g : MInfoG) (keys : List Acc) (hnd : keys.Nodup)
    (hv : ∀ u ∈ keys, validAcc u = true) :
    Gen.RefundPayingCoin a g keys = (false, payoutEffs (.pay a.id) a.payDenom keys g.refund) := by
  unfold Gen.RefundPayingCoin
  simp only [refund_loop1, List.nil_append]
  obtain ⟨io', h1, h2⟩ := refund_loop2 a g (Go.sortAcc keys) (fun _ => none)
    [] (sortAcc_nodup hnd) (sortAcc_valid hv) (fun _ _ => rfl)
  simp only [h1]
  rw [refund_loop3 (.pay a.id) a.payDenom g.refund io']
  · simp [payoutEffs]
  · intro u hu; rw [h2 u]; simp [hu]

/-- the ordered transfer sequence does not depend on the map iteration order -/
theorem tie_AllocateSellingCoin_order_independent (a : Auction) (g : MInfoG) (keys keys' : List Acc)
    (hnd : keys.Nodup) (hp : keys.Perm keys') (hv : ∀ u ∈ keys, validAcc u = true) :
    Gen.AllocateSellingCoin a g keys = Gen.AllocateSellingCoin a g keys' := by
  rw [tie_AllocateSellingCoin_plan a g keys hnd hv,
    tie_AllocateSellingCoin_plan a g keys' (hp.nodup hnd) (fun u hu => hv u (hp.mem_iff.mpr hu))]
  simp [payoutEffs, sortAcc_congr hp]

theorem tie_RefundPayingCoin_order_independent (a : Auction) (g : MInfoG) (keys keys' : List Acc)
    (hnd : keys.Nodup) (hp : keys.Perm keys') (hv : ∀ u ∈ keys, validAcc u = true) :
    Gen.RefundPayingCoin a g keys = Gen.RefundPayingCoin a g keys' := by
  rw [tie_RefundPayingCoin_plan a g keys hnd hv,
    tie_RefundPayingCoin_plan a g keys' (hp.nodup hnd) (fun u hu => hv u (hp.mem_iff.mpr hu))]
  simp [payoutEffs, sortAcc_congr hp]

/-- interpretation of the recorded `InputOutputCoins` calls (one input, one output of the same
    one-coin set) with the model's bank primitive -/
def runIO : List GEff → Ctx → M Ctx
  | [], c => pure c
  | e :: es, c =>
    match e.name, e.args with
    | .inputOutputCoins, [.bankIn i, .bankOuts [o]] =>
      if i.coins = o.coins then do
        let coins ← mkCoins c i.coins.denom i.coins.amt
        let c ← c.bankCall .io i.addr (.user o.addr) coins
        runIO es c
      else c.fail .panic
    | _, _ => c.fail .panic

theorem payOut_runIO (src : Addr) (d : Denom) (m : Acc → Option Int) (L : List Acc) (c : Ctx) :
    payOut c src d (L.map (fun u => (u, (m u).getD 0))) =
      runIO ((L.filter (fun u => decide ((m u).getD 0 ≠ 0))).map
        (fun u => ⟨GName.inputOutputCoins, [.bankIn ⟨src, ⟨d, (m u).getD 0⟩⟩, .bankOuts [⟨u, ⟨d, (m u).getD 0⟩⟩]]⟩)) c := by
  induction L generalizing c with
  | nil => simp [payOut, runIO]
  | cons k ks ih =>
    by_cases hz : (m k).getD 0 = 0
    · simp [payOut, hz, ih]
    · simp only [List.map_cons, payOut, hz, if_false, List.filter_cons, ne_eq, not_false_eq_true, decide_true, if_true, runIO]
      cases hmk : mkCoins c d ((m k).getD 0) with
      | error e => rfl
      | ok coins =>
        simp only [bind, Except.bind]
        cases hb : c.bankCall .io src (.user k) coins with
        | error e => rfl
        | ok c' => exact ih c'

/-- the model's `payOut` over the list the model keeps (keys ascending) is the interpretation
    of the translated transfers, whenever that list is the Go map read in sorted key order -/
theorem tie_payOut (c : Ctx) (src : Addr) (d : Denom) (keys : List Acc) (m : Acc → Option Int) (l : List (Acc × Int))
    (hl : l = (Go.sortAcc keys).map (fun u => (u, (m u).getD 0))) :
    payOut c src d l = runIO (payoutEffs src d keys m) c := by
  subst hl; exact payOut_runIO src d m _ c

/-- **AllocateSellingCoin** = the model's `allocateSellingCoin` (hook with the allocation and
    refund maps, then `payOut`) -/
theorem tie_AllocateSellingCoin (c : Ctx) (a : Auction) (mi : MInfo) (g : MInfoG) (keys : List Acc)
    (hnd : keys.Nodup) (hv : ∀ u ∈ keys, validAcc u = true)
    (hl : mi.alloc = (Go.sortAcc keys).map (fun u => (u, (g.alloc u).getD 0))) :
    allocateSellingCoin c a mi =
      (c.hook "BeforeSellingCoinsAllocated" ([rNat a.id] ++ rAmtMap mi.alloc ++ rAmtMap mi.refund) >>= fun c =>
        runIO (Gen.AllocateSellingCoin a g keys).2.tail c) := by
  rw [tie_AllocateSellingCoin_plan a g keys hnd hv]
  unfold allocateSellingCoin
  simp only [List.tail_cons]
  congr 1; funext c'
  exact tie_payOut c' _ _ keys g.alloc _ hl

/-- **RefundPayingCoin** = the model's `refundPayingCoin` -/
theorem tie_RefundPayingCoin (c : Ctx) (a : Auction) (mi : MInfo) (g : MInfoG) (keys : List Acc)
    (hnd : keys.Nodup) (hv : ∀ u ∈ keys, validAcc u = true)
    (hl : mi.refund = (Go.sortAcc keys).map (fun u => (u, (g.refund u).getD 0))) :
    refundPayingCoin c a mi = runIO (Gen.RefundPayingCoin a g keys).2 c := by
  rw [tie_RefundPayingCoin_plan a g keys hnd hv]
  unfold refundPayingCoin
  exact tie_payOut c _ _ keys g.refund _ hl

end Fundraising
