import Fundraising.Proofs.Tie.Refinement
import Fundraising.Proofs.Tie.Auctions
import Fundraising.Proofs.Reach
import Fundraising.Proofs.WFProofs
import Fundraising.Props.C01
import Fundraising.Props.C07
import Fundraising.Props.C18
/-
  The system as the TRANSLATED code runs it, and the theorem that it is the model.

  `stepT` is `Model/Step.step` with the module's own operations replaced by the interpretation of
  the code translated from /repo's Go source on this run: a delivered message is
  `translatedDeliver` (ValidateBasic → msgServer → Keeper), a block is `translatedBlock`
  (BeginBlocker over the snapshot of auctions → Execute… → Close… / Release…), the keeper-API
  call `AddAllowedBidders` is the translated `Keeper.AddAllowedBidders`.  Everything else (bank
  operations of third parties, genesis round trips, test controls) is the environment and is
  `step` itself.

  `runT_eq_run`: from the initial state, any history gives the same state under `stepT` and under
  `step`.  Hence every theorem about reachable states of the model (`Props/C01 … C19`) is a theorem
  about the states the translated code reaches: `ReachT st ↔ Reach st`.
-/
namespace Fundraising
open Fundraising.Gen Fundraising.Go

/-- the keeper-API call `AddAllowedBidders`, by the translated code -/
def translatedKadd (c : Ctx) (aid : Nat) (abs : List AllowedArg) : M Ctx :=
  Go.runPlanAt c aid (Gen.AddAllowedBidders (aid : Int) abs (Go.rdAuction c.s))

def stepT (st : State) : Op → Outcome × State
  | .msg m => runAtomic st true (fun c => translatedDeliver c m)
  | .kadd aid abs => runAtomic st true (fun c => translatedKadd c aid abs)
  | .block t =>
    let st := { st with core := { st.core with now := t } }
    runAtomic st false (fun c => translatedBlock c t)
  | op => step st op

def runT (st : State) (ops : List Op) : State := ops.foldl (fun s op => (stepT s op).2) st

/-- every state the translated system can be in -/
def ReachT (st : State) : Prop := ∃ ops : List Op, runT {} ops = st

theorem translatedKadd_eq (c : Ctx) (hwf : WF c.s) (aid : Nat) (abs : List AllowedArg) :
    addAllowedBidders c aid abs = translatedKadd c aid abs := by
  unfold translatedKadd Go.runPlanAt
  cases hv : c.s.views[aid]? with
  | none =>
    obtain ⟨h1, h2⟩ := tie_AddAllowedBidders_noAuction c aid abs hv
    simp [h1, h2]
  | some v => simpa using tie_AddAllowedBidders c aid abs v hv (hwf.views aid v hv).id

/-- **one step**: in a well-formed state the translated system does exactly what the model does -/
theorem stepT_eq_step (st : State) (hwf : WF st.core) (op : Op) : stepT st op = step st op := by
  cases op with
  | msg m =>
    simp only [stepT, step, runAtomic]
    rw [← refinement_deliver { s := st.core, ctl := st.ctl } hwf m]
  | kadd aid abs =>
    simp only [stepT, step, runAtomic]
    rw [← translatedKadd_eq { s := st.core, ctl := st.ctl } hwf]
  | block t =>
    have hwf' : WF ({ st.core with now := t } : Core) := ⟨hwf.params, hwf.views, hwf.switchOff⟩
    simp only [stepT, step, runAtomic]
    rw [← refinement_block { s := { st.core with now := t }, ctl := st.ctl } hwf' t]
  | _ => rfl

/-- **any history**: the translated system and the model reach the same state -/
theorem runT_eq_run (ops : List Op) : runT {} ops = run {} ops := by
  have key : ∀ (ops : List Op) (st : State), Reach st → runT st ops = run st ops := by
    intro ops
    induction ops with
    | nil => intro st _; rfl
    | cons op ops ih =>
      intro st hr
      have e := stepT_eq_step st (wf_reach st hr) op
      simp only [runT, run, List.foldl_cons] at *
      rw [e]
      exact ih _ (reach_step hr op)
  exact key ops {} reach_init

/-- the translated system reaches exactly the model's reachable states -/
theorem reachT_iff_reach (st : State) : ReachT st ↔ Reach st := by
  constructor
  · rintro ⟨ops, h⟩; exact ⟨ops, by rw [← runT_eq_run]; exact h⟩
  · rintro ⟨ops, h⟩; exact ⟨ops, by rw [runT_eq_run]; exact h⟩

/-! ### the property theorems, restated about the translated system

Each is the model's theorem transported along `reachT_iff_reach` / `stepT_eq_step`; they are
listed to make explicit what the chain of ties delivers: statements about what the code
translated from the current source does, for every history. -/

/-- C01 for the translated system: every state it reaches has its escrows covered … -/
theorem code_C01_escrow_covered (st : State) (h : ReachT st) : AllCovered st.core :=
  C01_escrow_covered st ((reachT_iff_reach st).1 h)

/-- … and exactly what the records owe in histories without third-party transfers into escrows -/
theorem code_C01_escrow_exact (ops : List Op) (h : NoEscrowGifts ops) : AllExact (runT {} ops).core := by
  rw [runT_eq_run]; exact C01_escrow_exact ops h

/-- C07 for the translated system: in every state it reaches, the translated `BeginBlocker`
    (over the snapshot of auctions) succeeds at every block time -/
theorem code_C07_block_never_fails (st : State) (h : ReachT st) (t : Int)
    (hf : st.ctl.failhook = none) (hk : st.ctl.fault = none) :
    (stepT st (.block t)).1.res = .ok := by
  have hr := (reachT_iff_reach st).1 h
  rw [stepT_eq_step st (wf_reach st hr)]
  exact C07_block_never_fails st hr t hf hk

/-- C18 for the translated system: the translated ValidateBasic → msgServer → Keeper chain accepts
    a message exactly under the documented preconditions -/
theorem code_C18_accepted_iff_preconditions (st : State) (h : ReachT st) (m : Msg)
    (hf : st.ctl.failhook = none) (hk : st.ctl.fault = none) :
    (stepT st (.msg m)).1.res = .ok ↔ Accept st.core m := by
  have hr := (reachT_iff_reach st).1 h
  rw [stepT_eq_step st (wf_reach st hr)]
  exact C18_accepted_iff_preconditions st hr m hf hk

end Fundraising
