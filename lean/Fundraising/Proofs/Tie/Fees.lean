import Fundraising.Generated.Code.Fees
import Fundraising.Tables.GoRun
/-
  The four keeper functions through which a MESSAGE moves coins (keeper/keeper.go).  The handler
  units record a call of one of them as a single effect (`payCreationFee`, `payPlaceBidFee`,
  `reserveSellingCoin`, `reservePayingCoin`); what the interpreter does for that effect is, by the
  theorems below, the interpretation of the bank / distribution calls the translated function
  makes: the fee named by the CURRENT parameters goes from the payer to the community pool; the
  reserved coin goes from the account to the selling / paying reserve of THAT auction.
-/
namespace Fundraising
open Fundraising.Gen Fundraising.Go
set_option linter.unusedSimpArgs false

theorem tie_PayCreationFee (c : Ctx) (v : AView) (u : Acc) :
    (Gen.PayCreationFee u c.s.params).1 = false ∧
    applyEff ⟨.payCreationFee, [.nat u]⟩ c v = runEffs (Gen.PayCreationFee u c.s.params).2 c v := by
  constructor
  · rfl
  · simp only [Gen.PayCreationFee, Gen.PayPlaceBidFee, Gen.ReserveSellingCoin, Gen.ReservePayingCoin, applyEff, runEffs, dstOf,
      bind, Except.bind, pure, Except.pure, List.nil_append, Int.toNat_natCast]
    repeat' (split <;> simp_all)

theorem tie_PayPlaceBidFee (c : Ctx) (v : AView) (u : Acc) :
    (Gen.PayPlaceBidFee u c.s.params).1 = false ∧
    applyEff ⟨.payPlaceBidFee, [.nat u]⟩ c v = runEffs (Gen.PayPlaceBidFee u c.s.params).2 c v := by
  constructor
  · rfl
  · simp only [Gen.PayCreationFee, Gen.PayPlaceBidFee, Gen.ReserveSellingCoin, Gen.ReservePayingCoin, applyEff, runEffs, dstOf,
      bind, Except.bind, pure, Except.pure, List.nil_append, Int.toNat_natCast]
    repeat' (split <;> simp_all)

theorem tie_ReserveSellingCoin (c : Ctx) (v : AView) (a : Nat) (u : Acc) (cn : Coin) :
    (Gen.ReserveSellingCoin (a : Int) u cn).1 = false ∧
    applyEff ⟨.reserveSellingCoin, [.int a, .nat u, .coin cn]⟩ c v = runEffs (Gen.ReserveSellingCoin (a : Int) u cn).2 c v := by
  constructor
  · rfl
  · simp only [Gen.PayCreationFee, Gen.PayPlaceBidFee, Gen.ReserveSellingCoin, Gen.ReservePayingCoin, applyEff, runEffs, dstOf,
      bind, Except.bind, pure, Except.pure, List.nil_append, Int.toNat_natCast]
    repeat' (split <;> simp_all)

theorem tie_ReservePayingCoin (c : Ctx) (v : AView) (a : Nat) (u : Acc) (cn : Coin) :
    (Gen.ReservePayingCoin (a : Int) u cn).1 = false ∧
    applyEff ⟨.reservePayingCoin, [.int a, .nat u, .coin cn]⟩ c v = runEffs (Gen.ReservePayingCoin (a : Int) u cn).2 c v := by
  constructor
  · rfl
  · simp only [Gen.PayCreationFee, Gen.PayPlaceBidFee, Gen.ReserveSellingCoin, Gen.ReservePayingCoin, applyEff, runEffs, dstOf,
      bind, Except.bind, pure, Except.pure, List.nil_append, Int.toNat_natCast]
    repeat' (split <;> simp_all)

end Fundraising
