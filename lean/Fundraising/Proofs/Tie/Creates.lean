import Fundraising.Generated.Code.Auctions
import Fundraising.Tables.GoRun
import Fundraising.Proofs.Tie.Pure
import Fundraising.Proofs.ExecLemmas
/-
  Tie of the translated `Keeper.CreateFixedPriceAuction` / `Keeper.CreateBatchAuction`
  (keeper/auction.go) to `createAuction` of Model/Keeper.lean.
-/
namespace Fundraising
open Fundraising.Gen Fundraising.Go

/-- **CreateFixedPriceAuction.**  `hacc`: `ValidateBasic` accepted the auctioneer address. -/
theorem tie_CreateFixedPriceAuction (c : Ctx) (m : CreateMsg) (hty : m.type = .fixed) (hacc : validAcc m.auctioneer = true) :
    createAuction c m =
      Go.runPlanNew c ({ a := default } : AView) (Gen.CreateFixedPriceAuction m c.s.now (c.s.views.length : Int)).2 := by
  sorry

/-- **CreateBatchAuction.** -/
theorem tie_CreateBatchAuction (c : Ctx) (m : CreateMsg) (hty : m.type = .batch) (hacc : validAcc m.auctioneer = true) :
    createAuction c m =
      Go.runPlanNew c ({ a := default } : AView) (Gen.CreateBatchAuction m c.s.now (c.s.views.length : Int)).2 := by
  sorry

end Fundraising
