import Fundraising.Generated.Code.Auctions
import Fundraising.Tables.GoRun
import Fundraising.Proofs.Tie.Pure
import Fundraising.Proofs.ExecLemmas
/-
  Tie of the translated `Keeper.CreateFixedPriceAuction` / `Keeper.CreateBatchAuction`
  (keeper/auction.go) to `createAuction` of Model/Keeper.lean.
-/
namespace Fundraising
open Fundraising.Gen Fundraising.Go

-- the simp sets below name every fact the handlers could test, in every spelling: which of them
-- a given translation of the Go source uses depends on how that source is factored
set_option linter.unusedSimpArgs false

/-- the hook dispatcher does not look at the module state: it commutes with any change of `s` -/
private theorem dispatchTo_withS (name : String) (args : List String) (is : List Nat) (c : Ctx) (s' : Core) :
    dispatchTo name args is { c with s := s' } =
      match dispatchTo name args is c with
      | .ok c' => .ok { c' with s := s' }
      | .error e => .error e := by
  induction is generalizing c with
  | nil => simp [dispatchTo]
  | cons i is ih =>
    unfold dispatchTo
    by_cases hf : c.ctl.failhook = some (name, i)
    · simp [hf, Ctx.fail]
    · simp only [hf, if_false]
      exact ih { c with effs := c.effs ++ [Eff.hook i name args] }

private theorem hook_withS (c : Ctx) (name : String) (args : List String) (s' : Core) :
    Ctx.hook { c with s := s' } name args =
      match c.hook name args with
      | .ok c' => .ok { c' with s := s' }
      | .error e => .error e := by
  unfold Ctx.hook
  exact dispatchTo_withS name args _ c s'

/-- a bank call does not touch the block time -/
private theorem bankCall_now {c c' : Ctx} {k : XKind} {src dst : Addr} {coins : List Coin}
    (h : c.bankCall k src dst coins = .ok c') : c'.s.now = c.s.now := by
  obtain ⟨_, b, _, rfl⟩ := bankCall_ok h
  rfl

/-- **CreateFixedPriceAuction.**  `hacc`: `ValidateBasic` accepted the auctioneer address. -/
theorem tie_CreateFixedPriceAuction (c : Ctx) (m : CreateMsg) (hty : m.type = .fixed) (hacc : validAcc m.auctioneer = true) :
    createAuction c m =
      Go.runPlanNew c ({ a := default } : AView) (Gen.CreateFixedPriceAuction m c.s.now (c.s.views.length : Int)).2 := by
  unfold createAuction
  -- the case analysis is done on the MODEL-level guards first; the translated handler is only
  -- unfolded under a complete set of facts, so that it reduces whatever its control structure is
  by_cases h1 : c.s.now > m.endTime
  · simp [Gen.CreateFixedPriceAuction, h1, runPlanNew, Ctx.check, Ctx.fail, bind, Except.bind, pure, Except.pure]
  by_cases h2 : (m.schedules.length : Int) > 100
  · have : ¬ m.schedules.length ≤ 100 := by omega
    simp [Gen.CreateFixedPriceAuction, h1, h2, this, runPlanNew, Ctx.check, Ctx.fail, bind, Except.bind, pure, Except.pure]
  have h2' : m.schedules.length ≤ 100 := by omega
  by_cases h4 : m.startTime ≤ c.s.now
  all_goals
  simp only [Gen.CreateFixedPriceAuction, hty, hacc, h1, h2, h2', h4, tie_ShouldAuctionStarted, newBaseAuction,
    newFixedPriceAuction, sellingCoin, index, Int.toNat_natCast, List.nil_append, List.cons_append, List.append_nil, List.append_assoc,
    apply_ite Prod.fst, apply_ite Prod.snd, ite_self, and_self, and_true, true_and, decide_true, decide_false,
    Bool.not_true, Bool.not_false, if_true, if_false, Bool.false_eq_true, ite_true, ite_false]
  simp only [runPlanNew, Ctx.check, runEffs_cons, runEffs_nil, applyEff]
  have hargs0 : createHookArgs m none =
      [rAcc m.auctioneer, rInt m.startPrice, rNat m.sellDenom, rInt m.sellAmt, rNat m.payDenom] ++
        rSchedules m.schedules ++ [rInt m.startTime, rInt m.endTime] := by
    simp [createHookArgs, hty]
  have hargs1 : createHookArgs m (some c.s.views.length) =
      [rNat c.s.views.length, rAcc m.auctioneer, rInt m.startPrice, rNat m.sellDenom, rInt m.sellAmt, rNat m.payDenom] ++
        rSchedules m.schedules ++ [rInt m.startTime, rInt m.endTime] := by
    simp [createHookArgs, hty]
  simp only [hargs0, hargs1, hook_withS, Int.toNat_natCast, Int.toNat_zero, List.getD_cons_zero, List.cons_append, List.nil_append]
  cases hfee : c.bankCall XKind.pool (Addr.user m.auctioneer) Addr.pool c.s.params.creationFee with
  | error e => simp [bind, Except.bind]
  | ok c1 =>
    have n1 := bankCall_now hfee
    cases hmk : mkCoins c1 m.sellDenom m.sellAmt with
    | error e => simp [hmk, bind, Except.bind, pure, Except.pure]
    | ok coins =>
      cases hsend : c1.bankCall XKind.send (Addr.user m.auctioneer) (Addr.sell c.s.views.length) coins with
      | error e => simp [hmk, hsend, bind, Except.bind, pure, Except.pure]
      | ok c2 =>
        have n2 := bankCall_now hsend
        cases hb : c2.hook "BeforeFixedPriceAuctionCreated" (rAcc m.auctioneer :: rInt m.startPrice :: rNat m.sellDenom :: rInt m.sellAmt :: rNat m.payDenom ::
                (rSchedules m.schedules ++ [rInt m.startTime, rInt m.endTime])) with
        | error e => simp [hmk, hsend, hb, bind, Except.bind, pure, Except.pure]
        | ok c3 =>
          cases ha : c3.hook "AfterFixedPriceAuctionCreated" (rNat c.s.views.length :: rAcc m.auctioneer :: rInt m.startPrice :: rNat m.sellDenom :: rInt m.sellAmt ::
                  rNat m.payDenom :: (rSchedules m.schedules ++ [rInt m.startTime, rInt m.endTime])) with
          | error e => simp [hmk, hsend, hb, ha, bind, Except.bind, pure, Except.pure]
          | ok c4 =>
            have s4 := (hook_ok ha).1
            simp [hmk, hsend, hb, ha, bind, Except.bind, pure, Except.pure, s4, n1, n2, h4]
/-- **CreateBatchAuction.** -/
theorem tie_CreateBatchAuction (c : Ctx) (m : CreateMsg) (hty : m.type = .batch) (hacc : validAcc m.auctioneer = true) :
    createAuction c m =
      Go.runPlanNew c ({ a := default } : AView) (Gen.CreateBatchAuction m c.s.now (c.s.views.length : Int)).2 := by
  unfold createAuction
  by_cases h1 : c.s.now > m.endTime
  · simp [Gen.CreateBatchAuction, h1, runPlanNew, Ctx.check, Ctx.fail, bind, Except.bind, pure, Except.pure]
  by_cases h2 : (m.schedules.length : Int) > 100
  · have : ¬ m.schedules.length ≤ 100 := by omega
    simp [Gen.CreateBatchAuction, h1, h2, this, runPlanNew, Ctx.check, Ctx.fail, bind, Except.bind, pure, Except.pure]
  have h2' : m.schedules.length ≤ 100 := by omega
  by_cases h3 : (m.maxExt : Int) > 30
  · have : ¬ m.maxExt ≤ 30 := by omega
    simp [Gen.CreateBatchAuction, hty, h1, h2, h2', h3, this, runPlanNew, Ctx.check, Ctx.fail, bind, Except.bind, pure, Except.pure]
  have h3' : m.maxExt ≤ 30 := by omega
  by_cases h4 : m.startTime ≤ c.s.now
  all_goals
  simp only [Gen.CreateBatchAuction, hty, hacc, h1, h2, h2', h3, h3', h4, tie_ShouldAuctionStarted, newBaseAuction,
    newBatchAuction, sellingCoin, index, Int.toNat_natCast, List.nil_append, List.cons_append, List.append_nil, List.append_assoc,
    apply_ite Prod.fst, apply_ite Prod.snd, ite_self, and_self, and_true, true_and, decide_true, decide_false,
    Bool.not_true, Bool.not_false, if_true, if_false, Bool.false_eq_true, ite_true, ite_false]
  simp only [runPlanNew, Ctx.check, runEffs_cons, runEffs_nil, applyEff]
  have hargs0 : createHookArgs m none =
      [rAcc m.auctioneer, rInt m.startPrice, rInt m.minBid, rNat m.sellDenom, rInt m.sellAmt, rNat m.payDenom] ++
        rSchedules m.schedules ++ [rNat m.maxExt, rInt m.rate, rInt m.startTime, rInt m.endTime] := by
    simp [createHookArgs, hty]
  have hargs1 : createHookArgs m (some c.s.views.length) =
      [rNat c.s.views.length, rAcc m.auctioneer, rInt m.startPrice, rInt m.minBid, rNat m.sellDenom, rInt m.sellAmt, rNat m.payDenom] ++
        rSchedules m.schedules ++ [rNat m.maxExt, rInt m.rate, rInt m.startTime, rInt m.endTime] := by
    simp [createHookArgs, hty]
  simp only [hargs0, hargs1, hook_withS, Int.toNat_natCast, Int.toNat_zero, List.getD_cons_zero, List.cons_append, List.nil_append]
  cases hfee : c.bankCall XKind.pool (Addr.user m.auctioneer) Addr.pool c.s.params.creationFee with
  | error e => simp [bind, Except.bind]
  | ok c1 =>
    have n1 := bankCall_now hfee
    cases hmk : mkCoins c1 m.sellDenom m.sellAmt with
    | error e => simp [hmk, bind, Except.bind, pure, Except.pure]
    | ok coins =>
      cases hsend : c1.bankCall XKind.send (Addr.user m.auctioneer) (Addr.sell c.s.views.length) coins with
      | error e => simp [hmk, hsend, bind, Except.bind, pure, Except.pure]
      | ok c2 =>
        have n2 := bankCall_now hsend
        cases hb : c2.hook "BeforeBatchAuctionCreated" (rAcc m.auctioneer :: rInt m.startPrice :: rInt m.minBid :: rNat m.sellDenom :: rInt m.sellAmt :: rNat m.payDenom ::
                (rSchedules m.schedules ++ [rNat m.maxExt, rInt m.rate, rInt m.startTime, rInt m.endTime])) with
        | error e => simp [hmk, hsend, hb, bind, Except.bind, pure, Except.pure]
        | ok c3 =>
          cases ha : c3.hook "AfterBatchAuctionCreated" (rNat c.s.views.length :: rAcc m.auctioneer :: rInt m.startPrice :: rInt m.minBid :: rNat m.sellDenom :: rInt m.sellAmt ::
                  rNat m.payDenom :: (rSchedules m.schedules ++ [rNat m.maxExt, rInt m.rate, rInt m.startTime, rInt m.endTime])) with
          | error e => simp [hmk, hsend, hb, ha, bind, Except.bind, pure, Except.pure]
          | ok c4 =>
            have s4 := (hook_ok ha).1
            simp [hmk, hsend, hb, ha, bind, Except.bind, pure, Except.pure, s4, n1, n2, h4]

end Fundraising
