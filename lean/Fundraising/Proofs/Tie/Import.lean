import Fundraising.Generated.Code.Import
import Fundraising.Proofs.Tie.Genesis
/-
  Tie of the translated `InitGenesis` (module/genesis.go) to `initGenesis` of Model/Genesis.lean.

  `InitGenesis` reads back what it has just written (`k.Auction.Get` for every bid and vesting
  queue, the per-auction bid sequence), so it is translated STORE-THREADED: the collections API is
  interpreted on an explicit store value (`GStore`, Tables/GoStore.lean) that the generated code
  passes along; no oracle parameters.
-/
namespace Fundraising
open Fundraising.Gen Fundraising.Go

namespace ImportTie

/-- the final pass of the model's `initGenesis` on one view -/
def fix (v : AView) : AView :=
  if v.a.type = .batch then { v with matchedLen := countMatched v.bids } else v

theorem setBid_fresh' (l : List Bid) (b : Bid) (h : ∀ x ∈ l, x.id ≠ b.id) : setBid l b = l ++ [b] := by
  unfold setBid
  have : l.any (·.id == b.id) = false := by
    simp only [List.any_eq_false, beq_iff_eq]
    exact fun x hx => h x hx
  simp [this]

theorem modify_eq (s : GStore) (aid : Int) (f : AView → AView) :
    s.modify aid f = match modifyView s.views aid.toNat f with
      | some vs => { s with views := vs }
      | none => s := by
  unfold GStore.modify modifyView
  cases s.views[aid.toNat]? <;> rfl

theorem modifyView_length {vs vs' : List AView} {i : Nat} {f : AView → AView}
    (h : modifyView vs i f = some vs') : vs'.length = vs.length := by
  unfold modifyView at h
  cases hv : vs[i]? <;> simp [hv] at h
  subst h; simp

theorem modifyView_all (P : AView → Prop) {vs vs' : List AView} {i : Nat} {f : AView → AView}
    (hf : ∀ v, P v → P (f v)) (hP : ∀ v ∈ vs, P v)
    (h : modifyView vs i f = some vs') : ∀ v ∈ vs', P v := by
  unfold modifyView at h
  cases hv : vs[i]? <;> simp [hv] at h
  subst h
  intro v hm
  rcases List.mem_or_eq_of_mem_set hm with h1 | h1
  · exact hP v h1
  · subst h1; exact hf _ (hP _ (List.mem_of_getElem? hv))

/-- `modifyView` under a map of the views -/
theorem modifyView_map (g : AView → AView) (vs : List AView) (i : Nat) (f f' : AView → AView)
    (h : ∀ v, vs[i]? = some v → f' (g v) = g (f v)) :
    modifyView (vs.map g) i f' = (modifyView vs i f).map (List.map g) := by
  unfold modifyView
  cases hv : vs[i]? with
  | none => simp [hv]
  | some v => simp [hv, h v hv, List.map_set]

/-! ### loop1 -/

theorem loop1_spec (l : List Auction) : ∀ (st : GStore), st.views.length = st.seq →
    InitGenesis.loop1 l st = Loop.done { st with
      seq := st.seq + l.length,
      views := st.views ++ (l.zipIdx st.seq).map (fun p => ({ a := { p.1 with id := p.2 } } : AView)) } := by
  induction l with
  | nil => intro st _; simp [InitGenesis.loop1]
  | cons a rest ih =>
    intro st h
    have hs : GStore.auctionSet (GStore.seqNext st).2 (GStore.seqNext st).1
          { a with id := ((GStore.seqNext st).1).toNat }
        = { st with seq := st.seq + 1, views := st.views ++ [({ a := { a with id := st.seq } } : AView)] } := by
      simp [GStore.auctionSet, GStore.seqNext, h]
    simp only [InitGenesis.loop1, hs]
    rw [ih _ (by simp [h])]
    simp [List.zipIdx_cons, Nat.add_comm, Nat.add_left_comm]

/-! ### loop2 -/

def stepA (vs : List AView) (p : Nat × Allowed) : Option (List AView) :=
  modifyView vs p.1 (fun v => { v with allowed := setAllowed v.allowed p.2 })

/-- a freshly imported view: no bids yet -/
def Fresh (v : AView) : Prop := v.bids = [] ∧ v.matchedLen = 0

theorem loop2_spec (l : List (Nat × Allowed)) : ∀ (st : GStore),
    (∀ p ∈ l, p.1 < st.views.length) → (∀ p ∈ l, validAcc p.2.bidder = true) →
    (∀ v ∈ st.views, Fresh v) →
    ∃ vs', l.foldlM stepA st.views = some vs' ∧ (∀ v ∈ vs', Fresh v) ∧
      InitGenesis.loop2 (l.map (fun p => (⟨p.1, p.2.bidder, p.2.cap⟩ : AllowedArg))) st
        = Loop.done { st with views := vs' } := by
  induction l with
  | nil => intro st _ _ hF; exact ⟨st.views, by simp, hF, by simp [InitGenesis.loop2]⟩
  | cons p rest ih =>
    intro st hA hAv hF
    have hp := hA p (by simp)
    have hv := hAv p (by simp)
    obtain ⟨v, hget⟩ : ∃ v, st.views[p.1]? = some v := ⟨st.views[p.1], by simp [hp]⟩
    have hstep : stepA st.views p = some (st.views.set p.1 { v with allowed := setAllowed v.allowed p.2 }) := by
      simp [stepA, modifyView, hget]
    have hset : GStore.allowedSet st ((p.1 : Nat) : Int) p.2.bidder ⟨p.1, p.2.bidder, p.2.cap⟩
        = { st with views := st.views.set p.1 { v with allowed := setAllowed v.allowed p.2 } } := by
      simp [GStore.allowedSet, GStore.modify, hget]
    have hF' : ∀ w ∈ st.views.set p.1 { v with allowed := setAllowed v.allowed p.2 }, Fresh w := by
      intro w hm
      rcases List.mem_or_eq_of_mem_set hm with h1 | h1
      · exact hF w h1
      · subst h1; exact hF v (List.mem_of_getElem? hget)
    obtain ⟨vs', h1, h2, h3⟩ := ih { st with views := st.views.set p.1 { v with allowed := setAllowed v.allowed p.2 } }
      (by intro q hq; simpa using hA q (by simp [hq]))
      (by intro q hq; exact hAv q (by simp [hq])) hF'
    refine ⟨vs', ?_, h2, ?_⟩
    · simp only [List.foldlM_cons, hstep]; exact h1
    · simp only [List.map_cons, InitGenesis.loop2, hv, Bool.not_true, Bool.false_eq_true, if_false, hset]
      exact h3

/-! ### loop3 -/

@[simp] theorem fix_a (v : AView) : (fix v).a = v.a := by unfold fix; split <;> rfl
@[simp] theorem fix_bids (v : AView) : (fix v).bids = v.bids := by unfold fix; split <;> rfl
@[simp] theorem fix_bidSeq (v : AView) : (fix v).bidSeq = v.bidSeq := by unfold fix; split <;> rfl
@[simp] theorem fix_vqs (v : AView) : (fix v).vqs = v.vqs := by unfold fix; split <;> rfl
@[simp] theorem fix_allowed (v : AView) : (fix v).allowed = v.allowed := by unfold fix; split <;> rfl

def newView (v : AView) (b : Bid) : AView :=
  { v with bids := v.bids ++ [{ b with id := v.bidSeq + 1 }], bidSeq := v.bidSeq + 1 }

def stepB (vs : List AView) (b : Bid) : Option (List AView) :=
  modifyView vs b.auction (fun v =>
      let id := v.bidSeq + 1
      { v with bids := v.bids ++ [{ b with id := id }], bidSeq := id })

def InvM (m : Int → Option Int) (mvs : List AView) : Prop :=
  ∀ (i : Nat) (v : AView), mvs[i]? = some v →
    (∀ b ∈ v.bids, b.id ≤ v.bidSeq) ∧ (v.a.type = .batch → (m (i : Int)).getD 0 = countMatched v.bids)

theorem countMatched_append (l : List Bid) (b : Bid) :
    countMatched (l ++ [b]) = countMatched l + (if b.matched then 1 else 0) := by
  unfold countMatched
  cases h : b.matched <;> simp [List.filter_append, h]

theorem InvM_set (m m' : Int → Option Int) (mvs : List AView) (k : Nat) (v : AView) (b : Bid)
    (hget : mvs[k]? = some v) (hI : InvM m mvs)
    (hm : ∀ i : Nat, i ≠ k → m' (i : Int) = m (i : Int))
    (hk : v.a.type = .batch → (m' (k : Int)).getD 0 = countMatched v.bids + (if b.matched then 1 else 0)) :
    InvM m' (mvs.set k (newView v b)) := by
  intro i w hw
  by_cases hik : i = k
  · subst hik
    have hlt : i < mvs.length := by
      rcases List.getElem?_eq_some_iff.mp hget with ⟨h, _⟩; exact h
    rw [List.getElem?_set_self hlt] at hw
    cases hw
    have h0 := hI i v hget
    refine ⟨?_, ?_⟩
    · intro x hx
      simp only [newView, List.mem_append, List.mem_singleton] at hx ⊢
      rcases hx with hx | hx
      · have := h0.1 x hx; omega
      · subst hx; simp
    · intro ht
      simp only [newView] at ht ⊢
      rw [countMatched_append]
      exact hk ht
  · rw [List.getElem?_set_ne (Ne.symm hik)] at hw
    have h0 := hI i w hw
    exact ⟨h0.1, fun ht => by rw [hm i hik]; exact h0.2 ht⟩

theorem modify_some (st : GStore) (k : Nat) (gv : AView) (f : AView → AView)
    (h : st.views[k]? = some gv) :
    st.modify (k : Int) f = { st with views := st.views.set k (f gv) } := by
  simp [GStore.modify, h]

theorem get_set_some (vs : List AView) (k : Nat) (gv w : AView) (h : vs[k]? = some gv) :
    (vs.set k w)[k]? = some w := by
  have hlt : k < vs.length := by
    rcases List.getElem?_eq_some_iff.mp h with ⟨h, _⟩; exact h
  simp [hlt]

/-- the store writes of one round: optional `SetMatchedBidsLen`, then next bid id and `Bid.Set` -/
theorem bidWrites (st : GStore) (k : Nat) (gv : AView) (b : Bid) (anyid : Int)
    (h : st.views[k]? = some gv) (hfresh : ∀ x ∈ gv.bids, x.id ≠ gv.bidSeq + 1) :
    GStore.bidSet (GStore.nextBidId st (k : Int)).2 (k : Int)
        anyid
        { b with id := ((GStore.nextBidId st (k : Int)).1).toNat }
      = { st with views := st.views.set k ({ gv with bids := gv.bids ++ [{ b with id := gv.bidSeq + 1 }], bidSeq := gv.bidSeq + 1 }) } := by
  have h1 : GStore.nextBidId st (k : Int)
      = (((gv.bidSeq + 1 : Nat) : Int), { st with views := st.views.set k ({ gv with bidSeq := gv.bidSeq + 1 }) }) := by
    simp [GStore.nextBidId, h, modify_some st k gv _ h]
  rw [h1]
  simp only [Int.toNat_natCast]
  unfold GStore.bidSet
  rw [modify_some _ k _ _ (get_set_some _ _ _ _ h)]
  simp only [List.set_set]
  rw [setBid_fresh' _ _ (by simpa using hfresh)]

/-- one round of the Go loop on the store -/
theorem goStep (st : GStore) (mvs : List AView) (m : Int → Option Int) (b : Bid) (v : AView)
    (hst : st.views = mvs.map fix) (hget : mvs[b.auction]? = some v) (hI : InvM m mvs) :
    ∃ m', InvM m' (mvs.set b.auction (newView v b)) ∧ ∀ rest,
      InitGenesis.loop3 (b :: rest) m st
        = InitGenesis.loop3 rest m' { st with views := (mvs.set b.auction (newView v b)).map fix } := by
  have hg : st.views[b.auction]? = some (fix v) := by simp [hst, hget]
  have h0 := hI _ v hget
  have hfresh : ∀ x ∈ v.bids, x.id ≠ v.bidSeq + 1 := by
    intro x hx; have := h0.1 x hx; omega
  by_cases hc : v.a.type = .batch ∧ b.matched = true
  · refine ⟨Go.mapSet m (b.auction : Int) (((m (b.auction : Int)).getD 0) + 1), ?_, ?_⟩
    · apply InvM_set m _ mvs _ v b hget hI
      · intro i hik
        have : ¬ ((i : Int) = (b.auction : Int)) := by omega
        simp [Go.mapSet, this]
      · intro ht; simp [Go.mapSet, hc.2, h0.2 ht]
    · intro rest
      rw [InitGenesis.loop3]
      have hc' : ((true && decide (v.a.type = AType.batch)) && b.matched) = true := by simp [hc.1, hc.2]
      simp only [GStore.auctionGet, Int.toNat_natCast, hg, fix_a, Bool.false_eq_true, if_false,
        Bool.not_false, hc', if_true]
      congr 1
      unfold GStore.matchedLenSet
      rw [modify_some st _ _ _ hg]
      rw [bidWrites _ b.auction _ b _ (get_set_some _ _ _ _ hg) (by simpa using hfresh)]
      simp only [List.set_set, hst, List.map_set]
      congr 2
      simp [fix, newView, hc.1, countMatched_append, hc.2, h0.2 hc.1, Go.mapSet]
  · refine ⟨m, ?_, ?_⟩
    · apply InvM_set m _ mvs _ v b hget hI
      · intro i _; rfl
      · intro ht
        have : b.matched = false := by
          cases hb : b.matched
          · rfl
          · exact absurd ⟨ht, hb⟩ hc
        simp [this, h0.2 ht]
    · intro rest
      have hc' : ((true && decide (v.a.type = AType.batch)) && b.matched) = false := by
        cases hb : b.matched
        · simp
        · have : ¬ v.a.type = .batch := fun ht => hc ⟨ht, hb⟩
          simp [this]
      rw [InitGenesis.loop3]
      simp only [GStore.auctionGet, Int.toNat_natCast, hg, fix_a, Bool.false_eq_true, if_false,
        Bool.not_false, hc']
      congr 1
      rw [bidWrites _ b.auction _ b _ hg (by simpa using hfresh)]
      simp only [hst, List.map_set]
      congr 2
      unfold fix
      by_cases ht : v.a.type = .batch
      · have : b.matched = false := by
          cases hb : b.matched
          · rfl
          · exact absurd ⟨ht, hb⟩ hc
        simp [ht, newView, countMatched_append, this]
      · simp [ht, newView]

theorem loop3_spec (l : List Bid) : ∀ (m : Int → Option Int) (mvs : List AView) (st : GStore),
    st.views = mvs.map fix → InvM m mvs →
    match l.foldlM stepB mvs with
    | none => ∃ st', InitGenesis.loop3 l m st = Loop.ret (true, st')
    | some mvs' => ∃ m', InitGenesis.loop3 l m st = Loop.done (m', { st with views := mvs'.map fix }) := by
  induction l with
  | nil =>
    intro m mvs st hst _
    simp only [List.foldlM_nil, pure, InitGenesis.loop3]
    exact ⟨m, by rw [← hst]⟩
  | cons b rest ih =>
    intro m mvs st hst hI
    cases hget : mvs[b.auction]? with
    | none =>
      have : stepB mvs b = none := by simp [stepB, modifyView, hget]
      simp only [List.foldlM_cons, this, bind, Option.bind]
      refine ⟨st, ?_⟩
      rw [InitGenesis.loop3]
      simp [GStore.auctionGet, hst, hget]
    | some v =>
      have hs : stepB mvs b = some (mvs.set b.auction (newView v b)) := by
        simp [stepB, modifyView, hget, newView]
      obtain ⟨m', hI', hgo⟩ := goStep st mvs m b v hst hget hI
      simp only [List.foldlM_cons, hs, bind, Option.bind, hgo]
      exact ih m' _ _ rfl hI'

/-! ### loop4 -/

def stepV (vs : List AView) (q : VQ) : Option (List AView) :=
  modifyView vs q.auction (fun v => { v with vqs := setVQ v.vqs q })

theorem fix_vq (v : AView) (l : List VQ) : fix { v with vqs := l } = { fix v with vqs := l } := by
  unfold fix; split <;> rfl

theorem loop4_spec (l : List VQ) : ∀ (mvs : List AView) (st : GStore),
    st.views = mvs.map fix →
    match l.foldlM stepV mvs with
    | none => ∃ st', InitGenesis.loop4 l st = Loop.ret (true, st')
    | some mvs' => InitGenesis.loop4 l st = Loop.done { st with views := mvs'.map fix } := by
  induction l with
  | nil =>
    intro mvs st hst
    simp only [List.foldlM_nil, pure, InitGenesis.loop4]
    rw [← hst]
  | cons q rest ih =>
    intro mvs st hst
    cases hget : mvs[q.auction]? with
    | none =>
      have : stepV mvs q = none := by simp [stepV, modifyView, hget]
      simp only [List.foldlM_cons, this, bind, Option.bind]
      refine ⟨st, ?_⟩
      rw [InitGenesis.loop4]
      simp [GStore.auctionGet, hst, hget]
    | some v =>
      have hs : stepV mvs q = some (mvs.set q.auction { v with vqs := setVQ v.vqs q }) := by
        simp [stepV, modifyView, hget]
      have hg : st.views[q.auction]? = some (fix v) := by simp [hst, hget]
      have hgo : InitGenesis.loop4 (q :: rest) st
          = InitGenesis.loop4 rest { st with views := (mvs.set q.auction { v with vqs := setVQ v.vqs q }).map fix } := by
        rw [InitGenesis.loop4]
        simp only [GStore.auctionGet, Int.toNat_natCast, hg, Bool.false_eq_true, if_false]
        congr 1
        unfold GStore.vqSet
        rw [modify_some st _ _ _ hg]
        simp only [hst, List.map_set, fix_vq, fix_vqs]
      simp only [List.foldlM_cons, hs, bind, Option.bind, hgo]
      exact ih _ _ rfl

/-! ### the whole import -/

theorem initGenesis_eq (g : Genesis) :
    initGenesis g =
      ((g.allowed.foldlM stepA
          (g.auctions.zipIdx.map (fun p => ({ a := { p.1 with id := p.2 } } : AView)))).bind fun v1 =>
        (g.bids.foldlM stepB v1).bind fun v2 =>
          (g.vqs.foldlM stepV v2).bind fun v3 => some (v3.map fix)) := rfl

theorem norm1 (G : GenesisG) :
    (if (decide ((G.params.creationFee.length : Int) = (0 : Int))) then
      ({ G with params := ({ G.params with creationFee := (default : (List Coin)) }) } : GenesisG) else G) = G := by
  split
  · rename_i h
    have : G.params.creationFee = [] := by
      have : G.params.creationFee.length = 0 := by simpa using h
      exact List.eq_nil_of_length_eq_zero this
    rcases G with ⟨⟨cf, bf, x⟩, a, al, b, q⟩
    simp only at this
    subst this
    rfl
  · rfl

theorem norm2 (G : GenesisG) :
    (if (decide ((G.params.bidFee.length : Int) = (0 : Int))) then
      ({ G with params := ({ G.params with bidFee := (default : (List Coin)) }) } : GenesisG) else G) = G := by
  split
  · rename_i h
    have : G.params.bidFee = [] := by
      have : G.params.bidFee.length = 0 := by simpa using h
      exact List.eq_nil_of_length_eq_zero this
    rcases G with ⟨⟨cf, bf, x⟩, a, al, b, q⟩
    simp only at this
    subst this
    rfl
  · rfl

/-! ### a loop leaves early only with an error

  (`Loop.ret r` always carries `r.1 = true`; this is what makes "return the loop's result at once"
  and "hand `(err, store)` to a caller that goes on iff `err` is false" the same function) -/

theorem loop1_ret (l : List Auction) : ∀ (st : GStore) (r : Bool × GStore),
    InitGenesis.loop1 l st = Loop.ret r → r.1 = true := by
  induction l with
  | nil => intro st r h; simp [InitGenesis.loop1] at h
  | cons a rest ih =>
    intro st r h
    rw [InitGenesis.loop1] at h
    exact ih _ _ h

theorem loop2_ret (l : List AllowedArg) : ∀ (st : GStore) (r : Bool × GStore),
    InitGenesis.loop2 l st = Loop.ret r → r.1 = true := by
  induction l with
  | nil => intro st r h; simp [InitGenesis.loop2] at h
  | cons a rest ih =>
    intro st r h
    rw [InitGenesis.loop2] at h
    simp only at h
    split at h
    · rename_i he
      cases h
      simpa using he
    · exact ih _ _ h

theorem loop3_ret (l : List Bid) : ∀ (m : Int → Option Int) (st : GStore) (r : Bool × GStore),
    InitGenesis.loop3 l m st = Loop.ret r → r.1 = true := by
  induction l with
  | nil => intro m st r h; simp [InitGenesis.loop3] at h
  | cons a rest ih =>
    intro m st r h
    rw [InitGenesis.loop3] at h
    simp only at h
    split at h
    · cases h; rfl
    · split at h
      · exact ih _ _ _ h
      · exact ih _ _ _ h

theorem loop4_ret (l : List VQ) : ∀ (st : GStore) (r : Bool × GStore),
    InitGenesis.loop4 l st = Loop.ret r → r.1 = true := by
  induction l with
  | nil => intro st r h; simp [InitGenesis.loop4] at h
  | cons a rest ih =>
    intro st r h
    rw [InitGenesis.loop4] at h
    simp only at h
    split at h
    · cases h; rfl
    · exact ih _ _ h

theorem InitGenesis_eq (G : GenesisG) (st : GStore) :
    Gen.InitGenesis G st =
      match InitGenesis.loop1 G.auctions st with
      | Loop.ret r => r
      | Loop.done st =>
        match InitGenesis.loop2 G.allowed st with
        | Loop.ret r => r
        | Loop.done st =>
          match InitGenesis.loop3 G.bids (fun _ => none) st with
          | Loop.ret r => r
          | Loop.done (_, st) =>
            match InitGenesis.loop4 G.vqs st with
            | Loop.ret r => r
            | Loop.done st => (false, GStore.paramsSet st G.params) := by
  unfold Gen.InitGenesis
  have e1 : (if (decide ((G.params.creationFee.length : Int) = (0 : Int))) then
      (({ G with params := ({ G.params with creationFee := (default : (List Coin)) }) } : GenesisG), st) else (G, st))
      = (G, st) := by
    have := norm1 G
    split at this <;> simp_all
  simp only [e1]
  have e2 : (if (decide ((G.params.bidFee.length : Int) = (0 : Int))) then
      (({ G with params := ({ G.params with bidFee := (default : (List Coin)) }) } : GenesisG), st) else (G, st))
      = (G, st) := by
    have := norm2 G
    split at this <;> simp_all
  simp only [e2]
  first
  | rfl
  | (cases h1 : InitGenesis.loop1 G.auctions st with
     | ret r1 =>
       have := loop1_ret _ _ _ h1
       obtain ⟨e, s'⟩ := r1
       simp only at this
       subst this
       simp
     | done s1 =>
       simp only [Bool.false_eq_true, if_false]
       cases h2 : InitGenesis.loop2 G.allowed s1 with
       | ret r2 =>
         have := loop2_ret _ _ _ h2
         obtain ⟨e, s'⟩ := r2
         simp only at this
         subst this
         simp
       | done s2 =>
         simp only [Bool.false_eq_true, if_false]
         cases h3 : InitGenesis.loop3 G.bids (fun _ => none) s2 with
         | ret r3 =>
           have := loop3_ret _ _ _ _ h3
           obtain ⟨e, s'⟩ := r3
           simp only at this
           subst this
           simp
         | done s3 =>
           obtain ⟨m3, s3⟩ := s3
           simp only [Bool.false_eq_true, if_false]
           cases h4 : InitGenesis.loop4 G.vqs s3 with
           | ret r4 =>
             have := loop4_ret _ _ _ h4
             obtain ⟨e, s'⟩ := r4
             simp only at this
             subst this
             simp
           | done s4 => simp)

end ImportTie
open ImportTie

/-- **InitGenesis** into the empty store: it fails exactly when the model's import fails, and
    otherwise leaves exactly the model's views, the imported parameters, and an auction sequence
    equal to the number of auctions (so the next auction gets a fresh id).
    `hA`: every allowed-bidder record names an existing auction (Go would store an orphan; no
    exported genesis of a reachable state contains one); `hAv`: `GenesisState.Validate` has
    accepted the bidder addresses. -/
theorem tie_InitGenesis (g : Genesis)
    (hA : ∀ p ∈ g.allowed, p.1 < g.auctions.length)
    (hAv : ∀ p ∈ g.allowed, validAcc p.2.bidder = true) :
    match initGenesis g with
    | none => (Gen.InitGenesis (toG g) {}).1 = true
    | some views =>
      Gen.InitGenesis (toG g) {} = (false, { params := g.params, seq := g.auctions.length, views := views }) := by
  rw [initGenesis_eq, InitGenesis_eq]
  have h1 := loop1_spec g.auctions ({} : GStore) rfl
  simp only [toG]
  rw [h1]
  simp only [List.nil_append, Nat.zero_add]
  have hz : (({} : GStore).seq) = 0 := rfl
  have hp : (({} : GStore).params) = Params.default := rfl
  obtain ⟨vs1, hf1, hfresh, h2⟩ := loop2_spec g.allowed
    { params := Params.default, seq := g.auctions.length,
      views := g.auctions.zipIdx.map (fun p => ({ a := { p.1 with id := p.2 } } : AView)) }
    (by simpa using hA) hAv
    (by
      intro v hv
      simp only [List.mem_map] at hv
      obtain ⟨p, _, rfl⟩ := hv
      exact ⟨rfl, rfl⟩)
  simp only at hf1 h2
  rw [h2, hf1]
  simp only [Option.bind]
  have hfix : vs1 = vs1.map fix := by
    have : ∀ v ∈ vs1, fix v = v := by
      intro v hv
      obtain ⟨hb, hm⟩ := hfresh v hv
      unfold fix
      split
      · rcases v with ⟨a, al, b, q, ml, bs⟩
        simp only at hb hm
        subst hb; subst hm
        rfl
      · rfl
    conv => lhs; rw [← List.map_id vs1]
    exact (List.map_congr_left (fun v hv => (this v hv))).symm
  have h3 := loop3_spec g.bids (fun _ => none) vs1
    { params := Params.default, seq := g.auctions.length, views := vs1 } hfix
    (by
      intro i v hv
      obtain ⟨hb, _⟩ := hfresh v (List.mem_of_getElem? hv)
      rw [hb]
      exact ⟨by simp, fun _ => rfl⟩)
  cases hf2 : g.bids.foldlM stepB vs1 with
  | none =>
    rw [hf2] at h3
    obtain ⟨st', h3⟩ := h3
    simp only [h3]
  | some vs2 =>
    rw [hf2] at h3
    obtain ⟨m', h3⟩ := h3
    simp only [h3]
    have h4 := loop4_spec g.vqs vs2
      { params := Params.default, seq := g.auctions.length, views := vs2.map fix } rfl
    cases hf3 : g.vqs.foldlM stepV vs2 with
    | none =>
      rw [hf3] at h4
      obtain ⟨st', h4⟩ := h4
      simp only [h4]
    | some vs3 =>
      rw [hf3] at h4
      simp only [h4, GStore.paramsSet]

end Fundraising
