import Fundraising.Generated.Code.Match
import Fundraising.Proofs.MatchLemmas
/-
  `types.BidsByPrice` (types/utils.go), TRANSLATED from the Go source on every run: the bids, in
  the order `SortBids` left them, are grouped by price in a Go map, the map's keys are collected
  (in whatever order the map yields them) and sorted descending.

  `SortBids`' comparator (`price_i > price_j || id_i < id_j`) is not a strict weak order, so what it
  returns is an ORACLE (`out`): the theorems hold for every list `out` — they do not even need it to
  be sorted — and for every enumeration `keys` of the map.  They give exactly what
  `tie_CalculateBatchAllocation` (Proofs/Tie/BatchAlloc.lean) assumes about the `(prices, byPrice)`
  it is handed: the hypotheses `hprices`, `hsorted`, `hlevel`, `hdesc` for the arrangement
  `arrangementOf …`, which is a price-descending permutation of `out` that keeps the order `out`
  has within each price level (an `Arrangement` of the bids whenever `out` is a permutation of them).
-/
namespace Fundraising
open Fundraising.Gen Fundraising.Go

/-- the arrangement `Match` walks: price levels in the order of `prices`, within a level the order of the map entry -/
def arrangementOf (r : List Dec × (Dec → Option (List Bid))) : List Bid :=
  r.1.flatMap (fun q => (r.2 q).getD [])

/-- what it means for `keys` to be an enumeration of the keys of the map `BidsByPrice` builds from `out` -/
def KeysOf (out : List Bid) (keys : List Dec) : Prop :=
  keys.Nodup ∧ ∀ q, q ∈ keys ↔ q ∈ out.map (·.price)


namespace TieBBP

macro "domega" : tactic => `(tactic| first | omega | (unfold Dec at *; omega) | grind)

theorem flatMap_congr' {α β : Type} (l : List α) (f g : α → List β) (h : ∀ a ∈ l, f a = g a) :
    l.flatMap f = l.flatMap g := by
  induction l with
  | nil => rfl
  | cons a l ih =>
    simp only [List.flatMap_cons]
    rw [h a (List.mem_cons_self ..), ih (fun x hx => h x (List.mem_cons_of_mem _ hx))]

abbrev gt : Dec → Dec → Bool := fun a__ b__ => decide (a__ > b__)

/-- the map `BidsByPrice` builds from `out` -/
def levelMap (out : List Bid) : Dec → Option (List Bid) :=
  fun q => if q ∈ out.map (·.price) then some (out.filter (fun b => decide (b.price = q))) else none

theorem filter_price_nil (out : List Bid) (q : Dec) (h : q ∉ out.map (·.price)) :
    out.filter (fun b => decide (b.price = q)) = [] := by
  rw [List.filter_eq_nil_iff]
  intro b hb
  simp only [decide_eq_true_eq]
  intro e
  exact h (List.mem_map.2 ⟨b, hb, e⟩)

theorem levelMap_getD (out : List Bid) (q : Dec) :
    (levelMap out q).getD [] = out.filter (fun b => decide (b.price = q)) := by
  unfold levelMap
  split
  · rfl
  · next h => simp [filter_price_nil out q h]

theorem loop1_eq (l : List Bid) (m : Dec → Option (List Bid)) :
    BidsByPrice.loop1 l m = Loop.done (fun q => if q ∈ l.map (·.price)
      then some ((m q).getD [] ++ l.filter (fun b => decide (b.price = q))) else m q) := by
  induction l generalizing m with
  | nil => simp [BidsByPrice.loop1]
  | cons b rest ih =>
    simp only [BidsByPrice.loop1]
    rw [ih]
    congr 1
    funext q
    simp only [Go.mapSet, List.map_cons, List.mem_cons, List.filter_cons]
    by_cases hq : q = b.price
    · subst hq
      by_cases hr : b.price ∈ rest.map (·.price)
      · simp [hr]
      · simp [hr, filter_price_nil rest b.price hr]
    · have hq' : ¬ b.price = q := fun e => hq e.symm
      simp [hq, hq']

theorem loop2_eq (m : Dec → Option (List Bid)) (keys done : List Dec) :
    BidsByPrice.loop2 m keys done = Loop.done (done ++ keys) := by
  induction keys generalizing done with
  | nil => simp [BidsByPrice.loop2]
  | cons k rest ih =>
    simp only [BidsByPrice.loop2]
    rw [ih]
    simp

theorem insertBy_perm (x : Dec) (l : List Dec) : (Go.insertBy gt x l).Perm (x :: l) := by
  induction l with
  | nil => simp [Go.insertBy]
  | cons y ys ih =>
    simp only [Go.insertBy]
    split
    · exact List.Perm.refl _
    · exact ((List.Perm.cons y ih).trans (List.Perm.swap x y ys))

theorem sortSlice_perm (l : List Dec) : (Go.sortSlice gt l).Perm l := by
  induction l with
  | nil => simp [Go.sortSlice]
  | cons x xs ih =>
    have : Go.sortSlice gt (x :: xs) = Go.insertBy gt x (Go.sortSlice gt xs) := rfl
    rw [this]
    exact (insertBy_perm x _).trans (List.Perm.cons x ih)

theorem insertBy_sorted (x : Dec) (l : List Dec) (h : l.Pairwise (· ≥ ·)) :
    (Go.insertBy gt x l).Pairwise (· ≥ ·) := by
  induction l with
  | nil => simp [Go.insertBy]
  | cons y ys ih =>
    simp only [Go.insertBy]
    rw [List.pairwise_cons] at h
    split
    · next hlt =>
      simp only [gt, decide_eq_true_eq] at hlt
      rw [List.pairwise_cons]
      refine ⟨?_, List.pairwise_cons.2 h⟩
      intro z hz
      rcases List.mem_cons.1 hz with e | hz
      · subst e; domega
      · have := h.1 z hz; domega
    · next hlt =>
      simp only [gt, decide_eq_true_eq] at hlt
      rw [List.pairwise_cons]
      refine ⟨?_, ih h.2⟩
      intro z hz
      rcases List.mem_cons.1 ((insertBy_perm x ys).mem_iff.1 hz) with e | hz
      · subst e; domega
      · exact h.1 z hz

theorem sortSlice_sorted (l : List Dec) : (Go.sortSlice gt l).Pairwise (· ≥ ·) := by
  induction l with
  | nil => simp [Go.sortSlice]
  | cons x xs ih =>
    have : Go.sortSlice gt (x :: xs) = Go.insertBy gt x (Go.sortSlice gt xs) := rfl
    rw [this]
    exact insertBy_sorted x _ ih

theorem sortSlice_strict (l : List Dec) (h : l.Nodup) : (Go.sortSlice gt l).Pairwise (· > ·) := by
  have h1 := sortSlice_sorted l
  have h2 : (Go.sortSlice gt l).Nodup := (sortSlice_perm l).nodup_iff.2 h
  exact (h1.and h2).imp (fun ⟨a, b⟩ => by domega)

theorem strict_unique (l1 l2 : List Dec) (h1 : l1.Pairwise (· > ·)) (h2 : l2.Pairwise (· > ·))
    (hm : ∀ q, q ∈ l1 ↔ q ∈ l2) : l1 = l2 := by
  induction l1 generalizing l2 with
  | nil =>
    cases l2 with
    | nil => rfl
    | cons b l2 => exact absurd ((hm b).2 (List.mem_cons_self ..)) (by simp)
  | cons a l1 ih =>
    cases l2 with
    | nil => exact absurd ((hm a).1 (List.mem_cons_self ..)) (by simp)
    | cons b l2 =>
      rw [List.pairwise_cons] at h1 h2
      have hab : a = b := by
        have ha := (hm a).1 (List.mem_cons_self ..)
        have hb := (hm b).2 (List.mem_cons_self ..)
        rcases List.mem_cons.1 ha with e | ha
        · exact e
        · rcases List.mem_cons.1 hb with e | hb
          · exact e.symm
          · have := h1.1 b hb; have := h2.1 a ha; domega
      subst hab
      congr 1
      apply ih l2 h1.2 h2.2
      intro q
      constructor
      · intro hq
        rcases List.mem_cons.1 ((hm q).1 (List.mem_cons_of_mem _ hq)) with e | h
        · have := h1.1 q hq; domega
        · exact h
      · intro hq
        rcases List.mem_cons.1 ((hm q).2 (List.mem_cons_of_mem _ hq)) with e | h
        · have := h2.1 q hq; domega
        · exact h

theorem bbp_eq (bids out : List Bid) (keys : List Dec) :
    Gen.BidsByPrice bids out keys = (Go.sortSlice gt keys, levelMap out) := by
  unfold Gen.BidsByPrice
  simp only [loop1_eq]
  have hm : (fun q => if q ∈ out.map (·.price)
      then some (((fun _ => none : Dec → Option (List Bid)) q).getD [] ++
        out.filter (fun b => decide (b.price = q))) else (fun _ => none : Dec → Option (List Bid)) q) = levelMap out := by
    funext q
    simp [levelMap]
  simp only [hm, loop2_eq, List.nil_append]

/-- the levels of `out` along `prices` -/
def levels (prices : List Dec) (out : List Bid) : List Bid :=
  prices.flatMap (fun q => out.filter (fun b => decide (b.price = q)))

theorem arrangement_eq (bids out : List Bid) (keys : List Dec) :
    arrangementOf (Gen.BidsByPrice bids out keys) = levels (Go.sortSlice gt keys) out := by
  rw [bbp_eq]
  unfold arrangementOf levels
  simp only [levelMap_getD]

theorem levels_restrict (p : Dec) (ps : List Dec) (out : List Bid) (hp : p ∉ ps) :
    levels ps out = levels ps (out.filter (fun b => !decide (b.price = p))) := by
  unfold levels
  apply flatMap_congr'
  intro q hq
  rw [List.filter_filter]
  apply List.filter_congr
  intro b _
  by_cases e : b.price = q
  · have : ¬ q = p := fun e' => hp (by rw [← e']; exact hq)
    simp [e, this]
  · simp [e]

theorem levels_perm (prices : List Dec) (out : List Bid) (hn : prices.Nodup)
    (hc : ∀ b ∈ out, b.price ∈ prices) : (levels prices out).Perm out := by
  induction prices generalizing out with
  | nil =>
    cases out with
    | nil => exact List.Perm.refl _
    | cons b _ => exact absurd (hc b (List.mem_cons_self ..)) (by simp)
  | cons p ps ih =>
    rw [List.nodup_cons] at hn
    have e : levels (p :: ps) out = out.filter (fun b => decide (b.price = p)) ++ levels ps out := by
      simp [levels]
    rw [e, levels_restrict p ps out hn.1]
    refine List.Perm.trans (List.Perm.append_left _ (ih _ hn.2 ?_)) (List.filter_append_perm _ _)
    intro b hb
    rw [List.mem_filter] at hb
    rcases List.mem_cons.1 (hc b hb.1) with e | h
    · simp [e] at hb
    · exact h

theorem levels_sorted (prices : List Dec) (out : List Bid) (hs : prices.Pairwise (· > ·)) :
    (levels prices out).Pairwise (fun x y => y.price ≤ x.price) := by
  unfold levels
  rw [List.pairwise_flatMap]
  constructor
  · intro q _
    rw [List.pairwise_iff_forall_sublist]
    intro x y hxy
    have hx := hxy.subset (List.mem_cons_self ..)
    have hy := hxy.subset (List.mem_cons_of_mem _ (List.mem_cons_self ..))
    simp only [List.mem_filter, decide_eq_true_eq] at hx hy
    domega
  · refine hs.imp ?_
    intro q1 q2 h x hx y hy
    simp only [List.mem_filter, decide_eq_true_eq] at hx hy
    domega

theorem dp_block (q : Dec) (l1 l2 : List Bid) (hne : l1 ≠ []) (h1 : ∀ b ∈ l1, b.price = q)
    (h2 : ∀ b ∈ l2, b.price ≠ q) : distinctPrices (l1 ++ l2) = q :: distinctPrices l2 := by
  induction l1 with
  | nil => exact absurd rfl hne
  | cons b l1 ih =>
    have hb := h1 b (List.mem_cons_self ..)
    cases l1 with
    | nil =>
      cases l2 with
      | nil => simp [distinctPrices, hb]
      | cons b' rest =>
        have := h2 b' (List.mem_cons_self ..)
        have hne' : ¬ q = b'.price := fun e => this e.symm
        simp [distinctPrices, hne', hb]
    | cons b' l1 =>
      have hb' := h1 b' (List.mem_cons_of_mem _ (List.mem_cons_self ..))
      have e : b.price = b'.price := by domega
      have := ih (by simp) (fun x hx => h1 x (List.mem_cons_of_mem _ hx))
      simp only [List.cons_append, distinctPrices, e, if_true] at this ⊢
      exact this

theorem levels_distinct (prices : List Dec) (out : List Bid) (hn : prices.Nodup)
    (hc : ∀ q ∈ prices, q ∈ out.map (·.price)) : prices = distinctPrices (levels prices out) := by
  induction prices with
  | nil => simp [levels, distinctPrices]
  | cons p ps ih =>
    rw [List.nodup_cons] at hn
    have e : levels (p :: ps) out = out.filter (fun b => decide (b.price = p)) ++ levels ps out := by
      simp [levels]
    rw [e, dp_block p]
    · rw [← ih hn.2 (fun q hq => hc q (List.mem_cons_of_mem _ hq))]
    · obtain ⟨b, hb, e⟩ := List.mem_map.1 (hc p (List.mem_cons_self ..))
      intro h
      have : b ∈ out.filter (fun b => decide (b.price = p)) := by
        simp [List.mem_filter, hb, e]
      rw [h] at this
      cases this
    · intro b hb; simpa using (List.mem_filter.1 hb).2
    · intro b hb
      unfold levels at hb
      rw [List.mem_flatMap] at hb
      obtain ⟨q, hq, hb⟩ := hb
      have : b.price = q := by simpa using (List.mem_filter.1 hb).2
      intro e'
      exact hn.1 (by rw [← e', this]; exact hq)

theorem split_top (p : Dec) (out : List Bid) (hs : out.Pairwise (fun x y => y.price ≤ x.price))
    (hle : ∀ b ∈ out, b.price ≤ p) :
    out.filter (fun b => decide (b.price = p)) ++ out.filter (fun b => !decide (b.price = p)) = out := by
  induction out with
  | nil => rfl
  | cons b rest ih =>
    rw [List.pairwise_cons] at hs
    have ih := ih hs.2 (fun x hx => hle x (List.mem_cons_of_mem _ hx))
    by_cases e : b.price = p
    · simp only [List.filter_cons, e, decide_true, if_true, Bool.not_true, List.cons_append]
      simp only [Bool.false_eq_true, if_false]
      rw [ih]
    · have hlt : b.price < p := by have := hle b (List.mem_cons_self ..); domega
      have h1 : (b :: rest).filter (fun b => decide (b.price = p)) = [] := by
        rw [List.filter_eq_nil_iff]
        intro x hx
        rcases List.mem_cons.1 hx with e' | hx
        · subst e'; simp [e]
        · have := hs.1 x hx
          have : ¬ x.price = p := by domega
          simp [this]
      have h2 : (b :: rest).filter (fun b => !decide (b.price = p)) = b :: rest := by
        rw [List.filter_eq_self]
        intro x hx
        rcases List.mem_cons.1 hx with e' | hx
        · subst e'; simp [e]
        · have := hs.1 x hx
          have : ¬ x.price = p := by domega
          simp [this]
      rw [h1, h2]; rfl

theorem levels_sorted_id (prices : List Dec) (out : List Bid) (hp : prices.Pairwise (· > ·))
    (hc : ∀ b ∈ out, b.price ∈ prices) (hs : out.Pairwise (fun x y => y.price ≤ x.price)) :
    levels prices out = out := by
  induction prices generalizing out with
  | nil =>
    cases out with
    | nil => rfl
    | cons b _ => exact absurd (hc b (List.mem_cons_self ..)) (by simp)
  | cons p ps ih =>
    rw [List.pairwise_cons] at hp
    have hnp : p ∉ ps := fun h => by have := hp.1 p h; domega
    have e : levels (p :: ps) out = out.filter (fun b => decide (b.price = p)) ++ levels ps out := by
      simp [levels]
    rw [e, levels_restrict p ps out hnp, ih _ hp.2 ?_ (hs.filter _)]
    · apply split_top p out hs
      intro b hb
      rcases List.mem_cons.1 (hc b hb) with e | h
      · domega
      · have := hp.1 _ h; domega
    · intro b hb
      rw [List.mem_filter] at hb
      rcases List.mem_cons.1 (hc b hb.1) with e | h
      · simp [e] at hb
      · exact h

theorem prices_facts (out : List Bid) (keys : List Dec) (hk : KeysOf out keys) :
    (Go.sortSlice gt keys).Pairwise (· > ·) ∧
    ∀ q, q ∈ Go.sortSlice gt keys ↔ q ∈ out.map (·.price) :=
  ⟨sortSlice_strict keys hk.1, fun q => ((sortSlice_perm keys).mem_iff).trans (hk.2 q)⟩

theorem strict_nodup (l : List Dec) (h : l.Pairwise (· > ·)) : l.Nodup :=
  h.imp (fun h e => by domega)

end TieBBP

open TieBBP

/-- **BidsByPrice**, the map: the entry of a price is the sub-list of `out` at that price, in `out`'s order -/
theorem tie_BidsByPrice_map (bids out : List Bid) (keys : List Dec) (q : Dec) :
    (Gen.BidsByPrice bids out keys).2 q =
      (if q ∈ out.map (·.price) then some (out.filter (fun b => decide (b.price = q))) else none) := by
  rw [bbp_eq]; rfl

/-- **BidsByPrice**, the prices: the distinct prices of `out`, strictly descending -/
theorem tie_BidsByPrice_prices (bids out : List Bid) (keys : List Dec) (hk : KeysOf out keys) :
    (Gen.BidsByPrice bids out keys).1.Pairwise (· > ·) ∧
    ∀ q, q ∈ (Gen.BidsByPrice bids out keys).1 ↔ q ∈ out.map (·.price) := by
  rw [bbp_eq]; exact prices_facts out keys hk

/-- the result does not depend on the order in which the Go map yields its keys (C14) -/
theorem tie_BidsByPrice_order_independent (bids out : List Bid) (keys keys' : List Dec)
    (hk : KeysOf out keys) (hk' : KeysOf out keys') :
    Gen.BidsByPrice bids out keys = Gen.BidsByPrice bids out keys' := by
  rw [bbp_eq, bbp_eq]
  obtain ⟨h1, h2⟩ := prices_facts out keys hk
  obtain ⟨h1', h2'⟩ := prices_facts out keys' hk'
  rw [strict_unique _ _ h1 h1' (fun q => (h2 q).trans (h2' q).symm)]

/-- every bid of a level has that level's price (`hlevel` of `tie_CalculateBatchAllocation`) -/
theorem tie_BidsByPrice_level (bids out : List Bid) (keys : List Dec) :
    ∀ q ∈ (Gen.BidsByPrice bids out keys).1, ∀ b ∈ ((Gen.BidsByPrice bids out keys).2 q).getD [], b.price = q := by
  rw [bbp_eq]
  intro q _ b hb
  rw [levelMap_getD] at hb
  simpa using (List.mem_filter.1 hb).2

/-- the arrangement is a permutation of what `SortBids` returned, sorted by price descending -/
theorem tie_BidsByPrice_arrangement (bids out : List Bid) (keys : List Dec) (hk : KeysOf out keys) :
    (arrangementOf (Gen.BidsByPrice bids out keys)).Perm out ∧
    (arrangementOf (Gen.BidsByPrice bids out keys)).Pairwise (fun x y => y.price ≤ x.price) := by
  rw [arrangement_eq]
  obtain ⟨h1, h2⟩ := prices_facts out keys hk
  refine ⟨levels_perm _ out (strict_nodup _ h1) ?_, levels_sorted _ out h1⟩
  intro b hb
  exact (h2 _).2 (List.mem_map.2 ⟨b, hb, rfl⟩)

/-- … hence an `Arrangement` of the bids (what every matching theorem of C03–C05 quantifies over)
    whenever `SortBids` returns a permutation of its input -/
theorem tie_BidsByPrice_Arrangement (bids out : List Bid) (keys : List Dec) (hk : KeysOf out keys)
    (hperm : out.Perm bids) : Arrangement bids (arrangementOf (Gen.BidsByPrice bids out keys)) := by
  obtain ⟨h1, h2⟩ := tie_BidsByPrice_arrangement bids out keys hk
  exact ⟨h1.trans hperm, h2⟩

/-- `prices` is the list of distinct prices of the arrangement (`hprices` of `tie_CalculateBatchAllocation`) -/
theorem tie_BidsByPrice_distinctPrices (bids out : List Bid) (keys : List Dec) (hk : KeysOf out keys) :
    (Gen.BidsByPrice bids out keys).1 = distinctPrices (arrangementOf (Gen.BidsByPrice bids out keys)) := by
  rw [arrangement_eq, bbp_eq]
  obtain ⟨h1, h2⟩ := prices_facts out keys hk
  exact levels_distinct _ out (strict_nodup _ h1) (fun q hq => (h2 q).1 hq)

/-- if `SortBids` returned a list that IS sorted by price (what Go's insertion sort gives for books
    of at most 12 bids), `Match` walks exactly that list -/
theorem tie_BidsByPrice_sorted_id (bids out : List Bid) (keys : List Dec) (hk : KeysOf out keys)
    (hs : out.Pairwise (fun x y => y.price ≤ x.price)) :
    arrangementOf (Gen.BidsByPrice bids out keys) = out := by
  rw [arrangement_eq]
  obtain ⟨h1, h2⟩ := prices_facts out keys hk
  exact levels_sorted_id _ out h1 (fun b hb => (h2 _).2 (List.mem_map.2 ⟨b, hb, rfl⟩)) hs

end Fundraising

/-! non-vacuity: a book of four bids at two prices, as `SortBids` might return it NOT sorted by
    price (ids 2 1 4 3), and the price map yielding its keys in ascending order -/
namespace Fundraising
open Fundraising.Gen Fundraising.Go

private def exBid (id : Nat) (price : Int) : Bid :=
  { auction := 0, id := id, bidder := 1, type := .many, price := price, denom := 0, amt := 1, matched := false }
private def exOut : List Bid := [exBid 2 5, exBid 1 7, exBid 4 5, exBid 3 7]

example : KeysOf exOut [5, 7] := by
  refine ⟨by decide, ?_⟩
  intro q; simp [exOut, exBid]; constructor
  · rintro (h | h) <;> simp [h]
  · rintro (h | h | h | h) <;> simp [h]
example : (Gen.BidsByPrice [] exOut [5, 7]).1 = [7, 5] := by decide
example : (arrangementOf (Gen.BidsByPrice [] exOut [5, 7])).map (·.id) = [1, 3, 2, 4] := by decide

end Fundraising
