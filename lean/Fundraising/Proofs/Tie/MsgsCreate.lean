import Fundraising.Generated.Code.Msgs
import Fundraising.Proofs.Tie.Msgs
import Fundraising.Proofs.Tie.PureSched
/-
  `ValidateBasic` of the two create-auction messages (they validate vesting schedules: the only
  message ties that depend on `Tie/PureSched`).
-/
namespace Fundraising
open Fundraising.Gen

theorem tie_ValidateBasic_createFixed (m : CreateMsg) (h : m.type = .fixed) :
    MsgCreateFixedPriceAuction_ValidateBasic m = !validateBasic (.create m) := by
  unfold MsgCreateFixedPriceAuction_ValidateBasic validateBasic validCoin
  rw [tie_ValidateVestingSchedules]
  simp only [h]
  grind (splits := 40)

theorem tie_ValidateBasic_createBatch (m : CreateMsg) (h : m.type = .batch) :
    MsgCreateBatchAuction_ValidateBasic m = !validateBasic (.create m) := by
  unfold MsgCreateBatchAuction_ValidateBasic validateBasic validCoin
  rw [tie_ValidateVestingSchedules]
  simp only [h]
  grind (splits := 40)

end Fundraising
