import Fundraising.Generated.Code.Genesis
import Fundraising.Model.Genesis
import Fundraising.Proofs.Tie.Pure
import Fundraising.Proofs.Tie.PureSched
import Fundraising.Proofs.Tie.Server
/-
  Tie of the translated genesis validation (`GenesisState.Validate`, `Bid.Validate`,
  `VestingQueue.Validate` in types/genesis.go, `BaseAuction.Validate` in types/auction.go) to
  `validateGenesis` / `Auction.validate` of Model/Genesis.lean.

  The Go code detects duplicate collection keys with maps keyed by strings built from
  `fmt.Sprint` parts (`"<auction id>/<bidder>"`, …); the translation keeps the parts as a list of
  integers (the separators carry no data), the model compares the key tuples (`noDup`).
-/
namespace Fundraising
open Fundraising.Gen Fundraising.Go

/-- the model's genesis in the shape the Go code sees it (allowed bidders as complete records) -/
def toG (g : Genesis) : GenesisG :=
  { params := g.params, auctions := g.auctions,
    allowed := g.allowed.map (fun p => ⟨p.1, p.2.bidder, p.2.cap⟩),
    bids := g.bids, vqs := g.vqs }

theorem tie_Bid_Validate (b : Bid) :
    Gen.Bid_Validate b = !(validAcc b.bidder && decide (b.price > 0) && validCoin b.denom b.amt && decide (b.amt > 0)) := by
  unfold Gen.Bid_Validate
  grind

theorem tie_VestingQueue_Validate (q : VQ) :
    Gen.VestingQueue_Validate q = !(validAcc q.auctioneer && validCoin q.denom q.amt) := by
  unfold Gen.VestingQueue_Validate
  grind

/-- `BaseAuction.Validate` (the three reserve-address strings are functions of the id in the
    model, hence always well-formed; the schedule is validated against the FIRST end time) -/
theorem tie_BaseAuction_Validate (a : Auction) : Gen.BaseAuction_Validate a = !a.validate := by
  unfold Gen.BaseAuction_Validate Auction.validate
  simp only [tie_ValidateVestingSchedules]
  have h0 : validAcc (0 : Acc) = true := by decide
  cases ht : a.type <;> cases he : a.endTimes <;> simp [h0, Go.index] <;> grind

/-- the common shape of the four duplicate-detecting loops of `GenesisState.Validate` -/
def gloop {α κ ν : Type} [DecidableEq κ] (key : α → κ) (v : ν) (bad : α → Bool) :
    List α → (κ → Option ν) → Loop Bool (κ → Option ν)
  | [], m => Loop.done m
  | x :: xs, m =>
    if (m (key x)).isSome then Loop.ret true
    else if bad x then Loop.ret true
    else gloop key v bad xs (Go.mapSet m (key x) v)

/-- what a loop accepts: no key already seen, no key twice, no invalid element -/
def ggood {α κ : Type} [DecidableEq κ] (mkey : α → κ) (bad : α → Bool) (seen : List κ) (l : List α) : Bool :=
  l.all (fun x => !seen.contains (mkey x)) && noDup (l.map mkey) && l.all (fun x => !bad x)

theorem ggood_cons {α κ : Type} [DecidableEq κ] (mkey : α → κ) (bad : α → Bool) (seen : List κ)
    (x : α) (xs : List α) :
    ggood mkey bad seen (x :: xs)
      = (!seen.contains (mkey x) && !bad x && ggood mkey bad (mkey x :: seen) xs) := by
  have h : xs.all (fun y => !(mkey x :: seen).contains (mkey y))
      = (!(xs.map mkey).contains (mkey x) && xs.all (fun y => !seen.contains (mkey y))) := by
    rw [Bool.eq_iff_iff]
    simp only [List.all_eq_true, Bool.and_eq_true, Bool.not_eq_true', List.contains_eq_mem,
      decide_eq_false_iff_not, List.mem_cons, List.mem_map, not_or, not_exists, not_and]
    constructor
    · intro h; exact ⟨fun y hy e => (h y hy).1 e, fun y hy => (h y hy).2⟩
    · intro h y hy; exact ⟨fun e => h.1 y hy e, h.2 y hy⟩
  simp only [ggood, List.all_cons, List.map_cons, noDup, h]
  cases List.contains seen (mkey x) <;> cases bad x <;> cases (List.map mkey xs).contains (mkey x) <;> simp

theorem gloop_spec {α κ κ' ν : Type} [DecidableEq κ] [DecidableEq κ'] (mkey : α → κ') (enc : κ' → κ)
    (inj : ∀ p q, enc p = enc q → p = q) (v : ν) (bad : α → Bool) (l : List α) :
    ∀ (m : κ → Option ν) (seen : List κ'), (∀ p, (m (enc p)).isSome = seen.contains p) →
      (ggood mkey bad seen l = true → ∃ m', gloop (fun x => enc (mkey x)) v bad l m = Loop.done m') ∧
      (ggood mkey bad seen l = false → gloop (fun x => enc (mkey x)) v bad l m = Loop.ret true) := by
  induction l with
  | nil => intro m seen _; simp [ggood, gloop, noDup]
  | cons x xs ih =>
    intro m seen h
    have h' : ∀ p, ((Go.mapSet m (enc (mkey x)) v) (enc p)).isSome = (mkey x :: seen).contains p := by
      intro p
      simp only [Go.mapSet, List.contains_cons]
      by_cases hp : p = mkey x
      · subst hp; simp
      · have : ¬ enc p = enc (mkey x) := fun e => hp (inj _ _ e)
        simp [this, hp, h]
    have := ih _ _ h'
    rw [ggood_cons]
    simp only [gloop, h]
    cases List.contains seen (mkey x) <;> cases bad x <;> simp_all

theorem ggood_nil {α κ : Type} [DecidableEq κ] (mkey : α → κ) (bad : α → Bool) (l : List α) :
    ggood mkey bad [] l = (noDup (l.map mkey) && l.all (fun x => !bad x)) := by
  have : l.all (fun _ => true) = true := by simp
  simp [ggood, this]

/-- a loop started on the empty map: it ends normally iff the keys are distinct and every element
    valid, otherwise it returns the error -/
theorem gloop_fresh {α κ κ' ν : Type} [DecidableEq κ] [DecidableEq κ'] (mkey : α → κ') (enc : κ' → κ)
    (inj : ∀ p q, enc p = enc q → p = q) (v : ν) (bad : α → Bool) (l : List α) :
    ((noDup (l.map mkey) && l.all (fun x => !bad x)) = true →
        ∃ m', gloop (fun x => enc (mkey x)) v bad l (fun _ => none) = Loop.done m') ∧
    ((noDup (l.map mkey) && l.all (fun x => !bad x)) = false →
        gloop (fun x => enc (mkey x)) v bad l (fun _ => none) = Loop.ret true) := by
  have := gloop_spec mkey enc inj v bad l (fun _ => none) [] (by simp)
  rw [ggood_nil] at this
  exact this

theorem loop1_eq (l : List AllowedArg) (m : List Int → Option Unit) :
    GenesisState_Validate.loop1 l m
      = gloop (fun x : AllowedArg => (fun p : Nat × Acc => [(p.1 : Int), (p.2 : Int)]) (x.recAuction, x.bidder)) ()
          AllowedBidder_Validate l m := by
  induction l generalizing m with
  | nil => rfl
  | cons x xs ih =>
    simp only [GenesisState_Validate.loop1, gloop, ih, Go.keyPart, KeyPart.part, List.append_nil,
      List.cons_append, List.nil_append]
    cases AllowedBidder_Validate x <;> simp

theorem loop2_eq (l : List VQ) (m : List Int → Option Unit) :
    GenesisState_Validate.loop2 l m
      = gloop (fun x : VQ => (fun p : Nat × Int => [(p.1 : Int), p.2]) (x.auction, x.release)) ()
          VestingQueue_Validate l m := by
  induction l generalizing m with
  | nil => rfl
  | cons x xs ih =>
    simp only [GenesisState_Validate.loop2, gloop, ih, Go.keyPart, KeyPart.part, List.append_nil,
      List.cons_append, List.nil_append]
    cases VestingQueue_Validate x <;> simp

theorem loop3_eq (l : List Bid) (m : List Int → Option Bool) :
    GenesisState_Validate.loop3 l m
      = gloop (fun x : Bid => (fun p : Nat × Nat => [(p.1 : Int), (p.2 : Int)]) (x.auction, x.id)) true
          Bid_Validate l m := by
  induction l generalizing m with
  | nil => rfl
  | cons x xs ih =>
    simp only [GenesisState_Validate.loop3, gloop, ih, Go.keyPart, KeyPart.part, List.append_nil,
      List.cons_append, List.nil_append]
    cases Bid_Validate x <;> simp

theorem loop4_eq (l : List Auction) (m : Int → Option Bool) :
    GenesisState_Validate.loop4 l m
      = gloop (fun x : Auction => (fun p : Nat => (p : Int)) x.id) true BaseAuction_Validate l m := by
  induction l generalizing m with
  | nil => rfl
  | cons x xs ih =>
    simp only [GenesisState_Validate.loop4, gloop, ih]
    cases BaseAuction_Validate x <;> simp

/-- **GenesisState.Validate** -/
theorem tie_GenesisState_Validate (g : Genesis) :
    Gen.GenesisState_Validate (toG g) = !validateGenesis g := by
  unfold Gen.GenesisState_Validate validateGenesis
  simp only [loop1_eq, loop2_eq, loop3_eq, loop4_eq, toG, tie_Params_Validate]
  have inj1 : ∀ p q : Nat × Acc, [(p.1 : Int), (p.2 : Int)] = [(q.1 : Int), (q.2 : Int)] → p = q := by
    intro p q h; cases p; cases q
    simp only [List.cons.injEq, and_true] at h
    simp only [Prod.mk.injEq]; exact ⟨Int.ofNat.inj h.1, Int.ofNat.inj h.2⟩
  have inj2 : ∀ p q : Nat × Int, [(p.1 : Int), p.2] = [(q.1 : Int), q.2] → p = q := by
    intro p q h; cases p; cases q
    simp only [List.cons.injEq, and_true] at h
    simp only [Prod.mk.injEq]; exact ⟨Int.ofNat.inj h.1, h.2⟩
  have inj4 : ∀ p q : Nat, (p : Int) = (q : Int) → p = q := by
    intro p q h; omega
  have e1 := gloop_fresh (fun x : AllowedArg => (x.recAuction, x.bidder)) _ inj1 () AllowedBidder_Validate
    (g.allowed.map (fun p => (⟨p.1, p.2.bidder, p.2.cap⟩ : AllowedArg)))
  have e2 := gloop_fresh (fun x : VQ => (x.auction, x.release)) _ inj2 () VestingQueue_Validate g.vqs
  have e3 := gloop_fresh (fun x : Bid => (x.auction, x.id)) _ inj1 true Bid_Validate g.bids
  have e4 := gloop_fresh (fun x : Auction => x.id) _ inj4 true BaseAuction_Validate g.auctions
  simp only [List.map_map, List.all_map, Function.comp_def, tie_AllowedBidder_Validate,
    tie_VestingQueue_Validate, tie_Bid_Validate, tie_BaseAuction_Validate, Bool.not_not] at e1 e2 e3 e4
  generalize noDup (List.map (fun x => (x.fst, x.snd.bidder)) g.allowed) = A1 at *
  generalize (g.allowed.all fun x => validAcc x.snd.bidder && decide (x.snd.cap > 0)) = B1 at *
  generalize noDup (List.map (fun x => (x.auction, x.release)) g.vqs) = A2 at *
  generalize (g.vqs.all fun x => validAcc x.auctioneer && validCoin x.denom x.amt) = B2 at *
  generalize noDup (List.map (fun x => (x.auction, x.id)) g.bids) = A3 at *
  generalize (g.bids.all fun x =>
    validAcc x.bidder && decide (x.price > 0) && validCoin x.denom x.amt && decide (x.amt > 0)) = B3 at *
  generalize noDup (List.map (fun x => x.id) g.auctions) = A4 at *
  generalize (g.auctions.all fun x => x.validate) = B4 at *
  generalize validCoins g.params.creationFee = C1 at *
  generalize validCoins g.params.bidFee = C2 at *
  cases h1 : (A1 && B1)
  · rw [e1.2 h1]; simp
  obtain ⟨m1, hm1⟩ := e1.1 h1
  rw [hm1]
  cases h2 : (A2 && B2)
  · rw [e2.2 h2]; simp [h2]
  obtain ⟨m2, hm2⟩ := e2.1 h2
  rw [hm2]
  cases h3 : (A3 && B3)
  · rw [e3.2 h3]; simp [h2, h3]
  obtain ⟨m3, hm3⟩ := e3.1 h3
  rw [hm3]
  cases h4 : (A4 && B4)
  · rw [e4.2 h4]; simp [h2, h3, h4]
  obtain ⟨m4, hm4⟩ := e4.1 h4
  rw [hm4]
  simp [h2, h3, h4]

end Fundraising
