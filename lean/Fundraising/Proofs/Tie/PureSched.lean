import Fundraising.Proofs.Tie.Pure
/-
  Tie of `types.ValidateVestingSchedules` (a loop with four early returns), in a module of its
  own: a tie that stops checking takes the modules that import it with it, so the ties are cut
  along what uses what — only the create-auction message and genesis validation read schedules.
-/
namespace Fundraising
open Fundraising.Gen

/-! ### types/vesting.go: ValidateVestingSchedules (a loop with four early returns) -/

theorem tie_schedLoop (endTime : Int) (vs : List VS) (prev : Int) (tot : Dec) :
    ValidateVestingSchedules.loop1 endTime vs prev tot =
      match validSchedulesLoop endTime vs prev tot with
      | none => Loop.ret true
      | some tot' => Loop.done ((vs.getLast?.map (·.release)).getD prev, tot') := by
  induction vs generalizing prev tot with
  | nil => simp [ValidateVestingSchedules.loop1, validSchedulesLoop]
  | cons s rest ih =>
    unfold ValidateVestingSchedules.loop1 validSchedulesLoop
    rw [ih]
    cases rest <;> grind

theorem tie_ValidateVestingSchedules (vs : List VS) (endTime : Int) :
    ValidateVestingSchedules vs endTime = !validSchedules vs endTime := by
  simp only [ValidateVestingSchedules, validSchedules, tie_schedLoop, Go.parseTime]
  cases vs with
  | nil => simp
  | cons s rest =>
    cases h : validSchedulesLoop endTime (s :: rest) TIME_ZERO 0 <;> simp [h]
    · omega
    · have : ¬ ((rest.length : Int) + 1 = 0) := by omega
      simp only [this, decide_false, Bool.not_false, Bool.true_and]
      rename_i v
      by_cases e : v = Dec.one <;> simp [e]

end Fundraising
