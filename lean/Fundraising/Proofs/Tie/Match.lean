import Fundraising.Generated.Code.Match
import Fundraising.Proofs.Tie.Pure
import Fundraising.Proofs.MatchList
/-
  Tie of the translated `types.Match` (types/match.go) and
  `Keeper.CalculateFixedPriceAllocation` (keeper/match.go) to `matchAt` / `calcFixed` of
  Model/Match.lean.

  The Go code keeps per-bidder data in maps keyed by the bidder address (translated to
  functions `Acc → Option _`, see Tables/GoSemMatch.lean) and walks the order book level by
  level (`prices`, `bidsByPrice`); the model walks the price-sorted bid list.  `accOf` reads a
  Go-shaped state as the model's accumulator.
-/
namespace Fundraising
open Fundraising.Gen Fundraising.Go

/-- the Go-shaped matching state read as the model's accumulator -/
def accOf (st : MState) (rem : Acc → Option Int) : MAcc :=
  { price := st.price, total := st.total, rem := rem,
    alloc := fun u => ((st.byBidder u).map (·.matched)).getD 0,
    pay := fun u => ((st.byBidder u).map (·.pay)).getD 0,
    matched := st.matched }

/-! ### one bid, one price level -/

theorem mapSet_mapSet {κ ν : Type} [DecidableEq κ] (f : κ → Option ν) (k : κ) (v w : ν) :
    Go.mapSet (Go.mapSet f k v) k w = Go.mapSet f k w := by
  funext x; simp only [Go.mapSet]; split <;> rfl

theorem mapSet_self {κ ν : Type} [DecidableEq κ] (f : κ → Option ν) (k : κ) (v : ν) :
    Go.mapSet f k v k = some v := by simp [Go.mapSet]

/-- the Go-shaped state after one bid that matched `mm` -/
def stepSt (p : Dec) (st : MState) (b : Bid) (mm : Int) : MState :=
  { price := st.price,
    total := if mm > 0 then st.total + mm else st.total,
    matched := if mm > 0 then st.matched ++ [b] else st.matched,
    byBidder := Go.mapSet st.byBidder b.bidder
      { pay := ((st.byBidder b.bidder).map (·.pay)).getD 0 + Dec.truncInt (Dec.ceil (Dec.mulInt p mm)),
        matched := ((st.byBidder b.bidder).map (·.matched)).getD 0 + mm } }

-- the proof names every spelling of a fact; which ones are used depends on the shape of the generated loop body
set_option linter.unusedSimpArgs false in
theorem loop3_cons (p : Dec) (S : Int) (b : Bid) (bs : List Bid) (rem : Acc → Option Int) (m : Bool)
    (st : MState) (q r : Int) (hq : bidQty b p = some q) (hr : rem b.bidder = some r) :
    Match.loop3 p S (b :: bs) rem m st =
      if st.total + min q r > S then Loop.ret (none, false)
      else Match.loop3 p S bs (if min q r > 0 then Go.mapSet rem b.bidder (r - min q r) else rem)
            (m || decide (min q r > 0)) (stepSt p st b (min q r)) := by
  rw [Match.loop3]
  unfold bidQty at hq
  cases hty : b.type <;> simp only [hty] at hq
  · cases hq
  all_goals
    have hq' := Option.some.inj hq
    cases hb : st.byBidder b.bidder <;> by_cases h1 : st.total + min q r > S <;> by_cases h2 : min q r > 0 <;>
      simp [hty, hr, hb, hq', h1, h2, stepSt, mapSet_mapSet, Go.bidCoin_amt]

theorem matchStep_eq' (p : Dec) (S : Int) (b : Bid) (rem : Acc → Option Int) (st : MState) (q r : Int)
    (hq : bidQty b p = some q) (hr : rem b.bidder = some r) :
    matchStep p S (accOf st rem) b =
      if st.total + min q r > S then .nofit
      else .fit (accOf (stepSt p st b (min q r)) (if min q r > 0 then Go.mapSet rem b.bidder (r - min q r) else rem)) := by
  unfold matchStep
  have hr' : (accOf st rem).rem b.bidder = some r := hr
  rw [hq, hr']
  simp only []
  by_cases h1 : st.total + min q r > S
  · simp [accOf, h1]
  · by_cases h2 : min q r > 0
    · simp only [accOf, h1, h2, if_false, if_true, stepSt, MRes.fit.injEq, MAcc.mk.injEq, true_and]
      and_intros <;> first | trivial | (funext u; simp only [bump, Go.mapSet]; split <;> simp_all)
    · simp only [accOf, h1, h2, if_false, stepSt, MRes.fit.injEq, MAcc.mk.injEq, true_and]
      and_intros <;> first | trivial | (funext u; simp only [bump, Go.mapSet]; split <;> simp_all)

theorem matchStep_mono (p : Dec) (S : Int) (acc acc' : MAcc) (b : Bid) (h : matchStep p S acc b = .fit acc') :
    acc.matched.length ≤ acc'.matched.length := by
  unfold matchStep at h
  split at h
  · simp only [] at h
    split at h
    · cases h
    · split at h <;> cases h <;> simp
  · cases h

theorem matchLoop_mono (p : Dec) (S : Int) (bs : List Bid) (acc acc' : MAcc) (h : matchLoop p S bs acc = .fit acc') :
    acc.matched.length ≤ acc'.matched.length := by
  induction bs generalizing acc with
  | nil => cases h; exact Nat.le_refl _
  | cons b bs ih =>
    unfold matchLoop at h
    cases hs : matchStep p S acc b with
    | panic => rw [hs] at h; cases h
    | nofit => rw [hs] at h; cases h
    | fit a1 =>
      rw [hs] at h
      exact Nat.le_trans (matchStep_mono p S acc a1 b hs) (ih a1 h)

/-- **one price level** (`for _, bid := range bidsByPrice[price]`) = the model's sweep over those
    bids.  `hty`: a batch book holds worth/many bids only (`BidWF.batch`); `hal`: every bidder is
    allow-listed (`BidWF.listed`) — otherwise Go reads a nil `math.Int` and panics, which the model
    reports as `.panic`. -/
theorem tie_Match_level (p : Dec) (S : Int) (bids : List Bid) (rem : Acc → Option Int) (m : Bool) (st : MState)
    (hty : ∀ b ∈ bids, b.type ≠ .fixed) (hal : ∀ b ∈ bids, (rem b.bidder).isSome = true) :
    match matchLoop p S bids (accOf st rem) with
    | .fit acc' => ∃ rem' st', Match.loop3 p S bids rem m st =
          Loop.done (rem', (m || decide (st.matched.length < acc'.matched.length)), st') ∧ accOf st' rem' = acc' ∧
          (∀ u, (rem u).isSome = true → (rem' u).isSome = true)
    | .nofit => Match.loop3 p S bids rem m st = Loop.ret (none, false)
    | .panic => False := by
  induction bids generalizing rem m st with
  | nil =>
    simp only [matchLoop, Match.loop3]
    exact ⟨rem, st, by simp [accOf], rfl, fun _ h => h⟩
  | cons b bs ih =>
    obtain ⟨q, hq⟩ : ∃ q, bidQty b p = some q := by
      have := hty b (List.mem_cons_self)
      unfold bidQty
      cases hb : b.type <;> simp_all
    obtain ⟨r, hr⟩ : ∃ r, rem b.bidder = some r := Option.isSome_iff_exists.1 (hal b List.mem_cons_self)
    rw [loop3_cons p S b bs rem m st q r hq hr]
    unfold matchLoop
    rw [matchStep_eq' p S b rem st q r hq hr]
    by_cases h1 : st.total + min q r > S
    · simp [h1]
    · simp only [h1, if_false]
      have hsome : ∀ u, (rem u).isSome = true →
          ((if min q r > 0 then Go.mapSet rem b.bidder (r - min q r) else rem) u).isSome = true := by
        intro u hu
        split
        · simp only [Go.mapSet]; split <;> simp [hu]
        · exact hu
      have := ih (if min q r > 0 then Go.mapSet rem b.bidder (r - min q r) else rem) (m || decide (min q r > 0))
        (stepSt p st b (min q r)) (fun b' hb' => hty b' (List.mem_cons_of_mem _ hb'))
        (fun b' hb' => hsome _ (hal b' (List.mem_cons_of_mem _ hb')))
      cases hl : matchLoop p S bs (accOf (stepSt p st b (min q r)) (if min q r > 0 then Go.mapSet rem b.bidder (r - min q r) else rem)) with
      | panic => rw [hl] at this; exact this
      | nofit => rw [hl] at this; exact this
      | fit acc' =>
        rw [hl] at this
        obtain ⟨rem', st', e1, e2, e3⟩ := this
        have hm := matchLoop_mono p S bs _ _ hl
        refine ⟨rem', st', ?_, e2, fun u hu => e3 u (hsome u hu)⟩
        rw [e1]
        simp only [accOf, stepSt] at hm
        simp only [stepSt]
        by_cases h2 : min q r > 0
        · simp only [h2, if_true] at hm ⊢
          have : st.matched.length < acc'.matched.length := by simp at hm; omega
          simp [this]
        · simp [h2]

/-! ### the cap map -/

theorem loop1_eq (l : List Allowed) (f : Acc → Option Int) (hnd : (l.map (·.bidder)).Pairwise (· < ·)) :
    Match.loop1 l f = Loop.done (fun u => match lookupAllowed l u with | some x => some x.cap | none => f u) := by
  induction l generalizing f with
  | nil => simp [Match.loop1, lookupAllowed]
  | cons x rest ih =>
    simp only [List.map_cons, List.pairwise_cons] at hnd
    rw [Match.loop1, ih _ hnd.2]
    congr 1
    funext u
    simp only [lookupAllowed, List.find?_cons]
    by_cases hx : x.bidder = u
    · subst hx
      have : List.find? (fun y => y.bidder == x.bidder) rest = none := by
        rw [List.find?_eq_none]
        intro y hy hyx
        have := hnd.1 y.bidder (List.mem_map.2 ⟨y, hy, rfl⟩)
        grind
      simp [this, Go.mapSet]
    · have hx' : ¬ u = x.bidder := fun h => hx h.symm
      have hbeq : (x.bidder == u) = false := by simp [hx]
      simp [hbeq, hx', Go.mapSet]

theorem loop1_caps (allowed : List Allowed) (hnd : (allowed.map (·.bidder)).Pairwise (· < ·)) :
    Match.loop1 allowed (fun _ => none) = Loop.done (capsOf allowed) := by
  rw [loop1_eq allowed _ hnd]
  congr 1
  funext u
  unfold capsOf
  cases lookupAllowed allowed u <;> rfl

/-! ### the loop over price levels -/

theorem matchLoop_append (p : Dec) (S : Int) (l1 l2 : List Bid) (acc : MAcc) :
    matchLoop p S (l1 ++ l2) acc =
      match matchLoop p S l1 acc with
      | .fit a => matchLoop p S l2 a
      | r => r := by
  induction l1 generalizing acc with
  | nil => simp [matchLoop]
  | cons b bs ih =>
    simp only [List.cons_append, matchLoop]
    cases matchStep p S acc b with
    | fit a => simp only [ih]
    | nofit => rfl
    | panic => rfl

theorem takeWhile_none {α : Type} (f : α → Bool) (l : List α) (h : ∀ x ∈ l, f x = false) : l.takeWhile f = [] := by
  cases l with
  | nil => rfl
  | cons a t => simp [h a List.mem_cons_self]

theorem takeWhile_levels (p : Dec) (byPrice : Dec → Option (List Bid)) (q : Dec) (qs : List Dec)
    (hlevel : ∀ q' ∈ q :: qs, ∀ b ∈ (byPrice q').getD [], b.price = q')
    (hdesc : (q :: qs).Pairwise (· > ·)) :
    ((q :: qs).flatMap (fun q => (byPrice q).getD [])).takeWhile (fun b => decide (p ≤ b.price)) =
      if q < p then []
      else (byPrice q).getD [] ++ (qs.flatMap (fun q => (byPrice q).getD [])).takeWhile (fun b => decide (p ≤ b.price)) := by
  simp only [List.flatMap_cons]
  split
  · next hq =>
    apply takeWhile_none
    intro b hmem
    rw [decide_eq_false_iff_not]
    intro hb
    rw [List.mem_append] at hmem
    rcases hmem with h | h
    · have := hlevel q List.mem_cons_self b h
      grind
    · rw [List.mem_flatMap] at h
      obtain ⟨q', hq', hbq⟩ := h
      have h1 := hlevel q' (List.mem_cons_of_mem _ hq') b hbq
      have h2 := (List.pairwise_cons.1 hdesc).1 q' hq'
      grind
  · next hq =>
    rw [List.takeWhile_append_of_pos]
    intro b hb
    have := hlevel q List.mem_cons_self b hb
    grind

set_option linter.unusedSimpArgs false in
/-- one step of the loop over price levels, whatever way the price guard is spelled -/
theorem loop2_cons (byPrice : Dec → Option (List Bid)) (p : Dec) (S : Int) (q : Dec) (qs : List Dec)
    (rem : Acc → Option Int) (m : Bool) (st : MState) :
    Match.loop2 byPrice p S (q :: qs) rem m st =
      if q < p then Loop.done (rem, m, st)
      else match Match.loop3 p S ((byPrice q).getD []) rem m st with
        | Loop.ret r => Loop.ret r
        | Loop.done (rem', m', st') => Match.loop2 byPrice p S qs rem' m' st' := by
  rw [Match.loop2]
  have hge : (q ≥ p) = ¬ q < p := by simp [Int.not_lt]
  by_cases hq : q < p
  · simp [hq, hge]
  · simp [hq, hge]
    cases Match.loop3 p S ((byPrice q).getD []) rem m st <;> rfl

theorem tie_Match_levels (p : Dec) (S : Int) (byPrice : Dec → Option (List Bid)) (prices : List Dec)
    (rem : Acc → Option Int) (m : Bool) (st : MState)
    (hlevel : ∀ q ∈ prices, ∀ b ∈ (byPrice q).getD [], b.price = q)
    (hdesc : prices.Pairwise (· > ·))
    (hty : ∀ b ∈ prices.flatMap (fun q => (byPrice q).getD []), b.type ≠ .fixed)
    (hal : ∀ b ∈ prices.flatMap (fun q => (byPrice q).getD []), (rem b.bidder).isSome = true) :
    match matchLoop p S ((prices.flatMap (fun q => (byPrice q).getD [])).takeWhile (fun b => decide (p ≤ b.price)))
        (accOf st rem) with
    | .fit acc' => ∃ rem' st', Match.loop2 byPrice p S prices rem m st =
          Loop.done (rem', (m || decide (st.matched.length < acc'.matched.length)), st') ∧ accOf st' rem' = acc'
    | .nofit => Match.loop2 byPrice p S prices rem m st = Loop.ret (none, false)
    | .panic => False := by
  induction prices generalizing rem m st with
  | nil =>
    simp only [List.flatMap_nil, List.takeWhile_nil, matchLoop, Match.loop2]
    exact ⟨rem, st, by simp [accOf], rfl⟩
  | cons q qs ih =>
    rw [takeWhile_levels p byPrice q qs hlevel hdesc, loop2_cons]
    by_cases hq : q < p
    · simp only [hq, if_true, matchLoop]
      exact ⟨rem, st, by simp [accOf], rfl⟩
    · simp only [hq, if_false]
      rw [matchLoop_append]
      simp only [List.flatMap_cons, List.mem_append] at hty hal
      have hl := tie_Match_level p S ((byPrice q).getD []) rem m st (fun b hb => hty b (Or.inl hb))
        (fun b hb => hal b (Or.inl hb))
      cases h1 : matchLoop p S ((byPrice q).getD []) (accOf st rem) with
      | panic => rw [h1] at hl; exact hl
      | nofit => rw [h1] at hl; simp only [hl]
      | fit a1 =>
        rw [h1] at hl
        obtain ⟨rem1, st1, e1, e2, e3⟩ := hl
        simp only [e1]
        have hm1 := matchLoop_mono p S _ _ _ h1
        subst e2
        have := ih rem1 (m || decide (st.matched.length < (accOf st1 rem1).matched.length)) st1
          (fun q' hq' => hlevel q' (List.mem_cons_of_mem _ hq')) (List.pairwise_cons.1 hdesc).2
          (fun b hb => hty b (Or.inr hb)) (fun b hb => e3 _ (hal b (Or.inr hb)))
        cases h2 : matchLoop p S ((qs.flatMap (fun q => (byPrice q).getD [])).takeWhile (fun b => decide (p ≤ b.price)))
            (accOf st1 rem1) with
        | panic => rw [h2] at this; exact this
        | nofit => rw [h2] at this; exact this
        | fit a2 =>
          rw [h2] at this
          obtain ⟨rem2, st2, f1, f2⟩ := this
          have hm2 := matchLoop_mono p S _ _ _ h2
          refine ⟨rem2, st2, ?_, f2⟩
          rw [f1]
          simp only [accOf] at hm1 hm2 ⊢
          congr 2
          cases m <;> simp <;> grind

/-- **Match** on an order book given level by level = `matchAt` on the concatenation of the
    levels.  `hnd`: allow-list entries are keyed by bidder (`ViewWF.allowedSorted`). -/
theorem tie_Match (p : Dec) (prices : List Dec) (byPrice : Dec → Option (List Bid)) (S : Int)
    (allowed : List Allowed) (sorted : List Bid)
    (hsorted : sorted = prices.flatMap (fun q => (byPrice q).getD []))
    (hlevel : ∀ q ∈ prices, ∀ b ∈ (byPrice q).getD [], b.price = q)
    (hdesc : prices.Pairwise (· > ·))
    (hty : ∀ b ∈ sorted, b.type ≠ .fixed)
    (hal : ∀ b ∈ sorted, (lookupAllowed allowed b.bidder).isSome = true)
    (hnd : (allowed.map (·.bidder)).Pairwise (· < ·)) :
    match matchAt p sorted S allowed with
    | .fit acc => ∃ st, Gen.Match p prices byPrice S allowed = (some st, decide (acc.matched ≠ [])) ∧
        st.price = acc.price ∧ st.total = acc.total ∧ st.matched = acc.matched ∧
        ∀ u, ((st.byBidder u).map (·.matched)).getD 0 = acc.alloc u ∧ ((st.byBidder u).map (·.pay)).getD 0 = acc.pay u
    | .nofit => Gen.Match p prices byPrice S allowed = (none, false)
    | .panic => False := by
  subst hsorted
  have h := tie_Match_levels p S byPrice prices (capsOf allowed) false
    ({ price := p, total := (0 : Int), byBidder := (fun _ => none) } : MState) hlevel hdesc hty
    (fun b hb => by simpa [capsOf] using hal b hb)
  have e0 : accOf ({ price := p, total := (0 : Int), byBidder := (fun _ => none) } : MState) (capsOf allowed)
      = { price := p, rem := capsOf allowed } := rfl
  rw [e0] at h
  unfold matchAt Gen.Match
  simp only [loop1_caps allowed hnd]
  cases hm : matchLoop p S ((prices.flatMap (fun q => (byPrice q).getD [])).takeWhile (fun b => decide (p ≤ b.price)))
      { price := p, rem := capsOf allowed } with
  | panic => rw [hm] at h; exact h
  | nofit => rw [hm] at h; simp only [h]
  | fit acc =>
    rw [hm] at h
    obtain ⟨rem', st', e1, e2⟩ := h
    subst e2
    simp only [e1]
    refine ⟨st', ?_, rfl, rfl, rfl, fun u => ⟨rfl, rfl⟩⟩
    simp only [accOf, Bool.false_or, Prod.mk.injEq, true_and]
    by_cases hne : st'.matched = [] <;> simp [hne, List.length_pos_iff]

/-! ### CalculateFixedPriceAllocation -/

def fixedStep (a : Auction) (m : MInfoG) (b : Bid) : MInfoG :=
  { m with alloc := Go.mapSet m.alloc b.bidder ((m.alloc b.bidder).getD 0 + b.toSelling a.payDenom),
           total := m.total + b.toSelling a.payDenom,
           matchedLen := m.matchedLen + 1 }

def fixedRes (a : Auction) : List Bid → MInfoG → MInfoG
  | [], m => m
  | b :: bs, m => fixedRes a bs (fixedStep a m b)

theorem fixed_loop (a : Auction) (bids : List Bid) (m : MInfoG) :
    CalculateFixedPriceAllocation.loop1 a bids m = Loop.done (fixedRes a bids m) := by
  induction bids generalizing m with
  | nil => rfl
  | cons b bs ih =>
    unfold CalculateFixedPriceAllocation.loop1 fixedRes fixedStep
    simp only [tie_ConvertToSellingAmount, ih]
    cases h : m.alloc b.bidder <;> simp

theorem sumOver_cons' (f : Bid → Int) (b : Bid) (bids : List Bid) (u : Acc) :
    sumOver (b :: bids) u f = (if b.bidder = u then f b else 0) + sumOver bids u f := by
  rw [sumOver_eq, sumOver_eq, List.filter_cons]
  by_cases h : b.bidder = u
  · simp [h]
  · simp [h]

theorem sumOver_none (f : Bid → Int) (bids : List Bid) (u : Acc) (h : ¬ ∃ b ∈ bids, b.bidder = u) :
    sumOver bids u f = 0 := by
  rw [sumOver_eq]
  have : bids.filter (·.bidder == u) = [] := by
    rw [List.filter_eq_nil_iff]
    intro b hb hbu
    exact h ⟨b, hb, by simpa using hbu⟩
  rw [this]; rfl

theorem fixedRes_spec (a : Auction) (bids : List Bid) (m : MInfoG) :
    (fixedRes a bids m).matchedLen = m.matchedLen + bids.length ∧
    (fixedRes a bids m).price = m.price ∧
    (fixedRes a bids m).total = bids.foldl (fun s b => s + b.toSelling a.payDenom) m.total ∧
    ∀ u, (fixedRes a bids m).alloc u =
      if (∃ b ∈ bids, b.bidder = u) then some ((m.alloc u).getD 0 + sumOver bids u (·.toSelling a.payDenom))
      else m.alloc u := by
  induction bids generalizing m with
  | nil => simp [fixedRes]
  | cons b bs ih =>
    unfold fixedRes
    obtain ⟨h1, h2, h3, h4⟩ := ih (fixedStep a m b)
    have e1 : (fixedStep a m b).matchedLen = m.matchedLen + 1 := rfl
    have e2 : (fixedStep a m b).price = m.price := rfl
    have e3 : (fixedStep a m b).total = m.total + b.toSelling a.payDenom := rfl
    have e4 : (fixedStep a m b).alloc = Go.mapSet m.alloc b.bidder ((m.alloc b.bidder).getD 0 + b.toSelling a.payDenom) := rfl
    rw [e1] at h1; rw [e2] at h2; rw [e3] at h3; simp only [e4] at h4
    refine ⟨by rw [h1]; simp; omega, by rw [h2], by rw [h3]; simp, ?_⟩
    intro u
    rw [h4, sumOver_cons']
    simp only [Go.mapSet, List.mem_cons, exists_eq_or_imp]
    by_cases hb : b.bidder = u
    · subst hb
      by_cases hex : ∃ b' ∈ bs, b'.bidder = b.bidder
      · simp [hex]; omega
      · have h0 := sumOver_none (·.toSelling a.payDenom) bs b.bidder hex
        simp [hex, h0]
    · have : ¬ u = b.bidder := fun h => hb h.symm
      simp [hb, this]

/-- **CalculateFixedPriceAllocation**: every bid converted on its own and summed per bidder -/
theorem tie_CalculateFixedPriceAllocation (a : Auction) (bids : List Bid) (bidsF : Int → List Bid) (hbF : bidsF (a.id : Int) = bids) :
    (Gen.CalculateFixedPriceAllocation a bidsF).2 = false ∧
    (Gen.CalculateFixedPriceAllocation a bidsF).1.matchedLen = (calcFixed a bids).matchedLen ∧
    (Gen.CalculateFixedPriceAllocation a bidsF).1.price = (calcFixed a bids).price ∧
    (Gen.CalculateFixedPriceAllocation a bidsF).1.total = (calcFixed a bids).total ∧
    (calcFixed a bids).alloc =
      (biddersOf bids).map (fun u => (u, ((Gen.CalculateFixedPriceAllocation a bidsF).1.alloc u).getD 0)) ∧
    ∀ u, ((Gen.CalculateFixedPriceAllocation a bidsF).1.alloc u).isSome = (biddersOf bids).contains u := by
  unfold Gen.CalculateFixedPriceAllocation
  simp only [hbF, fixed_loop]
  obtain ⟨h1, h2, h3, h4⟩ := fixedRes_spec a bids ({ price := a.startPrice, total := (0 : Int), alloc := (fun _ => none) } : MInfoG)
  refine ⟨trivial, ?_, ?_, ?_, ?_, ?_⟩
  · rw [h1]; simp [calcFixed]
  · rw [h2]; simp [calcFixed]
  · rw [h3]; simp [calcFixed]
  · simp only [calcFixed]
    apply List.map_congr_left
    intro u hu
    rw [h4, if_pos ((mem_biddersOf bids u).1 hu)]
    simp
  · intro u
    rw [h4]
    by_cases h : ∃ b ∈ bids, b.bidder = u
    · rw [if_pos h]; simp [(mem_biddersOf bids u).2 h]
    · rw [if_neg h]
      have : ¬ u ∈ biddersOf bids := fun hu => h ((mem_biddersOf bids u).1 hu)
      simp [this]

end Fundraising
