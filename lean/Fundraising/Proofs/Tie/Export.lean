import Fundraising.Generated.Code.Export
import Fundraising.Proofs.Tie.Genesis
/-
  Tie of the translated `ExportGenesis` (module/genesis.go) to `exportGenesis` of
  Model/Genesis.lean: every collection walked in key order (`coll.Walk(ctx, nil, closure)` becomes a
  fold of the closure body over the records of the collection), on the store laid out as the model's
  state (Tables/GoStore.lean).
-/
namespace Fundraising
open Fundraising.Gen Fundraising.Go


theorem foldl_walk1 (l : List AllowedArg) (g : GenesisG) :
    List.foldl (fun s v => ExportGenesis.walk1 v s) g l = { g with allowed := g.allowed ++ l } := by
  induction l generalizing g with
  | nil => simp
  | cons x xs ih => rw [List.foldl_cons, ih]; simp [ExportGenesis.walk1, List.append_assoc]

theorem foldl_walk2 (l : List VQ) (g : GenesisG) :
    List.foldl (fun s v => ExportGenesis.walk2 v s) g l = { g with vqs := g.vqs ++ l } := by
  induction l generalizing g with
  | nil => simp
  | cons x xs ih => rw [List.foldl_cons, ih]; simp [ExportGenesis.walk2, List.append_assoc]

theorem foldl_walk3 (l : List Bid) (g : GenesisG) :
    List.foldl (fun s v => ExportGenesis.walk3 v s) g l = { g with bids := g.bids ++ l } := by
  induction l generalizing g with
  | nil => simp
  | cons x xs ih => rw [List.foldl_cons, ih]; simp [ExportGenesis.walk3, List.append_assoc]

theorem foldl_walk4 (l : List Auction) (g : GenesisG) :
    List.foldl (fun s v => ExportGenesis.walk4 v s) g l = { g with auctions := g.auctions ++ l } := by
  induction l generalizing g with
  | nil => simp
  | cons x xs ih => rw [List.foldl_cons, ih]; simp [ExportGenesis.walk4, List.append_assoc]

/-- **ExportGenesis** returns exactly the model's export (and leaves the store alone) -/
theorem tie_ExportGenesis (s : Core) :
    Gen.ExportGenesis (storeOf s) = (toG (exportGenesis s), false, storeOf s) := by
  unfold Gen.ExportGenesis
  simp only [foldl_walk1, foldl_walk2, foldl_walk3, foldl_walk4, GStore.paramsGet, storeOf, GStore.allAllowed,
    GStore.allVqs, GStore.allBids, GStore.allAuctions, Go.defaultGenesis, toG, exportGenesis]
  simp [List.map_flatMap, Function.comp_def]
  rcases hp : s.params with ⟨cf, bf, per⟩
  cases cf <;> cases bf <;> simp <;> (try omega) <;> rfl

end Fundraising
