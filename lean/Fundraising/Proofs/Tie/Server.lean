import Fundraising.Generated.Code.Server
import Fundraising.Proofs.Tie.Msgs
import Fundraising.Proofs.Tie.MsgsCreate
import Fundraising.Proofs.Tie.Bids
import Fundraising.Proofs.Tie.Auctions
import Fundraising.Proofs.Tie.Creates
/-
  Tie of the translated message server (keeper/msg_server.go, keeper/msg_update_params.go) and
  parameter validation (types/params.go): every `msgServer` method is the address-codec check
  followed by the keeper function; composed with the `ValidateBasic` ties this gives, for every
  message, the model's `deliver` (= what baseapp runs for a transaction) as the interpretation of
  code translated from the Go source: ValidateBasic → msgServer → Keeper.
-/
namespace Fundraising
open Fundraising.Gen Fundraising.Go

/-! ### the message server only adds the address check -/

theorem tie_MsgServer_PlaceBid (m : PlaceMsgK) (ag : Int → Auction × Bool) (n : Int → Int) (L : Acc → List Bid)
    (ab : Int → Acc → Allowed × Bool) :
    (Gen.MsgServer_PlaceBid m ag n L ab).2 =
      if validAcc m.bidder then (Gen.PlaceBid m ag n L ab).2 else (true, []) := by
  unfold Gen.MsgServer_PlaceBid
  cases h : validAcc m.bidder <;> simp [h] <;> grind

theorem tie_MsgServer_ModifyBid (m : ModifyMsg) (ag : Int → Auction × Bool) (bg : Int → Int → Bid × Bool) :
    (Gen.MsgServer_ModifyBid m ag bg).2 =
      if validAcc m.bidder then Gen.ModifyBid m ag bg else (true, []) := by
  unfold Gen.MsgServer_ModifyBid
  cases h : validAcc m.bidder <;> simp [h] <;> grind

theorem tie_MsgServer_CancelAuction (m : CancelMsg) (ag : Int → Auction × Bool) (bal : Addr → Denom → Int) :
    (Gen.MsgServer_CancelAuction m ag bal).2 =
      if validAcc m.signer then Gen.CancelAuction m ag bal else (true, []) := by
  unfold Gen.MsgServer_CancelAuction
  cases h : validAcc m.signer <;> simp [h] <;> grind

theorem tie_MsgServer_CreateFixedPriceAuction (m : CreateMsg) (now nextId : Int) :
    (Gen.MsgServer_CreateFixedPriceAuction m now nextId).2 =
      if validAcc m.auctioneer then (Gen.CreateFixedPriceAuction m now nextId).2 else (true, []) := by
  unfold Gen.MsgServer_CreateFixedPriceAuction
  cases h : validAcc m.auctioneer <;> simp [h] <;> grind

theorem tie_MsgServer_CreateBatchAuction (m : CreateMsg) (now nextId : Int) :
    (Gen.MsgServer_CreateBatchAuction m now nextId).2 =
      if validAcc m.auctioneer then (Gen.CreateBatchAuction m now nextId).2 else (true, []) := by
  unfold Gen.MsgServer_CreateBatchAuction
  cases h : validAcc m.auctioneer <;> simp [h] <;> grind

/-! ### parameters -/

theorem tie_Params_Validate (p : Params) :
    Gen.Params_Validate p = !(validCoins p.creationFee && validCoins p.bidFee) := by
  unfold Gen.Params_Validate Gen.validateAuctionCreationFee Gen.validatePlaceBidFee Gen.validateExtendedPeriod
  grind

/-- **MsgUpdateParams**: accepted exactly from the authority with valid fee lists, and then it
    stores exactly the given parameters (no bound on the extended period: finding F-11) -/
theorem tie_MsgServer_UpdateParams (c : Ctx) (signer : Acc) (p : Params) :
    (Gen.MsgServer_UpdateParams ⟨signer, p⟩).2 =
      (if validAcc signer && signer == AUTHORITY && (validCoins p.creationFee && validCoins p.bidFee)
        then (false, [⟨.paramsSet, [.params p]⟩]) else (true, [])) ∧
    handle c (.updateParams signer p) =
      (if (Gen.MsgServer_UpdateParams ⟨signer, p⟩).2.1 then c.fail else pure { c with s := { c.s with params := p } }) := by
  unfold Gen.MsgServer_UpdateParams handle
  simp only [tie_Params_Validate]
  cases h1 : validAcc signer <;> cases h2 : validCoins p.creationFee <;> cases h3 : validCoins p.bidFee <;>
    by_cases h4 : signer = AUTHORITY <;>
    simp [h1, h2, h3, h4, Ctx.check, Ctx.fail, bind, Except.bind, pure, Except.pure] <;> grind

/-! ### `deliver` = ValidateBasic → msgServer → Keeper, all three translated -/

/-- **MsgPlaceBid**, end to end -/
theorem tie_deliver_place (c : Ctx) (bidder : Acc) (aid : Nat) (t : BidType) (price : Dec) (denom : Denom) (amt : Int)
    (v : AView) (hv : c.s.views[aid]? = some v)
    (hfresh : ∀ x ∈ v.bids, x.id ≠ v.bidSeq + 1)
    (hL : ((rdBidsByBidder c.s bidder).filter (fun b => decide ((b.auction : Int) = (v.a.id : Int)))) = v.bids.filter (·.bidder == bidder))
    (hid : v.a.id = aid) :
    deliver c (.place bidder aid (some t) price denom amt) =
      if Gen.MsgPlaceBid_ValidateBasic ⟨bidder, aid, some t, price, denom, amt⟩ then c.fail
      else Go.runPlan c aid v (Gen.MsgServer_PlaceBid ⟨bidder, aid, t, price, denom, amt⟩
          (rdAuction c.s) (rdNextBidId c.s) (rdBidsByBidder c.s) (rdAllowed c.s)).2 := by
  have hvb := tie_ValidateBasic_place ⟨bidder, aid, some t, price, denom, amt⟩
  simp only at hvb
  rw [hvb, tie_MsgServer_PlaceBid]
  unfold deliver handle
  cases hb : validateBasic (.place bidder aid (some t) price denom amt)
  · simp [Ctx.check, Ctx.fail, bind, Except.bind]
  · have hacc : validAcc bidder = true := by
      simp only [validateBasic, Bool.and_eq_true] at hb
      exact hb.1.1.1.1
    simp only [Bool.not_true, Bool.false_eq_true, if_false, hacc, if_true]
    rw [← tie_PlaceBid c bidder aid t price denom amt hacc v hv hfresh hL hid]
    simp [Ctx.check, bind, Except.bind]

/-- **MsgModifyBid**, end to end -/
theorem tie_deliver_modify (c : Ctx) (bidder : Acc) (aid bidId : Nat) (price : Dec) (denom : Denom) (amt : Int)
    (v : AView) (hv : c.s.views[aid]? = some v) (hpos : ∀ b ∈ v.bids, 0 < b.amt ∧ 0 < b.price)
    (hbauc : ∀ b ∈ v.bids, b.auction = v.a.id) :
    deliver c (.modify bidder aid bidId price denom amt) =
      if Gen.MsgModifyBid_ValidateBasic ⟨bidder, aid, bidId, price, denom, amt⟩ then c.fail
      else Go.runPlan c aid v (Gen.MsgServer_ModifyBid ⟨bidder, aid, bidId, price, denom, amt⟩ (rdAuction c.s) (rdBid c.s)).2 := by
  have hvb := tie_ValidateBasic_modify ⟨bidder, aid, bidId, price, denom, amt⟩
  simp only at hvb
  rw [hvb, tie_MsgServer_ModifyBid]
  unfold deliver handle
  cases hb : validateBasic (.modify bidder aid bidId price denom amt)
  · simp [Ctx.check, Ctx.fail, bind, Except.bind]
  · have hacc : validAcc bidder = true := by
      simp only [validateBasic, Bool.and_eq_true] at hb
      exact hb.1.1.1
    simp only [Bool.not_true, Bool.false_eq_true, if_false, hacc, if_true]
    rw [← tie_ModifyBid c bidder aid bidId price denom amt hacc v hv hpos hbauc]
    simp [Ctx.check, bind, Except.bind]

/-- **MsgCancelAuction**, end to end -/
theorem tie_deliver_cancel (c : Ctx) (signer : Acc) (aid : Nat) (v : AView) (hv : c.s.views[aid]? = some v)
    (hid : v.a.id = aid) :
    deliver c (.cancel signer aid) =
      if Gen.MsgCancelAuction_ValidateBasic ⟨signer, aid⟩ then c.fail
      else Go.runPlan c aid v (Gen.MsgServer_CancelAuction ⟨signer, aid⟩ (rdAuction c.s) c.s.bank).2 := by
  have hvb := tie_ValidateBasic_cancel ⟨signer, aid⟩
  simp only at hvb
  rw [hvb, tie_MsgServer_CancelAuction]
  unfold deliver handle
  cases hb : validateBasic (.cancel signer aid)
  · simp [Ctx.check, Ctx.fail, bind, Except.bind]
  · have hacc : validAcc signer = true := by simpa [validateBasic] using hb
    simp only [Bool.not_true, Bool.false_eq_true, if_false, hacc, if_true]
    rw [← tie_CancelAuction c signer aid v hv hid]
    simp [Ctx.check, bind, Except.bind]

/-- **MsgCreateFixedPriceAuction**, end to end -/
theorem tie_deliver_createFixed (c : Ctx) (m : CreateMsg) (hty : m.type = .fixed) :
    deliver c (.create m) =
      if Gen.MsgCreateFixedPriceAuction_ValidateBasic m then c.fail
      else Go.runPlanNew c ({ a := default } : AView) (Gen.MsgServer_CreateFixedPriceAuction m c.s.now (c.s.views.length : Int)).2 := by
  rw [tie_ValidateBasic_createFixed m hty, tie_MsgServer_CreateFixedPriceAuction]
  unfold deliver handle
  cases hb : validateBasic (.create m)
  · simp [Ctx.check, Ctx.fail, bind, Except.bind]
  · have hacc : validAcc m.auctioneer = true := by
      simp only [validateBasic, Bool.and_eq_true] at hb
      exact hb.1.1.1.1.1.1.1.1.1
    simp only [Bool.not_true, Bool.false_eq_true, if_false, hacc, if_true]
    rw [← tie_CreateFixedPriceAuction c m hty hacc]
    simp [Ctx.check, bind, Except.bind]

/-- **MsgCreateBatchAuction**, end to end -/
theorem tie_deliver_createBatch (c : Ctx) (m : CreateMsg) (hty : m.type = .batch) :
    deliver c (.create m) =
      if Gen.MsgCreateBatchAuction_ValidateBasic m then c.fail
      else Go.runPlanNew c ({ a := default } : AView) (Gen.MsgServer_CreateBatchAuction m c.s.now (c.s.views.length : Int)).2 := by
  rw [tie_ValidateBasic_createBatch m hty, tie_MsgServer_CreateBatchAuction]
  unfold deliver handle
  cases hb : validateBasic (.create m)
  · simp [Ctx.check, Ctx.fail, bind, Except.bind]
  · have hacc : validAcc m.auctioneer = true := by
      simp only [validateBasic, Bool.and_eq_true] at hb
      exact hb.1.1.1.1.1.1.1.1.1
    simp only [Bool.not_true, Bool.false_eq_true, if_false, hacc, if_true]
    rw [← tie_CreateBatchAuction c m hty hacc]
    simp [Ctx.check, bind, Except.bind]

end Fundraising
