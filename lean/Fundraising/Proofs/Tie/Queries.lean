import Fundraising.Generated.Code.Queries
import Fundraising.Tables.GoStore
import Fundraising.Model.Genesis
/-
  Tie of the translated gRPC query handlers (keeper/query_*.go) to the model's query functions
  (Model/Genesis.lean `queryBids`, `queryBid`, `queryAuctions`, `queryAuction`, `queryAllowedAll`,
  `queryAllowedOne`, `queryVestingsAll`) — the functions `Props/C16` states "filtered listings and
  queries by id return exactly the stored objects that satisfy the request" about, and with which
  the differential run compares the answers of the real handlers.

  A listing is all its pages together (`Go.paginate`): how the SDK cuts it into pages is not
  modelled.  `ListAllowedBidder` and `ListVestingQueue` are tied to what the code DOES: they walk
  the whole collection, whatever `auction_id` the request carries (the known finding of C16).
-/
namespace Fundraising
open Fundraising.Gen Fundraising.Go

namespace TieQueries

theorem paginate_eq {α β : Type} (l : List α) (pred : α → Bool × Bool) (tr : α → β × Bool)
    (p : α → Bool) (f : α → β) (hp : ∀ x, pred x = (p x, false)) (hf : ∀ x, tr x = (f x, false)) :
    Go.paginate l pred tr = ((l.filter p).map f, (), false) := by
  have e1 : pred = fun x => (p x, false) := funext hp
  have e2 : tr = fun x => (f x, false) := funext hf
  subst e1; subst e2
  simp [Go.paginate]

theorem paginate_filter {α : Type} (l : List α) (pred : α → Bool × Bool) (tr : α → α × Bool)
    (q : α → Bool) (hp : ∀ x, pred x = (q x, false)) (hf : ∀ x, tr x = (x, false)) :
    Go.paginate l pred tr = (l.filter q, (), false) := by
  rw [paginate_eq l pred tr q (fun x => x) hp hf, List.map_id']

theorem bidsOf_storeOf (s : Core) (aid : Nat) :
    GStore.bidsOf (storeOf s) (aid : Int) = ((s.views[aid]?).map (·.bids)).getD [] := by
  simp [GStore.bidsOf, GStore.viewAt, storeOf]

theorem storeViewAt_nat (s : Core) (aid : Nat) : GStore.viewAt (storeOf s) (aid : Int) = s.views[aid]? := by
  simp [GStore.viewAt, storeOf]

theorem paginate_all {α β : Type} (l : List α) (tr : α → β × Bool)
    (f : α → β) (hf : ∀ x, tr x = (f x, false)) :
    Go.paginate l (fun _ => (true, false)) tr = (l.map f, (), false) := by
  have e2 : tr = fun x => (f x, false) := funext hf
  subst e2
  have : List.filter (fun _ : α => true) l = l := List.filter_eq_self.2 (by simp)
  simp [Go.paginate, this]

/-- a listing without a filter: every record, whatever closures spell "keep it, as it is" -/
theorem paginate_true {α : Type} (l : List α) (pred : α → Bool × Bool) (tr : α → α × Bool)
    (hp : ∀ x, pred x = (true, false)) (hf : ∀ x, tr x = (x, false)) :
    Go.paginate l pred tr = (l, (), false) := by
  rw [paginate_filter l pred tr (fun _ => true) hp hf]
  simp

theorem getAllowed_aux (x : Option Allowed) (n : Nat) (st : GStore) :
    (if x.isNone = true then
        (if x.isNone = true then ((none : Option GetAllowedResp), true, st) else (none, true, st))
      else (some ({ allowed := (x.map (fun x => (⟨n, x.bidder, x.cap⟩ : AllowedArg))).getD default } : GetAllowedResp),
        false, st)).2.1 = x.isNone ∧
    ((if x.isNone = true then
        (if x.isNone = true then ((none : Option GetAllowedResp), true, st) else (none, true, st))
      else (some ({ allowed := (x.map (fun x => (⟨n, x.bidder, x.cap⟩ : AllowedArg))).getD default } : GetAllowedResp),
        false, st)).1.map
        (fun r => ({ bidder := r.allowed.bidder, cap := r.allowed.cap } : Allowed))) = x := by
  cases x <;> simp

theorem getBid_aux (x : Option Bid) (st : GStore) :
    (if x.isNone = true then
        (if x.isNone = true then ((none : Option GetBidResp), true, st) else (none, true, st))
      else (some ({ bid := x.getD default } : GetBidResp), false, st)) =
    (match x with
     | some b => (some ⟨b⟩, false, st)
     | none => (none, true, st)) := by
  cases x <;> simp

/-- the filter of a `ListBid` request -/
def bidFilter (bidder : Option Acc) (matched : Option Bool) (b : Bid) : Bool :=
  (match bidder with | some u => b.bidder == u | none => true)
  && (match matched with | some m => b.matched == m | none => true)

theorem queryBids_eq (s : Core) (aid : Nat) (bidder : Option Acc) (matched : Option Bool) :
    queryBids s aid bidder matched =
      List.filter (bidFilter bidder matched) (GStore.bidsOf (storeOf s) (aid : Int)) := by
  simp only [bidsOf_storeOf, queryBids]
  cases s.views[aid]? with
  | none => rfl
  | some v => rfl

/-- the filter of a `ListAuction` request -/
def aucFilter (st : Option Status) (ty : Option AType) (a : Auction) : Bool :=
  (match st with | some x => a.status == x | none => true)
  && (match ty with | some x => a.type == x | none => true)

theorem queryAuctions_eq (s : Core) (st : Option Status) (ty : Option AType) :
    queryAuctions s st ty = List.filter (aucFilter st ty) (GStore.allAuctions (storeOf s)) := rfl

end TieQueries
open TieQueries

/-- **ListBid**, well-formed request: the bids of that auction that satisfy the optional filters -/
theorem tie_Query_ListBid (s : Core) (aid : Nat) (bidder : Option Acc) (matched : Option Bool)
    (hb : ∀ u, bidder = some u → validAcc u = true) :
    Gen.Query_ListBid ⟨aid, bidder, matched.map BoolStr.is⟩ (storeOf s) =
      (some ⟨queryBids s aid bidder matched⟩, false, storeOf s) := by
  rw [queryBids_eq]
  -- by cases on the REQUEST first; then whatever closures the handler hands to the paginator
  -- are shown to compute `bidFilter` of that request, record field by record field
  rcases bidder with _ | u <;> rcases matched with _ | m
  · simp only [Gen.Query_ListBid, Option.map, Option.isNone, Bool.not_true, Bool.false_eq_true, if_false]
    rw [paginate_filter _ _ _ (bidFilter none none) ?_ (fun _ => rfl)]
    · rfl
    · intro x; simp [bidFilter]
  · simp only [Gen.Query_ListBid, Option.map, Option.isNone, Bool.not_true, Bool.not_false, Bool.false_eq_true,
      if_false, if_true, Go.parseBoolStr]
    rw [paginate_filter _ _ _ (bidFilter none (some m)) ?_ (fun _ => rfl)]
    · rfl
    · intro x; by_cases h2 : x.matched = m <;> simp [bidFilter, h2]
  · have hu : validAcc u = true := hb u rfl
    simp only [Gen.Query_ListBid, Option.map, Option.isNone, Bool.not_true, Bool.not_false, Bool.false_eq_true,
      if_false, if_true, Go.optAccParse, hu]
    rw [paginate_filter _ _ _ (bidFilter (some u) none) ?_ (fun _ => rfl)]
    · rfl
    · intro x; by_cases h1 : x.bidder = u <;> simp [bidFilter, h1]
  · have hu : validAcc u = true := hb u rfl
    simp only [Gen.Query_ListBid, Option.map, Option.isNone, Bool.not_true, Bool.not_false, Bool.false_eq_true,
      if_false, if_true, Go.optAccParse, hu, Go.parseBoolStr]
    rw [paginate_filter _ _ _ (bidFilter (some u) (some m)) ?_ (fun _ => rfl)]
    · rfl
    · intro x; by_cases h1 : x.bidder = u <;> by_cases h2 : x.matched = m <;> simp [bidFilter, h1, h2]

/-- **ListBid**, malformed request: a bidder string that is not an address, or an `is_matched`
    that is not a boolean literal, is refused -/
theorem tie_Query_ListBid_malformed (s : Core) (aid : Int) (bidder : Option Acc) (m : Option BoolStr)
    (h : (∃ u, bidder = some u ∧ validAcc u = false) ∨ m = some BoolStr.junk) :
    (Gen.Query_ListBid ⟨aid, bidder, m⟩ (storeOf s)).1 = none ∧
    (Gen.Query_ListBid ⟨aid, bidder, m⟩ (storeOf s)).2.1 = true := by
  rcases h with ⟨u, rfl, hu⟩ | rfl
  · simp [Gen.Query_ListBid, Go.optAccParse, hu]
  · cases bidder with
    | none => simp [Gen.Query_ListBid, Go.parseBoolStr]
    | some u =>
      cases hu : validAcc u <;> simp [Gen.Query_ListBid, Go.parseBoolStr, Go.optAccParse, hu]

/-- **GetBid**: the bid stored under (auction id, bid id), or not found -/
theorem tie_Query_GetBid (s : Core) (aid bidId : Nat) :
    Gen.Query_GetBid ⟨aid, bidId⟩ (storeOf s) =
      (match queryBid s aid bidId with
       | some b => (some ⟨b⟩, false, storeOf s)
       | none => (none, true, storeOf s)) := by
  have hp : (fun b : Bid => decide ((b.id : Int) = (bidId : Int))) = (fun b : Bid => b.id == bidId) := by
    funext b; simp only [Int.natCast_inj]; by_cases h : b.id = bidId <;> simp [h]
  simp only [Gen.Query_GetBid, GStore.bidGet, storeViewAt_nat, queryBid, hp]
  cases s.views[aid]? with
  | none => simp
  | some v =>
    exact getBid_aux _ _

/-- **ListAuction**, well-formed request -/
theorem tie_Query_ListAuction (s : Core) (st : Option Status) (ty : Option AType) :
    Gen.Query_ListAuction ⟨st.map StatusStr.is, ty.map ATypeStr.is⟩ (storeOf s) =
      (some ⟨queryAuctions s st ty⟩, false, storeOf s) := by
  rw [queryAuctions_eq]
  -- whatever closures the handler hands to the paginator: if they compute `aucFilter` …
  have hpag := fun p t => paginate_filter (GStore.allAuctions (storeOf s)) p t (aucFilter st ty)
  -- by cases on the REQUEST first.  The guards that refuse malformed strings are then closed
  -- boolean terms, whatever way the code spells the test (a chain of ==, a switch, a helper that
  -- walks a table): they are evaluated.  The filter is compared record field by record field.
  rcases st with _ | st <;> rcases ty with _ | ty <;> (try cases st) <;> (try cases ty) <;>
    (simp (config := { decide := true }) only [Gen.Query_ListAuction, Option.map]
     rw [hpag _ _ ?_ (fun _ => rfl)]
     · rfl
     · intro x
       cases hS : x.status <;> cases hT : x.type <;> simp [aucFilter, hS, hT])

/-- **ListAuction**, a status or type string that names no status / type is refused -/
theorem tie_Query_ListAuction_malformed (s : Core) (st : Option StatusStr) (ty : Option ATypeStr)
    (h : st = some StatusStr.junk ∨ ty = some ATypeStr.junk) :
    (Gen.Query_ListAuction ⟨st, ty⟩ (storeOf s)).1 = none ∧
    (Gen.Query_ListAuction ⟨st, ty⟩ (storeOf s)).2.1 = true := by
  -- by cases on the request: the guards are then closed boolean terms and are evaluated
  rcases h with rfl | rfl
  · rcases ty with _ | _ | ty <;> (try cases ty) <;>
      simp (config := { decide := true }) only [Gen.Query_ListAuction] <;> simp
  · rcases st with _ | _ | st <;> (try cases st) <;>
      simp (config := { decide := true }) only [Gen.Query_ListAuction] <;> simp

/-- **GetAuction** -/
theorem tie_Query_GetAuction (s : Core) (aid : Nat) :
    Gen.Query_GetAuction ⟨aid⟩ (storeOf s) =
      (match queryAuction s aid with
       | some a => (some ⟨a⟩, false, storeOf s)
       | none => (none, true, storeOf s)) := by
  have hv : (storeOf s).views[(aid : Int).toNat]? = s.views[aid]? := by simp [storeOf]
  simp only [Gen.Query_GetAuction, GStore.auctionGet, queryAuction, hv]
  rcases s.views[aid]? with _ | v <;> simp

/-- what `ListAllowedBidder` / `ListVestingQueue` are documented to return: the records of the
    requested auction -/
def queryAllowedOf (s : Core) (aid : Nat) : List (Nat × Allowed) :=
  match s.views[aid]? with
  | some v => v.allowed.map (fun x => (v.a.id, x))
  | none => []

def queryVestingsOf (s : Core) (aid : Nat) : List VQ :=
  match s.views[aid]? with
  | some v => v.vqs
  | none => []

set_option linter.unusedSimpArgs false in -- the branch of `first` that does not apply
/-- **ListAllowedBidder**: EITHER what the code has now — every allowed bidder of every auction,
    whatever `auction_id` the request carries (C16's known finding: the translation shows the
    missing prefix, `GStore.allAllowed` instead of `GStore.allowedArgsOf st req.aid`) — OR, once
    that is repaired with a pair-prefix option, exactly the records of the requested auction.
    The proof below closes for both; which one holds is what the C16 monitor reports. -/
theorem tie_Query_ListAllowedBidder (s : Core) (aid : Nat) :
    (Gen.Query_ListAllowedBidder ⟨aid⟩ (storeOf s)).2.1 = false ∧
    (((Gen.Query_ListAllowedBidder ⟨aid⟩ (storeOf s)).1.map
        (fun r => r.allowed.map (fun x => (x.recAuction, ({ bidder := x.bidder, cap := x.cap } : Allowed))))) =
      some (queryAllowedAll s) ∨
     ((Gen.Query_ListAllowedBidder ⟨aid⟩ (storeOf s)).1.map
        (fun r => r.allowed.map (fun x => (x.recAuction, ({ bidder := x.bidder, cap := x.cap } : Allowed))))) =
      some (queryAllowedOf s aid)) := by
  simp only [Gen.Query_ListAllowedBidder]
  rw [paginate_true _ _ _ (fun _ => rfl) (fun _ => rfl)]
  simp only [Bool.false_eq_true, if_false, Option.map_some, true_and]
  first
  | (left
     simp only [GStore.allAllowed, storeOf, queryAllowedAll, List.map_flatMap, List.map_map]
     rfl)
  | (right
     simp only [GStore.allowedArgsOf, storeViewAt_nat, queryAllowedOf]
     cases s.views[aid]? with
     | none => rfl
     | some v => simp only [Option.map_some, Option.getD_some, List.map_map]; rfl)

/-- **GetAllowedBidder** -/
theorem tie_Query_GetAllowedBidder (s : Core) (aid : Nat) (u : Acc) (hu : validAcc u = true) :
    (Gen.Query_GetAllowedBidder ⟨aid, u⟩ (storeOf s)).2.1 = (queryAllowedOne s aid u).isNone ∧
    ((Gen.Query_GetAllowedBidder ⟨aid, u⟩ (storeOf s)).1.map
        (fun r => ({ bidder := r.allowed.bidder, cap := r.allowed.cap } : Allowed))) = queryAllowedOne s aid u := by
  simp only [Gen.Query_GetAllowedBidder, hu, GStore.allowedGet, storeViewAt_nat, queryAllowedOne, Bool.not_true,
    Bool.false_eq_true, if_false]
  cases s.views[aid]? with
  | none => simp
  | some v =>
    exact getAllowed_aux _ _ _

theorem tie_Query_GetAllowedBidder_malformed (s : Core) (aid : Int) (u : Acc) (hu : validAcc u = false) :
    (Gen.Query_GetAllowedBidder ⟨aid, u⟩ (storeOf s)).1.isNone = true ∧
    (Gen.Query_GetAllowedBidder ⟨aid, u⟩ (storeOf s)).2.1 = true := by
  simp [Gen.Query_GetAllowedBidder, hu]

set_option linter.unusedSimpArgs false in -- the branch of `first` that does not apply
/-- **ListVestingQueue**: every queue of every auction (known finding), or — repaired — the
    queues of the requested auction -/
theorem tie_Query_ListVestingQueue (s : Core) (aid : Nat) :
    Gen.Query_ListVestingQueue ⟨aid⟩ (storeOf s) = (some ⟨queryVestingsAll s⟩, false, storeOf s) ∨
    Gen.Query_ListVestingQueue ⟨aid⟩ (storeOf s) = (some ⟨queryVestingsOf s aid⟩, false, storeOf s) := by
  simp only [Gen.Query_ListVestingQueue]
  rw [paginate_true _ _ _ (fun _ => rfl) (fun _ => rfl)]
  simp only [Bool.false_eq_true, if_false]
  first
  | (left
     simp only [GStore.allVqs, storeOf, queryVestingsAll]
     done)
  | (right
     simp only [GStore.vqsOf, storeViewAt_nat, queryVestingsOf]
     cases s.views[aid]? with
     | none => rfl
     | some v => rfl)

end Fundraising
