import Fundraising.Proofs.Tie.Server
import Fundraising.Proofs.Tie.Settle
import Fundraising.Proofs.Tie.Vesting
import Fundraising.Proofs.WFProofs
import Fundraising.Proofs.ProgressBlock
/-
  The refinement theorems: in every well-formed (hence every reachable) state, what the model
  does for a transaction and for a block IS the interpretation of the code translated from the
  Go source on this run.

  `translatedDeliver` / `translatedBlock` are written from the generated definitions only
  (`Gen.*`, Generated/Code/*.lean) plus the interpreter (`Go.runPlan`, `Go.runPlanNew`,
  `Go.runSettlePlan`) and the READS that supply the oracle parameters (which record of the
  state each store read returns).  They contain no decision logic of their own.
-/
namespace Fundraising
open Fundraising.Gen Fundraising.Go

/-- what `GetBidsByBidder` returns: the bidder's bids of ALL auctions, in store order -/
def allBidsOf (s : Core) (bidder : Acc) : List Bid := Go.rdBidsByBidder s bidder


/-! ### helpers for `refinement_deliver` -/
namespace TieRefinement

theorem filter_swap {α : Type} (p q : α → Bool) (l : List α) :
    (l.filter p).filter q = (l.filter q).filter p := by
  simp only [List.filter_filter]
  congr 1
  funext a
  exact Bool.and_comm _ _

/-- all bids of all views whose `auction` field is `aid` are the bids of view `aid` -/
theorem flat_filter_auction (views : List AView)
    (hau : ∀ (i : Nat) (w : AView), views[i]? = some w → ∀ b ∈ w.bids, b.auction = i)
    (aid : Nat) (v : AView) (hv : views[aid]? = some v) :
    (views.flatMap (·.bids)).filter (fun b => decide (b.auction = aid)) = v.bids := by
  obtain ⟨hlt, he⟩ := List.getElem?_eq_some_iff.mp hv
  have hsplit : views = views.take aid ++ (v :: views.drop (aid + 1)) := by
    rw [← he, ← List.drop_eq_getElem_cons hlt, List.take_append_drop]
  have h1 : ((views.take aid).flatMap (·.bids)).filter (fun b => decide (b.auction = aid)) = [] := by
    rw [List.filter_eq_nil_iff]
    intro b hb
    rw [List.mem_flatMap] at hb
    obtain ⟨w, hw, hbw⟩ := hb
    obtain ⟨j, hj, hjw⟩ := List.mem_take_iff_getElem.mp hw
    have hjv : views[j]? = some w := by rw [← hjw]; exact List.getElem?_eq_getElem _
    have := hau j w hjv b hbw
    simp; omega
  have h2 : ((views.drop (aid + 1)).flatMap (·.bids)).filter (fun b => decide (b.auction = aid)) = [] := by
    rw [List.filter_eq_nil_iff]
    intro b hb
    rw [List.mem_flatMap] at hb
    obtain ⟨w, hw, hbw⟩ := hb
    obtain ⟨j, hj, hjw⟩ := List.mem_drop_iff_getElem.mp hw
    have hjv : views[aid + 1 + j]? = some w := by rw [← hjw]; exact List.getElem?_eq_getElem _
    have := hau _ w hjv b hbw
    simp; omega
  have h3 : v.bids.filter (fun b => decide (b.auction = aid)) = v.bids := by
    rw [List.filter_eq_self]
    intro b hb
    simpa using hau aid v hv b hb
  rw [hsplit, List.flatMap_append, List.flatMap_cons, List.filter_append, List.filter_append, h1, h2, h3]
  simp

/-- `hL` of `tie_deliver_place`: of what `GetBidsByBidder` returns, the bids of this auction are
    the bidder's bids in its view -/
theorem allBidsOf_filter (s : Core) (hwf : WF s) (bidder : Acc) (aid : Nat) (v : AView)
    (hv : s.views[aid]? = some v) :
    ((allBidsOf s bidder).filter (fun b => decide ((b.auction : Int) = (v.a.id : Int)))) =
      v.bids.filter (·.bidder == bidder) := by
  have hid := (hwf.views aid v hv).id
  have hau : ∀ (i : Nat) (w : AView), s.views[i]? = some w → ∀ b ∈ w.bids, b.auction = i := by
    intro i w hw b hb
    have W := hwf.views i w hw
    rw [(W.bids b hb).auction, W.id]
  have hp : (fun b : Bid => decide ((b.auction : Int) = (v.a.id : Int))) = (fun b => decide (b.auction = aid)) := by
    funext b
    rw [hid]
    simp
    omega
  unfold allBidsOf Go.rdBidsByBidder
  rw [hp, filter_swap, flat_filter_auction s.views hau aid v hv]

/-- `hfresh` of `tie_deliver_place`: ids are `1 … length`, the counter is the length -/
theorem fresh_of_wf {i : Nat} {v : AView} (W : ViewWF i v) : ∀ x ∈ v.bids, x.id ≠ v.bidSeq + 1 := by
  intro x hx
  have h : x.id ∈ v.bids.map (·.id) := List.mem_map.mpr ⟨x, hx, rfl⟩
  rw [W.bidIds] at h
  obtain ⟨k, hk, e⟩ := List.mem_map.mp h
  have := List.mem_range.mp hk
  rw [W.bidSeq]
  omega

end TieRefinement
open TieRefinement

/-- a delivered message, by the translated code: `ValidateBasic`, then the message server -/
def translatedDeliver (c : Ctx) : Msg → M Ctx
  | .create m =>
    match m.type with
    | .fixed =>
      if Gen.MsgCreateFixedPriceAuction_ValidateBasic m then c.fail
      else Go.runPlanNew c ({ a := default } : AView) (Gen.MsgServer_CreateFixedPriceAuction m c.s.now (c.s.views.length : Int)).2
    | .batch =>
      if Gen.MsgCreateBatchAuction_ValidateBasic m then c.fail
      else Go.runPlanNew c ({ a := default } : AView) (Gen.MsgServer_CreateBatchAuction m c.s.now (c.s.views.length : Int)).2
  | .cancel signer aid =>
    if Gen.MsgCancelAuction_ValidateBasic ⟨signer, aid⟩ then c.fail
    else Go.runPlanAt c aid (Gen.MsgServer_CancelAuction ⟨signer, aid⟩ (Go.rdAuction c.s) c.s.bank).2
  | .place bidder aid none price denom amt =>
    if Gen.MsgPlaceBid_ValidateBasic ⟨bidder, aid, none, price, denom, amt⟩ then c.fail else pure c
  | .place bidder aid (some t) price denom amt =>
    if Gen.MsgPlaceBid_ValidateBasic ⟨bidder, aid, some t, price, denom, amt⟩ then c.fail
    else Go.runPlanAt c aid (Gen.MsgServer_PlaceBid ⟨bidder, aid, t, price, denom, amt⟩
          (Go.rdAuction c.s) (Go.rdNextBidId c.s) (Go.rdBidsByBidder c.s) (Go.rdAllowed c.s)).2
  | .modify bidder aid bidId price denom amt =>
    if Gen.MsgModifyBid_ValidateBasic ⟨bidder, aid, bidId, price, denom, amt⟩ then c.fail
    else Go.runPlanAt c aid (Gen.MsgServer_ModifyBid ⟨bidder, aid, bidId, price, denom, amt⟩ (Go.rdAuction c.s) (Go.rdBid c.s)).2
  | .addAllowed aid ab =>
    if Gen.MsgAddAllowedBidder_ValidateBasic ⟨aid, ab⟩ then c.fail
    else Go.runPlanAt c aid (Gen.MsgServer_AddAllowedBidder ⟨aid, ab⟩ (Go.rdAuction c.s) c.s.enableAdd).2
  | .updateParams signer p =>
    if (Gen.MsgServer_UpdateParams ⟨signer, p⟩).2.1 then c.fail else pure { c with s := { c.s with params := p } }

/-- **Refinement, transactions.**  In every well-formed state, for every message with any field
    values, the model's `deliver` is the interpretation of the translated code. -/
theorem refinement_deliver (c : Ctx) (hwf : WF c.s) (m : Msg) : deliver c m = translatedDeliver c m := by
  cases m with
  | create m =>
    cases hty : m.type with
    | fixed =>
      rw [tie_deliver_createFixed c m hty]
      simp only [translatedDeliver, hty]
    | batch =>
      rw [tie_deliver_createBatch c m hty]
      simp only [translatedDeliver, hty]
  | cancel signer aid =>
    cases hv : c.s.views[aid]? with
    | some v =>
      rw [tie_deliver_cancel c signer aid v hv (hwf.views aid v hv).id]
      simp only [translatedDeliver, Go.runPlanAt, hv]
    | none =>
      have h1 := tie_CancelAuction_noAuction c signer aid hv c.s.bank
      simp only [translatedDeliver, Go.runPlanAt, hv, tie_MsgServer_CancelAuction, h1.2]
      simp only [deliver, handle, h1.1]
      cases hb : validateBasic (.cancel signer aid) <;>
        simp [Ctx.check, Ctx.fail, bind, Except.bind]
  | place bidder aid ty price denom amt =>
    cases ty with
    | none =>
      have hvb := tie_ValidateBasic_place ⟨bidder, aid, none, price, denom, amt⟩
      simp only at hvb
      simp only [translatedDeliver, hvb]
      unfold deliver
      simp [validateBasic, Ctx.check, Ctx.fail, bind, Except.bind]
    | some t =>
      cases hv : c.s.views[aid]? with
      | some v =>
        have W := hwf.views aid v hv
        rw [tie_deliver_place c bidder aid t price denom amt v hv (fresh_of_wf W)
          (allBidsOf_filter c.s hwf bidder aid v hv) W.id]
        simp only [translatedDeliver, Go.runPlanAt, hv]
      | none =>
        have h1 := tie_PlaceBid_noAuction c bidder aid t price denom amt hv
          (Go.rdNextBidId c.s) (Go.rdBidsByBidder c.s) (Go.rdAllowed c.s)
        simp only [translatedDeliver, Go.runPlanAt, hv, tie_MsgServer_PlaceBid, h1.2]
        simp only [deliver, handle, h1.1]
        cases hb : validateBasic (.place bidder aid (some t) price denom amt) <;>
          simp [Ctx.check, Ctx.fail, bind, Except.bind]
  | modify bidder aid bidId price denom amt =>
    cases hv : c.s.views[aid]? with
    | some v =>
      have W := hwf.views aid v hv
      rw [tie_deliver_modify c bidder aid bidId price denom amt v hv
        (fun b hb => ⟨(W.bids b hb).amt, (W.bids b hb).price⟩) (fun b hb => (W.bids b hb).auction)]
      simp only [translatedDeliver, Go.runPlanAt, hv]
    | none =>
      have h1 := tie_ModifyBid_noAuction c bidder aid bidId price denom amt hv (Go.rdBid c.s)
      simp only [translatedDeliver, Go.runPlanAt, hv, tie_MsgServer_ModifyBid, h1.2]
      simp only [deliver, handle, h1.1]
      cases hb : validateBasic (.modify bidder aid bidId price denom amt) <;>
        simp [Ctx.check, Ctx.fail, bind, Except.bind]
  | addAllowed aid ab =>
    have hvb := tie_ValidateBasic_addAllowed ⟨aid, ab⟩
    simp only at hvb
    cases hacc : validAcc ab.bidder with
    | false =>
      have hb : validateBasic (.addAllowed aid ab) = false := by simpa [validateBasic] using hacc
      simp only [translatedDeliver, hvb, hb]
      unfold deliver
      simp [hb, Ctx.check, Ctx.fail, bind, Except.bind]
    | true =>
      have hb : validateBasic (.addAllowed aid ab) = true := by simpa [validateBasic] using hacc
      cases hv : c.s.views[aid]? with
      | some v =>
        simp only [translatedDeliver, Go.runPlanAt, hvb, hb, hv]
        unfold deliver
        rw [tie_MsgServer_AddAllowedBidder c aid ab hacc v hv (hwf.views aid v hv).id]
        simp [hb, Ctx.check, bind, Except.bind]
      | none =>
        have h1 := tie_AddAllowedBidders_noAuction c aid [ab] hv
        simp only [translatedDeliver, Go.runPlanAt, hvb, hb, hv]
        simp only [deliver, handle, Gen.MsgServer_AddAllowedBidder, h1.1, h1.2, hacc]
        cases he : c.s.enableAdd <;> simp [hb, Ctx.check, Ctx.fail, bind, Except.bind]
  | updateParams signer p =>
    have h1 := (tie_MsgServer_UpdateParams c signer p).2
    simp only [translatedDeliver]
    rw [← h1]
    unfold deliver
    simp [validateBasic, Ctx.check, bind, Except.bind]

/-- … in particular in every reachable state -/
theorem refinement_deliver_reach (st : State) (h : Reach st) (m : Msg) :
    deliver { s := st.core, ctl := st.ctl } m = translatedDeliver { s := st.core, ctl := st.ctl } m :=
  refinement_deliver _ (wf_reach st h) m

/-- one iteration of the translated `BeginBlocker` on the auction record `a` of the SNAPSHOT the
    Go code took at the start of the block: the dispatch on the status, then the executor -/
def translatedExec (c : Ctx) (a : Auction) : M Ctx :=
  match (Gen.BeginBlocker [a]).2 with
  | [] => pure c
  | [e] =>
    match e.name with
    | .execStandBy => Go.runSettlePlan c a.id (Gen.ExecuteStandByStatus a c.s.now)
    | .execStarted => Go.runSettlePlan c a.id (Gen.ExecuteStartedStatus a c.s.now)
    | .execVesting => Go.runSettlePlan c a.id (Gen.ReleaseVestingPayingCoin a (Go.rdVqs c.s) c.s.now)
    | _ => c.fail .panic
  | _ => c.fail .panic

def translatedLoop (c : Ctx) : List Auction → M Ctx
  | [] => pure c
  | a :: rest => do
    let c ← translatedExec c a
    translatedLoop c rest

/-- a block, by the translated code: the snapshot of all auction records, then one executor each -/
def translatedBlock (c : Ctx) (t : Int) : M Ctx :=
  let c := { c with s := { c.s with now := t } }
  translatedLoop c (c.s.views.map (·.a))

/-- **one iteration**: on the record of a well-formed view, the translated dispatch and
    executor are the model's `blockStep` -/
theorem translatedExec_eq_blockStep (c : Ctx) (aid : Nat) (v : AView) (hv : c.s.views[aid]? = some v)
    (W : ViewWF aid v) : translatedExec c v.a = blockStep c aid := by
  have hid := W.id
  unfold translatedExec
  rw [tie_BeginBlocker]
  cases hst : v.a.status with
  | standby =>
    simp only [List.filterMap_cons, List.filterMap_nil, dispatchEff, hst, hid]
    exact (tie_ExecuteStandByStatus c aid v hv hst hid).symm
  | started =>
    simp only [List.filterMap_cons, List.filterMap_nil, dispatchEff, hst, hid]
    exact (tie_ExecuteStartedStatus c aid v hv hst W.auction.endNonempty).symm
  | vesting =>
    simp only [List.filterMap_cons, List.filterMap_nil, dispatchEff, hst, hid]
    rw [tie_ExecuteVestingStatus c aid v hv hst]
    exact (tie_ReleaseVestingPayingCoin c aid v hv hid (fun q hq => (W.vqsWF q hq).2.2.2)).symm
  | finished =>
    simp only [List.filterMap_cons, List.filterMap_nil, dispatchEff, hst]
    exact (tie_blockStep_terminal c aid v hv (Or.inl hst)).1.symm
  | cancelled =>
    simp only [List.filterMap_cons, List.filterMap_nil, dispatchEff, hst]
    exact (tie_blockStep_terminal c aid v hv (Or.inr hst)).1.symm

/-- the loop, from index `k` on: the model reads each view FRESH, the translated code iterates
    over the SNAPSHOT `rest` of the records not yet processed; they agree because an iteration
    does not touch the views of the other auctions (`blockStep_foot`) -/
theorem blockLoop_eq_translatedLoop : ∀ (rest : List Auction) (k : Nat) (c : Ctx),
    (∀ j, (c.s.views[k + j]?).map (·.a) = rest[j]?) →
    (∀ j v, k ≤ j → c.s.views[j]? = some v → ViewWF j v) →
    blockLoop c (List.range' k rest.length) = translatedLoop c rest := by
  intro rest
  induction rest with
  | nil => intro k c _ _; rfl
  | cons a rest ih =>
    intro k c hsnap hW
    have h0 := hsnap 0
    simp only [Nat.add_zero, List.getElem?_cons_zero, Option.map_eq_some_iff] at h0
    obtain ⟨v, hv, hva⟩ := h0
    subst hva
    simp only [List.length_cons, List.range'_succ, blockLoop, translatedLoop]
    rw [translatedExec_eq_blockStep c k v hv (hW k v (Nat.le_refl _) hv)]
    cases hstep : blockStep c k with
    | error e => rfl
    | ok c1 =>
      obtain ⟨hoth, _, _⟩ := ProgressInv.blockStep_foot hstep
      simp only [bind, Except.bind]
      apply ih (k + 1) c1
      · intro j
        rw [hoth (k + 1 + j) (by omega)]
        have := hsnap (j + 1)
        simp only [List.getElem?_cons_succ] at this
        rw [← this]
        congr 2
        omega
      · intro j w hj hw
        rw [hoth j (by omega)] at hw
        exact hW j w (by omega) hw

/-- **Refinement, blocks.**  In every well-formed state the model's `beginBlock` is the translated
    `BeginBlocker` run over the snapshot of the auction records taken at the start of the block
    (processing one auction never changes the record of another: the frame property). -/
theorem refinement_block (c : Ctx) (hwf : WF c.s) (t : Int) : beginBlock c t = translatedBlock c t := by
  unfold beginBlock translatedBlock
  simp only
  have h := blockLoop_eq_translatedLoop (c.s.views.map (·.a)) 0
    { c with s := { c.s with now := t } }
    (by intro j; simp)
    (by intro j v _ hv; exact hwf.views j v hv)
  simp only [List.length_map] at h
  rw [← h, List.range_eq_range']

end Fundraising
