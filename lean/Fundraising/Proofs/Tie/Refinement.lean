import Fundraising.Proofs.Tie.Server
import Fundraising.Proofs.Tie.Settle
import Fundraising.Proofs.Tie.Vesting
import Fundraising.Proofs.WFProofs
import Fundraising.Proofs.ProgressBlock
/-
  The refinement theorems: in every well-formed (hence every reachable) state, what the model
  does for a transaction and for a block IS the interpretation of the code translated from the
  Go source on this run.

  `translatedDeliver` / `translatedBlock` are written from the generated definitions only
  (`Gen.*`, Generated/Code/*.lean) plus the interpreter (`Go.runPlan`, `Go.runPlanNew`,
  `Go.runSettlePlan`) and the READS that supply the oracle parameters (which record of the
  state each store read returns).  They contain no decision logic of their own.
-/
namespace Fundraising
open Fundraising.Gen Fundraising.Go

/-- what `GetBidsByBidder` returns: the bidder's bids of ALL auctions, in store order -/
def allBidsOf (s : Core) (bidder : Acc) : List Bid :=
  (s.views.flatMap (·.bids)).filter (·.bidder == bidder)

/-- a delivered message, by the translated code: `ValidateBasic`, then the message server -/
def translatedDeliver (c : Ctx) : Msg → M Ctx
  | .create m =>
    match m.type with
    | .fixed =>
      if Gen.MsgCreateFixedPriceAuction_ValidateBasic m then c.fail
      else Go.runPlanNew c ({ a := default } : AView) (Gen.MsgServer_CreateFixedPriceAuction m c.s.now (c.s.views.length : Int)).2
    | .batch =>
      if Gen.MsgCreateBatchAuction_ValidateBasic m then c.fail
      else Go.runPlanNew c ({ a := default } : AView) (Gen.MsgServer_CreateBatchAuction m c.s.now (c.s.views.length : Int)).2
  | .cancel signer aid =>
    if Gen.MsgCancelAuction_ValidateBasic ⟨signer, aid⟩ then c.fail
    else match c.s.views[aid]? with
      | none => if (Gen.MsgServer_CancelAuction ⟨signer, aid⟩ default true c.s.bank).2.1 then c.fail else pure c
      | some v => Go.runPlan c aid v (Gen.MsgServer_CancelAuction ⟨signer, aid⟩ v.a false c.s.bank).2
  | .place bidder aid none price denom amt =>
    if Gen.MsgPlaceBid_ValidateBasic ⟨bidder, aid, none, price, denom, amt⟩ then c.fail else pure c
  | .place bidder aid (some t) price denom amt =>
    if Gen.MsgPlaceBid_ValidateBasic ⟨bidder, aid, some t, price, denom, amt⟩ then c.fail
    else match c.s.views[aid]? with
      | none =>
        if (Gen.MsgServer_PlaceBid ⟨bidder, aid, t, price, denom, amt⟩ default true 0 [] default true).2.1 then c.fail else pure c
      | some v =>
        Go.runPlan c aid v (Gen.MsgServer_PlaceBid ⟨bidder, aid, t, price, denom, amt⟩ v.a false ((v.bidSeq + 1 : Nat) : Int)
          (allBidsOf c.s bidder) ((lookupAllowed v.allowed bidder).getD default) (lookupAllowed v.allowed bidder).isNone).2
  | .modify bidder aid bidId price denom amt =>
    if Gen.MsgModifyBid_ValidateBasic ⟨bidder, aid, bidId, price, denom, amt⟩ then c.fail
    else match c.s.views[aid]? with
      | none =>
        if (Gen.MsgServer_ModifyBid ⟨bidder, aid, bidId, price, denom, amt⟩ default true default true).2.1 then c.fail else pure c
      | some v =>
        Go.runPlan c aid v (Gen.MsgServer_ModifyBid ⟨bidder, aid, bidId, price, denom, amt⟩ v.a false
          ((v.bids.find? (·.id == bidId)).getD default) (v.bids.find? (·.id == bidId)).isNone).2
  | .addAllowed aid ab =>
    if Gen.MsgAddAllowedBidder_ValidateBasic ⟨aid, ab⟩ then c.fail
    else match c.s.views[aid]? with
      | none => if (Gen.MsgServer_AddAllowedBidder ⟨aid, ab⟩ default true c.s.enableAdd).2.1 then c.fail else pure c
      | some v => Go.runPlan c aid v (Gen.MsgServer_AddAllowedBidder ⟨aid, ab⟩ v.a false c.s.enableAdd).2
  | .updateParams signer p =>
    if (Gen.MsgServer_UpdateParams ⟨signer, p⟩).2.1 then c.fail else pure { c with s := { c.s with params := p } }

/-- **Refinement, transactions.**  In every well-formed state, for every message with any field
    values, the model's `deliver` is the interpretation of the translated code. -/
theorem refinement_deliver (c : Ctx) (hwf : WF c.s) (m : Msg) : deliver c m = translatedDeliver c m := by
  sorry

/-- … in particular in every reachable state -/
theorem refinement_deliver_reach (st : State) (h : Reach st) (m : Msg) :
    deliver { s := st.core, ctl := st.ctl } m = translatedDeliver { s := st.core, ctl := st.ctl } m :=
  refinement_deliver _ (wf_reach st h) m

/-- one iteration of the translated `BeginBlocker` on the auction record `a` of the SNAPSHOT the
    Go code took at the start of the block: the dispatch on the status, then the executor -/
def translatedExec (c : Ctx) (a : Auction) : M Ctx :=
  match (Gen.BeginBlocker [a]).2 with
  | [] => pure c
  | [e] =>
    match e.name with
    | .execStandBy => Go.runSettlePlan c a.id (Gen.ExecuteStandByStatus a c.s.now)
    | .execStarted => Go.runSettlePlan c a.id (Gen.ExecuteStartedStatus a c.s.now)
    | .execVesting =>
      match c.s.views[a.id]? with
      | none => c.fail
      | some v => Go.runSettlePlan c a.id (Gen.ReleaseVestingPayingCoin a v.vqs c.s.now)
    | _ => c.fail .panic
  | _ => c.fail .panic

def translatedLoop (c : Ctx) : List Auction → M Ctx
  | [] => pure c
  | a :: rest => do
    let c ← translatedExec c a
    translatedLoop c rest

/-- a block, by the translated code: the snapshot of all auction records, then one executor each -/
def translatedBlock (c : Ctx) (t : Int) : M Ctx :=
  let c := { c with s := { c.s with now := t } }
  translatedLoop c (c.s.views.map (·.a))

/-- **Refinement, blocks.**  In every well-formed state the model's `beginBlock` is the translated
    `BeginBlocker` run over the snapshot of the auction records taken at the start of the block
    (processing one auction never changes the record of another: the frame property). -/
theorem refinement_block (c : Ctx) (hwf : WF c.s) (t : Int) : beginBlock c t = translatedBlock c t := by
  sorry

end Fundraising
