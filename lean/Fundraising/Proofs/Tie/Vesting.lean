import Fundraising.Generated.Code.Settle
import Fundraising.Tables.GoRun
import Fundraising.Proofs.Tie.Pure
import Fundraising.Proofs.ExecLemmas
/-
  Tie of the translated `Keeper.ApplyVestingSchedules` (keeper/vesting.go) and
  `Keeper.ReleaseVestingPayingCoin` (keeper/auction.go) to `applyVestingSchedules` and
  `releaseVesting` of Model/Block.lean.
-/
namespace Fundraising
open Fundraising.Gen Fundraising.Go

/-- **ApplyVestingSchedules.**  `hid`: the stored auction carries its own key.  `hsplit`: no
    instalment is negative (Go would panic in `sdk.NewCoin` / `SubAmount`; the model says `.panic`
    there — excluded for every reachable state by `Proofs/…` via valid schedules and a
    non-negative reserve). -/
theorem tie_ApplyVestingSchedules (c : Ctx) (aid : Nat) (v : AView) (hv : c.s.views[aid]? = some v)
    (hid : v.a.id = aid)
    (hsplit : (splitLoop (c.s.bank (.pay aid) v.a.payDenom) v.a.schedules (c.s.bank (.pay aid) v.a.payDenom)).isSome = true) :
    applyVestingSchedules c aid = Go.runSettlePlan c aid (Gen.ApplyVestingSchedules v.a c.s.bank) := by
  sorry

/-- **ReleaseVestingPayingCoin.** -/
theorem tie_ReleaseVestingPayingCoin (c : Ctx) (aid : Nat) (v : AView) (hv : c.s.views[aid]? = some v)
    (hid : v.a.id = aid) :
    releaseVesting c aid = Go.runSettlePlan c aid (Gen.ReleaseVestingPayingCoin v.a v.vqs c.s.now) := by
  sorry

end Fundraising
