import Fundraising.Generated.Code.Settle
import Fundraising.Tables.GoRun
import Fundraising.Proofs.Tie.Pure
import Fundraising.Proofs.ExecLemmas
/-
  Tie of the translated `Keeper.ApplyVestingSchedules` (keeper/vesting.go) and
  `Keeper.ReleaseVestingPayingCoin` (keeper/auction.go) to `applyVestingSchedules` and
  `releaseVesting` of Model/Block.lean.
-/
namespace Fundraising
open Fundraising.Gen Fundraising.Go

/-! ### helpers (kept in their own namespace so that sibling Tie files can define similar ones) -/
namespace TieVesting

theorem runSettle_append (aid : Nat) (xs ys : List GEff) (c : Ctx) :
    runSettle aid (xs ++ ys) c = (runSettle aid xs c >>= fun c => runSettle aid ys c) := by
  induction xs generalizing c with
  | nil => simp
  | cons e es ih => simp only [List.cons_append, runSettle_cons, ih, bind_assoc]

def vqEff (a : Auction) (p : Int × Int) : GEff :=
  GEff.mk GName.vqSet [GVal.int (a.id : Int), GVal.int p.1,
    GVal.vq ({ auction := ((a.id : Int)).toNat, auctioneer := a.auctioneer, denom := a.payDenom,
               amt := p.2, release := p.1, released := false } : VQ)]

theorem avs_loop (a : Auction) (bal : Addr → Denom → Int) (l : List VS)
    (i : Int) (rem : Coin)
    (effs : List GEff) (parts : List (Int × Int))
    (hlen : i + l.length = (a.schedules.length : Int))
    (hs : splitLoop (bal (Addr.pay a.id) a.payDenom) l rem.amt = some parts) :
    ∃ r, ApplyVestingSchedules.loop1 a bal l i rem effs
      = Loop.done (r, effs ++ parts.map (vqEff a)) := by
  induction l generalizing i rem effs parts with
  | nil =>
    simp [splitLoop] at hs
    subst hs
    exact ⟨rem, by simp [ApplyVestingSchedules.loop1]⟩
  | cons s rest ih =>
    cases rest with
    | nil =>
      unfold ApplyVestingSchedules.loop1
      simp only [splitLoop] at hs
      have hi : i = (a.schedules.length : Int) - 1 := by simp at hlen; omega
      by_cases hr : rem.amt < 0
      · simp [hr] at hs
      · simp [hr] at hs
        subst hs
        simp [hi, ApplyVestingSchedules.loop1, vqEff]
    | cons s' rest' =>
      unfold ApplyVestingSchedules.loop1
      have hi : ¬ i = (a.schedules.length : Int) - 1 := by simp at hlen; omega
      simp only [splitLoop] at hs
      simp only [hi, decide_false, Bool.false_eq_true, if_false]
      generalize ((Dec.ofInt (bal (Addr.pay a.id) a.payDenom)).mulTrunc s.weight).truncInt = amt at hs ⊢
      by_cases h1 : amt < 0
      · simp [h1] at hs
      by_cases h2 : rem.amt - amt < 0
      · simp [h1, h2] at hs
      simp only [h1, h2, if_false] at hs
      cases hp : splitLoop (bal (Addr.pay a.id) a.payDenom) (s' :: rest') (rem.amt - amt) with
      | none => simp [hp] at hs
      | some ps =>
        simp [hp] at hs
        subst hs
        obtain ⟨r, hr⟩ := ih (i + 1) ⟨rem.denom, rem.amt - amt⟩ (effs ++ [vqEff a (s.release, amt)]) ps
          (by simp at hlen ⊢; omega) hp
        refine ⟨r, ?_⟩
        simp only [vqEff] at hr ⊢
        rw [hr]
        simp [vqEff]

theorem setView_self {c : Ctx} {aid : Nat} {v : AView} (h : c.s.views[aid]? = some v) :
    c.setView aid v = c := by
  unfold Ctx.setView
  have : c.s.views.set aid v = c.s.views := by
    obtain ⟨hl, he⟩ := List.getElem?_eq_some_iff.mp h
    subst he
    exact List.set_getElem_self hl
  rw [this]

theorem view_setView {c : Ctx} {aid : Nat} {v w : AView} (h : c.s.views[aid]? = some v) :
    (c.setView aid w).s.views[aid]? = some w := by
  have hl : aid < c.s.views.length := by
    rcases Nat.lt_or_ge aid c.s.views.length with hl | hl
    · exact hl
    · simp [List.getElem?_eq_none hl] at h
  simp [Ctx.setView, hl]

theorem setView_setView (c : Ctx) (aid : Nat) (v w : AView) :
    (c.setView aid v).setView aid w = c.setView aid w := by
  simp [Ctx.setView]

theorem run_vqEffs (aid : Nat) (a : Auction) (hid : a.id = aid) (parts : List (Int × Int))
    (c : Ctx) (v : AView) (hv : c.s.views[aid]? = some v) :
    runSettle aid (parts.map (vqEff a)) c =
      .ok (c.setView aid { v with vqs := parts.foldl (fun l p =>
        setVQ l { auction := aid, release := p.1, auctioneer := a.auctioneer,
                  denom := a.payDenom, amt := p.2, released := false }) v.vqs }) := by
  induction parts generalizing c v with
  | nil => simp [setView_self hv]; rfl
  | cons p ps ih =>
    simp only [List.map_cons, runSettle_cons, List.foldl_cons]
    have h1 : applySettle aid (vqEff a p) c = .ok (c.setView aid { v with vqs := setVQ v.vqs { auction := aid, release := p.1, auctioneer := a.auctioneer, denom := a.payDenom, amt := p.2, released := false } }) := by
      simp [applySettle, vqEff, Ctx.view, hv, hid, bind, Except.bind, pure, Except.pure]
    rw [h1]
    simp only [bind, Except.bind]
    rw [ih _ _ (view_setView hv)]
    simp [setView_setView]

theorem bankCall_views {c c' : Ctx} {k : XKind} {src dst : Addr} {coins : List Coin}
    (h : c.bankCall k src dst coins = .ok c') : c'.s.views = c.s.views ∧ c'.s.now = c.s.now := by
  obtain ⟨_, b, _, rfl⟩ := bankCall_ok h
  exact ⟨rfl, rfl⟩

theorem rel_loop (aid : Nat) (L : List VQ) (N : Nat) (hN : L.length = N) (now : Int) (l : List VQ) (i : Nat) (a : Auction) (effs : List GEff)
    (hid : a.id = aid) (hq : ∀ q ∈ l, q.auction = aid) :
    ∃ a' E, ReleaseVestingPayingCoin.loop1 now L l (i : Int) a effs = Loop.done (a', effs ++ E) ∧
      ∀ (c : Ctx) (w : AView), c.s.views[aid]? = some w → w.a = a → c.s.now = now →
        releaseLoop c aid a.auctioneer N i l = runSettle aid E c := by
  induction l generalizing i a effs with
  | nil =>
    exact ⟨a, [], by simp [ReleaseVestingPayingCoin.loop1], by intros; simp [releaseLoop]⟩
  | cons q rest ih =>
    have hcast : ((i : Int) + 1) = ((i + 1 : Nat) : Int) := by omega
    have hqa : q.auction = aid := hq q (by simp)
    have hq' : ∀ q' ∈ rest, q'.auction = aid := fun q' h => hq q' (by simp [h])
    unfold ReleaseVestingPayingCoin.loop1
    simp only [tie_ShouldRelease, hcast, hN]
    by_cases hc : q.release ≤ now ∧ q.released = false
    · have hdec : (decide (q.release ≤ now) && !q.released) = true := by grind
      simp only [hdec, if_true, Bool.not_true, Bool.false_eq_true, if_false]
      by_cases hlast : i + 1 = N
      · have hl : ((i : Int) = (N : Int) - 1) := by omega
        simp only [hl, decide_true, if_true, Bool.not_true, Bool.not_false, Bool.false_eq_true, if_false, decide_false]
        obtain ⟨a', E, h1, h2⟩ := ih (i + 1) { a with status := Status.finished }
          (effs ++ [GEff.mk GName.sendCoins [GVal.addr (Addr.vest a.id), GVal.nat a.auctioneer, GVal.coin (Go.vqCoin q)]]
            ++ [GEff.mk GName.vqSet [GVal.int (q.auction : Int), GVal.int q.release, GVal.vq { q with released := true }]]
            ++ [GEff.mk GName.auctionSet [GVal.int (a.id : Int), GVal.auction { a with status := Status.finished }]]) hid hq'
        refine ⟨a', [GEff.mk GName.sendCoins [GVal.addr (Addr.vest a.id), GVal.nat a.auctioneer, GVal.coin (Go.vqCoin q)],
            GEff.mk GName.vqSet [GVal.int (q.auction : Int), GVal.int q.release, GVal.vq { q with released := true }],
            GEff.mk GName.auctionSet [GVal.int (a.id : Int), GVal.auction { a with status := Status.finished }]] ++ E, ?_, ?_⟩
        · rw [h1]; simp only [List.append_assoc, List.cons_append, List.nil_append]
        · intro c w hw hwa hnow
          conv => lhs; unfold releaseLoop
          have hcm : (q.release ≤ c.s.now ∧ (!q.released) = true) := by grind
          simp only [hcm, and_self, if_true, List.cons_append, List.nil_append, runSettle_cons, applySettle, dstOf,
            hid, hqa, bind, Except.bind, vqCoin_denom, vqCoin_amt]
          cases hmk : mkCoins c q.denom q.amt with
          | error f => rfl
          | ok coins =>
            simp only []
            cases hb : c.bankCall .send (.vest aid) (.user a.auctioneer) coins with
            | error f => rfl
            | ok c' =>
              have hv' : c'.s.views[aid]? = some w := by rw [(bankCall_views hb).1]; exact hw
              have hn' : c'.s.now = now := by rw [(bankCall_views hb).2]; exact hnow
              simp only [Ctx.view, hv', view_setView hv', setView_setView, hlast, pure, Except.pure, if_true]
              subst hwa
              have h3 := h2 (c'.setView aid { w with a := { w.a with status := .finished }, vqs := setVQ w.vqs { q with released := true } })
                { w with a := { w.a with status := .finished }, vqs := setVQ w.vqs { q with released := true } }
                (view_setView hv') rfl (by rw [setView_now]; exact hn')
              simp only [hlast, hid, hqa] at h3 ⊢
              exact h3
      · have hl : ¬ ((i : Int) = (N : Int) - 1) := by omega
        simp only [hl, decide_false, Bool.false_eq_true, if_false, Bool.not_true, Bool.not_false, if_true, decide_true]
        obtain ⟨a', E, h1, h2⟩ := ih (i + 1) a
          (effs ++ [GEff.mk GName.sendCoins [GVal.addr (Addr.vest a.id), GVal.nat a.auctioneer, GVal.coin (Go.vqCoin q)]]
            ++ [GEff.mk GName.vqSet [GVal.int (q.auction : Int), GVal.int q.release, GVal.vq { q with released := true }]]) hid hq'
        refine ⟨a', [GEff.mk GName.sendCoins [GVal.addr (Addr.vest a.id), GVal.nat a.auctioneer, GVal.coin (Go.vqCoin q)],
            GEff.mk GName.vqSet [GVal.int (q.auction : Int), GVal.int q.release, GVal.vq { q with released := true }]] ++ E, ?_, ?_⟩
        · rw [h1]; simp only [List.append_assoc, List.cons_append, List.nil_append]
        · intro c w hw hwa hnow
          conv => lhs; unfold releaseLoop
          have hcm : (q.release ≤ c.s.now ∧ (!q.released) = true) := by grind
          simp only [hcm, and_self, if_true, List.cons_append, List.nil_append, runSettle_cons, applySettle, dstOf,
            hid, hqa, bind, Except.bind, vqCoin_denom, vqCoin_amt]
          cases hmk : mkCoins c q.denom q.amt with
          | error f => rfl
          | ok coins =>
            simp only []
            cases hb : c.bankCall .send (.vest aid) (.user a.auctioneer) coins with
            | error f => rfl
            | ok c' =>
              have hv' : c'.s.views[aid]? = some w := by rw [(bankCall_views hb).1]; exact hw
              have hn' : c'.s.now = now := by rw [(bankCall_views hb).2]; exact hnow
              simp only [Ctx.view, hv', view_setView hv', hlast, pure, Except.pure, if_false]
              subst hwa
              have h3 := h2 (c'.setView aid { w with vqs := setVQ w.vqs { q with released := true } })
                { w with vqs := setVQ w.vqs { q with released := true } }
                (view_setView hv') rfl (by rw [setView_now]; exact hn')
              simp only [hqa] at h3 ⊢
              exact h3
    · obtain ⟨a', E, h1, h2⟩ := ih (i + 1) a effs hid hq'
      refine ⟨a', E, ?_, ?_⟩
      · have : (decide (q.release ≤ now) && !q.released) = false := by grind
        simp only [this, Bool.false_eq_true, if_false, Bool.not_false, if_true]
        exact h1
      · intro c w hw hwa hnow
        rw [← h2 c w hw hwa hnow]
        conv => lhs; unfold releaseLoop
        have : ¬ (q.release ≤ c.s.now ∧ (!q.released) = true) := by grind
        simp only [this, if_false]

end TieVesting
open TieVesting

/-- **ApplyVestingSchedules.**  `hid`: the stored auction carries its own key.  `hsplit`: no
    instalment is negative (Go would panic in `sdk.NewCoin` / `SubAmount`; the model says `.panic`
    there — excluded for every reachable state by `Proofs/…` via valid schedules and a
    non-negative reserve). -/
theorem tie_ApplyVestingSchedules (c : Ctx) (aid : Nat) (v : AView) (hv : c.s.views[aid]? = some v)
    (hid : v.a.id = aid)
    (hsplit : (splitLoop (c.s.bank (.pay aid) v.a.payDenom) v.a.schedules (c.s.bank (.pay aid) v.a.payDenom)).isSome = true) :
    applyVestingSchedules c aid = Go.runSettlePlan c aid (Gen.ApplyVestingSchedules v.a c.s.bank) := by
  unfold applyVestingSchedules Gen.ApplyVestingSchedules
  simp only [Ctx.view, hv, Ctx.bal]
  by_cases he : v.a.schedules = []
  · -- with no schedules a loop the code may still run over them (a merged branch) does nothing:
    -- every loop of this function is unfolded once on the empty list, whichever exist
    first
      | simp [he, ApplyVestingSchedules.loop1, ApplyVestingSchedules.loop2, runSettlePlan, applySettle, dstOf, hid, bind, Except.bind, pure, Except.pure]
      | simp [he, ApplyVestingSchedules.loop1, runSettlePlan, applySettle, dstOf, hid, bind, Except.bind, pure, Except.pure]
    cases hmk : mkCoins c v.a.payDenom (c.s.bank (.pay aid) v.a.payDenom) with
    | error f => rfl
    | ok coins =>
      simp only []
      cases hb : c.bankCall .send (.pay aid) (.user v.a.auctioneer) coins with
      | error f => rfl
      | ok c' =>
        have hv' : c'.s.views[aid]? = some v := by rw [(bankCall_views hb).1]; exact hv
        simp [Ctx.view, hv']
  · have hne : ¬ ((v.a.schedules.length : Int) = 0) := by
      have := List.length_pos_iff.mpr he
      omega
    have hlt : ¬ ((v.a.schedules.length : Int) - 1 < 0) := by
      have := List.length_pos_iff.mpr he
      omega
    have hie : v.a.schedules.isEmpty = false := by simpa using he
    cases hsp : splitLoop (c.s.bank (.pay aid) v.a.payDenom) v.a.schedules (c.s.bank (.pay aid) v.a.payDenom) with
    | none => simp [hsp] at hsplit
    | some parts =>
      obtain ⟨r, hr⟩ := avs_loop v.a c.s.bank
        v.a.schedules 0 ⟨v.a.payDenom, c.s.bank (.pay aid) v.a.payDenom⟩
        ([] ++ [GEff.mk GName.sendCoins [GVal.addr (Addr.pay v.a.id), GVal.addr (Addr.vest v.a.id),
          GVal.coin ⟨v.a.payDenom, c.s.bank (.pay aid) v.a.payDenom⟩]]) parts (by simp) (by rw [hid]; exact hsp)
      simp only [hid] at hr
      simp only [hne, hlt, hid, decide_false, Bool.false_eq_true, if_false, hr]
      simp only [runSettlePlan, List.nil_append, List.cons_append, runSettle_cons,
        runSettle_append, runSettle_nil, applySettle, dstOf, bind, Except.bind, hie, hsp,
        Bool.false_eq_true, if_false]
      cases hmk : mkCoins c v.a.payDenom (c.s.bank (.pay aid) v.a.payDenom) with
      | error f => rfl
      | ok coins =>
        simp only []
        cases hb : c.bankCall .send (.pay aid) (.vest aid) coins with
        | error f => rfl
        | ok c' =>
          have hv' : c'.s.views[aid]? = some v := by rw [(bankCall_views hb).1]; exact hv
          simp only [run_vqEffs aid v.a hid parts c' v hv']
          simp [Ctx.view, view_setView hv', setView_setView, pure, Except.pure, hid]

/-- **ReleaseVestingPayingCoin.** -/
theorem tie_ReleaseVestingPayingCoin (c : Ctx) (aid : Nat) (v : AView) (hv : c.s.views[aid]? = some v)
    (hid : v.a.id = aid) (hq : ∀ q ∈ v.vqs, q.auction = aid) :
    releaseVesting c aid = Go.runSettlePlan c aid (Gen.ReleaseVestingPayingCoin v.a (rdVqs c.s) c.s.now) := by
  obtain ⟨a', E, h1, h2⟩ := rel_loop aid v.vqs v.vqs.length rfl c.s.now v.vqs 0 v.a [] hid hq
  unfold releaseVesting Gen.ReleaseVestingPayingCoin
  have h0 : ((0 : Nat) : Int) = 0 := rfl
  simp only [h0] at h1
  have hV : rdVqs c.s (v.a.id : Int) = v.vqs := by simp [rdVqs, hid, hv]
  simp only [hV]
  simp only [Ctx.view, hv, h1, runSettlePlan, List.nil_append, bind, Except.bind]
  rw [h2 c v hv rfl rfl]
  cases runSettle aid E c <;> simp [pure, Except.pure]

end Fundraising
