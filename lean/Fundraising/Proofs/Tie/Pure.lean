import Fundraising.Generated.Code.Pure
/-
  The tie between the code TRANSLATED from /repo's Go source on this run
  (`Generated/Code.lean`, GoLite translator) and the hand-written model: each translated
  function equals the model definition the property theorems are about.  When the Go source
  of one of these functions changes its meaning (a comparison flipped, a rounding mode
  changed, a guard dropped or added), the translation changes and the theorem below no
  longer checks; a harmless rewrite that keeps the meaning (`a.GT(b)` → `b.LT(a)`, a guard
  moved past an independent one) keeps it provable because the proofs are by
  simplification/arithmetic, not by syntactic identity.
-/
namespace Fundraising
open Fundraising.Gen

/-! ### types/bid.go -/

theorem tie_ConvertToSellingAmount (b : Bid) (d : Denom) :
    Bid_ConvertToSellingAmount b d = b.toSelling d := by
  unfold Bid_ConvertToSellingAmount Bid.toSelling
  grind

theorem tie_ConvertToPayingAmount (b : Bid) (d : Denom) :
    Bid_ConvertToPayingAmount b d = b.toPaying d := by
  unfold Bid_ConvertToPayingAmount Bid.toPaying
  grind

/-! ### types/auction.go, types/vesting.go: the three "is it time" predicates of BeginBlocker -/

theorem tie_ShouldAuctionStarted (a : Auction) (t : Int) :
    BaseAuction_ShouldAuctionStarted a t = decide (a.startTime ≤ t) := by
  unfold BaseAuction_ShouldAuctionStarted
  grind

theorem index_last {l : List Int} (h : l ≠ []) :
    Go.index l ((l.length : Int) - 1) = l.getLast?.getD 0 := by
  have hl : 0 < l.length := List.length_pos_iff.mpr h
  have : ((l.length : Int) - 1).toNat = l.length - 1 := by omega
  unfold Go.index
  rw [this, List.getLast?_eq_getElem?]
  simp [List.getD_eq_getElem?_getD]

/-- the model's `blockStep` compares the last end time (`getLast?`; an empty list is a Go
    panic, excluded by `AuctionWF.endNonempty`) -/
theorem tie_ShouldAuctionClosed (a : Auction) (t : Int) (h : a.endTimes ≠ []) :
    BaseAuction_ShouldAuctionClosed a t = decide (a.lastEnd ≤ t) := by
  have e := index_last h
  unfold BaseAuction_ShouldAuctionClosed Auction.lastEnd
  grind

theorem tie_ShouldRelease (q : VQ) (t : Int) :
    VestingQueue_ShouldRelease q t = (decide (q.release ≤ t) && !q.released) := by
  unfold VestingQueue_ShouldRelease
  grind

/-! ### types/allowed_bidder.go -/

theorem tie_AllowedBidder_Validate (ab : AllowedArg) :
    AllowedBidder_Validate ab = !(validAcc ab.bidder && decide (ab.cap > 0)) := by
  unfold AllowedBidder_Validate
  grind

end Fundraising
