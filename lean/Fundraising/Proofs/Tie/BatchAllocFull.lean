import Fundraising.Proofs.Tie.BatchAlloc
import Fundraising.Proofs.Tie.BidsByPrice
/-
  `CalculateBatchAllocation` with the `(prices, bidsByPrice)` it really gets: the TRANSLATED
  `types.BidsByPrice` applied to whatever `types.SortBids` returned.  The four hypotheses
  `tie_CalculateBatchAllocation` makes about its price oracle (`hprices`, `hsorted`, `hlevel`,
  `hdesc`) are discharged from the code; what remains assumed about `SortBids` is that it returns
  a permutation of its input (it calls `sort.Slice` on it) — NOT that the result is sorted, which
  for books of more than 12 bids it is not (its comparator is not a strict weak order; the
  pure-function stream shows such outputs).
-/
namespace Fundraising
open Fundraising.Gen Fundraising.Go

/-- **CalculateBatchAllocation ∘ BidsByPrice** = `calcBatchWith` for an `Arrangement` of the bids —
    for EVERY permutation `out` that `SortBids` may return and every iteration order of the three
    Go maps (`keysP`: the price map of `BidsByPrice`; `keysR`, `keysM`: the two maps of
    `CalculateBatchAllocation`). -/
theorem tie_CalculateBatchAllocation_BidsByPrice (a : Auction) (bids out : List Bid) (keysP : List Dec)
    (allowed : List Allowed) (keysR keysM : List Acc)
    (hperm : out.Perm bids) (hkP : KeysOf out keysP)
    (hty : ∀ b ∈ bids, b.type ≠ .fixed)
    (hal : ∀ b ∈ bids, (lookupAllowed allowed b.bidder).isSome = true)
    (hnd : (allowed.map (·.bidder)).Pairwise (· < ·))
    (hkR : ∀ u, u ∈ keysR ↔ u ∈ biddersOf bids) (hkRnd : keysR.Nodup)
    (hkM : ∀ u, u ∈ keysM ↔ ((finalMatchRes a (Gen.BidsByPrice bids out keysP).1
        (Gen.BidsByPrice bids out keysP).2 allowed).byBidder u).isSome = true) (hkMnd : keysM.Nodup)
    (bidsF : Int → List Bid) (hbF : bidsF (a.id : Int) = bids)
    (allowedF : Int → List Allowed) (haF : allowedF (a.id : Int) = allowed) :
    Arrangement bids (arrangementOf (Gen.BidsByPrice bids out keysP)) ∧
    match calcBatchWith (arrangementOf (Gen.BidsByPrice bids out keysP)) a bids allowed with
    | none => False
    | some mi =>
      let prices := (Gen.BidsByPrice bids out keysP).1
      let byPrice := (Gen.BidsByPrice bids out keysP).2
      (Gen.CalculateBatchAllocation a bidsF prices byPrice allowedF keysR keysM).2.1 = false ∧
      (Gen.CalculateBatchAllocation a bidsF prices byPrice allowedF keysR keysM).1.matchedLen = mi.matchedLen ∧
      (Gen.CalculateBatchAllocation a bidsF prices byPrice allowedF keysR keysM).1.price = mi.price ∧
      (Gen.CalculateBatchAllocation a bidsF prices byPrice allowedF keysR keysM).1.total = mi.total ∧
      mi.alloc = (biddersOf bids).map
        (fun u => (u, ((Gen.CalculateBatchAllocation a bidsF prices byPrice allowedF keysR keysM).1.alloc u).getD 0)) ∧
      mi.refund = (biddersOf bids).map
        (fun u => (u, ((Gen.CalculateBatchAllocation a bidsF prices byPrice allowedF keysR keysM).1.refund u).getD 0)) ∧
      (Gen.CalculateBatchAllocation a bidsF prices byPrice allowedF keysR keysM).2.2 = flagEffs a bids mi := by
  have harr := tie_BidsByPrice_Arrangement bids out keysP hkP hperm
  refine ⟨harr, ?_⟩
  have hmem : ∀ b ∈ arrangementOf (Gen.BidsByPrice bids out keysP), b ∈ bids :=
    fun b hb => (harr.1.mem_iff).1 hb
  exact tie_CalculateBatchAllocation a bids (arrangementOf (Gen.BidsByPrice bids out keysP))
    (Gen.BidsByPrice bids out keysP).1 (Gen.BidsByPrice bids out keysP).2 allowed keysR keysM
    (tie_BidsByPrice_distinctPrices bids out keysP hkP) rfl
    (tie_BidsByPrice_level bids out keysP) (tie_BidsByPrice_prices bids out keysP hkP).1
    (fun b hb => hty b (hmem b hb)) (fun b hb => hal b (hmem b hb)) hnd hkR hkRnd hkM hkMnd bidsF hbF allowedF haF

end Fundraising
