import Fundraising.Generated.Code.Bids
import Fundraising.Tables.GoRun
import Fundraising.Proofs.Tie.Pure
namespace Fundraising
open Fundraising.Gen Fundraising.Go

theorem fixedLoop_eq (a : Auction) (L : List Bid) (tot : Int) :
    ValidateFixedPriceBid.loop1 a L tot =
      Loop.done ((L.filter (fun b => decide ((b.auction : Int) = (a.id : Int)))).foldl (fun s b => s + b.toSelling a.payDenom) tot) := by
  induction L generalizing tot with
  | nil => simp [ValidateFixedPriceBid.loop1]
  | cons b rest ih =>
    unfold ValidateFixedPriceBid.loop1
    simp only [ih, tie_ConvertToSellingAmount]
    by_cases h : (b.auction : Int) = (a.id : Int) <;> simp [h]

/-- ValidateBatchWorthBid = the three checks of the model's `.worth` branch -/
theorem tie_ValidateBatchWorthBid (a : Auction) (b : Bid) (abGet : Int → Acc → Allowed × Bool) :
    ValidateBatchWorthBid a b abGet =
      !(a.type == .batch && b.denom == a.payDenom && !(abGet (b.auction : Int) b.bidder).2
        && !decide (b.toSelling a.payDenom > (abGet (b.auction : Int) b.bidder).1.cap)) := by
  unfold ValidateBatchWorthBid
  cases hty : a.type <;> simp [hty, tie_ConvertToSellingAmount] <;> grind

theorem tie_ValidateBatchManyBid (a : Auction) (b : Bid) (abGet : Int → Acc → Allowed × Bool) :
    ValidateBatchManyBid a b abGet =
      !(a.type == .batch && b.denom == a.sellDenom && !(abGet (b.auction : Int) b.bidder).2
        && !decide (b.toSelling a.payDenom > (abGet (b.auction : Int) b.bidder).1.cap)) := by
  unfold ValidateBatchManyBid
  cases hty : a.type <;> simp [hty, tie_ConvertToSellingAmount] <;> grind

theorem tie_ValidateFixedPriceBid (a : Auction) (b : Bid) (byBidder : Acc → List Bid) (abGet : Int → Acc → Allowed × Bool) :
    ValidateFixedPriceBid a b byBidder abGet =
      !(a.type == .fixed && (b.denom == a.payDenom || b.denom == a.sellDenom) && b.price == a.startPrice
        && !decide (a.remaining < b.toSelling a.payDenom) && !(abGet (b.auction : Int) b.bidder).2
        && !decide (((byBidder b.bidder).filter (fun x => decide ((x.auction : Int) = (a.id : Int)))).foldl (fun s x => s + x.toSelling a.payDenom) 0
                      + b.toSelling a.payDenom > (abGet (b.auction : Int) b.bidder).1.cap)) := by
  unfold ValidateFixedPriceBid
  simp only [fixedLoop_eq, tie_ConvertToSellingAmount]
  cases a.type <;> grind
end Fundraising
