import Fundraising.Generated.Code.Bids
import Fundraising.Tables.GoRun
import Fundraising.Proofs.Tie.Pure
namespace Fundraising
open Fundraising.Gen Fundraising.Go

theorem fixedLoop_eq (a : Auction) (bid : Bid) (L : List Bid) (tot : Int) :
    ValidateFixedPriceBid.loop1 a bid L tot =
      Loop.done ((L.filter (fun b => decide ((b.auction : Int) = (a.id : Int)))).foldl (fun s b => s + b.toSelling a.payDenom) tot) := by
  induction L generalizing tot with
  | nil => simp [ValidateFixedPriceBid.loop1]
  | cons b rest ih =>
    unfold ValidateFixedPriceBid.loop1
    simp only [ih, tie_ConvertToSellingAmount]
    by_cases h : (b.auction : Int) = (a.id : Int) <;> simp [h]

/-- ValidateBatchWorthBid = the three checks of the model's `.worth` branch -/
theorem tie_ValidateBatchWorthBid (a : Auction) (b : Bid) (ab : Allowed) (abErr : Bool) :
    ValidateBatchWorthBid a b ab abErr =
      !(a.type == .batch && b.denom == a.payDenom && !abErr && !decide (b.toSelling a.payDenom > ab.cap)) := by
  unfold ValidateBatchWorthBid
  cases hty : a.type <;> simp [hty, tie_ConvertToSellingAmount] <;> grind

theorem tie_ValidateBatchManyBid (a : Auction) (b : Bid) (ab : Allowed) (abErr : Bool) :
    ValidateBatchManyBid a b ab abErr =
      !(a.type == .batch && b.denom == a.sellDenom && !abErr && !decide (b.toSelling a.payDenom > ab.cap)) := by
  unfold ValidateBatchManyBid
  cases hty : a.type <;> simp [hty, tie_ConvertToSellingAmount] <;> grind

theorem tie_ValidateFixedPriceBid (a : Auction) (b : Bid) (L : List Bid) (ab : Allowed) (abErr : Bool) :
    ValidateFixedPriceBid a b L ab abErr =
      !(a.type == .fixed && (b.denom == a.payDenom || b.denom == a.sellDenom) && b.price == a.startPrice
        && !decide (a.remaining < b.toSelling a.payDenom) && !abErr
        && !decide ((L.filter (fun x => decide ((x.auction : Int) = (a.id : Int)))).foldl (fun s x => s + x.toSelling a.payDenom) 0
                      + b.toSelling a.payDenom > ab.cap)) := by
  unfold ValidateFixedPriceBid
  simp only [fixedLoop_eq, tie_ConvertToSellingAmount]
  cases a.type <;> grind
end Fundraising
