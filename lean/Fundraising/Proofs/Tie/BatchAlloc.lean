import Fundraising.Generated.Code.Match
import Fundraising.Proofs.Tie.Match
/-
  Tie of the translated `Keeper.CalculateBatchAllocation` (keeper/match.go) — the `sort.Search`
  over the price levels with the closure that keeps the last fitting `Match` result, the
  reservation / allocation / refund maps, the re-flagging of the bids — to `calcBatchWith` of
  Model/Match.lean (and to the store writes `closeBatch` of Model/Block.lean performs for it).

  Oracles of the translated function: `bids` (the auction's bids in id order), `prices` /
  `byPrice` (what `types.BidsByPrice` returned: the arrangement `sorted` level by level — the
  order inside a level is Go's sort of a non-strict comparator and is a parameter of every
  theorem), `allowed`, and `keysR` / `keysM`: the keys of the two Go maps the code ranges over,
  in the order THIS execution visits them.  The theorem holds for every such order: the result
  does not depend on Go's map iteration order (C14).
-/
namespace Fundraising
open Fundraising.Gen Fundraising.Go

/-! ### helper lemmas: the binary search -/
def initSt : MState := { price := (default : Dec), total := (0 : Int), byBidder := (fun _ => none) }

def StRel (s : MState) : Option MAcc → Prop
  | none => s = initSt
  | some acc => s.price = acc.price ∧ s.total = acc.total ∧ s.matched = acc.matched ∧
      ∀ u, ((s.byBidder u).map (·.matched)).getD 0 = acc.alloc u ∧ ((s.byBidder u).map (·.pay)).getD 0 = acc.pay u

theorem index_rev (prices : List Dec) (h : Nat) (hh : h < prices.length) :
    Go.index prices ((((prices.length : Int) - (1 : Int))) - (h : Int)) = prices.getD (prices.length - 1 - h) 0 := by
  unfold Go.index
  have : (((prices.length : Int) - (1 : Int)) - (h : Int)).toNat = prices.length - 1 - h := by omega
  rw [this]; rfl

theorem closure_step (prices : List Dec) (byPrice : Dec → Option (List Bid)) (S : Int)
    (allowed : List Allowed) (sorted : List Bid)
    (hsorted : sorted = prices.flatMap (fun q => (byPrice q).getD []))
    (hlevel : ∀ q ∈ prices, ∀ b ∈ (byPrice q).getD [], b.price = q)
    (hdesc : prices.Pairwise (· > ·))
    (hty : ∀ b ∈ sorted, b.type ≠ .fixed)
    (hal : ∀ b ∈ sorted, (lookupAllowed allowed b.bidder).isSome = true)
    (hnd : (allowed.map (·.bidder)).Pairwise (· < ·)) (h : Nat) (hh : h < prices.length) (s : MState) :
    match matchAt (prices.getD (prices.length - 1 - h) 0) sorted S allowed with
    | .fit acc => ∃ st, CalculateBatchAllocation.closure1 allowed byPrice prices S (h : Int) s = (true, st) ∧ StRel st (some acc)
    | .nofit => CalculateBatchAllocation.closure1 allowed byPrice prices S (h : Int) s = (false, s)
    | .panic => False := by
  have t := tie_Match (prices.getD (prices.length - 1 - h) 0) prices byPrice S allowed sorted hsorted hlevel hdesc hty hal hnd
  unfold CalculateBatchAllocation.closure1
  simp only [index_rev prices h hh]
  cases hm : matchAt (prices.getD (prices.length - 1 - h) 0) sorted S allowed with
  | panic => rw [hm] at t; exact t
  | nofit => rw [hm] at t; simp only [t]; rfl
  | fit acc =>
    rw [hm] at t
    obtain ⟨st, e, h1, h2, h3, h4⟩ := t
    simp only [e]
    exact ⟨st, rfl, h1, h2, h3, h4⟩

theorem search_tie (f : Nat → MRes) (cl : Int → MState → Bool × MState) (n : Nat)
    (hstep : ∀ h, h < n → ∀ s, match f h with
      | .fit acc => ∃ st, cl (h : Int) s = (true, st) ∧ StRel st (some acc)
      | .nofit => cl (h : Int) s = (false, s)
      | .panic => False)
    (fuel i j : Nat) (hj : j ≤ n) (s : MState) (last : Option MAcc) (hR : StRel s last) :
    match searchLoop f fuel i j last with
    | none => False
    | some last' => StRel (Go.sortSearchLoop cl fuel (i : Int) (j : Int) s).2 last' := by
  induction fuel generalizing i j s last with
  | zero => simpa [searchLoop, Go.sortSearchLoop] using hR
  | succ fuel ih =>
    unfold searchLoop Go.sortSearchLoop
    by_cases hij : i < j
    · have hij' : (i : Int) < (j : Int) := by omega
      have hh : ((i : Int) + (j : Int)) / 2 = (((i + j) / 2 : Nat) : Int) := by omega
      simp only [hij, hij', if_true, hh]
      have hs := hstep ((i + j) / 2) (by omega) s
      cases hf : f ((i + j) / 2) with
      | panic => rw [hf] at hs; exact hs
      | nofit =>
        rw [hf] at hs
        simp only [hs]
        have := ih ((i + j) / 2 + 1) j hj s last hR
        simpa using this
      | fit acc =>
        rw [hf] at hs
        obtain ⟨st, e, hr⟩ := hs
        simp only [e]
        have := ih i ((i + j) / 2) (by omega) st (some acc) hr
        simpa using this
    · have hij' : ¬ (i : Int) < (j : Int) := by omega
      simpa [hij, hij'] using hR

theorem ba_loop1 (a : Auction) (bids : List Bid) (f : Acc → Option Int) (effs : List GEff) :
    CalculateBatchAllocation.loop1 a bids f effs =
      Loop.done (fun u => if (∃ b ∈ bids, b.bidder = u) then some ((f u).getD 0 + sumOver bids u (·.toPaying a.payDenom)) else f u, effs) := by
  induction bids generalizing f with
  | nil => simp [CalculateBatchAllocation.loop1]
  | cons b bs ih =>
    unfold CalculateBatchAllocation.loop1
    simp only [tie_ConvertToPayingAmount, ih]
    have key : ∀ g : Acc → Option Int, g = Go.mapSet f b.bidder ((f b.bidder).getD 0 + b.toPaying a.payDenom) →
        (fun u => if (∃ b' ∈ bs, b'.bidder = u) then some ((g u).getD 0 + sumOver bs u (·.toPaying a.payDenom)) else g u) =
        (fun u => if (∃ b' ∈ b :: bs, b'.bidder = u) then some ((f u).getD 0 + sumOver (b :: bs) u (·.toPaying a.payDenom)) else f u) := by
      intro g hg
      subst hg
      funext u
      rw [sumOver_cons']
      simp only [Go.mapSet, List.mem_cons, exists_eq_or_imp]
      by_cases hb : b.bidder = u
      · subst hb
        by_cases hex : ∃ b' ∈ bs, b'.bidder = b.bidder
        · simp [hex]; omega
        · have h0 := sumOver_none (·.toPaying a.payDenom) bs b.bidder hex
          simp [hex, h0]
      · have : ¬ u = b.bidder := fun h => hb h.symm
        simp [hb, this]
    cases h : f b.bidder with
    | none =>
      simp only [Option.isSome_none, Bool.not_false, if_true]
      rw [key _ (by simp [h])]
    | some x =>
      simp only [Option.isSome_some, Bool.not_true, Bool.false_eq_true, if_false]
      rw [key _ (by simp [h])]

theorem ba_loop2 (res : Acc → Option Int) (keys : List Acc) (m : MInfoG) (effs : List GEff) :
    CalculateBatchAllocation.loop2 res keys m effs =
      Loop.done ({ m with
        alloc := fun u => if u ∈ keys then some 0 else m.alloc u,
        reservedMatched := fun u => if u ∈ keys then some 0 else m.reservedMatched u,
        refund := fun u => if u ∈ keys then some ((res u).getD 0) else m.refund u }, effs) := by
  induction keys generalizing m with
  | nil => simp [CalculateBatchAllocation.loop2]
  | cons k ks ih =>
    unfold CalculateBatchAllocation.loop2
    simp only [ih]
    congr 2
    simp only [MInfoG.mk.injEq, true_and]
    and_intros <;> funext u <;> simp only [Go.mapSet, List.mem_cons] <;> grind

theorem ba_loop3 (st : MState) (res : Acc → Option Int) (keys : List Acc) (hnd : keys.Nodup) (m : MInfoG) (effs : List GEff) :
    CalculateBatchAllocation.loop3 st res keys m effs =
      Loop.done ({ m with
        alloc := fun u => if u ∈ keys then some ((st.byBidder u).getD default).matched else m.alloc u,
        reservedMatched := fun u => if u ∈ keys then some ((st.byBidder u).getD default).pay else m.reservedMatched u,
        refund := fun u => if u ∈ keys then some ((res u).getD 0 - ((st.byBidder u).getD default).pay) else m.refund u }, effs) := by
  induction keys generalizing m with
  | nil => simp [CalculateBatchAllocation.loop3]
  | cons k ks ih =>
    unfold CalculateBatchAllocation.loop3
    simp only [ih (List.nodup_cons.1 hnd).2]
    congr 2
    simp only [MInfoG.mk.injEq, true_and]
    and_intros <;> funext u <;> simp only [Go.mapSet, List.mem_cons] <;> grind

theorem ba_loop4 (l : List Bid) (ids : Int → Option Bool) (effs : List GEff) :
    CalculateBatchAllocation.loop4 l ids effs =
      Loop.done (fun k => if (∃ b ∈ l, (b.id : Int) = k) then some true else ids k, effs) := by
  induction l generalizing ids with
  | nil => simp [CalculateBatchAllocation.loop4]
  | cons b bs ih =>
    unfold CalculateBatchAllocation.loop4
    simp only [ih]
    congr 2
    funext k
    simp only [Go.mapSet, List.mem_cons, exists_eq_or_imp]
    by_cases h1 : (b.id : Int) = k
    · have : k = (b.id : Int) := h1.symm
      by_cases h2 : ∃ b' ∈ bs, (b'.id : Int) = k <;> simp [h1, h2]
    · have : ¬ k = (b.id : Int) := fun h => h1 h.symm
      simp [h1, this]

theorem ba_loop5 (m : MInfoG) (ids : Int → Option Bool) (bids : List Bid) (effs : List GEff) :
    CalculateBatchAllocation.loop5 m ids bids effs =
      Loop.done (effs ++ (bids.filter (fun b => b.matched != (ids (b.id : Int)).getD false)).map
        (fun b => ⟨GName.bidSet, [.int (b.auction : Int), .int (b.id : Int), .bid { b with matched := (ids (b.id : Int)).getD false }]⟩)) := by
  induction bids generalizing effs with
  | nil => simp [CalculateBatchAllocation.loop5]
  | cons b bs ih =>
    unfold CalculateBatchAllocation.loop5
    simp only [ih]
    by_cases h : b.matched = (ids (b.id : Int)).getD false
    · simp [h]
    · simp [h]

/-- the final `matchRes` of the translated function (what the binary search leaves in the closure) -/
def finalMatchRes (a : Auction) (prices : List Dec) (byPrice : Dec → Option (List Bid)) (allowed : List Allowed) : MState :=
  (Go.sortSearch (prices.length : Int)
    (fun i s => CalculateBatchAllocation.closure1 allowed byPrice prices a.sellAmt i s)
    ({ price := (default : Dec), total := (0 : Int), byBidder := (fun _ => none) } : MState)).2

/-- the `Bid.Set` calls of the re-flagging loop, in bid order, then `SetMatchedBidsLen` -/
def flagEffs (a : Auction) (bids : List Bid) (mi : MInfo) : List GEff :=
  (bids.filter (fun b => b.matched != mi.matchedIds.contains b.id)).map
    (fun b => ⟨GName.bidSet, [.int (b.auction : Int), .int (b.id : Int), .bid { b with matched := mi.matchedIds.contains b.id }]⟩)
  ++ [⟨GName.matchedLenSet, [.int (a.id : Int), .int mi.matchedLen]⟩]

/-! ### helper lemmas: the loops of the translated function -/

def cbaRes (st : MState) (a : Auction) (bids : List Bid) (keysR keysM : List Acc) : MInfoG × Bool × List GEff :=
  ({ matchedLen := (st.matched.length : Int), price := st.price, total := st.total,
     alloc := fun u => if u ∈ keysM then some ((st.byBidder u).getD default).matched
        else if u ∈ keysR then some 0 else none,
     reservedMatched := fun u => if u ∈ keysM then some ((st.byBidder u).getD default).pay
        else if u ∈ keysR then some 0 else none,
     refund := fun u =>
        if u ∈ keysM then
          some ((if ∃ b, b ∈ bids ∧ b.bidder = u then some ((none : Option Int).getD 0 + sumOver bids u fun x => x.toPaying a.payDenom)
                  else none).getD 0 - ((st.byBidder u).getD default).pay)
        else if u ∈ keysR then
          some ((if ∃ b, b ∈ bids ∧ b.bidder = u then some ((none : Option Int).getD 0 + sumOver bids u fun x => x.toPaying a.payDenom)
                  else none).getD 0)
        else none },
   false,
   [] ++ (bids.filter (fun b => b.matched !=
            (if ∃ b_1, b_1 ∈ st.matched ∧ (b_1.id : Int) = (b.id : Int) then some true else none).getD false)).map
          (fun b => ⟨GName.bidSet, [.int (b.auction : Int), .int (b.id : Int),
            .bid { b with matched := (if ∃ b_1, b_1 ∈ st.matched ∧ (b_1.id : Int) = (b.id : Int) then some true else none).getD false }]⟩)
      ++ [⟨GName.matchedLenSet, [.int (a.id : Int), .int (st.matched.length : Int)]⟩])

theorem CBA_eq (a : Auction) (bids : List Bid) (prices : List Dec)
    (byPrice : Dec → Option (List Bid)) (allowed : List Allowed) (keysR keysM : List Acc) (hkMnd : keysM.Nodup)
    (bidsF : Int → List Bid) (hbF : bidsF (a.id : Int) = bids)
    (allowedF : Int → List Allowed) (haF : allowedF (a.id : Int) = allowed) :
    Gen.CalculateBatchAllocation a bidsF prices byPrice allowedF keysR keysM =
      cbaRes (finalMatchRes a prices byPrice allowed) a bids keysR keysM := by
  unfold Gen.CalculateBatchAllocation
  simp only [hbF, haF, ba_loop1, ba_loop2, ba_loop3 _ _ _ hkMnd, ba_loop4, ba_loop5]
  rfl

theorem ids_contains (l : List Bid) (n : Nat) :
    (if ∃ b_1, b_1 ∈ l ∧ (b_1.id : Int) = (n : Int) then some true else none).getD false = (l.map (·.id)).contains n := by
  by_cases h : ∃ b_1, b_1 ∈ l ∧ (b_1.id : Int) = (n : Int)
  · rw [if_pos h]
    obtain ⟨b, hb, e⟩ := h
    have : b.id = n := by omega
    symm
    simp only [Option.getD_some, List.contains_eq_mem, List.mem_map, decide_eq_true_eq]
    exact ⟨b, hb, this⟩
  · rw [if_neg h]
    symm
    simp only [Option.getD_none, List.contains_eq_mem, List.mem_map, decide_eq_false_iff_not]
    rintro ⟨b, hb, e⟩
    exact h ⟨b, hb, by omega⟩

theorem cbaRes_spec (st : MState) (res : Option MAcc) (hR : StRel st res) (a : Auction) (bids : List Bid)
    (keysR keysM : List Acc)
    (hkR : ∀ u, u ∈ keysR ↔ u ∈ biddersOf bids)
    (hkM : ∀ u, u ∈ keysM ↔ ((st.byBidder u).isSome = true)) :
    let bidders := biddersOf bids
    let reserved := fun u => sumOver bids u (·.toPaying a.payDenom)
    let mi : MInfo := match res with
      | none => { matchedLen := 0, price := 0, total := 0
                  alloc := bidders.map (fun u => (u, 0))
                  refund := bidders.map (fun u => (u, reserved u))
                  matchedIds := [] }
      | some acc => { matchedLen := acc.matched.length
                      price := acc.price
                      total := acc.total
                      alloc := bidders.map (fun u => (u, acc.alloc u))
                      refund := bidders.map (fun u => (u, reserved u - acc.pay u))
                      matchedIds := acc.matched.map (·.id) }
    (cbaRes st a bids keysR keysM).2.1 = false ∧
    (cbaRes st a bids keysR keysM).1.matchedLen = mi.matchedLen ∧
    (cbaRes st a bids keysR keysM).1.price = mi.price ∧
    (cbaRes st a bids keysR keysM).1.total = mi.total ∧
    mi.alloc = (biddersOf bids).map (fun u => (u, (((cbaRes st a bids keysR keysM).1.alloc u).getD 0))) ∧
    mi.refund = (biddersOf bids).map (fun u => (u, (((cbaRes st a bids keysR keysM).1.refund u).getD 0))) ∧
    (cbaRes st a bids keysR keysM).2.2 = flagEffs a bids mi := by
  intro bidders reserved mi
  have hex : ∀ u ∈ biddersOf bids, ∃ b, b ∈ bids ∧ b.bidder = u := fun u hu => (mem_biddersOf bids u).1 hu
  cases res with
  | none =>
    have hst : st = initSt := hR
    subst hst
    have hkM' : ∀ u, ¬ u ∈ keysM := by intro u hu; have := (hkM u).1 hu; simp [initSt] at this
    refine ⟨rfl, rfl, rfl, rfl, ?_, ?_, ?_⟩
    · apply List.map_congr_left
      intro u hu
      simp [cbaRes, hkM' u, (hkR u).2 hu]
    · apply List.map_congr_left
      intro u hu
      simp [cbaRes, hkM' u, (hkR u).2 hu, hex u hu, reserved]
    · simp only [cbaRes, flagEffs, mi, initSt]
      simp
  | some acc =>
    obtain ⟨h1, h2, h3, h4⟩ := hR
    refine ⟨rfl, ?_, h1, h2, ?_, ?_, ?_⟩
    · simp [cbaRes, mi, h3]
    · apply List.map_congr_left
      intro u hu
      have := (h4 u).1
      by_cases hk : u ∈ keysM
      · obtain ⟨x, hx⟩ := Option.isSome_iff_exists.1 ((hkM u).1 hk)
        simp [cbaRes, hk, hx] at this ⊢
        exact this.symm
      · have hx : st.byBidder u = none := by
          cases hx : st.byBidder u with
          | none => rfl
          | some x => exact absurd ((hkM u).2 (by simp [hx])) hk
        simp [cbaRes, hk, hx, (hkR u).2 hu] at this ⊢
        exact this.symm
    · apply List.map_congr_left
      intro u hu
      have := (h4 u).2
      by_cases hk : u ∈ keysM
      · obtain ⟨x, hx⟩ := Option.isSome_iff_exists.1 ((hkM u).1 hk)
        simp [cbaRes, hk, hx, hex u hu, reserved] at this ⊢
        rw [this]
      · have hx : st.byBidder u = none := by
          cases hx : st.byBidder u with
          | none => rfl
          | some x => exact absurd ((hkM u).2 (by simp [hx])) hk
        simp [cbaRes, hk, hx, (hkR u).2 hu, hex u hu, reserved] at this ⊢
        rw [← this]; simp
    · simp only [cbaRes, flagEffs, mi, ids_contains, h3, List.nil_append]

/-- **CalculateBatchAllocation** = `calcBatchWith` for the arrangement Go produced, for every
    iteration order of the two maps. -/
theorem tie_CalculateBatchAllocation (a : Auction) (bids sorted : List Bid) (prices : List Dec)
    (byPrice : Dec → Option (List Bid)) (allowed : List Allowed) (keysR keysM : List Acc)
    (hprices : prices = distinctPrices sorted)
    (hsorted : sorted = prices.flatMap (fun q => (byPrice q).getD []))
    (hlevel : ∀ q ∈ prices, ∀ b ∈ (byPrice q).getD [], b.price = q)
    (hdesc : prices.Pairwise (· > ·))
    (hty : ∀ b ∈ sorted, b.type ≠ .fixed)
    (hal : ∀ b ∈ sorted, (lookupAllowed allowed b.bidder).isSome = true)
    (hnd : (allowed.map (·.bidder)).Pairwise (· < ·))
    (hkR : ∀ u, u ∈ keysR ↔ u ∈ biddersOf bids) (hkRnd : keysR.Nodup)
    (hkM : ∀ u, u ∈ keysM ↔ ((finalMatchRes a prices byPrice allowed).byBidder u).isSome = true) (hkMnd : keysM.Nodup)
    (bidsF : Int → List Bid) (hbF : bidsF (a.id : Int) = bids)
    (allowedF : Int → List Allowed) (haF : allowedF (a.id : Int) = allowed) :
    match calcBatchWith sorted a bids allowed with
    | none => False
    | some mi =>
      (Gen.CalculateBatchAllocation a bidsF prices byPrice allowedF keysR keysM).2.1 = false ∧
      (Gen.CalculateBatchAllocation a bidsF prices byPrice allowedF keysR keysM).1.matchedLen = mi.matchedLen ∧
      (Gen.CalculateBatchAllocation a bidsF prices byPrice allowedF keysR keysM).1.price = mi.price ∧
      (Gen.CalculateBatchAllocation a bidsF prices byPrice allowedF keysR keysM).1.total = mi.total ∧
      mi.alloc = (biddersOf bids).map
        (fun u => (u, ((Gen.CalculateBatchAllocation a bidsF prices byPrice allowedF keysR keysM).1.alloc u).getD 0)) ∧
      mi.refund = (biddersOf bids).map
        (fun u => (u, ((Gen.CalculateBatchAllocation a bidsF prices byPrice allowedF keysR keysM).1.refund u).getD 0)) ∧
      (Gen.CalculateBatchAllocation a bidsF prices byPrice allowedF keysR keysM).2.2 = flagEffs a bids mi := by
  have _ := hkRnd  -- (the result does not depend on `keysR` being duplicate-free)
  have hstep := closure_step prices byPrice a.sellAmt allowed sorted hsorted hlevel hdesc hty hal hnd
  have hs := search_tie (fun h => matchAt (prices.getD (prices.length - 1 - h) 0) sorted a.sellAmt allowed)
    (fun i s => CalculateBatchAllocation.closure1 allowed byPrice prices a.sellAmt i s) prices.length
    hstep prices.length 0 prices.length (Nat.le_refl _) initSt none rfl
  have hfin : (Go.sortSearchLoop (fun i s => CalculateBatchAllocation.closure1 allowed byPrice prices a.sellAmt i s)
      prices.length ((0 : Nat) : Int) (prices.length : Int) initSt).2 = finalMatchRes a prices byPrice allowed := by
    simp only [finalMatchRes, Go.sortSearch, Int.toNat_natCast]; rfl
  rw [hfin] at hs
  rw [CBA_eq a bids prices byPrice allowed keysR keysM hkMnd bidsF hbF allowedF haF]
  unfold calcBatchWith
  simp only [← hprices]
  cases hsl : searchLoop (fun h => matchAt (prices.getD (prices.length - 1 - h) 0) sorted a.sellAmt allowed)
      prices.length 0 prices.length none with
  | none => rw [hsl] at hs; exact hs
  | some res =>
    rw [hsl] at hs
    have := cbaRes_spec (finalMatchRes a prices byPrice allowed) res hs a bids keysR keysM hkR hkM
    cases res with
    | none => exact this
    | some acc => exact this

end Fundraising
