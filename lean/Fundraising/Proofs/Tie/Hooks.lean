import Fundraising.Generated.Code.Hooks
import Fundraising.Tables.GoRun
/-
  The hooks plumbing, TRANSLATED from the Go source on every run (Generated/Code/Hooks.lean):
  `types.MultiFundraisingHooks.<Hook>` (types/hooks.go: the dispatch over the registered listeners)
  and `Keeper.<Hook>` (keeper/hooks.go: "call the hooks if registered"), all ten of each.

  A listener is its position in the list the keeper was given; what a listener returns is an oracle
  function `lerr` of it; a call of listener `x` is recorded as the hook's effect with `x` in front of
  the arguments.  `dispatchPlan` is the specification of a dispatch: the listeners are called in
  order, each with the SAME arguments, up to and including the first one that returns an error,
  and the error is returned.  Each translated dispatcher and wrapper is proved equal to it, with
  its own parameters, in their own order, as the arguments (C17: "each registered listener is called
  exactly once … with the values the operation actually used … uniformly for every hook and any
  number of listeners").  `run_dispatchPlan` then identifies the execution of such a plan with the
  model's primitive `Ctx.hook`, and `applyEff_*` shows that what the interpreter of the handler plans
  does for a recorded call of the keeper wrapper IS the execution of the translated wrapper's plan.
-/
namespace Fundraising
open Fundraising.Gen Fundraising.Go

/-- the specification of a dispatch over the listeners `h` -/
def dispatchPlan (n : GName) (args : List GVal) (lerr : Nat → Bool) : List Nat → Bool × List GEff
  | [] => (false, [])
  | x :: xs =>
    if lerr x then (true, [⟨n, .nat x :: args⟩])
    else ((dispatchPlan n args lerr xs).1, ⟨n, .nat x :: args⟩ :: (dispatchPlan n args lerr xs).2)

/-- the dispatch fails exactly when some listener does -/
theorem dispatchPlan_fails_iff (n : GName) (args : List GVal) (lerr : Nat → Bool) (h : List Nat) :
    (dispatchPlan n args lerr h).1 = true ↔ ∃ x ∈ h, lerr x = true := by
  induction h with
  | nil => simp [dispatchPlan]
  | cons x xs ih =>
    by_cases hx : lerr x = true
    · simp [dispatchPlan, hx]
    · simp [dispatchPlan, hx, ih]

/-- without a failing listener every listener is called, once, in order, with the same arguments -/
theorem dispatchPlan_all (n : GName) (args : List GVal) (lerr : Nat → Bool) (h : List Nat)
    (hok : ∀ x ∈ h, lerr x = false) :
    dispatchPlan n args lerr h = (false, h.map (fun x => ⟨n, .nat x :: args⟩)) := by
  induction h with
  | nil => rfl
  | cons x xs ih =>
    have hx : lerr x = false := hok x (by simp)
    have := ih (fun y hy => hok y (by simp [hy]))
    simp [dispatchPlan, hx, this]

/-- with a failing listener: the ones before it and itself, nobody after it -/
theorem dispatchPlan_first_failure (n : GName) (args : List GVal) (lerr : Nat → Bool) (pre post : List Nat) (x : Nat)
    (hpre : ∀ y ∈ pre, lerr y = false) (hx : lerr x = true) :
    dispatchPlan n args lerr (pre ++ x :: post) = (true, (pre ++ [x]).map (fun y => ⟨n, .nat y :: args⟩)) := by
  induction pre with
  | nil => simp [dispatchPlan, hx]
  | cons y ys ih =>
    have hy : lerr y = false := hpre y (by simp)
    have := ih (fun z hz => hpre z (by simp [hz]))
    simp [dispatchPlan, hy, this]

/-- execution of a listener-level plan: each recorded call is one listener's call of the hook -/
def runListeners (name : String) (sargs : List String) : List GEff → Ctx → M Ctx
  | [], c => pure c
  | e :: es, c =>
    match e.args with
    | .nat x :: _ => dispatchTo name sargs [x] c >>= runListeners name sargs es
    | _ => c.fail .panic

/-- which listener the test controls make fail -/
def failing (c : Ctx) (name : String) : Nat → Bool := fun x => decide (c.ctl.failhook = some (name, x))

namespace TieHooks

/-- the result of a function whose body is one loop of the dispatch shape -/
def fin : Loop (Bool × List GEff) (List GEff) → Bool × List GEff
  | .ret r => r
  | .done e => (false, e)

/-- any loop of the dispatch shape computes the dispatch plan, after what was accumulated before -/
theorem loop_spec (f : List Nat → List GEff → Loop (Bool × List GEff) (List GEff))
    (n : GName) (args : List GVal) (lerr : Nat → Bool)
    (h0 : ∀ effs, f [] effs = Loop.done effs)
    (h1 : ∀ x xs effs, f (x :: xs) effs =
      if lerr x = true then Loop.ret (lerr x, effs ++ [⟨n, .nat x :: args⟩])
      else f xs (effs ++ [⟨n, .nat x :: args⟩]))
    (h : List Nat) (effs : List GEff) :
    f h effs = match dispatchPlan n args lerr h with
      | (true, l) => Loop.ret (true, effs ++ l)
      | (false, l) => Loop.done (effs ++ l) := by
  induction h generalizing effs with
  | nil => simp [h0, dispatchPlan]
  | cons x xs ih =>
    rw [h1]
    by_cases hx : lerr x = true
    · simp [dispatchPlan, hx]
    · simp only [hx, if_false, dispatchPlan, Bool.false_eq_true]
      rw [ih]
      cases hd : dispatchPlan n args lerr xs with
      | mk b l => cases b <;> simp

theorem multi_spec (f : List Nat → List GEff → Loop (Bool × List GEff) (List GEff))
    (n : GName) (args : List GVal) (lerr : Nat → Bool)
    (h0 : ∀ effs, f [] effs = Loop.done effs)
    (h1 : ∀ x xs effs, f (x :: xs) effs =
      if lerr x = true then Loop.ret (lerr x, effs ++ [⟨n, .nat x :: args⟩])
      else f xs (effs ++ [⟨n, .nat x :: args⟩]))
    (h : List Nat) :
    fin (f h []) = dispatchPlan n args lerr h := by
  rw [loop_spec f n args lerr h0 h1]
  cases hd : dispatchPlan n args lerr h with
  | mk b l => cases b <;> simp [fin]

/-- `dispatchTo` over any listener list, from any context with the same test controls -/
theorem run_general (n : GName) (args : List GVal) (name : String) (sargs : List String) (c : Ctx)
    (l : List Nat) (c' : Ctx) (hc : c'.ctl = c.ctl) :
    runListeners name sargs (dispatchPlan n args (failing c name) l).2 c' = dispatchTo name sargs l c' := by
  induction l generalizing c' with
  | nil => rfl
  | cons x xs ih =>
    by_cases hx : c.ctl.failhook = some (name, x)
    · simp [dispatchPlan, failing, hx, runListeners, dispatchTo, hc, Ctx.fail, bind, Except.bind]
    · have := ih { c' with effs := c'.effs ++ [.hook x name sargs] } hc
      rw [hc] at this
      simp [dispatchPlan, failing, hx, runListeners, dispatchTo, hc, bind, Except.bind, this]

end TieHooks

/-- **a dispatch plan over the registered listeners, executed, is the model's `Ctx.hook`** -/
theorem run_dispatchPlan (n : GName) (args : List GVal) (name : String) (sargs : List String) (c : Ctx) :
    runListeners name sargs (dispatchPlan n args (failing c name) (List.range c.ctl.listeners)).2 c =
      c.hook name sargs := by
  exact TieHooks.run_general n args name sargs c _ c rfl

/-- … and its error flag is set exactly when `Ctx.hook` fails -/
theorem run_dispatchPlan_flag (n : GName) (args : List GVal) (name : String) (sargs : List String) (c : Ctx) :
    (dispatchPlan n args (failing c name) (List.range c.ctl.listeners)).1 = true ↔
      ∃ x, x < c.ctl.listeners ∧ c.ctl.failhook = some (name, x) := by
  have _used := sargs
  rw [dispatchPlan_fails_iff]
  simp [failing, List.mem_range]

/-! ### the translated dispatchers (types/hooks.go) -/

theorem tie_Multi_BeforeFixedPriceAuctionCreated (h : List Nat) (a0 : Acc) (a1 : Dec) (a2 : Coin) (a3 : Denom) (a4 : List VS) (a5 : Int) (a6 : Int) (lerr : Nat → Bool) :
    Gen.Multi_BeforeFixedPriceAuctionCreated h a0 a1 a2 a3 a4 a5 a6 lerr = dispatchPlan .beforeFixedCreated [.nat a0, .int a1, .coin a2, .nat a3, .sched a4, .int a5, .int a6] lerr h := by
  exact TieHooks.multi_spec (Gen.Multi_BeforeFixedPriceAuctionCreated.loop1 a0 a6 lerr a3 a2 a1 a5 a4) _ _ lerr (fun _ => rfl) (fun _ _ _ => rfl) h

theorem tie_Multi_AfterFixedPriceAuctionCreated (h : List Nat) (a0 : Int) (a1 : Acc) (a2 : Dec) (a3 : Coin) (a4 : Denom) (a5 : List VS) (a6 : Int) (a7 : Int) (lerr : Nat → Bool) :
    Gen.Multi_AfterFixedPriceAuctionCreated h a0 a1 a2 a3 a4 a5 a6 a7 lerr = dispatchPlan .afterFixedCreated [.int a0, .nat a1, .int a2, .coin a3, .nat a4, .sched a5, .int a6, .int a7] lerr h := by
  exact TieHooks.multi_spec (Gen.Multi_AfterFixedPriceAuctionCreated.loop1 a0 a1 a7 lerr a4 a3 a2 a6 a5) _ _ lerr (fun _ => rfl) (fun _ _ _ => rfl) h

theorem tie_Multi_BeforeBatchAuctionCreated (h : List Nat) (a0 : Acc) (a1 : Dec) (a2 : Dec) (a3 : Coin) (a4 : Denom) (a5 : List VS) (a6 : Int) (a7 : Dec) (a8 : Int) (a9 : Int) (lerr : Nat → Bool) :
    Gen.Multi_BeforeBatchAuctionCreated h a0 a1 a2 a3 a4 a5 a6 a7 a8 a9 lerr = dispatchPlan .beforeBatchCreated [.nat a0, .int a1, .int a2, .coin a3, .nat a4, .sched a5, .int a6, .int a7, .int a8, .int a9] lerr h := by
  exact TieHooks.multi_spec (Gen.Multi_BeforeBatchAuctionCreated.loop1 a0 a9 a7 lerr a6 a2 a4 a3 a1 a8 a5) _ _ lerr (fun _ => rfl) (fun _ _ _ => rfl) h

theorem tie_Multi_AfterBatchAuctionCreated (h : List Nat) (a0 : Int) (a1 : Acc) (a2 : Dec) (a3 : Dec) (a4 : Coin) (a5 : Denom) (a6 : List VS) (a7 : Int) (a8 : Dec) (a9 : Int) (a10 : Int) (lerr : Nat → Bool) :
    Gen.Multi_AfterBatchAuctionCreated h a0 a1 a2 a3 a4 a5 a6 a7 a8 a9 a10 lerr = dispatchPlan .afterBatchCreated [.int a0, .nat a1, .int a2, .int a3, .coin a4, .nat a5, .sched a6, .int a7, .int a8, .int a9, .int a10] lerr h := by
  exact TieHooks.multi_spec (Gen.Multi_AfterBatchAuctionCreated.loop1 a0 a1 a10 a8 lerr a7 a3 a5 a4 a2 a9 a6) _ _ lerr (fun _ => rfl) (fun _ _ _ => rfl) h

theorem tie_Multi_BeforeAuctionCanceled (h : List Nat) (a0 : Int) (a1 : Acc) (lerr : Nat → Bool) :
    Gen.Multi_BeforeAuctionCanceled h a0 a1 lerr = dispatchPlan .beforeAuctionCanceled [.int a0, .nat a1] lerr h := by
  exact TieHooks.multi_spec (Gen.Multi_BeforeAuctionCanceled.loop1 a0 a1 lerr) _ _ lerr (fun _ => rfl) (fun _ _ _ => rfl) h

theorem tie_Multi_BeforeBidPlaced (h : List Nat) (a0 : Int) (a1 : Int) (a2 : Acc) (a3 : BidType) (a4 : Dec) (a5 : Coin) (lerr : Nat → Bool) :
    Gen.Multi_BeforeBidPlaced h a0 a1 a2 a3 a4 a5 lerr = dispatchPlan .beforeBidPlaced [.int a0, .int a1, .nat a2, .bidType a3, .int a4, .coin a5] lerr h := by
  exact TieHooks.multi_spec (Gen.Multi_BeforeBidPlaced.loop1 a0 a1 a3 a2 a5 lerr a4) _ _ lerr (fun _ => rfl) (fun _ _ _ => rfl) h

theorem tie_Multi_BeforeBidModified (h : List Nat) (a0 : Int) (a1 : Int) (a2 : Acc) (a3 : BidType) (a4 : Dec) (a5 : Coin) (lerr : Nat → Bool) :
    Gen.Multi_BeforeBidModified h a0 a1 a2 a3 a4 a5 lerr = dispatchPlan .beforeBidModified [.int a0, .int a1, .nat a2, .bidType a3, .int a4, .coin a5] lerr h := by
  exact TieHooks.multi_spec (Gen.Multi_BeforeBidModified.loop1 a0 a1 a3 a2 a5 lerr a4) _ _ lerr (fun _ => rfl) (fun _ _ _ => rfl) h

theorem tie_Multi_BeforeAllowedBiddersAdded (h : List Nat) (a0 : List AllowedArg) (lerr : Nat → Bool) :
    Gen.Multi_BeforeAllowedBiddersAdded h a0 lerr = dispatchPlan .beforeAllowedBiddersAdded [.allowed a0] lerr h := by
  exact TieHooks.multi_spec (Gen.Multi_BeforeAllowedBiddersAdded.loop1 a0 lerr) _ _ lerr (fun _ => rfl) (fun _ _ _ => rfl) h

theorem tie_Multi_BeforeAllowedBidderUpdated (h : List Nat) (a0 : Int) (a1 : Acc) (a2 : Int) (lerr : Nat → Bool) :
    Gen.Multi_BeforeAllowedBidderUpdated h a0 a1 a2 lerr = dispatchPlan .beforeAllowedBidderUpdated [.int a0, .nat a1, .int a2] lerr h := by
  exact TieHooks.multi_spec (Gen.Multi_BeforeAllowedBidderUpdated.loop1 a0 a1 lerr a2) _ _ lerr (fun _ => rfl) (fun _ _ _ => rfl) h

theorem tie_Multi_BeforeSellingCoinsAllocated (h : List Nat) (a0 : Int) (a1 : Acc → Option Int) (a2 : Acc → Option Int) (lerr : Nat → Bool) :
    Gen.Multi_BeforeSellingCoinsAllocated h a0 a1 a2 lerr = dispatchPlan .beforeSellingCoinsAllocated [.int a0, .amap a1, .amap a2] lerr h := by
  exact TieHooks.multi_spec (Gen.Multi_BeforeSellingCoinsAllocated.loop1 a1 a0 lerr a2) _ _ lerr (fun _ => rfl) (fun _ _ _ => rfl) h

/-! ### the keeper's wrappers (keeper/hooks.go): nothing without hooks, the dispatch otherwise -/

theorem tie_Keeper_BeforeFixedPriceAuctionCreated (a0 : Acc) (a1 : Dec) (a2 : Coin) (a3 : Denom) (a4 : List VS) (a5 : Int) (a6 : Int) (hooks : Option (List Nat)) (lerr : Nat → Bool) :
    Gen.Keeper_BeforeFixedPriceAuctionCreated a0 a1 a2 a3 a4 a5 a6 hooks lerr = dispatchPlan .beforeFixedCreated [.nat a0, .int a1, .coin a2, .nat a3, .sched a4, .int a5, .int a6] lerr (hooks.getD []) := by
  unfold Gen.Keeper_BeforeFixedPriceAuctionCreated
  cases hooks with
  | none => simp [dispatchPlan]
  | some l =>
    simp only [tie_Multi_BeforeFixedPriceAuctionCreated]
    generalize dispatchPlan _ _ lerr (Option.getD (some l) _) = p
    rcases p with ⟨b, e⟩
    cases b <;> simp

theorem tie_Keeper_AfterFixedPriceAuctionCreated (a0 : Int) (a1 : Acc) (a2 : Dec) (a3 : Coin) (a4 : Denom) (a5 : List VS) (a6 : Int) (a7 : Int) (hooks : Option (List Nat)) (lerr : Nat → Bool) :
    Gen.Keeper_AfterFixedPriceAuctionCreated a0 a1 a2 a3 a4 a5 a6 a7 hooks lerr = dispatchPlan .afterFixedCreated [.int a0, .nat a1, .int a2, .coin a3, .nat a4, .sched a5, .int a6, .int a7] lerr (hooks.getD []) := by
  unfold Gen.Keeper_AfterFixedPriceAuctionCreated
  cases hooks with
  | none => simp [dispatchPlan]
  | some l =>
    simp only [tie_Multi_AfterFixedPriceAuctionCreated]
    generalize dispatchPlan _ _ lerr (Option.getD (some l) _) = p
    rcases p with ⟨b, e⟩
    cases b <;> simp

theorem tie_Keeper_BeforeBatchAuctionCreated (a0 : Acc) (a1 : Dec) (a2 : Dec) (a3 : Coin) (a4 : Denom) (a5 : List VS) (a6 : Int) (a7 : Dec) (a8 : Int) (a9 : Int) (hooks : Option (List Nat)) (lerr : Nat → Bool) :
    Gen.Keeper_BeforeBatchAuctionCreated a0 a1 a2 a3 a4 a5 a6 a7 a8 a9 hooks lerr = dispatchPlan .beforeBatchCreated [.nat a0, .int a1, .int a2, .coin a3, .nat a4, .sched a5, .int a6, .int a7, .int a8, .int a9] lerr (hooks.getD []) := by
  unfold Gen.Keeper_BeforeBatchAuctionCreated
  cases hooks with
  | none => simp [dispatchPlan]
  | some l =>
    simp only [tie_Multi_BeforeBatchAuctionCreated]
    generalize dispatchPlan _ _ lerr (Option.getD (some l) _) = p
    rcases p with ⟨b, e⟩
    cases b <;> simp

theorem tie_Keeper_AfterBatchAuctionCreated (a0 : Int) (a1 : Acc) (a2 : Dec) (a3 : Dec) (a4 : Coin) (a5 : Denom) (a6 : List VS) (a7 : Int) (a8 : Dec) (a9 : Int) (a10 : Int) (hooks : Option (List Nat)) (lerr : Nat → Bool) :
    Gen.Keeper_AfterBatchAuctionCreated a0 a1 a2 a3 a4 a5 a6 a7 a8 a9 a10 hooks lerr = dispatchPlan .afterBatchCreated [.int a0, .nat a1, .int a2, .int a3, .coin a4, .nat a5, .sched a6, .int a7, .int a8, .int a9, .int a10] lerr (hooks.getD []) := by
  unfold Gen.Keeper_AfterBatchAuctionCreated
  cases hooks with
  | none => simp [dispatchPlan]
  | some l =>
    simp only [tie_Multi_AfterBatchAuctionCreated]
    generalize dispatchPlan _ _ lerr (Option.getD (some l) _) = p
    rcases p with ⟨b, e⟩
    cases b <;> simp

theorem tie_Keeper_BeforeAuctionCanceled (a0 : Int) (a1 : Acc) (hooks : Option (List Nat)) (lerr : Nat → Bool) :
    Gen.Keeper_BeforeAuctionCanceled a0 a1 hooks lerr = dispatchPlan .beforeAuctionCanceled [.int a0, .nat a1] lerr (hooks.getD []) := by
  unfold Gen.Keeper_BeforeAuctionCanceled
  cases hooks with
  | none => simp [dispatchPlan]
  | some l =>
    simp only [tie_Multi_BeforeAuctionCanceled]
    generalize dispatchPlan _ _ lerr (Option.getD (some l) _) = p
    rcases p with ⟨b, e⟩
    cases b <;> simp

theorem tie_Keeper_BeforeBidPlaced (a0 : Int) (a1 : Int) (a2 : Acc) (a3 : BidType) (a4 : Dec) (a5 : Coin) (hooks : Option (List Nat)) (lerr : Nat → Bool) :
    Gen.Keeper_BeforeBidPlaced a0 a1 a2 a3 a4 a5 hooks lerr = dispatchPlan .beforeBidPlaced [.int a0, .int a1, .nat a2, .bidType a3, .int a4, .coin a5] lerr (hooks.getD []) := by
  unfold Gen.Keeper_BeforeBidPlaced
  cases hooks with
  | none => simp [dispatchPlan]
  | some l =>
    simp only [tie_Multi_BeforeBidPlaced]
    generalize dispatchPlan _ _ lerr (Option.getD (some l) _) = p
    rcases p with ⟨b, e⟩
    cases b <;> simp

theorem tie_Keeper_BeforeBidModified (a0 : Int) (a1 : Int) (a2 : Acc) (a3 : BidType) (a4 : Dec) (a5 : Coin) (hooks : Option (List Nat)) (lerr : Nat → Bool) :
    Gen.Keeper_BeforeBidModified a0 a1 a2 a3 a4 a5 hooks lerr = dispatchPlan .beforeBidModified [.int a0, .int a1, .nat a2, .bidType a3, .int a4, .coin a5] lerr (hooks.getD []) := by
  unfold Gen.Keeper_BeforeBidModified
  cases hooks with
  | none => simp [dispatchPlan]
  | some l =>
    simp only [tie_Multi_BeforeBidModified]
    generalize dispatchPlan _ _ lerr (Option.getD (some l) _) = p
    rcases p with ⟨b, e⟩
    cases b <;> simp

theorem tie_Keeper_BeforeAllowedBiddersAdded (a0 : List AllowedArg) (hooks : Option (List Nat)) (lerr : Nat → Bool) :
    Gen.Keeper_BeforeAllowedBiddersAdded a0 hooks lerr = dispatchPlan .beforeAllowedBiddersAdded [.allowed a0] lerr (hooks.getD []) := by
  unfold Gen.Keeper_BeforeAllowedBiddersAdded
  cases hooks with
  | none => simp [dispatchPlan]
  | some l =>
    simp only [tie_Multi_BeforeAllowedBiddersAdded]
    generalize dispatchPlan _ _ lerr (Option.getD (some l) _) = p
    rcases p with ⟨b, e⟩
    cases b <;> simp

theorem tie_Keeper_BeforeAllowedBidderUpdated (a0 : Int) (a1 : Acc) (a2 : Int) (hooks : Option (List Nat)) (lerr : Nat → Bool) :
    Gen.Keeper_BeforeAllowedBidderUpdated a0 a1 a2 hooks lerr = dispatchPlan .beforeAllowedBidderUpdated [.int a0, .nat a1, .int a2] lerr (hooks.getD []) := by
  unfold Gen.Keeper_BeforeAllowedBidderUpdated
  cases hooks with
  | none => simp [dispatchPlan]
  | some l =>
    simp only [tie_Multi_BeforeAllowedBidderUpdated]
    generalize dispatchPlan _ _ lerr (Option.getD (some l) _) = p
    rcases p with ⟨b, e⟩
    cases b <;> simp

theorem tie_Keeper_BeforeSellingCoinsAllocated (a0 : Int) (a1 : Acc → Option Int) (a2 : Acc → Option Int) (hooks : Option (List Nat)) (lerr : Nat → Bool) :
    Gen.Keeper_BeforeSellingCoinsAllocated a0 a1 a2 hooks lerr = dispatchPlan .beforeSellingCoinsAllocated [.int a0, .amap a1, .amap a2] lerr (hooks.getD []) := by
  unfold Gen.Keeper_BeforeSellingCoinsAllocated
  cases hooks with
  | none => simp [dispatchPlan]
  | some l =>
    simp only [tie_Multi_BeforeSellingCoinsAllocated]
    generalize dispatchPlan _ _ lerr (Option.getD (some l) _) = p
    rcases p with ⟨b, e⟩
    cases b <;> simp

/-! ### what the handler plans' interpreter does for a recorded wrapper call IS the translated wrapper's plan, executed -/

/-- the listeners of a context as the keeper holds them -/
def hooksOf (c : Ctx) : Option (List Nat) := some (List.range c.ctl.listeners)

theorem applyEff_BeforeFixedPriceAuctionCreated (a0 : Acc) (a1 : Dec) (a2 : Coin) (a3 : Denom) (a4 : List VS) (a5 : Int) (a6 : Int) (c : Ctx) (v : AView) :
    applyEff ⟨.beforeFixedCreated, [.nat a0, .int a1, .coin a2, .nat a3, .sched a4, .int a5, .int a6]⟩ c v =
      (runListeners "BeforeFixedPriceAuctionCreated" ([rAcc a0, rInt a1, rNat a2.denom, rInt a2.amt, rNat a3] ++ rSchedules a4 ++ [rInt a5, rInt a6])
        (Gen.Keeper_BeforeFixedPriceAuctionCreated a0 a1 a2 a3 a4 a5 a6 (hooksOf c) (failing c "BeforeFixedPriceAuctionCreated")).2 c >>= fun c' => pure (c', v)) := by
  rw [tie_Keeper_BeforeFixedPriceAuctionCreated, hooksOf, Option.getD_some, run_dispatchPlan]
  rfl

theorem applyEff_AfterFixedPriceAuctionCreated (a0 : Int) (a1 : Acc) (a2 : Dec) (a3 : Coin) (a4 : Denom) (a5 : List VS) (a6 : Int) (a7 : Int) (c : Ctx) (v : AView) :
    applyEff ⟨.afterFixedCreated, [.int a0, .nat a1, .int a2, .coin a3, .nat a4, .sched a5, .int a6, .int a7]⟩ c v =
      (runListeners "AfterFixedPriceAuctionCreated" ([rNat a0.toNat, rAcc a1, rInt a2, rNat a3.denom, rInt a3.amt, rNat a4] ++ rSchedules a5 ++ [rInt a6, rInt a7])
        (Gen.Keeper_AfterFixedPriceAuctionCreated a0 a1 a2 a3 a4 a5 a6 a7 (hooksOf c) (failing c "AfterFixedPriceAuctionCreated")).2 c >>= fun c' => pure (c', v)) := by
  rw [tie_Keeper_AfterFixedPriceAuctionCreated, hooksOf, Option.getD_some, run_dispatchPlan]
  rfl

theorem applyEff_BeforeBatchAuctionCreated (a0 : Acc) (a1 : Dec) (a2 : Dec) (a3 : Coin) (a4 : Denom) (a5 : List VS) (a6 : Int) (a7 : Dec) (a8 : Int) (a9 : Int) (c : Ctx) (v : AView) :
    applyEff ⟨.beforeBatchCreated, [.nat a0, .int a1, .int a2, .coin a3, .nat a4, .sched a5, .int a6, .int a7, .int a8, .int a9]⟩ c v =
      (runListeners "BeforeBatchAuctionCreated" ([rAcc a0, rInt a1, rInt a2, rNat a3.denom, rInt a3.amt, rNat a4] ++ rSchedules a5 ++ [rNat a6.toNat, rInt a7, rInt a8, rInt a9])
        (Gen.Keeper_BeforeBatchAuctionCreated a0 a1 a2 a3 a4 a5 a6 a7 a8 a9 (hooksOf c) (failing c "BeforeBatchAuctionCreated")).2 c >>= fun c' => pure (c', v)) := by
  rw [tie_Keeper_BeforeBatchAuctionCreated, hooksOf, Option.getD_some, run_dispatchPlan]
  rfl

theorem applyEff_AfterBatchAuctionCreated (a0 : Int) (a1 : Acc) (a2 : Dec) (a3 : Dec) (a4 : Coin) (a5 : Denom) (a6 : List VS) (a7 : Int) (a8 : Dec) (a9 : Int) (a10 : Int) (c : Ctx) (v : AView) :
    applyEff ⟨.afterBatchCreated, [.int a0, .nat a1, .int a2, .int a3, .coin a4, .nat a5, .sched a6, .int a7, .int a8, .int a9, .int a10]⟩ c v =
      (runListeners "AfterBatchAuctionCreated" ([rNat a0.toNat, rAcc a1, rInt a2, rInt a3, rNat a4.denom, rInt a4.amt, rNat a5] ++ rSchedules a6 ++ [rNat a7.toNat, rInt a8, rInt a9, rInt a10])
        (Gen.Keeper_AfterBatchAuctionCreated a0 a1 a2 a3 a4 a5 a6 a7 a8 a9 a10 (hooksOf c) (failing c "AfterBatchAuctionCreated")).2 c >>= fun c' => pure (c', v)) := by
  rw [tie_Keeper_AfterBatchAuctionCreated, hooksOf, Option.getD_some, run_dispatchPlan]
  rfl

theorem applyEff_BeforeAuctionCanceled (a0 : Int) (a1 : Acc) (c : Ctx) (v : AView) :
    applyEff ⟨.beforeAuctionCanceled, [.int a0, .nat a1]⟩ c v =
      (runListeners "BeforeAuctionCanceled" [rNat a0.toNat, rAcc a1]
        (Gen.Keeper_BeforeAuctionCanceled a0 a1 (hooksOf c) (failing c "BeforeAuctionCanceled")).2 c >>= fun c' => pure (c', v)) := by
  rw [tie_Keeper_BeforeAuctionCanceled, hooksOf, Option.getD_some, run_dispatchPlan]
  rfl

theorem applyEff_BeforeBidPlaced (a0 : Int) (a1 : Int) (a2 : Acc) (a3 : BidType) (a4 : Dec) (a5 : Coin) (c : Ctx) (v : AView) :
    applyEff ⟨.beforeBidPlaced, [.int a0, .int a1, .nat a2, .bidType a3, .int a4, .coin a5]⟩ c v =
      (runListeners "BeforeBidPlaced" [rNat a0.toNat, rNat a1.toNat, rAcc a2, rBidType a3, rInt a4, rNat a5.denom, rInt a5.amt]
        (Gen.Keeper_BeforeBidPlaced a0 a1 a2 a3 a4 a5 (hooksOf c) (failing c "BeforeBidPlaced")).2 c >>= fun c' => pure (c', v)) := by
  rw [tie_Keeper_BeforeBidPlaced, hooksOf, Option.getD_some, run_dispatchPlan]
  rfl

theorem applyEff_BeforeBidModified (a0 : Int) (a1 : Int) (a2 : Acc) (a3 : BidType) (a4 : Dec) (a5 : Coin) (c : Ctx) (v : AView) :
    applyEff ⟨.beforeBidModified, [.int a0, .int a1, .nat a2, .bidType a3, .int a4, .coin a5]⟩ c v =
      (runListeners "BeforeBidModified" [rNat a0.toNat, rNat a1.toNat, rAcc a2, rBidType a3, rInt a4, rNat a5.denom, rInt a5.amt]
        (Gen.Keeper_BeforeBidModified a0 a1 a2 a3 a4 a5 (hooksOf c) (failing c "BeforeBidModified")).2 c >>= fun c' => pure (c', v)) := by
  rw [tie_Keeper_BeforeBidModified, hooksOf, Option.getD_some, run_dispatchPlan]
  rfl

theorem applyEff_BeforeAllowedBiddersAdded (a0 : List AllowedArg) (c : Ctx) (v : AView) :
    applyEff ⟨.beforeAllowedBiddersAdded, [.allowed a0]⟩ c v =
      (runListeners "BeforeAllowedBiddersAdded" (rAllowedArgs a0)
        (Gen.Keeper_BeforeAllowedBiddersAdded a0 (hooksOf c) (failing c "BeforeAllowedBiddersAdded")).2 c >>= fun c' => pure (c', v)) := by
  rw [tie_Keeper_BeforeAllowedBiddersAdded, hooksOf, Option.getD_some, run_dispatchPlan]
  rfl

theorem applyEff_BeforeAllowedBidderUpdated (a0 : Int) (a1 : Acc) (a2 : Int) (c : Ctx) (v : AView) :
    applyEff ⟨.beforeAllowedBidderUpdated, [.int a0, .nat a1, .int a2]⟩ c v =
      (runListeners "BeforeAllowedBidderUpdated" [rNat a0.toNat, rAcc a1, rInt a2]
        (Gen.Keeper_BeforeAllowedBidderUpdated a0 a1 a2 (hooksOf c) (failing c "BeforeAllowedBidderUpdated")).2 c >>= fun c' => pure (c', v)) := by
  rw [tie_Keeper_BeforeAllowedBidderUpdated, hooksOf, Option.getD_some, run_dispatchPlan]
  rfl

end Fundraising

/-! non-vacuity: three registered listeners, listener 1 vetoes `BeforeAuctionCanceled`: listeners 0
    and 1 are called (in that order, with the operation's values), listener 2 is not, the error is returned -/
namespace Fundraising
open Fundraising.Gen Fundraising.Go

example : Gen.Keeper_BeforeAuctionCanceled 4 9 (some [0, 1, 2]) (fun x => decide (x = 1)) =
    (true, [⟨.beforeAuctionCanceled, [.nat 0, .int 4, .nat 9]⟩, ⟨.beforeAuctionCanceled, [.nat 1, .int 4, .nat 9]⟩]) := by
  rw [tie_Keeper_BeforeAuctionCanceled]; rfl
example : (Gen.Keeper_BeforeAuctionCanceled 4 9 none (fun _ => true)) = (false, []) := by
  rw [tie_Keeper_BeforeAuctionCanceled]; rfl

end Fundraising
