import Fundraising.Generated.Code.Bids
import Fundraising.Tables.GoRun
import Fundraising.Proofs.Tie.BidsPure
import Fundraising.Proofs.ExecLemmas
import Fundraising.Proofs.AcceptModify
/-
  Tie of the translated `Keeper.PlaceBid` / `Keeper.ModifyBid` (keeper/bid.go) to the
  hand-written handlers `placeBid` / `modifyBid` of Model/Keeper.lean: the model handler IS the
  interpretation (`Go.runPlan`, Tables/GoRun.lean) of the plan computed by the code translated
  from the Go source — same guards in the same order, same bank calls with the same amounts, the
  hook before the `Bid.Set`, the same records written.
-/
set_option linter.unusedSimpArgs false
namespace Fundraising
open Fundraising.Gen Fundraising.Go

theorem setBid_fresh (l : List Bid) (b : Bid) (h : ∀ x ∈ l, x.id ≠ b.id) : setBid l b = l ++ [b] := by
  unfold setBid
  have : l.any (·.id == b.id) = false := by
    simp only [List.any_eq_false, beq_iff_eq]
    exact fun x hx => h x hx
  simp [this]

/-- `Bid.Set` on an id that `find?` has found replaces that record, as the model's `List.map` -/
theorem setBid_found (l : List Bid) (b b' : Bid) (n : Nat) (h : l.find? (·.id == n) = some b) (hb : b'.id = b.id) :
    setBid l b' = l.map (fun x => if x.id == n then b' else x) := by
  have h1 := List.find?_some h
  have h2 := List.mem_of_find?_eq_some h
  simp only [beq_iff_eq] at h1
  unfold setBid
  have : l.any (·.id == b'.id) = true := by
    simp only [List.any_eq_true, beq_iff_eq]
    exact ⟨b, h2, hb.symm⟩
  rw [if_pos this]
  simp [hb, h1]

private theorem okbind {α β : Type} (x : α) (f : α → M β) : (Except.ok x >>= f) = f x := rfl

/-- unfold the interpreter and the monad on a concrete plan, with the given facts -/
local macro "tie_simp" "[" ls:Lean.Parser.Tactic.simpLemma,* "]" : tactic =>
  `(tactic| simp [runPlan, applyEff, bind, Except.bind, pure, Except.pure, Ctx.fail, Ctx.check, bidHookArgs, $ls,*])

/-- **PlaceBid.**  `hacc`: `ValidateBasic` has accepted the bidder address; `hfresh`: the next
    bid id is unused (`ViewWF.bidIds`/`bidSeq`); `hL`: `L` is what `GetBidsByBidder` returns (the
    bidder's bids of ALL auctions), of which those of this auction are the ones in its view. -/
theorem tie_PlaceBid (c : Ctx) (bidder : Acc) (aid : Nat) (t : BidType) (price : Dec) (denom : Denom) (amt : Int)
    (hacc : validAcc bidder = true) (v : AView) (hv : c.s.views[aid]? = some v)
    (hfresh : ∀ x ∈ v.bids, x.id ≠ v.bidSeq + 1)
    (hL : ((rdBidsByBidder c.s bidder).filter (fun b => decide ((b.auction : Int) = (v.a.id : Int)))) = v.bids.filter (·.bidder == bidder))
    (hid : v.a.id = aid) :
    placeBid c bidder aid t price denom amt =
       Go.runPlan c aid v (Gen.PlaceBid ⟨bidder, aid, t, price, denom, amt⟩
          (rdAuction c.s) (rdNextBidId c.s) (rdBidsByBidder c.s) (rdAllowed c.s)).2 := by
  -- `msg.AuctionId` and `auction.GetId()` are the same key: eliminate `aid` in favour of `v.a.id`
  -- before anything else, so that both spellings in the translated code have one normal form
  subst hid
  unfold placeBid Gen.PlaceBid
  have hA : rdAuction c.s (v.a.id : Int) = (v.a, false) := by simp [rdAuction, hv]
  have hB : rdAllowed c.s (v.a.id : Int) bidder =
      ((lookupAllowed v.allowed bidder).getD default, (lookupAllowed v.allowed bidder).isNone) := by
    simp [rdAllowed, hv]
  have hN : rdNextBidId c.s (v.a.id : Int) = ((v.bidSeq + 1 : Nat) : Int) := by
    simp [rdNextBidId, hv]
  simp only [Ctx.view, hv, tie_ValidateBatchWorthBid, tie_ValidateBatchManyBid, tie_ValidateFixedPriceBid,
    tie_ConvertToPayingAmount, tie_ConvertToSellingAmount, hL, apply_ite Prod.snd, apply_ite (runPlan c v.a.id v),
    hA, hN, Int.toNat_natCast, hB]
  have hsb : ∀ b : Bid, b.id = v.bidSeq + 1 → setBid v.bids b = v.bids ++ [b] :=
    fun b hb => setBid_fresh _ _ (by rw [hb]; exact hfresh)
  cases t with
  | fixed =>
    simp only [Int.toNat_natCast, hacc, okbind, bidderTotal]
    obtain ⟨q, hq⟩ : ∃ q, Bid.toSelling ⟨v.a.id, v.bidSeq+1, bidder, .fixed, price, denom, amt, false⟩ v.a.payDenom = q := ⟨_, rfl⟩
    obtain ⟨p, hp⟩ : ∃ q, Bid.toPaying ⟨v.a.id, v.bidSeq+1, bidder, .fixed, price, denom, amt, false⟩ v.a.payDenom = q := ⟨_, rfl⟩
    obtain ⟨tot, htot⟩ : ∃ q, List.foldl (fun s b => s + b.toSelling v.a.payDenom) 0 (List.filter (fun x => x.bidder == bidder) v.bids) = q := ⟨_, rfl⟩
    simp only [hq, hp, htot]
    clear hq hp htot
    cases hab : lookupAllowed v.allowed bidder with
    | none =>
      tie_simp []
      grind
    | some ab =>
      cases hty : v.a.type with
      | batch =>
        cases hfee : c.bankCall XKind.pool (Addr.user bidder) Addr.pool c.s.params.bidFee <;>
        tie_simp [hfee] <;> grind
      | fixed =>
        cases hfee : c.bankCall XKind.pool (Addr.user bidder) Addr.pool c.s.params.bidFee with
        | error e => tie_simp [hfee]; try grind
        | ok c1 =>
        cases hmk : mkCoins c1 v.a.payDenom p with
        | error e => tie_simp [hfee, hmk]; try grind
        | ok coins =>
        cases hb : c1.bankCall .send (.user bidder) (.pay v.a.id) coins with
        | error e => tie_simp [hfee, hmk, hb]; try grind
        | ok c2 =>
        cases hh : c2.hook "BeforeBidPlaced" [rNat v.a.id, rNat (v.bidSeq + 1), rAcc bidder, rBidType BidType.fixed, rInt price, rNat denom, rInt amt] <;>
        tie_simp [hfee, hmk, hb, hh, hsb] <;> try grind
  | worth =>
    simp only [Int.toNat_natCast, hacc, okbind]
    obtain ⟨q, hq⟩ : ∃ q, Bid.toSelling ⟨v.a.id, v.bidSeq+1, bidder, .worth, price, denom, amt, false⟩ v.a.payDenom = q := ⟨_, rfl⟩
    obtain ⟨p, hp⟩ : ∃ q, Bid.toPaying ⟨v.a.id, v.bidSeq+1, bidder, .worth, price, denom, amt, false⟩ v.a.payDenom = q := ⟨_, rfl⟩
    simp only [hq, hp]
    clear hq hp
    cases hab : lookupAllowed v.allowed bidder with
    | none =>
      tie_simp []
      grind
    | some ab =>
      cases hty : v.a.type with
      | fixed =>
        cases hfee : c.bankCall XKind.pool (Addr.user bidder) Addr.pool c.s.params.bidFee <;>
        tie_simp [hfee] <;> grind
      | batch =>
        cases hfee : c.bankCall XKind.pool (Addr.user bidder) Addr.pool c.s.params.bidFee with
        | error e => tie_simp [hfee]; try grind
        | ok c1 =>
        cases hmk : mkCoins c1 denom amt with
        | error e => tie_simp [hfee, hmk]; try grind
        | ok coins =>
        cases hb : c1.bankCall .send (.user bidder) (.pay v.a.id) coins with
        | error e => tie_simp [hfee, hmk, hb]; try grind
        | ok c2 =>
        cases hh : c2.hook "BeforeBidPlaced" [rNat v.a.id, rNat (v.bidSeq + 1), rAcc bidder, rBidType BidType.worth, rInt price, rNat denom, rInt amt] <;>
        tie_simp [hfee, hmk, hb, hh, hsb] <;> try grind
  | many =>
    simp only [Int.toNat_natCast, hacc, okbind]
    obtain ⟨q, hq⟩ : ∃ q, Bid.toSelling ⟨v.a.id, v.bidSeq+1, bidder, .many, price, denom, amt, false⟩ v.a.payDenom = q := ⟨_, rfl⟩
    obtain ⟨p, hp⟩ : ∃ q, Bid.toPaying ⟨v.a.id, v.bidSeq+1, bidder, .many, price, denom, amt, false⟩ v.a.payDenom = q := ⟨_, rfl⟩
    simp only [hq, hp]
    clear hq hp
    cases hab : lookupAllowed v.allowed bidder with
    | none =>
      tie_simp []
      grind
    | some ab =>
      cases hty : v.a.type with
      | fixed =>
        cases hfee : c.bankCall XKind.pool (Addr.user bidder) Addr.pool c.s.params.bidFee <;>
        tie_simp [hfee] <;> grind
      | batch =>
        cases hfee : c.bankCall XKind.pool (Addr.user bidder) Addr.pool c.s.params.bidFee with
        | error e => tie_simp [hfee]; try grind
        | ok c1 =>
        cases hmk : mkCoins c1 v.a.payDenom p with
        | error e => tie_simp [hfee, hmk]; try grind
        | ok coins =>
        cases hb : c1.bankCall .send (.user bidder) (.pay v.a.id) coins with
        | error e => tie_simp [hfee, hmk, hb]; try grind
        | ok c2 =>
        cases hh : c2.hook "BeforeBidPlaced" [rNat v.a.id, rNat (v.bidSeq + 1), rAcc bidder, rBidType BidType.many, rInt price, rNat denom, rInt amt] <;>
        tie_simp [hfee, hmk, hb, hh, hsb] <;> try grind

/-- an unknown auction id: both reject without any effect -/
theorem tie_PlaceBid_noAuction (c : Ctx) (bidder : Acc) (aid : Nat) (t : BidType) (price : Dec) (denom : Denom) (amt : Int)
    (hv : c.s.views[aid]? = none) (n : Int → Int) (L : Acc → List Bid) (ab : Int → Acc → Allowed × Bool) :
    placeBid c bidder aid t price denom amt = c.fail ∧
    (Gen.PlaceBid ⟨bidder, aid, t, price, denom, amt⟩ (rdAuction c.s) n L ab).2 = (true, []) := by
  constructor
  · unfold placeBid
    simp only [Ctx.view, hv]
    rfl
  · have hA : rdAuction c.s (aid : Int) = (default, true) := by simp [rdAuction, hv]
    simp [Gen.PlaceBid, hA]

/-- **ModifyBid.**  `hpos`: recorded bids have positive amount and price (`BidWF`), which is what
    makes the difference of the two ceilings non-negative (Go would panic in `sdk.NewCoin`
    otherwise; the model says `.panic` there). -/
theorem tie_ModifyBid (c : Ctx) (bidder : Acc) (aid bidId : Nat) (price : Dec) (denom : Denom) (amt : Int)
    (hacc : validAcc bidder = true) (v : AView) (hv : c.s.views[aid]? = some v)
    (hpos : ∀ b ∈ v.bids, 0 < b.amt ∧ 0 < b.price)
    (hbauc : ∀ b ∈ v.bids, b.auction = v.a.id) :
    modifyBid c bidder aid bidId price denom amt =
      Go.runPlan c aid v (Gen.ModifyBid ⟨bidder, aid, bidId, price, denom, amt⟩ (rdAuction c.s) (rdBid c.s)) := by
  unfold modifyBid Gen.ModifyBid
  have hA : rdAuction c.s (aid : Int) = (v.a, false) := by simp [rdAuction, hv]
  have hfind : v.bids.find? (fun b => decide ((b.id : Int) = (bidId : Int))) = v.bids.find? (·.id == bidId) := by
    congr 1
    funext b
    show decide ((b.id : Int) = (bidId : Int)) = (b.id == bidId)
    rw [Bool.eq_iff_iff]
    simp [Int.ofNat_inj]
  have hBid : rdBid c.s (aid : Int) (bidId : Int) =
      ((v.bids.find? (·.id == bidId)).getD default, (v.bids.find? (·.id == bidId)).isNone) := by
    simp only [rdBid, viewAt_nat, hv, hfind]
  simp only [Ctx.view, hv, okbind, hacc, apply_ite (runPlan c aid v), hA, hBid]
  cases hf : v.bids.find? (·.id == bidId) with
  | none =>
    tie_simp []
    grind
  | some bid =>
    have hp := hpos bid (List.mem_of_find?_eq_some hf)
    have hau := hbauc bid (List.mem_of_find?_eq_some hf)
    have hsb : ∀ b' : Bid, b'.id = bid.id → setBid v.bids b' = v.bids.map (fun x => if x.id == bidId then b' else x) :=
      fun b' hb => setBid_found _ _ _ _ hf hb
    simp only [Option.getD_some, Option.isNone_some, pure_bind]
    -- the difference of the two reservations of a `many` bid, non-negative once the guards passed
    obtain ⟨d, hd⟩ : ∃ d, Dec.truncInt (Dec.ceil (Dec.mul (Dec.ofInt amt) price) - Dec.ceil (Dec.mul (Dec.ofInt bid.amt) bid.price)) = d := ⟨_, rfl⟩
    have hnn : bid.price ≤ price → bid.amt ≤ amt → 0 ≤ d :=
      fun h1 h2 => hd ▸ AcceptAux.diff_many_nonneg bid price amt hp.1 hp.2 h1 h2
    simp only [bidCoin_amt, bidCoin_denom, hd]
    clear hd hf
    obtain ⟨bauc, bidid, bbidder, bt, bprice, bdenom, bamt, bm⟩ := bid
    simp only at hsb hnn hp hau ⊢
    subst hau
    by_cases hden : bdenom = denom
    case neg =>
      cases bt <;> tie_simp [hden] <;> grind
    subst hden
    cases bt with
    | fixed =>
      cases hh : c.hook "BeforeBidModified" [rNat v.a.id, rNat bidid, rAcc bbidder, rBidType BidType.fixed, rInt price, rNat bdenom, rInt amt] <;>
      tie_simp [hh, hsb] <;> grind
    | worth =>
      by_cases hd : amt - bamt > 0
      · have e1 : ¬ amt - bamt < 0 := by omega
        have e2 : ¬ amt - bamt = 0 := by omega
        cases hb : c.bankCall .send (.user bidder) (.pay aid) [⟨bdenom, amt - bamt⟩] with
        | error e => tie_simp [hb, hsb, mkCoins, hd, e1, e2]; try grind
        | ok c1 =>
          cases hh : c1.hook "BeforeBidModified" [rNat v.a.id, rNat bidid, rAcc bbidder, rBidType BidType.worth, rInt price, rNat bdenom, rInt amt] <;>
          tie_simp [hb, hh, hsb, mkCoins, hd, e1, e2] <;> try grind
      · cases hh : c.hook "BeforeBidModified" [rNat v.a.id, rNat bidid, rAcc bbidder, rBidType BidType.worth, rInt price, rNat bdenom, rInt amt] <;>
        tie_simp [hh, hsb, hd] <;> try grind
    | many =>
      by_cases hd : d > 0
      · have e1 : ¬ d < 0 := by omega
        have e2 : ¬ d = 0 := by omega
        cases hb : c.bankCall .send (.user bidder) (.pay aid) [⟨v.a.payDenom, d⟩] with
        | error e => tie_simp [hb, hsb, mkCoins, hd, e1, e2]; try grind
        | ok c1 =>
          cases hh : c1.hook "BeforeBidModified" [rNat v.a.id, rNat bidid, rAcc bbidder, rBidType BidType.many, rInt price, rNat bdenom, rInt amt] <;>
          tie_simp [hb, hh, hsb, mkCoins, hd, e1, e2] <;> try grind
      · by_cases hd0 : d < 0
        · -- the model panics here; the guards that passed exclude it (`hnn`)
          tie_simp [hsb, hd, hd0]
          grind
        · cases hh : c.hook "BeforeBidModified" [rNat v.a.id, rNat bidid, rAcc bbidder, rBidType BidType.many, rInt price, rNat bdenom, rInt amt] <;>
          tie_simp [hh, hsb, hd, hd0] <;> try grind

theorem tie_ModifyBid_noAuction (c : Ctx) (bidder : Acc) (aid bidId : Nat) (price : Dec) (denom : Denom) (amt : Int)
    (hv : c.s.views[aid]? = none) (b : Int → Int → Bid × Bool) :
    modifyBid c bidder aid bidId price denom amt = c.fail ∧
    Gen.ModifyBid ⟨bidder, aid, bidId, price, denom, amt⟩ (rdAuction c.s) b = (true, []) := by
  constructor
  · unfold modifyBid
    simp only [Ctx.view, hv]
    rfl
  · have hA : rdAuction c.s (aid : Int) = (default, true) := by simp [rdAuction, hv]
    simp [Gen.ModifyBid, hA]

end Fundraising
