import Fundraising.Generated.Code.Bids
import Fundraising.Tables.GoRun
import Fundraising.Proofs.Tie.BidsPure
import Fundraising.Proofs.ExecLemmas
/-
  Tie of the translated `Keeper.PlaceBid` / `Keeper.ModifyBid` (keeper/bid.go) to the
  hand-written handlers `placeBid` / `modifyBid` of Model/Keeper.lean: the model handler IS the
  interpretation (`Go.runPlan`, Tables/GoRun.lean) of the plan computed by the code translated
  from the Go source — same guards in the same order, same bank calls with the same amounts, the
  hook before the `Bid.Set`, the same records written.
-/
namespace Fundraising
open Fundraising.Gen Fundraising.Go

theorem setBid_fresh (l : List Bid) (b : Bid) (h : ∀ x ∈ l, x.id ≠ b.id) : setBid l b = l ++ [b] := by
  unfold setBid
  have : l.any (·.id == b.id) = false := by
    simp only [List.any_eq_false, beq_iff_eq]
    exact fun x hx => h x hx
  simp [this]

/-- **PlaceBid.**  `hacc`: `ValidateBasic` has accepted the bidder address; `hfresh`: the next
    bid id is unused (`ViewWF.bidIds`/`bidSeq`); `hL`: `L` is what `GetBidsByBidder` returns (the
    bidder's bids of ALL auctions), of which those of this auction are the ones in its view. -/
theorem tie_PlaceBid (c : Ctx) (bidder : Acc) (aid : Nat) (t : BidType) (price : Dec) (denom : Denom) (amt : Int)
    (hacc : validAcc bidder = true) (L : List Bid) (v : AView) (hv : c.s.views[aid]? = some v)
    (hfresh : ∀ x ∈ v.bids, x.id ≠ v.bidSeq + 1)
    (hL : (L.filter (fun b => decide ((b.auction : Int) = (v.a.id : Int)))) = v.bids.filter (·.bidder == bidder)) :
    placeBid c bidder aid t price denom amt =
       Go.runPlan c aid v (Gen.PlaceBid ⟨bidder, aid, t, price, denom, amt⟩ v.a false ((v.bidSeq + 1 : Nat) : Int) L
          ((lookupAllowed v.allowed bidder).getD default) (lookupAllowed v.allowed bidder).isNone).2 := by
  sorry

/-- an unknown auction id: both reject without any effect -/
theorem tie_PlaceBid_noAuction (c : Ctx) (bidder : Acc) (aid : Nat) (t : BidType) (price : Dec) (denom : Denom) (amt : Int)
    (hv : c.s.views[aid]? = none) (a : Auction) (n : Int) (L : List Bid) (ab : Allowed) (e : Bool) :
    placeBid c bidder aid t price denom amt = c.fail ∧
    (Gen.PlaceBid ⟨bidder, aid, t, price, denom, amt⟩ a true n L ab e).2 = (true, []) := by
  sorry

/-- **ModifyBid.**  `hpos`: recorded bids have positive amount and price (`BidWF`), which is what
    makes the difference of the two ceilings non-negative (Go would panic in `sdk.NewCoin`
    otherwise; the model says `.panic` there). -/
theorem tie_ModifyBid (c : Ctx) (bidder : Acc) (aid bidId : Nat) (price : Dec) (denom : Denom) (amt : Int)
    (hacc : validAcc bidder = true) (v : AView) (hv : c.s.views[aid]? = some v)
    (hpos : ∀ b ∈ v.bids, 0 < b.amt ∧ 0 < b.price) :
    modifyBid c bidder aid bidId price denom amt =
      Go.runPlan c aid v (Gen.ModifyBid ⟨bidder, aid, bidId, price, denom, amt⟩ v.a false
        ((v.bids.find? (·.id == bidId)).getD default) (v.bids.find? (·.id == bidId)).isNone) := by
  sorry

theorem tie_ModifyBid_noAuction (c : Ctx) (bidder : Acc) (aid bidId : Nat) (price : Dec) (denom : Denom) (amt : Int)
    (hv : c.s.views[aid]? = none) (a : Auction) (b : Bid) (e : Bool) :
    modifyBid c bidder aid bidId price denom amt = c.fail ∧
    Gen.ModifyBid ⟨bidder, aid, bidId, price, denom, amt⟩ a true b e = (true, []) := by
  sorry

end Fundraising
