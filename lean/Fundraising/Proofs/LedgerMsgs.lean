import Fundraising.Proofs.LedgerBasic
/-
  The transfers of the message handlers and the keeper-API calls, exactly.
-/
set_option linter.unusedSimpArgs false
set_option linter.unusedVariables false
namespace Fundraising.LedgerInv

/-! ### CreateAuction -/

theorem createAuction_led {c c' : Ctx} {m : CreateMsg} (h : createAuction c m = .ok c') :
    Led c c' [⟨.pool, .user m.auctioneer, .pool, c.s.params.creationFee⟩,
              ⟨.send, .user m.auctioneer, .sell c.s.views.length, if m.sellAmt = 0 then [] else [⟨m.sellDenom, m.sellAmt⟩]⟩] := by
  unfold createAuction at h
  simp only [bind_ok, check_ok, pure_ok] at h
  obtain ⟨_, _, _, _, _, _, c1, hfee, coins, hmk, c2, hsend, c3, hh1, hh2⟩ := h
  obtain ⟨h0, rfl⟩ := mkCoins_ok hmk
  have l1 := (bankCall_led hfee).trans (bankCall_led hsend)
  have l2 := l1.trans_nil (hook_led hh1)
  have l4 := hook_led hh2
  refine Led.trans_nil (Led.trans_nil l2 ?_) l4
  exact Led.of_eqs rfl rfl

/-! ### CancelAuction -/

theorem cancelAuction_led {c c' : Ctx} {signer : Acc} {aid : Nat} (h : cancelAuction c signer aid = .ok c') :
    ∃ coins, Led c c' [⟨.send, .sell aid, .user signer, coins⟩] := by
  unfold cancelAuction at h
  simp only [bind_ok, check_ok, view_ok_iff, pure_ok] at h
  obtain ⟨v, hv, _, hsig, _, hst, coins, hmk, c1, hbc, c2, hhk, rfl⟩ := h
  have hsig : v.a.auctioneer = signer := by simpa using hsig
  rw [hsig] at hbc
  exact ⟨coins, ((bankCall_led hbc).trans_nil (hook_led hhk)).trans_nil (setView_led _ _ _)⟩

/-! ### PlaceBid -/

theorem placeBid_led {c c' : Ctx} {bidder : Acc} {aid : Nat} {t : BidType} {price : Dec} {denom : Denom}
    {amt : Int} (h : placeBid c bidder aid t price denom amt = .ok c') :
    ∃ v, c.s.views[aid]? = some v ∧
      Led c c' [⟨.pool, .user bidder, .pool, c.s.params.bidFee⟩,
        ⟨.send, .user bidder, .pay aid,
          if (⟨aid, v.bidSeq + 1, bidder, t, price, denom, amt, false⟩ : Bid).toPaying v.a.payDenom = 0 then []
          else [⟨v.a.payDenom,
            (⟨aid, v.bidSeq + 1, bidder, t, price, denom, amt, false⟩ : Bid).toPaying v.a.payDenom⟩]⟩] := by
  unfold placeBid at h
  simp only [bind_ok, check_ok, view_ok_iff, pure_ok] at h
  obtain ⟨v, hv, _, hst, _, _, h⟩ := h
  refine ⟨v, hv, ?_⟩
  split at h
  · rename_i ab hab
    simp only [bind_ok, check_ok, view_ok_iff, pure_ok] at h
    obtain ⟨_, rfl, c1, hfee, ⟨c2, a', bid'⟩, hin, c3, hhk, rfl⟩ := h
    have key : Led c1 c2 [⟨.send, .user bidder, .pay aid,
          if (⟨aid, v.bidSeq + 1, bidder, t, price, denom, amt, false⟩ : Bid).toPaying v.a.payDenom = 0 then []
          else [⟨v.a.payDenom,
            (⟨aid, v.bidSeq + 1, bidder, t, price, denom, amt, false⟩ : Bid).toPaying v.a.payDenom⟩]⟩] := by
      cases t with
      | fixed =>
        simp only [bind_ok, check_ok, pure_ok] at hin
        obtain ⟨_, _, _, _, _, _, _, _, _, _, coins, hmk, c2', hbc, heq⟩ := hin
        obtain ⟨_, rfl⟩ := mkCoins_ok hmk
        simp only [Prod.mk.injEq] at heq
        obtain ⟨rfl, _, _⟩ := heq
        exact bankCall_led hbc
      | worth =>
        simp only [bind_ok, check_ok, pure_ok] at hin
        obtain ⟨_, _, _, hd, _, _, coins, hmk, c2', hbc, heq⟩ := hin
        obtain ⟨_, rfl⟩ := mkCoins_ok hmk
        simp only [Prod.mk.injEq] at heq
        obtain ⟨rfl, _, _⟩ := heq
        have hd : denom = v.a.payDenom := by simpa using hd
        have := bankCall_led hbc
        simpa [Bid.toPaying, hd] using this
      | many =>
        simp only [bind_ok, check_ok, pure_ok] at hin
        obtain ⟨_, _, _, _, _, _, coins, hmk, c2', hbc, heq⟩ := hin
        obtain ⟨_, rfl⟩ := mkCoins_ok hmk
        simp only [Prod.mk.injEq] at heq
        obtain ⟨rfl, _, _⟩ := heq
        exact bankCall_led hbc
    exact (((bankCall_led hfee).trans key).trans_nil (hook_led hhk)).trans_nil (setView_led _ _ _)
  · simp only [bind_ok, fail_ok, false_and, exists_false] at h

/-! ### ModifyBid -/

theorem modifyBid_led {c c' : Ctx} {bidder : Acc} {aid bidId : Nat} {price : Dec} {denom : Denom}
    {amt : Int} (h : modifyBid c bidder aid bidId price denom amt = .ok c') :
    Led c c' [] ∨ ∃ d x, 0 < x ∧ Led c c' [⟨.send, .user bidder, .pay aid, [⟨d, x⟩]⟩] := by
  unfold modifyBid at h
  simp only [bind_ok, check_ok, view_ok_iff, pure_ok] at h
  obtain ⟨v, hv, _, _, _, _, h⟩ := h
  split at h
  · rename_i bid hbid
    simp only [bind_ok, check_ok, view_ok_iff, pure_ok] at h
    obtain ⟨_, rfl, _, _, _, _, _, _, _, _, _, _, c1, hin, c2, hhk, rfl⟩ := h
    have key : Led c c1 [] ∨ ∃ d x, 0 < x ∧ Led c c1 [⟨.send, .user bidder, .pay aid, [⟨d, x⟩]⟩] := by
      split at hin
      · split at hin
        · rename_i hpos
          exact Or.inr ⟨_, _, hpos, bankCall_led hin⟩
        · rw [pure_ok] at hin; subst hin; exact Or.inl (Led.refl _)
      · split at hin
        · exact (fail_ok.mp hin).elim
        · split at hin
          · rename_i hpos
            exact Or.inr ⟨_, _, hpos, bankCall_led hin⟩
          · rw [pure_ok] at hin; subst hin; exact Or.inl (Led.refl _)
      · rw [pure_ok] at hin; subst hin; exact Or.inl (Led.refl _)
    have tail : ∀ w, Led c1 (c2.setView aid w) [] := fun w => (hook_led hhk).trans_nil (setView_led _ _ w)
    rcases key with k | ⟨d, x, hx, k⟩
    · exact Or.inl (k.trans_nil (tail _))
    · exact Or.inr ⟨d, x, hx, k.trans_nil (tail _)⟩
  · simp only [bind_ok, fail_ok, false_and, exists_false] at h

/-! ### keeper API -/

theorem addAllowedBidders_led {c c' : Ctx} {aid : Nat} {abs : List AllowedArg}
    (h : addAllowedBidders c aid abs = .ok c') : Led c c' [] := by
  unfold addAllowedBidders at h
  simp only [bind_ok, check_ok, view_ok_iff, pure_ok] at h
  obtain ⟨_, _, v, hv, c1, hhk, l, _, rfl⟩ := h
  exact (hook_led hhk).trans_nil (setView_led _ _ _)

theorem updateAllowedBidder_led {c c' : Ctx} {aid : Nat} {bidder : Acc} {cap : Int}
    (h : updateAllowedBidder c aid bidder cap = .ok c') : Led c c' [] := by
  unfold updateAllowedBidder at h
  simp only [bind_ok, check_ok, view_ok_iff, pure_ok] at h
  obtain ⟨v, hv, _, _, _, _, c1, hhk, rfl⟩ := h
  exact (hook_led hhk).trans_nil (setView_led _ _ _)

theorem addAllowed_led {c c' : Ctx} {aid : Nat} {ab : AllowedArg}
    (h : handle c (.addAllowed aid ab) = .ok c') : Led c c' [] := by
  simp only [handle, bind_ok, check_ok] at h
  obtain ⟨_, _, h⟩ := h
  exact addAllowedBidders_led h

theorem updateParams_led {c c' : Ctx} {signer : Acc} {p : Params}
    (h : handle c (.updateParams signer p) = .ok c') : Led c c' [] := by
  simp only [handle, bind_ok, check_ok, pure_ok] at h
  obtain ⟨_, _, _, _, _, _, rfl⟩ := h
  exact Led.of_eqs rfl rfl

/-- every successful message is accounted for by its logged transfers -/
theorem deliver_led {c c' : Ctx} {m : Msg} (h : deliver c m = .ok c') : ∃ xs, Led c c' xs := by
  unfold deliver at h
  simp only [bind_ok, check_ok] at h
  obtain ⟨_, _, h⟩ := h
  cases m with
  | create m => exact ⟨_, createAuction_led h⟩
  | cancel signer aid =>
    obtain ⟨coins, hl⟩ := cancelAuction_led h
    exact ⟨_, hl⟩
  | place bidder aid t price denom amt =>
    cases t with
    | none => exact (fail_ok.mp h).elim
    | some t =>
      obtain ⟨v, _, hl⟩ := placeBid_led h
      exact ⟨_, hl⟩
  | modify bidder aid bidId price denom amt =>
    rcases modifyBid_led h with hl | ⟨d, x, _, hl⟩
    · exact ⟨_, hl⟩
    · exact ⟨_, hl⟩
  | addAllowed aid ab => exact ⟨_, addAllowed_led h⟩
  | updateParams signer p => exact ⟨_, updateParams_led h⟩

/-- `deliver` = `ValidateBasic` + handler -/
theorem deliver_ok {c c' : Ctx} {m : Msg} (h : deliver c m = .ok c') :
    validateBasic m = true ∧ handle c m = .ok c' := by
  unfold deliver at h
  simp only [bind_ok, check_ok] at h
  obtain ⟨_, hv, h⟩ := h
  exact ⟨hv, h⟩

end Fundraising.LedgerInv
