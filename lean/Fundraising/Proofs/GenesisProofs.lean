import Fundraising.Spec.Invariants
import Fundraising.Proofs.VestingLemmas
/-
  C15 — export / validate / import of a well-formed state.
  STATEMENTS ARE FIXED (cited by Props/C15.lean and by Proofs/WFProofs.lean).
-/
namespace Fundraising

/-- the exported genesis of a well-formed state passes `GenesisState.Validate` -/
theorem export_validates (s : Core) (h : WF s) : validateGenesis (exportGenesis s) = true := by
  sorry

/-- importing the exported genesis into an empty store rebuilds every collection exactly:
    auctions with their ids, allow-lists, bids with their ids and `BidSeq`, vesting queues,
    and `MatchedBidsLen` (not exported, rebuilt from the flags) -/
theorem import_export (s : Core) (h : WF s) : initGenesis (exportGenesis s) = some s.views := by
  sorry

/-- hence the `genesis` operation (export → validate → wipe → import) is the identity on
    well-formed states -/
theorem reimport_eq (s : Core) (h : WF s) : reimport s = .ok s := by
  sorry

end Fundraising
