import Fundraising.Spec.Invariants
import Fundraising.Proofs.VestingLemmas
/-
  C15 — export / validate / import of a well-formed state.
  STATEMENTS ARE FIXED (cited by Props/C15.lean and by Proofs/WFProofs.lean).
-/
namespace Fundraising

/-! ### generic list lemmas -/

theorem noDup_iff {α : Type} [DecidableEq α] (l : List α) : noDup l = true ↔ l.Nodup := by
  induction l with
  | nil => simp [noDup]
  | cons x xs ih => simp [noDup, ih, List.nodup_cons]

theorem foldlM_modifyView {β : Type} (tgt : β → Nat) (f : β → AView → AView) :
    ∀ (l : List β) (init : List AView), (∀ p ∈ l, tgt p < init.length) →
      l.foldlM (fun vs p => modifyView vs (tgt p) (f p)) init =
        some (init.mapIdx (fun i v => (l.filter (fun p => tgt p == i)).foldl (fun v p => f p v) v)) := by
  intro l
  induction l with
  | nil =>
    intro init _
    simp only [List.foldlM_nil, List.filter_nil, List.foldl_nil]
    congr 1
    apply List.ext_getElem?
    intro i
    simp [List.getElem?_mapIdx]
  | cons p rest ih =>
    intro init h
    have hk : tgt p < init.length := h p (by simp)
    rw [List.foldlM_cons]
    have hm : modifyView init (tgt p) (f p) = some (init.set (tgt p) (f p init[tgt p])) := by
      simp only [modifyView, List.getElem?_eq_getElem hk]
    rw [hm]
    show (rest.foldlM _ _) = _
    rw [ih _ (by intro q hq; simpa using h q (by simp [hq]))]
    congr 1
    apply List.ext_getElem?
    intro i
    simp only [List.getElem?_mapIdx, List.getElem?_set]
    by_cases hi : tgt p = i
    · subst hi
      simp [hk]
    · simp [hi]

theorem filter_flatMap_idx {α β : Type} (key : α → Nat) (g : α → List β) (tgt : β → Nat) :
    ∀ (vs : List α) (k0 : Nat), (∀ j v, vs[j]? = some v → key v = k0 + j) →
      (∀ v ∈ vs, ∀ x ∈ g v, tgt x = key v) →
      ∀ j v, vs[j]? = some v → (vs.flatMap g).filter (fun x => tgt x == k0 + j) = g v := by
  intro vs
  induction vs with
  | nil => intro k0 _ _ j v h; simp at h
  | cons w ws ih =>
    intro k0 hkey hg j v hj
    have hw : key w = k0 := by simpa using hkey 0 w (by simp)
    have hkey' : ∀ j v, ws[j]? = some v → key v = (k0 + 1) + j := by
      intro j v h
      have := hkey (j+1) v (by simpa using h)
      omega
    have hg' : ∀ v ∈ ws, ∀ x ∈ g v, tgt x = key v := fun v hv => hg v (by simp [hv])
    rw [List.flatMap_cons, List.filter_append]
    cases j with
    | zero =>
      have : v = w := by simpa using hj.symm
      subst this
      have h1 : (g v).filter (fun x => tgt x == k0 + 0) = g v := by
        rw [List.filter_eq_self]
        intro x hx
        simp [hg v (by simp) x hx, hw]
      have h2 : (ws.flatMap g).filter (fun x => tgt x == k0 + 0) = [] := by
        rw [List.filter_eq_nil_iff]
        intro x hx
        obtain ⟨b, hb, hxb⟩ := List.mem_flatMap.mp hx
        obtain ⟨n, hn⟩ := List.getElem?_of_mem hb
        have := hkey' n b hn
        have := hg' b hb x hxb
        simp; omega
      rw [h1, h2]; simp
    | succ j =>
      have hj' : ws[j]? = some v := by simpa using hj
      have h1 : (g w).filter (fun x => tgt x == k0 + (j+1)) = [] := by
        rw [List.filter_eq_nil_iff]
        intro x hx
        have := hg w (by simp) x hx
        simp; omega
      have := ih (k0+1) hkey' hg' j v hj'
      rw [h1, show k0 + (j+1) = k0 + 1 + j by omega, this]; simp

/-! ### per-view folds of `InitGenesis` -/

theorem upsertBy_append_last {α : Type} (key : α → Int) (x : α) :
    ∀ l : List α, (∀ y ∈ l, key y < key x) → upsertBy key x l = l ++ [x] := by
  intro l
  induction l with
  | nil => intro _; rfl
  | cons y ys ih =>
    intro h
    have hy : key y < key x := h y (by simp)
    simp only [upsertBy]
    rw [if_neg (by omega), if_neg (by omega), ih (fun z hz => h z (by simp [hz]))]
    rfl

theorem foldl_upsertBy_sorted {α : Type} (key : α → Int) :
    ∀ (rest pre : List α), ((pre ++ rest).map key).Pairwise (· < ·) →
      rest.foldl (fun acc x => upsertBy key x acc) pre = pre ++ rest := by
  intro rest
  induction rest with
  | nil => intro pre _; simp
  | cons x xs ih =>
    intro pre h
    have hx : ∀ y ∈ pre, key y < key x := by
      intro y hy
      rw [List.map_append, List.pairwise_append] at h
      exact h.2.2 (key y) (List.mem_map_of_mem hy) (key x) (by simp)
    rw [List.foldl_cons, upsertBy_append_last key x pre hx, ih (pre ++ [x]) (by simpa using h)]
    simp

def genSetAllowed (p : Nat × Allowed) (v : AView) : AView := { v with allowed := setAllowed v.allowed p.2 }
def genAppendBid (b : Bid) (v : AView) : AView :=
  let id := v.bidSeq + 1
  { v with bids := v.bids ++ [{ b with id := id }], bidSeq := id }
def genSetVQ (q : VQ) (v : AView) : AView := { v with vqs := setVQ v.vqs q }
def genFinish (v : AView) : AView :=
  if v.a.type = .batch then { v with matchedLen := countMatched v.bids } else v

theorem foldl_fA (l : List (Nat × Allowed)) : ∀ v : AView,
    l.foldl (fun v p => genSetAllowed p v) v =
      { v with allowed := (l.map (·.2)).foldl (fun acc x => setAllowed acc x) v.allowed } := by
  induction l with
  | nil => intro v; rfl
  | cons p ps ih => intro v; simp only [List.foldl_cons, ih, List.map_cons]; rfl

theorem foldl_fQ (l : List VQ) : ∀ v : AView,
    l.foldl (fun v q => genSetVQ q v) v =
      { v with vqs := l.foldl (fun acc x => setVQ acc x) v.vqs } := by
  induction l with
  | nil => intro v; rfl
  | cons p ps ih => intro v; simp only [List.foldl_cons, ih]; rfl

theorem foldl_fB (l : List Bid) : ∀ v : AView,
    l.map (·.id) = List.range' (v.bidSeq + 1) l.length →
    l.foldl (fun v b => genAppendBid b v) v =
      { v with bids := v.bids ++ l, bidSeq := v.bidSeq + l.length } := by
  induction l with
  | nil => intro v _; simp
  | cons b bs ih =>
    intro v h
    simp only [List.map_cons, List.length_cons, List.range'_succ, List.cons.injEq] at h
    rw [List.foldl_cons, ih (genAppendBid b v) (by simpa [genAppendBid] using h.2)]
    have : ({ b with id := v.bidSeq + 1 } : Bid) = b := by
      cases b; simp only [Bid.mk.injEq, and_true, true_and]; exact h.1.symm
    simp only [genAppendBid, this, List.length_cons, List.append_assoc, List.singleton_append]
    congr 1; omega

theorem sched_sorted (a : Auction) (h : AuctionWF a) :
    (a.schedules.map (·.release)).Pairwise (· < ·) := by
  by_cases hne : a.schedules = []
  · simp [hne]
  · exact (validSchedules_spec _ _ hne h.sched).2.2

theorem vqs_sorted (i : Nat) (v : AView) (h : ViewWF i v) :
    (v.vqs.map (·.release)).Pairwise (· < ·) := by
  cases hs : v.a.status with
  | standby => simp [h.vqsNone (by simp [hs])]
  | started => simp [h.vqsNone (by simp [hs])]
  | cancelled => simp [h.vqsNone (by simp [hs])]
  | vesting => rw [h.vqsSome (by simp [hs])]; exact sched_sorted _ h.auction
  | finished => rw [h.vqsSome (by simp [hs])]; exact sched_sorted _ h.auction

theorem rebuild_view (i : Nat) (v : AView) (h : ViewWF i v) :
    genFinish (v.vqs.foldl (fun v q => genSetVQ q v)
      (v.bids.foldl (fun v b => genAppendBid b v)
        ((v.allowed.map (fun x => (v.a.id, x))).foldl (fun v p => genSetAllowed p v) ({ a := v.a } : AView)))) = v := by
  rw [foldl_fA]
  simp only [List.map_map, Function.comp_def, List.map_id']
  have hA : v.allowed.foldl (fun acc x => setAllowed acc x) [] = v.allowed := by
    have := foldl_upsertBy_sorted (fun a : Allowed => (a.bidder : Int)) v.allowed [] (by
      simp only [List.nil_append]
      have := h.allowedSorted
      rw [List.pairwise_map] at this ⊢
      exact this.imp (by intro a b hab; unfold Acc at *; omega))
    simpa [setAllowed] using this
  rw [hA]
  rw [foldl_fB _ _ (by
    simp only [Nat.zero_add]
    rw [h.bidIds, List.range'_eq_map_range]
    apply List.map_congr_left; intro a _; omega)]
  rw [foldl_fQ]
  have hQ : v.vqs.foldl (fun acc x => setVQ acc x) [] = v.vqs := by
    have := foldl_upsertBy_sorted (fun q : VQ => q.release) v.vqs [] (by
      simpa using vqs_sorted i v h)
    simpa [setVQ] using this
  simp only [hQ, List.nil_append, Nat.zero_add]
  unfold genFinish
  cases v with
  | mk a allowed bids vqs matchedLen bidSeq =>
    simp only at h ⊢
    have h1 := h.bidSeq
    have h2 := h.matchedLenBatch
    have h3 := h.matchedLenFixed
    simp only at h1 h2 h3
    cases ht : a.type with
    | batch => simp [h2 ht, h1]
    | fixed => simp [h3 ht, h1]

/-! ### import ∘ export -/

theorem filter_flatMap_views (vs : List AView) {β : Type} (g : AView → List β) (tgt : β → Nat)
    (hkey : ∀ (j : Nat) (v : AView), vs[j]? = some v → v.a.id = j)
    (hg : ∀ v ∈ vs, ∀ x ∈ g v, tgt x = v.a.id) (i : Nat) (v : AView) (hv : vs[i]? = some v) :
    (vs.flatMap g).filter (fun x => tgt x == i) = g v := by
  have := filter_flatMap_idx (fun v : AView => v.a.id) g tgt vs 0
    (by intro j v h; simpa using hkey j v h) hg i v hv
  simpa using this

theorem tgt_lt_of_flatMap (vs : List AView) {β : Type} (g : AView → List β) (tgt : β → Nat)
    (hkey : ∀ (j : Nat) (v : AView), vs[j]? = some v → v.a.id = j)
    (hg : ∀ v ∈ vs, ∀ x ∈ g v, tgt x = v.a.id) : ∀ x ∈ vs.flatMap g, tgt x < vs.length := by
  intro x hx
  obtain ⟨b, hb, hxb⟩ := List.mem_flatMap.mp hx
  obtain ⟨n, hn⟩ := List.getElem?_of_mem hb
  rw [hg b hb x hxb, hkey n b hn]
  exact (List.getElem?_eq_some_iff.mp hn).1

theorem initGenesis_eq (g : Genesis) : initGenesis g =
    ((g.allowed.foldlM (fun vs p => modifyView vs p.1 (genSetAllowed p))
        (g.auctions.zipIdx.map (fun p => ({ a := { p.1 with id := p.2 } } : AView)))).bind fun v1 =>
      (g.bids.foldlM (fun vs b => modifyView vs b.auction (genAppendBid b)) v1).bind fun v2 =>
      (g.vqs.foldlM (fun vs q => modifyView vs q.auction (genSetVQ q)) v2).bind fun v3 =>
      some (v3.map genFinish)) := rfl

theorem import_export_aux (s : Core) (h : WF s) : initGenesis (exportGenesis s) = some s.views := by
  have hkey : ∀ (j : Nat) (v : AView), s.views[j]? = some v → v.a.id = j := fun j v hv => (h.views j v hv).id
  have hwf : ∀ v ∈ s.views, ∃ j, ViewWF j v := by
    intro v hv
    obtain ⟨n, hn⟩ := List.getElem?_of_mem hv
    exact ⟨n, h.views n v hn⟩
  have hgA : ∀ v ∈ s.views, ∀ x ∈ v.allowed.map (fun x => (v.a.id, x)), x.1 = v.a.id := by
    intro v _ x hx
    obtain ⟨y, _, rfl⟩ := List.mem_map.mp hx
    rfl
  have hgB : ∀ v ∈ s.views, ∀ b ∈ v.bids, b.auction = v.a.id := by
    intro v hv b hb
    obtain ⟨j, hj⟩ := hwf v hv
    exact (hj.bids b hb).auction
  have hgQ : ∀ v ∈ s.views, ∀ q ∈ v.vqs, q.auction = v.a.id := by
    intro v hv q hq
    obtain ⟨j, hj⟩ := hwf v hv
    rw [hj.id]; exact (hj.vqsWF q hq).2.2.2
  -- step 1
  have h0 : ((s.views.map (·.a)).zipIdx.map (fun p => ({ a := { p.1 with id := p.2 } } : AView)))
      = s.views.map (fun v => ({ a := v.a } : AView)) := by
    apply List.ext_getElem?
    intro i
    simp only [List.getElem?_map, List.getElem?_zipIdx]
    cases hv : s.views[i]? with
    | none => simp
    | some v =>
      have := hkey i v hv
      simp only [Option.map_some, Nat.zero_add]
      rw [← this]
  have e1 := foldlM_modifyView (fun p : Nat × Allowed => p.1) genSetAllowed
    (s.views.flatMap (fun v => v.allowed.map (fun x => (v.a.id, x))))
    (s.views.map (fun v => ({ a := v.a } : AView)))
    (by simpa using tgt_lt_of_flatMap s.views _ _ hkey hgA)
  have e2 := fun (init : List AView) (hl : init.length = s.views.length) => foldlM_modifyView (fun b : Bid => b.auction) genAppendBid
    (s.views.flatMap (·.bids)) init
    (by rw [hl]; exact tgt_lt_of_flatMap s.views _ _ hkey hgB)
  have e3 := fun (init : List AView) (hl : init.length = s.views.length) => foldlM_modifyView (fun q : VQ => q.auction) genSetVQ
    (s.views.flatMap (·.vqs)) init
    (by rw [hl]; exact tgt_lt_of_flatMap s.views _ _ hkey hgQ)
  rw [initGenesis_eq]
  simp only [exportGenesis]
  rw [h0, e1, Option.bind_some, e2 _ (by simp), Option.bind_some, e3 _ (by simp), Option.bind_some]
  congr 1
  apply List.ext_getElem?
  intro i
  simp only [List.getElem?_map, List.getElem?_mapIdx]
  cases hv : s.views[i]? with
  | none => simp
  | some v =>
    simp only [Option.map_some]
    rw [filter_flatMap_views s.views _ _ hkey hgA i v hv,
      filter_flatMap_views s.views _ _ hkey hgB i v hv,
      filter_flatMap_views s.views _ _ hkey hgQ i v hv]
    rw [rebuild_view i v (h.views i v hv)]

/-! ### validate ∘ export -/

theorem nodup_map_flatMap {α β γ : Type} (key : α → Nat) (g : α → List β) (k : β → Nat × γ) :
    ∀ vs : List α, vs.Pairwise (fun a b => key a < key b) →
      (∀ v ∈ vs, ∀ x ∈ g v, (k x).1 = key v) →
      (∀ v ∈ vs, ((g v).map k).Nodup) → ((vs.flatMap g).map k).Nodup := by
  intro vs
  induction vs with
  | nil => intro _ _ _; simp
  | cons w ws ih =>
    intro hp hg hnd
    rw [List.pairwise_cons] at hp
    rw [List.flatMap_cons, List.map_append, List.Nodup, List.pairwise_append]
    refine ⟨hnd w (by simp), ih hp.2 (fun v hv => hg v (by simp [hv])) (fun v hv => hnd v (by simp [hv])), ?_⟩
    intro a ha b hb hab
    obtain ⟨x, hx, rfl⟩ := List.mem_map.mp ha
    obtain ⟨y, hy, rfl⟩ := List.mem_map.mp hb
    obtain ⟨v, hv, hyv⟩ := List.mem_flatMap.mp hy
    have h1 := hg w (by simp) x hx
    have h2 := hg v (by simp [hv]) y hyv
    have h3 := hp.1 v hv
    rw [hab] at h1
    omega

theorem nodup_pair_of_pairwise {β γ : Type} (r : γ → γ → Prop) (hr : ∀ a, ¬ r a a) (f : β → γ)
    (c : β → Nat) (l : List β) (h : (l.map f).Pairwise r) :
    (l.map (fun x => (c x, f x))).Nodup := by
  rw [List.pairwise_map] at h
  rw [List.Nodup, List.pairwise_map]
  refine h.imp ?_
  intro a b hab heq
  have h2 : f a = f b := congrArg Prod.snd heq
  rw [h2] at hab
  exact hr _ hab

theorem views_pairwise (s : Core) (h : WF s) : s.views.Pairwise (fun a b => a.a.id < b.a.id) := by
  rw [List.pairwise_iff_getElem]
  intro i j hi hj hij
  rw [(h.views i _ (List.getElem?_eq_getElem hi)).id, (h.views j _ (List.getElem?_eq_getElem hj)).id]
  exact hij

theorem auction_validate (a : Auction) (h : AuctionWF a) : a.validate = true := by
  unfold Auction.validate
  have h1 := h.auctioneer
  have h2 := h.pricePos
  have h3 := h.sellPos
  have h4 := h.denomNe
  have h5 := h.sellDenomOk
  have h6 := h.payDenomOk
  have h7 := h.sched
  have h8 := h.endNonempty
  cases he : a.endTimes with
  | nil => exact absurd he h8
  | cons e es =>
    rw [he] at h7
    simp only [List.headD_cons] at h7
    simp [h1, h2, h5, h6, h7, validCoin, h4, Int.le_of_lt h3]

theorem export_validates_aux (s : Core) (h : WF s) : validateGenesis (exportGenesis s) = true := by
  have hwf : ∀ v ∈ s.views, ∃ j, ViewWF j v := by
    intro v hv
    obtain ⟨n, hn⟩ := List.getElem?_of_mem hv
    exact ⟨n, h.views n v hn⟩
  have hpw := views_pairwise s h
  unfold validateGenesis exportGenesis
  simp only [Bool.and_eq_true, noDup_iff]
  refine ⟨⟨⟨⟨⟨⟨⟨⟨⟨?_, ?_⟩, ?_⟩, ?_⟩, ?_⟩, ?_⟩, ?_⟩, ?_⟩, h.params.1⟩, h.params.2⟩
  · -- allowed: no duplicates
    apply nodup_map_flatMap (fun v : AView => v.a.id) _ _ _ hpw
    · intro v _ x hx
      obtain ⟨y, _, rfl⟩ := List.mem_map.mp hx
      rfl
    · intro v hv
      obtain ⟨j, hj⟩ := hwf v hv
      rw [List.map_map]
      exact nodup_pair_of_pairwise (· < ·) (fun a => Nat.lt_irrefl a) (fun x : Allowed => x.bidder)
        (fun _ => v.a.id) v.allowed hj.allowedSorted
  · -- allowed: valid
    rw [List.all_eq_true]
    intro p hp
    obtain ⟨v, hv, hpv⟩ := List.mem_flatMap.mp hp
    obtain ⟨x, hx, rfl⟩ := List.mem_map.mp hpv
    obtain ⟨j, hj⟩ := hwf v hv
    have := hj.caps x hx
    simp [this.1, this.2]
  · -- vqs: no duplicates
    apply nodup_map_flatMap (fun v : AView => v.a.id) _ _ _ hpw
    · intro v hv q hq
      obtain ⟨j, hj⟩ := hwf v hv
      rw [hj.id]; exact (hj.vqsWF q hq).2.2.2
    · intro v hv
      obtain ⟨j, hj⟩ := hwf v hv
      exact nodup_pair_of_pairwise (· < ·) (fun a => Int.lt_irrefl a) (fun q : VQ => q.release)
        (fun q => q.auction) v.vqs (vqs_sorted j v hj)
  · -- vqs: valid
    rw [List.all_eq_true]
    intro q hq
    obtain ⟨v, hv, hqv⟩ := List.mem_flatMap.mp hq
    obtain ⟨j, hj⟩ := hwf v hv
    obtain ⟨h1, h2, h3, _⟩ := hj.vqsWF q hqv
    simp [validCoin, h1, h2, h3, hj.auction.auctioneer, hj.auction.payDenomOk]
  · -- bids: no duplicates
    apply nodup_map_flatMap (fun v : AView => v.a.id) _ _ _ hpw
    · intro v hv b hb
      obtain ⟨j, hj⟩ := hwf v hv
      exact (hj.bids b hb).auction
    · intro v hv
      obtain ⟨j, hj⟩ := hwf v hv
      refine nodup_pair_of_pairwise (· ≠ ·) (fun a h => h rfl) (fun b : Bid => b.id)
        (fun b => b.auction) v.bids ?_
      rw [hj.bidIds]
      have : ((List.range v.bids.length).map (· + 1)) = List.range' 1 v.bids.length := by
        rw [List.range'_eq_map_range]
        apply List.map_congr_left; intro a _; omega
      rw [this]
      exact List.nodup_range'
  · -- bids: valid
    rw [List.all_eq_true]
    intro b hb
    obtain ⟨v, hv, hbv⟩ := List.mem_flatMap.mp hb
    obtain ⟨j, hj⟩ := hwf v hv
    have hb := hj.bids b hbv
    have hd : validDenom b.denom = true := by
      cases ht : v.a.type with
      | fixed =>
        rcases (hb.fixed ht).2.2 with e | e <;> rw [e]
        · exact hj.auction.payDenomOk
        · exact hj.auction.sellDenomOk
      | batch =>
        rcases hb.batch ht with ⟨_, e⟩ | ⟨_, e⟩ <;> rw [e]
        · exact hj.auction.payDenomOk
        · exact hj.auction.sellDenomOk
    have h1 := hb.bidder
    have h2 := hb.price
    have h3 := hb.amt
    simp [validCoin, hd, h1, h2, h3, Int.le_of_lt h3]
  · -- auctions: no duplicates
    rw [List.map_map, List.Nodup, List.pairwise_map]
    exact hpw.imp (by intro a b hab; simp only [Function.comp]; omega)
  · -- auctions: valid
    rw [List.all_eq_true]
    intro a ha
    obtain ⟨v, hv, rfl⟩ := List.mem_map.mp ha
    obtain ⟨j, hj⟩ := hwf v hv
    exact auction_validate _ hj.auction

/-- the exported genesis of a well-formed state passes `GenesisState.Validate` -/
theorem export_validates (s : Core) (h : WF s) : validateGenesis (exportGenesis s) = true :=
  export_validates_aux s h

/-- importing the exported genesis into an empty store rebuilds every collection exactly:
    auctions with their ids, allow-lists, bids with their ids and `BidSeq`, vesting queues,
    and `MatchedBidsLen` (not exported, rebuilt from the flags) -/
theorem import_export (s : Core) (h : WF s) : initGenesis (exportGenesis s) = some s.views :=
  import_export_aux s h

/-- hence the `genesis` operation (export → validate → wipe → import) is the identity on
    well-formed states -/
theorem reimport_eq (s : Core) (h : WF s) : reimport s = .ok s := by
  unfold reimport
  simp only [export_validates s h, import_export s h, Bool.not_true, Bool.false_eq_true, if_false]
  rfl

end Fundraising
