import Fundraising.Spec.Frame
import Fundraising.Proofs.ExecLemmas
/-
  Frame infrastructure (C08/C10–C13/C19): inversion of `do` blocks, the footprint `FP aid`
  of a successful handler that works on auction `aid`, reflexivity of `ViewStep`.
  Helper names live in `Fundraising.Frame` (other proof files have their own copies of the
  `Except` plumbing under `Fundraising`).
-/
set_option linter.unusedSimpArgs false
set_option linter.unusedVariables false
namespace Fundraising.Frame

/-! ### `Except` plumbing -/

theorem bind_ok {ε α β : Type} {x : Except ε α} {f : α → Except ε β} {b : β} :
    (x >>= f) = Except.ok b ↔ ∃ a, x = .ok a ∧ f a = .ok b := by
  cases x with
  | error e => simp [bind, Except.bind]
  | ok a => simp [bind, Except.bind]

theorem pure_ok {ε α : Type} {a b : α} : (pure a : Except ε α) = Except.ok b ↔ a = b := by
  simp [pure, Except.pure]

theorem fail_ok {α : Type} {c : Ctx} {e : Err} {b : α} : (c.fail e : M α) = Except.ok b ↔ False := by
  simp [Ctx.fail]

theorem check_ok {c : Ctx} {b : Bool} {u : Unit} : c.check b = Except.ok u ↔ b = true :=
  check_ok_iff

theorem status_of_beq {a b : Status} (h : (a == b) = true) : a = b := by
  simpa using h

theorem lt_of_get {α : Type} {l : List α} {i : Nat} {v : α} (h : l[i]? = some v) : i < l.length := by
  rcases Nat.lt_or_ge i l.length with h1 | h1
  · exact h1
  · rw [List.getElem?_eq_none h1] at h; cases h

/-! ### escrow addresses -/

/-- index of the auction an escrow address belongs to -/
def esc : Addr → Option Nat
  | .sell a => some a
  | .pay a => some a
  | .vest a => some a
  | _ => none

/-- `x` is a user, the pool, or an escrow of auction `aid` -/
def Loc (aid : Nat) (x : Addr) : Prop := ∀ j, esc x = some j → j = aid

theorem loc_user (aid : Nat) (u : Acc) : Loc aid (.user u) := by intro j h; simp [esc] at h
theorem loc_pool (aid : Nat) : Loc aid .pool := by intro j h; simp [esc] at h
theorem loc_sell (aid : Nat) : Loc aid (.sell aid) := by intro j h; simp [esc] at h; exact h.symm
theorem loc_pay (aid : Nat) : Loc aid (.pay aid) := by intro j h; simp [esc] at h; exact h.symm
theorem loc_vest (aid : Nat) : Loc aid (.vest aid) := by intro j h; simp [esc] at h; exact h.symm

/-- the escrows of every auction other than `aid` hold the same -/
def OtherEsc (aid : Nat) (b b' : Bank) : Prop :=
  ∀ x j, esc x = some j → j ≠ aid → ∀ d, b' x d = b x d

theorem OtherEsc.refl (aid : Nat) (b : Bank) : OtherEsc aid b b := fun _ _ _ _ _ => rfl

theorem OtherEsc.trans {aid : Nat} {b b' b'' : Bank} (h1 : OtherEsc aid b b') (h2 : OtherEsc aid b' b'') :
    OtherEsc aid b b'' := fun x j hx hj d => (h2 x j hx hj d).trans (h1 x j hx hj d)

theorem OtherEsc.same {aid j : Nat} {s s' : Core} (h : OtherEsc aid s.bank s'.bank) (hj : j ≠ aid) :
    SameEscrows s s' j :=
  fun d => ⟨h (.sell j) j rfl hj d, h (.pay j) j rfl hj d, h (.vest j) j rfl hj d⟩

theorem sameEscrows_refl (s : Core) (j : Nat) : SameEscrows s s j := fun _ => ⟨rfl, rfl, rfl⟩

theorem sameEscrows_of_bank {s s' : Core} (h : s'.bank = s.bank) (j : Nat) : SameEscrows s s' j := by
  intro d; rw [h]; exact ⟨rfl, rfl, rfl⟩

theorem SameEscrows.trans {s s' s'' : Core} {j : Nat} (h1 : SameEscrows s s' j) (h2 : SameEscrows s' s'' j) :
    SameEscrows s s'' j := fun d =>
  ⟨(h2 d).1.trans (h1 d).1, (h2 d).2.1.trans (h1 d).2.1, (h2 d).2.2.trans (h1 d).2.2⟩

/-! ### bank primitives -/

theorem move_zero (b : Bank) (src dst : Addr) (d : Denom) : b.move src dst d 0 = b := by
  funext a d'
  simp [Bank.move]

theorem sendCoins_mk {b b' : Bank} {src dst : Addr} {d : Denom} {amt : Int}
    (h : b.sendCoins src dst (if amt = 0 then [] else [⟨d, amt⟩]) = some b') :
    b' = b.move src dst d amt := by
  by_cases h0 : amt = 0
  · subst h0
    simp only [if_true, Bank.sendCoins, Option.some.injEq] at h
    subst h
    exact (move_zero b src dst d).symm
  · rw [if_neg h0, sendCoins_single] at h
    by_cases hlt : b src d < amt
    · simp [hlt] at h
    · simp only [hlt, if_false, Option.some.injEq] at h
      exact h.symm

/-- a multi-coin send touches only its two endpoints -/
theorem sendCoins_frame {src dst : Addr} : ∀ {coins : List Coin} {b b' : Bank},
    b.sendCoins src dst coins = some b' → ∀ x, x ≠ src → x ≠ dst → ∀ d, b' x d = b x d := by
  intro coins
  induction coins with
  | nil =>
    intro b b' h x _ _ d
    simp only [Bank.sendCoins, Option.some.injEq] at h
    rw [h]
  | cons c cs ih =>
    intro b b' h x hs hd d
    simp only [Bank.sendCoins] at h
    by_cases hlt : b src c.denom < c.amt
    · simp [hlt] at h
    · simp only [hlt, if_false] at h
      rw [ih h x hs hd d, move_apply]
      simp [hs, hd]

theorem sendCoins_other {aid : Nat} {src dst : Addr} {coins : List Coin} {b b' : Bank}
    (hs : Loc aid src) (hd : Loc aid dst) (h : b.sendCoins src dst coins = some b') :
    OtherEsc aid b b' := by
  intro x j hx hj d
  apply sendCoins_frame h
  · intro e; subst e; exact hj (hs j hx)
  · intro e; subst e; exact hj (hd j hx)

theorem move_other {aid : Nat} {src dst : Addr} (b : Bank) (d : Denom) (amt : Int)
    (hs : Loc aid src) (hd : Loc aid dst) : OtherEsc aid b (b.move src dst d amt) := by
  intro x j hx hj d'
  have e1 : x ≠ src := by intro e; subst e; exact hj (hs j hx)
  have e2 : x ≠ dst := by intro e; subst e; exact hj (hd j hx)
  simp [move_apply, e1, e2]

/-! ### footprints -/

/-- only the bank changed, and no escrow of another auction -/
def BankOnly (aid : Nat) (s s' : Core) : Prop :=
  ∃ b', s' = { s with bank := b' } ∧ OtherEsc aid s.bank b'

theorem BankOnly.refl (aid : Nat) (s : Core) : BankOnly aid s s := ⟨s.bank, rfl, OtherEsc.refl _ _⟩

theorem BankOnly.trans {aid : Nat} {s s' s'' : Core} (h1 : BankOnly aid s s') (h2 : BankOnly aid s' s'') :
    BankOnly aid s s'' := by
  obtain ⟨b1, rfl, o1⟩ := h1
  obtain ⟨b2, rfl, o2⟩ := h2
  exact ⟨b2, rfl, o1.trans o2⟩

theorem BankOnly.views {aid : Nat} {s s' : Core} (h : BankOnly aid s s') : s'.views = s.views := by
  obtain ⟨b1, rfl, _⟩ := h; rfl
theorem BankOnly.params {aid : Nat} {s s' : Core} (h : BankOnly aid s s') : s'.params = s.params := by
  obtain ⟨b1, rfl, _⟩ := h; rfl
theorem BankOnly.now {aid : Nat} {s s' : Core} (h : BankOnly aid s s') : s'.now = s.now := by
  obtain ⟨b1, rfl, _⟩ := h; rfl
theorem BankOnly.enableAdd {aid : Nat} {s s' : Core} (h : BankOnly aid s s') : s'.enableAdd = s.enableAdd := by
  obtain ⟨b1, rfl, _⟩ := h; rfl
theorem BankOnly.bank {aid : Nat} {s s' : Core} (h : BankOnly aid s s') : OtherEsc aid s.bank s'.bank := by
  obtain ⟨b1, rfl, o⟩ := h; exact o

theorem bankOnly_of_eq {aid : Nat} {s s' : Core} (h : s' = s) : BankOnly aid s s' := by
  subst h; exact BankOnly.refl _ _

/-- the module state after a successful bank call: only the bank changed -/
theorem bankCall_core {c c' : Ctx} {k : XKind} {src dst : Addr} {coins : List Coin}
    (h : c.bankCall k src dst coins = .ok c') :
    ∃ b', c.s.bank.sendCoins src dst coins = some b' ∧ c'.s = { c.s with bank := b' } := by
  obtain ⟨_, b, hb, rfl⟩ := bankCall_ok h
  exact ⟨b, hb, rfl⟩

theorem bankCall_only {aid : Nat} {c c' : Ctx} {k : XKind} {src dst : Addr} {coins : List Coin}
    (h : c.bankCall k src dst coins = .ok c') (hs : Loc aid src) (hd : Loc aid dst) :
    BankOnly aid c.s c'.s := by
  obtain ⟨b', hb, e⟩ := bankCall_core h
  exact ⟨b', e, sendCoins_other hs hd hb⟩

/-- `mkCoins` followed by a bank call: one `move` -/
theorem send_mk {c0 c c' : Ctx} {k : XKind} {src dst : Addr} {d : Denom} {amt : Int} {coins : List Coin}
    (h1 : mkCoins c0 d amt = .ok coins) (h2 : c.bankCall k src dst coins = .ok c') :
    0 ≤ amt ∧ c'.s = { c.s with bank := c.s.bank.move src dst d amt } := by
  obtain ⟨hnn, rfl⟩ := mkCoins_ok h1
  obtain ⟨b', hb, hs⟩ := bankCall_core h2
  rw [sendCoins_mk hb] at hs
  exact ⟨hnn, hs⟩

theorem hook_only {aid : Nat} {c c' : Ctx} {name : String} {args : List String}
    (h : c.hook name args = .ok c') : BankOnly aid c.s c'.s :=
  bankOnly_of_eq (hook_ok h).1

/-- the footprint of a successful operation on auction `aid` -/
structure FP (aid : Nat) (s s' : Core) : Prop where
  len : s'.views.length = s.views.length
  others : ∀ j, j ≠ aid → s'.views[j]? = s.views[j]?
  bank : OtherEsc aid s.bank s'.bank
  params : s'.params = s.params
  now : s'.now = s.now
  enableAdd : s'.enableAdd = s.enableAdd

theorem FP.refl (aid : Nat) (s : Core) : FP aid s s :=
  ⟨rfl, fun _ _ => rfl, OtherEsc.refl _ _, rfl, rfl, rfl⟩

theorem FP.trans {aid : Nat} {s s' s'' : Core} (h1 : FP aid s s') (h2 : FP aid s' s'') : FP aid s s'' :=
  ⟨h2.len.trans h1.len, fun j hj => (h2.others j hj).trans (h1.others j hj), h1.bank.trans h2.bank,
   h2.params.trans h1.params, h2.now.trans h1.now, h2.enableAdd.trans h1.enableAdd⟩

theorem BankOnly.fp {aid : Nat} {s s' : Core} (h : BankOnly aid s s') : FP aid s s' := by
  obtain ⟨b1, rfl, o⟩ := h
  exact ⟨rfl, fun _ _ => rfl, o, rfl, rfl, rfl⟩

theorem fp_setView (c : Ctx) (aid : Nat) (v' : AView) : FP aid c.s (c.setView aid v').s :=
  ⟨by rw [setView_views, List.length_set],
   fun j hj => by rw [setView_views, List.getElem?_set_ne (Ne.symm hj)],
   OtherEsc.refl _ _, rfl, rfl, rfl⟩

theorem setView_get {c : Ctx} {aid : Nat} {v : AView} (v' : AView) (h : c.s.views[aid]? = some v) :
    (c.setView aid v').s.views[aid]? = some v' := by
  rw [setView_views, List.getElem?_set_self (lt_of_get h)]

theorem FP.same {aid j : Nat} {s s' : Core} (h : FP aid s s') (hj : j ≠ aid) : SameEscrows s s' j :=
  h.bank.same hj

/-! ### `ViewStep` is reflexive -/

theorem statusEdge_refl (a : Status) : statusEdge a a = true := by cases a <;> rfl

theorem viewStep_refl (v : AView) : ViewStep v v where
  status := statusEdge_refl _
  terms := rfl
  ends := ⟨[], by simp⟩
  bidsKept := ⟨[], by simp⟩
  bidsGrow := fun b hb => ⟨b, hb, rfl, Int.le_refl _, Int.le_refl _⟩
  allowedKept := fun x hx => ⟨x, hx, rfl⟩
  seq := Nat.le_refl _
  vqsKept := fun q hq => ⟨q, hq, rfl, rfl, id⟩

end Fundraising.Frame
